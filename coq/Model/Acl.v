(* Model of src/memvid/acl.rs (normalize_scalar, parse_acl_list, parse_acl_metadata,
   normalize_acl_context, validate_enforce_acl_context, evaluate_acl_metadata,
   AclFilterStats::record, Memvid::apply_acl_to_search_hits) and of the ACL stage of its
   four call sites (Memvid::search, vec_search_with_embedding_acl, search_adaptive_acl,
   ask).  Strings are lists of Unicode code points.  serde_json is two Section
   variables; HashSet<String> is a list used only through membership. *)
From MV Require Import Base.Prelude.
Local Open Scope N_scope.

Definition str := list N.
Definition str_eqb : str -> str -> bool := list_eqb N.eqb.

(* char::is_whitespace = Unicode White_Space *)
Definition is_ws (c : N) : bool :=
  ((9 <=? c) && (c <=? 13)) || (c =? 32) || (c =? 133) || (c =? 160) || (c =? 5760)
  || ((8192 <=? c) && (c <=? 8202)) || (c =? 8232) || (c =? 8233) || (c =? 8239)
  || (c =? 8287) || (c =? 12288).

(* str::trim_start / trim_end / trim *)
Fixpoint trim_start (s : str) : str :=
  match s with
  | [] => []
  | c :: r => if is_ws c then trim_start r else s
  end.
Definition trim_end (s : str) : str := rev (trim_start (rev s)).
Definition trim (s : str) : str := trim_end (trim_start s).

(* str::to_ascii_lowercase *)
Definition lower_c (c : N) : N := if (65 <=? c) && (c <=? 90) then c + 32 else c.
Definition lower (s : str) : str := map lower_c s.

Definition is_nil {A} (l : list A) : bool := match l with [] => true | _ => false end.

(* metadata: BTreeMap<String,String> as an association list; get = first binding *)
Definition meta := list (str * str).
Fixpoint mget (m : meta) (k : str) : option str :=
  match m with
  | [] => None
  | (k', v) :: r => if str_eqb k' k then Some v else mget r k
  end.

(* "acl_tenant_id" "acl_visibility" "acl_read_roles" "acl_read_groups" "acl_read_principals" *)
Definition K_TENANT : str := [97;99;108;95;116;101;110;97;110;116;95;105;100].
Definition K_VISIBILITY : str := [97;99;108;95;118;105;115;105;98;105;108;105;116;121].
Definition K_ROLES : str := [97;99;108;95;114;101;97;100;95;114;111;108;101;115].
Definition K_GROUPS : str := [97;99;108;95;114;101;97;100;95;103;114;111;117;112;115].
Definition K_PRINCIPALS : str := [97;99;108;95;114;101;97;100;95;112;114;105;110;99;105;112;97;108;115].
Definition S_PUBLIC : str := [112;117;98;108;105;99].
Definition S_RESTRICTED : str := [114;101;115;116;114;105;99;116;101;100].

(* AclContext (caller supplied) and NormalizedAclContext *)
Record acl_context := mkCtx {
  c_tenant : option str; c_subject : option str; c_roles : list str; c_groups : list str }.
Record norm_context := mkNctx {
  n_tenant : str; n_subject : option str; n_roles : list str; n_groups : list str }.

Record parsed_acl := mkParsed {
  p_tenant : str; p_public : bool; p_roles : list str; p_groups : list str; p_principals : list str }.

(* AclDecision *)
Record decision := mkDec { d_allowed : bool; d_cross : bool; d_missing : bool }.
Definition dec_allow := mkDec true false false.
Definition dec_cross := mkDec false true false.
Definition dec_missing := mkDec false false true.
Definition dec_restricted := mkDec false false false.

Inductive acl_mode := Audit | Enforce.

(* AclFilterStats *)
Record stats := mkStats { st_allowed : N; st_denied : N; st_cross : N; st_missing : N }.
Definition stats0 := mkStats 0 0 0 0.
Definition record_stat (s : stats) (d : decision) : stats :=
  if d_allowed d then mkStats (st_allowed s + 1) (st_denied s) (st_cross s) (st_missing s)
  else mkStats (st_allowed s) (st_denied s + 1)
               (if d_cross d then st_cross s + 1 else st_cross s)
               (if d_missing d then st_missing s + 1 else st_missing s).

(* error kinds of MemvidError::InvalidQuery raised by validate_enforce_acl_context *)
Definition E_CTX_REQUIRED : N := 1.     (* "acl_context is required when ... 'enforce'" *)
Definition E_TENANT_REQUIRED : N := 2.  (* "acl_context.tenant_id is required when ... 'enforce'" *)

Definition str_mem (x : str) (l : list str) : bool := existsb (str_eqb x) l.

Section Acl.
  Variable json_str : str -> option str.          (* serde_json::from_str::<String> *)
  Variable json_arr : str -> option (list str).   (* serde_json::from_str::<Vec<String>> *)

  Definition normalize_scalar (value : option str) : option str :=
    match value with
    | None => None
    | Some value =>
        let trimmed := trim value in
        if is_nil trimmed then None
        else
          let unwrapped := match json_str trimmed with
                           | Some parsed => trim parsed
                           | None => trimmed
                           end in
          if is_nil unwrapped then None else Some (lower unwrapped)
    end.

  (* the `for value in values { normalize_scalar(..).ok_or(())? ; insert }` loop *)
  Fixpoint normalize_all (values : list str) : option (list str) :=
    match values with
    | [] => Some []
    | v :: r =>
        match normalize_scalar (Some v) with
        | None => None
        | Some n => match normalize_all r with
                    | None => None
                    | Some ns => Some (n :: ns)
                    end
        end
    end.

  Definition parse_acl_list (m : meta) (key : str) : option (list str) :=
    match mget m key with
    | None => Some []
    | Some raw =>
        match json_arr raw with
        | None => None
        | Some values => normalize_all values
        end
    end.

  Definition parse_acl_metadata (m : meta) : option parsed_acl :=
    match normalize_scalar (mget m K_TENANT) with
    | None => None
    | Some tenant_id =>
        match normalize_scalar (mget m K_VISIBILITY) with
        | None => None
        | Some visibility_raw =>
            let vis := if str_eqb visibility_raw S_PUBLIC then Some true
                       else if str_eqb visibility_raw S_RESTRICTED then Some false
                       else None in
            match vis with
            | None => None
            | Some is_public =>
                match parse_acl_list m K_ROLES with
                | None => None
                | Some roles =>
                    match parse_acl_list m K_GROUPS with
                    | None => None
                    | Some groups =>
                        match parse_acl_list m K_PRINCIPALS with
                        | None => None
                        | Some principals => Some (mkParsed tenant_id is_public roles groups principals)
                        end
                    end
                end
            end
        end
    end.

  (* filter_map(|x| normalize_scalar(Some(x))) *)
  Fixpoint normalize_some (l : list str) : list str :=
    match l with
    | [] => []
    | x :: r => match normalize_scalar (Some x) with
                | Some n => n :: normalize_some r
                | None => normalize_some r
                end
    end.

  Definition normalize_acl_context (context : option acl_context) : option norm_context :=
    match context with
    | None => None
    | Some context =>
        match normalize_scalar (c_tenant context) with
        | None => None
        | Some tenant_id =>
            Some (mkNctx tenant_id
                         (match c_subject context with
                          | None => None
                          | Some v => normalize_scalar (Some v)
                          end)
                         (normalize_some (c_roles context))
                         (normalize_some (c_groups context)))
        end
    end.

  Definition validate_enforce_acl_context (context : option acl_context) : outcome norm_context :=
    match context with
    | None => Err E_CTX_REQUIRED
    | Some context =>
        match normalize_acl_context (Some context) with
        | None => Err E_TENANT_REQUIRED
        | Some n => Ok n
        end
    end.

  Definition evaluate_acl_metadata (m : meta) (context : option norm_context) : decision :=
    match context with
    | None => dec_allow
    | Some context =>
        match parse_acl_metadata m with
        | None => dec_missing
        | Some parsed =>
            if negb (str_eqb (p_tenant parsed) (n_tenant context)) then dec_cross
            else if p_public parsed then dec_allow
            else
              let principal_allowed := match n_subject context with
                                       | Some subject => str_mem subject (p_principals parsed)
                                       | None => false
                                       end in
              let role_allowed := existsb (fun role => str_mem role (p_roles parsed)) (n_roles context) in
              let group_allowed := existsb (fun g => str_mem g (p_groups parsed)) (n_groups context) in
              if principal_allowed || role_allowed || group_allowed then dec_allow else dec_restricted
        end
    end.

  (* the verification hook verif_acl_decide *)
  Definition acl_decide (m : meta) (context : acl_context) : option (bool * bool * bool) :=
    match normalize_acl_context (Some context) with
    | None => None
    | Some n => let d := evaluate_acl_metadata m (Some n) in
                Some (d_allowed d, d_cross d, d_missing d)
    end.

  (* ---------------- apply_acl_to_search_hits ---------------- *)
  Section Hits.
    Variable P : Type.                 (* everything in a SearchHit except rank and frame_id *)
    Record hit := mkHit { h_rank : N; h_frame : N; h_body : P }.

    Variable frame_meta : N -> option meta.   (* frame_by_id(id).extra_metadata; None = Err *)

    Definition decide_hit (n : option norm_context) (h : hit) : decision :=
      match frame_meta (h_frame h) with
      | Some m => evaluate_acl_metadata m n
      | None => dec_missing
      end.

    (* the `for hit in &*hits` loop *)
    Fixpoint filter_loop (n : option norm_context) (mode : acl_mode) (hits : list hit) (st : stats)
      : list hit * stats :=
      match hits with
      | [] => ([], st)
      | h :: r =>
          let d := decide_hit n h in
          let st' := record_stat st d in
          let '(fr, stf) := filter_loop n mode r st' in
          if d_allowed d || (match mode with Audit => true | Enforce => false end)
          then (h :: fr, stf) else (fr, stf)
      end.

    (* for (index, hit) in filtered.iter_mut().enumerate() { hit.rank = index + 1 } *)
    Fixpoint rerank_from (i : N) (hits : list hit) : list hit :=
      match hits with
      | [] => []
      | h :: r => mkHit (i + 1) (h_frame h) (h_body h) :: rerank_from (i + 1) r
      end.
    Definition rerank := rerank_from 0.

    Definition apply_acl (hits : list hit) (context : option acl_context) (mode : acl_mode)
      : outcome (list hit * stats) :=
      let normalized :=
        match mode with
        | Audit => Ok (normalize_acl_context context)
        | Enforce => match validate_enforce_acl_context context with
                     | Ok n => Ok (Some n)
                     | Err k => Err k
                     | Panic s => Panic s
                     end
        end in
      match normalized with
      | Err k => Err k
      | Panic s => Panic s
      | Ok None => Ok (hits, mkStats (N.of_nat (length hits)) 0 0 0)
      | Ok (Some n) =>
          let '(filtered, st) := filter_loop (Some n) mode hits stats0 in
          match mode with
          | Enforce => Ok (rerank filtered, st)
          | Audit => Ok (hits, st)
          end
      end.

    (* ---------------- call sites ---------------- *)
    Variable C : Type.                          (* the context string *)
    Variable build_context : list hit -> C.     (* helpers::build_context *)

    Record response := mkResp { r_hits : list hit; r_total : N; r_context : C }.
    Definition empty_response := mkResp [] 0 (build_context []).

    (* What Memvid::search did before its ACL stage: an error, one of the early
       `return Ok(empty_search_response(..))` exits, or the engine's response. *)
    Inductive pre_search := PreErr (k : N) | PreEmpty | PreResp (r : response).

    Definition search_acl (pre : pre_search) (context : option acl_context) (mode : acl_mode)
      : outcome response :=
      match pre with
      | PreErr k => Err k
      | PreEmpty => Ok empty_response
      | PreResp r =>
          match apply_acl (r_hits r) context mode with
          | Err k => Err k
          | Panic s => Panic s
          | Ok (hits', _) =>
              match mode with
              | Enforce => Ok (mkResp hits' (N.of_nat (length hits')) (build_context hits'))
              | Audit => Ok (mkResp hits' (r_total r) (r_context r))
              end
          end
      end.

    (* vec_search_with_embedding_acl: `pre` = error before the index search (VecNotEnabled,
       dimension mismatch) or the index's hit list (frame ids); `conv` = building a SearchHit
       from a frame id (None = one of the `continue`s: frame missing, out of scope, unreadable). *)
    Variable conv : N -> option P.

    Fixpoint vec_collect (top_k : nat) (ids : list N) (acc : list hit) : list hit :=
      match ids with
      | [] => rev acc
      | id :: r =>
          match conv id with
          | None => vec_collect top_k r acc
          | Some body =>
              let acc' := mkHit (N.of_nat (length acc) + 1) id body :: acc in
              if Nat.leb top_k (length acc') then rev acc' else vec_collect top_k r acc'
          end
      end.

    Definition vec_search_acl (pre : outcome (list N)) (top_k : nat)
               (context : option acl_context) (mode : acl_mode) : outcome response :=
      match pre with
      | Err k => Err k
      | Panic s => Panic s
      | Ok [] => Ok empty_response
      | Ok ids =>
          let hits := vec_collect top_k ids [] in
          match apply_acl hits context mode with
          | Err k => Err k
          | Panic s => Panic s
          | Ok (hits', _) => Ok (mkResp hits' (N.of_nat (length hits')) (build_context hits'))
          end
      end.

    (* search_adaptive_acl: vec search with max_results, then a prefix chosen by
       find_adaptive_cutoff (oracle `cutoff`), re-ranked *)
    Variable cutoff : list hit -> nat.
    Variable has_scores : list hit -> bool.   (* some hit carries a score *)

    Definition search_adaptive_acl (enabled : bool) (pre : outcome (list N)) (max_results : nat)
               (context : option acl_context) (mode : acl_mode) : outcome (list hit) :=
      match vec_search_acl pre max_results context mode with
      | Err k => Err k
      | Panic s => Panic s
      | Ok resp =>
          if negb enabled then Ok (r_hits resp)
          else if is_nil (r_hits resp) then Ok []
          else if negb (has_scores (r_hits resp)) then Ok (r_hits resp)
          else Ok (rerank (firstn (cutoff (r_hits resp)) (r_hits resp)))
      end.

    (* ask: `pre` = everything up to and including promote_corrections (internal searches --
       which themselves run search_acl / vec_search_acl with the same context -- fallbacks,
       RRF fusion, re-ranking): an error or the candidate hit list.  Then the final ACL
       stage, build_context, citations and context fragments (both are maps over the
       filtered hits: build_citations, and the AskContextFragment map). *)
    Record ask_response := mkAsk {
      a_hits : list hit; a_total : N; a_context : C;
      a_citations : list (N * N);        (* (index, frame_id) *)
      a_fragments : list (N * N) }.      (* (rank, frame_id) *)

    Fixpoint citations_from (i : N) (hits : list hit) : list (N * N) :=
      match hits with
      | [] => []
      | h :: r => (i + 1, h_frame h) :: citations_from (i + 1) r
      end.

    Definition ask_acl (pre : outcome (list hit * N)) (context_only : bool)
               (context : option acl_context) (mode : acl_mode) : outcome ask_response :=
      match pre with
      | Err k => Err k
      | Panic s => Panic s
      | Ok (hits, total) =>
          match apply_acl hits context mode with
          | Err k => Err k
          | Panic s => Panic s
          | Ok (hits', _) =>
              let total' := match mode with Enforce => N.of_nat (length hits') | Audit => total end in
              Ok (mkAsk hits' total' (build_context hits')
                        (if context_only then [] else citations_from 0 hits')
                        (map (fun h => (h_rank h, h_frame h)) hits'))
          end
      end.
  End Hits.
End Acl.

(* ------------------------------------------------------------------------------------
   The specification, written from the property text (not from the code): when a frame's
   ACL metadata grants a caller, and the three ways it denies one.
   ------------------------------------------------------------------------------------ *)
Section Spec.
  Variable json_str : str -> option str.
  Variable json_arr : str -> option (list str).

  (* a stored / supplied value `v` reads as the identifier `out`: present, not blank; if it
     is a JSON string literal (legacy bindings) its content is taken; compared trimmed and
     ASCII case-folded *)
  Definition reads_as (v : option str) (out : str) : Prop :=
    exists raw, v = Some raw /\ trim raw <> [] /\
      exists u, (match json_str (trim raw) with Some p => u = trim p | None => u = trim raw end)
                /\ u <> [] /\ out = lower u.

  (* an allow-list key: absent = empty list; present = a JSON array of strings each of which
     reads as an identifier *)
  Definition allow_list (m : meta) (key : str) (l : list str) : Prop :=
    (mget m key = None /\ l = []) \/
    (exists raw vs, mget m key = Some raw /\ json_arr raw = Some vs /\
                    Forall2 (fun v o => reads_as (Some v) o) vs l).

  (* well-formed ACL metadata and what it says *)
  Definition well_formed (m : meta) (tenant : str) (public : bool)
             (roles groups principals : list str) : Prop :=
    reads_as (mget m K_TENANT) tenant /\
    (exists v, reads_as (mget m K_VISIBILITY) v /\
               ((v = S_PUBLIC /\ public = true) \/ (v = S_RESTRICTED /\ public = false))) /\
    allow_list m K_ROLES roles /\ allow_list m K_GROUPS groups /\ allow_list m K_PRINCIPALS principals.

  (* one of the caller's credentials is on the matching allow-list *)
  Definition credential_match (c : acl_context) (roles groups principals : list str) : Prop :=
    (exists x s, c_subject c = Some x /\ reads_as (Some x) s /\ In s principals) \/
    (exists x r, In x (c_roles c) /\ reads_as (Some x) r /\ In r roles) \/
    (exists x g, In x (c_groups c) /\ reads_as (Some x) g /\ In g groups).

  Definition has_tenant (c : acl_context) : Prop := exists t, reads_as (c_tenant c) t.

  (* GRANT: metadata parses, same tenant, public or a credential matches *)
  Definition grants (m : meta) (c : acl_context) : Prop :=
    exists t pub ro gr pr, well_formed m t pub ro gr pr /\ reads_as (c_tenant c) t /\
                           (pub = true \/ credential_match c ro gr pr).
  (* DENY 1: other tenant *)
  Definition other_tenant (m : meta) (c : acl_context) : Prop :=
    exists t t' pub ro gr pr, well_formed m t pub ro gr pr /\ reads_as (c_tenant c) t' /\ t <> t'.
  (* DENY 2: restricted without matching principal / role / group *)
  Definition restricted_no_match (m : meta) (c : acl_context) : Prop :=
    exists t ro gr pr, well_formed m t false ro gr pr /\ reads_as (c_tenant c) t /\
                       ~ credential_match c ro gr pr.
  (* DENY 3: missing / invalid metadata *)
  Definition bad_metadata (m : meta) : Prop :=
    forall t pub ro gr pr, ~ well_formed m t pub ro gr pr.

  (* frame `id` exists and its metadata grants the caller *)
  Definition readable (frame_meta : N -> option meta) (c : acl_context) (id : N) : Prop :=
    exists m, frame_meta id = Some m /\ grants m c.

  (* Enforce "without a tenant": no context at all, or a context whose tenant is absent/blank *)
  Definition no_tenant (c : option acl_context) : Prop :=
    match c with None => True | Some c' => ~ has_tenant c' end.
End Spec.

(* the recorded finding F-C12-1: the early `return Ok(empty response)` exits taken before
   the ACL stage (known_class of the inputs on which "Enforce without a tenant is an error" fails) *)
Definition early_exit_search {P C} (pre : pre_search P C) : bool :=
  match pre with PreEmpty _ _ => true | _ => false end.
Definition early_exit_vec (pre : outcome (list N)) : bool :=
  match pre with Ok [] => true | _ => false end.

Arguments mkHit {P}.
Arguments h_rank {P}.
Arguments h_frame {P}.
Arguments h_body {P}.
Arguments r_hits {P C}.
Arguments r_total {P C}.
Arguments r_context {P C}.
Arguments a_hits {P C}.
Arguments a_total {P C}.
Arguments a_context {P C}.
Arguments a_citations {P C}.
Arguments a_fragments {P C}.

(* ------------------------------------------------------------------------------------
   Composition.  A later stage `post` (RRF fusion, re-ranking, correction / temporal
   promotion, diversification, adaptive cut-off, sampling) "only draws from the lists it
   is given" when every hit it returns has the frame of a hit of one of those lists.
   ------------------------------------------------------------------------------------ *)
Definition draws_from {P} (post : list (list (hit P)) -> list (hit P)) : Prop :=
  forall ls h, In h (post ls) -> exists l h', In l ls /\ In h' l /\ h_frame h' = h_frame h.

Section AskPipeline.
  Variable json_str : str -> option str.
  Variable json_arr : str -> option (list str).
  Variable P : Type.
  Variable frame_meta : N -> option meta.
  Variable C : Type.
  Variable build_context : list (hit P) -> C.

  (* Memvid::ask with its candidate lists spelled out: `filtered` = the lists that came out
     of search / vec_search_with_embedding_acl / search_adaptive_acl under the same context,
     `unfiltered` = lists sampled straight from the timeline (zero-hit fallback, analytical
     questions: build_timeline_fallback_response), `fuse` = everything between (RRF,
     re-ranking, promotions), and then -- as the LAST step -- the ACL pass of ask_acl. *)
  Definition ask_pipeline (fuse : list (list (hit P)) -> list (hit P))
             (filtered unfiltered : list (list (hit P))) (total : N) (context_only : bool)
             (context : option acl_context) (mode : acl_mode) : outcome (ask_response P C) :=
    ask_acl json_str json_arr P frame_meta C build_context
            (Ok (fuse (filtered ++ unfiltered), total)) context_only context mode.

  (* the variant WITHOUT the final pass (what the seeded change C12-1 makes of the analytical
     path): the fused list goes out as it is *)
  Definition ask_pipeline_no_final_pass (fuse : list (list (hit P)) -> list (hit P))
             (filtered unfiltered : list (list (hit P))) (total : N) (context_only : bool)
    : outcome (ask_response P C) :=
    let hits := fuse (filtered ++ unfiltered) in
    Ok (mkAsk P C hits total (build_context hits)
              (if context_only then [] else citations_from P 0 hits)
              (map (fun h => (h_rank h, h_frame h)) hits)).
End AskPipeline.
