(* M-Derived: the data a put derives from its document, on top of the frame-table model
   (Model/Store.v).  Follows the tail of put_internal in src/memvid/mutation.rs:

     let parent_seq = self.append_wal_entry(..)?;              (Store.append)
     if options.instant_index && tantivy.is_some() { temp_frame.id = <id>; engine.add_frame(..) }
     if needs_enrichment { self.toc.enrichment_queue.push(<id>) }
     for chunk in chunk_entries { append_wal_entry(..) }       (Store.append_chunks)
     self.dirty = true; if should_checkpoint { self.commit()? } (Store.auto_commit)
     if extract_triplets { let (cards, _) = extractor.extract(<id>, text, ..);
                           if !cards.is_empty() { let ids = memories_track.add_cards(cards);
                                                  memories_track.record_enrichment(<id>, "rules", "1.0.0", ids) } }
     Ok(parent_seq)

   <id> is `parent_seq as FrameId` in the code as it is (mode fixed = false) and
   `self.next_frame_id()` read before the append in the repaired code (fixed = true).

   The rule extractor is an oracle: the model only tracks HOW MANY cards it returned for a
   put (an input of the op), WHICH text was handed to it (the content tag of the put) and
   WHICH id was attached.  Cards, enrichment records and the queue live in memory and are
   written to the file by every commit; an exit without commit falls back to the last
   written copy (`saved`). *)
From MV Require Import Base.Prelude Model.Store.
Local Open Scope N_scope.

Record dflags := mkDF {
  df_instant : bool;   (* options.instant_index, with a Tantivy engine present and a non-blank text *)
  df_queue : bool;     (* needs_enrichment = instant_index && (enable_embedding || skim extraction) *)
  df_ncards : N }.     (* cards returned by TripletExtractor::extract (0 when extract_triplets is off) *)

(* c_text: content tag of the put whose text the card was extracted from; c_k: position in that extraction *)
Record card := mkCard { c_id : N; c_src : N; c_text : N; c_k : N }.

(* MemoriesTrack {cards, next_id, enrichment_manifest} and toc.enrichment_queue.
   stamps: one (frame_id, card_ids) per record_enrichment call, in call order.
   queue : (frame_id, content tag of the put that pushed it) -- the tag is ghost information *)
Record derived := mkDer {
  cards : list card; next_card : N; stamps : list (N * list N); queue : list (N * N) }.

Definition der0 : derived := mkDer [] 0 [] [].

(* in-memory copy, copy in the file, ids of the temporary frames handed to Tantivy since the
   last index rebuild (id, content tag) *)
Record dstate := mkDS { st : store; cur : derived; saved : derived; inst : list (N * N) }.

Definition ds0 : dstate := mkDS store0 der0 der0 [].

(* the id attached to everything a put derives *)
Definition der_id (fixed : bool) (s : store) : N :=
  if fixed then next_frame_id s else seqno s + 1.

(* MemoriesTrack::add_card for each extracted card: ids next_id, next_id+1, ... *)
Fixpoint mk_cards (first_id src tag : N) (k n : nat) : list card :=
  match n with
  | O => []
  | S m => mkCard first_id src tag (N.of_nat k) :: mk_cards (first_id + 1) src tag (S k) m
  end.

Definition add_cards (d : derived) (src tag ncards : N) : derived :=
  if ncards =? 0 then d
  else let cs := mk_cards (next_card d) src tag 0 (N.to_nat ncards) in
       mkDer (cards d ++ cs) (next_card d + ncards) (stamps d ++ [(src, map c_id cs)]) (queue d).

Definition push_queue (d : derived) (fid tag : N) : derived :=
  mkDer (cards d) (next_card d) (stamps d) (queue d ++ [(fid, tag)]).

Definition clear_queue (d : derived) : derived := mkDer (cards d) (next_card d) (stamps d) [].

(* the harness calls Memvid::memories_mut() after every put (which sets `dirty`), so that
   cards added after an automatic checkpoint are written by the next commit / drop *)
Definition touch (s : store) : store :=
  mkStore (committed s) (pending s) (seqno s) (pending_inserts s) true.

Inductive dop :=
| DPut (uk : option N) (tag nchunks : N) (auto : option N) (fl : dflags)
| DStore (op : sop)          (* update / delete / commit / reopen / crash / doctor: no derived data *)
| DDrain                     (* next_enrichment_task + process_enrichment_task + complete_enrichment_task until empty *)
| DObserve.                  (* read memories().cards() and the enrichment manifest *)

(* observation after every op: (number of cards, queue length, frame id of the first task) *)
Definition dobs := (N * N * option N)%type.
Definition observe_d (d : derived) : dobs :=
  (N.of_nat (length (cards d)), N.of_nat (length (queue d)),
   match queue d with [] => None | (fid, _) :: _ => Some fid end).

(* output of one op: store observation, derived observation, full card list (id, source_frame_id)
   and enrichment stamps (DObserve only), per-task "frame found" of a drain (DDrain only) *)
Definition dout := (sout * dobs * list (N * N) * list (N * list N) * list (N * bool))%type.

(* read_frame_for_enrichment: toc.frames.iter().find(|f| f.id == frame_id && f.status == Active) *)
Definition frame_found (s : store) (fid : N) : bool :=
  match get (committed s) fid with Some f => f_status f =? 0 | None => false end.

(* process_all_enrichment's loop: take the first task, process it, complete_enrichment_task(id)
   -- which removes EVERY task with that frame id (EnrichmentQueueManifest::remove is a retain) *)
Fixpoint drain_q (fuel : nat) (s : store) (q : list (N * N)) : list (N * bool) :=
  match fuel with
  | O => []
  | S k => match q with
           | [] => []
           | (fid, _) :: r => (fid, frame_found s fid) :: drain_q k s (filter (fun e => negb (fst e =? fid)) r)
           end
  end.

Definition sop_of (op : dop) : option sop :=
  match op with
  | DPut uk tag nchunks auto _ => Some (OPut uk tag nchunks 0 auto)
  | DStore o => Some o
  | _ => None
  end.

(* did this store op end with everything written to the file? *)
Definition op_saves (o : sop) : bool :=
  match o with
  | OPut _ _ _ _ auto => match auto with Some _ => true | None => false end
  | OUpdate _ _ _ auto => match auto with Some _ => true | None => false end
  | ODelete _ auto => match auto with Some _ => true | None => false end
  | OCommit _ => true
  | OReopen _ => true
  | ODoctor _ => true
  | OCrash _ => false
  end.

(* effect of a plain store op on the derived data *)
Definition dstore_after (o : sop) (ds : dstate) (s1 : store) : dstate :=
  match o with
  | OCrash _ =>
      (* exit without commit: the in-memory copies are gone, the file's are loaded *)
      mkDS s1 (saved ds) (saved ds) []
  | _ => if op_saves o then mkDS s1 (cur ds) (cur ds) [] else mkDS s1 (cur ds) (saved ds) (inst ds)
  end.

Definition dstep (fixed : bool) (ds : dstate) (op : dop) : dstate * dout :=
  match op with
  | DPut uk tag nchunks auto fl =>
      let s := st ds in
      let fid := der_id fixed s in
      let '(s3, o) := sstep s (OPut uk tag nchunks 0 auto) in
      let inst1 := if df_instant fl then inst ds ++ [(fid, tag)] else inst ds in
      let cur1 := if df_queue fl then push_queue (cur ds) fid tag else cur ds in
      (* the automatic checkpoint sits between the queue push and the extraction *)
      let saved1 := match auto with Some _ => cur1 | None => saved ds end in
      let inst2 := match auto with Some _ => [] | None => inst1 end in
      let cur2 := add_cards cur1 fid tag (df_ncards fl) in
      (mkDS (touch s3) cur2 saved1 inst2, (o, observe_d cur2, [], [], []))
  | DStore o =>
      let '(s1, out) := sstep (st ds) o in
      let ds1 := dstore_after o ds s1 in
      (ds1, (out, observe_d (cur ds1), [], [], []))
  | DDrain =>
      let s := st ds in
      let res := drain_q (length (queue (cur ds))) s (queue (cur ds)) in
      let s1 := match queue (cur ds) with [] => s | _ => touch s end in
      let cur1 := clear_queue (cur ds) in
      (mkDS s1 cur1 (saved ds) (inst ds), (observe s (Ok 0), observe_d cur1, [], [], res))
  | DObserve =>
      (ds, (observe (st ds) (Ok 0), observe_d (cur ds),
            map (fun c => (c_id c, c_src c)) (cards (cur ds)), stamps (cur ds), []))
  end.

Fixpoint drun (fixed : bool) (ds : dstate) (ops : list dop) : dstate * list dout :=
  match ops with
  | [] => (ds, [])
  | op :: r => let '(ds1, o) := dstep fixed ds op in
               let '(ds2, os) := drun fixed ds1 r in (ds2, o :: os)
  end.

(* the store-level observation inside a dout *)
Definition sout_of (o : dout) : sout := fst (fst (fst (fst o))).

(* ---- the known class of the code as it is: a put whose log sequence number differs from
        the id its document frame receives ---- *)
Definition known_class (s : store) : bool := negb (seqno s + 1 =? next_frame_id s).
