(* M-VecStore: the vector index of a Memvid on top of the frame-table model (Model/Store.v).
   Default cargo features (lex, pdf_extract, simd): VecIndexBuilder::finish has its HNSW
   switch under cfg(any(feature = "vec", feature = "hnsw_bench")) and product quantisation is
   only produced for vec *segments* (parallel_segments), so the index of toc.indexes.vec is
   always VecIndex::Uncompressed { documents }: a list of (frame id, embedding).

   Follows, line by line as far as the vector index is concerned:
     src/vec.rs                     VecIndex::{entries, remove, embedding_for} (Uncompressed)
     src/memvid/search/builders.rs  build_vec_artifact, load_vec_index_from_manifest
     src/memvid/search/api.rs       enable_vec
     src/memvid/mutation.rs         put_internal (enable on a non-empty embedding, the embedding
                                    travels inside the log record), update_frame (explicit
                                    embedding, else frame_embedding(old) when vec is enabled),
                                    apply_records (inserted_embeddings, remove on supersede /
                                    tombstone), commit_from_records / recover_wal
                                    (rebuild_indexes iff the delta is not empty), grow_wal_region
                                    (rewrites the TOC), vacuum
     src/memvid/lifecycle.rs        open: vec_enabled = manifest present; load the index
     src/memvid/doctor.rs           apply_pending_rebuilds (vec: enabled := true, the index is loaded
                                    and KEPT, the manifest dropped, then rebuild_indexes(&[], &[]))
   Repairs in /repo this model follows: 564c799 (an empty vector is no embedding), 83a83e8 (doctor's
   vector rebuild keeps the index), 8099cac (commit_from_records enables vec when the applied
   records carry embeddings; recover_wal now goes through commit_from_records).  The behaviour
   before 83a83e8 / 8099cac is kept as vcommit_unfixed / doctor_vec_unfixed for the record.
   Boundary: the index on file always decodes in this model (vdisk holds the documents); an
   index whose bytes no longer decode makes ensure_vec_index fail and the next rebuild write an
   empty index -- that is file damage (C20 / C21), not reachable here.
   An embedding is the list of the bit patterns of its f32 components. *)
From MV Require Import Base.Prelude Model.Store.
Local Open Scope N_scope.

Definition emb := list N.
Definition docs := list (N * emb).

(* VecIndex::remove: documents.retain(|doc| doc.frame_id != frame_id) *)
Definition vec_remove (fid : N) (d : docs) : docs := filter (fun x => negb (fst x =? fid)) d.
(* VecIndex::embedding_for: documents.iter().find(|doc| doc.frame_id == frame_id) *)
Fixpoint embedding_for (d : docs) (fid : N) : option emb :=
  match d with
  | [] => None
  | (a, e) :: r => if a =? fid then Some e else embedding_for r fid
  end.

Definition frame_is_active (frames : list frame) (fid : N) : bool :=
  match get frames fid with Some f => f_status f =? 0 | None => false end.

(* toc.indexes.vec together with the index it describes:
   None = no manifest; Some None = placeholder (bytes_length 0: nothing to load);
   Some (Some d) = an encoded index holding the documents d *)
Definition manifest := option (option docs).
Definition is_some {A} (o : option A) : bool := match o with Some _ => true | None => false end.

Record vst := mkV {
  venabled : bool;              (* Memvid.vec_enabled *)
  vmem : manifest;              (* in-memory TOC manifest + Memvid.vec_index *)
  vdisk : manifest;             (* the same as last written to the file *)
  pemb : list (option emb) }.   (* WalEntryData.embedding of each pending log record, in log order *)

Definition vst0 : vst := mkV false None None [].   (* Memvid::create, feature "vec" off *)

Definition index_of (m : manifest) : option docs := match m with Some (Some d) => Some d | _ => None end.
Definition mem_index (v : vst) : option docs := index_of (vmem v).
Definition docs_of (o : option docs) : docs := match o with Some d => d | None => [] end.
Definition mem_docs (v : vst) : docs := docs_of (mem_index v).

(* enable_vec: vec_enabled = true; dirty = true; placeholder manifest if there is none *)
Definition enable_vec (v : vst) : vst :=
  mkV true (match vmem v with None => Some None | m => m end) (vdisk v) (pemb v).
(* rewrite_toc_footer: the in-memory TOC reaches the file *)
Definition persist (v : vst) : vst := mkV (venabled v) (vmem v) (vmem v) (pemb v).
(* open: vec_enabled = toc.indexes.vec.is_some(); load_vec_index_from_manifest.  The pending
   log records (and the embeddings inside them) are in the file and stay. *)
Definition load (v : vst) : vst := mkV (is_some (vdisk v)) (vdisk v) (vdisk v) (pemb v).

Definition is_lex (e : entry) : bool := match e with ELex => true | _ => false end.
(* IngestionDelta::is_empty is false as soon as one frame record (insert or tombstone) was applied *)
Definition delta_nonempty (recs : list (N * entry)) : bool := existsb (fun se => negb (is_lex (snd se))) recs.

Definition opt_remove (fid : N) (idx : option docs) : option docs :=
  match idx with Some d => Some (vec_remove fid d) | None => None end.

(* one record of apply_records: (frame table state, in-memory index, delta.inserted_embeddings) *)
Definition vapply_entry (st : astate * option docs * docs) (x : (N * entry) * option emb) : astate * option docs * docs :=
  let '(a, idx, newd) := st in
  let '(se, oe) := x in
  let a' := apply_entry a se in
  match snd se with
  | ELex => (a', idx, newd)
  | ETomb t => (a', opt_remove t idx, newd)                  (* mark_frame_deleted -> remove_frame_from_indexes *)
  | EInsert _ _ _ _ supersedes _ _ =>
      let id := len (fst (fst a)) in                          (* frame_id = self.toc.frames.len() *)
      let newd' := match oe with Some e => newd ++ [(id, e)] | None => newd end in
      let idx' := match supersedes with Some p => opt_remove p idx | None => idx end in   (* mark_frame_superseded *)
      (a', idx', newd')
  end.

(* build_vec_artifact: None when vec is disabled; otherwise the entries of the old index whose
   frame is active, followed by the new documents (not filtered) *)
Definition build_vec_artifact (enabled : bool) (frames : list frame) (idx : option docs) (newd : docs) : option docs :=
  if enabled
  then Some (filter (fun x => frame_is_active frames (fst x)) (docs_of idx) ++ newd)
  else None.

(* the vector part of rebuild_indexes, which ends with rewrite_toc_footer.
   build_vec_artifact returns None only when vec is disabled: manifest and index are dropped. *)
Definition rebuild_indexes (v : vst) (frames : list frame) (idx : option docs) (newd : docs) : vst :=
  match build_vec_artifact (venabled v) frames idx newd with
  | Some d => mkV (venabled v) (Some (Some d)) (Some (Some d)) (pemb v)
  | None => mkV (venabled v) None None (pemb v)
  end.

Definition is_nil {A} (l : list A) : bool := match l with [] => true | _ => false end.

(* commit_from_records (recover_wal calls it too) over the pending records `recs` of a memory
   whose committed table is `frames` *)
Definition vcommit (frames : list frame) (recs : list (N * entry)) (v : vst) : vst :=
  let '(_, idx, newd) := fold_left vapply_entry (combine recs (pemb v)) ((frames, [], []), mem_index v, []) in
  (* if !delta.inserted_embeddings.is_empty() && !self.vec_enabled { self.enable_vec()? } *)
  let v0 := if negb (is_nil newd) && negb (venabled v) then enable_vec v else v in
  let v1 := if delta_nonempty recs then rebuild_indexes v0 (apply_records frames recs) idx newd else v0 in
  mkV (venabled v1) (vmem v1) (vmem v1) [].

(* before 8099cac: no enable_vec after apply_records *)
Definition vcommit_unfixed (frames : list frame) (recs : list (N * entry)) (v : vst) : vst :=
  let '(_, idx, newd) := fold_left vapply_entry (combine recs (pemb v)) ((frames, [], []), mem_index v, []) in
  let v1 := if delta_nonempty recs then rebuild_indexes v (apply_records frames recs) idx newd else v in
  mkV (venabled v1) (vmem v1) (vmem v1) [].

(* ---- operations: a store op of Model/Store.v with its vector-relevant arguments ---- *)
Inductive vinfo :=
| VNone
| VPut (parent : option emb) (chunks : option (list emb)) (grew : bool)  (* put_with_embedding / put_with_chunk_embeddings; grew: the log region grew during the call *)
| VUpd (explicit : option emb) (grew : bool)                             (* update_frame(.., embedding) *)
| VDel (grew : bool)
| VVacuum                                                                (* Memvid::vacuum (store op: OCommit) *)
| VDoctor (bits : N).                                                    (* DoctorOptions: 1 time, 2 lex, 4 vec, 8 vacuum *)

Inductive vop :=
| VOp (op : sop) (i : vinfo)
| VEnableVec.                                                            (* Memvid::enable_vec *)

Definition info_parent (i : vinfo) : option emb := match i with VPut p _ _ => p | _ => None end.
Definition info_chunks (i : vinfo) : option (list emb) := match i with VPut _ c _ => c | _ => None end.
Definition info_explicit (i : vinfo) : option emb := match i with VUpd e _ => e | _ => None end.
Definition info_grew (i : vinfo) : bool := match i with VPut _ _ g | VUpd _ g | VDel g => g | _ => false end.
Definition info_vacuum (i : vinfo) : bool := match i with VVacuum => true | _ => false end.
Definition info_bits (i : vinfo) : N := match i with VDoctor b => b | _ => 0 end.

Definition nonempty (e : emb) : bool := match e with [] => false | _ => true end.
(* put_internal: embedding.filter(|vector| !vector.is_empty()), same for each chunk embedding *)
Definition norm (oe : option emb) : option emb := match oe with Some e => if nonempty e then Some e else None | None => None end.
(* put_internal's incoming_dimension is Some(_) *)
Definition incoming_dimension (parent : option emb) (chunks : option (list emb)) : bool :=
  (match parent with Some e => nonempty e | None => false end)
  || (match chunks with Some l => existsb nonempty l | None => false end).

(* chunk idx gets chunk_embeddings.get(idx) *)
Definition chunk_embs (chunks : option (list emb)) (n : nat) : list (option emb) :=
  map (fun i => match chunks with Some l => nth_error l i | None => None end) (seq 0 n).

Definition add_pemb (v : vst) (l : list (option emb)) : vst := mkV (venabled v) (vmem v) (vdisk v) (pemb v ++ l).
Definition enable_if (b : bool) (v : vst) : vst := if b then (if venabled v then v else enable_vec v) else v.
Definition grow (g : bool) (v : vst) : vst := if g then persist v else v.

Definition no_auto (op : sop) : sop :=
  match op with
  | OPut a b c d _ => OPut a b c d None
  | OUpdate a b c _ => OUpdate a b c None
  | ODelete a _ => ODelete a None
  | o => o
  end.
Definition op_auto (op : sop) : option N :=
  match op with OPut _ _ _ _ a | OUpdate _ _ _ a | ODelete _ a => a | _ => None end.

(* the automatic checkpoint at the end of a mutating call is commit() *)
Definition vauto (s_app : store) (auto : option N) (v : vst) : vst :=
  match auto with Some _ => vcommit (committed s_app) (pending s_app) v | None => v end.

Definition accepted (s : store) (target : N) : bool :=
  match get (committed s) target with Some old => f_status old =? 0 | None => false end.

Definition bit (b : N) (k : N) : bool := N.testbit b k.

(* Memvid::doctor on the closed file `v` whose committed table is `frames` (nothing pending) *)
Definition doctor_vec (bits : N) (frames : list frame) (v : vst) : vst :=
  (* vacuum phase first: Memvid::vacuum = commit (nothing to do) + rebuild_indexes(&[], &[]) *)
  let v1 := if bit bits 3 then rebuild_indexes v frames (mem_index v) [] else v in
  (* apply_pending_rebuilds *)
  if bit bits 2
  then (* vec_enabled = true; ensure_vec_index(); toc.indexes.vec = None; the loaded index stays *)
       rebuild_indexes (mkV true (vmem v1) (vdisk v1) (pemb v1)) frames (mem_index v1) []
  else if bit bits 0 || bit bits 1
       then rebuild_indexes v1 frames (mem_index v1) []
       else v1.

(* before 83a83e8: manifest AND index dropped before the rebuild *)
Definition doctor_vec_unfixed (bits : N) (frames : list frame) (v : vst) : vst :=
  let v1 := if bit bits 3 then rebuild_indexes v frames (mem_index v) [] else v in
  if bit bits 2
  then rebuild_indexes (mkV true None (vdisk v1) (pemb v1)) frames None []
  else if bit bits 0 || bit bits 1
       then rebuild_indexes v1 frames (mem_index v1) []
       else v1.

Definition vtrans (s : store) (op : sop) (i : vinfo) (v : vst) : vst :=
  let s_app := fst (sstep s (no_auto op)) in
  match op with
  | OPut _ _ nchunks _ auto =>
      let v1 := enable_if (incoming_dimension (info_parent i) (info_chunks i)) v in
      let v2 := add_pemb v1 (norm (info_parent i) :: map norm (chunk_embs (info_chunks i) (N.to_nat nchunks))) in
      vauto s_app auto (grow (info_grew i) v2)
  | OUpdate target _ _ auto =>
      if accepted s target then
        let eff := match info_explicit i with
                   | Some e => Some e
                   | None => if venabled v then embedding_for (mem_docs v) target else None   (* frame_embedding *)
                   end in
        let v1 := enable_if (incoming_dimension eff None) v in
        vauto s_app auto (grow (info_grew i) (add_pemb v1 [norm eff]))
      else v
  | ODelete target auto =>
      if accepted s target then vauto s_app auto (grow (info_grew i) (add_pemb v [None])) else v
  | OCommit _ =>
      let v1 := match pending s, dirty s with
                | [], false => v
                | _, _ => vcommit (committed s) (pending s) v
                end in
      if info_vacuum i then rebuild_indexes v1 (view s) (mem_index v1) [] else v1
  | OReopen extra =>
      let v1 := if dirty s then vcommit (committed s) (pending s) v else v in
      let s1 := if dirty s then do_commit s extra else bump s extra in
      let v2 := load v1 in
      match pending s1 with [] => v2 | _ => vcommit (committed s1) (pending s1) v2 end
  | OCrash _ =>
      let v1 := load v in
      match pending s with [] => v1 | _ => vcommit (committed s) (pending s) v1 end
  | ODoctor _ =>
      let v1 := if dirty s then vcommit (committed s) (pending s) v else v in
      let s1 := if dirty s then do_commit s 0 else s in
      let v2 := load v1 in
      let v3 := match pending s1 with [] => v2 | _ => vcommit (committed s1) (pending s1) v2 end in
      load (doctor_vec (info_bits i) (view s) v3)
  end.

(* what the handle shows: Stats.vec_enabled, Stats.has_vec_index, Stats.vector_count, and the
   documents of the loaded index (None: search_vec answers VecNotEnabled) *)
Definition vobs := (bool * bool * N * option docs)%type.
Definition observe_vec (v : vst) : vobs :=
  (venabled v, is_some (vmem v), N.of_nat (length (mem_docs v)), mem_index v).

Definition set_dirty (s : store) : store := mkStore (committed s) (pending s) (seqno s) (pending_inserts s) true.

Definition vstate := (store * vst)%type.
Definition vout := (sout * vobs)%type.

Definition vstep (st : vstate) (x : vop) : vstate * vout :=
  let '(s, v) := st in
  match x with
  | VOp op i =>
      let '(s1, o) := sstep s op in
      let v1 := vtrans s op i v in
      ((s1, v1), (o, observe_vec v1))
  | VEnableVec =>
      let s1 := set_dirty s in
      let v1 := enable_vec v in
      ((s1, v1), (observe s1 (Ok 0), observe_vec v1))
  end.

Fixpoint vrun (st : vstate) (ops : list vop) : vstate * list vout :=
  match ops with
  | [] => (st, [])
  | x :: r => let '(st1, o) := vstep st x in
              let '(st2, os) := vrun st1 r in (st2, o :: os)
  end.

Definition vstate0 : vstate := (store0, vst0).

