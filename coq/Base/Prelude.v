(* Base definitions shared by every model: bytes, little-endian integers,
   hex literals for the correspondence cases, boolean equality class. *)
From Coq Require Export List NArith ZArith Bool Lia Arith.
From Coq Require Import String Ascii.
Export ListNotations.
Local Open Scope N_scope.

Arguments N.add : simpl never.
Arguments N.sub : simpl never.
Arguments N.mul : simpl never.
Arguments N.eqb : simpl never.
Arguments N.ltb : simpl never.
Arguments N.leb : simpl never.
Arguments N.div : simpl never.
Arguments N.modulo : simpl never.
Arguments N.pow : simpl never.
Arguments N.of_nat : simpl never.
Arguments N.to_nat : simpl never.
Arguments Z.add : simpl never.
Arguments Z.sub : simpl never.
Arguments Z.mul : simpl never.
Arguments Z.eqb : simpl never.
Arguments Z.ltb : simpl never.
Arguments Z.leb : simpl never.

Definition bytes := list N.

Definition byte_ok (b : N) : bool := b <? 256.
Definition bytes_ok (bs : bytes) : bool := forallb byte_ok bs.

(* slice b off len = b[off .. off+len) (shorter if out of range) *)
Definition slice {A} (b : list A) (off len : nat) : list A := firstn len (skipn off b).

(* ---- little endian ---- *)
Fixpoint le_decode (bs : bytes) : N :=
  match bs with
  | [] => 0
  | b :: r => b + 256 * le_decode r
  end.

Fixpoint le_encode (n : nat) (v : N) : bytes :=
  match n with
  | O => []
  | S n' => (v mod 256) :: le_encode n' (v / 256)
  end.

(* ---- boolean equality on bytes / lists ---- *)
Fixpoint list_eqb {A} (e : A -> A -> bool) (a b : list A) : bool :=
  match a, b with
  | [], [] => true
  | x :: a', y :: b' => e x y && list_eqb e a' b'
  | _, _ => false
  end.

Definition bytes_eqb := list_eqb N.eqb.

(* ---- Eqb class used by the correspondence cases ---- *)
Class Eqb (A : Type) := eqb : A -> A -> bool.
#[global] Instance Eqb_N : Eqb N := N.eqb.
#[global] Instance Eqb_Z : Eqb Z := Z.eqb.
#[global] Instance Eqb_nat : Eqb nat := Nat.eqb.
#[global] Instance Eqb_bool : Eqb bool := Bool.eqb.
#[global] Instance Eqb_unit : Eqb unit := fun _ _ => true.
#[global] Instance Eqb_string : Eqb string := String.eqb.
#[global] Instance Eqb_list {A} `{Eqb A} : Eqb (list A) := list_eqb eqb.
#[global] Instance Eqb_option {A} `{Eqb A} : Eqb (option A) :=
  fun a b => match a, b with
             | None, None => true
             | Some x, Some y => eqb x y
             | _, _ => false
             end.
#[global] Instance Eqb_prod {A B} `{Eqb A} `{Eqb B} : Eqb (A * B) :=
  fun a b => eqb (fst a) (fst b) && eqb (snd a) (snd b).

(* mismatches f cases = indices (from 0) of the cases on which the model's
   output differs from the implementation's recorded output *)
Fixpoint mismatches_from {A B} `{Eqb B} (f : A -> B) (i : N) (cs : list (A * B)) : list N :=
  match cs with
  | [] => []
  | (a, b) :: r =>
      if eqb (f a) b then mismatches_from f (i + 1) r
      else i :: mismatches_from f (i + 1) r
  end.
Definition mismatches {A B} `{Eqb B} (f : A -> B) (cs : list (A * B)) : list N :=
  mismatches_from f 0 cs.

(* ---- hex literals: hex "0aff" = [10; 255] ---- *)
Definition hexval (c : ascii) : N :=
  let n := N_of_ascii c in
  if (48 <=? n) && (n <=? 57) then n - 48
  else if (97 <=? n) && (n <=? 102) then n - 87
  else if (65 <=? n) && (n <=? 70) then n - 55
  else 0.
Fixpoint hex (s : string) : bytes :=
  match s with
  | String a (String b r) => (16 * hexval a + hexval b) :: hex r
  | _ => []
  end.

Arguments hex _%string.

(* three-valued result of a fallible Rust function *)
Inductive outcome (A : Type) : Type :=
| Ok (a : A)
| Err (kind : N)
| Panic (site : N).
Arguments Ok {A} a.
Arguments Err {A} kind.
Arguments Panic {A} site.
#[global] Instance Eqb_outcome {A} `{Eqb A} : Eqb (outcome A) :=
  fun a b => match a, b with
             | Ok x, Ok y => eqb x y
             | Err x, Err y => N.eqb x y
             | Panic _, Panic _ => true
             | _, _ => false
             end.
