(* Stable sorting, generically over a boolean comparison [leb] that is a total preorder.

   Self-contained (Coq standard library only).  Rust's [slice::sort_by] / [sort_by_key]
   are stable sorts; this file shows that under a total preorder the result of a stable
   sort is UNIQUE, so it does not matter which stable algorithm the implementation uses
   (insertion sort below 20 elements, driftsort above): it is [isort].

   Contents
     insert / isort           stable insertion sort
     merge / msort            stable top-down merge sort (contiguous halves)
     sorted, stable_of        specification: sorted, and every class of tied elements
                              keeps its original relative order
     isort_sorted, isort_perm, isort_stable      isort meets the specification
     stable_sort_unique       any list meeting the specification equals [isort l]
     msort_eq_isort           hence msort = isort
     best / find_isort        "first element satisfying p in the sorted list" computed
                              by one pass over the unsorted list, and its characterisation
                              [best_some_iff] (the first among the minimal ones) *)
From Coq Require Import List Bool Arith Permutation.
Import ListNotations.

Section StableSort.
  Variable A : Type.
  Variable leb : A -> A -> bool.

  Fixpoint insert (x : A) (l : list A) : list A :=
    match l with
    | [] => [x]
    | y :: r => if leb x y then x :: y :: r else y :: insert x r
    end.

  (* the head of the input is inserted last, in front of everything it is <= to,
     so it stays in front of the elements it is tied with *)
  Fixpoint isort (l : list A) : list A :=
    match l with
    | [] => []
    | x :: r => insert x (isort r)
    end.

  (* left element first on ties *)
  Fixpoint merge (l1 : list A) : list A -> list A :=
    fix aux (l2 : list A) : list A :=
      match l1, l2 with
      | [], _ => l2
      | _, [] => l1
      | a1 :: r1, a2 :: r2 => if leb a1 a2 then a1 :: merge r1 l2 else a2 :: aux r2
      end.

  (* fuel = length is always enough; when it runs out the remainder is sorted by [isort],
     so the function is a stable sort for every fuel *)
  Fixpoint msort_fuel (n : nat) (l : list A) : list A :=
    match n with
    | O => isort l
    | S n' =>
        match l with
        | [] => []
        | [x] => [x]
        | _ => let k := Nat.div2 (length l) in
               merge (msort_fuel n' (firstn k l)) (msort_fuel n' (skipn k l))
        end
    end.
  Definition msort (l : list A) : list A := msort_fuel (length l) l.

  Definition equivb (a b : A) : bool := leb a b && leb b a.

  Fixpoint sorted (l : list A) : Prop :=
    match l with
    | [] => True
    | x :: r => (forall y, In y r -> leb x y = true) /\ sorted r
    end.

  (* l' keeps, for every x, the elements tied with x in the order they have in l *)
  Definition stable_of (l l' : list A) : Prop :=
    forall x, filter (equivb x) l' = filter (equivb x) l.

  Definition is_stable_sort (l l' : list A) : Prop :=
    sorted l' /\ Permutation l' l /\ stable_of l l'.

  (* ---------- facts that need nothing about leb ---------- *)
  Lemma insert_perm : forall x l, Permutation (insert x l) (x :: l).
  Proof.
    intros x l; induction l as [|y r IH]; simpl.
    - apply Permutation_refl.
    - destruct (leb x y).
      + apply Permutation_refl.
      + eapply Permutation_trans; [apply perm_skip, IH | apply perm_swap].
  Qed.

  Lemma isort_perm : forall l, Permutation (isort l) l.
  Proof.
    induction l as [|x r IH]; simpl.
    - apply Permutation_refl.
    - eapply Permutation_trans; [apply insert_perm | apply perm_skip, IH].
  Qed.

  Lemma isort_In : forall l x, In x (isort l) <-> In x l.
  Proof.
    intros l x; split; intro H.
    - eapply Permutation_in; [apply isort_perm | exact H].
    - eapply Permutation_in; [apply Permutation_sym, isort_perm | exact H].
  Qed.

  Lemma isort_length : forall l, length (isort l) = length l.
  Proof. intro l. apply Permutation_length, isort_perm. Qed.

  Lemma merge_nil_r : forall l, merge l [] = l.
  Proof. destruct l; reflexivity. Qed.

  Lemma merge_perm : forall l1 l2, Permutation (merge l1 l2) (l1 ++ l2).
  Proof.
    induction l1 as [|a1 r1 IH1]; intro l2.
    - destruct l2; apply Permutation_refl.
    - induction l2 as [|a2 r2 IH2].
      + rewrite merge_nil_r, app_nil_r. apply Permutation_refl.
      + change (merge (a1 :: r1) (a2 :: r2))
          with (if leb a1 a2 then a1 :: merge r1 (a2 :: r2) else a2 :: merge (a1 :: r1) r2).
        destruct (leb a1 a2).
        * simpl. apply perm_skip, IH1.
        * eapply Permutation_trans; [apply perm_skip, IH2|].
          change ((a1 :: r1) ++ a2 :: r2) with (a1 :: (r1 ++ a2 :: r2)).
          eapply Permutation_trans; [|apply perm_skip, Permutation_middle].
          simpl. apply perm_swap.
  Qed.

  (* ---------- the order hypotheses ---------- *)
  Hypothesis leb_total : forall a b, leb a b = true \/ leb b a = true.
  Hypothesis leb_trans : forall a b c, leb a b = true -> leb b c = true -> leb a c = true.

  Lemma leb_refl : forall a, leb a a = true.
  Proof. intro a. destruct (leb_total a a); assumption. Qed.

  Lemma leb_false_flip : forall a b, leb a b = false -> leb b a = true.
  Proof. intros a b H. destruct (leb_total a b) as [H'|H']; congruence. Qed.

  Lemma equivb_refl : forall a, equivb a a = true.
  Proof. intro a. unfold equivb. rewrite leb_refl. reflexivity. Qed.

  Lemma insert_sorted : forall x l, sorted l -> sorted (insert x l).
  Proof.
    intros x l; induction l as [|y r IH]; simpl; intro Hs.
    - split; [intros y []|exact I].
    - destruct Hs as [Hy Hr]. destruct (leb x y) eqn:E; simpl.
      + split; [|split; assumption].
        intros z [Hz|Hz]; [subst; assumption|].
        eapply leb_trans; [exact E|apply Hy, Hz].
      + split; [|apply IH, Hr].
        intros z Hz. apply (Permutation_in _ (insert_perm x r)) in Hz.
        destruct Hz as [Hz|Hz]; [subst; apply leb_false_flip, E|apply Hy, Hz].
  Qed.

  Lemma isort_sorted : forall l, sorted (isort l).
  Proof. induction l as [|x r IH]; simpl; [exact I|apply insert_sorted, IH]. Qed.

  Lemma equiv_both_leb : forall z x y, equivb z x = true -> equivb z y = true -> leb x y = true.
  Proof.
    unfold equivb; intros z x y Hx Hy.
    apply andb_true_iff in Hx; apply andb_true_iff in Hy.
    destruct Hx as [_ Hx]; destruct Hy as [Hy _]. eapply leb_trans; eassumption.
  Qed.

  Lemma insert_filter : forall z x l,
      filter (equivb z) (insert x l) =
      if equivb z x then x :: filter (equivb z) l else filter (equivb z) l.
  Proof.
    intros z x l; induction l as [|y r IH]; simpl.
    - destruct (equivb z x); reflexivity.
    - destruct (leb x y) eqn:E; simpl.
      + destruct (equivb z x); reflexivity.
      + rewrite IH. destruct (equivb z x) eqn:Ex; destruct (equivb z y) eqn:Ey; try reflexivity.
        rewrite (equiv_both_leb z x y Ex Ey) in E. discriminate.
  Qed.

  Lemma isort_stable : forall l, stable_of l (isort l).
  Proof.
    intros l x; induction l as [|a r IH]; simpl; [reflexivity|].
    rewrite insert_filter, IH. reflexivity.
  Qed.

  Theorem isort_is_stable_sort : forall l, is_stable_sort l (isort l).
  Proof. intro l. split; [apply isort_sorted|split; [apply isort_perm|apply isort_stable]]. Qed.

  Lemma filter_head_in : forall (f : A -> bool) l a r, filter f l = a :: r -> In a l /\ f a = true.
  Proof.
    intros f l a r H. assert (Hin : In a (filter f l)) by (rewrite H; left; reflexivity).
    apply filter_In in Hin. exact Hin.
  Qed.

  Lemma sorted_stable_unique : forall l1 l2,
      sorted l1 -> sorted l2 ->
      (forall x, filter (equivb x) l1 = filter (equivb x) l2) -> l1 = l2.
  Proof.
    induction l1 as [|a r1 IH]; intros l2 Hs1 Hs2 Hf.
    - destruct l2 as [|b r2]; [reflexivity|].
      specialize (Hf b). simpl in Hf. rewrite equivb_refl in Hf. discriminate.
    - destruct l2 as [|b r2].
      + specialize (Hf a). simpl in Hf. rewrite equivb_refl in Hf. discriminate.
      + destruct Hs1 as [Ha Hs1]; destruct Hs2 as [Hb Hs2].
        assert (Hab : leb a b = true).
        { pose proof (Hf b) as H. simpl in H. rewrite equivb_refl in H.
          destruct (equivb b a) eqn:E.
          - unfold equivb in E. apply andb_true_iff in E. tauto.
          - apply filter_head_in in H. destruct H as [Hin _]. apply Ha, Hin. }
        assert (Hba : leb b a = true).
        { pose proof (Hf a) as H. simpl in H. rewrite equivb_refl in H.
          destruct (equivb a b) eqn:E.
          - unfold equivb in E. apply andb_true_iff in E. tauto.
          - symmetry in H. apply filter_head_in in H. destruct H as [Hin _]. apply Hb, Hin. }
        assert (Eab : equivb a b = true) by (unfold equivb; rewrite Hab, Hba; reflexivity).
        assert (a = b).
        { pose proof (Hf a) as H. simpl in H. rewrite equivb_refl, Eab in H. congruence. }
        subst b. f_equal. apply IH; try assumption.
        intro x. pose proof (Hf x) as H. simpl in H.
        destruct (equivb x a); [congruence|exact H].
  Qed.

  (* the result of a stable sort is unique: whatever algorithm, it is [isort l] *)
  Theorem stable_sort_unique : forall l l',
      sorted l' -> stable_of l l' -> l' = isort l.
  Proof.
    intros l l' Hs Hst. apply sorted_stable_unique; [assumption|apply isort_sorted|].
    intro x. rewrite Hst. symmetry. apply isort_stable.
  Qed.

  Corollary is_stable_sort_unique : forall l l', is_stable_sort l l' -> l' = isort l.
  Proof. intros l l' (Hs & _ & Hst). apply stable_sort_unique; assumption. Qed.

  Lemma sorted_isort_id : forall l, sorted l -> isort l = l.
  Proof. intros l Hs. symmetry. apply stable_sort_unique; [assumption|intro x; reflexivity]. Qed.

  Lemma isort_idem : forall l, isort (isort l) = isort l.
  Proof. intro l. apply sorted_isort_id, isort_sorted. Qed.

  (* ---------- merge ---------- *)
  Lemma merge_cons : forall a1 r1 a2 r2,
      merge (a1 :: r1) (a2 :: r2) =
      if leb a1 a2 then a1 :: merge r1 (a2 :: r2) else a2 :: merge (a1 :: r1) r2.
  Proof. reflexivity. Qed.

  Lemma merge_sorted : forall l1 l2, sorted l1 -> sorted l2 -> sorted (merge l1 l2).
  Proof.
    induction l1 as [|a1 r1 IH1]; intros l2 H1 H2.
    - destruct l2; exact H2.
    - induction l2 as [|a2 r2 IH2].
      + rewrite merge_nil_r. exact H1.
      + rewrite merge_cons. destruct H1 as [Ha1 Hr1]. destruct H2 as [Ha2 Hr2].
        destruct (leb a1 a2) eqn:E.
        * split; [|apply IH1; [exact Hr1|split; assumption]].
          intros z Hz. apply (Permutation_in _ (merge_perm r1 (a2 :: r2))) in Hz.
          apply in_app_or in Hz. destruct Hz as [Hz|[Hz|Hz]].
          -- apply Ha1, Hz.
          -- subst; exact E.
          -- eapply leb_trans; [exact E|apply Ha2, Hz].
        * split; [|apply IH2; exact Hr2].
          intros z Hz. apply (Permutation_in _ (merge_perm (a1 :: r1) r2)) in Hz.
          apply in_app_or in Hz. destruct Hz as [[Hz|Hz]|Hz].
          -- subst; apply leb_false_flip, E.
          -- eapply leb_trans; [apply leb_false_flip, E|apply Ha1, Hz].
          -- apply Ha2, Hz.
  Qed.

  Lemma sorted_filter_nil : forall z a r,
      sorted (a :: r) -> leb a z = false -> filter (equivb z) (a :: r) = [].
  Proof.
    intros z a r [Ha _] E.
    assert (forall y, In y (a :: r) -> equivb z y = false) as Hall.
    { intros y Hy. unfold equivb. destruct (leb y z) eqn:Eyz; [|apply andb_false_r].
      exfalso. destruct Hy as [Hy|Hy]; [subst; congruence|].
      rewrite (leb_trans a y z (Ha y Hy) Eyz) in E. discriminate. }
    generalize dependent (a :: r). intro l. induction l as [|y l IH]; intro Hall; simpl; [reflexivity|].
    rewrite (Hall y (or_introl eq_refl)). apply IH. intros w Hw. apply Hall. right; exact Hw.
  Qed.

  Lemma filter_cons_eq : forall (f : A -> bool) a l,
      filter f (a :: l) = if f a then a :: filter f l else filter f l.
  Proof. reflexivity. Qed.

  Lemma merge_filter : forall z l1 l2, sorted l1 -> sorted l2 ->
      filter (equivb z) (merge l1 l2) = filter (equivb z) l1 ++ filter (equivb z) l2.
  Proof.
    intros z; induction l1 as [|a1 r1 IH1]; intros l2 H1 H2.
    - destruct l2; reflexivity.
    - induction l2 as [|a2 r2 IH2].
      + rewrite merge_nil_r, app_nil_r. reflexivity.
      + rewrite merge_cons. destruct (leb a1 a2) eqn:E.
        * rewrite (filter_cons_eq (equivb z) a1 (merge r1 (a2 :: r2))).
          rewrite IH1; [|apply H1|exact H2].
          rewrite (filter_cons_eq (equivb z) a1 r1).
          destruct (equivb z a1); reflexivity.
        * rewrite (filter_cons_eq (equivb z) a2 (merge (a1 :: r1) r2)).
          rewrite IH2; [|apply H2].
          rewrite (filter_cons_eq (equivb z) a2 r2).
          destruct (equivb z a2) eqn:Ez; [|reflexivity].
          (* a2 tied with z, a2 strictly before a1: nothing of l1 is tied with z *)
          assert (leb a1 z = false) as Hz.
          { destruct (leb a1 z) eqn:E1; [|reflexivity].
            unfold equivb in Ez. apply andb_true_iff in Ez. destruct Ez as [Ez _].
            rewrite (leb_trans a1 z a2 E1 Ez) in E. discriminate. }
          rewrite (sorted_filter_nil z a1 r1 H1 Hz). reflexivity.
  Qed.

  Lemma merge_isort : forall l1 l2, merge (isort l1) (isort l2) = isort (l1 ++ l2).
  Proof.
    intros l1 l2. apply stable_sort_unique.
    - apply merge_sorted; apply isort_sorted.
    - intro x. rewrite merge_filter by apply isort_sorted.
      rewrite !isort_stable. symmetry. apply filter_app.
  Qed.

  Theorem msort_fuel_eq_isort : forall n l, msort_fuel n l = isort l.
  Proof.
    induction n as [|n IH]; intro l; [reflexivity|].
    destruct l as [|x [|y r]]; [reflexivity|reflexivity|].
    cbn [msort_fuel]. rewrite !IH, merge_isort, firstn_skipn. reflexivity.
  Qed.

  Theorem msort_eq_isort : forall l, msort l = isort l.
  Proof. intro l. apply msort_fuel_eq_isort. Qed.

  Corollary msort_is_stable_sort : forall l, is_stable_sort l (msort l).
  Proof. intro l. rewrite msort_eq_isort. apply isort_is_stable_sort. Qed.

  (* ---------- first element satisfying p in the sorted list ---------- *)
  Variable p : A -> bool.

  (* one pass, right to left: keeps the earlier element unless the later one is strictly smaller *)
  Fixpoint best (l : list A) : option A :=
    match l with
    | [] => None
    | x :: r =>
        if p x then
          match best r with
          | None => Some x
          | Some y => if leb x y then Some x else Some y
          end
        else best r
    end.

  Lemma find_insert : forall x l, sorted l ->
      find p (insert x l) =
      if p x then match find p l with
                  | None => Some x
                  | Some y => if leb x y then Some x else Some y
                  end
      else find p l.
  Proof.
    intros x l; induction l as [|y r IH]; intro Hs.
    - simpl. destruct (p x); reflexivity.
    - destruct Hs as [Hy Hr]. cbn [insert]. destruct (leb x y) eqn:E.
      + cbn [find]. destruct (p x) eqn:Px; [|reflexivity].
        destruct (p y) eqn:Py; [rewrite E; reflexivity|].
        destruct (find p r) as [w|] eqn:F; [|reflexivity].
        apply find_some in F. destruct F as [Hin _].
        rewrite (leb_trans x y w E (Hy w Hin)). reflexivity.
      + cbn [find]. destruct (p y) eqn:Py.
        * rewrite E. destruct (p x); reflexivity.
        * apply IH, Hr.
  Qed.

  Theorem find_isort : forall l, find p (isort l) = best l.
  Proof.
    induction l as [|x r IH]; [reflexivity|].
    cbn [isort best]. rewrite find_insert by apply isort_sorted. rewrite IH. reflexivity.
  Qed.

  Lemma best_none_iff : forall l, best l = None <-> forall d, In d l -> p d = false.
  Proof.
    induction l as [|x r IH]; simpl.
    - split; [intros _ d []|reflexivity].
    - destruct (p x) eqn:Px.
      + split.
        * destruct (best r) as [y|]; [destruct (leb x y)|]; discriminate.
        * intro H. rewrite (H x (or_introl eq_refl)) in Px. discriminate.
      + rewrite IH. split.
        * intros H d [Hd|Hd]; [subst; exact Px|apply H, Hd].
        * intros H d Hd. apply H. right; exact Hd.
  Qed.

  Lemma best_in : forall l c, best l = Some c -> In c l /\ p c = true.
  Proof.
    induction l as [|x r IH]; simpl; intros c H; [discriminate|].
    destruct (p x) eqn:Px.
    - destruct (best r) as [y|] eqn:B.
      + destruct (leb x y); inversion H; subst.
        * split; [left; reflexivity|exact Px].
        * destruct (IH c eq_refl) as [Hin Hp]. split; [right; exact Hin|exact Hp].
      + inversion H; subst. split; [left; reflexivity|exact Px].
    - destruct (IH c H) as [Hin Hp]. split; [right; exact Hin|exact Hp].
  Qed.

  (* [best l = Some c] iff c is the FIRST (in l) among the p-elements that are minimal for leb:
     every p-element before c is strictly larger, every p-element after c is >= c *)
  Theorem best_some_iff : forall l c,
      best l = Some c <->
      exists l1 l2, l = l1 ++ c :: l2 /\ p c = true /\
                    (forall d, In d l1 -> p d = true -> leb d c = false) /\
                    (forall d, In d l2 -> p d = true -> leb c d = true).
  Proof.
    intros l c; split.
    - revert c; induction l as [|x r IH]; intros c H; [discriminate|].
      cbn [best] in H. destruct (p x) eqn:Px.
      + destruct (best r) as [y|] eqn:B.
        * destruct (IH y eq_refl) as (l1 & l2 & Hr & Py & Hb & Ha).
          destruct (leb x y) eqn:E; inversion H; subst c.
          -- exists [], r. split; [reflexivity|]. split; [exact Px|]. split; [intros d []|].
             intros d Hd Pd. rewrite Hr in Hd. apply in_app_or in Hd.
             destruct Hd as [Hd|[Hd|Hd]].
             ++ eapply leb_trans; [exact E|apply leb_false_flip, Hb; assumption].
             ++ subst; exact E.
             ++ eapply leb_trans; [exact E|apply Ha; assumption].
          -- exists (x :: l1), l2. split; [rewrite Hr; reflexivity|]. split; [exact Py|].
             split; [|exact Ha].
             intros d [Hd|Hd] Pd; [subst; exact E|apply Hb; assumption].
        * inversion H; subst c. exists [], r. split; [reflexivity|]. split; [exact Px|].
          split; [intros d []|].
          intros d Hd Pd. rewrite (proj1 (best_none_iff r) B d Hd) in Pd. discriminate.
      + destruct (IH c H) as (l1 & l2 & Hr & Pc & Hb & Ha).
        exists (x :: l1), l2. split; [rewrite Hr; reflexivity|]. split; [exact Pc|].
        split; [|exact Ha].
        intros d [Hd|Hd] Pd; [subst; congruence|apply Hb; assumption].
    - intros (l1 & l2 & Hl & Pc & Hb & Ha). subst l.
      induction l1 as [|d l1 IH]; cbn [app best].
      + rewrite Pc. destruct (best l2) as [y|] eqn:B; [|reflexivity].
        apply best_in in B. destruct B as [Hin Py]. rewrite (Ha y Hin Py). reflexivity.
      + rewrite IH by (intros d' Hd'; apply Hb; right; exact Hd').
        destruct (p d) eqn:Pd; [|reflexivity].
        rewrite (Hb d (or_introl eq_refl) Pd). reflexivity.
  Qed.

End StableSort.

Arguments insert {A} leb x l.
Arguments isort {A} leb l.
Arguments merge {A} leb l1 l2.
Arguments msort {A} leb l.
Arguments msort_fuel {A} leb n l.
Arguments equivb {A} leb a b.
Arguments sorted {A} leb l.
Arguments stable_of {A} leb l l'.
Arguments is_stable_sort {A} leb l l'.
Arguments best {A} leb p l.
