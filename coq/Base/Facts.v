(* Lemmas about the Prelude definitions. *)
From MV Require Import Base.Prelude.
Require Import ZifyBool ZifyNat ZifyN.
Ltac Zify.zify_post_hook ::= Z.div_mod_to_equations.

Lemma list_eqb_spec {A} (e : A -> A -> bool) :
  (forall x y, e x y = true <-> x = y) ->
  forall a b, list_eqb e a b = true <-> a = b.
Proof.
  intros He a; induction a as [|x a IH]; intros [|y b]; cbn [list_eqb]; try (split; congruence).
  rewrite andb_true_iff, He, IH. split; [intros [-> ->]; reflexivity | intros E; inversion E; auto].
Qed.

Lemma bytes_eqb_spec a b : bytes_eqb a b = true <-> a = b.
Proof. apply list_eqb_spec. intros; apply N.eqb_eq. Qed.

Lemma bytes_eqb_refl a : bytes_eqb a a = true.
Proof. apply bytes_eqb_spec; reflexivity. Qed.

Lemma slice_length {A} (b : list A) off len :
  off + len <= length b -> length (slice b off len) = len.
Proof. intros Hl. unfold slice. rewrite firstn_length, skipn_length. lia. Qed.

Lemma slice_length_le {A} (b : list A) off len : length (slice b off len) <= len.
Proof. unfold slice. rewrite firstn_length. lia. Qed.

Lemma slice_app_exact {A} (a b c : list A) :
  slice (a ++ b ++ c) (length a) (length b) = b.
Proof.
  unfold slice. rewrite skipn_app, skipn_all, Nat.sub_diag. cbn [skipn app].
  rewrite firstn_app, firstn_all, Nat.sub_diag. cbn [firstn]. apply app_nil_r.
Qed.

Local Open Scope N_scope.

Lemma slice_app_tail {A} (a b : list A) : slice (a ++ b) (length a) (length b) = b.
Proof. rewrite <- (app_nil_r b) at 1. apply slice_app_exact. Qed.

Lemma le_encode_length n v : length (le_encode n v) = n.
Proof. revert v; induction n as [|n IH]; intros v; cbn [le_encode length]; [reflexivity|]. rewrite IH; reflexivity. Qed.

Lemma le_decode_encode n v : v < 256 ^ N.of_nat n -> le_decode (le_encode n v) = v.
Proof.
  revert v; induction n as [|n IH]; intros v Hv.
  - cbn [le_encode le_decode]. change (N.of_nat 0) with 0 in Hv. rewrite N.pow_0_r in Hv. lia.
  - cbn [le_encode le_decode].
    rewrite IH.
    + pose proof (N.div_mod v 256). lia.
    + rewrite Nat2N.inj_succ, N.pow_succ_r' in Hv.
      apply N.div_lt_upper_bound; lia.
Qed.

Lemma le_encode_bytes_ok n v : bytes_ok (le_encode n v) = true.
Proof.
  revert v; induction n as [|n IH]; intros v; cbn [le_encode bytes_ok forallb]; [reflexivity|].
  apply andb_true_iff; split; [|apply IH].
  unfold byte_ok. apply N.ltb_lt. apply N.mod_lt. lia.
Qed.

Lemma le_decode_bound bs : bytes_ok bs = true -> le_decode bs < 256 ^ N.of_nat (length bs).
Proof.
  induction bs as [|b r IH]; intros Hok.
  - cbn. lia.
  - cbn [bytes_ok forallb] in Hok. apply andb_true_iff in Hok as [Hb Hr].
    unfold byte_ok in Hb. apply N.ltb_lt in Hb.
    cbn [le_decode length]. rewrite Nat2N.inj_succ, N.pow_succ_r'.
    specialize (IH Hr). lia.
Qed.

Lemma le_encode_decode bs : bytes_ok bs = true -> le_encode (length bs) (le_decode bs) = bs.
Proof.
  induction bs as [|b r IH]; intros Hok; [reflexivity|].
  cbn [bytes_ok forallb] in Hok. apply andb_true_iff in Hok as [Hb Hr].
  unfold byte_ok in Hb. apply N.ltb_lt in Hb.
  cbn [le_decode length le_encode].
  replace ((b + 256 * le_decode r) mod 256) with b.
  2:{ lia. }
  replace ((b + 256 * le_decode r) / 256) with (le_decode r).
  2:{ lia. }
  rewrite IH; auto.
Qed.

Local Close Scope N_scope.

Lemma mismatches_from_nil {A B} `{Eqb B} (f : A -> B) i cs :
  mismatches_from f i cs = [] <-> Forall (fun c => eqb (f (fst c)) (snd c) = true) cs.
Proof.
  revert i; induction cs as [|[a b] r IH]; intros i; cbn [mismatches_from].
  - split; auto.
  - destruct (eqb (f a) b) eqn:E.
    + rewrite IH. split; [intros Hf; constructor; auto | intros Hf; inversion Hf; auto].
    + split; [discriminate | intros Hf; inversion Hf as [|? ? Hx]; cbn in Hx; congruence].
Qed.
