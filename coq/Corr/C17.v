(* Correspondence runner for C17: one interleaved history of several handles on one path, run
   through the model of the IMPLEMENTATION's lock protocol; the harness runs the same history on
   real Memvid handles (same process, separate open file descriptions; key opens repeated from a
   child process) and records after every step what is observable from outside:
     ok            the call returned Ok (open/create: the lock was granted; doctor: it got write access)
     dir_changed   the path names a different inode than before the step (st_ino)
     held          a non-blocking exclusive flock on a fresh descriptor of the path is refused, or an
                   opener that entered Memvid::open while the path named the present inode is still
                   in its retry loop (it takes the lock within 50 ms of a release: not observable apart)
     live          for every live handle: (id, its lock descriptor's st_ino <> the path's st_ino)
   and at the end every live handle's in-memory frame table and the table a fresh open shows. *)
From MV Require Import Base.Prelude Model.LockTable.
Local Open Scope N_scope.

Definition ids : list N := [0; 1; 2; 3; 4; 5; 6; 7].
Definition probe_id : N := 1000000.

Definition op_ok (s s' : st) (o : op) : bool :=
  match o with
  | Open w | Create w | TryOpen w | OpenLock w => is_live s' w
  | OpenFd w | CreateFd w => match s_hs s' w with Some _ => true | None => false end
  | GiveUp _ | Drop _ | Kill _ => true
  | Put w _ | Commit w | Vacuum w | Touch w | EnableVec w => is_live s w
  | Doctor w => is_live (try_open_with open_lock_impl s w) w
  end.

Definition live_list (s : st) : list (N * bool) :=
  flat_map (fun w => match s_hs s w with
                     | Some h => match h_phase h with PLive => [(w, stale_handle s h)] | _ => [] end
                     | None => [] end) ids.

Definition waiting_on (s : st) (i : N) : bool :=
  existsb (fun w => match s_hs s w with
                    | Some h => match h_phase h with PFd _ => (h_lock_ino h =? i) | PLive => false end
                    | None => false end) ids.

Definition obs := (bool * bool * bool * list (N * bool))%type.
Definition observe (s s' : st) (o : op) : obs :=
  (op_ok s s' o, negb (s_dir s' =? s_dir s),
   others_hold s' probe_id (s_dir s') || waiting_on s' (s_dir s'), live_list s').

Fixpoint run_obs (s : st) (ops : list op) : list obs * st :=
  match ops with
  | [] => ([], s)
  | o :: r => let s' := step_impl s o in
              let '(os, sf) := run_obs s' r in (observe s s' o :: os, sf)
  end.

Definition C17_in := list op.
Definition C17_out := (list obs * list (N * list N) * list N)%type.

Definition C17_run (ops : C17_in) : C17_out :=
  let '(os, s) := run_obs init ops in
  (os,
   flat_map (fun w => match s_hs s w with
                      | Some h => match h_phase h with PLive => [(w, h_toc h)] | _ => [] end
                      | None => [] end) ids,
   path_frames s).
