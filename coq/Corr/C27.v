(* Correspondence runners for C27: the same card sets / tracks / histories through the
   model and the implementation. *)
From MV Require Import Base.Prelude Base.SortFacts Model.Memories.
From Coq Require Import String.

(* entity, slot, value, event_date, document_date, version_key, relation (0..3),
   confidence (None | Some (Some f32 bits) | Some None = non-finite), created_at *)
Definition C27_card :=
  (string * string * string * option Z * option Z * option string * N * option (option N) * Z)%type.

Definition rel_of_N (n : N) : vrel :=
  match n with 0%N => Sets | 1%N => Updates | 2%N => Extends | _ => Retracts end.
Definition N_of_rel (r : vrel) : N :=
  match r with Sets => 0%N | Updates => 1%N | Extends => 2%N | Retracts => 3%N end.

Definition mk_card (id : N) (t : C27_card) : card :=
  let '(e, s, v, ev, doc, vk, rel, conf, created) := t in
  mkCard id e s v ev doc vk (rel_of_N rel) conf created.
Definition card_out (c : card) : N * C27_card :=
  (c_id c, (c_entity c, c_slot c, c_value c, c_event c, c_doc c, c_vkey c, N_of_rel (c_rel c),
            c_conf c, c_created c)).

Definition opt_id (o : option card) : option N :=
  match o with Some c => Some (c_id c) | None => None end.

(* one query: entity, slot, the times to ask get_at_time for *)
Definition C27_query := (string * string * list Z)%type.
(* answer: ids of get_cards in order, id of get_current, id of get_at_time per time *)
Definition C27_answer := (list N * option N * list (option N))%type.

Definition answer (tr : track) (q : C27_query) : C27_answer :=
  let '(e, s, ts) := q in
  (map c_id (get_cards tr e s), opt_id (get_current tr e s),
   map (fun t => opt_id (get_at_time tr e s t)) ts).

(* stream "query": cards added through add_card to an empty track *)
Definition C27_in := (list C27_card * list C27_query)%type.
(* (id, version_key) of every stored card, then the answers *)
Definition C27_out := (list (N * option string) * list C27_answer)%type.
Definition C27_run (i : C27_in) : C27_out :=
  let '(cs, qs) := i in
  let tr := build (map (mk_card 77) cs) in
  (map (fun c => (c_id c, c_vkey c)) (t_cards tr), map (answer tr) qs).

(* stream "legacy": an explicit track state (as read from a file): cards with their ids,
   the slot index as written (any key case, any id lists) *)
Definition C27_legacy_in := (list (N * C27_card) * list (string * list N) * list C27_query)%type.
Definition C27_legacy_run (i : C27_legacy_in) : list C27_answer :=
  let '(cs, idx, qs) := i in
  let tr := mkTrack (map (fun ic => mk_card (fst ic) (snd ic)) cs) 0%N idx in
  map (answer tr) qs.

(* stream "persist": histories on a Memvid *)
Definition C27_node := (N * string * string * N * N * list N * list (N * N * N))%type.
Definition C27_edge := (N * N * string * bool * N * N)%type.
Definition mk_node (t : C27_node) : mnode :=
  let '(id, nm, dn, k, cf, fr, me) := t in mkNode id nm dn k cf fr me.
Definition mk_edge (t : C27_edge) : medge :=
  let '(f, t', l, cu, cf, fr) := t in mkEdge f t' l cu cf fr.
Definition node_out (n : mnode) : C27_node :=
  (n_id n, n_name n, n_display n, n_kind n, n_conf n, n_frames n, n_mentions n).
Definition edge_out (e : medge) : C27_edge :=
  (e_from e, e_to e, e_link e, e_custom e, e_conf e, e_frame e).

Definition OpCard (t : C27_card) : mop := PutCard (mk_card 77 t).
Definition OpCards (ts : list C27_card) : mop := PutCards (map (mk_card 77) ts).
Definition OpNode (t : C27_node) : mop := AddNode (mk_node t).
Definition OpEdge (t : C27_edge) : mop := AddEdge (mk_edge t).

Definition C27_snapshot := (list (N * C27_card) * list C27_node * list C27_edge)%type.
Definition snapshot (s : mstate) : C27_snapshot :=
  (map card_out (t_cards (s_track s)), map node_out (m_nodes (s_mesh s)), map edge_out (m_edges (s_mesh s))).

(* a snapshot after every Reopen / CrashReopen, and one at the end *)
Fixpoint persist_from (s : mstate) (ops : list mop) : list C27_snapshot :=
  match ops with
  | [] => [snapshot s]
  | o :: r =>
      let s' := mstep s o in
      match o with
      | Reopen | CrashReopen => snapshot s' :: persist_from s' r
      | _ => persist_from s' r
      end
  end.
Definition C27_persist_run (ops : list mop) : list C27_snapshot := persist_from init_state ops.
