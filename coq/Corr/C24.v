(* Correspondence runner for C24: the op history a real Memvid went through (with the sizes,
   log growth and automatic checkpoints observed on it) through the model of the code AS IT IS
   (Model/Capacity.v, step_fixed = put check since fix f25e235); after every op: the result (Ok / CapacityExceeded{current,
   limit, required} / TicketRequired / TicketSequence), cached_payload_end, data_end,
   stats().capacity_bytes, stats().payload_bytes, vec_enabled, and the largest
   payload_offset + payload_length over the frames that store bytes (0 if none). *)
From MV Require Import Base.Prelude Model.Capacity.
Local Open Scope N_scope.

Definition C24_in := list cop.
Definition C24_obs := (N * N * N * N * N * N * N * N * bool * N)%type.
Definition C24_out := list C24_obs.

Definition observe (r : res) (s : cstate) : C24_obs :=
  let '(c, a, b, d) := r in (c, a, b, d, cpe s, dend s, limit s, stored s, vec s, fend s).

Fixpoint C24_go (fixed : bool) (s : cstate) (ops : list cop) : C24_out :=
  match ops with
  | [] => []
  | o :: r => let '(s', res) := step fixed s o in observe res s' :: C24_go fixed s' r
  end.

Definition C24_run_fixed (ops : C24_in) : C24_out := C24_go true init ops.
Definition C24_run : C24_in -> C24_out := C24_run_fixed.
(* the same history through the check before the fix (regression reference: a revert of the fix
   makes the implementation agree with this one and disagree with C24_run_fixed) *)
Definition C24_run_old (ops : C24_in) : C24_out := C24_go false init ops.
