(* Correspondence runners for C09 (lexical search recall).  See harness/src/c09.rs.

   stream `cands`  : Memvid::find_sketch_candidates on a sketch track built through the
                     public API (generate_sketch entries with arbitrary frame ids, optionally
                     written and read back), arbitrary threshold / max_candidates / min_score.
                     Compared exactly: (frame id, f32 score bits, hamming distance, matching
                     top terms) in order.  The query sketch is rebuilt by the model from the
                     query's token hashes (tokens are identified with their BLAKE3 hash).
   stream `recall` : real memories.  Input = the sketch entries of the memory as they are
                     (mem.sketches().iter()), and a batch of requests, each with the query's
                     token hashes, top_k, no_sketch, the matching frames M (known to the
                     generator), the engine oracle U (frames returned with no_sketch and
                     top_k = 10000), the number of frames of any status whose text contains
                     the word, the frames actually returned and whether the response was
                     complete (no next_cursor).  The model computes the sketch candidates
                     (compared as a sorted id list), the final candidate filter, the class
                     predicate sketch_drops of finding F-C09-1 (compared with the harness's
                     own) and checks the returned frames against U restricted to the filter.
   stream `page`   : the hit-assembly loop when documents yield several snippets (F-C09-2):
                     evaluated order and snippet counts observed with top_k = 10000, the
                     model predicts the frames of the hits for the request's top_k. *)
From MV Require Import Base.Prelude Base.SortFacts Model.Sketch Model.AsOf Model.SearchPage Model.Recall Model.RecallF32.
Local Open Scope N_scope.

Definition variant_of_N (v : N) : variant := if v =? 0 then Small else if v =? 1 then Medium else Large.

(* (frame id, simhash, term filter, top terms, length hint) *)
Definition entry_in := (N * N * bytes * list N * N)%type.
Definition mk_entry (t : entry_in) : entry :=
  let '(fid, sh, flt, top, lh) := t in mkEntry fid sh flt top 0 0 lh.

(* the query sketch from the token hashes; a failed build (never happens: filter sizes are
   16/32/64) maps to the empty sketch *)
Definition query_of (hs : list N) (v : variant) : qsketch :=
  match from_query N N.eqb (fun h => h) hs v with
  | Ok q => q
  | _ => mkQ 0 [] [] 0
  end.

(* ---------------------------------------------------------------- stream cands *)
Definition C09_cands_in := (N * list entry_in * list N * N * N * N)%type.   (* variant, entries, query hashes, thr, maxc, min_score bits *)
Definition C09_cands_out := list (N * N * N * N)%type.

Definition C09_cands_run (i : C09_cands_in) : C09_cands_out :=
  let '(v, es, hs, thr, maxc, mins) := i in
  map (fun c => let '(f, s, h, m) := c in (f, s, h, m))
      (find_sketch_candidates N score_bits bits_le (query_of hs (variant_of_N v)) (map mk_entry es) thr maxc mins).

(* ---------------------------------------------------------------- stream recall *)
(* scores do not matter for the candidate SET while max_candidates (>= 500) does not cut *)

Definition sort_ids (l : list N) : list N := isort N.leb l.

(* query hashes, top_k, no_sketch, M, U, frames containing the word (any status), returned frames, complete? *)
Definition C09_query := (list N * N * bool * list N * list N * N * list N * bool)%type.
Definition C09_in := (list entry_in * list C09_query)%type.
(* sorted sketch candidate ids (of the requests with the pre-filter on; [] otherwise), class sketch_drops,
   returned frames consistent with the model *)
Definition C09_out := list (list N * bool * bool)%type.

Definition subset_ids (a b : list N) : bool := forallb (fun x => mem_id x b) a.

Definition C09_one (es : list entry) (qr : C09_query) : list N * bool * bool :=
  let '(hs, top_k, no_sketch, M, U, n_any, got, complete) := qr in
  let q := query_of hs Small in
  let cf := final_filter unit unit_score unit_le tt es q true no_sketch top_k None in
  (* no filter before the sketch stage: the final filter IS the non-empty candidate set *)
  let cands := match cf with Some l => l | None => [] end in
  let expected := table_engine U cf in
  let l := engine_limit top_k 0 (option_map set_len cf) in
  let exact := complete && ((n_any <=? l) || match cf with Some c => set_len c <=? l | None => false end) in
  (sort_ids cands, sketch_drops M None cf,
   subset_ids got expected && (if exact then subset_ids expected got else true)).

Definition C09_run (i : C09_in) : C09_out :=
  let '(es, qs) := i in
  let es' := map mk_entry es in
  map (C09_one es') qs.

(* ---------------------------------------------------------------- stream page *)
(* evaluated order with snippet counts (observed with top_k = 10000), top_k *)
Definition C09_page_in := (list (N * N) * N)%type.
Definition C09_page_out := list N.

Fixpoint fake_slices (n : nat) (i : N) : list (N * N) :=
  match n with O => [] | S n' => (10 * i, 10 * i + 5) :: fake_slices n' (i + 1) end.

Definition C09_page_run (i : C09_page_in) : C09_page_out :=
  let '(order, top_k) := i in
  let cap := N.max top_k 1 in
  let ev := map (fun fn => mkEdoc (fst fn) 0 0 1000000 (fake_slices (N.to_nat (N.min (snd fn) cap)) 0) 0%Z) order in
  match page_of true emit_tantivy ev top_k None with
  | Ok p => map fst (p_hits p)
  | _ => []
  end.
