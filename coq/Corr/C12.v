(* Correspondence runners for C12.  serde_json is instantiated by the hand model
   Model/JsonStr.v (itself compared with the real serde_json by the `json` stream). *)
From Coq Require Strings.String Strings.Ascii.
From MV Require Import Base.Prelude Model.JsonStr Model.Acl.

(* printable-ASCII strings of the generated cases are written (asc "text") *)
Definition asc (x : String.string) : str :=
  map Coq.Strings.Ascii.N_of_ascii (Coq.Strings.String.list_ascii_of_string x).

(* tenant_id, subject_id, roles, group_ids *)
Definition C12_ctx := (option str * option str * list str * list str)%type.
Definition mk_ctx (c : C12_ctx) : acl_context :=
  let '(t, s, r, g) := c in mkCtx t s r g.

(* ---- stream `decide`: verif_hooks::acl_decide(metadata, context) ---- *)
Definition C12_decide_in := (list (str * str) * C12_ctx)%type.
Definition C12_decide_out := option (bool * bool * bool).
Definition C12_decide_run (i : C12_decide_in) : C12_decide_out :=
  let '(m, c) := i in acl_decide json_string json_string_array m (mk_ctx c).

(* ---- stream `json`: serde_json::from_str::<String> and ::<Vec<String>> on one input ---- *)
Definition C12_json_in := str.
Definition C12_json_out := (option str * option (list str))%type.
Definition C12_json_run (s : C12_json_in) : C12_json_out := (json_string s, json_string_array s).

(* ---- stream `apply`: the ACL stage of Memvid::search / vec_search_with_embedding_acl,
   end to end.  One case = one request on one memory under every (context, mode).
   Input: the extra_metadata of the frames the request returns (by frame id), the hits
   (rank, frame id) it returns with no ACL context, and the (context, mode) list
   (true = Enforce).  Output: per (context, mode) the (rank, frame id) list the same
   request returns, or the error kind. ---- *)
Fixpoint lookup_frame (fs : list (N * list (str * str))) (id : N) : option meta :=
  match fs with
  | [] => None
  | (i, m) :: r => if N.eqb i id then Some m else lookup_frame r id
  end.

Definition C12_apply_in :=
  (list (N * list (str * str)) * list (N * N) * list (option C12_ctx * bool))%type.
Definition C12_apply_out := list (outcome (list (N * N))).
Definition C12_apply_one (fs : list (N * list (str * str))) (hits : list (hit unit))
           (cm : option C12_ctx * bool) : outcome (list (N * N)) :=
  match apply_acl json_string json_string_array unit (lookup_frame fs) hits
                  (option_map mk_ctx (fst cm)) (if snd cm then Enforce else Audit) with
  | Ok (hs, _) => Ok (map (fun h => (h_rank h, h_frame h)) hs)
  | Err k => Err k
  | Panic s => Panic s
  end.
Definition C12_apply_run (i : C12_apply_in) : C12_apply_out :=
  let '(fs, base, calls) := i in
  let hits := map (fun rf : N * N => mkHit (fst rf) (snd rf) tt) base in
  map (C12_apply_one fs hits) calls.

(* ---- stream `final`: every entry point, every retrieval path of ask.  The last step of
   each entry point is the ACL stage, so a response must be a fixed point of the model's
   last step: applying the model's ACL stage to the hits the implementation returned gives
   the same hits with the same ranks (nothing denied is among them), and for ask the
   citations (index, frame) and context fragments (rank, frame) are the ones derived from
   exactly those hits.  One case = one request on one memory under every (context, mode).
   cit_mode: 0 = search / vector / adaptive (no citations), 1 = ask context_only, 2 = ask. ---- *)
Definition C12_final_call := (option C12_ctx * bool * N * list (N * N))%type.
Definition C12_final_in := (list (N * list (str * str)) * list C12_final_call)%type.
Definition C12_final_res := outcome (list (N * N) * list (N * N) * list (N * N)).
Definition C12_final_out := list C12_final_res.
Definition C12_final_one (fs : list (N * list (str * str))) (call : C12_final_call) : C12_final_res :=
  let '(c, enforce, cit_mode, rhits) := call in
  let hits := map (fun rf : N * N => mkHit (fst rf) (snd rf) tt) rhits in
  let mode := if enforce then Enforce else Audit in
  let view (hs : list (hit unit)) := map (fun h => (h_rank h, h_frame h)) hs in
  if N.eqb cit_mode 0 then
    match apply_acl json_string json_string_array unit (lookup_frame fs) hits (option_map mk_ctx c) mode with
    | Ok (hs, _) => Ok (view hs, [], [])
    | Err k => Err k
    | Panic s => Panic s
    end
  else
    match ask_acl json_string json_string_array unit (lookup_frame fs) nat (@List.length _)
                  (Ok (hits, N.of_nat (List.length hits))) (N.eqb cit_mode 1) (option_map mk_ctx c) mode with
    | Ok a => Ok (view (a_hits a), a_citations a, a_fragments a)
    | Err k => Err k
    | Panic s => Panic s
    end.
Definition C12_final_run (i : C12_final_in) : C12_final_out :=
  let '(fs, calls) := i in map (C12_final_one fs) calls.
