(* Correspondence runner for C21: the abstract description of a real (possibly damaged) memory
   file and a set of doctor options go through the model; the implementation's report, the
   verify result, the second run's status and the frame table read back are the expected output. *)
From MV Require Import Base.Prelude Model.Doctor.
Local Open Scope N_scope.

(* (ptr, toc, foot, H, S, C) , (footer, tocbytes, tocdec) , (wal kind, pending ops) ,
   (time, lex, vec, nvec) , rows , (time, lex, vec, vacuum, dry_run) , second run uses the same options *)
Definition C21_in :=
  ((N * N * N * N * N * N) * (bool * bool * bool) * (N * list (N * N * N)) *
   (N * bool * N * N) * list (N * N) * (bool * bool * bool * bool * bool) * bool)%type.

(* status of run 1, plan findings ++ run findings, plan phases, verify(deep) passed after run 1,
   status of run 2, the memory opens afterwards, its frame rows, its vector count *)
Definition C21_out := (N * list N * list N * bool * N * bool * option (list (N * N)) * N)%type.

Definition pop_of (t : N * N * N) : pop :=
  let '(k, a, b) := t in
  if k =? 0 then PIns a else if k =? 1 then PUpd a b else PDel a.

Definition ix_of (n : N) : ixst := if n =? 0 then IxNone else if n =? 1 then IxOk else IxBad.

Definition file_of (i : C21_in) : afile :=
  let '(hd, fl, wl, ix, rows, _, _) := i in
  let '(ptr, toc, foot, h, s, c) := hd in
  let '(footer, tocbytes, tocdec) := fl in
  let '(wk, ps) := wl in
  let '(tm, lx, vc, nv) := ix in
  let pops := map pop_of ps in
  mkFile ptr toc foot h s c footer tocbytes tocdec None
         (if wk =? 0 then WClean else if wk =? 1 then WPending pops else WCorrupt pops)
         0 (ix_of tm) lx (ix_of vc) nv rows.

Definition opts_of (i : C21_in) : opts :=
  let '(_, _, _, _, _, ob, _) := i in
  let '(t, l, v, vac, dry) := ob in mkOpts t l v vac dry.

Definition C21_run (i : C21_in) : C21_out :=
  let f := file_of i in
  let o := opts_of i in
  let '(_, _, _, _, _, _, same) := i in
  let '(f1, r1) := doctor o f in
  let passed := match verify f1 with Ok true => true | _ => false end in
  let '(f2, r2) := doctor (if same then o else default_opts) f1 in
  let '(f3, code) := try_open f2 in
  (r_status r1, r_findings r1, r_phases r1, passed, r_status r2,
   code =? 0, (if code =? 0 then Some (f_rows f3) else None), 
   (* two dry runs on a damaged vector index: the count is then what Memvid::open's own replay leaves
      (it rebuilds the index from the pending embeddings only -- C14's matter), not compared *)
   (if (o_dry o && same && vec_bad (f_vec f)) then 0 else if code =? 0 then f_nvec f3 else 0)).
