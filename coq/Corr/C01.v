(* Correspondence runner for C01/C06: a store history with the oracle inputs observed on
   the implementation; outputs = per-op (result, frame_count, next_frame_id) and the final
   frame table. *)
From MV Require Import Base.Prelude Model.Store.
Local Open Scope N_scope.

#[global] Instance Eqb_uri : Eqb uri := uri_eqb.

Definition frame_row := (N * uri * N * N * N * option N * option N * option N * bool)%type.
Definition row_of (f : frame) : frame_row :=
  (* content is compared for active frames only: vacuum drops the payload of inactive ones *)
  (f_id f, f_uri f, (if f_status f =? 0 then f_tag f else 0), f_role f, f_status f, f_supersedes f, f_superseded_by f, f_parent f, f_manifest f).

Definition C01_in := list sop.
Definition C01_out := (list sout * list frame_row)%type.

Definition C01_run (ops : C01_in) : C01_out :=
  let '(s, outs) := srun store0 ops in (outs, map row_of (committed s)).
