From MV Require Export Corr.C02.
