(* Correspondence runners for C30: header codec, time index, TOC codec. *)
From MV Require Import Base.Prelude Model.Header Model.TimeIndex Model.Bincode Model.Toc.
Local Open Scope N_scope.

Fixpoint table_hash (t : list (bytes * bytes)) (x : bytes) : bytes :=
  match t with
  | [] => []
  | (k, d) :: r => if bytes_eqb k x then d else table_hash r x
  end.

(* ---- header ---- *)
Definition hdr_t := (bytes * N * N * N * N * N * N * bytes)%type.
Definition hdr_of (i : hdr_t) : header :=
  let '(m, v, fo, wo, ws, cp, sq, ck) := i in mkHeader m v fo wo ws cp sq ck.
Definition hdr_to (h : header) : hdr_t :=
  (h_magic h, h_version h, h_footer_offset h, h_wal_offset h, h_wal_size h, h_wal_checkpoint_pos h,
   h_wal_sequence h, h_toc_checksum h).
Definition omap {A B} (f : A -> B) (o : outcome A) : outcome B :=
  match o with Ok a => Ok (f a) | Err k => Err k | Panic s => Panic s end.

(* encode: first 80 bytes, total length, "bytes 80.. are all zero" *)
Definition C30_henc_run (i : hdr_t) : outcome (bytes * N * bool) :=
  omap (fun b => (firstn 80 b, N.of_nat (length b), forallb (fun x => x =? 0) (skipn 80 b))) (header_encode (hdr_of i)).

(* file = prefix ++ pad bytes up to len; decode of its first 4096 bytes, read, file afterwards *)
Definition C30_hdec_in := (bytes * N * nat)%type.
Definition C30_hdec_out := (outcome hdr_t * outcome hdr_t * bytes * nat)%type.
Definition C30_hdec_run (i : C30_hdec_in) : C30_hdec_out :=
  let '(pre, pad, len) := i in
  let file := pre ++ repeat pad (len - length pre) in
  let d := if Nat.leb HEADER_SIZE (length file) then header_decode (firstn HEADER_SIZE file) else Err E_TRUNCATED in
  let '(r, after) := header_read file in
  (omap hdr_to d, omap hdr_to r, firstn 160 after, length after).

(* ---- time index ---- *)
Definition C30_tiapp_in := (bytes * nat * list (Z * N) * list (bytes * bytes))%type.
Definition C30_tiapp_out := (N * N * bytes * bytes * list (Z * N) * outcome (list (Z * N)))%type.
Definition C30_tiapp_run (i : C30_tiapp_in) : C30_tiapp_out :=
  let '(pre, pos, es, t) := i in
  let '((off, len, cks), file, sorted) := append_track (table_hash t) pre pos es in
  (off, len, cks, file, sorted, read_track file (N.to_nat off) len).

Definition C30_tiread_run (i : bytes * nat * N) : outcome (list (Z * N)) :=
  let '(file, off, len) := i in read_track file off len.

(* ---- TOC ---- *)
(* long byte strings arrive as a list of short hex literals *)
Definition hexs (l : list String.string) : bytes := flat_map hex l.

Definition C30_tocenc_run (v : value) : outcome bytes :=
  if wt toc_schema v then Ok (toc_encode v) else Err E_DECODE.
Definition C30_tocdec_run (b : bytes) : outcome value := toc_decode b.
