(* Correspondence runners for C36.  Texts travel as UTF-8 bytes (hex) and are decoded to
   code points here; the Unicode tables are ASCII below 128 and, above, the finite table
   the harness computed with the regex crate itself for the code points of the case. *)
From MV Require Import Base.Prelude Model.Regex Model.Pii Gen.PiiPatterns.
Local Open Scope N_scope.

(* UTF-8 decoder for well-formed input (Rust `str` is always well-formed) *)
Fixpoint u8 (b : bytes) : list N :=
  match b with
  | [] => []
  | a :: r =>
      if a <? 128 then a :: u8 r
      else if a <? 224 then
        match r with
        | b1 :: r1 => ((a - 192) * 64 + (b1 - 128)) :: u8 r1
        | _ => []
        end
      else if a <? 240 then
        match r with
        | b1 :: b2 :: r2 => ((a - 224) * 4096 + (b1 - 128) * 64 + (b2 - 128)) :: u8 r2
        | _ => []
        end
      else
        match r with
        | b1 :: b2 :: b3 :: r3 => ((a - 240) * 262144 + (b1 - 128) * 4096 + (b2 - 128) * 64 + (b3 - 128)) :: u8 r3
        | _ => []
        end
  end.

(* (code point, (is \d, is \s, is \w)) for the non-ASCII code points of the case *)
Definition uctable := list (N * (bool * bool * bool)).
Fixpoint lookup (t : uctable) (x : N) : bool * bool * bool :=
  match t with
  | [] => (false, false, false)
  | (k, v) :: r => if k =? x then v else lookup r x
  end.
Definition t_digit (t : uctable) (x : N) := if x <? 128 then ascii_digit x else fst (fst (lookup t x)).
Definition t_space (t : uctable) (x : N) := if x <? 128 then ascii_space x else snd (fst (lookup t x)).
Definition t_word (t : uctable) (x : N) := if x <? 128 then ascii_word x else snd (lookup t x).

Definition C36_in := (uctable * bytes)%type.
(* contains_pii x, mask_pii x, contains_pii (mask_pii x), mask_pii (mask_pii x) = mask_pii x,
   known_class x *)
Definition C36_out := (bool * list N * bool * bool * bool)%type.

Definition C36_run (i : C36_in) : C36_out :=
  let '(t, b) := i in
  let x := u8 b in
  let mask := mask_pii (t_digit t) (t_space t) (t_word t) MASK_ORDER in
  let contains := contains_pii (t_digit t) (t_space t) (t_word t) CONTAINS_ORDER in
  let y := mask x in
  let c1 := contains y in
  (* when nothing is detected in y, mask y = y is theorem C36_clean_text_unchanged *)
  let idem := if c1 then eqb (mask y) y else true in
  (contains x, y, c1, idem, known_class (t_digit t) (t_space t) (t_word t) MASK_ORDER x).

(* per pattern (index into PATTERNS = names sorted): is_match and the find_iter spans *)
Definition C36_spans_in := (uctable * N * bytes)%type.
Definition C36_spans_out := (bool * list (N * N))%type.
Definition C36_spans_run (i : C36_spans_in) : C36_spans_out :=
  let '(t, k, b) := i in
  let x := u8 b in
  let r := nth (N.to_nat k) PATTERNS REps in
  (is_match (t_digit t) (t_space t) (t_word t) r x, find_iter (t_digit t) (t_space t) (t_word t) r x).
