(* Correspondence runners for C32: the same query text through the model and through
   memvid_core::verif_hooks::{parse_query_ast, evaluate_query}.
   Oracles are finite tables supplied by the harness from the real implementation:
   - alnum: the non-ASCII code points of the query for which char::is_alphanumeric holds
     (ASCII letters and digits are built in);
   - dates: parse_date_value on each date string that occurs (query range endpoints and
     content_dates), obtained through the hook itself (date:[s TO *]). *)
From Coq Require Import String Ascii.
From MV Require Import Base.Prelude Model.Query.

Fixpoint cps (s : string) : str :=
  match s with
  | EmptyString => []
  | String a r => N_of_ascii a :: cps r
  end.
Arguments cps _%string.

Definition ascii_alnum (c : N) : bool :=
  ((48 <=? c) && (c <=? 57) || (65 <=? c) && (c <=? 90) || (97 <=? c) && (c <=? 122))%N.
Definition tbl_alnum (t : list N) (c : N) : bool := ascii_alnum c || existsb (N.eqb c) t.

Fixpoint tbl_date (t : list (str * option Z)) (s : str) : option Z :=
  match t with
  | [] => None
  | (k, v) :: r => if str_eqb k s then v else tbl_date r s
  end.

(* ---- boolean equality on ASTs ---- *)
Definition term_eqb (a b : term) : bool :=
  match a, b with
  | TWord x, TWord y | TPhrase x, TPhrase y | TWild x, TWild y
  | TUri x, TUri y | TScope x, TScope y | TTrack x, TTrack y | TTag x, TTag y | TLabel x, TLabel y => str_eqb x y
  | TDate a1 b1, TDate a2 b2 => eqb a1 a2 && eqb b1 b2
  | _, _ => false
  end.
Fixpoint expr_eqb (a b : expr) {struct a} : bool :=
  match a, b with
  | EOr l, EOr m | EAnd l, EAnd m =>
      (fix go (l m : list expr) : bool :=
         match l, m with
         | [], [] => true
         | x :: l', y :: m' => expr_eqb x y && go l' m'
         | _, _ => false
         end) l m
  | ENot x, ENot y => expr_eqb x y
  | ETerm s, ETerm t => term_eqb s t
  | _, _ => false
  end.
#[global] Instance Eqb_expr : Eqb expr := expr_eqb.

(* ---- stream parse: query text -> Ok AST | Err kind ---- *)
Definition C32_parse_in := (str * list N * list (str * option Z))%type.
Definition C32_parse_out := outcome expr.
Definition C32_parse_run (i : C32_parse_in) : C32_parse_out :=
  let '(q, at_, dt) := i in
  fst (parse_query (tbl_alnum at_) (tbl_date dt) q).

(* ---- stream eval: query text + documents -> Ok [match decisions] | Err kind ---- *)
(* uri, track, tags, labels, timestamp, content_dates, content_lower *)
Definition C32_doc := (option str * option str * list str * list str * Z * list str * str)%type.
Definition mk_doc (d : C32_doc) : doc :=
  let '(u, t, tg, lb, ts, ds, c) := d in mkDoc u t tg lb ts ds c.
Definition C32_eval_in := (str * list N * list (str * option Z) * list C32_doc)%type.
Definition C32_eval_out := outcome (list bool).
Definition C32_eval_run (i : C32_eval_in) : C32_eval_out :=
  let '(q, at_, dt, ds) := i in
  match fst (parse_query (tbl_alnum at_) (tbl_date dt) q) with
  | Ok e => Ok (map (fun d => eval (tbl_date dt) e (mk_doc d)) ds)
  | Err k => Err k
  | Panic k => Panic k
  end.

(* ---- stream nest: pre^n mid post^n run in a child process ----
   output: 0 = Ok, k = Err kind k, 100 = the child process died.  The model is run on every
   nested shape of any size (the depth limit makes it stop at level 65) and on the flat
   chains up to 1000 repetitions (the model's list append makes longer flat chains
   quadratic); flag run_model in the input, set by the harness per shape; when it is false
   the observed value is passed through.  A death is never predicted by the model, so it
   is both a violation of the property oracle and a mismatch. *)
Fixpoint rep (s : str) (n : nat) : str := match n with O => [] | S k => s ++ rep s k end.
Definition C32_nest_in := (str * N * str * str * bool * N)%type.
Definition C32_nest_out := N.
Definition C32_nest_run (i : C32_nest_in) : C32_nest_out :=
  let '(pre, n, mid, post, run_model, seen) := i in
  let q := rep pre (N.to_nat n) ++ mid ++ rep post (N.to_nat n) in
  if run_model then
    match fst (parse_query ascii_alnum (fun _ => None) q) with
    | Ok _ => 0%N
    | Err k => k
    | Panic _ => 101%N
    end
  else seen.
