(* Correspondence runner for C08: a history on the store with its index sets; outputs = per-op
   (result, frame_count, next_frame_id), at every read point the observable index sets
   (time index, vector index ids, engine documents holding the probe word, frame_by_uri of every
   explicit uri), and the final frame table with the option fields of every Document frame. *)
From MV Require Import Base.Prelude Model.Store Model.Reads.
Local Open Scope N_scope.

#[global] Instance Eqb_uri08 : Eqb uri := uri_eqb.
Definition fields_eqb (a b : fields) : bool :=
  eqb (o_ts a) (o_ts b) && eqb (o_track a) (o_track b) && eqb (o_kind a) (o_kind b) && eqb (o_uri a) (o_uri b) &&
  eqb (o_title a) (o_title b) && eqb (o_meta a) (o_meta b) && eqb (o_stext a) (o_stext b) &&
  eqb (o_tags a) (o_tags b) && eqb (o_labels a) (o_labels b) && eqb (o_extra a) (o_extra b).
#[global] Instance Eqb_fields : Eqb fields := fields_eqb.

Definition blank_uri (f : fields) : fields :=
  mkFields (o_ts f) (o_track f) (o_kind f) None (o_title f) (o_meta f) (o_stext f) (o_tags f) (o_labels f) (o_extra f).

Definition C08_obs := (list N * list N * list N * list (N * option N))%type.
Definition C08_row := ((N * uri * N * N * N * option N * option N * option N * bool) * fields)%type.
Definition C08_in := list rop.
Definition C08_out := (list sout * list C08_obs * list C08_row)%type.

Definition observe_reads (r : rstore) (uris : list N) : C08_obs :=
  (tix r, map fst (vec r), lex r,
   map (fun k => (k, option_map f_id (frame_by_uri (committed (base r)) (UExp k)))) uris).

Definition row08 (al : list fattr) (f : frame) : C08_row :=
  ((f_id f, f_uri f, 0, f_role f, f_status f, f_supersedes f, f_superseded_by f, f_parent f, f_manifest f),
   if f_role f =? 0 then blank_uri (a_fields (attr_of al (f_id f))) else empty_fields).

Fixpoint run08 (r : rstore) (ops : list rop) : rstore * list sout * list C08_obs :=
  match ops with
  | [] => (r, [], [])
  | op :: rest =>
      let '(r1, o) := rstep r op in
      let '(r2, os, bs) := run08 r1 rest in
      (r2, o :: os, match op with RRead uris => observe_reads r1 uris :: bs | _ => bs end)
  end.

Definition C08_run (ops : C08_in) : C08_out :=
  let '(r, os, bs) := run08 rstore0 ops in
  (os, bs, map (row08 (attrs r)) (committed (base r))).
