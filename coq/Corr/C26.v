(* Correspondence runner for C26: a history of puts with derived data (cards, enrichment
   records, queue entries), plain store ops, queue drains and observations; the oracle inputs
   of each op (checkpoint timing, extra log records, chunk count, number of cards the rule
   extractor returned) are the ones observed on the implementation.  Output per op: the store
   observation (result, frame_count, next_frame_id), (card count, queue length, first task),
   and -- on DObserve -- every card's (id, source_frame_id) and every enrichment stamp
   (frame id, card ids); on DDrain the tasks in order with "frame found".

   C26_run models the code AS IT IS (derived id = log sequence number of the put);
   C26_run_fixed models the repaired code (derived id = next_frame_id() before the append):
   switch the stream's runner in tools/props.py once the fix is in /repo. *)
From MV Require Import Base.Prelude Model.Store Model.Derived.
Local Open Scope N_scope.

Definition C26_in := list dop.
Definition C26_out := list dout.

Definition C26_run (ops : C26_in) : C26_out := snd (drun false ds0 ops).
Definition C26_run_fixed (ops : C26_in) : C26_out := snd (drun true ds0 ops).
