(* Correspondence runners for C29.  The SAME functions of Model/Capsule.v that the theorems
   are about (lock_file_stream, unlock_file with its read loop and dispatch) are instantiated
   on runs of literal bytes and opaque tokens, so that capsules of several MiB can be
   evaluated: `Tok id off len` stands for bytes [off, off+len) of blob `id` (a real
   ciphertext or plaintext chunk).  Argon2 is the finite table of the derivations the
   harness made (anything else: key 0, under which nothing decrypts); AES-256-GCM is the
   table of (key, nonce, plaintext run, ciphertext run) that the real cipher accepted. *)
From MV Require Import Base.Prelude Model.Capsule.
Local Open Scope N_scope.

Inductive seg := Lit (b : bytes) | Tok (id off len : N).
Definition run := list seg.

Definition seg_eqb (a b : seg) : bool :=
  match a, b with
  | Lit x, Lit y => bytes_eqb x y
  | Tok i o l, Tok i' o' l' => (i =? i') && (o =? o') && (l =? l')
  | _, _ => false
  end.
#[global] Instance Eqb_seg : Eqb seg := seg_eqb.

Definition seg_len (s : seg) : N :=
  match s with Lit b => N.of_nat (length b) | Tok _ _ l => l end.
Definition run_len (r : run) : N := fold_left (fun a s => a + seg_len s) r 0.

(* first n bytes, the rest (everything if n exceeds the length) *)
Fixpoint run_split (n : N) (r : run) : run * run :=
  match r with
  | [] => ([], [])
  | s :: r' =>
      if n =? 0 then ([], r)
      else
        let l := seg_len s in
        if l <=? n then let '(a, b) := run_split (n - l) r' in (s :: a, b)
        else match s with
             | Lit x => ([Lit (firstn (N.to_nat n) x)], Lit (skipn (N.to_nat n) x) :: r')
             | Tok i o _ => ([Tok i o n], Tok i (o + n) (l - n) :: r')
             end
  end.

(* concrete bytes of a run without tokens *)
Fixpoint run_lit (r : run) : option bytes :=
  match r with
  | [] => Some []
  | Lit x :: r' => match run_lit r' with Some y => Some (x ++ y) | None => None end
  | Tok _ _ l :: r' => if l =? 0 then run_lit r' else None
  end.

(* normal form: no empty pieces, adjacent literals merged, contiguous tokens merged *)
Definition cons_norm (s : seg) (r : run) : run :=
  if seg_len s =? 0 then r else
  match s, r with
  | Lit x, Lit y :: r' => Lit (x ++ y) :: r'
  | Tok i o l, Tok i' o' l' :: r' => if (i =? i') && (o + l =? o') then Tok i o (l + l') :: r' else s :: r
  | _, _ => s :: r
  end.
Fixpoint norm (r : run) : run :=
  match r with [] => [] | s :: r' => cons_norm s (norm r') end.

Definition kdf_tab := list (bytes * bytes * N).
Fixpoint kdf_of (t : kdf_tab) (pw salt : bytes) : N :=
  match t with
  | [] => 0
  | (p, s, k) :: r => if bytes_eqb p pw && bytes_eqb s salt then k else kdf_of r pw salt
  end.

(* key, nonce, plaintext run, ciphertext run (both in normal form) *)
Definition aead_tab := list (N * bytes * run * run).
Fixpoint dec_of (t : aead_tab) (k : N) (n : bytes) (c : run) : option run :=
  match t with
  | [] => None
  | (k', n', p, c') :: r =>
      if (k =? k') && bytes_eqb n n' && eqb (norm c) c' then Some p else dec_of r k n c
  end.
(* a plaintext the table does not know encrypts to an unknown blob of length + 16 *)
Fixpoint enc_of (t : aead_tab) (k : N) (n : bytes) (p : run) : run :=
  match t with
  | [] => [Tok 888888 0 (run_len p + 16)]
  | (k', n', p', c) :: r =>
      if (k =? k') && bytes_eqb n n' && eqb (norm p) p' then c else enc_of r k n p
  end.

Definition FUEL : nat := 64.   (* records per capsule in the generated cases: at most 5 *)

Definition out_norm (o : outcome run) : outcome run :=
  match o with Ok r => Ok (norm r) | Err e => Err e | Panic s => Panic s end.

(* password, kdf table, AEAD table, capsule *)
Definition C29_unlock_in := (bytes * kdf_tab * aead_tab * run)%type.
Definition C29_out := outcome run.
Definition C29_unlock_run (i : C29_unlock_in) : C29_out :=
  let '(pw, kt, at_, caps) := i in
  out_norm (unlock_file run_len run_split (@app seg) [] run_lit (kdf_of kt) (dec_of at_) FUEL pw caps).

(* password, kdf table, AEAD table, salt, base nonce, plaintext file *)
Definition C29_lock_in := (bytes * kdf_tab * aead_tab * bytes * bytes * run)%type.
Definition C29_lock_run (i : C29_lock_in) : C29_out :=
  let '(pw, kt, at_, salt, base, f) := i in
  out_norm (lock_file_stream run_len run_split (@app seg) run_lit (fun b => [Lit b])
                             (kdf_of kt) (enc_of at_) CHUNK_SIZE FUEL pw salt base f).
