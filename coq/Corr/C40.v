(* Correspondence runners for C40.
   hist:    one ingestion path on a real memory as a list of bulk ops with the oracle inputs
            observed on the implementation; output per op: (result, frame_count, next_frame_id),
            log-region size, (Stats.vec_enabled, the documents search_vec / frame_embedding reach,
            None when search_vec answers "not enabled"), and at commit / finalize / reopen the
            timeline ids and the engine's documents (sorted ids of the probe-word search).
   presize: begin_batch { wal_pre_size_bytes } on a memory with committed frames:
            (log size, min_bytes, payload offsets) -> (new log size, new payload offsets). *)
From MV Require Import Base.Prelude Model.Store Model.VecStore Model.Timeline Model.Bulk.
Local Open Scope N_scope.

Definition settles (op : bop) : bool :=
  match op with BCommit _ _ | BFinalize _ _ | BReopen _ => true | _ => false end.

(* search_vec: VecNotEnabled unless enabled; ensure_vec_index loads from the manifest when no index is in memory *)
Definition vec_seen (x : idx) : option docs :=
  if venabled x then match vidx x with Some d => Some d | None => index_of (vtoc x) end else None.

Definition C40_obs := (sout * N * (bool * option docs) * option (list N * list N))%type.
Definition C40_in := list bop.
Definition C40_out := list C40_obs.

Definition obs_of (op : bop) (x : bst * sout) : C40_obs :=
  let '(s, o) := x in
  (o, wal_size (bat s), (venabled (ix s), vec_seen (ix s)),
   if settles op then Some (timeline_ids s, lex (ix s)) else None).

Definition C40_run (ops : C40_in) : C40_out :=
  map (fun y => obs_of (fst y) (snd y)) (combine ops (snd (brun bst0 ops))).

Definition C40_presize_in := (N * N * list N)%type.
Definition C40_presize_out := (N * list N)%type.
Definition C40_presize_run (i : C40_presize_in) : C40_presize_out :=
  let '(w, m, offs) := i in
  let w' := if 0 <? m then ensure_wal_capacity w m else w in
  (w', adjust_offsets (w' - w) offs).
