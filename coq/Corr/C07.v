(* Correspondence runner for C07: one history of commit batches on a real memory, replayed on the
   byte-level model Model/Content.v.
   Oracles are finite tables supplied by the harness from the run:
     zstd   : (level, P, S)  -- encode_all(P, level) = S was observed (S = the stored window of the
              frame whose canonical payload is P); the decoder maps S back to P, anything else fails;
     BLAKE3 : (bytes, digest) for every byte string hashed in the run; anything else hashes to [];
     UTF-8  : the list of byte strings of the run that are valid UTF-8;
     render_binary_summary : (n, text).
   Inputs that the model does not compute (they come from the extractor / search-text builder):
   each entry's search text and mime class; data_end and the log-region size observed through
   cfg(memvid_verif) hooks before each commit. *)
From MV Require Import Base.Prelude Model.Content.
Local Open Scope N_scope.

Definition ztable := list (Z * bytes * bytes).
Fixpoint t_zenc (t : ztable) (level : Z) (p : bytes) : bytes :=
  match t with
  | [] => []
  | (l, k, s) :: r => if (l =? level)%Z && bytes_eqb k p then s else t_zenc r level p
  end.
Fixpoint t_zdec (t : ztable) (s : bytes) : option bytes :=
  match t with
  | [] => None
  | (_, p, k) :: r => if bytes_eqb k s then Some p else t_zdec r s
  end.
Fixpoint t_hash (t : list (bytes * bytes)) (x : bytes) : bytes :=
  match t with
  | [] => []
  | (k, d) :: r => if bytes_eqb k x then d else t_hash r x
  end.
Definition t_utf8 (t : list bytes) (x : bytes) : bool := existsb (bytes_eqb x) t.
Fixpoint t_summary (t : list (N * bytes)) (n : N) : bytes :=
  match t with
  | [] => []
  | (k, s) :: r => if k =? n then s else t_summary r n
  end.

(* search text and mime class of an entry *)
Definition cmeta := (option bytes * option bool)%type.

Inductive cop :=
| CPutWhole (level : Z) (p : bytes) (m : cmeta) (supersedes : option N)
| CPutChunked (chunks : list (bytes * cmeta)) (m : cmeta) (supersedes : option N)
| CPutExtracted (level : Z) (p : bytes) (chunks : list (bytes * cmeta)) (m : cmeta) (supersedes : option N)
| CReuse (src : N) (m : cmeta)
| CDelete (target : N).

(* growth of the log region before the commit, data_end seen before the commit, engine present,
   ops with the log sequence put returned, growth during the commit *)
Definition cbatch := (N * N * bool * list (N * cop) * N)%type.

Record tables := mkTables {
  tz : ztable; th : list (bytes * bytes); tu : list bytes; ts : list (N * bytes) }.

(* wal_offset, wal_size at creation; tables; batches *)
Definition C07_in := (N * N * (ztable * list (bytes * bytes) * list bytes * list (N * bytes)) * list cbatch)%type.

(* per frame: (off, len, checksum, zstd?, canonical_length, role, manifest, parent, chunk_index, status)
   then reads: canonical payload (length, digest), blob reader (file-backed?, len, digest of
   read_to_end), frame_content digest *)
Definition frame_row := (N * N * bytes * bool * option N * N * option N * option N * option N * N)%type.
Definition read_row := (outcome (N * bytes) * outcome (bool * N * bytes) * outcome bytes)%type.
Definition batch_out := outcome (list (frame_row * read_row)).
Definition C07_out := list batch_out.

Section Run.
  Variable T : tables.
  Let zenc := t_zenc (tz T).
  Let zdec := t_zdec (tz T).
  Let Hh := t_hash (th T).
  Let isu := t_utf8 (tu T).
  Let summ := t_summary (ts T).

  Definition meta_of (m : cmeta) : meta := mkMeta (fst m) (snd m).

  Definition records_of (seq : N) (o : cop) : list record :=
    match o with
    | CPutWhole level p m sup => put_whole_records zenc isu seq level p (meta_of m) sup
    | CPutChunked cs m sup =>
        put_chunked_records zenc isu seq (map (fun c => (fst c, meta_of (snd c))) cs) (meta_of m) sup
    | CPutExtracted level p cs m sup =>
        put_extracted_records zenc isu seq level p (map (fun c => (fst c, meta_of (snd c))) cs) (meta_of m) sup
    | CReuse src m =>
        (* the source frame is looked up when the entry is built (update_frame reads `existing`) *)
        [RInsert seq (mkEntry [] Plain None (Some src) 0 None None None (Some src) (fst m) (snd m))]
    | CDelete t => [RTombstone (Some t)]
    end.

  (* update_frame copies encoding and canonical length of the existing frame into the entry *)
  Definition fix_reuse (st : store) (r : record) : record :=
    match r with
    | RInsert seq e =>
        match e_reuse e with
        | Some src =>
            match get (s_frames st) src with
            | Some f => RInsert seq (reuse_entry f (mkMeta (e_stext e) (e_mime e)))
            | None => r
            end
        | None => r
        end
    | _ => r
    end.

  Definition out_of {A B} (f : A -> B) (o : outcome A) : outcome B :=
    match o with Ok a => Ok (f a) | Err k => Err k | Panic s => Panic s end.

  Definition row_of (st : store) (f : frame) : frame_row * read_row :=
    ((f_off f, f_len f, f_sum f, match f_enc f with Zstd => true | Plain => false end, f_clen f,
      f_role f, f_manifest f, f_parent f, f_cidx f, f_status f),
     (out_of (fun b => (blen b, Hh b)) (frame_canonical_bytes zdec st f),
      out_of (fun b => (match b with BFile _ _ => true | BMem _ => false end, blob_len b,
                        Hh (blob_read_to_end st b))) (blob_reader zdec st f),
      out_of Hh (frame_content zdec isu summ st f))).

  Fixpoint run_batches (st : store) (bs : list cbatch) : C07_out :=
    match bs with
    | [] => []
    | (g1, de, lex, ops, g2) :: rest =>
        let st1 := grow_wal st g1 in
        let st1 := mkStore (s_file st1) (s_wal_off st1) (s_wal_size st1) de (s_frames st1) lex in
        let recs := map (fix_reuse st1) (flat_map (fun so => records_of (fst so) (snd so)) ops) in
        match apply_records zdec Hh isu summ st1 recs with
        | Ok st2 =>
            let st3 := grow_wal st2 g2 in
            Ok (map (row_of st3) (s_frames st3)) :: run_batches st3 rest
        | Err k => [Err k]
        | Panic s => [Panic s]
        end
    end.
End Run.

Definition C07_run (i : C07_in) : C07_out :=
  let '(wo, ws, (z, h, u, s), bs) := i in
  run_batches (mkTables z h u s) (mkStore [] wo ws 0 [] true) bs.
