(* Correspondence runners for C18.
   stream "craft": a whole read-only session (open_read_only + read calls) on the bytes of a file,
     through the byte-level model Model/ReadOnly.v.  The file is given as chunks (count, pattern)
     so that the zero runs of header padding and log region stay short in the cases file (the bytes
     between the log region and the TOC -- payloads and index segments, which the model never reads --
     are given as zeros when they hold no footer magic and no table entry points into them); BLAKE3 is
     the finite table of real digests (candidate TOC windows, log payloads, re-encoded TOC);
     Toc::decode + verify_checksum and prepare_toc_bytes are finite tables filled by running the
     real functions on the TOC windows of valid footers.
   stream "hist": a store history (Model/Store.v ops with the oracle inputs observed on the
     implementation) that ends WITHOUT commit; output = what a read-only handle opened afterwards
     shows: frame_count and the frame table = `committed` of the model state, never `view`. *)
From MV Require Import Base.Prelude Model.Footer Model.Header Model.Wal Model.Store Model.ReadOnly Corr.C01.
Local Open Scope N_scope.

Fixpoint table_hash (t : list (bytes * bytes)) (x : bytes) : bytes :=
  match t with
  | [] => []
  | (k, d) :: r => if bytes_eqb k x then d else table_hash r x
  end.

Fixpoint rep_pat (n : nat) (p : bytes) : bytes :=
  match n with O => [] | S k => p ++ rep_pat k p end.
Definition expand (chunks : list (N * bytes)) : bytes :=
  flat_map (fun c => match snd c with
                     | [x] => repeat x (N.to_nat (fst c))
                     | p => rep_pat (N.to_nat (fst c)) p
                     end) chunks.

(* byte strings that occur in the file are named by (offset, length) in the file given to the model;
   anything else is a literal *)
Definition key := (N * N * bytes)%type.
Definition resolve (file : bytes) (k : key) : bytes :=
  let '(off, len, lit) := k in
  match lit with [] => slice file (N.to_nat off) (N.to_nat len) | _ => lit end.

(* decoded TOC as the harness reports it:
   (number of frames, has_lex_index, tantivy segments, catalog entries, toc_checksum, (re-encoded image, its checksum)) *)
Definition toc_row := (N * bool * list (N * N) * list (N * N) * bytes * (key * bytes))%type.
Definition toc_row' := (N * bool * list (N * N) * list (N * N) * bytes * (bytes * bytes))%type.
Definition resolve_row (file : bytes) (r : toc_row) : toc_row' :=
  let '(n, lex, segs, cat, ck, (re, reck)) := r in (n, lex, segs, cat, ck, (resolve file re, reck)).

Definition dummy_frames (n : N) : list frame :=
  map (fun i => mkFrame (N.of_nat i) (UDefault (N.of_nat i)) 0 0 0 None None None false) (seq 0 (N.to_nat n)).

Definition rtoc_of (r : toc_row') : rtoc :=
  let '(n, lex, segs, cat, ck, _) := r in mkRToc (dummy_frames n) lex segs cat ck.

Fixpoint table_decode (t : list (bytes * toc_row')) (x : bytes) : option rtoc :=
  match t with
  | [] => None
  | (k, r) :: rest => if bytes_eqb k x then Some (rtoc_of r) else table_decode rest x
  end.

(* prepare_toc_bytes, keyed by the stored checksum of the decoded TOC *)
Fixpoint table_reencode (t : list (bytes * toc_row')) (x : rtoc) : bytes * bytes :=
  match t with
  | [] => ([], [])
  | (_, (_, _, _, _, ck, re)) :: rest => if bytes_eqb ck (rt_checksum x) then re else table_reencode rest x
  end.

(* the file after the session, as the implementation left it, described relative to the file before:
   (0, off, _, _, lit) write lit at off; (1, off, src, len, _) write before[src .. src+len) at off; (2, n, ...) set_len n *)
Definition patch := (N * N * N * N * bytes)%type.
Definition apply_patch (file0 : bytes) (f : bytes) (p : patch) : bytes :=
  let '(kind, off, src, len, lit) := p in
  match kind with
  | 0 => pwrite f (N.to_nat off) lit
  | 1 => pwrite f (N.to_nat off) (slice file0 (N.to_nat src) (N.to_nat len))
  | _ => set_len f (N.to_nat off)
  end.
Definition apply_patches (file0 : bytes) (ps : list patch) : bytes := fold_left (apply_patch file0) ps file0.

Definition rop_of (c : N * N) : rop :=
  match fst c with
  | 0 => RFrameCount
  | 1 => RFrameById (snd c)
  | 2 => RPayload (snd c)
  | 3 => RStats
  | 4 => RTimeline
  | 5 => RSearch
  | _ => RVerify
  end.

Definition rout_code (o : rout) : N * outcome N :=
  match o with
  | OCount n => (0, Ok n)
  | OFrame f => (1, Ok (match f with Some _ => 1 | None => 0 end))
  | OUnit => (2, Ok 0)
  | OSearch b => (3, Ok (if b then 1 else 0))
  | OVerify r => (4, r)
  end.

Definition wev_code (e : wev) : N * N * N :=
  match e with
  | WWrite off d => (0, off, N.of_nat (length d))
  | WSetLen n => (1, n, 0)
  | WSync => (2, 0, 0)
  end.

(* file chunks, BLAKE3 table, TOC table, lock_free, read calls (kind, argument), the file the implementation left *)
Definition C18_in := (list (N * bytes) * list (key * bytes) * list (key * toc_row) * bool * list (N * N) * list patch)%type.
(* open result: Ok (frame_count, footer_offset, generation, log pending bytes, log sequence) | Err kind;
   outputs of the read calls; the write trace (kind, offset / length, length); the model's final bytes
   equal the bytes the implementation left *)
Definition C18_out := (outcome (N * N * N * N * N) * list (N * outcome N) * list (N * N * N) * bool)%type.

Definition C18_run (i : C18_in) : C18_out :=
  let '(chunks, ht, tocs, lock_free, calls, patches) := i in
  let file := expand chunks in
  let Hf := table_hash (map (fun e => (resolve file (fst e), snd e)) ht) in
  let tocs' := map (fun e => (resolve file (fst e), resolve_row file (snd e))) tocs in
  let dec := table_decode tocs' in
  let re := table_reencode tocs' in
  let ops := map rop_of calls in
  let after := apply_patches file patches in
  match open_ro Hf dec re MAX_SEARCH_SIZE lock_free file with
  | (Ok hd, s) =>
      let summary := (N.of_nat (length (ro_view hd)), h_footer_offset (hd_header hd), hd_generation hd,
                      rw_pending (hd_wal hd), rw_seq (hd_wal hd)) in
      let '((_, s1), outs) := ro_run Hf dec re MAX_SEARCH_SIZE lock_free (hd, s) ops in
      (Ok summary, map rout_code outs, map wev_code (fs_trace s1), bytes_eqb (fs_bytes s1) after)
  | (Err e, s) => (Err e, [], map wev_code (fs_trace s), bytes_eqb (fs_bytes s) after)
  | (Panic p, s) => (Panic p, [], map wev_code (fs_trace s), bytes_eqb (fs_bytes s) after)
  end.

(* ---- store level: a read-only open after an un-committed tail shows `committed` ---- *)
Definition C18_hist_in := list sop.
Definition C18_hist_out := (N * list frame_row * bool)%type.   (* frame_count, table, pending records change the writer's view *)

Definition C18_hist_run (ops : C18_hist_in) : C18_hist_out :=
  let '(s, _) := srun store0 ops in
  (len (committed s), map row_of (committed s),
   negb (eqb (map row_of (view s)) (map row_of (committed s)))).
