(* Correspondence runner for C05: an op sequence over a fresh zeroed region. *)
From MV Require Import Base.Prelude Model.Wal.
Require MV.Gen.Consts.
Local Open Scope N_scope.

(* digest table keyed by (len, fill) of the repeat-payloads the harness uses *)
Fixpoint table_hash (t : list (N * N * bytes)) (x : bytes) : bytes :=
  match t with
  | [] => []
  | (l, f, d) :: r =>
      if (N.of_nat (length x) =? l) && (match x with [] => true | b :: _ => b =? f end) then d
      else table_hash r x
  end.

Definition C05_in := (N * list (N * N * bytes) * list wop)%type.
(* per op: tag, then numbers: every output flattened to a list of N *)
Definition C05_out := list (outcome (list (N * N * N)))%type.

Definition sum_bytes (b : bytes) : N := fold_left N.add b 0.
Definition rec_summary (r : wrec) : N * N * N := (r_seq r, N.of_nat (length (r_payload r)), sum_bytes (r_payload r)).

Definition flat (o : wout) : outcome (list (N * N * N)) :=
  match o with
  | OSeq (Ok s) => Ok [(s, 0, 0)]
  | OSeq (Err e) => Err e
  | OSeq (Panic s) => Panic s
  | ORecs (Ok l) => Ok (map rec_summary l)
  | ORecs (Err e) => Err e
  | ORecs (Panic s) => Panic s
  | OStats p s => Ok [(p, s, 0)]
  | OBool b => Ok [(if b then 1 else 0, 0, 0)]
  | OOpen (Ok _) => Ok []
  | OOpen (Err e) => Err e
  | OOpen (Panic s) => Panic s
  end.

Definition C05_run (i : C05_in) : C05_out :=
  let '(size, t, ops) := i in
  let H := table_hash t in
  let r0 := zeros (N.to_nat size) in
  match open_wal H r0 size (mkHdr 0 0) with
  | Ok w => map flat (wrun H MV.Gen.Consts.WAL_CHECKPOINT_THRESHOLD MV.Gen.Consts.WAL_CHECKPOINT_PERIOD (w, mkHdr 0 0) ops)
  | Err e => [Err e]
  | Panic s => [Panic s]
  end.
