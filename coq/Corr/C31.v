(* Correspondence runner for C31: same buffer through model and implementation.
   The BLAKE3 oracle is the finite table of real digests supplied by the harness
   (one entry per candidate TOC window); anything else hashes to [] (never equal to
   a 32-byte digest). *)
From MV Require Import Base.Prelude Model.Footer.

Fixpoint table_hash (t : list (bytes * bytes)) (x : bytes) : bytes :=
  match t with
  | [] => []
  | (k, d) :: r => if bytes_eqb k x then d else table_hash r x
  end.

Definition C31_in := (bytes * list (bytes * bytes))%type.
(* footer_offset, toc_offset, toc_len, generation, toc_bytes *)
Definition C31_out := option (N * N * N * N * bytes)%type.

Definition C31_run (i : C31_in) : C31_out :=
  let '(b, t) := i in
  match find_last_valid_footer (table_hash t) b with
  | None => None
  | Some s => Some (N.of_nat (fs_footer_offset s), N.of_nat (fs_toc_offset s),
                    toc_len (fs_footer s), generation (fs_footer s), fs_toc_bytes s)
  end.

(* footer codec: decode of arbitrary bytes, as (toc_len, hash, generation) *)
Definition C31_decode_run (b : bytes) : option (N * bytes * N) :=
  match footer_decode b with
  | None => None
  | Some f => Some (toc_len f, toc_hash f, generation f)
  end.
