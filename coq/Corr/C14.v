(* Correspondence runner for C14: a history of store ops with their vector arguments and the
   oracle inputs observed on the implementation (automatic checkpoint, log growth, chunk
   count); outputs = per op the store observation (result, frame_count, next_frame_id) and
   the vector observation (Stats.vec_enabled, Stats.has_vec_index, Stats.vector_count, the
   documents search_vec / frame_embedding can reach, None when search_vec says "not enabled"). *)
From MV Require Import Base.Prelude Model.Store Model.VecStore.
Local Open Scope N_scope.

Definition C14_in := list vop.
Definition C14_out := list vout.

Definition C14_run (ops : C14_in) : C14_out := snd (vrun vstate0 ops).
