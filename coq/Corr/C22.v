(* Correspondence runner for C22, stream `walscan`: EmbeddedWal::open_read_only on a crafted
   file against the checked-arithmetic model of scan_records / open_internal.
   The file is `pad` zero bytes followed by `tail`; BLAKE3 is the finite table of the real
   digests of every record-shaped payload window (anything else hashes to [], never equal to a
   32-byte digest).  Output: Ok (pending_bytes, sequence) | Err kind | Panic. *)
From MV Require Import Base.Prelude Model.OpenSeq.

Fixpoint C22_table_hash (t : list (bytes * bytes)) (x : bytes) : bytes :=
  match t with
  | [] => []
  | (k, d) :: r => if bytes_eqb k x then d else C22_table_hash r x
  end.

Definition C22_wal_in := ((N * bytes * list (bytes * bytes)) * (N * N * N))%type.
Definition C22_wal_out := outcome (N * N).

Definition C22_wal_run (i : C22_wal_in) : C22_wal_out :=
  let '((pad, tail, tbl), (off, size, ckseq)) := i in
  let file := repeat 0%N (N.to_nat pad) ++ tail in
  match wal_open_chk (C22_table_hash tbl) file off size 0 ckseq with
  | Ok (p, s, _) => Ok (p, s)
  | Err k => Err k
  | Panic s => Panic s
  end.
