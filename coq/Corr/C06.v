(* C06 uses the C01 runner on histories that also contain vacuum and doctor. *)
From MV Require Export Corr.C01.
Definition C06_run := C01_run.
