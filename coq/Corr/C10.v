(* Correspondence runner for C10: Memvid::search on real memories against the model of
   try_tantivy_search's post-evaluation (Model/Hits.v), with the query parsed by C32's model.

   Input per case (all strings as UTF-8 bytes, decoded here):
     query text; C32's oracle tables (non-ASCII alphanumeric code points, parse_date_value);
     the stemmed tokens (engine.analyse_text of the query tokens); top_k, snippet_chars, uri, scope;
     the frame table as (length, relevant frames) -- every other position is a Deleted dummy frame
     (never looked at: not a candidate, not a parent or child of one);
     the engine candidates = the response's own frames in response order with their scores, plus
     decoy candidates the real evaluator / the request filter rejects, plus stale ids;
     the response's total_hits / next_cursor (compared exactly when the page is not full: then every
     evaluated frame is in the response; otherwise the model's total is a lower bound).
   Output: rank, frame, range, text, matches, chunk range, chunk text length, score of every hit. *)
From MV Require Import Base.Prelude Model.Query Model.Snippet Model.Hits.
From MV Require Model.SearchPage.
From MV Require Import Corr.C32.
(* NOT local: the generated case files write byte strings as `(bl [104;105])` with bare numerals,
   which must be read as N (every other numeral in a case file carries its own %N / %Z) *)
Open Scope N_scope.

(* byte-string literal of the case files *)
Definition bl (l : list N) : bytes := l.

Fixpoint utf8_decode (fuel : nat) (b : bytes) : str :=
  match fuel with
  | O => []
  | S f =>
      match b with
      | [] => []
      | b0 :: r =>
          if b0 <? 128 then b0 :: utf8_decode f r
          else if b0 <? 224 then
            match r with
            | b1 :: r' => ((b0 - 192) * 64 + (b1 - 128)) :: utf8_decode f r'
            | _ => []
            end
          else if b0 <? 240 then
            match r with
            | b1 :: b2 :: r' => ((b0 - 224) * 4096 + (b1 - 128) * 64 + (b2 - 128)) :: utf8_decode f r'
            | _ => []
            end
          else
            match r with
            | b1 :: b2 :: b3 :: r' =>
                ((b0 - 240) * 262144 + (b1 - 128) * 4096 + (b2 - 128) * 64 + (b3 - 128)) :: utf8_decode f r'
            | _ => []
            end
      end
  end.
Definition dec (b : bytes) : str := utf8_decode (length b) b.
(* the decoder is glue: every decoded text is re-encoded with the model's utf8 and compared *)
Definition dec_ok (b : bytes) : bool := bytes_eqb (utf8 (dec b)) b.

Definition C10_frame :=
  (N * N * N * option bytes * option bytes * list bytes * list bytes * Z * list bytes * option bytes *
   option N * option N * option N * option N * option (N * bytes))%type.

Definition mk_frame (t : C10_frame) : frame :=
  let '(id, status, role, uri, track, tags, labels, ts, dates, st, parent, cidx, manifest, clen, payload) := t in
  mkFrame id status role (option_map dec uri) (option_map dec track) (map dec tags) (map dec labels) ts
          (map dec dates) (option_map dec st) parent cidx manifest clen
          (option_map (fun p => (fst p, dec (snd p))) payload).

Definition frame_dec_ok (t : C10_frame) : bool :=
  let '(_, _, _, uri, _, _, _, _, _, st, _, _, _, _, payload) := t in
  match uri with Some b => dec_ok b | None => true end &&
  match st with Some b => dec_ok b | None => true end &&
  match payload with Some p => dec_ok (snd p) | None => true end.

Definition dummy (i : N) : frame := mkFrame i 2 0 None None [] [] 0%Z [] None None None None None None.
Fixpoint find_frame (fs : list frame) (i : N) : option frame :=
  match fs with
  | [] => None
  | f :: r => if f_id f =? i then Some f else find_frame r i
  end.
Fixpoint ids_from (start : N) (n : nat) : list N :=
  match n with O => [] | S k => start :: ids_from (start + 1) k end.
Definition build_table (n : N) (fs : list frame) : table :=
  map (fun i => match find_frame fs i with Some f => f | None => dummy i end) (ids_from 0 (N.to_nat n)).

Definition hit_out := (N * N * (N * N) * bytes * N * (N * N) * N * N)%type.
Definition out_of_hit (h : hit) : hit_out :=
  (h_rank h, h_frame h, h_range h, h_text h, h_matches h, h_chunk_range h, len (h_chunk_text h), h_score h).

Definition C10_in :=
  (bytes * list N * list (bytes * option Z) * list bytes * (N * N * option bytes * option bytes) *
   (N * list C10_frame) * list (N * N) * (N * option N))%type.
Definition C10_out := outcome (list hit_out * N * option N).

Definition C10_run (i : C10_in) : C10_out :=
  let '(q, at_, dt, toks, (top_k, snip, uri, scope), (n, frames), cands, (rtotal, rnext)) := i in
  if negb (dec_ok q && forallb frame_dec_ok frames) then Err 98
  else
  let pd := tbl_date (map (fun kv => (dec (fst kv), snd kv)) dt) in
  match fst (parse_query (tbl_alnum at_) pd (dec q)) with
  | Ok e =>
      let rq := mkRq top_k snip (option_map dec uri) (option_map dec scope) None in
      match tantivy_post pd (fun _ => None) (fun l => l) false
                         (build_table n (map mk_frame frames)) e toks rq cands with
      | Ok (Some r) =>
          let exact := llen (r_hits r) <? N.max top_k 1 in
          Ok (map out_of_hit (r_hits r),
              if exact then r_total r else if r_total r <=? rtotal then rtotal else r_total r,
              match r_next r with
              | Some p => Some p
              | None => if exact then None else rnext
              end)
      | Ok None => Err 90
      | Err k => Err k
      | Panic s => Panic s
      end
  | Err k => Err (100 + k)
  | Panic s => Panic s
  end.

(* requests that end without hits (empty answer, error, panic): recorded for the distribution only *)
Definition C10_other_in := (bytes * N)%type.
Definition C10_other_run (i : C10_other_in) : N := snd i.
