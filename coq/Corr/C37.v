(* Correspondence runners for C37: the binary32 instance of the model on u32 bit patterns. *)
From MV Require Import Base.Prelude Model.Adaptive Model.AdaptiveF32.
Local Open Scope N_scope.

(* scores (bit patterns), (min_results, normalize_scores, strategy tag, p1, p2, p3):
   tag 0 AbsoluteThreshold{min_score=p1} 1 RelativeThreshold{min_ratio=p1} 2 ScoreCliff{max_drop_ratio=p1}
   3 Elbow{sensitivity=p1} 4 Combined{relative_threshold=p1, max_drop_ratio=p2, absolute_min=p3} *)
Definition C37_in := (list N * (N * bool * N * N * N * N))%type.
(* Ok (cut-off index, trigger code) | Panic *)
Definition C37_out := outcome (N * N).

Definition C37_strategy (k p1 p2 p3 : N) : strategy f32 :=
  if k =? 0 then AbsoluteThreshold (f32_of_bits p1)
  else if k =? 1 then RelativeThreshold (f32_of_bits p1)
  else if k =? 2 then ScoreCliff (f32_of_bits p1)
  else if k =? 3 then Elbow (f32_of_bits p1)
  else Combined (f32_of_bits p1) (f32_of_bits p2) (f32_of_bits p3).

Definition C37_run (i : C37_in) : C37_out :=
  let '(sc, (mr, norm, k, p1, p2, p3)) := i in
  match find_adaptive_cutoff f32ops (map f32_of_bits sc) (mk_config mr norm (C37_strategy k p1 p2 p3)) with
  | Ok (c, t) => Ok (N.of_nat c, t)
  | Err e => Err e
  | Panic s => Panic s
  end.

(* normalize_scores; outputs as bit patterns with NaN printed as 0x7FC00000 (f32_bits) and
   -0 printed as +0 (f32::max/min may return either zero for (+0,-0); it decides only the sign
   of a zero output) *)
Definition canon_zero (b : N) : N := if b =? 2147483648 then 0 else b.
Definition C37_norm_run (sc : list N) : list N :=
  map (fun y => canon_zero (f32_bits y)) (normalize_scores f32ops (map f32_of_bits sc)).
