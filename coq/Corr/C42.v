(* Correspondence runner for C42: the state of a real memory just before vacuum (frame table with
   windows, file bytes from the data start to the footer offset, handle fields) through the model;
   compared with the table, the payload bytes, the data end and the pending log records the
   implementation shows afterwards.  The payload bytes are compared exactly on their first 4096 bytes
   and through (length, byte sum, position-weighted byte sum mod 4294967291) as a whole -- the literal
   of a 70 KB region costs coqc more than the whole model run.  `ix` = a stand-in for the index image
   (the model writes it after the last payload; it is not part of what is compared). *)
From MV Require Import Base.Prelude Model.Vacuum.
Local Open Scope N_scope.

(* long byte strings arrive as a list of short hex literals *)
Definition hexcat (l : list bytes) : bytes := concat l.

(* id, status, off, len, role, meta, has_text *)
Definition C42_row := (N * N * N * N * N * N * bool)%type.
(* start, rows, region, (data_end, cpe, footer), (lex, vec, pending), ix, mode (0 vacuum / 1 doctor / 2 doctor + index rebuild) *)
Definition C42_in := (N * list C42_row * bytes * (N * N * N) * (bool * bool * N) * bytes * N)%type.
(* digest of a byte string: first 4096 bytes, length, sum of bytes, sum of (i+1) * byte_i, both mod 4294967291 *)
Definition DIGEST_MOD : N := 4294967291.
Definition digest (b : bytes) : bytes * N * N * N :=
  let '(n, s1, s2) := fold_left (fun acc x => let '(i, a, w) := acc in
                                    (i + 1, (a + x) mod DIGEST_MOD, (w + (i + 1) * x) mod DIGEST_MOD)) b (0, 0, 0) in
  (firstn 4096 b, n, s1, s2).
(* rows (id, status, off, len), digest of the payload bytes [start, end of last payload), data_end and
   cached_payload_end (0 for doctor), pending, verify *)
Definition C42_out := outcome (list (N * N * N * N) * (bytes * N * N * N) * (N * N) * N * bool)%type.

Definition row_frame (r : C42_row) : vframe :=
  let '(id, st, off, len, role, meta, txt) := r in mkVF id st off len role meta txt.

Definition C42_run (i : C42_in) : C42_out :=
  let '(start, rows, region, (de, cpe, footer), (lex, vec, pending), ix, mode) := i in
  let st := mkVS start (map row_frame rows) region de cpe footer lex vec pending in
  let res := if mode =? 0 then vacuum st ix
             else doctor_vacuum st ix (if mode =? 2 then Some ix else None) in
  match res with
  | Ok s =>
      let pend := payload_region_end (vs_start s) (vs_frames s) in
      Ok (map (fun f => (vf_id f, vf_status f, vf_off f, vf_len f)) (vs_frames s),
          digest (firstn (N.to_nat (pend - vs_start s)) (vs_region s)),
          (if mode =? 0 then (vs_data_end s, vs_cpe s) else (0, 0)), vs_pending s, verify_passed s)
  | Err k => Err k
  | Panic p => Panic p
  end.
