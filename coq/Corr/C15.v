(* Correspondence runners for C15 (timeline).
   hist : an acknowledged op history is replayed by the table-level write-path model
          (Model/Timeline.v trun); outputs = the frame table (id, timestamp, role, status),
          whether a time index is present (or the table is empty), and the result of each
          timeline query as (frame id, timestamp) lists.
   table: build_timeline fed the frame table OBSERVED on the implementation (index =
          rebuild_time_index of that table when the implementation reports a time index).
   track: io::time_index append_track / read_track at entry level.
   The `_fixed` runners use the repaired build_timeline; after the repair is applied to
   /repo only the runner names in tools/props.py change. *)
From MV Require Import Base.Prelude Model.Timeline.
Local Open Scope N_scope.

Definition C15_row := (N * Z * N * N)%type.
Definition row_of (f : tframe) : C15_row := (tf_id f, tf_ts f, tf_role f, tf_status f).
Definition frame_of (r : C15_row) : tframe := let '(i, t, ro, st) := r in mkTF i t ro st.

Definition C15_query := (option N * option Z * option Z * bool)%type.
Definition query_of (q : C15_query) : tquery := let '(l, s, u, r) := q in mkQ l s u r.

Definition C15_result := outcome (list (N * Z)).
Definition timeline_fn := list tframe -> option (list tentry) -> tquery -> C15_result.

(* ---- hist ---- *)
Definition C15_in := (bool * list top * list C15_query)%type.
Definition C15_out := (list C15_row * bool * list C15_result)%type.

Definition C15_hist_with (bt : timeline_fn) (i : C15_in) : C15_out :=
  let '(engines, ops, qs) := i in
  let s := trun engines ops in
  (map row_of (ts_frames s),
   match ts_index s, ts_frames s with Some _, _ => true | None, [] => true | None, _ => false end,
   map (fun q => bt (ts_frames s) (ts_index s) (query_of q)) qs).

Definition C15_hist_run : C15_in -> C15_out := C15_hist_with build_timeline.
Definition C15_hist_run_fixed : C15_in -> C15_out := C15_hist_with build_timeline_fixed.

(* ---- table ---- *)
Definition C15_table_in := (list C15_row * bool * list C15_query)%type.
Definition C15_table_out := list C15_result.

Definition C15_table_with (bt : timeline_fn) (i : C15_table_in) : C15_table_out :=
  let '(rows, has_index, qs) := i in
  let frames := map frame_of rows in
  let index := if has_index then Some (rebuild_time_index frames) else None in
  map (fun q => bt frames index (query_of q)) qs.

Definition C15_table_run : C15_table_in -> C15_table_out := C15_table_with build_timeline.
Definition C15_table_run_fixed : C15_table_in -> C15_table_out := C15_table_with build_timeline_fixed.

(* ---- track ---- *)
(* (true, es): append_track es then read_track of what was written;
   (false, es): read_track of a track holding es in exactly this order *)
Definition C15_track_in := (bool * list (Z * N))%type.
Definition C15_track_out := outcome (list (Z * N)).
Definition C15_track_run (i : C15_track_in) : C15_track_out :=
  let '(sort_first, es) := i in
  if sort_first then read_track (append_track es) else read_track es.
