(* Correspondence runners for C20.
   stream "fault": one fault on a real committed file.  Input = (region class code, fault kind code
   (0 flip, 1 zeroing inside the region, 2 truncation), did the fault change the file, did the read-write open rewrite the footer, the observation
   made on the implementation (open+reads, open_read_only+reads, verify(deep)), and whether the
   read-write open rewrote the file's footer).  The runner returns the
   observation itself when the detection table allows it for that class, the table's first entry
   otherwise -- so a mismatch means: the implementation did something the table does not predict.
   stream "ti": faults inside the time-index track, decided exactly by Model/TimeIndex.read_track and
   the verify model: (does the track still read: 0 error / 1 ok, verify(deep): 0 Passed / 1 Failed). *)
From MV Require Import Base.Prelude Model.TimeIndex Model.Detect.
Local Open Scope N_scope.

Definition C20_in := (N * N * bool * bool * (N * N * N))%type.
Definition C20_out := (N * N * N)%type.

Definition obs_codes (o : obs) : C20_out := (verdict_code (fst (fst o)), verdict_code (snd (fst o)), snd o).

Definition C20_run (i : C20_in) : C20_out :=
  let '(cls, kind, changed, _rewritten, (rw, ro, vf)) := i in
  match class_of_code cls with
  | None => (9, 9, 9)
  | Some c =>
      let k := fkind_of_code kind in
      let o : obs := (verdict_of_code rw, verdict_of_code ro, vf) in
      if negb changed then obs_codes S3
      else if allowed c k o then (rw, ro, vf)
      else match table c k with p :: _ => obs_codes p | [] => (9, 9, 9) end
  end.

(* (track bytes after the fault, manifest.bytes_length, manifest.entry_count) *)
Definition C20_ti_in := (bytes * N * N)%type.
Definition C20_ti_out := (N * N)%type.
Definition C20_ti_run (i : C20_ti_in) : C20_ti_out :=
  let '(trk, len, count) := i in
  let r := read_track trk 0 len in
  let s := mkV (Some (r, count)) (Some true) None (Ok []) true (Ok 0) 0 in
  (match r with Ok _ => 1 | _ => 0 end,
   match verify_overall true s with Passed => 0 | _ => 1 end).

(* stream "order": one faulted file, the payload reads under several read schedules (each on its own handle,
   one handle used for two passes).  Input = (per frame id: the bytes in its window after the fault and the
   checksum of its TOC entry; per frame id: the windows frame_canonical_payload reads for it (itself, or the
   active chunks of a chunked document in chunk order); the schedules as lists of frame ids; the real BLAKE3
   digests of the windows).  The model lays the windows out as a file and runs the handle model
   (Detect.handle_read, which threads the history and ignores it); output per schedule step: 1 = Ok, 0 = error. *)
Fixpoint C20_table_hash (t : list (bytes * bytes)) (x : bytes) : bytes :=
  match t with
  | [] => []
  | (k, d) :: r => if bytes_eqb k x then d else C20_table_hash r x
  end.

Fixpoint window_frames (ws : list (bytes * bytes)) (pos : N) : list frame :=
  match ws with
  | [] => []
  | (w, c) :: r => mkFrame pos (N.of_nat (length w)) false None c true :: window_frames r (pos + N.of_nat (length w))
  end.

Definition C20_order_in := (list (bytes * bytes) * list (list nat) * list (list nat) * list (bytes * bytes))%type.
Definition C20_order_out := list (list N).

Section Order.
  Variable H : bytes -> bytes.
  Variable ctx : N * N * N.
  Variable file : bytes.
  Variable frames : list frame.
  Variable deps : list (list nat).

  (* document_chunk_payloads: the children one after the other, `?` on the first error *)
  Fixpoint step_reads (hist : list frame) (frs : list frame) : list frame * bool :=
    match frs with
    | [] => (hist, true)
    | fr :: r =>
        let '(h1, a) := handle_read H ctx file hist fr in
        match a with
        | Ok _ => step_reads h1 r
        | _ => (h1, false)
        end
    end.

  Fixpoint answers (hist : list frame) (sched : list nat) : list N :=
    match sched with
    | [] => []
    | p :: r =>
        let frs := flat_map (fun j => match nth_error frames j with Some fr => [fr] | None => [] end) (nth p deps []) in
        let '(h', b) := step_reads hist frs in
        (if b then 1 else 0) :: answers h' r
    end.
End Order.

Definition C20_order_run (i : C20_order_in) : C20_order_out :=
  let '(wins, deps, scheds, tbl) := i in
  let file := flat_map fst wins in
  let ctx := (0, 0, N.of_nat (length file)) in
  map (answers (C20_table_hash tbl) ctx file (window_frames wins 0) deps []) scheds.
