(* Correspondence runners for C20.
   stream "fault": one fault on a real committed file.  Input = (region class code, fault kind code
   (0 flip, 1 zeroing inside the region, 2 truncation), did the fault change the file, did the read-write open rewrite the footer, the observation
   made on the implementation (open+reads, open_read_only+reads, verify(deep)), and whether the
   read-write open rewrote the file's footer).  The runner returns the
   observation itself when the detection table allows it for that class, the table's first entry
   otherwise -- so a mismatch means: the implementation did something the table does not predict.
   stream "ti": faults inside the time-index track, decided exactly by Model/TimeIndex.read_track and
   the verify model: (does the track still read: 0 error / 1 ok, verify(deep): 0 Passed / 1 Failed). *)
From MV Require Import Base.Prelude Model.TimeIndex Model.Detect.
Local Open Scope N_scope.

Definition C20_in := (N * N * bool * bool * (N * N * N))%type.
Definition C20_out := (N * N * N)%type.

Definition obs_codes (o : obs) : C20_out := (verdict_code (fst (fst o)), verdict_code (snd (fst o)), snd o).

Definition C20_run (i : C20_in) : C20_out :=
  let '(cls, kind, changed, _rewritten, (rw, ro, vf)) := i in
  match class_of_code cls with
  | None => (9, 9, 9)
  | Some c =>
      let k := fkind_of_code kind in
      let o : obs := (verdict_of_code rw, verdict_of_code ro, vf) in
      if negb changed then obs_codes S3
      else if allowed c k o then (rw, ro, vf)
      else match table c k with p :: _ => obs_codes p | [] => (9, 9, 9) end
  end.

(* (track bytes after the fault, manifest.bytes_length, manifest.entry_count) *)
Definition C20_ti_in := (bytes * N * N)%type.
Definition C20_ti_out := (N * N)%type.
Definition C20_ti_run (i : C20_ti_in) : C20_ti_out :=
  let '(trk, len, count) := i in
  let r := read_track trk 0 len in
  let s := mkV (Some (r, count)) (Some true) None (Ok []) true (Ok 0) 0 in
  (match r with Ok _ => 1 | _ => 0 end,
   match verify_overall true s with Passed => 0 | _ => 1 end).
