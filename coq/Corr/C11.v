(* Correspondence runners for C11 (time-travel search).

   Input of one case = everything the candidate-filter composition of Memvid::search
   reads, observed on a real memory through public API (see harness/src/c11.rs):
     frames       : (id, timestamp, Active?) of every frame          (frame_by_id)
     time index   : (timestamp, id) entries                          (timeline)
     date range   : parsed.required_date_range()                     (hook query_facts)
     as_of_frame, as_of_ts
     (has_sketches, has_text_terms, no_sketch)
     cands        : find_sketch_candidates(query, options of search) (sorted ids)
     U            : the engine oracle = frames returned for the same query with no
                    as_of_*, no sketch pre-filter and unbounded top_k (sorted ids)
   The model composes the candidate filter F and predicts the hit set as U restricted
   to F (nothing on an early exit).  Output = sorted distinct hit frame ids of the real
   Memvid::search on the request, and the harness's own evaluation of the predicate
   "the sketch stage hits its empty-intersection branch" (must equal the Coq predicate
   sketch_disjoint: the class the monotonicity theorems `..._outside_known` exclude,
   finding F-C11-2, and the class of the fixed finding F-C11-1). *)
From MV Require Import Base.Prelude Model.AsOf.

Definition C11_in :=
  (list (N * Z * bool) * option (list (Z * N)) * option (option Z * option Z) *
   option N * option Z * (bool * bool * bool) * list N * list N)%type.
Definition C11_out := (list N * bool)%type.

Definition mk_frame (t : N * Z * bool) : frame :=
  let '(i, ts, a) := t in mkFrame i ts a.

Definition C11_hits_gen (fx : bool) (i : C11_in) : list N :=
  let '(frames, ti, dr, aof, aot, flags, cands, U) := i in
  let '(hs, ht, ns) := flags in
  search_ids_gen fx (table_engine U)
                 (mkStore (map mk_frame frames) ti hs)
                 (mkReq dr None aof aot ht ns) cands.

Definition C11_class (i : C11_in) : bool :=
  let '(frames, ti, dr, aof, aot, flags, cands, U) := i in
  let '(hs, ht, ns) := flags in
  sketch_disjoint (mkStore (map mk_frame frames) ti hs) (mkReq dr None aof aot ht ns) cands.

Definition C11_run_gen (fx : bool) (i : C11_in) : C11_out := (C11_hits_gen fx i, C11_class i).

(* the code as it is (commit d76304f: keep the hard filters, drop the sketch) *)
Definition C11_run_fixed : C11_in -> C11_out := C11_run_gen true.
(* the code before d76304f (sketch-only fallback); kept to show that reverting is caught *)
Definition C11_run : C11_in -> C11_out := C11_run_gen false.

(* requests that top_k / doc_limit truncate: the implementation returns a subset of the
   model's hit set, with min(|model set|, max(top_k,1)) distinct frames.
   input = (case, max(top_k,1), hit frame ids in rank order); output = (subset?, count, class) *)
Definition C11_trunc_in := (C11_in * N * list N)%type.
Definition C11_trunc_out := (bool * N * bool)%type.

Definition C11_trunc_run_gen (fx : bool) (i : C11_trunc_in) : C11_trunc_out :=
  let '(c, k, hits) := i in
  let m := C11_hits_gen fx c in
  (forallb (fun h => mem_id h m) hits, N.min (N.of_nat (length m)) k, C11_class c).

Definition C11_trunc_run_fixed : C11_trunc_in -> C11_trunc_out := C11_trunc_run_gen true.
Definition C11_trunc_run : C11_trunc_in -> C11_trunc_out := C11_trunc_run_gen false.
