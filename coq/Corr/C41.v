(* Correspondence runners for C41.

   stream "sched": the real run_worker_loop + the real Memvid methods, with the harness deciding
   which thread runs its next critical section (a gate in front of every closure and every
   foreground call): the schedule that actually ran is replayed through Model/Enrich.v and every
   critical section is compared: what it did (code), what it returned, queue length, first task,
   frame_count, next_frame_id; at the end the frame table, every frame's enrichment state, the
   worker's counters and whether it stopped.

   stream "real": the real start_enrichment_worker thread running freely against a foreground
   thread; the schedule is not observable, so what is compared is what the theorems say is
   schedule independent: the final frame table against the C01 reference model applied to the
   foreground's acknowledged calls (Properties/C41.v, C41_frame_table_is_foreground_reference). *)
From MV Require Import Base.Prelude Model.Store Model.StoreSpec Model.Derived Model.Enrich Corr.C01.
Local Open Scope N_scope.

(* checkpoint_interval, stop() called on the handle before run_worker_loop was entered, schedule *)
Definition C41_in := (N * bool * list sitem)%type.
(* code, result, queue length, first task, frame_count, next_frame_id *)
Definition step_obs := (N * outcome N * N * option N * N * N)%type.
(* frame table, enrichment state of frames 0..n-1, frames_processed, errors, stopped *)
Definition C41_final := (list frame_row * list N * N * N * bool)%type.
Definition C41_out := (list step_obs * C41_final)%type.

Definition wcode (e : est) (w : wst) : N :=
  match w_pc w with
  | WTop => if e_stop e then 6 else match e_queue e with [] => 0 | _ => 1 end
  | WHasTask t => if frame_found (e_st e) t then 2 else 3
  | WProcessed _ => 4
  | WCkpt => 5
  | WStopped => 7
  end.

Definition fcode (f : fop) : N :=
  match f with FPut _ _ _ _ _ => 10 | FUpdate _ _ _ _ => 11 | FDelete _ _ => 12 | FCommit _ => 13
             | FSearch => 14 | FDrain => 15 | FStop => 16 end.

Definition last_res (e : est) : outcome N :=
  match rev (e_hist e) with (_, o) :: _ => fst (fst o) | [] => Ok 0 end.

Definition obs_of (code : N) (res : outcome N) (e : est) : step_obs :=
  (code, res, N.of_nat (length (e_queue e)), hd_error (e_queue e), len (committed (e_st e)), next_frame_id (e_st e)).

Definition item_obs (iv : N) (x : est * wst) (i : sitem) : (est * wst) * step_obs :=
  let x1 := step iv x i in
  match i with
  | SW _ => (x1, obs_of (wcode (fst x) (snd x)) (Ok 0) (fst x1))
  | SF f =>
      let res := match sop_of_f f with
                 | Some _ => last_res (fst x1)
                 | None => match f with
                           | FDrain => Ok (N.of_nat (length (e_plog (fst x1))) - N.of_nat (length (e_plog (fst x))))
                           | _ => Ok 0
                           end
                 end in
      (x1, obs_of (fcode f) res (fst x1))
  end.

Fixpoint obs_run (iv : N) (x : est * wst) (sched : list sitem) : (est * wst) * list step_obs :=
  match sched with
  | [] => (x, [])
  | i :: r => let '(x1, o) := item_obs iv x i in
              let '(x2, os) := obs_run iv x1 r in (x2, o :: os)
  end.

Fixpoint upto (n : nat) : list N := match n with O => [] | S k => upto k ++ [N.of_nat k] end.

Definition final_of (x : est * wst) : C41_final :=
  let e := fst x in let w := snd x in
  (map row_of (committed (e_st e)), map (state_of e) (upto (length (committed (e_st e)))),
   w_nproc w, w_nerr w, match w_pc w with WStopped => true | _ => false end).

(* the harness appends one SW after the worker thread has been joined: the loop exit (stop seen
   with nothing left to checkpoint, or the loop had already exited) runs no closure, so there is
   nothing to observe for it; its model observation is dropped *)
Definition C41_run (i : C41_in) : C41_out :=
  let '(iv, pre, sched) := i in
  let '(x, os) := obs_run iv (init pre) sched in (removelast os, final_of x).

(* ---- stream "real": final table = reference table of the foreground's acknowledged calls ---- *)
Definition C41_real_in := list (sop * sout).
Definition C41_real_out := list frame_row.
Definition C41_real_run (h : C41_real_in) : C41_real_out := map row_of (ref_run [] h).
