(* Correspondence runner for C35: the same (text bytes, occurrences, window, max) through the
   model of compute_snippet_slices and through the implementation (hook
   memvid_core::verif_hooks::snippet_slices, each call under catch_unwind).
   Compared per case:
     1. the exact outcome: Panic, or the exact list of (start, end);
     2. the property itself as stated in Coq (slices_okb, proved equivalent to slices_ok in
        Proofs/SnippetProofs.v) evaluated on the model's outcome, against the harness's
        independent property oracle evaluated on the implementation's outcome;
     3. the known-finding class predicate (known_class) against the harness's copy. *)
From MV Require Import Base.Prelude Model.Snippet.

Definition C35_in := (bytes * list (N * N) * N * N)%type.
Definition C35_out := (outcome (list (N * N)) * bool * bool)%type.

Definition C35_run (i : C35_in) : C35_out :=
  let '(t, occs, window, max_snippets) := i in
  let r := compute_snippet_slices t occs window max_snippets in
  (r, slices_okb t max_snippets r, known_class t occs window max_snippets).

(* collect_token_occurrences before sort/dedup is not reachable through a hook; the harness
   re-implements the find loop with str::find and compares it with the model's *)
Definition C35_find_in := (bytes * bytes)%type.
Definition C35_find_run (i : C35_find_in) : list (N * N) :=
  let '(hay, needle) := i in token_occurrences hay needle.
