(* Correspondence runners for C19.
   hist   : a directory's initial listing and a history of API calls (with the oracle inputs the
            harness observed: whether the O_CREAT open / the open worked, the random staging
            suffixes, and which exit each staged commit took) -> after every call the result
            class, the reported sidecar on refusal, the directory operations (inotify on the
            real directory) and the sorted listing.
   refuse : one call on one directory (the refusal matrix and the non-refusals around it). *)
From Coq Require String.
From MV Require Import Base.Prelude Model.FsProto Model.SingleFile.
Local Open Scope N_scope.

Definition kind_of (c : N) : ekind :=
  if c =? 1 then KDir else if c =? 2 then KLink true else if c =? 3 then KLink false else KFile.
Definition mk_dir (l : list (bytes * N)) : dir := map (fun e => (fst e, kind_of (snd e))) l.

(* lexicographic order on byte strings (Rust's Ord for Vec<u8>) *)
Fixpoint name_leb (a b : name) : bool :=
  match a, b with
  | [], _ => true
  | _ :: _, [] => false
  | x :: a', y :: b' => if x <? y then true else if y <? x then false else name_leb a' b'
  end.
Fixpoint insert_name (n : name) (l : list name) : list name :=
  match l with
  | [] => [n]
  | m :: r => if name_leb n m then n :: l else m :: insert_name n r
  end.
Definition sort_names (l : list name) : list name := fold_right insert_name [] l.

Definition res_term (r : res) : N * option bytes :=
  match r with
  | RDone false => (0, None)
  | RDone true => (1, None)
  | RRefused c => (2, Some c)
  | RNoHandle => (3, None)
  end.
Definition dop_term (o : dop) : N * bytes * bytes :=
  match o with DCreat n => (0, n, []) | DUnlink n => (1, n, []) | DRename a b => (2, a, b) end.

Definition call_out := (N * option bytes * list (N * bytes * bytes) * list bytes)%type.
Definition C19_in := (list (bytes * N) * list api)%type.
Definition C19_out := (list call_out * bool * bool)%type.   (* per call; names_ok at the end; known_class *)

Fixpoint run_out (w : world) (h : list api) : list call_out * world :=
  match h with
  | [] => ([], w)
  | a :: r =>
      let '(w', res, tr) := step w a in
      let '(outs, wf) := run_out w' r in
      ((res_term res, map dop_term tr, sort_names (names (wdir w'))) :: outs, wf)
  end.

Definition C19_run (i : C19_in) : C19_out :=
  let d0 := mk_dir (fst i) in
  let '(outs, wf) := run_out (world0 d0) (snd i) in
  (outs, names_ok d0 wf, known_class (snd i)).

Definition C19_refuse_in := (list (bytes * N) * api)%type.
Definition C19_refuse_run (i : C19_refuse_in) : call_out :=
  let '(w', res, tr) := step (world0 (mk_dir (fst i))) (snd i) in
  (res_term res, map dop_term tr, sort_names (names (wdir w'))).
