(* Correspondence runners for C38: the same pair of u32 bit-pattern vectors through the
   binary32 model and through memvid_core::simd.  Outputs are u32 bit patterns; every NaN
   is 0x7fc00000 on both sides (the model has one NaN), nothing else is canonicalised
   (-0.0 and +0.0 stay distinct). *)
From MV Require Import Base.Prelude Model.SimdL2 Model.SimdL2F32.

Definition C38_in := (list N * list N)%type.
(* (bits of l2_distance_squared_simd, bits of l2_distance_simd) or Panic (length mismatch, debug_assert) *)
Definition C38_out := outcome (N * N).

Definition C38_run (i : C38_in) : C38_out :=
  let a := map f32_of_bits (fst i) in
  let b := map f32_of_bits (snd i) in
  match f32_l2_distance_squared_simd a b with
  | Ok sq => Ok (f32_to_bits sq, f32_to_bits (f32_sqrt sq))     (* l2_distance_simd = sqrt of it *)
  | Err k => Err k
  | Panic s => Panic s
  end.

(* C38_run reports exactly the two model functions (the square root is taken of the one
   kernel evaluation instead of evaluating the kernel twice) *)
Lemma C38_run_spec :
  forall av bv,
    let a := map f32_of_bits av in
    let b := map f32_of_bits bv in
    match C38_run (av, bv) with
    | Ok (s, d) => exists sq dd, f32_l2_distance_squared_simd a b = Ok sq /\ f32_l2_distance_simd a b = Ok dd /\
                                 s = f32_to_bits sq /\ d = f32_to_bits dd
    | Err _ => False
    | Panic _ => exists s1 s2, f32_l2_distance_squared_simd a b = Panic s1 /\ f32_l2_distance_simd a b = Panic s2
    end.
Proof.
  intros av bv a b. unfold C38_run. cbn [fst snd]. fold a b.
  unfold f32_l2_distance_simd, l2_distance_simd. fold f32_l2_distance_squared_simd.
  destruct (f32_l2_distance_squared_simd a b) as [sq|k|s] eqn:E.
  - exists sq, (f32_sqrt sq). repeat split; reflexivity.
  - unfold f32_l2_distance_squared_simd, l2_distance_squared_simd in E.
    destruct (negb _) in E; discriminate E.
  - exists s, s. split; reflexivity.
Qed.

(* the scalar definition (cfg(not(feature = "simd")) fallback, copied into the harness because
   the default build does not compile it): (bits of the squared sum, bits of its sqrt) *)
Definition C38_scalar_run (i : C38_in) : (N * N) :=
  let a := map f32_of_bits (fst i) in
  let b := map f32_of_bits (snd i) in
  let sq := f32_l2sq_scalar a b in
  (f32_to_bits sq, f32_to_bits (f32_sqrt sq)).

(* single operations on bit patterns: (a+b, a-b, a*b, sqrt a) -- ties Flocq's binary32 to the
   hardware arithmetic the Rust code runs on (subnormals not flushed, ties to even, NaN cases) *)
Definition C38_ops_run (i : N * N) : (N * N * N * N) :=
  let x := f32_of_bits (fst i) in
  let y := f32_of_bits (snd i) in
  (f32_to_bits (f32_add x y), f32_to_bits (f32_sub x y), f32_to_bits (f32_mul x y), f32_to_bits (f32_sqrt x)).
