(* Correspondence runners for C13.
   Instance of the abstract model: an embedding is (dimension, vector id) -- the harness
   numbers the distinct float vectors of a case --, a distance is the raw f32 bit pattern
   (N), and `dist` is the finite table of the distances the REAL kernel
   (memvid_core::simd::l2_distance_simd) returned for (query id, vector id).
   The comparison is f32_nan_last_le = (is_nan, total_cmp) read as "not Greater". *)
From MV Require Import Base.Prelude Model.StableSort Model.VecSearch.
Local Open Scope N_scope.

Definition CE := (N * N)%type.
Definition cdim (e : CE) : N := fst e.

Fixpoint assoc {B} (k : N) (t : list (N * B)) : option B :=
  match t with
  | [] => None
  | (k', v) :: r => if N.eqb k k' then Some v else assoc k r
  end.

Definition dtable := list (N * list (N * N)).
(* a pair missing from the table gets a value no f32 has (shows up as a mismatch) *)
Definition cdist (t : dtable) (q e : CE) : N :=
  match assoc (snd q) t with
  | Some row => match assoc (snd e) row with Some d => d | None => U32_MOD end
  | None => U32_MOD
  end.

Definition mkdocs (l : list (N * CE)) : list (doc CE) := map (fun p => mkDoc (fst p) (snd p)) l.

(* ---- streams "api" and "nan": VecIndexBuilder -> finish -> VecIndex::decode -> search
   ("nan" = the same calls with NaN / +-inf components; since the comparison is a total order the exact hit list
   is compared there too) ---- *)
Definition C13_api_in := (list (N * CE) * list (CE * N) * dtable)%type.
Definition C13_api_out := (N * N * list (outcome (list (N * N))))%type.

Definition C13_api_run (i : C13_api_in) : C13_api_out :=
  let '(ds, qs, t) := i in
  let docs := mkdocs ds in
  (finish_count CE docs, finish_dimension CE cdim docs,
   map (fun qk => index_search CE N cdim (cdist t) f32_nan_last_le docs (fst qk) (snd qk)) qs).

(* ---- stream "mem": histories on a real memory ---- *)
Definition C13_mem_in := (list (vop CE) * dtable)%type.
Definition C13_mem_out := list (outcome (list (N * N))).

Definition C13_mem_run (i : C13_mem_in) : C13_mem_out :=
  let '(ops, t) := i in
  snd (vrun CE N cdim (cdist t) f32_nan_last_le vinit ops).
