(* Correspondence runners for C13.
   Instance of the abstract model: an embedding is (dimension, vector id) -- the harness
   numbers the distinct float vectors of a case --, a distance is `f32key` (None = NaN,
   Some b = bits of a non-negative float), and `dist` is the finite table of the distances
   the REAL kernel (memvid_core::simd::l2_distance_simd) returned for (query id, vector id).
   The comparison is f32_le = partial_cmp(..).unwrap_or(Equal) read as "not Greater". *)
From MV Require Import Base.Prelude Model.StableSort Model.VecSearch.
Local Open Scope N_scope.

Definition CE := (N * N)%type.
Definition cdim (e : CE) : N := fst e.

Fixpoint assoc {B} (k : N) (t : list (N * B)) : option B :=
  match t with
  | [] => None
  | (k', v) :: r => if N.eqb k k' then Some v else assoc k r
  end.

Definition dtable := list (N * list (N * f32key)).
Definition cdist (t : dtable) (q e : CE) : f32key :=
  match assoc (snd q) t with
  | Some row => match assoc (snd e) row with Some d => d | None => None end
  | None => None
  end.

Definition mkdocs (l : list (N * CE)) : list (doc CE) := map (fun p => mkDoc (fst p) (snd p)) l.

(* ---- stream "api": VecIndexBuilder -> finish -> VecIndex::decode -> search ---- *)
Definition C13_api_in := (list (N * CE) * list (CE * N) * dtable)%type.
Definition C13_api_out := (N * N * list (outcome (list (N * f32key))))%type.

Definition C13_api_run (i : C13_api_in) : C13_api_out :=
  let '(ds, qs, t) := i in
  let docs := mkdocs ds in
  (finish_count CE docs, finish_dimension CE cdim docs,
   map (fun qk => index_search CE f32key cdim (cdist t) f32_le docs (fst qk) (snd qk)) qs).

(* ---- stream "nan": same calls, distances may be NaN: outside the guard only the length
   and, when nothing is cut off, the multiset of hits are compared ---- *)
Definition key_num (k : f32key) : N := match k with Some b => b | None => 4294967296 end.
Definition canon_le (a b : N * f32key) : bool :=
  if N.ltb (fst a) (fst b) then true
  else if N.ltb (fst b) (fst a) then false
  else N.leb (key_num (snd a)) (key_num (snd b)).

Definition C13_nan_out := list (outcome (N * list (N * f32key))).
Definition C13_nan_run (i : C13_api_in) : C13_nan_out :=
  let '(ds, qs, t) := i in
  let docs := mkdocs ds in
  map (fun qk =>
         match index_search CE f32key cdim (cdist t) f32_le docs (fst qk) (snd qk) with
         | Ok hs => Ok (N.of_nat (length hs),
                        if N.leb (N.of_nat (length docs)) (snd qk) then isort canon_le hs else [])
         | Err k => Err k
         | Panic s => Panic s
         end) qs.

(* ---- stream "mem": histories on a real memory ---- *)
Definition C13_mem_in := (list (vop CE) * dtable)%type.
Definition C13_mem_out := list (outcome (list (N * f32key))).

Definition C13_mem_run (i : C13_mem_in) : C13_mem_out :=
  let '(ops, t) := i in
  snd (vrun CE f32key cdim (cdist t) f32_le vinit ops).
