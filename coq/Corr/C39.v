(* Correspondence runners for C39: term filter, sketch generation, track write/read.
   BLAKE3 (hash_token) is the finite table of real hashes supplied by the harness; the
   tokenizer's output is supplied as the token list (both are oracles in the theorems). *)
From MV Require Import Base.Prelude Model.Sketch.
Local Open Scope N_scope.

(* ---- filter ---- *)
Definition C39_filter_in := (list N * N * list N)%type.          (* hashes, size in bytes, probes *)
Definition C39_filter_out := (outcome bytes * list (outcome bool))%type.
Definition C39_filter_run (i : C39_filter_in) : C39_filter_out :=
  let '(hs, size, probes) := i in
  let r := build_term_filter hs (N.to_nat size) in
  (r, match r with Ok f => map (term_filter_maybe_contains f) probes | _ => [] end).

(* term_filter_maybe_contains on an arbitrary filter *)
Definition C39_contains_run (i : bytes * N) : outcome bool :=
  term_filter_maybe_contains (fst i) (snd i).

(* ---- tokenizer: code points after NFKC + to_lowercase, the alphanumeric ones among them ---- *)
Definition C39_tok_in := (list N * list N)%type.
Definition C39_tok_run (i : C39_tok_in) : list (list N) :=
  tokenize_norm (fun c => existsb (N.eqb c) (snd i)) (fst i).

(* ---- sketch ---- *)
Definition entry_t := (N * N * bytes * list N * N * N * N)%type.
Definition entry_to_t (e : entry) : entry_t :=
  (e_frame_id e, e_simhash e, e_filter e, e_top e, e_wsum e, e_flags e, e_len e).
Definition entry_of_t (x : entry_t) : entry :=
  let '(fid, sh, flt, top, ws, fl, ln) := x in mkEntry fid sh flt top ws fl ln.

Definition variant_of_N (n : N) : variant := if n =? 0 then Small else if n =? 1 then Medium else Large.
Definition variant_to_N (v : variant) : N := match v with Small => 0 | Medium => 1 | Large => 2 end.

Fixpoint table_hash (t : list (bytes * N)) (x : bytes) : N :=
  match t with
  | [] => 0
  | (k, h) :: r => if bytes_eqb k x then h else table_hash r x
  end.

Definition C39_sketch_in := (N * N * list bytes * list (bytes * N))%type.   (* frame id, variant, tokens, hash table *)
Definition C39_sketch_out := (list (N * Z) * outcome entry_t)%type.         (* compute_token_weights, generate_sketch *)
Definition C39_sketch_run (i : C39_sketch_in) : C39_sketch_out :=
  let '(fid, v, tokens, tbl) := i in
  (compute_token_weights bytes bytes_eqb (table_hash tbl) raw_weight_no_idf tokens,
   match generate_sketch bytes bytes_eqb (table_hash tbl) raw_weight_no_idf fid tokens (variant_of_N v) with
   | Ok e => Ok (entry_to_t e)
   | Err k => Err k
   | Panic s => Panic s
   end).

(* idf_map = Some: idf values as exact fractions (num, den); tokens not in the map have idf 1.0 *)
Fixpoint table_idf (t : list (bytes * (N * N))) (x : bytes) : N * N :=
  match t with
  | [] => (1, 1)
  | (k, q) :: r => if bytes_eqb k x then q else table_idf r x
  end.
Definition C39_idf_in := (N * N * list bytes * list (bytes * N) * list (bytes * (N * N)))%type.
Definition C39_idf_run (i : C39_idf_in) : C39_sketch_out :=
  let '(fid, v, tokens, tbl, idf) := i in
  (compute_token_weights bytes bytes_eqb (table_hash tbl) (raw_weight_idf (table_idf idf)) tokens,
   match generate_sketch bytes bytes_eqb (table_hash tbl) (raw_weight_idf (table_idf idf)) fid tokens (variant_of_N v) with
   | Ok e => Ok (entry_to_t e)
   | Err k => Err k
   | Panic s => Panic s
   end).

(* ---- track ---- *)
Definition track_to_t (r : outcome track) : outcome (N * list entry_t) :=
  match r with
  | Ok t => Ok (variant_to_N (t_variant t), map entry_to_t (t_entries t))
  | Err k => Err k
  | Panic s => Panic s
  end.

Definition C39_track_in := (N * list entry_t * bytes * bytes)%type.   (* variant, inserts in order, bytes before, bytes after *)
(* entries as iter() yields them, written bytes, what read returns, (known_ids, known_shape, known_small_fields) *)
Definition C39_track_out := (list entry_t * bytes * outcome (N * list entry_t) * (bool * bool * bool))%type.
Definition C39_track_run (i : C39_track_in) : C39_track_out :=
  let '(v, ops, pre, suf) := i in
  let t := fold_left track_insert (map entry_of_t ops) (track_new (variant_of_N v)) in
  let w := write_sketch_track t in
  (map entry_to_t (t_entries t), w,
   track_to_t (read_sketch_track (pre ++ w ++ suf) (N.of_nat (length pre)) (N.of_nat (length w))),
   (known_ids t, known_shape t, known_small_fields t)).

(* ---- read_sketch_track on arbitrary bytes ---- *)
Definition C39_read_in := (bytes * N * N)%type.     (* data, offset, length *)
Definition C39_read_run (i : C39_read_in) : outcome (N * list entry_t) :=
  let '(file, off, len) := i in track_to_t (read_sketch_track file off len).
