(* Correspondence for C02/C03: the file-system operations each API call actually issued
   (strace -y on the real implementation, mapped to fsop) are classified by the model's
   protocol recognizers; the harness states which protocol each call must follow. *)
From Coq Require String.
From MV Require Import Base.Prelude Model.FsProto.
Local Open Scope N_scope.

Fixpoint strip_writes (t : list fsop) : list fsop :=
  match t with
  | WriteMem _ :: r => strip_writes r
  | _ => t
  end.

Definition only_mem_writes (t : list fsop) : bool :=
  match strip_writes t with [] => true | _ => false end.

(* sentinel rewrites (in-place WriteMem) may surround a staged commit *)
Definition staged_with_sentinels (t : list fsop) : bool :=
  let body := rev (strip_writes (rev (strip_writes t))) in
  staged_commit_ok body.

(* 0: nothing but sentinel rewrites; 1: log append; 2: staged commit; 4: log append then staged commit;
   3: anything else (in-place protocol: growth of the log region, vacuum, replay, create) *)
Definition classify (t : list fsop) : N :=
  if only_mem_writes t then 0
  else if wal_append_ok t || wal_appends_ok t then 1
  else if staged_with_sentinels t then 2
  else match t with
       | WriteMem a :: FsyncMem :: WriteMem b :: r => if staged_with_sentinels r then 4 else 3
       | _ => 3
       end.

Definition C02_proto_run (t : list fsop) : N := classify t.

(* kill stream: verdict strings are compared with the allowed set by the harness oracle; the
   model side only records that the verdict is one of the two states the theorems allow *)
Definition C02_kill_run (i : String.string * N) : bool := true.
