(* Correspondence runner for C28: a history on the store with its file image; at every read point
   (fully committed memory) the index sets of FOUR handles -- live, reopened read-write, read-only,
   opened after doctor{rebuild_lex_index / rebuild_time_index / rebuild_vec_index} -- as the model predicts them:
   frame count, Tantivy documents holding the probe word, vector index ids, vec enabled, time index
   ids, sketch ids in track order.  At a peek point (records pending, instant-indexed puts in the
   engine) the ids a search for the probe word may return: engine documents that are in the table. *)
From MV Require Import Base.Prelude Model.Store Model.Reads Model.Persist.
Local Open Scope N_scope.

Inductive cop :=
| COp (x : pop)
| CRead (extra : N) (lexf timef vecf : bool)
| CPeek.

Definition C28_obs := (N * list N * list N * bool * list N * list N)%type.
Definition C28_point := (C28_obs * C28_obs * C28_obs * C28_obs)%type.
Definition C28_in := list cop.
Definition C28_out := (list sout * list C28_point * list (list N))%type.

Definition obs_of (v : hview) : C28_obs :=
  (len (v_frames v), v_lex v, map fst (v_vec v), v_vec_on v, v_tix v, map fst (v_sk v)).

Definition peek_of (p : pstore) : list N :=
  filter (fun i => i <? len (committed (base (live p)))) (v_lex (handle_live p)).

Fixpoint run28 (p : pstore) (ops : list cop) : list sout * list C28_point * list (list N) :=
  match ops with
  | [] => ([], [], [])
  | COp x :: rest =>
      let '(p1, o) := pstep p x in
      let '(os, pts, pks) := run28 p1 rest in (o :: os, pts, pks)
  | CRead extra lexf timef vecf :: rest =>
      let '(os, pts, pks) := run28 p rest in
      (os, (obs_of (handle_live p), obs_of (handle_rw p extra), obs_of (handle_ro p),
            obs_of (handle_doctor p lexf timef vecf)) :: pts, pks)
  | CPeek :: rest =>
      let '(os, pts, pks) := run28 p rest in (os, pts, peek_of p :: pks)
  end.

Definition C28_run (ops : C28_in) : C28_out := run28 pstore0 ops.
