(* Correspondence runner for C23.  Input: the history as executed on the implementation (store
   operations with the oracle inputs of Model/Store.v observed, explicit timestamps, embeddings,
   cards) and, per region class, whether the files of two executions differed.  The model is run
   under two concrete oracle streams that differ in every source at every position.  Output: the
   per-call results, the final frame table, the time-index ids, the vector-index ids, the number of
   memory cards (all compared with the implementation), and one boolean saying that
     - the history is explicit and the two model runs agree on results and logical state,
     - a class the implementation showed differing is tagged with an oracle source (known_class),
     - a class whose model images differ under the two streams is tagged too,
     - the classes that hold segment names (header TOC checksum, segment files, TOC, footer hash) and
       the memories track (stamps of extracted cards; the later executions start more than a second
       after the first one ended) did differ on the implementation whenever the model's images differ. *)
From MV Require Import Base.Prelude Model.Store Model.StoreSpec Model.Reads Model.Determinism.
Local Open Scope N_scope.

#[global] Instance Eqb_uri23 : Eqb uri := uri_eqb.

Definition frame_row := (N * uri * N * N * N * option N * option N * option N * bool)%type.
Definition row_of (f : frame) : frame_row :=
  (f_id f, f_uri f, (if f_status f =? 0 then f_tag f else 0), f_role f, f_status f, f_supersedes f, f_superseded_by f, f_parent f, f_manifest f).

Fixpoint ins (x : N) (l : list N) : list N :=
  match l with [] => [x] | y :: r => if x <=? y then x :: l else y :: ins x r end.
Definition sortN (l : list N) : list N := fold_right ins [] l.

Definition oX : oracle := mkO (fun k => 100 + N.of_nat k) (fun _ => 0) (fun k => 1800000000 + N.of_nat k) (fun _ => 0) (fun _ => 0).
Definition oY : oracle := mkO (fun k => 900 + 3 * N.of_nat k) (fun k => 1 + N.of_nat k) (fun k => 1900000000 + 2 * N.of_nat k) (fun k => N.of_nat k) (fun k => 7 + N.of_nat k).

Definition holds_names (c : rclass) : bool :=
  match c with HdrTocSum | LexSegments | TocRegion | FooterLenHash | MemoriesTrack => true | _ => false end.

Definition C23_in := (list dop * list bool)%type.
Definition C23_out := (list sout * list frame_row * list N * list N * N * bool)%type.

Definition rows_of (st : dstate) : list frame_row := map row_of (committed (base (l_rs (fst st)))).
Definition cards_of (st : dstate) : N :=
  wlen (l_cards (fst st)) + wlen (l_pcards (fst st)) + wlen (l_scards (fst st)) + wlen (l_pscards (fst st)).

Definition C23_run (i : C23_in) : C23_out :=
  let '(h, obs) := i in
  let '(sx, ox) := drun oX dstate0 h in
  let '(sy, oy) := drun oY dstate0 h in
  let model_differs c := negb (list_eqb N.eqb (region toyH c sx) (region toyH c sy)) in
  let same_logical :=
      eqb ox oy && eqb (rows_of sx) (rows_of sy) && eqb (tix (l_rs (fst sx))) (tix (l_rs (fst sy))) &&
      eqb (vec (l_rs (fst sx))) (vec (l_rs (fst sy))) && eqb (lex (l_rs (fst sx))) (lex (l_rs (fst sy))) &&
      (cards_of sx =? cards_of sy) in
  let ok_class (co : rclass * bool) :=
      let '(c, o) := co in
      implb o (known_class c) && implb (model_differs c) (known_class c) &&
      (if holds_names c then implb (model_differs c) o else true) in
  let consistent := explicit h && same_logical && (length obs =? length all_classes)%nat && forallb ok_class (combine all_classes obs) in
  (ox, rows_of sx, sortN (tix (l_rs (fst sx))), sortN (map fst (vec (l_rs (fst sx)))), cards_of sx, consistent).
