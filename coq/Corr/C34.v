(* Correspondence runners for C34 (chunk planning).
   *)
From MV Require Import Base.Prelude Model.Chunks Model.StructChunk.
Local Open Scope N_scope.

(* A text travels as the hex of its UTF-8 bytes, long texts as several literals. *)
Definition cat (l : list bytes) : bytes := concat l.

(* normalized texts (no control characters except '\n') arrive as plain string literals *)
Definition cats (l : list String.string) : bytes :=
  concat (map (fun s => map Ascii.N_of_ascii (String.list_ascii_of_string s)) l).

(* UTF-8 decoding of well-formed input (the harness sends Rust `str` bytes) *)
Fixpoint utf8 (b : bytes) : list N :=
  match b with
  | [] => []
  | x :: r =>
      if x <? 128 then x :: utf8 r
      else match r with
           | [] => []
           | y :: r2 =>
               if x <? 224 then ((x - 192) * 64 + (y - 128)) :: utf8 r2
               else match r2 with
                    | [] => []
                    | z :: r3 =>
                        if x <? 240 then ((x - 224) * 4096 + (y - 128) * 64 + (z - 128)) :: utf8 r3
                        else match r3 with
                             | [] => []
                             | w :: r4 => ((x - 240) * 262144 + (y - 128) * 4096 + (z - 128) * 64 + (w - 128)) :: utf8 r4
                             end
                    end
           end
  end.

(* a chunk text is compared by (character count, 64-bit polynomial hash of its code points) *)
Definition digest (t : list N) : N * N :=
  (N.of_nat (length t),
   fold_left (fun h c => (h * 1000003 + c + 1) mod 18446744073709551616) t 0).

Definition ranges_N (rs : list range) : list (N * N) :=
  map (fun r => (N.of_nat (fst r), N.of_nat (snd r))) rs.

(* ---- stream "manifest": build_chunk_manifest(text, chunk_chars) + slice_text_range ---- *)
Definition C34_manifest_in := (bytes * N)%type.
Definition C34_manifest_out := outcome (option (list (N * N) * list (N * N))).

Definition C34_manifest_run (i : C34_manifest_in) : C34_manifest_out :=
  let '(tb, cc) := i in
  let text := utf8 tb in
  (* chunk sizes >= length behave alike (Proofs.ChunksProofs.build_clamp): keeps
     usize::MAX out of unary arithmetic *)
  let ccn := N.to_nat (N.min cc (N.of_nat (length text) + 1)) in
  match cp_build_chunk_manifest text ccn with
  | Ok None => Ok None
  | Ok (Some rs) => Ok (Some (ranges_N rs, map (fun r => digest (slice_text_range text r)) rs))
  | Err k => Err k
  | Panic s => Panic s
  end.

(* ---- stream "plan": plan_text_chunks on the normalizer's output ----
   input: normalize_text's result (None if it returned None) and has_structure of
   detect_structure on it.  Structured texts above the threshold are not sent to this
   runner (the structural plan is Err 77 here, which never equals an implementation
   output). *)
Definition C34_plan_in := (option bytes * bool)%type.
Definition C34_plan_out := outcome (option (N * list (N * N) * list (N * N))).

Definition C34_plan_run (i : C34_plan_in) : C34_plan_out :=
  let '(nb, hs) := i in
  let normalized := match nb with None => None | Some b => Some (utf8 b) end in
  match cp_plan_text_chunks normalized hs (Err 77) with
  | Ok None => Ok None
  | Ok (Some (cc, rs, chunks)) => Ok (Some (N.of_nat cc, ranges_N rs, map digest chunks))
  | Err k => Err k
  | Panic s => Panic s
  end.

(* ---- stream "structured": StructuralChunker::chunk over detect_structure's output ----
   an element = (kind, rendered strings, table rows (format_row text, size estimate),
   the trimmed non-blank lines of the normalized text inside the element's span);
   kind 0 table [raw_text; format_header()], 1 code [format()], 2 heading [format()],
   3 list [format()], 4 paragraph [text], 5 separator; source lines None = the non-empty
   lines of the first rendered string.  `skipped` = non-blank lines
   inside no element.  Output: the theorem's known_class predicate on this input (the
   harness re-computes it and only files a lost line under a known finding when it is
   true) and the digests of the planned chunk texts (None when at most one chunk). *)
Definition C34_struct_elem := (N * list bytes * list (bytes * N) * option (list bytes))%type.

(* the non-empty lines of a string *)
Fixpoint lines_acc (s : list N) (acc : list N) : list (list N) :=
  match s with
  | [] => match acc with [] => [] | _ => [rev acc] end
  | c :: r => if c =? 10 then match acc with [] => lines_acc r [] | _ => rev acc :: lines_acc r [] end
              else lines_acc r (c :: acc)
  end.
Definition C34_struct_in := (list C34_struct_elem * list bytes)%type.
Definition C34_struct_out := (bool * option (list (N * N)))%type.

Definition dec_elem (t : C34_struct_elem) : selem :=
  let '(k, ss, rows, src) := t in
  let s i := utf8 (nth i ss []) in
  ((if k =? 0 then ETable (s 0%nat) (s 1%nat) (map (fun r => (utf8 (fst r), N.to_nat (snd r))) rows)
    else if k =? 1 then ECode (s 0%nat)
    else if k =? 2 then EHeading (s 0%nat)
    else if k =? 3 then EList (s 0%nat)
    else if k =? 4 then EPara (s 0%nat)
    else ESep),
   (* None: the source lines are exactly the non-empty lines of the first rendered string *)
   match src with Some l => map utf8 l | None => lines_acc (s 0%nat) [] end).

Definition C34_struct_run (i : C34_struct_in) : C34_struct_out :=
  let '(es, skipped) := i in
  let doc := map dec_elem es in
  (known_class cp_is_ws DEFAULT_CHUNK_CHARS doc (map utf8 skipped),
   match plan_structural cp_is_ws DEFAULT_CHUNK_CHARS (map fst doc) with
   | None => None
   | Some cs => Some (map digest cs)
   end).
