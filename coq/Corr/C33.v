(* Correspondence runners for C33 (src/text.rs).

   The Unicode oracles of Model/Text.v are instantiated, per case, with finite tables of the REAL
   values computed by the harness with the same crates the implementation uses
   (unicode-normalization .nfkc(), unicode-segmentation .graphemes(true), char::is_control,
   char::is_whitespace):
     nfkc table       : NFKC of the input and of the first-pass output
     grapheme table   : segmentation of the trimmed text of each pass (obtained from the
                        implementation itself: normalize_text(x, usize::MAX).text)
     control / whitespace lists : the code points of all strings involved that satisfy the predicate
   Outside the tables: nfkc = identity, every code point its own grapheme, predicates false.

   Compared per case (stream "norm"):
     1. first pass  normalize_text(input, limit)           : None | Some (code points, truncated)
     2. second pass normalize_text(text of 1., limit)      : same shape (None when 1. is None)
     3. the two known-finding class predicates (known_shield, known_trailing) against the harness's
        independent copies
     4. hyp_ok: the oracle hypotheses of the theorems hold on the supplied tables (' ' and '\n'
        whitespace, ' ' not control, every supplied segmentation is a partition into non-empty
        pieces) -- expected true
     5. std_ok: Model/Text.v's std_is_control / std_is_whitespace agree with the supplied predicate
        values on every code point involved -- expected true
   Stream "trunc": truncate_at_grapheme_boundary(s, limit) as a byte index. *)
From Coq Require Import String.
From MV Require Import Base.Prelude Model.Text.
Local Open Scope N_scope.

(* compact literals for the generated cases (elaborating a literal costs ~70 us per character, so
   the cases are kept small): U8 "61cc81" = the code points of the UTF-8 bytes 61 cc 81 = [97; 769].
   The decoder is only as strict as it needs to be: the harness encodes Rust `str`s, which are
   valid UTF-8; a wrong decoding would show up as a mismatch, never hide one. *)
Fixpoint utf8_dec (b : bytes) : list N :=
  match b with
  | [] => []
  | a :: r =>
      if a <? 128 then a :: utf8_dec r
      else match r with
      | [] => []
      | b2 :: r2 =>
          if a <? 224 then ((a - 192) * 64 + (b2 - 128)) :: utf8_dec r2
          else match r2 with
          | [] => []
          | b3 :: r3 =>
              if a <? 240 then ((a - 224) * 4096 + (b2 - 128) * 64 + (b3 - 128)) :: utf8_dec r3
              else match r3 with
              | [] => []
              | b4 :: r4 => ((a - 240) * 262144 + (b2 - 128) * 4096 + (b3 - 128) * 64 + (b4 - 128)) :: utf8_dec r4
              end
          end
      end
  end.
Definition U8 (s : string) : list N := utf8_dec (hex s).
Arguments U8 _%string.

(* a segmentation is transmitted as the code-point counts of its graphemes: GL "010201" *)
Definition GL (s : string) : list N := hex s.
Arguments GL _%string.
Fixpoint split_by (lens : list N) (s : list N) : list (list N) :=
  match lens with
  | [] => []
  | n :: r => firstn (N.to_nat n) s :: split_by r (skipn (N.to_nat n) s)
  end.

Fixpoint tbl_nfkc (t : list (list N * list N)) (s : list N) : list N :=
  match t with
  | [] => s
  | (k, v) :: r => if cps_eqb k s then v else tbl_nfkc r s
  end.

Fixpoint tbl_graphemes (t : list (list N * list (list N))) (s : list N) : list (list N) :=
  match t with
  | [] => map (fun c => [c]) s
  | (k, v) :: r => if cps_eqb k s then v else tbl_graphemes r s
  end.

Definition tbl_pred (l : list N) (c : N) : bool := existsb (N.eqb c) l.

Definition nonemptyb (g : list N) : bool := match g with [] => false | _ => true end.

(* input, limit, nfkc table (entries with value = key are omitted: that is the default),
   grapheme table (key, code-point counts), control code points, whitespace code points *)
Definition C33_in :=
  (list N * N * list (list N * list N) * list (list N * list N) * list N * list N)%type.
Definition C33_res := option (list N * bool).
(* first pass, second pass (None = identical to the first pass), classes, (hyp_ok, std_ok) *)
Definition C33_out := (C33_res * option C33_res * (bool * bool) * (bool * bool))%type.

Definition C33_run (i : C33_in) : C33_out :=
  let '(input, limit, nt, gl, ctl, wsl) := i in
  let gt := map (fun kv => (fst kv, split_by (snd kv) (fst kv))) gl in
  let nf := tbl_nfkc nt in
  let gr := tbl_graphemes gt in
  let ic := tbl_pred ctl in
  let iw := tbl_pred wsl in
  let r1 := normalize_text nf ic iw gr input limit in
  let r2 := match r1 with
            | Some (out, _) => normalize_text nf ic iw gr out limit
            | None => None
            end in
  let allc := SP :: NL :: CR :: TAB :: input ++ concat (map (fun kv => fst kv ++ snd kv) nt) ++ concat (map fst gt) in
  let hyp_ok := iw SP && iw NL && negb (ic SP) &&
                forallb (fun kv => cps_eqb (concat (snd kv)) (fst kv) && forallb nonemptyb (snd kv)) gt in
  let std_ok := forallb (fun c => Bool.eqb (std_is_control c) (ic c) && Bool.eqb (std_is_whitespace c) (iw c)) allc in
  (r1, if eqb r2 r1 then None else Some r2,
   (known_shield nf ic iw gr input limit, known_trailing nf ic iw gr input limit), (hyp_ok, std_ok)).

(* string, limit, code-point counts of its graphemes; result: byte index, and whether the supplied
   segmentation is a partition into non-empty pieces (expected true) *)
Definition C33_trunc_in := (list N * N * list N)%type.
Definition C33_trunc_run (i : C33_trunc_in) : N * bool :=
  let '(s, limit, lens) := i in
  let gs := split_by lens s in
  (truncate_at_grapheme_boundary (tbl_graphemes [(s, gs)]) s limit,
   cps_eqb (concat gs) s && forallb nonemptyb gs).
