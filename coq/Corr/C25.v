(* Correspondence runners for C25.
   Ed25519 is the finite table of (message, signature) pairs that the real verify_strict
   accepts under the key in use (checked by the harness with ed25519-dalek on the message the
   signer signed); every other pair is rejected.  The model computes the canonical payload
   itself from the ticket fields, so a valid ticket is accepted by the model only if its
   payload equals the signed message byte for byte. *)
From MV Require Import Base.Prelude Model.Ticket.

Definition table_verify (t : list (bytes * bytes)) (pk msg sg : bytes) : bool :=
  existsb (fun e => bytes_eqb (fst e) msg && bytes_eqb (snd e) sg) t.

(* history on a freshly created memory: per op the result class and the observations
   (stats().seq_no, get_capacity(), current_ticket(), bound memory id) *)
Definition C25_in := (list (bytes * bytes) * list top)%type.
Definition C25_out := list (outcome unit * obs_t).
Definition C25_run (i : C25_in) : C25_out :=
  let '(t, ops) := i in trun (table_verify t) [] init_state ops.

(* signature::verify_ticket_signature with a harness key *)
Definition C25_verify_in := (list (bytes * bytes) * (bytes * bytes * Z * N * option N * bytes))%type.
Definition C25_verify_run (i : C25_verify_in) : outcome unit :=
  let '(t, (mid, issuer, seq, expires, cap, sg)) := i in
  verify_ticket_signature (table_verify t) [] mid issuer seq expires cap sg.
