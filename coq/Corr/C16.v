(* Correspondence runners for C16: the end-to-end model of Memvid::search paging
   (doc_limit -> engine prefix -> evaluation with the per-document snippet cap -> recency
   re-sort -> page loop) against the implementation on real memories.

   Oracles supplied by the harness per corpus:
     * the engine ranking: the matching frames ordered by (BM25 score descending, frame id
       ascending) -- scores are read from the hits of one request with top_k = 1000;
     * per frame the table of compute_snippet_slices(chunk text, occurrences, 80, cap)
       for cap = 1..6 (real function, through verif_hooks::snippet_slices);
     * the f32 combined score of the re-sort for every (score, age) pair that can occur,
       computed with the code's formula in f32 (bit pattern as N). *)
From MV Require Import Base.Prelude Model.SearchPage.
Local Open Scope N_scope.

Fixpoint table_key (t : list ((N * Z) * N)) (score : N) (age : Z) : N :=
  match t with
  | [] => 0
  | ((s, a), v) :: r => if (s =? score) && (a =? age)%Z then v else table_key r score age
  end.

Definition page_out := (list hit * N * option N)%type.
Definition out_of_page (p : page) : page_out := (p_hits p, p_total p, p_next p).

Definition end_code (e : walk_end) : N :=
  match e with
  | Done => 0
  | Failed k => 10 + k
  | Panicked => 2
  | OutOfFuel => 3
  end.

(* ((candidates in engine rank order, key table), top_k, fuel) *)
Definition C16_walk_in := (list cand * list ((N * Z) * N) * N * nat)%type.
Definition C16_walk_out := (list page_out * N)%type.

Definition C16_walk_run (i : C16_walk_in) : C16_walk_out :=
  let '(cands, tbl, top_k, fuel) := i in
  let '(pages, e) := follow fuel (e2e_page (table_key tbl) false None cands top_k) None in
  (map out_of_page pages, end_code e).

(* one request with an arbitrary cursor *)
Definition C16_page_in := (list cand * list ((N * Z) * N) * N * cursor)%type.
Definition C16_page_out := outcome page_out.

Definition C16_page_run (i : C16_page_in) : C16_page_out :=
  let '(cands, tbl, top_k, c) := i in
  match e2e_page (table_key tbl) false None cands top_k c with
  | Ok p => Ok (out_of_page p)
  | Err e => Err e
  | Panic s => Panic s
  end.
