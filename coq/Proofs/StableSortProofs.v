(* Facts about the stable sorts of Model/StableSort.v.
   Part 1 (no hypothesis on `le`): permutation and length.
   Part 2 (le total and transitive ON THE ELEMENTS SATISFYING P -- P is the guard, e.g.
   "the key is not NaN"): sorted, stable, and the uniqueness lemma: a sorted list is
   determined by its tie classes, hence "sorted + stable w.r.t. l" has exactly one
   solution, `isort l`, whatever algorithm produced it (`msort` in particular). *)
From MV Require Import Base.Prelude Model.StableSort.
From Coq Require Import Sorting.Permutation Sorting.Sorted.

Lemma filter_cons_eq {A} (f : A -> bool) x l :
  filter f (x :: l) = if f x then x :: filter f l else filter f l.
Proof. reflexivity. Qed.

Lemma filter_none {A} (f : A -> bool) l :
  (forall y, In y l -> f y = false) -> filter f l = [].
Proof.
  induction l as [|x l IH]; intros H; [reflexivity|].
  rewrite filter_cons_eq, (H x) by (left; reflexivity).
  apply IH. intros y Hy. apply H. right; exact Hy.
Qed.

Lemma perm_Forall {A} (Q : A -> Prop) (l l' : list A) :
  Permutation l l' -> Forall Q l -> Forall Q l'.
Proof. intros Hp Hl. exact (Permutation_Forall Hp Hl). Qed.

(* ------------------------------------------------------------------ part 1 *)
Section Perm.
  Context {A : Type}.
  Variable le : A -> A -> bool.

  Lemma merge_nil_l l2 : merge le [] l2 = l2.
  Proof. destruct l2; reflexivity. Qed.
  Lemma merge_nil_r l1 : merge le l1 [] = l1.
  Proof. destruct l1; reflexivity. Qed.
  Lemma merge_cons a1 l1 a2 l2 :
    merge le (a1 :: l1) (a2 :: l2) =
    if le a1 a2 then a1 :: merge le l1 (a2 :: l2) else a2 :: merge le (a1 :: l1) l2.
  Proof. reflexivity. Qed.

  Lemma msort_S_long f l :
    2 <= length l ->
    msort le (S f) l = merge le (msort le f (firstn (Nat.div2 (length l)) l))
                                (msort le f (skipn (Nat.div2 (length l)) l)).
  Proof. destruct l as [|x [|y r]]; cbn [length]; intros H; try lia. reflexivity. Qed.
  Lemma msort_S_short f l : length l <= 1 -> msort le (S f) l = l.
  Proof. destruct l as [|x [|y r]]; cbn [length]; intros H; try lia; reflexivity. Qed.

  Lemma insert_perm x l : Permutation (insert le x l) (x :: l).
  Proof.
    induction l as [|y r IH]; cbn [insert]; [reflexivity|].
    destruct (le x y); [reflexivity|]. rewrite IH. apply perm_swap.
  Qed.

  Lemma isort_perm l : Permutation (isort le l) l.
  Proof.
    induction l as [|x r IH]; cbn [isort]; [reflexivity|].
    rewrite insert_perm. constructor; exact IH.
  Qed.

  Lemma merge_perm l1 l2 : Permutation (merge le l1 l2) (l1 ++ l2).
  Proof.
    revert l2; induction l1 as [|a1 l1 IH1]; intros l2.
    - rewrite merge_nil_l. reflexivity.
    - induction l2 as [|a2 l2 IH2].
      + rewrite merge_nil_r, app_nil_r. reflexivity.
      + rewrite merge_cons. destruct (le a1 a2).
        * cbn [app]. constructor. apply IH1.
        * rewrite IH2. apply Permutation_middle.
  Qed.

  Lemma msort_perm f l : Permutation (msort le f l) l.
  Proof.
    revert l; induction f as [|f IH]; intros l; [apply isort_perm|].
    destruct (Nat.le_gt_cases (length l) 1) as [Hs|Hl].
    - rewrite msort_S_short by exact Hs. reflexivity.
    - rewrite msort_S_long by lia. rewrite merge_perm, !IH, firstn_skipn. reflexivity.
  Qed.

  Lemma isort_length l : length (isort le l) = length l.
  Proof. apply Permutation_length, isort_perm. Qed.
  Lemma msort_length f l : length (msort le f l) = length l.
  Proof. apply Permutation_length, msort_perm. Qed.

  Lemma isort_In x l : In x (isort le l) <-> In x l.
  Proof.
    split; apply Permutation_in; [apply isort_perm | symmetry; apply isort_perm].
  Qed.

  (* sortedness facts that need nothing about le *)
  Definition leP (a b : A) : Prop := le a b = true.

  Lemma sorted_app_le l1 l2 :
    StronglySorted leP (l1 ++ l2) -> forall a b, In a l1 -> In b l2 -> le a b = true.
  Proof.
    induction l1 as [|x l1 IH]; intros S a b Ha Hb; [destruct Ha|].
    cbn [app] in S. inversion S as [|? ? S' Hx]; subst.
    destruct Ha as [->|Ha].
    - rewrite Forall_forall in Hx. apply Hx, in_or_app. right; exact Hb.
    - eapply IH; eauto.
  Qed.

  Lemma sorted_app_l l1 l2 : StronglySorted leP (l1 ++ l2) -> StronglySorted leP l1.
  Proof.
    induction l1 as [|x l1 IH]; intros S; [constructor|].
    cbn [app] in S. inversion S as [|? ? S' Hx]; subst.
    constructor; [apply IH; exact S'|].
    apply Forall_app in Hx. apply Hx.
  Qed.

  Lemma sorted_app_r l1 l2 : StronglySorted leP (l1 ++ l2) -> StronglySorted leP l2.
  Proof.
    induction l1 as [|x l1 IH]; intros S; [exact S|].
    cbn [app] in S. inversion S as [|? ? S' Hx]; subst. apply IH; exact S'.
  Qed.
End Perm.

(* ------------------------------------------------------------------ part 2 *)
Section Order.
  Context {A : Type}.
  Variable le : A -> A -> bool.
  Variable P : A -> Prop.
  Hypothesis le_total : forall a b, P a -> P b -> le a b = true \/ le b a = true.
  Hypothesis le_trans :
    forall a b c, P a -> P b -> P c -> le a b = true -> le b c = true -> le a c = true.

  Notation sorted := (StronglySorted (leP le)).

  Lemma le_refl_P x : P x -> le x x = true.
  Proof. intros Px. destruct (le_total x x Px Px); assumption. Qed.

  Lemma tie_refl_P x : P x -> tie le x x = true.
  Proof. intros Px. unfold tie. rewrite le_refl_P by exact Px. reflexivity. Qed.

  Lemma insert_Forall (Q : A -> Prop) x l : Q x -> Forall Q l -> Forall Q (insert le x l).
  Proof.
    intros Qx Ql. apply (perm_Forall Q (x :: l)).
    - symmetry. apply insert_perm.
    - constructor; assumption.
  Qed.

  Lemma isort_Forall (Q : A -> Prop) l : Forall Q l -> Forall Q (isort le l).
  Proof. intros Ql. apply (perm_Forall Q l); [symmetry; apply isort_perm | exact Ql]. Qed.

  Lemma insert_sorted x l : P x -> Forall P l -> sorted l -> sorted (insert le x l).
  Proof.
    intros Px Pl Hs. induction Hs as [|y r Hr IH Hy]; cbn [insert].
    - constructor; constructor.
    - inversion Pl as [|? ? Py Pr]; subst. destruct (le x y) eqn:Exy.
      + constructor; [constructor; assumption|].
        constructor; [exact Exy|].
        apply Forall_forall. intros z Hz.
        assert (Pz : P z) by (rewrite Forall_forall in Pr; apply Pr; exact Hz).
        assert (Hyz : le y z = true) by (rewrite Forall_forall in Hy; apply Hy; exact Hz).
        exact (le_trans x y z Px Py Pz Exy Hyz).
      + constructor; [apply IH; exact Pr|].
        apply insert_Forall; [|exact Hy].
        unfold leP. destruct (le_total x y Px Py) as [H|H]; [congruence|exact H].
  Qed.

  Lemma isort_sorted l : Forall P l -> sorted (isort le l).
  Proof.
    induction l as [|x r IH]; intros Pl; cbn [isort]; [constructor|].
    inversion Pl as [|? ? Px Pr]; subst.
    apply insert_sorted; [exact Px | apply isort_Forall; exact Pr | apply IH; exact Pr].
  Qed.

  Lemma insert_filter_tie z x l :
    P z -> P x -> Forall P l -> sorted l ->
    filter (tie le z) (insert le x l) = filter (tie le z) (x :: l).
  Proof.
    intros Pz Px Pl Hs. induction Hs as [|y r Hr IH Hy]; cbn [insert]; [reflexivity|].
    inversion Pl as [|? ? Py Pr]; subst. destruct (le x y) eqn:Exy; [reflexivity|].
    rewrite (filter_cons_eq _ y (insert le x r)), IH by exact Pr.
    rewrite (filter_cons_eq _ x (y :: r)), (filter_cons_eq _ y r), (filter_cons_eq _ x r).
    destruct (tie le z x) eqn:Tx; destruct (tie le z y) eqn:Ty; try reflexivity.
    exfalso. unfold tie in Tx, Ty.
    apply andb_true_iff in Tx; apply andb_true_iff in Ty.
    destruct Tx as [Hzx Hxz]; destruct Ty as [Hzy Hyz].
    rewrite (le_trans x z y Px Pz Py Hxz Hzy) in Exy. discriminate.
  Qed.

  (* stability: every tie class keeps its original order *)
  Lemma isort_stable z l :
    P z -> Forall P l -> filter (tie le z) (isort le l) = filter (tie le z) l.
  Proof.
    intros Pz. induction l as [|x r IH]; intros Pl; cbn [isort]; [reflexivity|].
    inversion Pl as [|? ? Px Pr]; subst.
    rewrite insert_filter_tie;
      [|exact Pz|exact Px|apply isort_Forall; exact Pr|apply isort_sorted; exact Pr].
    rewrite !filter_cons_eq, IH by exact Pr. reflexivity.
  Qed.

  (* uniqueness: a sorted list is determined by its tie classes *)
  Lemma sorted_stable_unique l1 : forall l2,
    Forall P l1 -> Forall P l2 -> sorted l1 -> sorted l2 ->
    (forall z, P z -> filter (tie le z) l1 = filter (tie le z) l2) -> l1 = l2.
  Proof.
    induction l1 as [|a l1 IH]; intros l2 P1 P2 S1 S2 Hf.
    - destruct l2 as [|b l2]; [reflexivity|].
      inversion P2 as [|? ? Pb P2']; subst. specialize (Hf b Pb).
      rewrite filter_cons_eq, tie_refl_P in Hf by exact Pb. discriminate.
    - destruct l2 as [|b l2].
      + inversion P1 as [|? ? Pa P1']; subst. specialize (Hf a Pa).
        rewrite filter_cons_eq, tie_refl_P in Hf by exact Pa. discriminate.
      + inversion P1 as [|? ? Pa P1']; subst. inversion P2 as [|? ? Pb P2']; subst.
        inversion S1 as [|? ? S1' Ha]; subst. inversion S2 as [|? ? S2' Hb]; subst.
        assert (Hab : le a b = true).
        { assert (Hin : In b (filter (tie le b) (a :: l1))).
          { rewrite (Hf b Pb), filter_cons_eq, tie_refl_P by exact Pb. left; reflexivity. }
          apply filter_In in Hin. destruct Hin as [[Heq|Hin] _].
          - subst b. apply le_refl_P; exact Pa.
          - rewrite Forall_forall in Ha. apply Ha; exact Hin. }
        assert (Hba : le b a = true).
        { assert (Hin : In a (filter (tie le a) (b :: l2))).
          { rewrite <- (Hf a Pa), filter_cons_eq, tie_refl_P by exact Pa. left; reflexivity. }
          apply filter_In in Hin. destruct Hin as [[Heq|Hin] _].
          - subst b. apply le_refl_P; exact Pa.
          - rewrite Forall_forall in Hb. apply Hb; exact Hin. }
        assert (Heq : a = b).
        { pose proof (Hf a Pa) as H. rewrite !filter_cons_eq, tie_refl_P in H by exact Pa.
          assert (T : tie le a b = true) by (unfold tie; rewrite Hab, Hba; reflexivity).
          rewrite T in H. injection H as H _. exact H. }
        subst b. f_equal. apply IH; try assumption.
        intros z Pz. specialize (Hf z Pz). rewrite !filter_cons_eq in Hf.
        destruct (tie le z a); [injection Hf as Hf; exact Hf | exact Hf].
  Qed.

  (* "sorted + stable with respect to l" has exactly one solution *)
  Theorem stable_sort_unique l l' :
    Forall P l -> Forall P l' -> sorted l' ->
    (forall z, P z -> filter (tie le z) l' = filter (tie le z) l) ->
    l' = isort le l.
  Proof.
    intros Pl Pl' S' Hst. apply sorted_stable_unique; try assumption.
    - apply isort_Forall; exact Pl.
    - apply isort_sorted; exact Pl.
    - intros z Pz. rewrite (Hst z Pz), isort_stable by assumption. reflexivity.
  Qed.

  (* ---- merge ---- *)
  Lemma merge_Forall (Q : A -> Prop) l1 l2 : Forall Q l1 -> Forall Q l2 -> Forall Q (merge le l1 l2).
  Proof.
    intros Q1 Q2. apply (perm_Forall Q (l1 ++ l2)); [symmetry; apply merge_perm|].
    apply Forall_app; split; assumption.
  Qed.

  Lemma merge_sorted l1 : forall l2,
    Forall P l1 -> Forall P l2 -> sorted l1 -> sorted l2 -> sorted (merge le l1 l2).
  Proof.
    induction l1 as [|a1 l1 IH1]; intros l2 P1 P2 S1 S2.
    - rewrite merge_nil_l; exact S2.
    - revert P2 S2. induction l2 as [|a2 l2 IH2]; intros P2 S2.
      + rewrite merge_nil_r; exact S1.
      + rewrite merge_cons.
        inversion P1 as [|? ? Pa1 P1']; subst. inversion P2 as [|? ? Pa2 P2']; subst.
        inversion S1 as [|? ? S1' H1]; subst. inversion S2 as [|? ? S2' H2]; subst.
        destruct (le a1 a2) eqn:E.
        * constructor; [apply IH1; assumption|].
          apply merge_Forall; [exact H1|]. constructor; [exact E|].
          apply Forall_forall. intros z Hz.
          assert (Pz : P z) by (rewrite Forall_forall in P2'; apply P2'; exact Hz).
          assert (Hz2 : le a2 z = true) by (rewrite Forall_forall in H2; apply H2; exact Hz).
          exact (le_trans a1 a2 z Pa1 Pa2 Pz E Hz2).
        * assert (E' : le a2 a1 = true) by (destruct (le_total a1 a2 Pa1 Pa2); congruence).
          constructor; [apply IH2; assumption|].
          apply merge_Forall; [|exact H2]. constructor; [exact E'|].
          apply Forall_forall. intros z Hz.
          assert (Pz : P z) by (rewrite Forall_forall in P1'; apply P1'; exact Hz).
          assert (Hz1 : le a1 z = true) by (rewrite Forall_forall in H1; apply H1; exact Hz).
          exact (le_trans a2 a1 z Pa2 Pa1 Pz E' Hz1).
  Qed.

  Lemma merge_filter_tie z l1 : forall l2,
    P z -> Forall P l1 -> Forall P l2 -> sorted l1 -> sorted l2 ->
    filter (tie le z) (merge le l1 l2) = filter (tie le z) l1 ++ filter (tie le z) l2.
  Proof.
    induction l1 as [|a1 l1 IH1]; intros l2 Pz P1 P2 S1 S2.
    - rewrite merge_nil_l. reflexivity.
    - revert P2 S2. induction l2 as [|a2 l2 IH2]; intros P2 S2.
      + rewrite merge_nil_r, app_nil_r. reflexivity.
      + rewrite merge_cons.
        inversion P1 as [|? ? Pa1 P1']; subst. inversion P2 as [|? ? Pa2 P2']; subst.
        inversion S1 as [|? ? S1' H1]; subst. inversion S2 as [|? ? S2' H2]; subst.
        destruct (le a1 a2) eqn:E.
        * rewrite (filter_cons_eq _ a1 (merge le l1 (a2 :: l2))), IH1 by assumption.
          rewrite (filter_cons_eq _ a1 l1). destruct (tie le z a1); reflexivity.
        * rewrite (filter_cons_eq _ a2 (merge le (a1 :: l1) l2)), IH2 by assumption.
          rewrite (filter_cons_eq _ a2 l2).
          destruct (tie le z a2) eqn:T2; [|reflexivity].
          assert (Hnil : filter (tie le z) (a1 :: l1) = []).
          { apply filter_none. intros y Hy. destruct (tie le z y) eqn:Ty; [|reflexivity].
            exfalso.
            assert (Py : P y) by (rewrite Forall_forall in P1; apply P1; exact Hy).
            assert (H1y : le a1 y = true).
            { destruct Hy as [<-|Hy]; [apply le_refl_P; exact Pa1|].
              rewrite Forall_forall in H1. apply H1; exact Hy. }
            unfold tie in T2, Ty.
            apply andb_true_iff in T2; apply andb_true_iff in Ty.
            destruct T2 as [Hz2 H2z]; destruct Ty as [Hzy Hyz].
            assert (Hy2 : le y a2 = true) by exact (le_trans y z a2 Py Pz Pa2 Hyz Hz2).
            rewrite (le_trans a1 y a2 Pa1 Py Pa2 H1y Hy2) in E. discriminate. }
          rewrite Hnil. reflexivity.
  Qed.

  (* the merge sort equals the insertion sort: the algorithm does not matter *)
  Theorem msort_eq_isort f : forall l, Forall P l -> msort le f l = isort le l.
  Proof.
    induction f as [|f IH]; intros l Pl; [reflexivity|].
    destruct (Nat.le_gt_cases (length l) 1) as [Hs|Hl].
    - rewrite msort_S_short by exact Hs.
      destruct l as [|x [|y r]]; cbn [length] in Hs; try lia; reflexivity.
    - rewrite msort_S_long by lia.
      set (h := Nat.div2 (length l)).
      assert (Pa : Forall P (firstn h l)).
      { rewrite <- (firstn_skipn h l) in Pl. apply Forall_app in Pl. apply Pl. }
      assert (Pb : Forall P (skipn h l)).
      { rewrite <- (firstn_skipn h l) in Pl. apply Forall_app in Pl. apply Pl. }
      rewrite (IH _ Pa), (IH _ Pb).
      apply stable_sort_unique.
      + exact Pl.
      + apply merge_Forall; apply isort_Forall; assumption.
      + apply merge_sorted; try (apply isort_Forall; assumption); apply isort_sorted; assumption.
      + intros z Pz.
        rewrite merge_filter_tie; try assumption;
          try (apply isort_Forall; assumption); try (apply isort_sorted; assumption).
        rewrite !isort_stable by assumption.
        rewrite <- filter_app, firstn_skipn. reflexivity.
  Qed.
End Order.
