(* C41: liveness bounds (stop, drain) and exactly-once, over ALL schedules. *)
From MV Require Import Base.Prelude Model.Store Model.StoreSpec Proofs.StoreProofs Model.Derived Proofs.DerivedProofs Model.Enrich Proofs.EnrichProofs Proofs.EnrichQueueProofs.
Require Import ZifyBool ZifyNat ZifyN.
Local Open Scope N_scope.

(* ================= the worker stops when asked ================= *)
Definition rank (p : wpc) : nat :=
  match p with WHasTask _ => 4 | WProcessed _ => 3 | WCkpt => 2 | WTop => 1 | WStopped => 0 end.
Definition owed (p : wpc) : N := match p with WHasTask _ => 1 | _ => 0 end.

Fixpoint countW (sched : list sitem) : nat :=
  match sched with [] => O | SW _ :: r => S (countW r) | SF _ :: r => countW r end.

Lemma wstep_stop iv extra e w : e_stop e = true ->
  let x1 := wstep iv extra (e, w) in
  e_stop (fst x1) = true /\ (rank (w_pc (snd x1)) <= rank (w_pc w) - 1)%nat /\
  w_nproc (snd x1) + owed (w_pc (snd x1)) <= w_nproc w + owed (w_pc w).
Proof.
  intros Hs. unfold wstep. destruct (w_pc w) as [|t|t| |] eqn:Epc.
  - rewrite Hs. cbn [fst snd set_pc w_pc w_nproc rank owed]. split; [|split; [lia|lia]].
    destruct (0 <? w_since w); [|exact Hs]. exact Hs.
  - destruct (process_fields e t) as (_ & F2 & _). destruct (process e t) as [e1 err]. cbn [fst snd w_pc w_nproc rank owed] in *.
    split; [rewrite F2; exact Hs|split; lia].
  - cbn [fst snd w_pc w_nproc rank owed complete e_stop]. split; [exact Hs|]. destruct (iv <=? w_since w + 1); cbn [rank owed]; split; lia.
  - cbn [fst snd w_pc w_nproc rank owed]. split; [exact Hs|split; lia].
  - cbn [fst snd]. rewrite Epc. cbn [rank owed]. split; [exact Hs|split; lia].
Qed.

Lemma fstep_stop f e w : e_stop e = true -> e_stop (fst (fstep f (e, w))) = true /\ snd (fstep f (e, w)) = w.
Proof.
  intros Hs. destruct f as [uk tag n auto q|target newtag uk auto|target auto|extra| | |]; cbn [fstep sop_of_f];
    try (destruct (sstep (e_st e) _) as [s1 o]; cbn [fst snd e_stop]; split; [exact Hs|reflexivity]).
  - split; [exact Hs|reflexivity].
  - cbn [fst snd e_stop]. destruct (drain_fields (length (e_queue e)) e) as (_ & B & _). rewrite B. split; [exact Hs|reflexivity].
  - split; reflexivity.
Qed.

Lemma stop_bound iv sched : forall x, e_stop (fst x) = true ->
  let x1 := run_from iv x sched in
  e_stop (fst x1) = true /\ (rank (w_pc (snd x1)) <= rank (w_pc (snd x)) - countW sched)%nat /\
  w_nproc (snd x1) + owed (w_pc (snd x1)) <= w_nproc (snd x) + owed (w_pc (snd x)).
Proof.
  induction sched as [|i sched IH]; intros [e w] Hs; cbn [run_from fold_left countW fst snd].
  - split; [exact Hs|split; lia].
  - fold (run_from iv (step iv (e, w) i) sched). destruct i as [extra|f]; cbn [step].
    + destruct (wstep_stop iv extra e w Hs) as (A & B & C). destruct (IH _ A) as (A1 & B1 & C1). split; [exact A1|split; lia].
    + destruct (fstep_stop f e w Hs) as (A & B). destruct (IH _ A) as (A1 & B1 & C1). rewrite B in B1, C1. cbn [fst snd] in *. split; [exact A1|split; lia].
Qed.

Lemma rank_le_4 p : (rank p <= 4)%nat.
Proof. destruct p; cbn [rank]; lia. Qed.

Theorem stops_within_four_steps iv sched x :
  e_stop (fst x) = true -> (4 <= countW sched)%nat ->
  w_pc (snd (run_from iv x sched)) = WStopped /\
  w_nproc (snd (run_from iv x sched)) <= w_nproc (snd x) + owed (w_pc (snd x)).
Proof.
  intros Hs Hc. destruct (stop_bound iv sched x Hs) as (_ & B & C).
  pose proof (rank_le_4 (w_pc (snd x))). split.
  - destruct (w_pc (snd (run_from iv x sched))); cbn [rank] in B; try lia. reflexivity.
  - pose proof (N.le_0_l (owed (w_pc (snd (run_from iv x sched))))). lia.
Qed.

(* once the flag is set the worker never takes a new task *)
Theorem no_get_after_stop iv extra e w t :
  e_stop e = true -> w_pc (snd (wstep iv extra (e, w))) <> WHasTask t.
Proof.
  intros Hs. unfold wstep. destruct (w_pc w) as [|t'|t'| |] eqn:Epc.
  - rewrite Hs. cbn [snd set_pc w_pc]. intros H; discriminate H.
  - destruct (process e t'). cbn [snd w_pc]. intros H; discriminate H.
  - cbn [snd w_pc]. destruct (iv <=? w_since w + 1); intros H; discriminate H.
  - cbn [snd w_pc]. intros H; discriminate H.
  - cbn [snd]. rewrite Epc. intros H; discriminate H.
Qed.

(* ================= the queue drains: 4k+3 worker steps ================= *)
Definition mu (x : est * wst) : nat :=
  match w_pc (snd x) with
  | WTop => 4 * length (e_queue (fst x))
  | WHasTask t => 4 * length (remove_id t (e_queue (fst x))) + 3
  | WProcessed t => 4 * length (remove_id t (e_queue (fst x))) + 2
  | WCkpt => 4 * length (e_queue (fst x)) + 1
  | WStopped => 0
  end.

Definition going (x : est * wst) : Prop := e_stop (fst x) = false /\ w_pc (snd x) <> WStopped.

Lemma checkpoint_fields e extra :
  e_queue (checkpoint e extra) = e_queue e /\ e_stop (checkpoint e extra) = e_stop e /\ e_marked (checkpoint e extra) = e_marked e.
Proof. repeat split. Qed.

Lemma wstep_mu iv extra x : going x -> going (wstep iv extra x) /\ (mu (wstep iv extra x) <= mu x - 1)%nat.
Proof.
  destruct x as [e w]. intros [Hs Hp]. cbn [fst snd] in *. unfold wstep, going, mu. cbn [fst snd]. destruct (w_pc w) as [|t|t| |] eqn:Epc.
  - rewrite Hs. destruct (e_queue e) as [|t r] eqn:Eq; cbn [fst snd set_pc w_pc].
    + rewrite ?Epc, ?Eq. cbn [length]. repeat split; [exact Hs|discriminate|lia].
    + rewrite ?Eq, remove_id_head. pose proof (remove_id_length t r). cbn [length]. repeat split; [exact Hs|discriminate|lia].
  - destruct (process_fields e t) as (F1 & F2 & _). destruct (process e t) as [e1 err]. cbn [fst snd w_pc] in *.
    rewrite F1, F2. repeat split; [exact Hs|discriminate|lia].
  - cbn [fst snd w_pc complete e_queue e_stop]. destruct (iv <=? w_since w + 1); repeat split; try exact Hs; try discriminate; lia.
  - cbn [fst snd w_pc]. repeat split; [exact Hs|discriminate|]. destruct (checkpoint_fields e extra) as (Q & _). rewrite Q. lia.
  - contradiction.
Qed.

Lemma wsteps_mu iv n : forall x, going x -> going (wsteps iv n x) /\ (mu (wsteps iv n x) <= mu x - n)%nat.
Proof.
  induction n as [|n IH]; intros x Hg; cbn [wsteps]; [split; [exact Hg|lia]|].
  destruct (wstep_mu iv 0 x Hg) as [G1 M1]. destruct (IH _ G1) as [G2 M2]. split; [exact G2|lia].
Qed.

Lemma mu_bound x : (mu x <= 4 * length (e_queue (fst x)) + 3)%nat.
Proof.
  unfold mu. destruct (w_pc (snd x)) as [|t|t| |]; try lia.
  - pose proof (remove_id_length t (e_queue (fst x))). lia.
  - pose proof (remove_id_length t (e_queue (fst x))). lia.
Qed.

Lemma mu_zero x : going x -> mu x = O -> e_queue (fst x) = [] /\ w_pc (snd x) = WTop.
Proof.
  intros [_ Hp]. unfold mu. destruct (w_pc (snd x)) as [|t|t| |]; try lia; [|contradiction].
  intros H. split; [|reflexivity]. destruct (e_queue (fst x)); [reflexivity|cbn [length] in H; lia].
Qed.

Theorem queue_drains iv x n :
  e_stop (fst x) = false -> w_pc (snd x) <> WStopped ->
  (4 * length (e_queue (fst x)) + 3 <= n)%nat ->
  e_queue (fst (wsteps iv n x)) = [] /\ w_pc (snd (wsteps iv n x)) = WTop.
Proof.
  intros Hs Hp Hn. destruct (wsteps_mu iv n x (conj Hs Hp)) as [G M].
  pose proof (mu_bound x). apply mu_zero; [exact G|lia].
Qed.

(* ... and every task whose frame is committed and Active when the foreground has gone quiet
   (nothing pending) ends Enriched, unless the worker had already processed it too early *)
Definition Lt (t : N) (x : est * wst) : Prop :=
  pending (e_st (fst x)) = [] /\ frame_found (e_st (fst x)) t = true /\
  ((In t (e_queue (fst x)) /\ w_pc (snd x) <> WProcessed t) \/ In t (e_marked (fst x))).

Lemma found_checkpoint e extra t :
  pending (e_st e) = [] ->
  pending (e_st (checkpoint e extra)) = [] /\ frame_found (e_st (checkpoint e extra)) t = frame_found (e_st e) t.
Proof.
  intros Hp. unfold checkpoint, set_st. cbn [e_st sstep fst]. rewrite Hp.
  destruct (dirty (e_st e)).
  - unfold do_commit. cbn [pending]. split; [reflexivity|]. unfold frame_found. cbn [committed].
    rewrite (quiescent_committed _ Hp). reflexivity.
  - unfold bump. cbn [pending]. split; [exact Hp|]. reflexivity.
Qed.

Lemma process_found_marks e t : frame_found (e_st e) t = true -> In t (e_marked (fst (process e t))).
Proof. intros H. unfold process. rewrite H. cbn [fst e_marked]. left. reflexivity. Qed.

Lemma wstep_Lt iv extra t x : Lt t x -> Lt t (wstep iv extra x).
Proof.
  destruct x as [e w]. intros (Hp & Hf & Hd). cbn [fst snd] in *. unfold wstep, Lt. destruct (w_pc w) as [|h|h| |] eqn:Epc.
  - destruct (e_stop e).
    + cbn [fst snd set_pc w_pc]. destruct (0 <? w_since w).
      * destruct (found_checkpoint e extra t Hp) as [A B]. rewrite B. split; [exact A|split; [exact Hf|]].
        destruct Hd as [[Hq _]|Hm]; [left; split; [exact Hq|discriminate]|right; exact Hm].
      * split; [exact Hp|split; [exact Hf|]]. destruct Hd as [[Hq _]|Hm]; [left; split; [exact Hq|discriminate]|right; exact Hm].
    + destruct (e_queue e) as [|h r] eqn:Eq; cbn [fst snd set_pc w_pc].
      * split; [exact Hp|split; [exact Hf|]]. rewrite Epc. destruct Hd as [[Hq _]|Hm]; [left; split; [first [exact Hq | rewrite Eq; exact Hq | rewrite <- Eq; exact Hq | rewrite Eq in Hq; exact Hq]|discriminate]|right; exact Hm].
      * split; [exact Hp|split; [exact Hf|]]. destruct Hd as [[Hq _]|Hm]; [left; split; [first [exact Hq | rewrite Eq; exact Hq | rewrite <- Eq; exact Hq | rewrite Eq in Hq; exact Hq]|discriminate]|right; exact Hm].
  - pose proof (process_store e h) as HS. destruct (process_fields e h) as (F1 & _ & _ & _ & _ & _ & _ & M & _).
    pose proof (process_found_marks e h) as HM.
    destruct (process e h) as [e1 err]. cbn [fst snd w_pc] in *.
    destruct HS as (C & P & _). split; [rewrite P; exact Hp|]. split; [unfold frame_found in *; rewrite C; exact Hf|].
    destruct (N.eq_dec h t) as [->|Hn].
    + right. apply HM. exact Hf.
    + destruct Hd as [[Hq _]|Hm]; [left; split; [rewrite F1; exact Hq|intros E; inversion E; contradiction]|right; apply M; exact Hm].
  - cbn [fst snd w_pc complete e_st e_queue e_marked]. split; [exact Hp|split; [exact Hf|]].
    destruct Hd as [[Hq Hne]|Hm]; [|right; exact Hm].
    left. split; [apply remove_id_In; split; [exact Hq|intros E; subst; apply Hne; reflexivity]|destruct (iv <=? w_since w + 1); discriminate].
  - cbn [fst snd w_pc]. destruct (found_checkpoint e extra t Hp) as [A B]. rewrite B. split; [exact A|split; [exact Hf|]].
    destruct Hd as [[Hq _]|Hm]; [left; split; [exact Hq|discriminate]|right; exact Hm].
  - cbn [fst snd]. split; [exact Hp|split; [exact Hf|]]. rewrite Epc. destruct Hd as [[Hq _]|Hm]; [left; split; [exact Hq|discriminate]|right; exact Hm].
Qed.

Lemma wsteps_Lt iv t n : forall x, Lt t x -> Lt t (wsteps iv n x).
Proof. induction n as [|n IH]; intros x H; cbn [wsteps]; [exact H|]. apply IH. apply wstep_Lt. exact H. Qed.

Theorem drain_enriches iv x n t :
  e_stop (fst x) = false -> w_pc (snd x) <> WStopped -> pending (e_st (fst x)) = [] ->
  In t (e_queue (fst x)) -> frame_found (e_st (fst x)) t = true -> w_pc (snd x) <> WProcessed t ->
  (4 * length (e_queue (fst x)) + 3 <= n)%nat ->
  state_of (fst (wsteps iv n x)) t = 1 /\ e_queue (fst (wsteps iv n x)) = [].
Proof.
  intros Hs Hp Hpend Hq Hf Hnp Hn.
  destruct (queue_drains iv x n Hs Hp Hn) as [Hnil _].
  destruct (wsteps_Lt iv t n x (conj Hpend (conj Hf (or_introl (conj Hq Hnp))))) as (_ & _ & Hd).
  split; [|exact Hnil]. destruct Hd as [[Hin _]|Hm]; [rewrite Hnil in Hin; destruct Hin|].
  unfold state_of. apply mem_In in Hm. rewrite Hm. reflexivity.
Qed.

(* an idle worker with nothing queued does nothing: the state reached is final *)
Lemma wsteps_idle iv n : forall e w, e_stop e = false -> e_queue e = [] -> w_pc w = WTop -> wsteps iv n (e, w) = (e, w).
Proof.
  induction n as [|n IH]; intros e w Hs Hq Hp; cbn [wsteps]; [reflexivity|].
  unfold wstep. rewrite Hp, Hs, Hq. apply IH; assumption.
Qed.

(* ================= exactly once ================= *)
Definition OnceI (x : est * wst) : Prop :=
  e_overlap (fst x) = false ->
  NoDup (e_plog (fst x)) /\
  (forall t, In t (e_plog (fst x)) -> ~ In t (e_queue (fst x)) \/ w_pc (snd x) = WProcessed t) /\
  (forall t, w_pc (snd x) = WHasTask t -> In t (e_queue (fst x))).

Lemma once_drain fuel : forall e,
  NoDup (e_plog e) -> NoDup (e_queue e) -> (forall t, In t (e_plog e) -> ~ In t (e_queue e)) ->
  NoDup (e_plog (drain fuel e)) /\ (forall t, In t (e_plog (drain fuel e)) -> ~ In t (e_queue (drain fuel e))).
Proof.
  induction fuel as [|k IH]; intros e Hp Hq Hd; cbn [drain]; [split; assumption|].
  destruct (e_queue e) as [|t r] eqn:Eq; [split; [exact Hp|rewrite Eq; exact Hd]|].
  destruct (process_fields e t) as (F1 & _ & _ & _ & _ & F6 & _).
  apply IH; cbn [complete e_plog e_queue]; rewrite ?F1, ?F6.
  - apply NoDup_snoc; [exact Hp|]. intros H. apply (Hd t H). left. reflexivity.
  - apply NoDup_filter. rewrite <- Eq in Hq. exact Hq.
  - intros x Hx Hin. apply remove_id_In in Hin as [Hin Hne]. apply in_app_iff in Hx as [Hx|[Hx|[]]].
    + rewrite ?Eq in Hin. exact (Hd x Hx Hin).
    + subst. apply Hne. reflexivity.
Qed.

Lemma OnceI_wstep iv extra x : InvQ x -> OnceI x -> OnceI (wstep iv extra x).
Proof.
  destruct x as [e w]. intros [HE HF] HO. cbn [fst snd] in *. unfold OnceI in *. cbn [fst snd] in *. unfold wstep. destruct (w_pc w) as [|t|t| |] eqn:Epc.
  - destruct (e_stop e).
    + cbn [fst snd set_pc w_pc]. intros Hov.
      assert (Hov0 : e_overlap e = false). { destruct (0 <? w_since w); exact Hov. }
      destruct (HO Hov0) as (A & B & C). split; [destruct (0 <? w_since w); exact A|]. split.
      * intros t Ht. left. assert (Ht0 : In t (e_plog e)) by (destruct (0 <? w_since w); exact Ht).
        destruct (B t Ht0) as [H|H]; [destruct (0 <? w_since w); exact H|first [discriminate H | rewrite Epc in H; discriminate H]].
      * intros t H. discriminate.
    + destruct (e_queue e) as [|h r] eqn:Eq; cbn [fst snd set_pc w_pc]; intros Hov; destruct (HO Hov) as (A & B & C).
      * split; [exact A|split; [|rewrite ?Epc, ?Eq; exact C]]. rewrite ?Eq. intros t Ht. left. intros [].
      * split; [exact A|split].
        -- rewrite ?Eq. intros t Ht. left. destruct (B t Ht) as [H|H]; [exact H|first [discriminate H | rewrite Epc in H; discriminate H]].
        -- rewrite ?Eq. intros t H. inversion H; subst t. left. reflexivity.
  - destruct (process_fields e t) as (F1 & _ & _ & _ & F5 & F6 & _). destruct (process e t) as [e1 err]. cbn [fst snd w_pc] in *.
    rewrite F5. intros Hov. destruct (HO Hov) as (A & B & C). rewrite F1, F6.
    assert (Hq : In t (e_queue e)) by (apply C; first [reflexivity | rewrite Epc; reflexivity]).
    split; [|split].
    + apply NoDup_snoc; [exact A|]. intros H. destruct (B t H) as [H1|H1]; [exact (H1 Hq)|first [discriminate H1 | rewrite Epc in H1; discriminate H1]].
    + intros x Hx. apply in_app_iff in Hx as [Hx|[Hx|[]]].
      * left. destruct (B x Hx) as [H1|H1]; [exact H1|first [discriminate H1 | rewrite Epc in H1; discriminate H1]].
      * subst. right. reflexivity.
    + intros x H. discriminate.
  - cbn [fst snd w_pc complete e_overlap e_plog e_queue]. intros Hov. destruct (HO Hov) as (A & B & C).
    split; [exact A|split].
    + intros x Hx. left. intros Hin. apply remove_id_In in Hin as [Hin Hne].
      destruct (B x Hx) as [H1|H1]; [exact (H1 Hin)|]. rewrite ?Epc in H1. inversion H1. subst. apply Hne. reflexivity.
    + intros x H. destruct (iv <=? w_since w + 1); discriminate.
  - cbn [fst snd w_pc]. intros Hov. destruct (HO Hov) as (A & B & C). split; [exact A|split].
    + intros x Hx. left. destruct (B x Hx) as [H1|H1]; [exact H1|first [discriminate H1 | rewrite Epc in H1; discriminate H1]].
    + intros x H. discriminate.
  - cbn [fst snd]. rewrite ?Epc. exact HO.
Qed.

Lemma OnceI_fstep f x : InvQ x -> OnceI x -> OnceI (fstep f x).
Proof.
  destruct x as [e w]. intros [HE HF] HO. cbn [fst snd] in *. unfold OnceI in *. cbn [fst snd] in *.
  destruct HE as (HK & Q & M & P & Ea & G & B & ND).
  assert (Hstore : forall so, sop_of_f f = Some so ->
            let x1 := (let id := next_frame_id (e_st e) in
                  let '(s1, o) := sstep (e_st e) so in
                  let push := match f with FPut _ _ _ _ q => q | _ => false end in
                  (mkE s1 (if push then e_queue e ++ [id] else e_queue e) (e_stop e) (e_marked e)
                       (if push then e_queued e ++ [id] else e_queued e) (e_early e) (e_gone e) (e_plog e)
                       (e_hist e ++ [(so, o)]) (e_overlap e), w)) in
            e_overlap (fst x1) = false ->
            NoDup (e_plog (fst x1)) /\
            (forall t, In t (e_plog (fst x1)) -> ~ In t (e_queue (fst x1)) \/ w_pc (snd x1) = WProcessed t) /\
            (forall t, w_pc (snd x1) = WHasTask t -> In t (e_queue (fst x1)))).
  { intros so Hso. cbv zeta. destruct (sstep (e_st e) so) as [s1 o]. cbn [fst snd e_overlap e_plog e_queue].
    intros Hov. destruct (HO Hov) as (A & Bq & C). split; [exact A|].
    destruct (match f with FPut _ _ _ _ q => q | _ => false end); [|split; assumption]. split.
    - intros t Ht. destruct (Bq t Ht) as [H|H]; [left|right; exact H].
      intros Hin. apply in_app_iff in Hin as [Hin|[Hin|[]]]; [exact (H Hin)|]. subst t.
      apply P in Ht. apply B in Ht. lia.
    - intros t Ht. apply in_app_iff. left. exact (C t Ht). }
  destruct f as [uk tag n auto q|target newtag uk auto|target auto|extra| | |]; cbn [fstep sop_of_f];
    try (apply Hstore; reflexivity).
  - exact HO.
  - cbn [fst snd e_overlap e_plog e_queue]. intros Hov. apply orb_false_iff in Hov as [Hov Hfl].
    destruct (HO Hov) as (A & Bq & C).
    destruct (e_queue e) as [|h r] eqn:Eq.
    + cbn [length drain]. rewrite Eq. split; [exact A|split; [|exact C]]. intros t Ht. left. intros [].
    + cbn [negb] in Hfl. rewrite andb_true_r in Hfl.
      assert (Hnf : forall t, In t (e_plog e) -> ~ In t (e_queue e)).
      { intros t Ht. rewrite Eq. destruct (Bq t Ht) as [H|H]; [exact H|]. unfold inflight in Hfl. rewrite H in Hfl. discriminate. }
      rewrite <- Eq. rewrite <- Eq in ND.
      destruct (once_drain (length (e_queue e)) e A ND Hnf) as [R1 R2].
      split; [exact R1|split].
      * intros t Ht. left. exact (R2 t Ht).
      * intros t Ht. unfold inflight in Hfl. rewrite Ht in Hfl. discriminate.
  - cbn [fst snd e_overlap e_plog e_queue]. exact HO.
Qed.

Lemma Once_run_from iv sched : forall x, InvQ x -> OnceI x -> OnceI (run_from iv x sched).
Proof.
  induction sched as [|i sched IH]; intros x HQ HO; cbn [run_from fold_left]; [exact HO|].
  apply IH; [apply InvQ_step; exact HQ|].
  destruct i as [extra|f]; cbn [step]; [apply OnceI_wstep|apply OnceI_fstep]; assumption.
Qed.

Theorem processed_once_outside_known iv sched :
  known_overlap iv sched = false -> NoDup (e_plog (fst (run iv sched))).
Proof.
  intros Hk.
  assert (H0 : OnceI (e0, w0)). { intros _. cbn [fst snd e0 e_plog e_queue w0 w_pc]. split; [constructor|split; [intros t []|intros t H; discriminate]]. }
  destruct (Once_run_from iv sched (e0, w0) InvQ_init H0 Hk) as (A & _). exact A.
Qed.

(* ================= the stop flag as input state; stop at any time ================= *)
Lemma run_from_app iv a b x : run_from iv x (a ++ b) = run_from iv (run_from iv x a) b.
Proof. unfold run_from. apply fold_left_app. Qed.

(* nobody clears the flag: neither a worker step nor any foreground call *)
Theorem stop_sticky iv sched x : e_stop (fst x) = true -> e_stop (fst (run_from iv x sched)) = true.
Proof. intros Hs. destruct (stop_bound iv sched x Hs) as (A & _). exact A. Qed.

Lemma InvS_init b : InvS (fst (init b)).
Proof. split; [apply K_store0|]. intros _. apply J_store0. Qed.

Theorem frame_table_any_entry_flag iv b sched :
  let e := fst (run_pre iv b sched) in
  run_ok [] (e_hist e) = true ->
  view (e_st e) = ref_run [] (e_hist e) /\ (pending (e_st e) = [] -> committed (e_st e) = ref_run [] (e_hist e)).
Proof.
  intros e Hok. destruct (InvS_run_from iv sched (init b) (InvS_init b)) as [HK HJ]. fold (run_pre iv b sched) in HJ. fold e in HJ.
  pose proof (J_view _ _ (HJ Hok)) as HV. split; [exact HV|].
  intros Hp. rewrite <- (quiescent_committed _ Hp). exact HV.
Qed.

(* a worker that is not in the middle of an iteration leaves the loop at its very next step *)
Theorem idle_worker_exits_on_next_step iv sched x :
  e_stop (fst x) = true -> w_pc (snd x) = WTop -> (1 <= countW sched)%nat ->
  w_pc (snd (run_from iv x sched)) = WStopped /\ w_nproc (snd (run_from iv x sched)) <= w_nproc (snd x).
Proof.
  intros Hs Hp Hc. destruct (stop_bound iv sched x Hs) as (_ & B & C). rewrite Hp in B, C. cbn [rank owed] in B, C. split.
  - destruct (w_pc (snd (run_from iv x sched))); cbn [rank] in B; try lia. reflexivity.
  - pose proof (N.le_0_l (owed (w_pc (snd (run_from iv x sched))))). lia.
Qed.

(* stop requested BEFORE the loop is entered: whatever the foreground does, however many steps the
   worker is given, it never processes a frame, never logs a process call, never changes a frame's
   state, and its first step is the exit *)
Lemma prestopped_inv iv sched : forall x,
  e_stop (fst x) = true -> (w_pc (snd x) = WTop /\ w_since (snd x) = 0 \/ w_pc (snd x) = WStopped) ->
  let x1 := run_from iv x sched in
  (w_pc (snd x1) = WTop /\ w_since (snd x1) = 0 /\ countW sched = O \/ w_pc (snd x1) = WStopped) /\
  w_nproc (snd x1) = w_nproc (snd x) /\ w_nerr (snd x1) = w_nerr (snd x).
Proof.
  induction sched as [|i sched IH]; intros [e w] Hs Hp; cbn [run_from fold_left countW fst snd].
  - split; [destruct Hp as [[A B]|A]; [left; auto|right; exact A]|split; reflexivity].
  - fold (run_from iv (step iv (e, w) i) sched). cbn [fst snd] in *. destruct i as [extra|f]; cbn [step].
    + assert (H1 : e_stop (fst (wstep iv extra (e, w))) = true /\ w_pc (snd (wstep iv extra (e, w))) = WStopped /\
                   w_nproc (snd (wstep iv extra (e, w))) = w_nproc w /\ w_nerr (snd (wstep iv extra (e, w))) = w_nerr w).
      { unfold wstep. destruct Hp as [[A B]|A]; rewrite A.
        - rewrite Hs, B. cbn [fst snd set_pc w_pc w_nproc w_nerr]. change (0 <? 0) with false. cbn [fst]. auto.
        - cbn [fst snd]. auto. }
      destruct H1 as (S1 & P1 & N1 & E1).
      destruct (IH _ S1 (or_intror P1)) as (A & B & C). split; [|split; congruence].
      right. destruct (stop_bound iv sched _ S1) as (_ & R & _). rewrite P1 in R. cbn [rank] in R.
      destruct (w_pc (snd (run_from iv (wstep iv extra (e, w)) sched))); cbn [rank] in R; try lia. reflexivity.
    + destruct (fstep_stop f e w Hs) as (S1 & W1).
      assert (Hp1 : w_pc (snd (fstep f (e, w))) = WTop /\ w_since (snd (fstep f (e, w))) = 0 \/ w_pc (snd (fstep f (e, w))) = WStopped) by (rewrite W1; exact Hp).
      destruct (IH _ S1 Hp1) as (A & B & C). rewrite W1 in B, C. split; [exact A|split; assumption].
Qed.

Theorem prestopped_never_works iv sched :
  let x := run_pre iv true sched in
  w_nproc (snd x) = 0 /\ w_nerr (snd x) = 0 /\ ((1 <= countW sched)%nat -> w_pc (snd x) = WStopped).
Proof.
  intros x. destruct (prestopped_inv iv sched (init true) eq_refl (or_introl (conj eq_refl eq_refl))) as (A & B & C).
  fold (run_pre iv true sched) in A, B, C. fold x in A, B, C. split; [exact B|split; [exact C|]].
  intros Hc. destruct A as [(_ & _ & Z)|A]; [lia|exact A].
Qed.

(* stop requested at ANY position of ANY schedule, from either entry flag: *)
Theorem stop_at_any_time iv b pre post :
  let x := run_pre iv b pre in
  let y := run_pre iv b (pre ++ SF FStop :: post) in
  e_stop (fst y) = true /\
  ((4 <= countW post)%nat -> w_pc (snd y) = WStopped) /\
  w_nproc (snd y) <= w_nproc (snd x) + owed (w_pc (snd x)) /\
  (w_pc (snd x) = WTop -> (1 <= countW post)%nat -> w_pc (snd y) = WStopped /\ w_nproc (snd y) <= w_nproc (snd x)).
Proof.
  intros x y. unfold y, run_pre. rewrite run_from_app. fold (run_pre iv b pre). fold x.
  change (run_from iv x (SF FStop :: post)) with (run_from iv (fstep FStop x) post).
  assert (Hs : e_stop (fst (fstep FStop x)) = true) by (destruct x as [e w]; reflexivity).
  assert (Hw : snd (fstep FStop x) = snd x) by (destruct x as [e w]; reflexivity).
  destruct (stop_bound iv post _ Hs) as (A & B & C). rewrite Hw in B, C.
  split; [exact A|]. split; [|split].
  - intros Hc. pose proof (rank_le_4 (w_pc (snd x))).
    destruct (w_pc (snd (run_from iv (fstep FStop x) post))); cbn [rank] in B; try lia. reflexivity.
  - pose proof (N.le_0_l (owed (w_pc (snd (run_from iv (fstep FStop x) post))))). lia.
  - intros Hp Hc. destruct (idle_worker_exits_on_next_step iv post _ Hs (eq_trans (f_equal w_pc Hw) Hp) Hc) as [P Q].
    rewrite Hw in Q. split; assumption.
Qed.
