(* Proofs for C19 (Model/SingleFile.v). *)
From Coq Require Import String Ascii.
From MV Require Import Base.Prelude Base.Facts Model.FsProto Model.SingleFile.
Require MV.Gen.Consts.
Local Open Scope N_scope.
Local Arguments name_eqb : simpl never.

(* ---------------------------------------------------------------- names *)
Lemma name_eqb_eq a b : name_eqb a b = true <-> a = b.
Proof. apply bytes_eqb_spec. Qed.
Lemma name_eqb_refl a : name_eqb a a = true.
Proof. apply name_eqb_eq; reflexivity. Qed.
Lemma name_eqb_neq a b : name_eqb a b = false <-> a <> b.
Proof.
  split.
  - intros H E. apply name_eqb_eq in E. congruence.
  - intros H. destruct (name_eqb a b) eqn:E; [apply name_eqb_eq in E; contradiction | reflexivity].
Qed.

Lemma mem_name_In l n : mem_name l n = true <-> In n l.
Proof.
  unfold mem_name. rewrite existsb_exists. split.
  - intros [x [Hx E]]. apply name_eqb_eq in E. subst. exact Hx.
  - intros H. exists n. split; [exact H | apply name_eqb_refl].
Qed.

Lemma del_name_In l m n : In n (del_name l m) -> In n l.
Proof. unfold del_name. rewrite filter_In. tauto. Qed.

Lemma lookup_None_notin d n : lookup d n = None <-> ~ In n (names d).
Proof.
  induction d as [|[m k] d IH]; cbn [lookup names map fst In].
  - tauto.
  - destruct (name_eqb m n) eqn:E.
    + apply name_eqb_eq in E. subst. split; [discriminate | intros H; exfalso; apply H; left; reflexivity].
    + apply name_eqb_neq in E. fold (names d). rewrite IH. tauto.
Qed.

Lemma has_In d n : has d n = true <-> In n (names d).
Proof.
  unfold has. destruct (lookup d n) eqn:E.
  - split; [intros _ | reflexivity].
    destruct (in_dec (list_eq_dec N.eq_dec) n (names d)) as [H|H]; [exact H|].
    apply lookup_None_notin in H. congruence.
  - apply lookup_None_notin in E. split; [discriminate | contradiction].
Qed.

Lemma has_false d n : has d n = false <-> ~ In n (names d).
Proof. rewrite <- has_In. destruct (has d n); split; congruence. Qed.

Lemma stat_ok_has d n : stat_ok d n = true -> has d n = true.
Proof. unfold stat_ok, has. destruct (lookup d n) as [[| |[|]]|]; congruence. Qed.

Lemma names_unlink d m n : In n (names (d_unlink d m)) <-> In n (names d) /\ n <> m.
Proof.
  unfold d_unlink. induction d as [|[x k] d IH]; cbn [filter names map fst In].
  - tauto.
  - destruct (name_eqb x m) eqn:E; cbn [negb].
    + apply name_eqb_eq in E. subst x. fold (names d). unfold names in IH. rewrite IH.
      split; [intros [H1 H2]; split; auto | intros [[H1|H1] H2]; [congruence | auto]].
    + apply name_eqb_neq in E. cbn [map fst In]. unfold names in IH. rewrite IH.
      split; [intros [H|[H1 H2]]; [subst; split; auto | split; auto] | intros [[H|H] H2]; auto].
Qed.

Lemma names_creat d m n : In n (names (d_creat d m)) <-> In n (names d) \/ n = m.
Proof.
  unfold d_creat. destruct (has d m) eqn:H.
  - apply has_In in H. split; [auto | intros [?| ->]; auto].
  - unfold names. rewrite map_app, in_app_iff. cbn [map fst In].
    split; [intros [?|[?|[]]]; auto | intros [?|?]; auto].
Qed.

Lemma names_rename d a b n : has d a = true -> a <> b ->
  (In n (names (d_rename d a b)) <-> (In n (names d) /\ n <> a) \/ n = b).
Proof.
  intros Ha Hab. unfold d_rename.
  apply name_eqb_neq in Hab. rewrite Hab, Ha. apply name_eqb_neq in Hab.
  unfold names. rewrite map_app, in_app_iff. fold (names (d_unlink (d_unlink d a) b)).
  rewrite !names_unlink. cbn [map fst In].
  split.
  - intros [[[H1 H2] H3]|[H|[]]]; auto.
  - intros [[H1 H2]|H].
    + destruct (list_eq_dec N.eq_dec n b) as [E|E]; [right; left; auto | left; auto].
    + right; left; auto.
Qed.

(* ---------------------------------------------------------------- ensure_single_file *)
Lemma find_none_conv {A} (f : A -> bool) l : (forall x, In x l -> f x = false) -> find f l = None.
Proof.
  induction l as [|a l IH]; intros H; cbn [find]; [reflexivity|].
  rewrite (H a (or_introl eq_refl)). apply IH. intros x Hx. apply H. right; exact Hx.
Qed.

Lemma find_first {A} (f : A -> bool) l x : find f l = Some x ->
  exists pre post, l = pre ++ x :: post /\ f x = true /\ forall y, In y pre -> f y = false.
Proof.
  induction l as [|a l IH]; cbn [find]; [discriminate|].
  destruct (f a) eqn:E.
  - intros H; inversion H; subst. exists [], l. repeat split; auto. intros y [].
  - intros H. destruct (IH H) as [pre [post [-> [Hx Hp]]]].
    exists (a :: pre), post. repeat split; auto. intros y [<-|Hy]; auto.
Qed.

Lemma candidates_utf8 n : candidates true n = sidecar_names n.
Proof. reflexivity. Qed.

(* for a name that is not valid UTF-8 the candidates do not depend on the name at all *)
Lemma candidates_non_utf8 n : candidates false n = sidecar_names [].
Proof. reflexivity. Qed.

Lemma sidecar_names_length n : length (sidecar_names n) = 8%nat.
Proof. reflexivity. Qed.

Theorem ensure_single_file_ok_iff d n :
  ensure_single_file d true n = None <-> forall c, In c (sidecar_names n) -> stat_ok d c = false.
Proof.
  unfold ensure_single_file. rewrite candidates_utf8. split.
  - intros H c Hc. exact (find_none _ _ H c Hc).
  - apply find_none_conv.
Qed.

Theorem ensure_single_file_err_iff d n :
  (exists c, ensure_single_file d true n = Some c) <-> exists c, In c (sidecar_names n) /\ stat_ok d c = true.
Proof.
  split.
  - intros [c H]. exists c. unfold ensure_single_file in H. rewrite candidates_utf8 in H.
    apply find_some in H. exact H.
  - intros [c [Hc Hs]]. destruct (ensure_single_file d true n) as [c'|] eqn:E; [eauto|].
    rewrite ensure_single_file_ok_iff in E. rewrite (E c Hc) in Hs. discriminate.
Qed.

(* the error names the FIRST existing candidate in the order of the two loops *)
Theorem ensure_single_file_reports_first d u n c : ensure_single_file d u n = Some c ->
  exists pre post, candidates u n = pre ++ c :: post /\ stat_ok d c = true /\ forall y, In y pre -> stat_ok d y = false.
Proof. apply find_first. Qed.

Theorem suffix_lists_tied :
  dash_suffixes = map str_bytes MV.Gen.Consts.FORBIDDEN_SIDECAR_SUFFIXES /\
  dot_suffixes = map str_bytes MV.Gen.Consts.HIDDEN_FORBIDDEN_SIDECAR_SUFFIXES.
Proof. split; reflexivity. Qed.

(* a name that to_str rejects: the check looks at eight names that do not depend on the
   memory's name, so whatever sidecars of the memory exist, it is not refused ... *)
Theorem non_utf8_blind d n : (forall c, In c (sidecar_names []) -> stat_ok d c = false) ->
  ensure_single_file d false n = None.
Proof. intros H. unfold ensure_single_file. rewrite candidates_non_utf8. apply find_none_conv, H. Qed.

(* ... and an unrelated file called "-wal" (etc.) makes it refuse *)
Theorem non_utf8_spurious d n c : In c (sidecar_names []) -> stat_ok d c = true ->
  exists c', ensure_single_file d false n = Some c'.
Proof.
  intros Hc Hs. unfold ensure_single_file. rewrite candidates_non_utf8.
  destruct (find (stat_ok d) (sidecar_names [])) as [c'|] eqn:E; [eauto|].
  rewrite (find_none _ _ E c Hc) in Hs. discriminate.
Qed.

(* ---------------------------------------------------------------- one staged commit *)
Lemma strace_names d p s x n : has d p = true -> has d (stg p s) = false ->
  (In n (names (dexec d (strace_of p s x))) <-> In n (names d) \/ (leaks x = true /\ n = stg p s)).
Proof.
  intros Hp Hs.
  assert (Hne : stg p s <> p) by (intros E; rewrite E in Hs; congruence).
  apply has_In in Hp. apply has_false in Hs.
  assert (Hc : has (d_creat d (stg p s)) (stg p s) = true) by (apply has_In, names_creat; auto).
  destruct x; cbn [strace_of dexec fold_left dstep leaks];
    rewrite ?names_unlink, ?(names_rename _ _ _ _ Hc Hne), ?names_creat.
  - split; [auto | intros [?|[? _]]; [auto|discriminate]].
  - split; [intros [?| ->]; auto | intros [?|[_ ->]]; auto].
  - split; [intros [[?|?] ?]; [auto|contradiction] | intros [?|[? _]]; [|discriminate]].
    split; [auto | intros ->; contradiction].
  - split; [intros [[?|?] ?]; [auto|contradiction] | intros [?|[? _]]; [|discriminate]].
    split; [auto | intros ->; contradiction].
  - split; [intros [?| ->]; auto | intros [?|[_ ->]]; auto].
  - split; [intros [[?|?] ?]; [auto|contradiction] | intros [?|[? _]]; [|discriminate]].
    split; [auto | intros ->; contradiction].
  - split; [intros [?| ->]; auto | intros [?|[_ ->]]; auto].
  - split; [intros [[[?|?] ?]| ->]; [auto|contradiction|auto] | intros [?|[? _]]; [|discriminate]].
    left; split; [auto | intros ->; contradiction].
  - split; [intros [[[?|?] ?]| ->]; [auto|contradiction|auto] | intros [?|[? _]]; [|discriminate]].
    left; split; [auto | intros ->; contradiction].
  - split; [intros [[[?|?] ?]| ->]; [auto|contradiction|auto] | intros [?|[? _]]; [|discriminate]].
    left; split; [auto | intros ->; contradiction].
Qed.

Lemma pick_fresh_free d p sfxs s : pick_fresh d p sfxs = Some s -> has d (stg p s) = false.
Proof.
  unfold pick_fresh. intros H. apply find_some in H. destruct H as [_ H].
  destruct (has d (stg p s)); [discriminate | reflexivity].
Qed.

Lemma dexec_app d a b : dexec d (a ++ b) = dexec (dexec d a) b.
Proof. unfold dexec. apply fold_left_app. Qed.

Lemma run_stage_eq p d lk tr sfxs x :
  run_stage p (d, lk, tr) (sfxs, x) =
  match pick_fresh d p sfxs with
  | None => (d, lk, tr)
  | Some s => (dexec d (strace_of p s x), (if leaks x then lk ++ [stg p s] else lk), tr ++ strace_of p s x)
  end.
Proof. reflexivity. Qed.

(* all the staged commits of one call *)
Lemma run_stages_gen p sts : forall d lk tr d' lk' tr', has d p = true ->
  fold_left (run_stage p) sts (d, lk, tr) = (d', lk', tr') ->
  exists nl t',
    lk' = lk ++ nl /\ tr' = tr ++ t' /\ d' = dexec d t' /\ has d' p = true /\
    (forall n, In n (names d') <-> In n (names d) \/ In n nl) /\
    (existsb stage_leaks sts = false -> nl = []).
Proof.
  induction sts as [|[sfxs x] sts IH]; intros d lk tr d' lk' tr' Hp E; cbn [fold_left] in E.
  - inversion E; subst. exists [], []. rewrite !app_nil_r. repeat split; auto. intros [?|[]]; auto.
  - rewrite run_stage_eq in E. destruct (pick_fresh d p sfxs) as [s|] eqn:Epf.
    + pose proof (pick_fresh_free _ _ _ _ Epf) as Hs.
      assert (Hp' : has (dexec d (strace_of p s x)) p = true).
      { apply has_In. apply (strace_names d p s x p Hp Hs). left. apply has_In; exact Hp. }
      destruct (IH _ _ _ _ _ _ Hp' E) as [nl [t' [H1 [H2 [H3 [H4 [H5 H6]]]]]]].
      exists ((if leaks x then [stg p s] else []) ++ nl), (strace_of p s x ++ t').
      repeat split.
      * rewrite H1. destruct (leaks x); cbn [app]; rewrite <- ?app_assoc; reflexivity.
      * rewrite H2, app_assoc. reflexivity.
      * rewrite H3, dexec_app. reflexivity.
      * exact H4.
      * intros H. apply H5 in H. destruct H as [H|H].
        -- apply (strace_names d p s x n Hp Hs) in H. destruct H as [H|[Hl ->]]; [auto|].
           right. rewrite Hl. left; reflexivity.
        -- right. apply in_or_app; auto.
      * intros [H|H]; apply H5.
        -- left. apply (strace_names d p s x n Hp Hs). auto.
        -- apply in_app_or in H. destruct H as [H|H]; [|auto].
           left. apply (strace_names d p s x n Hp Hs). right.
           destruct (leaks x); [destruct H as [<-|[]]; auto | destruct H].
      * cbn [existsb]. unfold stage_leaks at 1. cbn [snd]. intros H. apply orb_false_iff in H. destruct H as [Hl Hr].
        rewrite Hl. cbn [app]. auto.
    + destruct (IH _ _ _ _ _ _ Hp E) as [nl [t' [H1 [H2 [H3 [H4 [H5 H6]]]]]]].
      exists nl, t'. repeat split; auto; try apply H5.
      cbn [existsb]. intros H. apply orb_false_iff in H. apply H6, H.
Qed.

Lemma run_stages_spec p d lk sts : has d p = true ->
  exists nl t',
    run_stages p d lk sts = (dexec d t', lk ++ nl, t') /\
    has (dexec d t') p = true /\
    (forall n, In n (names (dexec d t')) <-> In n (names d) \/ In n nl) /\
    (existsb stage_leaks sts = false -> nl = []).
Proof.
  intros Hp. unfold run_stages.
  destruct (fold_left (run_stage p) sts (d, lk, [])) as [[d' lk'] tr'] eqn:E.
  destruct (run_stages_gen p sts _ _ _ _ _ _ Hp E) as [nl [t' [H1 [H2 [H3 [H4 [H5 H6]]]]]]].
  exists nl, t'. cbn [app] in H2. subst.
  split; [reflexivity|]. split; [exact H4|]. split; [exact H5 | exact H6].
Qed.

Lemma run_stages_no_leak p sts : existsb stage_leaks sts = false -> forall d lk tr d' lk' tr',
  fold_left (run_stage p) sts (d, lk, tr) = (d', lk', tr') -> lk' = lk.
Proof.
  induction sts as [|[sfxs x] sts IH]; intros Hl d lk tr d' lk' tr' E; cbn [fold_left] in E.
  - inversion E; reflexivity.
  - cbn [existsb] in Hl. apply orb_false_iff in Hl. destruct Hl as [Hx Hr]. unfold stage_leaks in Hx. cbn [snd] in Hx.
    rewrite run_stage_eq, Hx in E. destruct (pick_fresh d p sfxs); apply (IH Hr) in E; exact E.
Qed.

(* ---------------------------------------------------------------- histories *)
(* base = the names present before the caller's first call *)
Definition inv (base : list name) (w : world) : Prop :=
  (forall p, In p (whandles w) -> has (wdir w) p = true) /\
  (forall n, In n (names (wdir w)) <-> In n base \/ In n (wcreated w) \/ In n (wleaked w)).

Lemma step_inv base w a : lockfile_op a = false -> inv base w -> inv base (step_w w a).
Proof.
  intros Hl [Hh Hn]. unfold inv, step_w. destruct a; cbn [step lockfile_op] in *; try discriminate.
  - (* create *)
    destruct (ensure_single_file (wdir w) utf8 p); [split; assumption|].
    destruct creat_ok; [|split; assumption]. cbn [fst wdir whandles wcreated wleaked]. split.
    + intros q Hq. apply has_In, names_creat.
      destruct ok; [destruct Hq as [<-|Hq]; [auto|] |]; left; apply has_In, Hh; exact Hq.
    + intros n. rewrite names_creat, Hn. cbn [In]. split; [intros [[?|[?|?]]|?] | intros [?|[[?|?]|?]]]; auto.
  - (* open *)
    destruct (ensure_single_file (wdir w) utf8 p); [split; assumption|].
    destruct (has (wdir w) p) eqn:Hp; [|split; assumption].
    destruct (run_stages_spec p (wdir w) (wleaked w) st Hp) as [nl [t' [H1 [H2 [H3 H4]]]]].
    rewrite H1. cbn [fst wdir whandles wcreated wleaked]. split.
    + intros q Hq. assert (Hq' : q = p \/ In q (whandles w)) by (destruct ok; [destruct Hq; auto | auto]).
      destruct Hq' as [->|Hq']; [exact H2|]. apply has_In, H3. left. apply has_In, Hh, Hq'.
    + intros n. rewrite H3, Hn, in_app_iff. tauto.
  - (* close *)
    destruct (mem_name (whandles w) p) eqn:E; [|split; assumption].
    apply mem_name_In in E. pose proof (Hh p E) as Hp.
    destruct (run_stages_spec p (wdir w) (wleaked w) st Hp) as [nl [t' [H1 [H2 [H3 H4]]]]].
    rewrite H1. cbn [fst wdir whandles wcreated wleaked]. split.
    + intros q Hq. apply has_In, H3. left. apply has_In, Hh. eapply del_name_In; exact Hq.
    + intros n. rewrite H3, Hn, in_app_iff. tauto.
  - (* any call on a handle *)
    destruct (mem_name (whandles w) p) eqn:E; [|split; assumption].
    apply mem_name_In in E. pose proof (Hh p E) as Hp.
    destruct (run_stages_spec p (wdir w) (wleaked w) st Hp) as [nl [t' [H1 [H2 [H3 H4]]]]].
    rewrite H1. cbn [fst wdir whandles wcreated wleaked]. split.
    + intros q Hq. apply has_In, H3. left. apply has_In, Hh, Hq.
    + intros n. rewrite H3, Hn, in_app_iff. tauto.
  - (* doctor *)
    destruct (ensure_single_file (wdir w) utf8 p); [split; assumption|].
    destruct (has (wdir w) p) eqn:Hp; [|split; assumption].
    destruct (run_stages_spec p (wdir w) (wleaked w) st Hp) as [nl [t' [H1 [H2 [H3 H4]]]]].
    rewrite H1. cbn [fst wdir whandles wcreated wleaked]. split.
    + intros q Hq. apply has_In, H3. left. apply has_In, Hh, Hq.
    + intros n. rewrite H3, Hn, in_app_iff. tauto.
Qed.

Lemma step_no_leak w a : io_leak_op a = false -> wleaked (step_w w a) = wleaked w.
Proof.
  intros Hl. unfold step_w. destruct a; cbn [step io_leak_op] in *.
  - destruct (ensure_single_file (wdir w) utf8 p); [reflexivity|]. destruct creat_ok; reflexivity.
  - destruct (ensure_single_file (wdir w) utf8 p); [reflexivity|]. destruct (has (wdir w) p); [|reflexivity].
    unfold run_stages.
    destruct (fold_left (run_stage p) st (wdir w, wleaked w, [])) as [[d' lk'] tr'] eqn:E. cbn [fst wleaked].
    exact (run_stages_no_leak p st Hl _ _ _ _ _ _ E).
  - destruct (mem_name (whandles w) p); [|reflexivity]. unfold run_stages.
    destruct (fold_left (run_stage p) st (wdir w, wleaked w, [])) as [[d' lk'] tr'] eqn:E. cbn [fst wleaked].
    exact (run_stages_no_leak p st Hl _ _ _ _ _ _ E).
  - destruct (mem_name (whandles w) p); [|reflexivity]. unfold run_stages.
    destruct (fold_left (run_stage p) st (wdir w, wleaked w, [])) as [[d' lk'] tr'] eqn:E. cbn [fst wleaked].
    exact (run_stages_no_leak p st Hl _ _ _ _ _ _ E).
  - destruct (ensure_single_file (wdir w) utf8 p); [reflexivity|]. destruct (has (wdir w) p); [|reflexivity].
    unfold run_stages.
    destruct (fold_left (run_stage p) st (wdir w, wleaked w, [])) as [[d' lk'] tr'] eqn:E. cbn [fst wleaked].
    exact (run_stages_no_leak p st Hl _ _ _ _ _ _ E).
  - destruct (has (wdir w) (lock_name p)); [reflexivity|]. destruct ok; reflexivity.
  - destruct (mem_name (wlocks w) (lock_name p)); reflexivity.
Qed.

Lemma run_snoc w h a : run w (h ++ [a]) = step_w (run w h) a.
Proof. unfold run. rewrite fold_left_app. reflexivity. Qed.

Lemma run_inv base h : forall w, existsb lockfile_op h = false -> inv base w -> inv base (run w h).
Proof.
  induction h as [|a h IH]; intros w Hl Hi; [exact Hi|].
  cbn [existsb] in Hl. apply orb_false_iff in Hl. destruct Hl as [Ha Hr].
  unfold run. cbn [fold_left]. apply IH; [exact Hr|]. apply step_inv; assumption.
Qed.

Lemma run_no_leak h : forall w, existsb io_leak_op h = false -> wleaked (run w h) = wleaked w.
Proof.
  induction h as [|a h IH]; intros w Hl; [reflexivity|].
  cbn [existsb] in Hl. apply orb_false_iff in Hl. destruct Hl as [Ha Hr].
  unfold run. cbn [fold_left]. fold (run (step_w w a) h). rewrite (IH _ Hr). apply step_no_leak, Ha.
Qed.

Lemma inv_world0 d0 : inv (names d0) (world0 d0).
Proof. split; cbn [world0 whandles wdir wcreated wleaked]; [intros p [] | intros n; split; [auto | intros [?|[[]|[]]]; auto]]. Qed.

(* exactly the names that were there, the targets, and the staging files that an OS error left *)
Theorem names_after_history d0 h : existsb lockfile_op h = false ->
  let w := run (world0 d0) h in
  forall n, In n (names (wdir w)) <-> In n (names d0) \/ In n (wcreated w) \/ In n (wleaked w).
Proof. intros Hl. cbv zeta. exact (proj2 (run_inv (names d0) h (world0 d0) Hl (inv_world0 d0))). Qed.

Theorem single_file_after_history d0 h : known_class h = false ->
  let w := run (world0 d0) h in
  forall n, In n (names (wdir w)) <-> In n (names d0) \/ In n (wcreated w).
Proof.
  intros H. cbv zeta. intros n. unfold known_class in H. apply orb_false_iff in H. destruct H as [Hio Hlk].
  rewrite (names_after_history d0 h Hlk n), (run_no_leak h (world0 d0) Hio). cbn [world0 wleaked In]. tauto.
Qed.

Lemma existsb_firstn {A} (f : A -> bool) k l : existsb f l = false -> existsb f (firstn k l) = false.
Proof.
  revert k; induction l as [|a l IH]; intros [|k] H; cbn [firstn existsb] in *; auto.
  apply orb_false_iff in H. destruct H as [-> H]. cbn [orb]. auto.
Qed.

Lemma known_class_firstn k h : known_class h = false -> known_class (firstn k h) = false.
Proof.
  unfold known_class. intros H. apply orb_false_iff in H. destruct H as [H1 H2].
  rewrite (existsb_firstn _ k _ H1), (existsb_firstn _ k _ H2). reflexivity.
Qed.

(* ... after EVERY call of the history, not only the last *)
Theorem single_file_after_every_call d0 h : known_class h = false ->
  forall k, let w := run (world0 d0) (firstn k h) in
  forall n, In n (names (wdir w)) <-> In n (names d0) \/ In n (wcreated w).
Proof. intros H k. cbv zeta. apply (single_file_after_history d0 (firstn k h)), known_class_firstn, H. Qed.

(* the targets are names the caller passed to create *)
Lemma step_created w a n : In n (wcreated (step_w w a)) ->
  In n (wcreated w) \/ exists u c o, a = ACreate n u c o.
Proof.
  unfold step_w. destruct a; cbn [step].
  - destruct (ensure_single_file (wdir w) utf8 p); [auto|]. destruct creat_ok; [|auto].
    cbn [fst wcreated In]. intros [<-|H]; [right; eauto | auto].
  - destruct (ensure_single_file (wdir w) utf8 p); [auto|]. destruct (has (wdir w) p); [|auto].
    destruct (run_stages p (wdir w) (wleaked w) st) as [[? ?] ?]. auto.
  - destruct (mem_name (whandles w) p); [|auto]. destruct (run_stages p (wdir w) (wleaked w) st) as [[? ?] ?]. auto.
  - destruct (mem_name (whandles w) p); [|auto]. destruct (run_stages p (wdir w) (wleaked w) st) as [[? ?] ?]. auto.
  - destruct (ensure_single_file (wdir w) utf8 p); [auto|]. destruct (has (wdir w) p); [|auto].
    destruct (run_stages p (wdir w) (wleaked w) st) as [[? ?] ?]. auto.
  - destruct (has (wdir w) (lock_name p)); [auto|]. destruct ok; auto.
  - destruct (mem_name (wlocks w) (lock_name p)); auto.
Qed.

Theorem created_are_create_targets h : forall w n, In n (wcreated (run w h)) ->
  In n (wcreated w) \/ exists u c o, In (ACreate n u c o) h.
Proof.
  induction h as [|a h IH]; intros w n H; [auto|].
  unfold run in H. cbn [fold_left] in H. fold (run (step_w w a) h) in H.
  apply IH in H. destruct H as [H|[u [c [o H]]]].
  - apply step_created in H. destruct H as [H|[u [c [o ->]]]]; [auto|]. right. exists u, c, o. left; reflexivity.
  - right. exists u, c, o. right; exact H.
Qed.

(* refusal: decided by the directory alone, and a refused call changes nothing *)
Theorem refused_iff w a c :
  snd (fst (step w a)) = RRefused c <->
  match a with
  | ACreate p u _ _ | AOpen p u _ _ | ADoctor p u _ => ensure_single_file (wdir w) u p = Some c
  | _ => False
  end.
Proof.
  destruct a; cbn [step].
  - destruct (ensure_single_file (wdir w) utf8 p) as [c'|]; cbn [fst snd].
    + split; intros H; inversion H; reflexivity.
    + destruct creat_ok; cbn [fst snd]; split; discriminate.
  - destruct (ensure_single_file (wdir w) utf8 p) as [c'|]; cbn [fst snd].
    + split; intros H; inversion H; reflexivity.
    + destruct (has (wdir w) p); [destruct (run_stages p (wdir w) (wleaked w) st) as [[? ?] ?]|]; cbn [fst snd]; split; discriminate.
  - destruct (mem_name (whandles w) p); [destruct (run_stages p (wdir w) (wleaked w) st) as [[? ?] ?]|]; cbn [fst snd]; split; try discriminate; contradiction.
  - destruct (mem_name (whandles w) p); [destruct (run_stages p (wdir w) (wleaked w) st) as [[? ?] ?]|]; cbn [fst snd]; split; try discriminate; contradiction.
  - destruct (ensure_single_file (wdir w) utf8 p) as [c'|]; cbn [fst snd].
    + split; intros H; inversion H; reflexivity.
    + destruct (has (wdir w) p); [destruct (run_stages p (wdir w) (wleaked w) st) as [[? ?] ?]|]; cbn [fst snd]; split; discriminate.
  - destruct (has (wdir w) (lock_name p)); [|destruct ok]; cbn [fst snd]; split; try discriminate; contradiction.
  - destruct (mem_name (wlocks w) (lock_name p)); cbn [fst snd]; split; try discriminate; contradiction.
Qed.

Theorem refused_changes_nothing w a c : snd (fst (step w a)) = RRefused c -> step w a = (w, RRefused c, []).
Proof.
  destruct a; cbn [step].
  - destruct (ensure_single_file (wdir w) utf8 p) as [c'|]; cbn [fst snd].
    + intros H; inversion H; reflexivity.
    + destruct creat_ok; cbn [fst snd]; discriminate.
  - destruct (ensure_single_file (wdir w) utf8 p) as [c'|]; cbn [fst snd].
    + intros H; inversion H; reflexivity.
    + destruct (has (wdir w) p); [destruct (run_stages p (wdir w) (wleaked w) st) as [[? ?] ?]|]; cbn [fst snd]; discriminate.
  - destruct (mem_name (whandles w) p); [destruct (run_stages p (wdir w) (wleaked w) st) as [[? ?] ?]|]; cbn [fst snd]; discriminate.
  - destruct (mem_name (whandles w) p); [destruct (run_stages p (wdir w) (wleaked w) st) as [[? ?] ?]|]; cbn [fst snd]; discriminate.
  - destruct (ensure_single_file (wdir w) utf8 p) as [c'|]; cbn [fst snd].
    + intros H; inversion H; reflexivity.
    + destruct (has (wdir w) p); [destruct (run_stages p (wdir w) (wleaked w) st) as [[? ?] ?]|]; cbn [fst snd]; discriminate.
  - destruct (has (wdir w) (lock_name p)); [|destruct ok]; cbn [fst snd]; discriminate.
  - destruct (mem_name (wlocks w) (lock_name p)); cbn [fst snd]; discriminate.
Qed.

(* ---------------------------------------------------------------- the boolean form of the property *)
Lemma names_ok_spec d0 w : names_ok d0 w = true <->
  forall n, In n (names (wdir w)) <-> In n (names d0) \/ In n (wcreated w).
Proof.
  unfold names_ok. rewrite andb_true_iff, !forallb_forall. split.
  - intros [H1 H2] n. split.
    + intros H. apply H1 in H. apply orb_true_iff in H. rewrite !mem_name_In in H. exact H.
    + intros H. apply mem_name_In, H2, in_or_app. exact H.
  - intros H. split.
    + intros n Hn. apply orb_true_iff. rewrite !mem_name_In. apply H, Hn.
    + intros n Hn. apply mem_name_In, H. apply in_app_or, Hn.
Qed.

(* ---------------------------------------------------------------- tie to the contents-level protocol (Model/FsProto.v) *)
Lemma strip_P_map l : strip_P (map P l) = l.
Proof. unfold strip_P. induction l as [|a l IH]; cbn [map flat_map app]; [reflexivity | rewrite IH; reflexivity]. Qed.

Lemma only_tmp_writes_no_dop p s body : only_tmp_writes body = true -> flat_map (dop_of p s) (map P body) = [].
Proof.
  induction body as [|o body IH]; cbn [only_tmp_writes map flat_map]; [reflexivity|].
  destruct o; try discriminate; intros H; cbn [dop_of app]; auto.
Qed.

(* the successful exit is exactly the staged commit that C02/C03 prove crash-atomic and durable *)
Theorem ok_exit_is_staged_commit body : only_tmp_writes body = true ->
  staged_commit_ok (strip_P (proto_of XOk body)) = true.
Proof.
  intros H. unfold proto_of. rewrite strip_P_map. cbn [app staged_commit_ok].
  rewrite rev_app_distr. cbn [rev app]. rewrite rev_involutive. exact H.
Qed.

(* and the directory operations of every exit are those of its protocol trace *)
Theorem strace_is_proto_dir_effect p s x body : only_tmp_writes body = true ->
  flat_map (dop_of p s) (proto_of x body) = strace_of p s x.
Proof.
  intros H. pose proof (only_tmp_writes_no_dop p s body H) as Hb.
  destruct x; unfold proto_of; cbn [strace_of]; try reflexivity;
    rewrite ?map_app, ?flat_map_app, ?Hb; reflexivity.
Qed.
