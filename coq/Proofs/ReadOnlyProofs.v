(* Proofs about Model/ReadOnly.v (C18). *)
From MV Require Import Base.Prelude Base.Facts Model.Footer Model.Header Model.Wal Model.Store Model.FsProto Model.ReadOnly.
From MV Require Import Proofs.FooterProofs Proofs.HeaderProofs.
Require Import ZifyBool ZifyNat ZifyN.
Local Open Scope N_scope.

(* ---------------------------------------------------------------- lists *)
Lemma slice_skipn {A} (b : list A) st off len : slice (skipn st b) off len = slice b (st + off) len.
Proof. unfold slice. rewrite skipn_add. reflexivity. Qed.

Lemma apply_trace_snoc f t e : apply_trace f (t ++ [e]) = apply_wev (apply_trace f t) e.
Proof. unfold apply_trace. rewrite fold_left_app. reflexivity. Qed.

Lemma pwrite_inside_prefix (a r d : bytes) off :
  (off + length d <= length a)%nat -> pwrite (a ++ r) off d = pwrite a off d ++ r.
Proof.
  intros Hle. unfold pwrite.
  replace (off - length (a ++ r))%nat with 0%nat by (rewrite app_length; lia).
  replace (off - length a)%nat with 0%nat by lia.
  cbn [repeat]. rewrite !app_nil_r.
  rewrite firstn_app. replace (off - length a)%nat with 0%nat by lia. cbn [firstn]. rewrite app_nil_r.
  rewrite skipn_app. replace (off + length d - length a)%nat with 0%nat by lia. cbn [skipn].
  rewrite <- !app_assoc. reflexivity.
Qed.

Section LocateProofs.
  Variable H : bytes -> bytes.
  Variable maxw : N.
  Notation locate_loop := (locate_loop H).
  Notation locate_footer_window := (locate_footer_window H maxw).
  Notation commit_image := (commit_image H).

  (* ================================================================ C. locate_footer_window *)
  Lemma valid_at_skipn_fwd (b : bytes) st p :
    (st <= length b)%nat -> valid_at H (skipn st b) p = true -> valid_at H b (st + p) = true.
  Proof.
    intros Hst. unfold valid_at. rewrite skipn_length, !slice_skipn.
    intros Hv. apply andb_true_iff in Hv as [Hl Hm].
    apply andb_true_iff; split; [lia|].
    destruct (footer_decode (slice b (st + p) FOOTER_SIZE)) as [f|]; [|discriminate].
    apply andb_true_iff in Hm as [Hm Hh]. apply andb_true_iff in Hm as [Hz Hle].
    rewrite Hz. cbn [andb]. replace (toc_len f <=? N.of_nat (st + p)) with true by lia. cbn [andb].
    replace (st + p - N.to_nat (toc_len f))%nat with (st + (p - N.to_nat (toc_len f)))%nat by lia.
    rewrite slice_skipn in Hh. exact Hh.
  Qed.

  Lemma slice_at_skipn (b : bytes) st p s :
    slice_at (skipn st b) p = Some s ->
    (N.to_nat (toc_len (fs_footer s)) <= p)%nat ->
    slice_at b (st + p) = Some (mkSlice (st + fs_footer_offset s) (st + fs_toc_offset s) (fs_footer s) (fs_toc_bytes s)).
  Proof.
    unfold slice_at. rewrite !slice_skipn.
    destruct (footer_decode (slice b (st + p) FOOTER_SIZE)) as [f|]; [|discriminate].
    intros E; inversion E; subst; clear E. cbn [fs_footer fs_footer_offset fs_toc_offset fs_toc_bytes].
    intros Hle. rewrite slice_skipn.
    replace (st + p - N.to_nat (toc_len f))%nat with (st + (p - N.to_nat (toc_len f)))%nat by lia.
    reflexivity.
  Qed.

  Lemma locate_loop_start fuel : forall b w s st,
    locate_loop fuel b w = Some (s, st) ->
    (st <= length b)%nat /\ find_last_valid_footer H (skipn st b) = Some s.
  Proof.
    induction fuel as [|k IH]; intros b w s st; cbn [ReadOnly.locate_loop]; [discriminate|].
    destruct (find_last_valid_footer H (skipn (N.to_nat (N.of_nat (length b) - w)) b)) as [s'|] eqn:EF.
    - intros E; inversion E; subst. split; [lia | exact EF].
    - destruct (w =? N.of_nat (length b)); [discriminate | apply IH].
  Qed.

  (* whatever the window, the footer returned is a valid footer of the whole file, reported at its
     position in the whole file, with the TOC bytes it describes *)
  Theorem locate_sound b s adj :
    locate_footer_window b = Some (s, adj) ->
    valid_at H b (adj + fs_footer_offset s) = true /\
    slice_at b (adj + fs_footer_offset s) =
      Some (mkSlice (adj + fs_footer_offset s) (adj + fs_toc_offset s) (fs_footer s) (fs_toc_bytes s)).
  Proof.
    unfold ReadOnly.locate_footer_window. destruct b as [|x b]; [discriminate|].
    intros Hl. apply locate_loop_start in Hl as [Hst Hf].
    apply find_last_valid_footer_some in Hf as (pos & Hv & Hs & _).
    pose proof (slice_at_describes _ _ _ Hs) as (Hfo & Hd & _).
    assert (Hle : (N.to_nat (toc_len (fs_footer s)) <= pos)%nat).
    { unfold valid_at in Hv. apply andb_true_iff in Hv as [_ Hv]. rewrite Hd in Hv.
      apply andb_true_iff in Hv as [Hv _]. apply andb_true_iff in Hv as [_ Hv]. lia. }
    rewrite Hfo. split; [apply valid_at_skipn_fwd; assumption|].
    pose proof (slice_at_skipn _ _ _ _ Hs Hle) as Hs'. rewrite Hfo in Hs'. exact Hs'.
  Qed.

  Lemma locate_loop_none_all fuel : forall b w,
    (forall q, valid_at H b q = false) -> locate_loop fuel b w = None.
  Proof.
    induction fuel as [|k IH]; intros b w Hall; cbn [ReadOnly.locate_loop]; [reflexivity|].
    destruct (find_last_valid_footer H (skipn (N.to_nat (N.of_nat (length b) - w)) b)) as [s|] eqn:EF.
    - exfalso. apply find_last_valid_footer_some in EF as (pos & Hv & _).
      apply valid_at_skipn_fwd in Hv; [|lia]. rewrite Hall in Hv. discriminate.
    - destruct (w =? N.of_nat (length b)); [reflexivity | apply IH; exact Hall].
  Qed.

  (* fuel: the window grows by at least one byte per round *)
  Lemma locate_loop_fuel fuel : forall b w,
    1 <= w -> w <= N.of_nat (length b) -> N.of_nat (length b) - w < N.of_nat fuel ->
    locate_loop fuel b w = None -> forall q, valid_at H b q = false.
  Proof.
    induction fuel as [|k IH]; intros b w H1 H2 H3; [lia|]. cbn [ReadOnly.locate_loop].
    destruct (find_last_valid_footer H (skipn (N.to_nat (N.of_nat (length b) - w)) b)) as [s|] eqn:EF; [discriminate|].
    destruct (w =? N.of_nat (length b)) eqn:EW.
    - intros _. apply N.eqb_eq in EW. subst w. rewrite N.sub_diag in EF. cbn [N.to_nat skipn] in EF.
      change (N.to_nat 0) with 0%nat in EF. cbn [skipn] in EF.
      apply find_last_valid_footer_none; exact EF.
    - apply N.eqb_neq in EW. apply IH; lia.
  Qed.

  Theorem locate_none_iff b :
    0 < maxw -> (locate_footer_window b = None <-> forall q, valid_at H b q = false).
  Proof.
    intros Hm. unfold ReadOnly.locate_footer_window. destruct b as [|x b].
    - split; [|reflexivity]. intros _ q. destruct (valid_at H [] q) eqn:EV; [|reflexivity].
      apply valid_at_in_range in EV. cbn in EV. unfold FOOTER_SIZE in EV. lia.
    - split.
      + apply locate_loop_fuel; cbn [length]; lia.
      + apply locate_loop_none_all.
  Qed.

  (* files up to the search size: exactly C31's scan of the whole file *)
  Theorem locate_small_file b :
    N.of_nat (length b) <= maxw ->
    locate_footer_window b = match find_last_valid_footer H b with Some s => Some (s, 0%nat) | None => None end.
  Proof.
    intros Hm. unfold ReadOnly.locate_footer_window. destruct b as [|x b].
    - reflexivity.
    - cbn [ReadOnly.locate_loop]. replace (N.min maxw (N.of_nat (length (x :: b)))) with (N.of_nat (length (x :: b))) by lia.
      rewrite N.sub_diag. change (N.to_nat 0) with 0%nat. cbn [skipn].
      destruct (find_last_valid_footer H (x :: b)); [reflexivity|]. rewrite N.eqb_refl. reflexivity.
  Qed.

  (* ---- the image a commit leaves ---- *)
  Section Image.
    Variables (pre tb : bytes) (g : N).
    Hypothesis Htb : tb <> [].
    Hypothesis Hlen : N.of_nat (length tb) < 2 ^ 64.
    Hypothesis Hg : g < 2 ^ 64.
    Hypothesis Hh : length (H tb) = 32%nat.

    Let f := mkFooter (N.of_nat (length tb)) (H tb) g.

    Lemma commit_image_length : length (commit_image pre tb g) = (length pre + length tb + FOOTER_SIZE)%nat.
    Proof.
      unfold ReadOnly.commit_image. rewrite !app_length. unfold footer_encode. rewrite !app_length, !le_encode_length.
      cbn [toc_hash]. rewrite Hh. unfold FOOTER_SIZE. cbn [length FOOTER_MAGIC]. lia.
    Qed.

    Lemma footer_encode_length : length (footer_encode f) = FOOTER_SIZE.
    Proof. unfold footer_encode. rewrite !app_length, !le_encode_length. cbn [toc_hash f]. rewrite Hh. reflexivity. Qed.

    Lemma scan_commit_image :
      find_last_valid_footer H (commit_image pre tb g) =
        Some (mkSlice (length pre + length tb) (length pre) f tb).
    Proof.
      apply find_last_valid_footer_some. exists (length pre + length tb)%nat.
      assert (HS1 : slice (commit_image pre tb g) (length pre + length tb) FOOTER_SIZE = footer_encode f).
      { unfold ReadOnly.commit_image. rewrite app_assoc. rewrite <- app_length. rewrite <- footer_encode_length. apply slice_app_tail. }
      assert (HD : footer_decode (footer_encode f) = Some f) by (apply footer_decode_encode; assumption).
      assert (HS2 : slice (commit_image pre tb g) (length pre) (length tb) = tb) by apply slice_app_exact.
      assert (Hnz : length tb <> 0%nat) by (destruct tb; [contradiction | cbn; lia]).
      assert (Hsub : (length pre + length tb - N.to_nat (toc_len f) = length pre)%nat) by (cbn [toc_len f]; lia).
      split; [|split].
      - unfold valid_at. rewrite commit_image_length, HS1, HD.
        apply andb_true_iff; split; [lia|].
        rewrite Hsub. cbn [toc_len f]. rewrite Nat2N.id, HS2.
        unfold hash_matches. cbn [toc_hash]. rewrite bytes_eqb_refl.
        replace (N.of_nat (length tb) =? 0) with false by lia.
        replace (N.of_nat (length tb) <=? N.of_nat (length pre + length tb)) with true by lia. reflexivity.
      - unfold slice_at. rewrite HS1, HD. rewrite Hsub. cbn [toc_len f]. rewrite Nat2N.id, HS2. reflexivity.
      - intros q Hq. apply valid_at_in_range in Hq. rewrite commit_image_length in Hq. lia.
    Qed.

    (* the footer at the end of the file is the one every window finds, as soon as the first
       window holds the TOC and the footer *)
    Lemma locate_commit_image :
      N.of_nat (length tb + FOOTER_SIZE) <= maxw ->
      exists adj fo to, locate_footer_window (commit_image pre tb g) = Some (mkSlice fo to f tb, adj) /\
                        (fo + adj = length pre + length tb)%nat.
    Proof.
      intros Hw. unfold ReadOnly.locate_footer_window.
      destruct (commit_image pre tb g) as [|x r] eqn:EB.
      { exfalso. pose proof commit_image_length as HL. rewrite EB in HL. cbn in HL. unfold FOOTER_SIZE in HL. lia. }
      rewrite <- EB. cbn [ReadOnly.locate_loop].
      set (len := N.of_nat (length (commit_image pre tb g))).
      set (w := N.min maxw len).
      assert (HL : len = N.of_nat (length pre + length tb + FOOTER_SIZE)) by (unfold len; rewrite commit_image_length; reflexivity).
      set (st := N.to_nat (len - w)).
      assert (Hst : (st <= length pre)%nat) by (unfold st, w; lia).
      assert (ES : skipn st (commit_image pre tb g) = commit_image (skipn st pre) tb g).
      { unfold ReadOnly.commit_image. rewrite skipn_app. replace (st - length pre)%nat with 0%nat by lia. reflexivity. }
      rewrite ES.
      pose proof scan_commit_image as HSC.
      (* scan_commit_image is stated for `pre`; restate for the suffix *)
      clear HSC.
      assert (HSC : find_last_valid_footer H (commit_image (skipn st pre) tb g) =
                    Some (mkSlice (length (skipn st pre) + length tb) (length (skipn st pre)) f tb)).
      { apply find_last_valid_footer_some. exists (length (skipn st pre) + length tb)%nat.
        set (pre' := skipn st pre).
        assert (HLI : length (commit_image pre' tb g) = (length pre' + length tb + FOOTER_SIZE)%nat).
        { unfold ReadOnly.commit_image. rewrite !app_length. fold f. rewrite footer_encode_length. lia. }
        assert (HS1 : slice (commit_image pre' tb g) (length pre' + length tb) FOOTER_SIZE = footer_encode f).
        { unfold ReadOnly.commit_image. rewrite app_assoc. rewrite <- app_length. rewrite <- footer_encode_length. apply slice_app_tail. }
        assert (HD : footer_decode (footer_encode f) = Some f) by (apply footer_decode_encode; assumption).
        assert (HS2 : slice (commit_image pre' tb g) (length pre') (length tb) = tb) by apply slice_app_exact.
        assert (Hnz : length tb <> 0%nat) by (destruct tb; [contradiction | cbn; lia]).
        assert (Hsub : (length pre' + length tb - N.to_nat (toc_len f) = length pre')%nat) by (cbn [toc_len f]; lia).
        split; [|split].
        - unfold valid_at. rewrite HLI, HS1, HD.
          apply andb_true_iff; split; [lia|].
          rewrite Hsub. cbn [toc_len f]. rewrite Nat2N.id, HS2.
          unfold hash_matches. cbn [toc_hash]. rewrite bytes_eqb_refl.
          replace (N.of_nat (length tb) =? 0) with false by lia.
          replace (N.of_nat (length tb) <=? N.of_nat (length pre' + length tb)) with true by lia. reflexivity.
        - unfold slice_at. rewrite HS1, HD. rewrite Hsub. cbn [toc_len f]. rewrite Nat2N.id, HS2. reflexivity.
        - intros q Hq. apply valid_at_in_range in Hq. rewrite HLI in Hq. lia. }
      rewrite HSC. do 3 eexists. split; [reflexivity|]. rewrite skipn_length. lia.
    Qed.
  End Image.

End LocateProofs.

Section ROProofs.
  Variable H : bytes -> bytes.
  Variable toc_decode : bytes -> option rtoc.
  Variable toc_reencode : rtoc -> bytes * bytes.
  Variable maxw : N.

  Notation locate_loop := (locate_loop H).
  Notation locate_footer_window := (locate_footer_window H maxw).
  Notation load_tail_snapshot := (load_tail_snapshot H toc_decode maxw).
  Notation align_footer := (align_footer H toc_reencode).
  Notation materialize := (materialize H toc_reencode).
  Notation init_tantivy := (init_tantivy H toc_reencode).
  Notation open_ro_on := (open_ro_on H toc_decode toc_reencode maxw).
  Notation open_ro := (open_ro H toc_decode toc_reencode maxw).
  Notation ro_step := (ro_step H toc_decode toc_reencode maxw).
  Notation ro_run := (ro_run H toc_decode toc_reencode maxw).
  Notation ro_session := (ro_session H toc_decode toc_reencode maxw).
  Notation commit_image := (commit_image H).

  (* ================================================================ A. no write, whatever the file holds *)
  Lemma align_noop hd s : hd_read_only hd = true -> align_footer hd s = (false, hd, s).
  Proof. unfold ReadOnly.align_footer. intros ->. reflexivity. Qed.

  Lemma materialize_noop hd s : hd_read_only hd = true ->
    forall segs fl dl, exists r, materialize segs fl dl hd s = (r, hd, s).
  Proof.
    intros Hq segs. induction segs as [|[off len] segs IH]; intros fl dl; cbn [ReadOnly.materialize].
    - eexists; reflexivity.
    - destruct (len =? 0); [apply IH|].
      destruct (2 ^ 64 <=? off + len); [eexists; reflexivity|].
      destruct ((fl <? off + len) || (dl <? off + len)); [|apply IH].
      rewrite (align_noop hd s Hq).
      destruct ((fl <? off + len) || (dl <? off + len)); [eexists; reflexivity | apply IH].
  Qed.

  Lemma init_tantivy_noop hd s : hd_read_only hd = true ->
    exists b, init_tantivy hd s = (set_tantivy hd b, s).
  Proof.
    intros Hq. unfold ReadOnly.init_tantivy. destruct (negb (hd_lex hd)); [eexists; reflexivity|].
    destruct (materialize_noop hd s Hq (rt_segs (hd_toc hd)) (N.of_nat (length (fs_bytes s))) (h_footer_offset (hd_header hd))) as [r Hr].
    rewrite Hr. eexists; reflexivity.
  Qed.

  Lemma ro_set_tantivy hd b : hd_read_only hd = true -> hd_read_only (set_tantivy hd b) = true.
  Proof. destruct hd; cbn. auto. Qed.

  (* read_without_repair never touches the file *)
  Lemma ro_header_read_pure s : snd (ro_header_read s) = s.
  Proof. unfold ro_header_read. destruct (Nat.ltb _ _); reflexivity. Qed.

  Lemma open_ro_on_clean lf s0 :
    exists r, open_ro_on lf s0 = (r, s0) /\ forall hd, r = Ok hd -> hd_read_only hd = true.
  Proof.
    unfold ReadOnly.open_ro_on, ReadOnly.open_ro_gen.
    destruct (load_tail_snapshot (fs_bytes s0)) as [t|e|p] eqn:ET.
    2:{ eexists; split; [reflexivity|]. discriminate. }
    2:{ eexists; split; [reflexivity|]. discriminate. }
    pose proof (ro_header_read_pure s0) as HP.
    destruct (ro_header_read s0) as [rh s1]. cbn [snd] in HP. subst s1.
    destruct rh as [h0|e|p].
    2:{ eexists; split; [reflexivity|]. discriminate. }
    2:{ eexists; split; [reflexivity|]. discriminate. }
    destruct (negb lf); [eexists; split; [reflexivity|discriminate]|].
    destruct (ro_wal_open H (fs_bytes s0) _) as [w|e|p] eqn:EW.
    2:{ eexists; split; [reflexivity|]. discriminate. }
    2:{ eexists; split; [reflexivity|]. discriminate. }
    set (hd := mkHandle _ _ _ _ _ _ _ _).
    assert (Hq : hd_read_only hd = true) by reflexivity.
    destruct (init_tantivy_noop hd s0 Hq) as [b Hb]. rewrite Hb.
    eexists; split; [reflexivity|]. intros hd' E. inversion E; subst. apply ro_set_tantivy; exact Hq.
  Qed.

  Lemma ro_step_clean lf hd s op :
    hd_read_only hd = true ->
    exists hd' o, ro_step lf (hd, s) op = ((hd', s), o) /\ hd_read_only hd' = true.
  Proof.
    intros Hq. destruct op; cbn [ReadOnly.ro_step]; try (do 2 eexists; split; [reflexivity | exact Hq]).
    - (* search *)
      destruct (negb (hd_lex hd)); [do 2 eexists; split; [reflexivity | exact Hq]|].
      destruct (hd_tantivy hd); [do 2 eexists; split; [reflexivity | exact Hq]|].
      destruct (init_tantivy_noop hd s Hq) as [b Hb]. rewrite Hb.
      do 2 eexists; split; [reflexivity | apply ro_set_tantivy; exact Hq].
    - (* verify *)
      destruct (open_ro_on_clean lf s) as (r & Hr & _). rewrite Hr.
      destruct r; do 2 eexists; split; try reflexivity; exact Hq.
  Qed.

  Lemma ro_run_clean lf ops : forall hd s,
    hd_read_only hd = true ->
    exists hd' outs, ro_run lf (hd, s) ops = ((hd', s), outs).
  Proof.
    induction ops as [|op ops IH]; intros hd s Hq; cbn [ReadOnly.ro_run].
    - do 2 eexists; reflexivity.
    - destruct (ro_step_clean lf hd s op Hq) as (hd1 & o & Hs & Hq1). rewrite Hs.
      destruct (IH hd1 s Hq1) as (hd2 & outs & Hr). rewrite Hr. do 2 eexists; reflexivity.
  Qed.

  (* every call of a read-only session -- the open itself, then any sequence of read calls --
     issues no write, truncate or sync on the memory file and leaves its bytes as they were:
     for EVERY file content, no side condition *)
  Theorem ro_session_no_write lf file ops :
    snd (ro_session lf file ops) = mkFS file [].
  Proof.
    unfold ReadOnly.ro_session, ReadOnly.open_ro.
    destruct (open_ro_on_clean lf (mkFS file [])) as (r & Hr & Hq). rewrite Hr.
    destruct r as [hd|e|p]; [|reflexivity|reflexivity].
    destruct (ro_run_clean lf ops hd (mkFS file []) (Hq hd eq_refl)) as (hd' & outs & Hrun).
    rewrite Hrun. reflexivity.
  Qed.

  Corollary ro_session_fsproto lf file ops (c : content) :
    exec (fs0 c) (to_fsops 0 (fs_trace (snd (ro_session lf file ops)))) = fs0 c.
  Proof. rewrite (ro_session_no_write lf file ops). reflexivity. Qed.

  (* ================================================================ the trace explains every byte change *)
  Definition consistent (f0 : bytes) (s : fstate) : Prop := fs_bytes s = apply_trace f0 (fs_trace s).

  Lemma emit_consistent f0 s e : consistent f0 s -> consistent f0 (emit s e).
  Proof. unfold consistent, emit. cbn [fs_bytes fs_trace]. intros ->. rewrite apply_trace_snoc. reflexivity. Qed.

  Lemma align_consistent f0 hd s : consistent f0 s -> consistent f0 (snd (align_footer hd s)).
  Proof.
    intros Hc. unfold ReadOnly.align_footer. destruct (hd_read_only hd); [exact Hc|]. destruct (_ <=? _); [exact Hc|].
    destruct (toc_reencode (hd_toc hd)) as [tb ck]. cbn [snd].
    destruct (header_encode _); repeat apply emit_consistent; exact Hc.
  Qed.

  Lemma materialize_consistent f0 segs : forall fl dl hd s,
    consistent f0 s -> consistent f0 (snd (materialize segs fl dl hd s)).
  Proof.
    induction segs as [|[off len] segs IH]; intros fl dl hd s Hc; cbn [ReadOnly.materialize]; [exact Hc|].
    destruct (len =? 0); [apply IH; exact Hc|].
    destruct (2 ^ 64 <=? off + len); [exact Hc|].
    destruct ((fl <? off + len) || (dl <? off + len)); [|apply IH; exact Hc].
    pose proof (align_consistent f0 hd s Hc) as Ha.
    destruct (align_footer hd s) as [[al hd1] s1]. cbn [snd] in Ha.
    destruct ((_ <? off + len) || (_ <? off + len)); [exact Ha | apply IH; exact Ha].
  Qed.

  Lemma init_tantivy_consistent f0 hd s : consistent f0 s -> consistent f0 (snd (init_tantivy hd s)).
  Proof.
    intros Hc. unfold ReadOnly.init_tantivy. destruct (negb (hd_lex hd)); [exact Hc|].
    pose proof (materialize_consistent f0 (rt_segs (hd_toc hd)) (N.of_nat (length (fs_bytes s))) (h_footer_offset (hd_header hd)) hd s Hc) as Hm.
    destruct (materialize _ _ _ hd s) as [[r hd1] s1]. exact Hm.
  Qed.

  Lemma header_read_consistent f0 s : consistent f0 s -> consistent f0 (snd (ro_header_read s)).
  Proof. intros Hc. rewrite ro_header_read_pure. exact Hc. Qed.

  Lemma header_read_repair_consistent f0 s : consistent f0 s -> consistent f0 (snd (header_read_repair s)).
  Proof.
    intros Hc. unfold header_read_repair. destruct (Nat.ltb _ _); [exact Hc|].
    destruct (legacy_dirty _); [apply emit_consistent|]; exact Hc.
  Qed.

  Lemma open_ro_gen_consistent f0 hread flag lf s :
    (forall s', consistent f0 s' -> consistent f0 (snd (hread s'))) ->
    consistent f0 s -> consistent f0 (snd (open_ro_gen H toc_decode toc_reencode maxw hread flag lf s)).
  Proof.
    intros Hhr Hc. unfold ReadOnly.open_ro_gen.
    destruct (load_tail_snapshot (fs_bytes s)) as [t|e|p]; [|exact Hc|exact Hc].
    pose proof (Hhr s Hc) as Hh.
    destruct (hread s) as [rh s1]. cbn [snd] in Hh.
    destruct rh as [h0|e|p]; [|exact Hh|exact Hh].
    destruct (negb lf); [exact Hh|].
    destruct (ro_wal_open H (fs_bytes s1) _) as [w|e|p]; [|exact Hh|exact Hh].
    pose proof (init_tantivy_consistent f0 (mkHandle (with_footer h0 (t_footer_offset t) (rt_checksum (t_toc t))) (t_toc t) (t_footer_offset t) (t_generation t) w (rt_lex (t_toc t)) false flag) s1 Hh) as Hi.
    destruct (init_tantivy _ s1) as [hd1 s2]. exact Hi.
  Qed.

  Lemma open_ro_on_consistent f0 lf s : consistent f0 s -> consistent f0 (snd (open_ro_on lf s)).
  Proof. apply open_ro_gen_consistent. apply header_read_consistent. Qed.

  (* historical: the code before the repairs; its trace still explains its byte changes *)
  Lemma open_ro_unfixed_trace_explains lf file :
    let s := snd (open_ro_unfixed H toc_decode toc_reencode maxw lf file) in fs_bytes s = apply_trace file (fs_trace s).
  Proof.
    cbn zeta. unfold ReadOnly.open_ro_unfixed.
    apply (open_ro_gen_consistent file header_read_repair false lf (mkFS file [])); [apply header_read_repair_consistent | reflexivity].
  Qed.

  Lemma ro_step_consistent f0 lf hd s op :
    consistent f0 s -> consistent f0 (snd (fst (ro_step lf (hd, s) op))).
  Proof.
    intros Hc. destruct op; cbn [ReadOnly.ro_step fst snd]; try exact Hc.
    - destruct (negb (hd_lex hd)); [exact Hc|]. destruct (hd_tantivy hd); [exact Hc|].
      pose proof (init_tantivy_consistent f0 hd s Hc) as Hi. destruct (init_tantivy hd s). exact Hi.
    - pose proof (open_ro_on_consistent f0 lf s Hc) as Ho.
      destruct (open_ro_on lf s) as [[hv|e|p] s1]; exact Ho.
  Qed.

  Lemma ro_run_consistent f0 lf ops : forall hd s,
    consistent f0 s -> consistent f0 (snd (fst (ro_run lf (hd, s) ops))).
  Proof.
    induction ops as [|op ops IH]; intros hd s Hc; cbn [ReadOnly.ro_run fst snd]; [exact Hc|].
    pose proof (ro_step_consistent f0 lf hd s op Hc) as Hs.
    destruct (ro_step lf (hd, s) op) as [[hd1 s1] o]. cbn [fst snd] in Hs.
    pose proof (IH hd1 s1 Hs) as Hr. destruct (ro_run lf (hd1, s1) ops) as [[hd2 s2] outs]. exact Hr.
  Qed.

  (* in every session, with or without trigger, the final bytes are the initial bytes with the
     recorded writes applied: an empty trace means untouched bytes *)
  Theorem ro_session_trace_explains lf file ops :
    let s := snd (ro_session lf file ops) in fs_bytes s = apply_trace file (fs_trace s).
  Proof.
    cbn zeta. unfold ReadOnly.ro_session, ReadOnly.open_ro.
    assert (H0 : consistent file (mkFS file [])) by reflexivity.
    pose proof (open_ro_on_consistent file lf (mkFS file []) H0) as Ho.
    destruct (open_ro_on lf (mkFS file [])) as [[hd|e|p] s]; cbn [snd] in Ho; [|exact Ho|exact Ho].
    pose proof (ro_run_consistent file lf ops hd s Ho) as Hr.
    destruct (ro_run lf (hd, s) ops) as [[hd2 s2] outs]. exact Hr.
  Qed.

  (* ================================================================ D. what the handle shows *)
  Lemma align_toc hd s : hd_toc (snd (fst (align_footer hd s))) = hd_toc hd /\
                         hd_generation (snd (fst (align_footer hd s))) = hd_generation hd.
  Proof.
    unfold ReadOnly.align_footer. destruct (hd_read_only hd); [split; reflexivity|]. destruct (_ <=? _); [split; reflexivity|].
    destruct (toc_reencode (hd_toc hd)). cbn. split; reflexivity.
  Qed.

  Lemma materialize_toc segs : forall fl dl hd s,
    hd_toc (snd (fst (materialize segs fl dl hd s))) = hd_toc hd /\
    hd_generation (snd (fst (materialize segs fl dl hd s))) = hd_generation hd.
  Proof.
    induction segs as [|[off len] segs IH]; intros fl dl hd s; cbn [ReadOnly.materialize]; [split; reflexivity|].
    destruct (len =? 0); [apply IH|].
    destruct (2 ^ 64 <=? off + len); [split; reflexivity|].
    destruct ((fl <? off + len) || (dl <? off + len)); [|apply IH].
    pose proof (align_toc hd s) as [Ha Hg].
    destruct (align_footer hd s) as [[al hd1] s1]. cbn [fst snd] in Ha, Hg.
    destruct ((_ <? off + len) || (_ <? off + len)); cbn [fst snd].
    - split; assumption.
    - destruct (IH (if al then N.of_nat (length (fs_bytes s1)) else fl) (if al then h_footer_offset (hd_header hd1) else dl) hd1 s1) as [I1 I2].
      rewrite I1, I2. split; assumption.
  Qed.

  Lemma init_tantivy_toc hd s :
    hd_toc (fst (init_tantivy hd s)) = hd_toc hd /\ hd_generation (fst (init_tantivy hd s)) = hd_generation hd.
  Proof.
    unfold ReadOnly.init_tantivy. destruct (negb (hd_lex hd)); [split; reflexivity|].
    pose proof (materialize_toc (rt_segs (hd_toc hd)) (N.of_nat (length (fs_bytes s))) (h_footer_offset (hd_header hd)) hd s) as [M1 M2].
    destruct (materialize _ _ _ hd s) as [[r hd1] s1]. cbn [fst snd] in *. split; assumption.
  Qed.

  (* a successful read-only open shows the TOC of the tail snapshot: nothing of the log enters it *)
  Lemma open_ro_shows_tail lf file hd s :
    open_ro lf file = (Ok hd, s) ->
    exists t, load_tail_snapshot file = Ok t /\ hd_toc hd = t_toc t /\ hd_generation hd = t_generation t.
  Proof.
    unfold ReadOnly.open_ro, ReadOnly.open_ro_on, ReadOnly.open_ro_gen. cbn [fs_bytes].
    destruct (load_tail_snapshot file) as [t|e|p]; [|discriminate|discriminate].
    destruct (ro_header_read (mkFS file [])) as [rh s1].
    destruct rh as [h0|e|p]; [|discriminate|discriminate].
    destruct (negb lf); [discriminate|].
    destruct (ro_wal_open H (fs_bytes s1) _) as [w|e|p]; [|discriminate|discriminate].
    pose proof (init_tantivy_toc (mkHandle (with_footer h0 (t_footer_offset t) (rt_checksum (t_toc t))) (t_toc t) (t_footer_offset t) (t_generation t) w (rt_lex (t_toc t)) false true) s1) as [I1 I2].
    destruct (init_tantivy _ s1) as [hd1 s2]. cbn [fst] in I1, I2.
    intros E; inversion E; subst. exists t. repeat split; assumption.
  Qed.

  (* the file a commit leaves, with ANY bytes before the TOC (header, log region with any records
     pending or not, payloads, stale TOC images): a read-only open that succeeds shows exactly the
     frame table of that TOC and the commit's generation *)
  Theorem open_ro_commit_image lf pre tb g t hd s :
    tb <> [] -> N.of_nat (length tb) < 2 ^ 64 -> g < 2 ^ 64 -> length (H tb) = 32%nat ->
    N.of_nat (length tb + FOOTER_SIZE) <= maxw ->
    toc_decode tb = Some t ->
    open_ro lf (commit_image pre tb g) = (Ok hd, s) ->
    ro_view hd = rt_frames t /\ hd_generation hd = g.
  Proof.
    intros Htb Hlen Hg Hh Hw Hdec Hopen.
    apply open_ro_shows_tail in Hopen as (t' & Ht & Htoc & Hgen).
    destruct (locate_commit_image H maxw pre tb g Htb Hlen Hg Hh Hw) as (adj & fo & to & Hloc & _).
    unfold ReadOnly.load_tail_snapshot in Ht. rewrite Hloc in Ht. cbn [fs_toc_bytes] in Ht. rewrite Hdec in Ht.
    inversion Ht; subst t'. cbn [t_toc t_generation fs_footer generation] in *.
    unfold ro_view. rewrite Htoc, Hgen. split; reflexivity.
  Qed.

  (* writes that stay in front of the TOC (log appends, the sentinel, payload bytes) keep the image *)
  Lemma pwrite_commit_image pre tb g off d :
    (off + length d <= length pre)%nat ->
    pwrite (commit_image pre tb g) off d = commit_image (pwrite pre off d) tb g.
  Proof. intros Hle. unfold ReadOnly.commit_image. apply pwrite_inside_prefix. exact Hle. Qed.
End ROProofs.
