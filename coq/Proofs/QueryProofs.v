(* Proofs about Model/Query.v: totality of lexer and parser with the stated fuel, stack
   depth bounds, evaluator vs reference semantics, printer
   round trip. *)
From MV Require Import Base.Prelude Base.Facts Model.Query.
From MV Require Gen.Consts.
Require Import ZifyBool ZifyNat ZifyN.

Definition no_panic {A} (o : outcome A) : Prop :=
  match o with Panic _ => False | _ => True end.

Lemma str_eqb_eq' a b : str_eqb a b = true <-> a = b.
Proof. apply list_eqb_spec. intros; apply N.eqb_eq. Qed.

(* ================================================================ lexer *)
Lemma span_word_app s w r : span_word s = (w, r) -> s = w ++ r.
Proof.
  revert w r; induction s as [|c s IH]; intros w r H; cbn [span_word] in H.
  - inversion H; reflexivity.
  - destruct (is_break c).
    + inversion H; reflexivity.
    + destruct (span_word s) as [w' t] eqn:E. inversion H; subst. cbn [app]. f_equal. apply IH; reflexivity.
Qed.

Lemma span_word_length s w r : span_word s = (w, r) -> length r <= length s.
Proof. intros H. apply span_word_app in H. subst. rewrite app_length. lia. Qed.

Lemma read_until_app q s v t : read_until q s = Some (v, t) -> s = v ++ q :: t.
Proof.
  revert v t; induction s as [|c s IH]; intros v t H; cbn [read_until] in H; [discriminate|].
  destruct (N.eqb_spec c q) as [->|Hne].
  - inversion H; reflexivity.
  - destruct (read_until q s) as [[v' t']|] eqn:E; [|discriminate].
    inversion H; subst. cbn [app]. f_equal. apply IH; reflexivity.
Qed.

Lemma read_until_length q s v t : read_until q s = Some (v, t) -> length t < length s.
Proof. intros H. apply read_until_app in H. subst. rewrite app_length. cbn [length]. lia. Qed.

Lemma read_date_range_length s a b t : read_date_range s = Ok (a, b, t) -> length t < length s.
Proof.
  unfold read_date_range. destruct (read_until c_rbrack s) as [[c r]|] eqn:E; [|discriminate].
  apply read_until_length in E.
  destruct (split_ws c) as [|x [|y [|z [|? ?]]]]; try discriminate.
  destruct (str_eqb (lower y) s_to); [|discriminate]. intros H; inversion H; subst; assumption.
Qed.

Lemma read_date_range_no_panic s : no_panic (read_date_range s).
Proof.
  unfold read_date_range. destruct (read_until c_rbrack s) as [[c r]|]; [|exact I].
  destruct (split_ws c) as [|x [|y [|z [|? ?]]]]; try exact I.
  destruct (str_eqb (lower y) s_to); exact I.
Qed.

Lemma read_field_length f s tok rest : read_field f s = Ok (tok, rest) -> length rest <= length s.
Proof.
  unfold read_field. destruct s as [|c r]; [intros H; inversion H; cbn; lia|].
  destruct (c =? c_quote)%N.
  - destruct (read_until c_quote r) as [[v t]|] eqn:E; [|discriminate].
    apply read_until_length in E. intros H; inversion H; subst. cbn [length]. lia.
  - destruct ((c =? c_lbrack)%N && str_eqb f s_date).
    + destruct (read_date_range r) as [[[a b] t]|k|k] eqn:E; try discriminate.
      apply read_date_range_length in E. intros H; inversion H; subst. cbn [length]. lia.
    + destruct (span_word (c :: r)) as [v t] eqn:E. apply span_word_length in E.
      intros H; inversion H; subst. exact E.
Qed.

Lemma read_field_no_panic f s : no_panic (read_field f s).
Proof.
  unfold read_field. destruct s as [|c r]; [exact I|].
  destruct (c =? c_quote)%N.
  - destruct (read_until c_quote r) as [[v t]|]; exact I.
  - destruct ((c =? c_lbrack)%N && str_eqb f s_date).
    + pose proof (read_date_range_no_panic r) as Hn.
      destruct (read_date_range r) as [[[a b] t]|k|k]; try exact I. exact Hn.
    + destruct (span_word (c :: r)); exact I.
Qed.

Lemma lex_step_length c r tok rest : lex_step c r = Ok (tok, rest) -> length rest <= length r.
Proof.
  unfold lex_step.
  destruct (is_ws c) eqn:Hws; [intros H; inversion H; lia|].
  destruct (c =? c_lparen)%N eqn:Hlp; [intros H; inversion H; lia|].
  destruct (c =? c_rparen)%N eqn:Hrp; [intros H; inversion H; lia|].
  destruct (c =? c_quote)%N.
  - destruct (read_until c_quote r) as [[v t]|] eqn:E; [|discriminate].
    apply read_until_length in E. intros H; inversion H; subst. lia.
  - unfold read_field_or_word. cbn [span_word].
    assert (Hb : is_break c = false) by (unfold is_break; rewrite Hws, Hlp, Hrp; reflexivity).
    rewrite Hb. destruct (span_word r) as [w t] eqn:E.
    pose proof (span_word_app _ _ _ E) as Happ. apply span_word_length in E.
    assert (Hplain : forall tok rest, Ok (Some (word_token (c :: w)), t) = Ok (tok, rest) -> length rest <= length r).
    { intros ? ? H; inversion H; subst; exact E. }
    destruct (read_until c_colon (c :: w)) as [[pre post]|] eqn:Ec; [|apply Hplain].
    destruct (known_field (lower pre)); [|apply Hplain].
    intros H. apply read_field_length in H. apply read_until_length in Ec.
    rewrite app_length in H. cbn [length] in Ec.
    rewrite Happ, app_length. lia.
Qed.

Lemma lex_step_no_panic c r : no_panic (lex_step c r).
Proof.
  unfold lex_step.
  destruct (is_ws c); [exact I|]. destruct (c =? c_lparen)%N; [exact I|].
  destruct (c =? c_rparen)%N; [exact I|].
  destruct (c =? c_quote)%N.
  - destruct (read_until c_quote r) as [[v t]|]; exact I.
  - unfold read_field_or_word. destruct (span_word (c :: r)) as [w t].
    assert (Hplain : no_panic (match w with [] => Ok (None, t) | _ :: _ => Ok (Some (word_token w), t) end)).
    { destruct w; exact I. }
    destruct (read_until c_colon w) as [[pre post]|]; [|exact Hplain].
    destruct (known_field (lower pre)); [|exact Hplain]. apply read_field_no_panic.
Qed.

(* (a), lexer half: with fuel = length of the text the lexer never runs out of fuel *)
Lemma tokenize_no_panic fuel s : length s <= fuel -> no_panic (tokenize fuel s).
Proof.
  revert s; induction fuel as [|f IH]; intros s Hl.
  - destruct s; [exact I | cbn [length] in Hl; lia].
  - destruct s as [|c r]; [exact I|]. cbn [tokenize].
    pose proof (lex_step_no_panic c r) as Hn.
    destruct (lex_step c r) as [[tok rest]|k|k] eqn:E; [|exact I|exact Hn].
    apply lex_step_length in E. cbn [length] in Hl.
    assert (Hf : length rest <= f) by lia. specialize (IH rest Hf).
    destruct (tokenize f rest); [exact I | exact I | exact IH].
Qed.

(* the number of tokens never exceeds the number of code points *)
Lemma tokenize_length fuel s ts : tokenize fuel s = Ok ts -> length ts <= length s.
Proof.
  revert s ts; induction fuel as [|f IH]; intros s ts H.
  - destruct s; cbn [tokenize] in H; [inversion H; cbn; lia | discriminate].
  - destruct s as [|c r]; cbn [tokenize] in H; [inversion H; cbn; lia|].
    destruct (lex_step c r) as [[tok rest]|k|k] eqn:E; try discriminate.
    apply lex_step_length in E.
    destruct (tokenize f rest) as [ts'|k|k] eqn:E2; try discriminate.
    apply IH in E2. inversion H; subst. cbn [length]. destruct tok; cbn [length]; lia.
Qed.

(* ================================================================ parser *)
(* stack weight of a token list: 4 frames per LParen, 1 per Not *)
Fixpoint wt (ts : list token) : nat :=
  match ts with
  | [] => 0
  | TkLParen :: r => 4 + wt r
  | TkNot :: r => 1 + wt r
  | _ :: r => wt r
  end.

Lemma wt_counts ts : wt ts = 4 * count_tok is_lparen ts + count_tok is_not ts.
Proof.
  unfold count_tok. induction ts as [|t r IH]; [reflexivity|].
  destruct t; cbn [wt filter is_lparen is_not length]; lia.
Qed.

(* the model's limit is the constant in src/search/parser.rs now (Gen/Consts.v is regenerated each run) *)
Lemma max_query_depth_tied : N.of_nat MAX_QUERY_DEPTH = MV.Gen.Consts.MAX_QUERY_DEPTH.
Proof. reflexivity. Qed.

Section Parser.
  Variable alnum : N -> bool.
  Variable parse_date : str -> option Z.

  Notation parse_expression := (parse_expression alnum parse_date).
  Notation expr_loop := (expr_loop alnum parse_date).
  Notation parse_term := (parse_term alnum parse_date).
  Notation term_loop := (term_loop alnum parse_date).
  Notation parse_factor := (parse_factor alnum parse_date).
  Notation parse_primary := (parse_primary alnum parse_date).

  (* unfolding equations (the mutual fixpoint does not refold under cbn) *)
  Lemma parse_expression_S f dep ts : parse_expression (S f) dep ts =
    match parse_term f dep ts with
    | (Ok (e, r), d) => let (res, d') := expr_loop f dep e r in (res, S (Nat.max d d'))
    | (Err k, d) => (Err k, S d)
    | (Panic k, d) => (Panic k, S d)
    end.
  Proof. reflexivity. Qed.
  Lemma expr_loop_S f dep e ts : expr_loop (S f) dep e ts =
    match ts with
    | TkOr :: r =>
        match parse_term f dep r with
        | (Ok (rhs, r'), d) => let (res, d') := expr_loop f dep (push_or e rhs) r' in (res, Nat.max d d')
        | (Err k, d) => (Err k, d)
        | (Panic k, d) => (Panic k, d)
        end
    | _ => (Ok (e, ts), 0)
    end.
  Proof. reflexivity. Qed.
  Lemma parse_term_S f dep ts : parse_term (S f) dep ts =
    match parse_factor f dep ts with
    | (Ok (e, r), d) => let (res, d') := term_loop f dep e r in (res, S (Nat.max d d'))
    | (Err k, d) => (Err k, S d)
    | (Panic k, d) => (Panic k, S d)
    end.
  Proof. reflexivity. Qed.
  Definition term_loop_more f dep e ts : presult :=
    match parse_factor f dep ts with
    | (Ok (rhs, r'), d) => let (res, d') := term_loop f dep (push_and e rhs) r' in (res, Nat.max d d')
    | (Err k, d) => (Err k, d)
    | (Panic k, d) => (Panic k, d)
    end.
  Lemma term_loop_S f dep e ts : term_loop (S f) dep e ts =
    match ts with
    | TkAnd :: r => term_loop_more f dep e r
    | TkOr :: _ => (Ok (e, ts), 0)
    | TkRParen :: _ => (Ok (e, ts), 0)
    | [] => (Ok (e, ts), 0)
    | _ => term_loop_more f dep e ts
    end.
  Proof. destruct ts as [|[] r]; reflexivity. Qed.
  Lemma parse_factor_S f dep ts : parse_factor (S f) dep ts =
    match ts with
    | TkNot :: r =>
        if enter_fails dep then (Err E_TOO_DEEP, 1)
        else
        match parse_factor f (S dep) r with
        | (Ok (inner, r'), d) => (Ok (ENot inner, r'), S d)
        | (Err k, d) => (Err k, S d)
        | (Panic k, d) => (Panic k, S d)
        end
    | _ => let (res, d) := parse_primary f dep ts in (res, S d)
    end.
  Proof. reflexivity. Qed.
  Lemma parse_primary_S f dep ts : parse_primary (S f) dep ts =
    match ts with
    | TkLParen :: r =>
        if enter_fails dep then (Err E_TOO_DEEP, 1)
        else
        match parse_expression f (S dep) r with
        | (Ok (e, r'), d) =>
            match r' with
            | TkRParen :: r'' => (Ok (e, r''), S d)
            | _ => (Err E_EXPECTED_RPAREN, S d)
            end
        | (Err k, d) => (Err k, S d)
        | (Panic k, d) => (Panic k, S d)
        end
    | TkWord w :: r => (Ok (ETerm (from_word alnum w), r), 1)
    | TkPhrase p :: r => (Ok (ETerm (TPhrase (lower p)), r), 1)
    | TkField fld v :: r =>
        match from_pair fld v with
        | Ok t => (Ok (ETerm t, r), 1)
        | Err k => (Err k, 1)
        | Panic k => (Panic k, 1)
        end
    | TkDate fld a b :: r =>
        match from_date_range parse_date fld a b with
        | Ok t => (Ok (ETerm t, r), 1)
        | Err k => (Err k, 1)
        | Panic k => (Panic k, 1)
        end
    | _ :: _ => (Err E_UNEXPECTED_TOKEN, 1)
    | [] => (Err E_UNEXPECTED_END, 1)
    end.
  Proof. reflexivity. Qed.

  Lemma from_pair_no_panic f v : no_panic (from_pair f v).
  Proof. unfold from_pair. repeat match goal with |- no_panic (if ?c then _ else _) => destruct c end; exact I. Qed.
  Lemma from_date_range_no_panic f a b : no_panic (from_date_range parse_date f a b).
  Proof. unfold from_date_range. destruct (negb (str_eqb f s_date)); exact I. Qed.

  Lemma enter_fails_spec dep : enter_fails dep = false -> S dep <= MAX_QUERY_DEPTH.
  Proof. unfold enter_fails. intros H. apply Nat.ltb_ge in H. exact H. Qed.

  (* one invariant for the six functions: enough fuel => no Panic; two depth bounds (by the
     tokens, and by the depth limit); the rest returned is shorter (strictly for the four
     Rust functions) and not heavier *)
  Definition inv (need off : nat) (strict : bool) (fuel dep : nat) (ts : list token) (res : presult) : Prop :=
    (4 * length ts + need <= fuel -> no_panic (fst res)) /\
    (snd res <= wt ts + off /\ snd res <= 4 * (MAX_QUERY_DEPTH - dep) + off) /\
    match fst res with
    | Ok (_, rest) => (if strict then length rest < length ts else length rest <= length ts) /\ wt rest <= wt ts
    | _ => True
    end.

  Ltac use_fuel :=
    repeat match goal with
      | H : ?a <= ?b -> _ |- _ =>
          let X := fresh in
          first [ assert (X : a <= b) by (cbn [length wt] in *; lia); specialize (H X); clear X
                | clear H ]
      end.

  Ltac fin := cbn [fst snd no_panic length wt] in *; use_fuel;
              cbn [fst snd no_panic length wt] in *;
              repeat match goal with H : _ /\ _ |- _ => destruct H end;
              repeat split; try exact I; try tauto; try lia.

  Ltac done3 := solve [split; [intros Hf; fin|]; fin].

  Lemma term_loop_more_inv f dep
    (IHTL : forall dep e ts, inv 3 2 false f dep ts (term_loop f dep e ts))
    (IHF : forall dep ts, inv 2 2 true f dep ts (parse_factor f dep ts)) e ts :
    let res := term_loop_more f dep e ts in
    (4 * length ts + 2 <= f -> no_panic (fst res)) /\
    (snd res <= wt ts + 2 /\ snd res <= 4 * (MAX_QUERY_DEPTH - dep) + 2) /\
    match fst res with
    | Ok (_, rest) => length rest < length ts /\ wt rest <= wt ts
    | _ => True
    end.
  Proof.
    cbn zeta. unfold term_loop_more.
    pose proof (IHF dep ts) as HF. unfold inv in HF.
    destruct (parse_factor f dep ts) as [[[rhs r']|k|k] d]; cbn [fst snd] in HF; [|done3|done3].
    pose proof (IHTL dep (push_and e rhs) r') as HL. unfold inv in HL.
    destruct (term_loop f dep (push_and e rhs) r') as [[[e' r'']|k|k] d']; cbn [fst snd] in HL |- *; done3.
  Qed.

  Lemma parser_inv : forall fuel,
    (forall dep ts, inv 4 4 true fuel dep ts (parse_expression fuel dep ts)) /\
    (forall dep e ts, inv 1 3 false fuel dep ts (expr_loop fuel dep e ts)) /\
    (forall dep ts, inv 3 3 true fuel dep ts (parse_term fuel dep ts)) /\
    (forall dep e ts, inv 3 2 false fuel dep ts (term_loop fuel dep e ts)) /\
    (forall dep ts, inv 2 2 true fuel dep ts (parse_factor fuel dep ts)) /\
    (forall dep ts, inv 1 1 true fuel dep ts (parse_primary fuel dep ts)).
  Proof.
    induction fuel as [|f IH].
    - repeat split; intros; cbn in *; try lia; try exact I.
    - destruct IH as (IHE & IHEL & IHT & IHTL & IHF & IHP).
      split; [|split; [|split; [|split; [|split]]]].
      + (* parse_expression *)
        intros dep ts. rewrite parse_expression_S.
        pose proof (IHT dep ts) as HT. unfold inv in HT |- *.
        destruct (parse_term f dep ts) as [[[e r]|k|k] d]; cbn [fst snd] in HT; [|done3|done3].
        pose proof (IHEL dep e r) as HL. unfold inv in HL.
        destruct (expr_loop f dep e r) as [[[e' r']|k|k] d']; cbn [fst snd] in HL |- *; done3.
      + (* expr_loop *)
        intros dep e ts. rewrite expr_loop_S. unfold inv.
        destruct ts as [|[] r]; try done3.
        pose proof (IHT dep r) as HT. unfold inv in HT.
        destruct (parse_term f dep r) as [[[rhs r']|k|k] d]; cbn [fst snd] in HT; [|done3|done3].
        pose proof (IHEL dep (push_or e rhs) r') as HL. unfold inv in HL.
        destruct (expr_loop f dep (push_or e rhs) r') as [[[e' r'']|k|k] d']; cbn [fst snd] in HL |- *; done3.
      + (* parse_term *)
        intros dep ts. rewrite parse_term_S.
        pose proof (IHF dep ts) as HF. unfold inv in HF |- *.
        destruct (parse_factor f dep ts) as [[[e r]|k|k] d]; cbn [fst snd] in HF; [|done3|done3].
        pose proof (IHTL dep e r) as HL. unfold inv in HL.
        destruct (term_loop f dep e r) as [[[e' r']|k|k] d']; cbn [fst snd] in HL |- *; done3.
      + (* term_loop *)
        intros dep e ts. rewrite term_loop_S. unfold inv.
        destruct ts as [|t r]; [done3|].
        pose proof (term_loop_more_inv f dep IHTL IHF e (t :: r)) as Himp.
        pose proof (term_loop_more_inv f dep IHTL IHF e r) as Hand.
        cbn zeta in Himp, Hand.
        destruct t; try done3.
        all: try (destruct (term_loop_more f dep e (_ :: r)) as [[[e' r']|k|k] d']; done3).
        destruct (term_loop_more f dep e r) as [[[e' r']|k|k] d']; done3.
      + (* parse_factor *)
        intros dep ts. rewrite parse_factor_S. unfold inv.
        assert (Hprim : let res := (let (res, d) := parse_primary f dep ts in (res, S d)) in
          (4 * length ts + 2 <= S f -> no_panic (fst res)) /\
          (snd res <= wt ts + 2 /\ snd res <= 4 * (MAX_QUERY_DEPTH - dep) + 2) /\
          match fst res with
          | Ok (_, rest) => length rest < length ts /\ wt rest <= wt ts
          | _ => True
          end).
        { cbn zeta. pose proof (IHP dep ts) as HP. unfold inv in HP.
          destruct (parse_primary f dep ts) as [[[e r]|k|k] d]; cbn [fst snd] in HP |- *; done3. }
        destruct ts as [|t r]; [exact Hprim|].
        destruct t; try exact Hprim.
        destruct (enter_fails dep) eqn:Hen; [done3|]. apply enter_fails_spec in Hen.
        pose proof (IHF (S dep) r) as HF. unfold inv in HF.
        destruct (parse_factor f (S dep) r) as [[[inner r']|k|k] d]; cbn [fst snd] in HF |- *; done3.
      + (* parse_primary *)
        intros dep ts. rewrite parse_primary_S. unfold inv.
        destruct ts as [|t r]; [done3|].
        destruct t; try done3.
        * pose proof (from_pair_no_panic f0 v) as Hn.
          destruct (from_pair f0 v) as [t|k|k]; first [done3 | destruct Hn].
        * pose proof (from_date_range_no_panic f0 a b) as Hn.
          destruct (from_date_range parse_date f0 a b) as [t|k|k]; first [done3 | destruct Hn].
        * destruct (enter_fails dep) eqn:Hen; [done3|]. apply enter_fails_spec in Hen.
          pose proof (IHE (S dep) r) as HE. unfold inv in HE.
          destruct (parse_expression f (S dep) r) as [[[e r']|k|k] d]; cbn [fst snd] in HE; [|done3|done3].
          destruct r' as [|t' r'']; [done3|].
          destruct t'; done3.
  Qed.

  (* ---- (a) totality of the whole pipeline ---- *)
  Lemma parse_expression_no_panic ts : no_panic (fst (parse_expression (parser_fuel ts) 0 ts)).
  Proof.
    destruct (parser_inv (parser_fuel ts)) as (HE & _). destruct (HE 0 ts) as (Hn & _).
    apply Hn. unfold parser_fuel. lia.
  Qed.

  Theorem parse_query_total q : no_panic (fst (parse_query alnum parse_date q)).
  Proof.
    unfold parse_query.
    pose proof (tokenize_no_panic (length q) q (le_n _)) as Hl.
    destruct (tokenize (length q) q) as [ts|k|k]; [|exact I|exact Hl].
    pose proof (parse_expression_no_panic ts) as Hp.
    destruct (parse_expression (parser_fuel ts) 0 ts) as [[[e r]|k|k] d]; cbn [fst] in *; [exact I|exact I|exact Hp].
  Qed.

  (* the fuel handed to the parser is linear in the length of the text *)
  Lemma parser_fuel_linear q ts : tokenize (length q) q = Ok ts -> parser_fuel ts <= 4 * length q + 4.
  Proof. intros H. apply tokenize_length in H. unfold parser_fuel. lia. Qed.

  (* ---- stack depth ---- *)
  Lemma parse_expression_depth fuel dep ts :
    snd (parse_expression fuel dep ts) <= wt ts + 4 /\
    snd (parse_expression fuel dep ts) <= 4 * (MAX_QUERY_DEPTH - dep) + 4.
  Proof. destruct (parser_inv fuel) as (HE & _). destruct (HE dep ts) as (_ & Hd & _). exact Hd. Qed.

  Theorem parse_query_depth q : snd (parse_query alnum parse_date q) <= 4 * nest_weight q + 4.
  Proof.
    unfold parse_query, nest_weight.
    destruct (tokenize (length q) q) as [ts|k|k]; cbn [snd]; try lia.
    destruct (parse_expression_depth (parser_fuel ts) 0 ts) as [Hd _]. rewrite wt_counts in Hd.
    destruct (parse_expression (parser_fuel ts) 0 ts) as [[[e r]|k|k] d]; cbn [snd] in *; lia.
  Qed.

  (* the depth limit bounds the stack for every text *)
  Theorem parse_query_depth_limit q : snd (parse_query alnum parse_date q) <= 4 * MAX_QUERY_DEPTH + 4.
  Proof.
    unfold parse_query.
    destruct (tokenize (length q) q) as [ts|k|k]; cbn [snd]; try lia.
    destruct (parse_expression_depth (parser_fuel ts) 0 ts) as [_ Hd].
    destruct (parse_expression (parser_fuel ts) 0 ts) as [[[e r]|k|k] d]; cbn [snd] in *; lia.
  Qed.

  Theorem parse_query_total_bounded q :
    no_panic (fst (parse_query alnum parse_date q)) /\
    snd (parse_query alnum parse_date q) <= 4 * MAX_QUERY_DEPTH + 4.
  Proof. split; [apply parse_query_total | apply parse_query_depth_limit]. Qed.
End Parser.

(* the text: n times ( then the word x then n times ) -- used by the boundary examples *)
Definition nested_query (n : nat) : str := repeat c_lparen n ++ 120%N :: repeat c_rparen n.

(* ================================================================ printing tokens as text *)
Definition nobreak (s : str) : bool := forallb (fun c => negb (is_break c)) s.
Definition lacks (q : N) (s : str) : bool := forallb (fun c => negb (c =? q)%N) s.
Definition TEXT_FIELDS : list str := [s_uri; s_scope; s_track; s_tag; s_label].

(* tokens whose text (token_text) the lexer reads back as the same token *)
Definition lex_ok (t : token) : bool :=
  match t with
  | TkWord w => negb (is_nil w) && nobreak w && lacks c_colon w && lacks c_quote w &&
                match word_token w with TkWord _ => true | _ => false end
  | TkPhrase p => lacks c_quote p
  | TkField f v => existsb (str_eqb f) TEXT_FIELDS && lacks c_quote v
  | TkDate _ _ _ => false
  | _ => true
  end.

Lemma span_word_prefix p Y : nobreak p = true ->
  span_word (p ++ Y) = let (w, t) := span_word Y in (p ++ w, t).
Proof.
  induction p as [|c p IH]; intros H; cbn [app].
  - destruct (span_word Y); reflexivity.
  - cbn [nobreak forallb] in H. apply andb_true_iff in H as [Hc Hp]. apply negb_true_iff in Hc.
    cbn [span_word]. rewrite Hc, (IH Hp). destruct (span_word Y); reflexivity.
Qed.

Lemma span_word_space rest : span_word (32%N :: rest) = ([], 32%N :: rest).
Proof. reflexivity. Qed.

Lemma read_until_found q v t : lacks q v = true -> read_until q (v ++ q :: t) = Some (v, t).
Proof.
  induction v as [|c v IH]; intros H; cbn [app read_until].
  - rewrite N.eqb_refl. reflexivity.
  - cbn [lacks forallb] in H. apply andb_true_iff in H as [Hc Hv]. apply negb_true_iff in Hc.
    rewrite Hc, (IH Hv). reflexivity.
Qed.

Lemma read_until_none q v : lacks q v = true -> read_until q v = None.
Proof.
  induction v as [|c v IH]; intros H; cbn [read_until]; [reflexivity|].
  cbn [lacks forallb] in H. apply andb_true_iff in H as [Hc Hv]. apply negb_true_iff in Hc.
  rewrite Hc, (IH Hv). reflexivity.
Qed.

Lemma not_break_parts c : is_break c = false ->
  is_ws c = false /\ (c =? c_lparen)%N = false /\ (c =? c_rparen)%N = false.
Proof. unfold is_break. rewrite !orb_false_iff. tauto. Qed.

Lemma word_token_word w : match word_token w with TkWord _ => true | _ => false end = true -> word_token w = TkWord w.
Proof.
  unfold word_token.
  destruct (str_eqb w s_AND || str_eqb w s_and); [discriminate|].
  destruct (str_eqb w s_OR || str_eqb w s_or); [discriminate|].
  destruct (str_eqb w s_NOT || str_eqb w s_not); [discriminate|]. reflexivity.
Qed.

(* a lower-case known field name followed by :"value" *)
Lemma lex_field f v rest c f' :
  f = c :: f' -> nobreak (f ++ [c_colon; c_quote]) = true -> lacks c_colon f = true -> lacks c_quote f = true ->
  known_field (lower f) = true -> lower f = f -> lacks c_quote v = true ->
  lex_step c (f' ++ c_colon :: c_quote :: v ++ c_quote :: 32%N :: rest) = Ok (Some (TkField f v), 32%N :: rest).
Proof.
  intros Hf Hnb Hnc Hnq Hk Hl Hv.
  assert (Hc : is_break c = false /\ (c =? c_quote)%N = false).
  { subst f. cbn [app nobreak forallb lacks] in Hnb, Hnq.
    apply andb_true_iff in Hnb as [Hb _]. apply andb_true_iff in Hnq as [Hq _].
    apply negb_true_iff in Hb, Hq. auto. }
  destruct Hc as [Hb Hq]. destruct (not_break_parts c Hb) as (Hws & Hlp & Hrp).
  unfold lex_step. rewrite Hws, Hlp, Hrp, Hq. unfold read_field_or_word.
  set (Y := v ++ c_quote :: 32%N :: rest).
  assert (Htxt : c :: f' ++ c_colon :: c_quote :: Y = (f ++ [c_colon; c_quote]) ++ Y).
  { subst f. cbn [app]. rewrite <- app_assoc. reflexivity. }
  rewrite Htxt, (span_word_prefix _ Y Hnb).
  destruct (span_word Y) as [w t] eqn:EY. apply span_word_app in EY.
  rewrite <- app_assoc. cbn [app].
  rewrite (read_until_found c_colon f (c_quote :: w) Hnc).
  rewrite Hk, Hl. cbn [app read_field]. rewrite N.eqb_refl.
  rewrite <- EY. unfold Y. rewrite (read_until_found c_quote v _ Hv). reflexivity.
Qed.

Lemma lex_field_token f v rest c f' :
  f = c :: f' -> nobreak (f ++ [c_colon; c_quote]) = true -> lacks c_colon f = true -> lacks c_quote f = true ->
  known_field (lower f) = true -> lower f = f -> lacks c_quote v = true ->
  exists c0 r0, token_text (TkField f v) ++ 32%N :: rest = c0 :: r0 /\ lex_step c0 r0 = Ok (Some (TkField f v), 32%N :: rest).
Proof.
  intros Hf Hnb Hnc Hnq Hk Hl Hv.
  exists c, (f' ++ c_colon :: c_quote :: v ++ c_quote :: 32%N :: rest). split.
  - cbn [token_text]. rewrite Hf. cbn [app]. f_equal. rewrite <- app_assoc. cbn [app]. do 3 f_equal.
    rewrite <- app_assoc. reflexivity.
  - apply (lex_field f v rest c f'); assumption.
Qed.

Lemma lex_token t rest : lex_ok t = true ->
  exists c r0, token_text t ++ 32%N :: rest = c :: r0 /\ lex_step c r0 = Ok (Some t, 32%N :: rest).
Proof.
  destruct t as [w|p|f v|f a b| | | | | ]; cbn [lex_ok token_text]; intros H; try discriminate.
  - (* word *)
    repeat (apply andb_true_iff in H as [H ?]).
    destruct w as [|c w']; [discriminate|].
    match goal with Hw : match word_token _ with _ => _ end = true |- _ => apply word_token_word in Hw; rename Hw into Hwt end.
    match goal with Hn : nobreak _ = true |- _ => rename Hn into Hnb end.
    match goal with Hn : lacks c_colon _ = true |- _ => rename Hn into Hnc end.
    match goal with Hn : lacks c_quote _ = true |- _ => rename Hn into Hnq end.
    exists c, (w' ++ 32%N :: rest). split; [reflexivity|].
    assert (Hb : is_break c = false).
    { cbn [nobreak forallb] in Hnb. apply andb_true_iff in Hnb as [Hb _]. apply negb_true_iff in Hb. exact Hb. }
    assert (Hq : (c =? c_quote)%N = false).
    { cbn [lacks forallb] in Hnq. apply andb_true_iff in Hnq as [Hq _]. apply negb_true_iff in Hq. exact Hq. }
    destruct (not_break_parts c Hb) as (Hws & Hlp & Hrp).
    unfold lex_step. rewrite Hws, Hlp, Hrp, Hq. unfold read_field_or_word.
    change (c :: w' ++ 32%N :: rest) with ((c :: w') ++ 32%N :: rest).
    rewrite (span_word_prefix _ _ Hnb), span_word_space, app_nil_r.
    rewrite (read_until_none _ _ Hnc), Hwt. reflexivity.
  - (* phrase *)
    exists c_quote, (p ++ c_quote :: 32%N :: rest). split; [cbn [app]; rewrite <- app_assoc; reflexivity|].
    change (lex_step c_quote (p ++ c_quote :: 32%N :: rest))
      with (match read_until c_quote (p ++ c_quote :: 32%N :: rest) with
            | Some (v, t) => Ok (Some (TkPhrase v), t)
            | None => Err E_UNTERMINATED_QUOTE
            end : outcome (option token * str)).
    rewrite (read_until_found _ _ _ H). reflexivity.
  - (* field *)
    apply andb_true_iff in H as [Hf Hv].
    cbn [TEXT_FIELDS existsb] in Hf. rewrite !orb_true_iff in Hf.
    destruct Hf as [Hf|[Hf|[Hf|[Hf|[Hf|Hf]]]]]; try discriminate; apply str_eqb_eq' in Hf; subst f;
      (eapply lex_field_token; [reflexivity| reflexivity | reflexivity | reflexivity | reflexivity | reflexivity | exact Hv]).
  - exists c_lparen, (32%N :: rest). split; reflexivity.
  - exists c_rparen, (32%N :: rest). split; reflexivity.
  - eexists _, _. split; reflexivity.
  - eexists _, _. split; reflexivity.
  - eexists _, _. split; reflexivity.
Qed.

Lemma token_text_nonempty t : lex_ok t = true -> 1 <= length (token_text t).
Proof.
  destruct t as [w|p|f v|f a b| | | | | ]; cbn [lex_ok token_text]; intros H; try discriminate; try (cbn; lia).
  - destruct w; [discriminate | cbn [length]; lia].
  - rewrite app_length. cbn [length]. lia.
Qed.

(* the lexer reads the printed text back as the printed tokens *)
Theorem tokenize_tokens_text ts : forallb lex_ok ts = true ->
  forall fuel, length (tokens_text ts) <= fuel -> tokenize fuel (tokens_text ts) = Ok ts.
Proof.
  induction ts as [|t ts IH]; intros Hok fuel Hf.
  - destruct fuel; reflexivity.
  - cbn [forallb] in Hok. apply andb_true_iff in Hok as [Ht Hts].
    cbn [tokens_text] in *.
    destruct (lex_token t (tokens_text ts) Ht) as (c & r0 & Htxt & Hstep).
    pose proof (token_text_nonempty t Ht) as Hne.
    rewrite app_length in Hf. cbn [length] in Hf.
    rewrite Htxt. destruct fuel as [|[|f]]; try lia.
    cbn [tokenize]. rewrite Hstep.
    change (lex_step 32%N (tokens_text ts)) with (Ok (None, tokens_text ts) : outcome (option token * str)).
    cbv beta iota.
    rewrite (IH Hts) by lia. reflexivity.
Qed.

(* ================================================================ semantics *)
Lemma expr_ind' (P : expr -> Prop) :
  (forall l, Forall P l -> P (EOr l)) -> (forall l, Forall P l -> P (EAnd l)) ->
  (forall c, P c -> P (ENot c)) -> (forall t, P (ETerm t)) -> forall e, P e.
Proof.
  intros HO HA HN HT. fix IH 1. intros [l|l|c|t].
  - apply HO. induction l as [|x l IHl]; constructor; [apply IH | exact IHl].
  - apply HA. induction l as [|x l IHl]; constructor; [apply IH | exact IHl].
  - apply HN, IH.
  - apply HT.
Qed.

(* nesting (parentheses and NOTs) that the printed form of e needs at level lvl; mirrors pr *)
Fixpoint nd (lvl : nat) (e : expr) {struct e} : nat :=
  match e with
  | EOr l => let m := list_max (map (nd 1) l) in match lvl with O => m | _ => S m end
  | EAnd l => let m := list_max (map (nd 2) l) in match lvl with O | 1 => m | _ => S m end
  | ENot c => S (nd 2 c)
  | ETerm _ => 0
  end.

Lemma list_max_in (f : expr -> nat) l c : In c l -> f c <= list_max (map f l).
Proof.
  intros H. pose proof (proj1 (list_max_le (map f l) (list_max (map f l))) (le_n _)) as Hall.
  rewrite Forall_forall in Hall. apply Hall, in_map, H.
Qed.

Section RoundTrip.
  Variable alnum : N -> bool.
  Variable parse_date : str -> option Z.
  Variable explicit : bool.

  Notation parse_expression := (parse_expression alnum parse_date).
  Notation expr_loop := (expr_loop alnum parse_date).
  Notation parse_term := (parse_term alnum parse_date).
  Notation term_loop := (term_loop alnum parse_date).
  Notation parse_factor := (parse_factor alnum parse_date).
  Notation parse_primary := (parse_primary alnum parse_date).
  Notation eval := (eval parse_date).
  Notation pr := (pr explicit).
  Notation MAXD := MAX_QUERY_DEPTH.

  (* a term whose token is turned back into the same term by parse_primary *)
  Definition prim_ok (t : term) : Prop :=
    match t with
    | TWord w => from_word alnum w = TWord w
    | TPhrase p => lower p = p
    | TWild raw => from_word alnum raw = TWild raw
    | TUri v | TScope v | TTrack v | TTag v | TLabel v => lower (trim_both (fun c => (c =? c_quote)%N) v) = v
    | TDate _ _ => False
    end.

  (* well-formed expressions: non-empty operand lists, printable terms *)
  Inductive wf : expr -> Prop :=
  | wf_or l : l <> [] -> Forall wf l -> wf (EOr l)
  | wf_and l : l <> [] -> Forall wf l -> wf (EAnd l)
  | wf_not c : wf c -> wf (ENot c)
  | wf_term t : prim_ok t -> wf (ETerm t).

  Lemma eval_push_and a b d : eval (push_and a b) d = eval a d && eval b d.
  Proof.
    destruct a as [l|l|c|t]; cbn [push_and Query.eval forallb]; try (rewrite andb_true_r; reflexivity).
    rewrite forallb_app. cbn [forallb]. rewrite andb_true_r. reflexivity.
  Qed.
  Lemma eval_push_or a b d : eval (push_or a b) d = eval a d || eval b d.
  Proof.
    destruct a as [l|l|c|t]; cbn [push_or Query.eval existsb]; try (rewrite orb_false_r; reflexivity).
    rewrite existsb_app. cbn [existsb]. rewrite orb_false_r. reflexivity.
  Qed.

  Definition term_follow (r : list token) : Prop :=
    match r with [] | TkOr :: _ | TkRParen :: _ => True | _ => False end.
  Definition expr_follow (r : list token) : Prop :=
    match r with [] | TkRParen :: _ => True | _ => False end.
  Definition factor_start (t : token) : Prop :=
    match t with TkAnd | TkOr | TkRParen => False | _ => True end.

  Lemma expr_follow_term r : expr_follow r -> term_follow r.
  Proof. destruct r as [|[] ?]; cbn; tauto. Qed.

  Definition parses_as (f : nat -> nat -> list token -> presult) (need dep : nat) (toks r : list token) (e : expr) : Prop :=
    exists e' d, (forall doc, eval e' doc = eval e doc) /\
                 forall fuel, 4 * length (toks ++ r) + need <= fuel -> f fuel dep (toks ++ r) = (Ok (e', r), d).

  (* dep = nesting already open; the printed form must fit under the limit *)
  Definition P2 e := forall dep r, nd 2 e + dep <= MAXD -> parses_as parse_factor 2 dep (pr 2 e) r e.
  Definition P1 e := forall dep r, nd 1 e + dep <= MAXD -> term_follow r -> parses_as parse_term 3 dep (pr 1 e) r e.
  Definition P0 e := forall dep r, nd 0 e + dep <= MAXD -> expr_follow r -> parses_as parse_expression 4 dep (pr 0 e) r e.

  Lemma term_loop_stop f dep e r : term_follow r -> term_loop (S f) dep e r = (Ok (e, r), 0).
  Proof. intros H. rewrite term_loop_S. destruct r as [|[] ?]; cbn in H; try tauto; reflexivity. Qed.
  Lemma expr_loop_stop f dep e r : expr_follow r -> expr_loop (S f) dep e r = (Ok (e, r), 0).
  Proof. intros H. rewrite expr_loop_S. destruct r as [|[] ?]; cbn in H; try tauto; reflexivity. Qed.

  Lemma P2_P1 e : (forall l, e <> EAnd l) -> P2 e -> P1 e.
  Proof.
    intros Hna H2 dep r Hd Hr.
    assert (Hpr : pr 1 e = pr 2 e) by (destruct e; try reflexivity; exfalso; eapply Hna; reflexivity).
    assert (Hnd : nd 1 e = nd 2 e) by (destruct e; try reflexivity; exfalso; eapply Hna; reflexivity).
    rewrite Hnd in Hd. destruct (H2 dep r Hd) as (e' & d & Hev & Hp).
    rewrite Hpr. exists e', (S (Nat.max d 0)). split; [exact Hev|].
    intros fuel Hf. destruct fuel as [|[|f]]; try lia.
    rewrite parse_term_S, Hp by lia. rewrite term_loop_stop by exact Hr. reflexivity.
  Qed.

  Lemma P1_P0 e : (forall l, e <> EOr l) -> P1 e -> P0 e.
  Proof.
    intros Hno H1 dep r Hd Hr.
    assert (Hpr : pr 0 e = pr 1 e) by (destruct e; try reflexivity; exfalso; eapply Hno; reflexivity).
    assert (Hnd : nd 0 e = nd 1 e) by (destruct e; try reflexivity; exfalso; eapply Hno; reflexivity).
    rewrite Hnd in Hd. destruct (H1 dep r Hd (expr_follow_term r Hr)) as (e' & d & Hev & Hp).
    rewrite Hpr. exists e', (S (Nat.max d 0)). split; [exact Hev|].
    intros fuel Hf. destruct fuel as [|[|f]]; try lia.
    rewrite parse_expression_S, Hp by lia. rewrite expr_loop_stop by exact Hr. reflexivity.
  Qed.

  Lemma enter_ok dep : S dep <= MAXD -> enter_fails dep = false.
  Proof. intros H. unfold enter_fails. apply Nat.ltb_ge. exact H. Qed.

  (* parenthesised expression as a factor *)
  Lemma P0_paren e body :
    pr 0 e = body -> pr 2 e = TkLParen :: body ++ [TkRParen] -> nd 2 e = S (nd 0 e) -> P0 e -> P2 e.
  Proof.
    intros Hb H2 Hnd H0 dep r Hd. rewrite H2. rewrite Hnd in Hd.
    destruct (H0 (S dep) (TkRParen :: r) ltac:(lia) I) as (e' & d & Hev & Hp). rewrite Hb in Hp.
    exists e', (S (S d)). split; [exact Hev|].
    intros fuel Hf. destruct fuel as [|[|f]]; try lia.
    cbn [app]. rewrite parse_factor_S, parse_primary_S, enter_ok by lia.
    rewrite <- app_assoc. cbn [app].
    rewrite Hp; [reflexivity|].
    cbn [app length] in Hf. rewrite <- app_assoc in Hf. cbn [app] in Hf. lia.
  Qed.

  Lemma pr2_start e : wf e -> exists t rest, pr 2 e = t :: rest /\ factor_start t.
  Proof.
    intros Hw. destruct Hw as [l ? ?|l ? ?|c ?|t Ht]; cbn [Query.pr].
    - eexists _, _; split; [reflexivity|exact I].
    - eexists _, _; split; [reflexivity|exact I].
    - eexists _, _; split; [reflexivity|exact I].
    - eexists _, _; split; [reflexivity|]. destruct t; cbn in *; tauto.
  Qed.

  Definition sep : list token := if explicit then [TkAnd] else [].
  Definition and_tail (l : list expr) : list token := concat (map (fun c => sep ++ pr 2 c) l).
  Definition or_tail (l : list expr) : list token := concat (map (fun c => TkOr :: pr 1 c) l).

  Lemma sep_by_cons (s : list token) x l : sep_by s (x :: l) = x ++ concat (map (fun y => s ++ y) l).
  Proof.
    revert x; induction l as [|y l IH]; intros x.
    - cbn [sep_by map concat]. rewrite app_nil_r. reflexivity.
    - change (sep_by s (x :: y :: l)) with (x ++ s ++ sep_by s (y :: l)). rewrite IH.
      cbn [map concat]. rewrite <- !app_assoc. reflexivity.
  Qed.

  Lemma pr1_and c l : pr 1 (EAnd (c :: l)) = pr 2 c ++ and_tail l.
  Proof. cbn [Query.pr]. rewrite map_cons, sep_by_cons. unfold and_tail, sep. rewrite map_map. reflexivity. Qed.
  Lemma pr0_or c l : pr 0 (EOr (c :: l)) = pr 1 c ++ or_tail l.
  Proof. cbn [Query.pr]. rewrite map_cons, sep_by_cons. unfold or_tail. rewrite map_map. reflexivity. Qed.

  Lemma term_loop_enter f dep e0 c rest : wf c ->
    term_loop (S f) dep e0 (sep ++ pr 2 c ++ rest) = term_loop_more alnum parse_date f dep e0 (pr 2 c ++ rest).
  Proof.
    intros Hw. rewrite term_loop_S.
    destruct (pr2_start c Hw) as (t & tl & Hpr & Hs). rewrite Hpr.
    unfold sep. destruct explicit; cbn [app]; [reflexivity|].
    destruct t; cbn in Hs; try tauto; reflexivity.
  Qed.

  Lemma and_tail_loop l dep : Forall wf l -> Forall P2 l -> Forall (fun c => nd 2 c + dep <= MAXD) l ->
    forall e0 r, term_follow r ->
    exists e' d, (forall doc, eval e' doc = eval e0 doc && forallb (fun c => eval c doc) l) /\
                 forall fuel, 4 * length (and_tail l ++ r) + 3 <= fuel ->
                              term_loop fuel dep e0 (and_tail l ++ r) = (Ok (e', r), d).
  Proof.
    induction l as [|c l IH]; intros Hw H2 Hn e0 r Hr.
    - exists e0, 0. split; [intros; cbn [forallb]; rewrite andb_true_r; reflexivity|].
      intros fuel Hf. destruct fuel as [|f]; [lia|]. cbn [and_tail map concat app]. apply term_loop_stop, Hr.
    - inversion Hw as [|? ? Hwc Hwl]; subst. inversion H2 as [|? ? H2c H2l]; subst.
      inversion Hn as [|? ? Hnc Hnl]; subst.
      destruct (H2c dep (and_tail l ++ r) Hnc) as (c' & d1 & Hevc & Hpc).
      destruct (IH Hwl H2l Hnl (push_and e0 c') r Hr) as (e' & d2 & Hev & Hp).
      exists e', (Nat.max d1 d2). split.
      + intros doc. rewrite Hev, eval_push_and, Hevc. cbn [forallb]. rewrite andb_assoc. reflexivity.
      + intros fuel Hf. destruct fuel as [|f]; [lia|].
        unfold and_tail in *. cbn [map concat] in *. rewrite <- !app_assoc in *.
        rewrite !app_length in Hf.
        assert (Hpos : 1 <= length (pr 2 c)).
        { destruct (pr2_start c Hwc) as (t & tl & Hpr & _). rewrite Hpr. cbn [length]. lia. }
        rewrite term_loop_enter by exact Hwc. unfold term_loop_more.
        rewrite Hpc by (rewrite !app_length; lia). rewrite Hp by (rewrite ?app_length; lia). reflexivity.
  Qed.

  Lemma or_tail_follow l r : expr_follow r -> term_follow (or_tail l ++ r).
  Proof. intros Hr. destruct l; cbn; [apply expr_follow_term, Hr | exact I]. Qed.

  Lemma or_tail_loop l dep : Forall P1 l -> Forall (fun c => nd 1 c + dep <= MAXD) l ->
    forall e0 r, expr_follow r ->
    exists e' d, (forall doc, eval e' doc = eval e0 doc || existsb (fun c => eval c doc) l) /\
                 forall fuel, 4 * length (or_tail l ++ r) + 1 <= fuel ->
                              expr_loop fuel dep e0 (or_tail l ++ r) = (Ok (e', r), d).
  Proof.
    induction l as [|c l IH]; intros H1 Hn e0 r Hr.
    - exists e0, 0. split; [intros; cbn [existsb]; rewrite orb_false_r; reflexivity|].
      intros fuel Hf. destruct fuel as [|f]; [lia|]. cbn [or_tail map concat app]. apply expr_loop_stop, Hr.
    - inversion H1 as [|? ? H1c H1l]; subst. inversion Hn as [|? ? Hnc Hnl]; subst.
      destruct (H1c dep (or_tail l ++ r) Hnc (or_tail_follow l r Hr)) as (c' & d1 & Hevc & Hpc).
      destruct (IH H1l Hnl (push_or e0 c') r Hr) as (e' & d2 & Hev & Hp).
      exists e', (Nat.max d1 d2). split.
      + intros doc. rewrite Hev, eval_push_or, Hevc. cbn [existsb]. rewrite orb_assoc. reflexivity.
      + intros fuel Hf. destruct fuel as [|f]; [lia|].
        unfold or_tail in *. cbn [map concat] in *. cbn [app] in *. rewrite <- !app_assoc in *.
        cbn [length] in Hf. rewrite !app_length in Hf.
        rewrite expr_loop_S.
        rewrite Hpc by (rewrite !app_length; lia). rewrite Hp by (rewrite ?app_length; lia). reflexivity.
  Qed.

  Lemma term_P2 t : prim_ok t -> P2 (ETerm t).
  Proof.
    intros Hok dep r _. exists (ETerm t), 2. split; [reflexivity|].
    intros fuel Hf. destruct fuel as [|[|f]]; try lia.
    cbn [Query.pr app]. rewrite parse_factor_S.
    destruct t; cbn [term_token prim_ok] in *; rewrite ?parse_primary_S; try contradiction.
    - rewrite Hok. reflexivity.
    - rewrite Hok. reflexivity.
    - rewrite Hok. reflexivity.
    - unfold from_pair. rewrite Hok. reflexivity.
    - unfold from_pair. rewrite Hok. reflexivity.
    - unfold from_pair. rewrite Hok. reflexivity.
    - unfold from_pair. rewrite Hok. reflexivity.
    - unfold from_pair. rewrite Hok. reflexivity.
  Qed.

  Lemma children_fit (lv : nat) l dep m : list_max (map (nd lv) l) + dep <= m ->
    Forall (fun c => nd lv c + dep <= m) l.
  Proof.
    intros H. rewrite Forall_forall. intros c Hc. pose proof (list_max_in (nd lv) l c Hc). lia.
  Qed.

  Lemma all_levels e : wf e -> P0 e /\ P1 e /\ P2 e.
  Proof.
    induction e as [l IH|l IH|c IH|t] using expr_ind'; intros Hw; inversion Hw as [? Hne Hl|? Hne Hl|? Hc|? Ht]; subst.
    - (* EOr *)
      assert (H1l : Forall P1 l).
      { rewrite Forall_forall in *. intros x Hx. apply (IH x Hx), Hl, Hx. }
      destruct l as [|c l]; [congruence|].
      inversion H1l as [|? ? H1c H1l']; subst.
      assert (H0 : P0 (EOr (c :: l))).
      { intros dep r Hd Hr. rewrite pr0_or.
        change (nd 0 (EOr (c :: l))) with (list_max (map (nd 1) (c :: l))) in Hd.
        apply children_fit in Hd. inversion Hd as [|? ? Hnc Hnl]; subst.
        destruct (H1c dep (or_tail l ++ r) Hnc (or_tail_follow l r Hr)) as (c' & d1 & Hevc & Hpc).
        destruct (or_tail_loop l dep H1l' Hnl c' r Hr) as (e' & d2 & Hev & Hp).
        exists e', (S (Nat.max d1 d2)). split.
        - intros doc. rewrite Hev, Hevc. reflexivity.
        - intros fuel Hf. destruct fuel as [|f]; [lia|].
          rewrite <- app_assoc in *. rewrite !app_length in Hf.
          rewrite parse_expression_S, Hpc by (rewrite ?app_length; lia). rewrite Hp by (rewrite ?app_length; lia). reflexivity. }
      assert (H2 : P2 (EOr (c :: l))) by (eapply P0_paren; [reflexivity|reflexivity|reflexivity|exact H0]).
      split; [exact H0|split; [|exact H2]]. apply P2_P1; [discriminate|exact H2].
    - (* EAnd *)
      assert (H2l : Forall P2 l).
      { rewrite Forall_forall in *. intros x Hx. apply (IH x Hx), Hl, Hx. }
      destruct l as [|c l]; [congruence|].
      inversion H2l as [|? ? H2c H2l']; subst. inversion Hl as [|? ? Hwc Hwl]; subst.
      assert (H1 : P1 (EAnd (c :: l))).
      { intros dep r Hd Hr. rewrite pr1_and.
        change (nd 1 (EAnd (c :: l))) with (list_max (map (nd 2) (c :: l))) in Hd.
        apply children_fit in Hd. inversion Hd as [|? ? Hnc Hnl]; subst.
        destruct (H2c dep (and_tail l ++ r) Hnc) as (c' & d1 & Hevc & Hpc).
        destruct (and_tail_loop l dep Hwl H2l' Hnl c' r Hr) as (e' & d2 & Hev & Hp).
        exists e', (S (Nat.max d1 d2)). split.
        - intros doc. rewrite Hev, Hevc. reflexivity.
        - intros fuel Hf. destruct fuel as [|f]; [lia|].
          rewrite <- app_assoc in *. rewrite !app_length in Hf.
          assert (Hpos : 1 <= length (pr 2 c)).
          { destruct (pr2_start c Hwc) as (t & tl & Hpr & _). rewrite Hpr. cbn [length]. lia. }
          rewrite parse_term_S, Hpc by (rewrite ?app_length; lia). rewrite Hp by (rewrite ?app_length; lia). reflexivity. }
      assert (H0 : P0 (EAnd (c :: l))) by (apply P1_P0; [discriminate|exact H1]).
      split; [exact H0|split; [exact H1|]].
      eapply P0_paren; [reflexivity| | |exact H0]; reflexivity.
    - (* ENot *)
      destruct (IH Hc) as (_ & _ & H2c).
      assert (H2 : P2 (ENot c)).
      { intros dep r Hd. change (nd 2 (ENot c)) with (S (nd 2 c)) in Hd.
        destruct (H2c (S dep) r ltac:(lia)) as (c' & d & Hev & Hp).
        exists (ENot c'), (S d). split; [intros doc; cbn [Query.eval]; rewrite Hev; reflexivity|].
        intros fuel Hf. destruct fuel as [|f]; [lia|].
        change (pr 2 (ENot c)) with (TkNot :: pr 2 c) in *. cbn [app] in *.
        rewrite parse_factor_S, enter_ok by lia. cbn [length] in Hf. rewrite Hp by lia. reflexivity. }
      assert (H1 : P1 (ENot c)) by (apply P2_P1; [discriminate|exact H2]).
      split; [|split; [exact H1|exact H2]]. apply P1_P0; [discriminate|exact H1].
    - (* ETerm *)
      pose proof (term_P2 t Ht) as H2.
      assert (H1 : P1 (ETerm t)) by (apply P2_P1; [discriminate|exact H2]).
      split; [|split; [exact H1|exact H2]]. apply P1_P0; [discriminate|exact H1].
  Qed.

  (* (b), token level: the tokens printed with minimal parentheses parse back to an
     expression with the same match decision on every document, provided the printed
     nesting fits under the depth limit *)
  Theorem parse_print_tokens e : wf e -> nd 0 e <= MAXD ->
    exists e' d, parse_expression (parser_fuel (print_tokens explicit e)) 0 (print_tokens explicit e) = (Ok (e', []), d) /\
                 forall doc, eval e' doc = eval e doc.
  Proof.
    intros Hw Hn. destruct (all_levels e Hw) as (H0 & _).
    destruct (H0 0 [] ltac:(lia) I) as (e' & d & Hev & Hp).
    exists e', d. split; [|exact Hev]. unfold print_tokens.
    specialize (Hp (parser_fuel (pr 0 e))). rewrite app_nil_r in Hp. apply Hp. unfold parser_fuel. lia.
  Qed.
End RoundTrip.

(* ================================================================ reference semantics *)
Definition some_of {A} (P : A -> Prop) : list A -> Prop :=
  fix go (l : list A) : Prop := match l with [] => False | x :: r => P x \/ go r end.
Definition all_of {A} (P : A -> Prop) : list A -> Prop :=
  fix go (l : list A) : Prop := match l with [] => True | x :: r => P x /\ go r end.

Definition substring (n h : str) : Prop := exists pre suf, h = pre ++ n ++ suf.
Definition prefix_of (p s : str) : Prop := exists suf, s = p ++ suf.
Definition same_ignoring_case (a b : str) : Prop := lower a = lower b.

Section Sem.
  Variable parse_date : str -> option Z.

  (* the reference meaning of a term on a document *)
  Definition term_sem (t : term) (d : doc) : Prop :=
    match t with
    | TWord w | TPhrase w => substring (lower w) (d_content d)
    | TWild raw => wild_match raw (d_content d) = true
    | TUri v => exists u, d_uri d = Some u /\ same_ignoring_case u v
    | TScope p => exists u, d_uri d = Some u /\ prefix_of p u
    | TTrack v => exists u, d_track d = Some u /\ same_ignoring_case u v
    | TTag v => exists x, In x (d_tags d) /\ same_ignoring_case x v
    | TLabel v => exists x, In x (d_labels d) /\ same_ignoring_case x v
    | TDate a b => exists t, In t (date_candidates parse_date d) /\
                             (forall s, a = Some s -> (s <= t)%Z) /\ (forall e, b = Some e -> (t <= e)%Z)
    end.

  (* OR = some operand, AND = every operand, NOT = negation *)
  Fixpoint sem (e : expr) (d : doc) {struct e} : Prop :=
    match e with
    | EOr l => some_of (fun c => sem c d) l
    | EAnd l => all_of (fun c => sem c d) l
    | ENot c => ~ sem c d
    | ETerm t => term_sem t d
    end.

  Lemma str_eqb_eq a b : str_eqb a b = true <-> a = b.
  Proof. apply list_eqb_spec. intros; apply N.eqb_eq. Qed.

  Lemma is_prefix_spec p s : is_prefix p s = true <-> prefix_of p s.
  Proof.
    revert s; induction p as [|a p IH]; intros s; cbn [is_prefix].
    - split; [intros _; exists s; reflexivity | reflexivity].
    - destruct s as [|b s].
      + split; [discriminate | intros [suf H]; discriminate].
      + rewrite andb_true_iff, N.eqb_eq, IH. split.
        * intros [-> [suf ->]]. exists suf. reflexivity.
        * intros [suf H]. inversion H; subst. split; [reflexivity | exists suf; reflexivity].
  Qed.

  Lemma contains_spec n h : contains n h = true <-> substring n h.
  Proof.
    induction h as [|x h IH]; cbn [contains]; rewrite orb_true_iff, is_prefix_spec.
    - split.
      + intros [[suf H]|H]; [|discriminate]. exists [], suf. exact H.
      + intros [pre [suf H]]. left. destruct pre; [exists suf; exact H | discriminate].
    - rewrite IH. split.
      + intros [[suf H]|[pre [suf H]]]; [exists [], suf; exact H | exists (x :: pre), suf; rewrite H; reflexivity].
      + intros [pre [suf H]]. destruct pre as [|y pre].
        * left. exists suf. exact H.
        * right. inversion H; subst. exists pre, suf. reflexivity.
  Qed.

  Lemma eq_ignore_case_spec a b : eq_ignore_case a b = true <-> same_ignoring_case a b.
  Proof. unfold eq_ignore_case, same_ignoring_case. apply str_eqb_eq. Qed.

  Lemma in_range_spec a b t :
    in_range a b t = true <-> (forall s, a = Some s -> (s <= t)%Z) /\ (forall e, b = Some e -> (t <= e)%Z).
  Proof.
    unfold in_range. rewrite andb_true_iff. destruct a as [s|], b as [e|]; split.
    all: try (intros [H1 H2]; split; intros x Hx; inversion Hx; subst; lia).
    all: try (intros [H1 H2]; split; try reflexivity;
              try (specialize (H1 _ eq_refl)); try (specialize (H2 _ eq_refl)); lia).
  Qed.

  Lemma existsb_spec {A} (f : A -> bool) (P : A -> Prop) l :
    (forall x, f x = true <-> P x) -> (existsb f l = true <-> exists x, In x l /\ P x).
  Proof.
    intros H. rewrite existsb_exists. split; intros [x [Hi Hx]]; exists x; (split; [exact Hi | apply H, Hx]).
  Qed.

  Lemma eval_term_sem t d : eval_term parse_date t d = true <-> term_sem t d.
  Proof.
    destruct t; cbn [eval_term term_sem].
    - apply contains_spec.
    - apply contains_spec.
    - reflexivity.
    - destruct (d_uri d) as [u|].
      + rewrite eq_ignore_case_spec. split; [intros H; exists u; auto | intros [u' [E H]]; inversion E; subst; exact H].
      + split; [discriminate | intros [u' [E _]]; discriminate].
    - destruct (d_uri d) as [u|].
      + rewrite is_prefix_spec. split; [intros H; exists u; auto | intros [u' [E H]]; inversion E; subst; exact H].
      + split; [discriminate | intros [u' [E _]]; discriminate].
    - destruct (d_track d) as [u|].
      + rewrite eq_ignore_case_spec. split; [intros H; exists u; auto | intros [u' [E H]]; inversion E; subst; exact H].
      + split; [discriminate | intros [u' [E _]]; discriminate].
    - apply existsb_spec. intros x. apply eq_ignore_case_spec.
    - apply existsb_spec. intros x. apply eq_ignore_case_spec.
    - assert (Hgen : existsb (in_range a b) (date_candidates parse_date d) = true <->
                     exists t, In t (date_candidates parse_date d) /\
                               (forall s, a = Some s -> (s <= t)%Z) /\ (forall e, b = Some e -> (t <= e)%Z)).
      { apply existsb_spec. intros x. apply in_range_spec. }
      destruct a as [s|]; [exact Hgen|]. destruct b as [e|]; [exact Hgen|].
      split; [|reflexivity]. intros _. exists (d_ts d). split; [left; reflexivity|].
      split; intros ? H; discriminate.
  Qed.

  (* the evaluator decides the reference semantics *)
  Theorem eval_sem e d : eval parse_date e d = true <-> sem e d.
  Proof.
    induction e as [l IH|l IH|c IH|t] using expr_ind'; cbn [eval sem].
    - induction l as [|x l IHl]; cbn [existsb some_of]; [split; [discriminate|tauto]|].
      inversion IH as [|? ? Hx Hl]; subst. rewrite orb_true_iff, Hx, (IHl Hl). reflexivity.
    - induction l as [|x l IHl]; cbn [forallb all_of]; [tauto|].
      inversion IH as [|? ? Hx Hl]; subst. rewrite andb_true_iff, Hx, (IHl Hl). reflexivity.
    - rewrite negb_true_iff, <- IH. destruct (eval parse_date c d); split; intros; try discriminate; try congruence.
    - apply eval_term_sem.
  Qed.
End Sem.

(* ================================================================ (b) for text *)
Fixpoint terms_ok (e : expr) : bool :=
  match e with
  | EOr l | EAnd l => forallb terms_ok l
  | ENot c => terms_ok c
  | ETerm t => lex_ok (term_token t)
  end.

Lemma sep_by_forallb (p : token -> bool) s xs :
  forallb p s = true -> forallb (forallb p) xs = true -> forallb p (sep_by s xs) = true.
Proof.
  intros Hs. induction xs as [|x xs IH]; intros Hx; [reflexivity|].
  cbn [forallb] in Hx. apply andb_true_iff in Hx as [Hx Hxs].
  destruct xs as [|y xs]; [exact Hx|].
  change (sep_by s (x :: y :: xs)) with (x ++ s ++ sep_by s (y :: xs)).
  rewrite !forallb_app, Hx, Hs, (IH Hxs). reflexivity.
Qed.

Lemma pr_lex_ok explicit e : terms_ok e = true -> forall lvl, forallb lex_ok (pr explicit lvl e) = true.
Proof.
  induction e as [l IH|l IH|c IH|t] using expr_ind'; intros Hok lvl.
  - cbn [terms_ok] in Hok.
    assert (Hb : forallb lex_ok (sep_by [TkOr] (map (pr explicit 1) l)) = true).
    { apply sep_by_forallb; [reflexivity|]. rewrite forallb_forall. intros x Hx.
      apply in_map_iff in Hx as (y & <- & Hy). rewrite Forall_forall in IH. apply IH; [exact Hy|].
      rewrite forallb_forall in Hok. apply Hok, Hy. }
    cbn [pr]. destruct lvl; [exact Hb|]. cbn [forallb lex_ok]. rewrite forallb_app, Hb. reflexivity.
  - cbn [terms_ok] in Hok.
    assert (Hb : forallb lex_ok (sep_by (if explicit then [TkAnd] else []) (map (pr explicit 2) l)) = true).
    { apply sep_by_forallb; [destruct explicit; reflexivity|]. rewrite forallb_forall. intros x Hx.
      apply in_map_iff in Hx as (y & <- & Hy). rewrite Forall_forall in IH. apply IH; [exact Hy|].
      rewrite forallb_forall in Hok. apply Hok, Hy. }
    cbn [pr]. destruct lvl as [|[|lvl]]; try exact Hb. cbn [forallb lex_ok]. rewrite forallb_app, Hb. reflexivity.
  - cbn [terms_ok] in Hok. change (pr explicit lvl (ENot c)) with (TkNot :: pr explicit 2 c).
    cbn [forallb lex_ok]. apply IH, Hok.
  - cbn [terms_ok] in Hok. cbn [pr forallb]. rewrite Hok. reflexivity.
Qed.

(* (b): for every well-formed expression, the text printed with minimal parentheses
   (NOT tighter than AND tighter than OR; AND written or left implicit) is accepted, and the
   parsed query matches a document exactly when the reference semantics says so *)
Theorem print_parse_sem alnum parse_date explicit e :
  wf alnum e -> terms_ok e = true -> nd 0 e <= MAX_QUERY_DEPTH ->
  exists e' depth,
    parse_query alnum parse_date (print explicit e) = (Ok e', depth) /\
    forall d, eval parse_date e' d = true <-> sem parse_date e d.
Proof.
  intros Hw Hok Hn.
  destruct (parse_print_tokens alnum parse_date explicit e Hw Hn) as (e' & d & Hp & Hev).
  exists e', d. split.
  - unfold parse_query, print, print_tokens in *.
    rewrite (tokenize_tokens_text _ (pr_lex_ok explicit e Hok 0) _ (le_n _)).
    rewrite Hp. reflexivity.
  - intros doc. rewrite Hev. apply eval_sem.
Qed.

(* a simple sufficient condition for words: lower-case letters/digits as far as the
   oracle alnum says, at least at both ends, none of the special characters *)
Definition plain_word (alnum : N -> bool) (w : str) : bool :=
  match w, rev w with
  | a :: _, z :: _ => alnum a && alnum z
  | _, _ => false
  end && forallb (fun c => (lower_c c =? c)%N && negb (is_wild_c c)) w.

Lemma drop_while_head p a s : p a = false -> drop_while p (a :: s) = a :: s.
Proof. intros H. cbn [drop_while]. rewrite H. reflexivity. Qed.

Lemma trim_end_keep p s z r : rev s = z :: r -> p z = false -> trim_end p s = s.
Proof. intros Hr Hz. unfold trim_end. rewrite Hr, (drop_while_head p z r Hz), <- Hr. apply rev_involutive. Qed.

Lemma lower_fix w : forallb (fun c => (lower_c c =? c)%N) w = true -> lower w = w.
Proof.
  induction w as [|c w IH]; intros H; [reflexivity|]. cbn [forallb] in H. apply andb_true_iff in H as [Hc Hw].
  apply N.eqb_eq in Hc. cbn [lower map]. rewrite Hc. f_equal. apply IH, Hw.
Qed.

Lemma plain_word_from_word alnum w : plain_word alnum w = true -> from_word alnum w = TWord w.
Proof.
  unfold plain_word. intros H. apply andb_true_iff in H as [Hends Hall].
  destruct w as [|a w']; [discriminate|]. destruct (rev (a :: w')) as [|z r] eqn:Er; [discriminate|].
  apply andb_true_iff in Hends as [Ha Hz].
  assert (Hlow : lower (a :: w') = a :: w').
  { apply lower_fix. rewrite forallb_forall in *. intros x Hx. specialize (Hall x Hx). apply andb_true_iff in Hall. tauto. }
  assert (Hnw : forall x, In x (a :: w') -> is_wild_c x = false).
  { rewrite forallb_forall in Hall. intros x Hx. specialize (Hall x Hx). apply andb_true_iff in Hall as [_ Hn].
    apply negb_true_iff in Hn. exact Hn. }
  assert (Hzin : In z (a :: w')) by (apply in_rev; rewrite Er; left; reflexivity).
  unfold from_word. rewrite Hlow.
  assert (Hzq : (z =? c_qmark)%N = false).
  { specialize (Hnw z Hzin). unfold is_wild_c in Hnw. apply orb_false_iff in Hnw. tauto. }
  rewrite (trim_end_keep _ _ z r Er Hzq).
  unfold trim_both. rewrite drop_while_head by (rewrite Ha; reflexivity).
  rewrite (trim_end_keep _ _ z r Er) by (rewrite Hz; reflexivity).
  assert (Hex : existsb is_wild_c (a :: w') = false).
  { apply not_true_is_false. intros Hc. apply existsb_exists in Hc as (x & Hx & Hxw). rewrite (Hnw x Hx) in Hxw. discriminate. }
  rewrite Hex. cbn [is_nil orb]. cbn [existsb]. rewrite Ha. reflexivity.
Qed.
