(* C22: totality (no Panic, fuel suffices) of the byte-level decoders on the open path.
   Every theorem is for ALL byte strings / header values; the only hypotheses are the ones the
   operating system guarantees (a file is shorter than 2^63 bytes, bytes are below 256). *)
From MV Require Import Base.Prelude Base.Facts Model.Footer Model.Header Model.Bincode Model.Toc
  Model.SearchPage Model.OpenSeq Proofs.HeaderProofs Proofs.BincodeProofs Proofs.FooterProofs.
Require Import ZifyBool ZifyNat ZifyN.
Local Open Scope N_scope.

(* ------------------------------------------------------------------ checked arithmetic *)
Lemma add_chk_ok a b : a + b < U64_LIM -> add_chk a b = Ok (a + b).
Proof. intros Hlt. unfold add_chk. destruct (U64_LIM <=? a + b) eqn:E; [lia | reflexivity]. Qed.
Lemma sub_chk_ok a b : b <= a -> sub_chk a b = Ok (a - b).
Proof. intros Hle. unfold sub_chk. destruct (a <? b) eqn:E; [lia | reflexivity]. Qed.
Lemma mul_chk_ok a b : a * b < U64_LIM -> mul_chk a b = Ok (a * b).
Proof. intros Hlt. unfold mul_chk. destruct (U64_LIM <=? a * b) eqn:E; [lia | reflexivity]. Qed.
Lemma rem_chk_ok a b : b <> 0 -> rem_chk a b = Ok (a mod b).
Proof. intros Hne. unfold rem_chk. destruct (b =? 0) eqn:E; [lia | reflexivity]. Qed.
Lemma add_chk_not_err a b k : add_chk a b <> Err k.
Proof. unfold add_chk. destruct (U64_LIM <=? a + b); discriminate. Qed.
Lemma add_chk_inv a b c : add_chk a b = Ok c -> c = a + b /\ a + b < U64_LIM.
Proof. unfold add_chk. destruct (U64_LIM <=? a + b) eqn:E; [discriminate|]. intros Hc. inversion Hc. lia. Qed.

Lemma obind_no_panic {A B} (o : outcome A) (f : A -> outcome B) :
  (forall s, o <> Panic s) -> (forall a, o = Ok a -> forall s, f a <> Panic s) ->
  forall s, obind o f <> Panic s.
Proof.
  intros Ho Hf s. destruct o as [a|k|p]; cbn [obind].
  - apply Hf. reflexivity.
  - discriminate.
  - exfalso. apply (Ho p). reflexivity.
Qed.

(* ------------------------------------------------------------------ bytes *)
Lemma bytes_ok_firstn n : forall b, bytes_ok b = true -> bytes_ok (firstn n b) = true.
Proof.
  unfold bytes_ok. induction n as [|n IH]; intros [|x b] Hb; cbn [firstn forallb] in *; try reflexivity.
  apply andb_true_iff in Hb as [Hx Hb]. rewrite Hx. cbn [andb]. apply IH. exact Hb.
Qed.
Lemma bytes_ok_skipn n : forall b, bytes_ok b = true -> bytes_ok (skipn n b) = true.
Proof.
  unfold bytes_ok. induction n as [|n IH]; intros [|x b] Hb; cbn [skipn forallb] in *; try reflexivity; try exact Hb.
  apply andb_true_iff in Hb as [_ Hb]. apply IH. exact Hb.
Qed.
Lemma bytes_ok_slice (b : bytes) off len : bytes_ok b = true -> bytes_ok (slice b off len) = true.
Proof. intros Hb. unfold slice. apply bytes_ok_firstn, bytes_ok_skipn, Hb. Qed.

Lemma le_decode_u32 (b : bytes) : bytes_ok b = true -> (length b <= 4)%nat -> le_decode b < 2 ^ 32.
Proof.
  intros Hb Hl. pose proof (le_decode_bound b Hb) as Hd.
  assert (Hp : 256 ^ N.of_nat (length b) <= 256 ^ 4) by (apply N.pow_le_mono_r; lia).
  change (256 ^ 4) with 4294967296 in Hp. change (2 ^ 32) with 4294967296. lia.
Qed.

Lemma read_at_some file pos n b :
  read_at file pos n = Some b -> b = slice file (N.to_nat pos) (N.to_nat n) /\ pos + n <= N.of_nat (length file).
Proof.
  unfold read_at. destruct (N.of_nat (length file) <? pos + n) eqn:E; [discriminate|].
  intros Hs. inversion Hs. split; [reflexivity | lia].
Qed.

(* ------------------------------------------------------------------ scan_records *)
Section WalProofs.
  Variable H : bytes -> bytes.

  (* no Panic: every addition of the scan stays below 2^64.  Invariant: the cursor is 0, or the
     bytes up to offset + cursor were actually read from the file (so offset + cursor <= its length). *)
  Lemma scan_chk_no_panic file offset size :
    bytes_ok file = true -> N.of_nat (length file) < 2 ^ 63 -> offset < 2 ^ 64 ->
    forall fuel cursor s,
      (cursor = 0 \/ offset + cursor <= N.of_nat (length file)) ->
      scan_chk H fuel file offset size cursor <> Panic s.
  Proof.
    intros Hok Hlen Hoff. induction fuel as [|f IH]; intros cursor s Hinv; cbn [scan_chk]; [discriminate|].
    assert (Hc : cursor < 2 ^ 63) by lia.
    rewrite (add_chk_ok cursor EH) by (unfold EH, U64_LIM; lia). cbn [obind].
    destruct (size <? cursor + EH); [discriminate|].
    rewrite (add_chk_ok offset cursor) by (unfold U64_LIM; lia). cbn [obind].
    destruct (negb (seek_ok (offset + cursor))); [discriminate|].
    destruct (read_at file (offset + cursor) 48) as [hd|] eqn:Ehd; [|discriminate].
    apply read_at_some in Ehd as [Ehd Hrd]. cbv zeta.
    assert (Hl32 : le_decode (slice hd 8 4) < 2 ^ 32).
    { apply le_decode_u32; [subst hd; apply bytes_ok_slice, bytes_ok_slice, Hok | apply slice_length_le]. }
    set (seq := le_decode (firstn 8 hd)) in *. set (len := le_decode (slice hd 8 4)) in *.
    destruct ((seq =? 0) && (len =? 0)); [discriminate|].
    destruct (len =? 0) eqn:El0; [discriminate|].
    rewrite (add_chk_ok (cursor + EH) len) by (unfold EH, U64_LIM; lia). cbn [obind].
    destruct (size <? cursor + EH + len); [discriminate|].
    destruct (read_at file (offset + cursor + 48) len) as [payload|] eqn:Epl; [|discriminate].
    apply read_at_some in Epl as [_ Hpl].
    destruct (negb (bytes_eqb (H payload) (slice hd 16 32))); [discriminate|].
    rewrite (add_chk_ok EH len) by (unfold EH, U64_LIM; lia). cbn [obind].
    rewrite (add_chk_ok cursor (EH + len)) by (unfold EH, U64_LIM in *; lia). cbn [obind].
    assert (Hinv' : cursor + (EH + len) = 0 \/ offset + (cursor + (EH + len)) <= N.of_nat (length file))
      by (right; unfold EH; lia).
    pose proof (IH (cursor + (EH + len)) s Hinv') as Hrec.
    destruct (scan_chk H f file offset size (cursor + (EH + len))) as [[l c]|k|p] eqn:Er; try discriminate.
    intros Hp. inversion Hp. subst. apply Hrec. reflexivity.
  Qed.

  (* termination measure: the bytes of the file after offset + cursor; every round consumes at
     least 49 of them, so fuel = |file| + 1 is never exhausted *)
  Lemma scan_chk_fuel file offset size :
    forall fuel cursor,
      (length file - N.to_nat (offset + cursor) < fuel)%nat ->
      scan_chk H fuel file offset size cursor <> Err E_FUEL.
  Proof.
    induction fuel as [|f IH]; intros cursor Hm; [lia|]. cbn [scan_chk].
    destruct (add_chk cursor EH) as [c48|k|p] eqn:E1; cbn [obind]; [|exfalso; eapply add_chk_not_err; exact E1|discriminate].
    apply add_chk_inv in E1 as [-> _].
    destruct (size <? cursor + EH); [discriminate|].
    destruct (add_chk offset cursor) as [pos|k|p] eqn:E2; cbn [obind]; [|exfalso; eapply add_chk_not_err; exact E2|discriminate].
    apply add_chk_inv in E2 as [-> _].
    destruct (negb (seek_ok (offset + cursor))); [unfold E_IO, E_FUEL; discriminate|].
    destruct (read_at file (offset + cursor) 48) as [hd|] eqn:Ehd; [|unfold E_IO, E_FUEL; discriminate].
    apply read_at_some in Ehd as [_ Hrd]. cbv zeta.
    set (seq := le_decode (firstn 8 hd)). set (len := le_decode (slice hd 8 4)).
    destruct ((seq =? 0) && (len =? 0)); [discriminate|].
    destruct (len =? 0) eqn:El0; [unfold E_WAL_LEN, E_FUEL; discriminate|].
    destruct (add_chk (cursor + EH) len) as [e|k|p] eqn:E3; cbn [obind]; [|exfalso; eapply add_chk_not_err; exact E3|discriminate].
    apply add_chk_inv in E3 as [-> _].
    destruct (size <? cursor + EH + len); [unfold E_WAL_LEN, E_FUEL; discriminate|].
    destruct (read_at file (offset + cursor + 48) len) as [payload|] eqn:Epl; [|unfold E_IO, E_FUEL; discriminate].
    apply read_at_some in Epl as [_ Hpl].
    destruct (negb (bytes_eqb (H payload) (slice hd 16 32))); [unfold E_WAL_SUM, E_FUEL; discriminate|].
    destruct (add_chk EH len) as [tot|k|p] eqn:E4; cbn [obind]; [|exfalso; eapply add_chk_not_err; exact E4|discriminate].
    apply add_chk_inv in E4 as [-> _].
    destruct (add_chk cursor (EH + len)) as [c'|k|p] eqn:E5; cbn [obind]; [|exfalso; eapply add_chk_not_err; exact E5|discriminate].
    apply add_chk_inv in E5 as [-> _].
    assert (Hm' : (length file - N.to_nat (offset + (cursor + (EH + len))) < f)%nat) by (unfold EH in *; lia).
    pose proof (IH (cursor + (EH + len)) Hm') as Hrec.
    destruct (scan_chk H f file offset size (cursor + (EH + len))) as [[l c]|k|p] eqn:Er; try discriminate.
    intros Hp. inversion Hp. subst. apply Hrec. reflexivity.
  Qed.

  Theorem scan_records_terminates file offset size :
    scan_chk H (S (length file)) file offset size 0 <> Err E_FUEL.
  Proof. apply scan_chk_fuel. lia. Qed.

  (* the entries' total sizes add up to the distance the cursor moved, and an entry was only
     accepted after its bytes were read *)
  Definition total (l : list (N * N)) : N := fold_right N.add 0 (map snd l).

  Lemma scan_chk_sum file offset size :
    forall fuel cursor l c,
      scan_chk H fuel file offset size cursor = Ok (l, c) ->
      cursor + total l = c /\ (l = [] \/ offset + c <= N.of_nat (length file)).
  Proof.
    induction fuel as [|f IH]; intros cursor l c; cbn [scan_chk]; [discriminate|].
    destruct (add_chk cursor EH) as [c48|k|p] eqn:E1; cbn [obind]; [|discriminate|discriminate].
    apply add_chk_inv in E1 as [-> _].
    destruct (size <? cursor + EH).
    { intros Hr. inversion Hr. subst. unfold total. cbn. split; [lia | left; reflexivity]. }
    destruct (add_chk offset cursor) as [pos|k|p] eqn:E2; cbn [obind]; [|discriminate|discriminate].
    apply add_chk_inv in E2 as [-> _].
    destruct (negb (seek_ok (offset + cursor))); [discriminate|].
    destruct (read_at file (offset + cursor) 48) as [hd|] eqn:Ehd; [|discriminate].
    cbv zeta. set (seq := le_decode (firstn 8 hd)). set (len := le_decode (slice hd 8 4)).
    destruct ((seq =? 0) && (len =? 0)).
    { intros Hr. inversion Hr. subst. unfold total. cbn. split; [lia | left; reflexivity]. }
    destruct (len =? 0) eqn:El0; [discriminate|].
    destruct (add_chk (cursor + EH) len) as [e|k|p] eqn:E3; cbn [obind]; [|discriminate|discriminate].
    apply add_chk_inv in E3 as [-> _].
    destruct (size <? cursor + EH + len); [discriminate|].
    destruct (read_at file (offset + cursor + 48) len) as [payload|] eqn:Epl; [|discriminate].
    apply read_at_some in Epl as [_ Hpl].
    destruct (negb (bytes_eqb (H payload) (slice hd 16 32))); [discriminate|].
    destruct (add_chk EH len) as [tot|k|p] eqn:E4; cbn [obind]; [|discriminate|discriminate].
    apply add_chk_inv in E4 as [-> _].
    destruct (add_chk cursor (EH + len)) as [c'|k|p] eqn:E5; cbn [obind]; [|discriminate|discriminate].
    apply add_chk_inv in E5 as [-> _].
    destruct (scan_chk H f file offset size (cursor + (EH + len))) as [[l' c'']|k|p] eqn:Er; try discriminate.
    intros Hr. inversion Hr. subst.
    destruct (IH _ _ _ Er) as [Hs Hb]. unfold total in *. cbn [map fold_right snd]. split; [lia|].
    right. destruct Hb as [-> | Hb]; [cbn [map fold_right] in Hs; unfold EH in *; lia | exact Hb].
  Qed.

  Lemma total_filter (p : N * N -> bool) l : total (filter p l) <= total l.
  Proof.
    unfold total. induction l as [|x l IH]; cbn [filter map fold_right]; [lia|].
    destruct (p x); cbn [map fold_right]; lia.
  Qed.

  Lemma sum_chk_ok l : forall acc, acc + fold_right N.add 0 l < U64_LIM -> sum_chk l acc = Ok (acc + fold_right N.add 0 l).
  Proof.
    induction l as [|x l IH]; intros acc Hb; cbn [sum_chk fold_right] in *; [f_equal; lia|].
    rewrite (add_chk_ok acc x) by lia. cbn [obind]. rewrite IH by lia. f_equal. lia.
  Qed.

  (* EmbeddedWal::open_internal: no Panic for any file, any header values.  (The region check
     of 03a10a9 makes offset + size <= |file| before the scan; the scan itself was already total.) *)
  Theorem wal_open_chk_no_panic file offset size ckpt_pos ckpt_seq :
    bytes_ok file = true -> N.of_nat (length file) < 2 ^ 63 ->
    forall s, wal_open_chk H file offset size ckpt_pos ckpt_seq <> Panic s.
  Proof.
    intros Hok Hlen s. unfold wal_open_chk.
    destruct (size =? 0) eqn:Es; [discriminate|].
    destruct ((U64_LIM <=? offset + size) || (N.of_nat (length file) <? offset + size)) eqn:Eg; [discriminate|].
    assert (Hoff : offset < 2 ^ 64) by (unfold U64_LIM in Eg; lia).
    pose proof (scan_chk_no_panic file offset size Hok Hlen Hoff (S (length file)) 0) as Hnp.
    destruct (scan_chk H (S (length file)) file offset size 0) as [[l c]|k|p] eqn:Er; cbn [obind fst];
      [|discriminate|exfalso; apply (Hnp p); [left; reflexivity | reflexivity]].
    destruct (scan_chk_sum _ _ _ _ _ _ _ Er) as [Hs Hb].
    pose proof (total_filter (fun e => ckpt_seq <? fst e) l) as Hf. unfold total in Hf, Hs.
    assert (Hc : c < U64_LIM).
    { unfold U64_LIM. destruct Hb as [-> | Hb]; [cbn [map fold_right] in Hs; lia | lia]. }
    rewrite sum_chk_ok by lia. cbn [obind].
    rewrite rem_chk_ok by lia. cbn [obind]. discriminate.
  Qed.

  Theorem wal_open_chk_fuel file offset size ckpt_pos ckpt_seq :
    wal_open_chk H file offset size ckpt_pos ckpt_seq <> Err E_FUEL.
  Proof.
    unfold wal_open_chk. destruct (size =? 0) eqn:Es; [unfold E_WAL_ZERO, E_FUEL; discriminate|].
    destruct ((U64_LIM <=? offset + size) || (N.of_nat (length file) <? offset + size)); [unfold E_WAL_REGION, E_FUEL; discriminate|].
    pose proof (scan_records_terminates file offset size) as Ht.
    destruct (scan_chk H (S (length file)) file offset size 0) as [[l c]|k|p] eqn:Er; cbn [obind fst].
    - destruct (sum_chk _ 0) as [a|k|p] eqn:E1; cbn [obind].
      + destruct (rem_chk ckpt_pos size) as [r|k|p] eqn:E2; cbn [obind]; try discriminate.
        unfold rem_chk in E2. destruct (size =? 0); discriminate.
      + exfalso. clear -E1. revert E1. generalize 0. generalize (map snd (filter (fun e : N * N => ckpt_seq <? fst e) l)).
        intros l0. induction l0 as [|x l0 IH]; intros acc; cbn [sum_chk]; [discriminate|].
        destruct (add_chk acc x) as [a|k'|p] eqn:Ea; cbn [obind]; [apply IH | exfalso; eapply add_chk_not_err; exact Ea | discriminate].
      + discriminate.
    - intros Hk. inversion Hk. subst. apply Ht. reflexivity.
    - discriminate.
  Qed.

  (* the log region an accepted open reads from lies inside the file: nothing is ever read or
     (in the writable flavour: sentinel) written beyond its end *)
  Theorem wal_open_chk_region_inside file offset size ckpt_pos ckpt_seq r :
    wal_open_chk H file offset size ckpt_pos ckpt_seq = Ok r ->
    size <> 0 /\ offset + size <= N.of_nat (length file).
  Proof.
    unfold wal_open_chk. destruct (size =? 0) eqn:Es; [discriminate|].
    destruct ((U64_LIM <=? offset + size) || (N.of_nat (length file) <? offset + size)) eqn:Eg; [discriminate|].
    intros _. lia.
  Qed.
End WalProofs.

(* ------------------------------------------------------------------ verify_toc_prefix *)
Theorem verify_toc_prefix_no_panic b s : verify_toc_prefix b <> Panic s.
Proof.
  unfold verify_toc_prefix.
  repeat match goal with
         | |- context [if ?c then _ else _] => destruct c; try discriminate
         | |- context [match ?o with Some _ => _ | None => _ end] => destruct o; try discriminate
         end.
Qed.

Lemma get_u64_some b lo : (lo + 8 <= length b)%nat -> get_u64 b lo = Some (le_decode (slice b lo 8)).
Proof. intros Hl. unfold get_u64. destruct (Nat.ltb (length b) (lo + 8)) eqn:E; [apply Nat.ltb_lt in E; lia | reflexivity]. Qed.

(* what exactly is accepted *)
Theorem verify_toc_prefix_ok_iff b :
  verify_toc_prefix b = Ok tt <->
  (24 <= length b)%nat /\
  le_decode (slice b 0 8) <= 32 /\ le_decode (slice b 8 8) <= MAX_SEGMENTS /\ le_decode (slice b 16 8) <= MAX_FRAMES /\
  32 * le_decode (slice b 8 8) + 64 * le_decode (slice b 16 8) <= N.of_nat (length b).
Proof.
  unfold verify_toc_prefix.
  destruct (Nat.ltb (length b) 24) eqn:E24.
  { apply Nat.ltb_lt in E24. split; [discriminate | intros (Hl & _); lia]. }
  apply Nat.ltb_ge in E24.
  rewrite !get_u64_some by lia.
  set (ver := le_decode (slice b 0 8)). set (segs := le_decode (slice b 8 8)). set (frames := le_decode (slice b 16 8)).
  unfold MAX_SEGMENTS, MAX_FRAMES, MIN_SEGMENT_META_BYTES, MIN_FRAME_BYTES, sat_add, sat_mul, U64_LIM.
  destruct (32 <? ver) eqn:Ev; [split; [discriminate | intros (_ & Hv & _); lia]|].
  destruct (1000000 <? segs) eqn:Es; [split; [discriminate | intros (_ & _ & Hs & _); lia]|].
  destruct (1000000 <? frames) eqn:Ef; [split; [discriminate | intros (_ & _ & _ & Hf & _); lia]|].
  assert (H1 : N.min (segs * 32) (2 ^ 64 - 1) = segs * 32) by lia.
  assert (H2 : N.min (frames * 64) (2 ^ 64 - 1) = frames * 64) by lia.
  rewrite H1, H2.
  assert (H3 : N.min (segs * 32 + frames * 64) (2 ^ 64 - 1) = segs * 32 + frames * 64) by lia.
  rewrite H3.
  destruct (N.of_nat (length b) <? segs * 32 + frames * 64) eqn:Er.
  - split; [discriminate | intros (_ & _ & _ & _ & Hr); lia].
  - split; [intros _; repeat split; lia | reflexivity].
Qed.

(* ------------------------------------------------------------------ read_toc *)
Section ReadTocProofs.
  Variable H : bytes -> bytes.
  Context {TOC : Type}.
  Variable toc_dec : bytes -> outcome TOC.

  Theorem read_toc_no_panic :
    (forall b s, toc_dec b <> Panic s) ->
    forall file footer_offset s, read_toc H toc_dec file footer_offset <> Panic s.
  Proof.
    intros Hdec file fo s. unfold read_toc.
    destruct (N.of_nat (length file) <? fo) eqn:E1; [discriminate|].
    destruct (negb (seek_ok fo)); [discriminate|].
    rewrite sub_chk_ok by lia. cbn [obind].
    destruct (MAX_INDEX_BYTES <? N.of_nat (length file) - fo); [discriminate|].
    destruct (N.of_nat (length file) - fo <? N.of_nat FOOTER_SIZE) eqn:E3; [discriminate|].
    assert (Hbl : length (skipn (N.to_nat fo) file) = (length file - N.to_nat fo)%nat) by apply skipn_length.
    rewrite sub_chk_ok by (rewrite Hbl; lia). cbn [obind].
    destruct (Nat.ltb (length (skipn (N.to_nat fo) file)) _) eqn:E4.
    { apply Nat.ltb_lt in E4. rewrite Hbl in E4. lia. }
    destruct (footer_decode _) as [f|]; [|discriminate].
    destruct (negb (_ =? toc_len f)); [discriminate|].
    destruct (negb (bytes_eqb _ (toc_hash f))); [discriminate|].
    pose proof (verify_toc_prefix_no_panic (firstn (N.to_nat (N.of_nat (length (skipn (N.to_nat fo) file)) - N.of_nat FOOTER_SIZE)) (skipn (N.to_nat fo) file))) as Hv.
    destruct (verify_toc_prefix _) as [u|k|p]; [apply Hdec | discriminate | exfalso; apply (Hv p); reflexivity].
  Qed.
End ReadTocProofs.

(* ------------------------------------------------------------------ locate_footer_window *)
Section LocateProofs.
  Context {A : Type}.
  Variable find : bytes -> option A.

  (* measure: the number k of doublings still needed to cover the file; fuel k + 1 suffices *)
  Lemma locate_loop_total mmap :
    N.of_nat (length mmap) < 2 ^ 63 ->
    forall fuel (k : nat) window,
      1 <= window <= N.of_nat (length mmap) ->
      N.of_nat (length mmap) <= window * 2 ^ N.of_nat k -> (k < fuel)%nat ->
      exists r, locate_loop find fuel mmap window = Ok r.
  Proof.
    intros Hlen. induction fuel as [|f IH]; intros k window Hw Hk Hf; [lia|]. cbn [locate_loop].
    rewrite sub_chk_ok by lia. cbn [obind].
    destruct (Nat.ltb (length mmap) (N.to_nat (N.of_nat (length mmap) - window))) eqn:E1; [apply Nat.ltb_lt in E1; lia|].
    destruct (find _) as [s|]; [eexists; reflexivity|].
    destruct (window =? N.of_nat (length mmap)) eqn:E2; [eexists; reflexivity|].
    rewrite mul_chk_ok by (unfold U64_LIM; lia). cbn [obind].
    destruct k as [|k].
    { change (2 ^ N.of_nat 0) with 1 in Hk. lia. }
    apply (IH k); [lia | | lia].
    rewrite Nat2N.inj_succ, N.pow_succ_r' in Hk.
    assert (Hp : 1 <= 2 ^ N.of_nat k) by (pose proof (N.pow_nonzero 2 (N.of_nat k)); lia).
    set (P := 2 ^ N.of_nat k) in *.
    destruct (N.min_spec (window * 2) (N.of_nat (length mmap))) as [[Hlt ->] | [Hge ->]]; nia.
  Qed.

  Theorem locate_footer_window_total mmap :
    N.of_nat (length mmap) < 2 ^ 63 -> exists r, locate_footer_window find mmap = Ok r.
  Proof.
    intros Hlen. unfold locate_footer_window. destruct mmap as [|x m] eqn:Em; [eexists; reflexivity|]. rewrite <- Em in *.
    assert (Hpos : 1 <= N.of_nat (length mmap)) by (subst mmap; cbn [length]; lia).
    apply (locate_loop_total mmap Hlen 65%nat 64%nat); [unfold MAX_SEARCH_SIZE; lia | | lia].
    change (2 ^ N.of_nat 64) with 18446744073709551616. unfold MAX_SEARCH_SIZE. lia.
  Qed.
End LocateProofs.

(* ------------------------------------------------------------------ ensure_non_overlapping_frames *)
Lemma overlap_loop_no_panic l : forall file_len ps pe s, overlap_loop l file_len ps pe <> Panic s.
Proof.
  induction l as [|[[a off] len] l IH]; intros file_len ps pe s; cbn [overlap_loop]; [discriminate|].
  repeat match goal with |- context [if ?c then _ else _] => destruct c; try discriminate end; apply IH.
Qed.
Theorem ensure_non_overlapping_no_panic frames file_len s : ensure_non_overlapping frames file_len <> Panic s.
Proof. apply overlap_loop_no_panic. Qed.

(* ------------------------------------------------------------------ Mv2eHeader::decode *)
Theorem mv2e_decode_no_panic b s : mv2e_decode b <> Panic s.
Proof.
  unfold mv2e_decode. repeat match goal with |- context [if ?c then _ else _] => destruct c; try discriminate end.
Qed.

(* ------------------------------------------------------------------ header read *)
Theorem header_read_no_panic file s : fst (header_read file) <> Panic s.
Proof.
  unfold header_read. destruct (Nat.ltb (length file) HEADER_SIZE); cbn [fst]; [discriminate|].
  destruct (legacy_dirty _); cbn [fst]; apply header_decode_no_panic.
Qed.

(* ------------------------------------------------------------------ bincode / Toc::decode *)
Lemma bind_no_panic {A B} (o : outcome A) (f : A -> outcome B) :
  (forall s, o <> Panic s) -> (forall a s, f a <> Panic s) -> forall s, Bincode.bind o f <> Panic s.
Proof.
  intros Ho Hf s. destruct o as [a|k|p]; cbn [Bincode.bind]; [apply Hf | discriminate | exfalso; apply (Ho p); reflexivity].
Qed.
Lemma take_no_panic k bs s : take k bs <> Panic s.
Proof. unfold take. destruct (Nat.ltb (length bs) k); discriminate. Qed.
Lemma dec_uint_no_panic k bs s : dec_uint k bs <> Panic s.
Proof. unfold dec_uint. apply bind_no_panic; [intros; apply take_no_panic | discriminate]. Qed.
Lemma dec_blob_no_panic bs s : dec_blob bs <> Panic s.
Proof.
  unfold dec_blob. apply bind_no_panic; [intros; apply dec_uint_no_panic|].
  intros a s'. destruct (_ <? _); discriminate.
Qed.
Lemma dec_string_no_panic bs s : dec_string bs <> Panic s.
Proof.
  unfold dec_string. apply bind_no_panic; [intros; apply dec_blob_no_panic|].
  intros a s'. destruct (utf8_valid _); discriminate.
Qed.
Lemma dec_seq_no_panic' fs :
  Forall (fun f : decoder => forall bs p, f bs <> Panic p) fs -> forall bs p, dec_seq fs bs <> Panic p.
Proof.
  induction fs as [|f fs IH]; intros HF bs p; cbn [dec_seq]; [discriminate|].
  inversion HF as [|? ? Hf Hfs]; subst.
  apply bind_no_panic; [intros; apply Hf|]. intros a s'.
  apply bind_no_panic; [intros; apply (IH Hfs) | discriminate].
Qed.
Lemma dec_map_no_panic (f : decoder) bound :
  (forall bs p, f bs <> Panic p) -> forall n bs acc p, dec_map f bound n bs acc <> Panic p.
Proof.
  intros Hf. induction n as [|n IH]; intros bs acc p; cbn [dec_map]; [discriminate|].
  apply bind_no_panic; [intros; apply dec_string_no_panic|]. intros kr s'.
  apply bind_no_panic; [intros; apply Hf|]. intros vr s''.
  destruct (match bound with Some b => _ | None => false end); [discriminate | apply IH].
Qed.

(* the generic decoder never panics, whatever the schema and the bytes *)
Theorem dec_no_panic : forall s bs p, dec s bs <> Panic p.
Proof.
  apply (schema_strong_ind (fun s => forall bs p, dec s bs <> Panic p)).
  intros s IH bs p.
  destruct s; cbn [dec];
    try (apply bind_no_panic; [intros; first [apply dec_uint_no_panic | apply dec_string_no_panic | apply dec_blob_no_panic | apply take_no_panic] | intros a s'; repeat match goal with |- context [if ?c then _ else _] => destruct c end; discriminate]).
  - (* SOpt *) apply bind_no_panic; [intros; apply dec_uint_no_panic|]. intros a s'.
    destruct (fst a =? 0); [discriminate|]. destruct (fst a =? 1); [|discriminate].
    apply bind_no_panic; [intros; apply IH; left; reflexivity | discriminate].
  - (* SVec *) apply bind_no_panic; [intros; apply dec_uint_no_panic|]. intros a s'.
    destruct (negb _); [discriminate|]. destruct (_ <? _); [discriminate|].
    apply bind_no_panic; [|discriminate]. intros s''. apply dec_seq_no_panic'.
    apply Forall_forall. intros f Hin. apply repeat_spec in Hin. subst f. apply IH. left; reflexivity.
  - (* SMap *) apply bind_no_panic; [intros; apply dec_uint_no_panic|]. intros a s'.
    destruct (_ <? _); [discriminate|].
    apply bind_no_panic; [|discriminate]. intros s''. apply dec_map_no_panic. apply IH. left; reflexivity.
  - (* SArr *) apply bind_no_panic; [|discriminate]. intros s'. apply dec_seq_no_panic'.
    apply Forall_forall. intros f Hin. apply repeat_spec in Hin. subst f. apply IH. left; reflexivity.
  - (* STup *) apply bind_no_panic; [|discriminate]. intros s'. apply dec_seq_no_panic'.
    apply Forall_forall. intros f Hin. apply in_map_iff in Hin as (c & <- & Hc). apply IH. exact Hc.
  - (* SUnsupported *) discriminate.
Qed.

Theorem decode_exact_no_panic s bs p : decode_exact s bs <> Panic p.
Proof.
  unfold decode_exact. pose proof (dec_no_panic s bs) as Hd.
  destruct (dec s bs) as [[v [|x r]]|k|q]; try discriminate. exfalso. apply (Hd q). reflexivity.
Qed.

Theorem toc_decode_no_panic bs p : toc_decode bs <> Panic p.
Proof.
  unfold toc_decode.
  pose proof (dec_no_panic toc_schema bs) as H0. pose proof (dec_no_panic toc_v2_schema bs) as H1.
  pose proof (dec_no_panic toc_v1_schema bs) as H2.
  destruct (dec toc_schema bs) as [[v [|x r]]|k|q]; try discriminate; [|exfalso; apply (H0 q); reflexivity].
  destruct (dec toc_v2_schema bs) as [[v [|x r]]|k'|q]; try discriminate; [|exfalso; apply (H1 q); reflexivity].
  destruct (dec toc_v1_schema bs) as [[v [|x r]]|k''|q]; try discriminate. exfalso; apply (H2 q); reflexivity.
Qed.

(* ------------------------------------------------------------------ sketch track read *)
Lemma sketch_read_entries_no_panic v : forall n i rest acc s, Sketch.read_entries v n i rest acc <> Panic s.
Proof.
  induction n as [|n IH]; intros i rest acc s; cbn [Sketch.read_entries]; [discriminate|].
  destruct (Nat.ltb _ _); [discriminate | apply IH].
Qed.

(* total since bc37f0b: the length computation is checked *)
Theorem read_sketch_track_no_panic file offset len s : read_sketch_track file offset len <> Panic s.
Proof.
  unfold read_sketch_track.
  destruct (N.of_nat (length file) <? offset); [discriminate|].
  destruct (Nat.ltb _ Sketch.SKETCH_HEADER_SIZE); [discriminate|]. cbv zeta.
  destruct (negb (bytes_eqb _ Sketch.SKETCH_TRACK_MAGIC)); [discriminate|].
  destruct (Sketch.variant_of_size _) as [v|]; [|discriminate].
  destruct (U64_LIM <=? _); [discriminate|]. destruct (U64_LIM <=? _); [discriminate|].
  destruct (len <? _); [discriminate|]. destruct (_ / _ <? _); [discriminate|].
  match goal with |- context [Sketch.read_entries v ?n ?i ?r ?a] => pose proof (sketch_read_entries_no_panic v n i r a) as Hn; destruct (Sketch.read_entries v n i r a) as [es|k|p] end;
    try discriminate. exfalso. apply (Hn p). reflexivity.
Qed.

(* an overflowing count is now an error, for every declared length *)
Theorem read_sketch_track_overflow_is_error file offset len :
  offset <= N.of_nat (length file) ->
  let r := skipn (N.to_nat offset) file in
  (Sketch.SKETCH_HEADER_SIZE <= length r)%nat ->
  let hb := firstn Sketch.SKETCH_HEADER_SIZE r in
  bytes_eqb (slice hb 0 4) Sketch.SKETCH_TRACK_MAGIC = true ->
  Sketch.variant_of_size (Sketch.u16_at hb 6) <> None ->
  2 ^ 64 <= N.of_nat Sketch.SKETCH_HEADER_SIZE + Sketch.u64_at hb 8 * Sketch.u16_at hb 6 ->
  read_sketch_track file offset len = Err E_SK_OVERFLOW.
Proof.
  intros Ho r Hr hb Hm Hv Hov. unfold read_sketch_track. fold r. fold hb.
  destruct (N.of_nat (length file) <? offset) eqn:E1; [lia|].
  destruct (Nat.ltb (length r) Sketch.SKETCH_HEADER_SIZE) eqn:E2; [apply Nat.ltb_lt in E2; lia|].
  cbv zeta. fold hb. rewrite Hm. cbn [negb].
  destruct (Sketch.variant_of_size (Sketch.u16_at hb 6)) as [v|]; [|contradiction].
  unfold U64_LIM.
  destruct (2 ^ 64 <=? Sketch.u64_at hb 8 * Sketch.u16_at hb 6) eqn:E3; [reflexivity|].
  destruct (2 ^ 64 <=? Sketch.u64_at hb 8 * Sketch.u16_at hb 6 + N.of_nat Sketch.SKETCH_HEADER_SIZE) eqn:E4; [reflexivity | lia].
Qed.

(* ------------------------------------------------------------------ time index read_track *)
Lemma ti_read_entries_no_panic fuel : forall bs count prev s, ti_read_entries fuel bs count prev <> Panic s.
Proof.
  induction fuel as [|f IH]; intros bs count prev s; cbn [ti_read_entries].
  - destruct (count =? 0); discriminate.
  - destruct (count =? 0); [discriminate|].
    destruct (negb (Nat.eqb _ 16)); [discriminate|]. cbv zeta.
    match goal with |- context [if ?c then Err E_TI_UNSORTED else _] => destruct c; [discriminate|] end.
    match goal with |- context [ti_read_entries f ?b ?c ?p] => pose proof (IH b c p) as Hn; destruct (ti_read_entries f b c p) as [l|k|q] end;
      try discriminate. exfalso. apply (Hn q). reflexivity.
Qed.

(* total since b6c8721, whatever the allocator answers *)
Theorem ti_read_track_no_panic (alloc_ok : N -> bool) file offset len s : ti_read_track alloc_ok file offset len <> Panic s.
Proof.
  unfold ti_read_track.
  repeat match goal with |- context [if ?c then Err _ else _] => destruct c; [discriminate|] end.
  apply ti_read_entries_no_panic.
Qed.

(* the class that used to panic (count * 16 >= 2^63 with the matching length) is now the error
   "entry count too large", and nothing is allocated for it *)
Theorem ti_read_track_capacity_class_is_error (alloc_ok : N -> bool) file offset len :
  let avail := skipn offset file in
  (12 <= length avail)%nat -> firstn 4 avail = TI_MAGIC ->
  let count := le_decode (slice avail 4 8) in
  count * 16 < 2 ^ 64 -> len = 12 + count * 16 -> 2 ^ 63 <= count * 16 ->
  ti_read_track alloc_ok file offset len = Err E_TI_TOO_LARGE.
Proof.
  intros avail Hl Hm count Hc Hlen Hbig. unfold ti_read_track. fold avail. cbv zeta. fold count.
  destruct (Nat.ltb (length avail) 4) eqn:E1; [apply Nat.ltb_lt in E1; lia|].
  rewrite Hm, bytes_eqb_refl. cbn [negb].
  destruct (Nat.ltb (length avail) 12) eqn:E2; [apply Nat.ltb_lt in E2; lia|].
  destruct (len <? 12) eqn:E3; [lia|]. unfold U64_LIM.
  destruct (2 ^ 64 <=? count * 16) eqn:E4; [lia|].
  destruct (len - 12 =? count * 16) eqn:E5; [|lia]. cbn [negb].
  destruct (2 ^ 64 <=? count) eqn:E6; [lia|].
  destruct (2 ^ 63 <=? count * 16) eqn:E7; [reflexivity | lia].
Qed.

(* ------------------------------------------------------------------ cursor / top_k arithmetic *)
Theorem parse_cursor_no_panic c total s : parse_cursor c total <> Panic s.
Proof. unfold parse_cursor. destruct c as [[n p| |]|]; try discriminate. destruct (total <? n); discriminate. Qed.

Lemma sat_add_le a b : sat_add a b <= USIZE_LAST.
Proof. unfold sat_add, USIZE_LAST. lia. Qed.
Lemma sat_mul_le a b : sat_mul a b <= USIZE_LAST.
Proof. unfold sat_mul, USIZE_LAST. lia. Qed.

(* since 9b4da04 these are total functions; what remains to state is that every value fits a
   usize and that the collector is never asked for 0 documents (Tantivy panics on a limit of 0)
   nor for more than the index holds (it allocates 2 * limit entries up front) *)
Theorem search_doc_limit_in_range top_k hint flt :
  (forall f, flt = Some f -> f <= USIZE_LAST) -> 1 <= search_doc_limit top_k hint flt <= USIZE_LAST.
Proof.
  intros Hf. unfold search_doc_limit. cbv zeta.
  pose proof (sat_mul_le (sat_add (N.max top_k 1) hint) 4) as Hm. unfold USIZE_LAST, U64_LIM in *.
  destruct flt as [f|]; [specialize (Hf f eq_refl)|]; lia.
Qed.

Theorem sketch_max_candidates_in_range top_k : 500 <= sketch_max_candidates top_k <= USIZE_LAST.
Proof. unfold sketch_max_candidates. pose proof (sat_mul_le top_k 10). unfold USIZE_LAST, U64_LIM in *. lia. Qed.

Theorem collector_limit_bounded limit index_docs :
  1 <= collector_limit limit index_docs <= N.max index_docs 1 /\ collector_limit limit index_docs <= N.max limit 1.
Proof. unfold collector_limit. lia. Qed.

Theorem recency_age_in_range max_ts ts : (0 <= recency_age max_ts ts <= 2 ^ 63 - 1)%Z.
Proof. unfold recency_age, sat_sub_i64. lia. Qed.

(* ------------------------------------------------------------------ open_locked *)
Section OpenCtlProofs.
  Context {TOC ST : Type}.

  Definition comps_no_panic (c : @components TOC ST) : Prop :=
    (forall s, c_seek0 c <> Panic s) /\ (forall s, c_header c <> Panic s) /\
    (forall h s, c_read_toc c h <> Panic s) /\ (forall h s, c_recover c h <> Panic s) /\
    (forall h s, c_persist c h <> Panic s) /\ (forall t s, c_nonoverlap c t <> Panic s) /\
    (forall h s, c_wal c h <> Panic s) /\ (forall s, c_generation c <> Panic s) /\
    Forall (fun f : ST -> outcome ST => forall st s, f st <> Panic s) (c_loaders c) /\
    (forall s, c_sync c <> Panic s).

  Lemma run_loaders_no_panic (ls : list (ST -> outcome ST)) :
    Forall (fun f : ST -> outcome ST => forall st s, f st <> Panic s) ls ->
    forall st s, run_loaders ls st <> Panic s.
  Proof.
    induction ls as [|f ls IH]; intros HF st s; cbn [run_loaders]; [discriminate|].
    inversion HF as [|? ? Hf Hls]; subst.
    apply obind_no_panic; [intros; apply Hf | intros; apply (IH Hls)].
  Qed.

  (* if every decoder / loader answers Ok or Err, open answers Ok or Err *)
  Theorem open_locked_no_panic (c : @components TOC ST) :
    comps_no_panic c -> forall s, open_locked c <> Panic s.
  Proof.
    intros (Hseek & Hhdr & Hrt & Hrec & Hper & Hno & Hwal & Hgen & Hld & Hsync). unfold open_locked.
    apply obind_no_panic; [exact Hseek|]. intros _ _.
    destruct (c_sniff c); [discriminate|].
    apply obind_no_panic; [exact Hhdr|]. intros h _.
    apply obind_no_panic.
    - intros s. pose proof (Hrt h) as Hr. destruct (c_read_toc c h) as [t|k|p]; [discriminate | | exfalso; apply (Hr p); reflexivity].
      destruct (c_recoverable c k); [|discriminate].
      apply obind_no_panic; [apply Hrec|]. intros [t off] _ s'.
      destruct (negb _ || negb _); [|discriminate].
      apply obind_no_panic; [apply Hper | discriminate].
    - intros [h1 t] _.
      apply obind_no_panic; [apply Hno|]. intros _ _.
      apply obind_no_panic; [apply Hwal|]. intros _ _.
      apply obind_no_panic; [exact Hgen|]. intros g _.
      apply obind_no_panic; [apply run_loaders_no_panic; exact Hld|]. intros st _ s.
      destruct (c_verify c t); [discriminate|].
      destruct (negb (c_verify c (c_final_toc c st))); [discriminate|].
      destruct (negb (bytes_eqb _ _)); [|discriminate].
      apply obind_no_panic; [apply Hper|]. intros _ _.
      apply obind_no_panic; [exact Hsync | discriminate].
  Qed.

  Corollary open_locked_ok_or_err (c : @components TOC ST) :
    comps_no_panic c -> (exists st, open_locked c = Ok st) \/ (exists k, open_locked c = Err k).
  Proof.
    intros Hc. pose proof (open_locked_no_panic c Hc) as Hn.
    destruct (open_locked c) as [st|k|p]; [left; eexists; reflexivity | right; eexists; reflexivity | exfalso; apply (Hn p); reflexivity].
  Qed.
End OpenCtlProofs.

(* ------------------------------------------------------------------ footer scan (Model/Footer.v is total by construction) *)
Theorem footer_scan_answers (H : bytes -> bytes) b :
  (find_last_valid_footer H b = None /\ forall q, valid_at H b q = false) \/
  (exists s pos, find_last_valid_footer H b = Some s /\ valid_at H b pos = true /\
                 slice_at b pos = Some s /\ (pos + FOOTER_SIZE <= length b)%nat).
Proof.
  destruct (find_last_valid_footer H b) as [s|] eqn:E.
  - right. apply find_last_valid_footer_some in E as (pos & Hv & Hs & _). exists s, pos.
    repeat split; [exact Hv | exact Hs | eapply valid_at_in_range; exact Hv].
  - left. split; [reflexivity|]. apply find_last_valid_footer_none. exact E.
Qed.

(* read_toc with the concrete Toc::decode of Model/Toc.v *)
Theorem read_toc_concrete_no_panic (H : bytes -> bytes) file footer_offset s :
  read_toc H toc_decode file footer_offset <> Panic s.
Proof. apply read_toc_no_panic. exact toc_decode_no_panic. Qed.
