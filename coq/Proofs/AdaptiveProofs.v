(* Proofs about Model/Adaptive.v that do not depend on what a score is: they hold for EVERY
   score type and EVERY interpretation of the operations in `fops` (in particular for IEEE
   floats with NaN, infinities and signed zeros).  Flocq-free: the assumption list of every
   theorem here is empty. *)
From Coq Require Import ZifyBool ZifyNat ZifyN.
From MV Require Import Base.Prelude Model.Adaptive.

Section Generic.
  Context {F : Type} (O : fops F).

  (* ---------------- normalize_scores: shape ---------------- *)
  Lemma normalize_length : forall scores, length (normalize_scores O scores) = length scores.
  Proof.
    intros [|s r]; [reflexivity|]. unfold normalize_scores.
    destruct (ltb O _ _); [apply repeat_length | apply map_length].
  Qed.

  Lemma normalized_of_length : forall scores cfg, length (normalized_of O scores cfg) = length scores.
  Proof. intros scores cfg. unfold normalized_of. destruct (cfg_normalize cfg); [apply normalize_length|reflexivity]. Qed.

  (* the all-equal branch: range < EPSILON gives 1.0 everywhere *)
  Lemma normalize_flat : forall scores,
    scores <> [] -> ltb O (score_range O scores) (f_eps O) = true ->
    normalize_scores O scores = repeat (f_one O) (length scores).
  Proof. intros [|s r] Hne H; [congruence|]. unfold normalize_scores. rewrite H. reflexivity. Qed.

  Lemma normalize_scaled : forall scores,
    scores <> [] -> ltb O (score_range O scores) (f_eps O) = false ->
    normalize_scores O scores =
    map (fun s => f_div O (f_sub O s (min_score O scores)) (score_range O scores)) scores.
  Proof. intros [|s r] Hne H; [congruence|]. unfold normalize_scores. rewrite H. reflexivity. Qed.

  (* ---------------- find_absolute_cutoff ---------------- *)
  Lemma abs_loop_some : forall thr m l pre k d,
    abs_loop O thr m (length pre) l = Some k ->
    (length pre <= k < length pre + length l)%nat /\ (m <= k)%nat /\
    ltb O (nth k (pre ++ l) d) thr = true /\
    (forall j, (length pre <= j < k)%nat -> (m <= j)%nat -> ltb O (nth j (pre ++ l) d) thr = false).
  Proof.
    intros thr m l. induction l as [|s r IH]; intros pre k d H; cbn [abs_loop] in H.
    - discriminate.
    - destruct (ltb O s thr && (m <=? length pre)%nat) eqn:E.
      + inversion H; subst k. apply andb_true_iff in E as [E1 E2]. apply Nat.leb_le in E2.
        cbn [length]. refine (conj _ (conj _ (conj _ _))); try lia.
        rewrite app_nth2 by lia. rewrite Nat.sub_diag. exact E1.
      + specialize (IH (pre ++ [s]) k d). rewrite app_length in IH. cbn [length] in IH.
        replace (length pre + 1)%nat with (S (length pre)) in IH by lia.
        rewrite <- app_assoc in IH. cbn [app] in IH. specialize (IH H). destruct IH as (B1 & B2 & B3 & B4).
        cbn [length]. refine (conj _ (conj _ (conj _ _))); try lia; try assumption.
        intros j Hj Hm. destruct (Nat.eq_dec j (length pre)) as [Heq|Hne].
        * subst j. rewrite app_nth2 by lia. rewrite Nat.sub_diag. cbn [nth].
          apply andb_false_iff in E. destruct E as [E|E]; [exact E|]. apply Nat.leb_gt in E. lia.
        * apply B4; lia.
  Qed.

  Lemma abs_loop_none : forall thr m l pre d,
    abs_loop O thr m (length pre) l = None ->
    forall j, (length pre <= j < length pre + length l)%nat -> (m <= j)%nat ->
              ltb O (nth j (pre ++ l) d) thr = false.
  Proof.
    intros thr m l. induction l as [|s r IH]; intros pre d H j Hj Hm; cbn [abs_loop length] in *.
    - lia.
    - destruct (ltb O s thr && (m <=? length pre)%nat) eqn:E; [discriminate|].
      destruct (Nat.eq_dec j (length pre)) as [Heq|Hne].
      + subst j. rewrite app_nth2 by lia. rewrite Nat.sub_diag. cbn [nth].
        apply andb_false_iff in E. destruct E as [E|E]; [exact E|]. apply Nat.leb_gt in E. lia.
      + specialize (IH (pre ++ [s]) d). rewrite app_length in IH. cbn [length] in IH.
        replace (length pre + 1)%nat with (S (length pre)) in IH by lia.
        rewrite <- app_assoc in IH. cbn [app] in IH. apply IH; [exact H| lia | exact Hm].
  Qed.

  (* complete description of find_absolute_cutoff: the cut-off is the least index >= m whose score
     is below the threshold, or the length if there is none *)
  Lemma find_absolute_cutoff_spec : forall scores thr m d,
    let c := fst (find_absolute_cutoff O scores thr m) in
    (c <= length scores)%nat /\
    (c < length scores -> (m <= c)%nat /\ ltb O (nth c scores d) thr = true)%nat /\
    (forall j, (m <= j)%nat -> (j < c)%nat -> ltb O (nth j scores d) thr = false).
  Proof.
    intros scores thr m d c. subst c. unfold find_absolute_cutoff.
    destruct (abs_loop O thr m 0 scores) as [k|] eqn:E; cbn [fst].
    - apply (abs_loop_some thr m scores [] k d) in E. cbn [length app] in E.
      destruct E as (B1 & B2 & B3 & B4). refine (conj _ (conj _ _)).
      + lia.
      + intros _. split; [lia | exact B3].
      + intros j Hm Hj. apply B4; lia.
    - refine (conj _ (conj _ _)); [lia | intros Hlt; exfalso; lia |].
      intros j Hm Hj. apply (abs_loop_none thr m scores [] d E); cbn [length]; lia.
  Qed.

  Lemma find_absolute_cutoff_label : forall scores thr m,
    snd (find_absolute_cutoff O scores thr m) = T_ABSOLUTE_THRESHOLD \/
    (snd (find_absolute_cutoff O scores thr m) = T_NO_CUTOFF /\
     fst (find_absolute_cutoff O scores thr m) = length scores).
  Proof.
    intros. unfold find_absolute_cutoff. destruct (abs_loop O thr m 0 scores); cbn [fst snd]; auto.
  Qed.

  (* ---------------- find_cliff_cutoff ---------------- *)
  Lemma cliff_loop_some : forall md m l i prev k,
    cliff_loop O md m i prev l = Some k -> (i <= k < i + length l)%nat /\ (m <= k)%nat.
  Proof.
    intros md m l. induction l as [|curr r IH]; intros i prev k H; cbn [cliff_loop length] in *.
    - discriminate.
    - destruct (i <? m)%nat eqn:E.
      + apply IH in H. lia.
      + apply Nat.ltb_ge in E. destruct (is_cliff O md prev curr).
        * inversion H; subst. lia.
        * apply IH in H. lia.
  Qed.

  Lemma find_cliff_cutoff_bounds : forall scores md m,
    (m <= length scores)%nat ->
    (m <= fst (find_cliff_cutoff O scores md m) <= length scores)%nat.
  Proof.
    intros [|s0 r] md m Hm; unfold find_cliff_cutoff; cbn [fst length] in *; [lia|].
    destruct (cliff_loop O md m 1 s0 r) as [k|] eqn:E; cbn [fst length].
    - apply cliff_loop_some in E. lia.
    - lia.
  Qed.

  (* ---------------- find_combined_cutoff ---------------- *)
  Lemma comb_loop_some : forall rel md am m l i prev k t,
    comb_loop O rel md am m i prev l = Some (k, t) -> (i <= k < i + length l)%nat /\ (m <= k)%nat.
  Proof.
    intros rel md am m l. induction l as [|s r IH]; intros i prev k t H; cbn [comb_loop length] in *.
    - discriminate.
    - destruct (i <? m)%nat eqn:E.
      + apply IH in H. lia.
      + apply Nat.ltb_ge in E.
        destruct (ltb O s am); [inversion H; subst; lia|].
        destruct (ltb O s rel); [inversion H; subst; lia|].
        destruct (match prev with Some p => is_cliff O md p s | None => false end);
          [inversion H; subst; lia|].
        apply IH in H. lia.
  Qed.

  Lemma find_combined_cutoff_bounds : forall scores top rel md am m,
    (m <= length scores)%nat ->
    (m <= fst (find_combined_cutoff O scores top rel md am m) <= length scores)%nat.
  Proof.
    intros scores top rel md am m Hm. unfold find_combined_cutoff.
    destruct (comb_loop O (f_mul O top rel) md am m 0 None scores) as [[k t]|] eqn:E; cbn [fst].
    - apply comb_loop_some in E. lia.
    - lia.
  Qed.

  (* ---------------- find_elbow_cutoff ---------------- *)
  Lemma elbow_loop_index : forall n sens x1 y1 x2 y2 ll cnt i l md e,
    let r := elbow_loop O n sens x1 y1 x2 y2 ll cnt i l md e in
    snd r = e \/ (i <= snd r < i + cnt)%nat.
  Proof.
    intros n sens x1 y1 x2 y2 ll cnt. induction cnt as [|c IH]; intros i l md e; cbn [elbow_loop].
    - left; reflexivity.
    - destruct l as [|y0 r]; [left; reflexivity|].
      match goal with |- context [if ?b then _ else _] => destruct b end.
      + specialize (IH (S i) r
          (f_mul O (f_div O (f_abs O (f_sub O (f_add O (f_sub O (f_mul O (f_sub O y2 y1) (x_norm O n i))
                                                            (f_mul O (f_sub O x2 x1) y0))
                                                     (f_mul O x2 y1))
                                            (f_mul O y2 x1))) ll)
                 (f_add O (f_one O) (f_mul O sens (f_sub O (f_one O) (x_norm O n i))))) i).
        cbv zeta in IH. destruct IH as [IH|IH]; right; lia.
      + specialize (IH (S i) r md e). cbv zeta in IH. destruct IH as [IH|IH]; [left; exact IH | right; lia].
  Qed.

  (* `elbow_index + 1 <= n`: the loop ranges over min_results .. n-1 and the caller guarantees
     min_results < n *)
  Lemma find_elbow_cutoff_bounds : forall scores sens m,
    (m < length scores)%nat ->
    (m <= fst (find_elbow_cutoff O scores sens m) <= length scores)%nat.
  Proof.
    intros scores sens m Hm. unfold find_elbow_cutoff.
    destruct (length scores <? 3)%nat; cbn [fst]; [lia|].
    match goal with |- context [if ?b then _ else _] => destruct b end; cbn [fst]; [lia|].
    match goal with |- context [elbow_loop O ?n ?s ?x1 ?y1 ?x2 ?y2 ?ll ?cnt ?i ?l ?md ?e] =>
      pose proof (elbow_loop_index n s x1 y1 x2 y2 ll cnt i l md e) as Hidx;
      destruct (elbow_loop O n s x1 y1 x2 y2 ll cnt i l md e) as [mx idx] end.
    cbv zeta in Hidx. cbn [snd] in Hidx.
    match goal with |- context [if ?b then _ else _] => destruct b end; cbn [fst]; lia.
  Qed.

  (* ---------------- find_adaptive_cutoff ---------------- *)
  Definition strategy_result (normalized : list F) (top : F) (s : strategy F) (m : nat) : nat * N :=
    match s with
    | AbsoluteThreshold min_score => find_absolute_cutoff O normalized min_score m
    | RelativeThreshold min_ratio => find_absolute_cutoff O normalized (f_mul O top min_ratio) m
    | ScoreCliff max_drop => find_cliff_cutoff O normalized max_drop m
    | Elbow sens => find_elbow_cutoff O normalized sens m
    | Combined rel drop absmin => find_combined_cutoff O normalized top rel drop absmin m
    end.

  Lemma strategy_result_bounds : forall normalized top s m,
    (m < length normalized)%nat ->
    (m <= fst (strategy_result normalized top s m) <= length normalized)%nat.
  Proof.
    intros normalized top s m Hm. destruct s; cbn [strategy_result].
    - pose proof (find_absolute_cutoff_spec normalized min_score m top) as H. cbv zeta in H.
      destruct H as (H1 & H2 & _). lia.
    - pose proof (find_absolute_cutoff_spec normalized (f_mul O top min_ratio) m top) as H. cbv zeta in H.
      destruct H as (H1 & H2 & _). lia.
    - apply find_cliff_cutoff_bounds; lia.
    - apply find_elbow_cutoff_bounds; lia.
    - apply find_combined_cutoff_bounds; lia.
  Qed.

  (* unfolding of the top-level function past its two early exits *)
  Lemma find_adaptive_cutoff_cases : forall scores cfg,
    (scores = [] /\ find_adaptive_cutoff O scores cfg = Ok (0%nat, T_NO_RESULTS)) \/
    (scores <> [] /\ (N.of_nat (length scores) <= cfg_min_results cfg)%N /\
     find_adaptive_cutoff O scores cfg = Ok (length scores, T_MIN_RESULTS)) \/
    (scores <> [] /\ (cfg_min_results cfg < N.of_nat (length scores))%N /\
     exists top rest, normalized_of O scores cfg = top :: rest /\
       find_adaptive_cutoff O scores cfg =
       Ok (strategy_result (normalized_of O scores cfg) top (cfg_strategy cfg)
                           (N.to_nat (cfg_min_results cfg)))).
  Proof.
    intros scores cfg. destruct scores as [|s0 r]; [left; split; reflexivity|].
    right. remember (s0 :: r) as scores eqn:Es.
    assert (Hne : scores <> []) by (subst scores; discriminate).
    assert (Hunf : find_adaptive_cutoff O scores cfg =
                   if (N.of_nat (length scores) <=? cfg_min_results cfg)%N
                   then Ok (length scores, T_MIN_RESULTS)
                   else match normalized_of O scores cfg with
                        | [] => Panic SITE_NORMALIZED_0
                        | top :: _ => Ok (strategy_result (normalized_of O scores cfg) top (cfg_strategy cfg)
                                                          (N.to_nat (cfg_min_results cfg)))
                        end).
    { subst scores. reflexivity. }
    rewrite Hunf. clear Hunf.
    destruct (N.of_nat (length scores) <=? cfg_min_results cfg)%N eqn:E.
    - left. apply N.leb_le in E. split; [exact Hne|]. split; [exact E | reflexivity].
    - right. apply N.leb_gt in E. split; [exact Hne|]. split; [exact E|].
      pose proof (normalized_of_length scores cfg) as Hl.
      destruct (normalized_of O scores cfg) as [|top rest] eqn:En.
      + subst scores. cbn [length] in Hl. lia.
      + exists top, rest. split; reflexivity.
  Qed.

  (* C37, clause 1: never panics, and the cut-off lies between min(min_results, n) and n --
     for every score list, every configuration, all five strategies *)
  Theorem cutoff_bounds : forall scores cfg,
    exists c t, find_adaptive_cutoff O scores cfg = Ok (c, t) /\
      (N.min (cfg_min_results cfg) (N.of_nat (length scores)) <= N.of_nat c)%N /\
      (c <= length scores)%nat.
  Proof.
    intros scores cfg.
    destruct (find_adaptive_cutoff_cases scores cfg) as [[Hs H]|[(Hs & Hm & H)|(Hs & Hm & top & rest & Hn & H)]].
    - exists 0%nat, T_NO_RESULTS. subst scores. cbn [length]. split; [exact H|]. lia.
    - exists (length scores), T_MIN_RESULTS. split; [exact H|]. lia.
    - pose proof (normalized_of_length scores cfg) as Hl.
      pose proof (strategy_result_bounds (normalized_of O scores cfg) top (cfg_strategy cfg)
                                         (N.to_nat (cfg_min_results cfg))) as Hb.
      destruct (strategy_result (normalized_of O scores cfg) top (cfg_strategy cfg)
                                (N.to_nat (cfg_min_results cfg))) as [c t] eqn:Er.
      exists c, t. split; [exact H|]. cbn [fst] in Hb. rewrite Hl in Hb. lia.
  Qed.

  (* C37, clause 3 (absolute / relative threshold), for any comparison `<`:
     with thr = min_score, resp. thr = normalized[0] * min_ratio as computed by the code,
     (a) no result kept beyond the first min_results is below the threshold,
     (b) if anything is cut, the first cut result is below the threshold (and lies beyond min_results).
     Together with the bounds: the cut-off is the least index >= min_results whose score is below
     the threshold, or n. *)
  Theorem threshold_clauses : forall scores cfg thr c t d,
    threshold_of O (normalized_of O scores cfg) (cfg_strategy cfg) = Some thr ->
    find_adaptive_cutoff O scores cfg = Ok (c, t) ->
    (forall i, (cfg_min_results cfg <= N.of_nat i)%N -> (i < c)%nat ->
               ltb O (nth i (normalized_of O scores cfg) d) thr = false) /\
    ((c < length scores)%nat ->
     ltb O (nth c (normalized_of O scores cfg) d) thr = true /\ (cfg_min_results cfg <= N.of_nat c)%N).
  Proof.
    intros scores cfg thr c t d Hthr Hrun.
    destruct (find_adaptive_cutoff_cases scores cfg) as [[Hs H]|[(Hs & Hm & H)|(Hs & Hm & top & rest & Hn & H)]];
      rewrite H in Hrun.
    - inversion Hrun; subst c t. split; [intros i _ Hi; lia|]. subst scores. cbn [length]. lia.
    - inversion Hrun; subst c t. split; [intros i Hi1 Hi2; lia | lia].
    - assert (Hc : c = fst (strategy_result (normalized_of O scores cfg) top (cfg_strategy cfg)
                                            (N.to_nat (cfg_min_results cfg)))).
      { inversion Hrun as [Heq]. rewrite Heq. reflexivity. }
      subst c. clear Hrun.
      pose proof (normalized_of_length scores cfg) as Hl.
      assert (Hres : strategy_result (normalized_of O scores cfg) top (cfg_strategy cfg)
                                     (N.to_nat (cfg_min_results cfg)) =
                     find_absolute_cutoff O (normalized_of O scores cfg) thr (N.to_nat (cfg_min_results cfg))).
      { destruct (cfg_strategy cfg); cbn [threshold_of strategy_result] in *; try discriminate.
        - inversion Hthr; reflexivity.
        - inversion Hthr. rewrite Hn. cbn [nth]. reflexivity. }
      rewrite Hres.
      pose proof (find_absolute_cutoff_spec (normalized_of O scores cfg) thr
                                            (N.to_nat (cfg_min_results cfg)) d) as Hspec.
      cbv zeta in Hspec. destruct Hspec as (S1 & S2 & S3). rewrite Hl in S1, S2.
      split.
      + intros i Hi1 Hi2. apply S3; lia.
      + intros Hc. destruct (S2 Hc) as [S2a S2b]. split; [exact S2b | lia].
  Qed.

  (* the trigger label of the two threshold strategies tells whether anything was cut *)
  Theorem threshold_label : forall scores cfg thr c t,
    threshold_of O (normalized_of O scores cfg) (cfg_strategy cfg) = Some thr ->
    find_adaptive_cutoff O scores cfg = Ok (c, t) ->
    t = T_NO_RESULTS \/ t = T_MIN_RESULTS \/ t = T_ABSOLUTE_THRESHOLD \/ (t = T_NO_CUTOFF /\ c = length scores).
  Proof.
    intros scores cfg thr c t Hthr Hrun.
    destruct (find_adaptive_cutoff_cases scores cfg) as [[Hs H]|[(Hs & Hm & H)|(Hs & Hm & top & rest & Hn & H)]];
      rewrite H in Hrun; [inversion Hrun; subst; auto | inversion Hrun; subst; auto |].
    assert (Hc : c = fst (strategy_result (normalized_of O scores cfg) top (cfg_strategy cfg)
                                          (N.to_nat (cfg_min_results cfg))) /\
                 t = snd (strategy_result (normalized_of O scores cfg) top (cfg_strategy cfg)
                                          (N.to_nat (cfg_min_results cfg)))).
    { inversion Hrun as [Heq]. rewrite Heq. split; reflexivity. }
    destruct Hc as [Hc Ht]. subst c t. clear Hrun.
    pose proof (normalized_of_length scores cfg) as Hl.
    destruct (cfg_strategy cfg); cbn [threshold_of strategy_result] in *; try discriminate.
    - destruct (find_absolute_cutoff_label (normalized_of O scores cfg) min_score (N.to_nat (cfg_min_results cfg))) as [L|[L1 L2]];
        [auto | right; right; right; rewrite L2; auto].
    - destruct (find_absolute_cutoff_label (normalized_of O scores cfg) (f_mul O top min_ratio) (N.to_nat (cfg_min_results cfg))) as [L|[L1 L2]];
        [auto | right; right; right; rewrite L2; auto].
  Qed.
End Generic.
