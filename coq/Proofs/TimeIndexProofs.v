From MV Require Import Base.Prelude Base.Facts Model.TimeIndex.
From Coq Require Import Permutation.
Require Import ZifyBool ZifyNat ZifyN.
Require MV.Gen.Consts.
Local Open Scope N_scope.

(* ---------- the order ---------- *)
Lemma entry_leb_total a b : entry_leb a b = false -> entry_leb b a = true.
Proof. unfold entry_leb. destruct a, b; cbn [fst snd]. lia. Qed.

Lemma entry_leb_trans a b c : entry_leb a b = true -> entry_leb b c = true -> entry_leb a c = true.
Proof. unfold entry_leb. destruct a, b, c; cbn [fst snd]. lia. Qed.

Lemma entry_leb_antisym a b : entry_leb a b = true -> entry_leb b a = true -> a = b.
Proof.
  unfold entry_leb. destruct a as [t1 i1], b as [t2 i2]; cbn [fst snd]. intros H1 H2.
  assert (t1 = t2) by lia. assert (i1 = i2) by lia. subst; reflexivity.
Qed.

Lemma entry_leb_ltb a b : entry_leb a b = negb (entry_ltb b a).
Proof. unfold entry_leb, entry_ltb. destruct a, b; cbn [fst snd]. lia. Qed.

(* ---------- sort_by_key: sorted permutation, and the only one ---------- *)
Lemma sortedb_cons a l : sortedb (a :: l) = true <-> (forall x, In x l -> entry_leb a x = true) /\ sortedb l = true.
Proof.
  revert a; induction l as [|b l IH]; intros a.
  - cbn. split; [intros _; split; [intros x []|reflexivity] | reflexivity].
  - change (sortedb (a :: b :: l)) with (entry_leb a b && sortedb (b :: l)).
    rewrite andb_true_iff. split.
    + intros [Hab Hs]. split; [|exact Hs]. intros x [<-|Hx]; [exact Hab|].
      apply IH in Hs as [Hall _]. eapply entry_leb_trans; [exact Hab | apply Hall; exact Hx].
    + intros [Hall Hs]. split; [apply Hall; left; reflexivity | exact Hs].
Qed.

Lemma insert_entry_perm e l : Permutation (e :: l) (insert_entry e l).
Proof.
  induction l as [|x r IH]; cbn [insert_entry]; [apply Permutation_refl|].
  destruct (entry_leb e x); [apply Permutation_refl|].
  eapply Permutation_trans; [apply perm_swap | apply perm_skip; exact IH].
Qed.

Lemma insert_entry_sorted e l : sortedb l = true -> sortedb (insert_entry e l) = true.
Proof.
  induction l as [|x r IH]; intros Hs; [reflexivity|]. cbn [insert_entry].
  destruct (entry_leb e x) eqn:E.
  - change (entry_leb e x && sortedb (x :: r) = true). rewrite E, Hs. reflexivity.
  - apply sortedb_cons in Hs as [Hall Hr]. apply sortedb_cons. split; [|apply IH; exact Hr].
    intros y Hy. apply (Permutation_in _ (Permutation_sym (insert_entry_perm e r))) in Hy.
    destruct Hy as [<-|Hy]; [apply entry_leb_total; exact E | apply Hall; exact Hy].
Qed.

Lemma sort_entries_perm l : Permutation l (sort_entries l).
Proof.
  induction l as [|e l IH]; [apply perm_nil|]. cbn [sort_entries fold_right].
  eapply Permutation_trans; [apply perm_skip; exact IH | apply insert_entry_perm].
Qed.

Lemma sort_entries_sorted l : sortedb (sort_entries l) = true.
Proof. induction l as [|e l IH]; [reflexivity|]. cbn [sort_entries fold_right]. apply insert_entry_sorted; exact IH. Qed.

Lemma sorted_perm_unique l1 l2 :
  sortedb l1 = true -> sortedb l2 = true -> Permutation l1 l2 -> l1 = l2.
Proof.
  revert l2; induction l1 as [|a l1 IH]; intros l2 H1 H2 HP.
  - apply Permutation_nil in HP. subst; reflexivity.
  - destruct l2 as [|b l2]; [apply Permutation_sym, Permutation_nil in HP; discriminate|].
    apply sortedb_cons in H1 as [A1 S1]. apply sortedb_cons in H2 as [A2 S2].
    assert (Hab : a = b).
    { assert (Ia : In a (b :: l2)) by (eapply Permutation_in; [exact HP | left; reflexivity]).
      assert (Ib : In b (a :: l1)) by (eapply Permutation_in; [apply Permutation_sym; exact HP | left; reflexivity]).
      destruct Ia as [->|Ia]; [reflexivity|]. destruct Ib as [->|Ib]; [reflexivity|].
      apply entry_leb_antisym; [apply A1; exact Ib | apply A2; exact Ia]. }
    subst b. f_equal. apply IH; [exact S1 | exact S2 | eapply Permutation_cons_inv; exact HP].
Qed.

(* whatever algorithm sort_by_key uses, its result on these keys is sort_entries *)
Lemma sort_entries_unique l s : Permutation l s -> sortedb s = true -> s = sort_entries l.
Proof.
  intros HP HS. apply sorted_perm_unique; [exact HS | apply sort_entries_sorted|].
  eapply Permutation_trans; [apply Permutation_sym; exact HP | apply sort_entries_perm].
Qed.

Lemma sort_entries_sorted_id l : sortedb l = true -> sort_entries l = l.
Proof. intros HS. symmetry. apply sort_entries_unique; [apply Permutation_refl | exact HS]. Qed.

Lemma sort_entries_length l : length (sort_entries l) = length l.
Proof. symmetry. apply Permutation_length, sort_entries_perm. Qed.

Lemma sort_entries_wf l : forallb entry_wf l = true -> forallb entry_wf (sort_entries l) = true.
Proof.
  rewrite !forallb_forall. intros Hw x Hx. apply Hw.
  eapply Permutation_in; [apply Permutation_sym, sort_entries_perm | exact Hx].
Qed.

(* ---------- i64 <-> u64 ---------- *)
Lemma i64_roundtrip z : (- 2 ^ 63 <= z < 2 ^ 63)%Z -> u64_to_i64 (i64_to_u64 z) = z.
Proof.
  intros Hz. unfold u64_to_i64, i64_to_u64.
  change (2 ^ 63)%N with 9223372036854775808%N. change (2 ^ 64)%Z with 18446744073709551616%Z in *.
  change (2 ^ 63)%Z with 9223372036854775808%Z in *.
  destruct (Z.to_N (z mod 18446744073709551616) <? 9223372036854775808) eqn:E; lia.
Qed.

Lemma i64_to_u64_bound z : i64_to_u64 z < 2 ^ 64.
Proof.
  unfold i64_to_u64. change (2 ^ 64)%N with 18446744073709551616%N. change (2 ^ 64)%Z with 18446744073709551616%Z. lia.
Qed.

Lemma u64_to_i64_range u : u < 2 ^ 64 -> (- 2 ^ 63 <= u64_to_i64 u < 2 ^ 63)%Z.
Proof.
  intros Hu. unfold u64_to_i64. change (2 ^ 63)%N with 9223372036854775808%N.
  change (2 ^ 64)%N with 18446744073709551616%N in *. change (2 ^ 64)%Z with 18446744073709551616%Z.
  change (2 ^ 63)%Z with 9223372036854775808%Z.
  destruct (u <? 9223372036854775808) eqn:E; lia.
Qed.

Lemma u64_i64_roundtrip u : u < 2 ^ 64 -> i64_to_u64 (u64_to_i64 u) = u.
Proof.
  intros Hu. unfold u64_to_i64, i64_to_u64. change (2 ^ 63)%N with 9223372036854775808%N.
  change (2 ^ 64)%N with 18446744073709551616%N in *. change (2 ^ 64)%Z with 18446744073709551616%Z.
  destruct (u <? 9223372036854775808) eqn:E; lia.
Qed.

(* ---------- bytes of one entry ---------- *)
Lemma entry_bytes_length e : length (entry_bytes e) = 16%nat.
Proof. unfold entry_bytes. rewrite app_length, !le_encode_length. reflexivity. Qed.

Lemma firstn_app_exact {A} (a b : list A) n : length a = n -> firstn n (a ++ b) = a.
Proof. intros <-. rewrite firstn_app, Nat.sub_diag, firstn_all. cbn [firstn]. apply app_nil_r. Qed.

Lemma skipn_app_exact {A} (a b : list A) n : length a = n -> skipn n (a ++ b) = b.
Proof. intros <-. rewrite skipn_app, Nat.sub_diag, skipn_all. reflexivity. Qed.

Lemma entry_decode e :
  entry_wf e = true ->
  (u64_to_i64 (le_decode (firstn 8 (entry_bytes e))), le_decode (skipn 8 (entry_bytes e))) = e.
Proof.
  unfold entry_wf. rewrite !andb_true_iff. intros [[H1 H2] H3]. destruct e as [t i]; cbn [fst snd] in *.
  unfold entry_bytes; cbn [fst snd].
  rewrite firstn_app_exact, skipn_app_exact by apply le_encode_length.
  rewrite !le_decode_encode by (change (256 ^ N.of_nat 8) with (2 ^ 64); first [apply i64_to_u64_bound | lia]).
  rewrite i64_roundtrip by lia. reflexivity.
Qed.

(* ---------- the read loop on an encoded list ---------- *)
Fixpoint chain_sortedb (prev : option entry) (es : list entry) : bool :=
  match es with
  | [] => true
  | e :: r => (match prev with Some p => entry_leb p e | None => true end) && chain_sortedb (Some e) r
  end.

Lemma chain_sortedb_none es : chain_sortedb None es = sortedb es.
Proof.
  assert (G : forall p es, chain_sortedb (Some p) es = sortedb (p :: es)).
  { intros p es0; revert p; induction es0 as [|e r IH]; intros p; [reflexivity|].
    cbn [chain_sortedb]. rewrite IH. reflexivity. }
  destruct es as [|e r]; [reflexivity|]. cbn [chain_sortedb]. rewrite G. reflexivity.
Qed.

Lemma read_entries_encoded es : forall fuel tail prev,
  forallb entry_wf es = true -> (length es < fuel)%nat ->
  read_entries fuel (flat_map entry_bytes es ++ tail) (N.of_nat (length es)) prev =
    if chain_sortedb prev es then Ok es else Err E_TI_UNSORTED.
Proof.
  induction es as [|e r IH]; intros fuel tail prev Hwf Hfuel.
  - destruct fuel; reflexivity.
  - destruct fuel as [|fuel]; [cbn in Hfuel; lia|].
    cbn [forallb] in Hwf. apply andb_true_iff in Hwf as [He Hr].
    cbn [read_entries length flat_map].
    replace (N.of_nat (S (length r)) =? 0) with false by lia.
    rewrite <- app_assoc.
    rewrite (firstn_app_exact (entry_bytes e)) by apply entry_bytes_length.
    rewrite (skipn_app_exact (entry_bytes e)) by apply entry_bytes_length.
    rewrite entry_bytes_length. cbn [Nat.eqb negb].
    rewrite (entry_decode e He).
    replace (N.of_nat (S (length r)) - 1) with (N.of_nat (length r)) by lia.
    rewrite IH by (first [exact Hr | cbn in Hfuel; lia]).
    cbn [chain_sortedb].
    destruct prev as [p|].
    + rewrite (entry_leb_ltb p e). unfold entry_ltb.
      destruct ((fst e <? fst p)%Z || ((fst e =? fst p)%Z && (snd e <? snd p))); cbn [negb andb]; [reflexivity|].
      destruct (chain_sortedb (Some e) r); reflexivity.
    + cbn [andb]. destruct (chain_sortedb (Some e) r); reflexivity.
Qed.

Lemma read_entries_no_panic fuel : forall bs count prev s, read_entries fuel bs count prev <> Panic s.
Proof.
  induction fuel as [|fuel IH]; intros bs count prev s; cbn [read_entries].
  - destruct (count =? 0); discriminate.
  - destruct (count =? 0); [discriminate|].
    destruct (negb _); [discriminate|].
    match goal with |- context[if ?c then Err E_TI_UNSORTED else _] => destruct c end; [discriminate|].
    match goal with |- context[read_entries fuel ?b ?c ?p] => specialize (IH b c p); destruct (read_entries fuel b c p) end;
      [discriminate | discriminate | intros E; injection E as E; eapply IH; rewrite E; reflexivity].
Qed.

(* ---------- the store ---------- *)
Lemma write_at_skipn file pos data :
  skipn pos (write_at file pos data) = data ++ skipn (pos + length data) file.
Proof.
  unfold write_at. apply skipn_app_exact.
  rewrite firstn_length, app_length, repeat_length. lia.
Qed.

Lemma track_image_length s : length (track_image s) = (12 + 16 * length s)%nat.
Proof.
  unfold track_image. rewrite !app_length, le_encode_length. cbn [length TIME_INDEX_MAGIC].
  assert (G : length (flat_map entry_bytes s) = (16 * length s)%nat).
  { induction s as [|e r IH]; [reflexivity|]. cbn [flat_map length]. rewrite app_length, entry_bytes_length, IH. lia. }
  rewrite G. lia.
Qed.

(* read_track on a store that holds the image of ANY entry list es (sorted or not) at `pos`,
   with the matching length: Ok es if es is in order, "entries not sorted" otherwise *)
Lemma read_track_image file pos es tail :
  forallb entry_wf es = true -> N.of_nat (length es) * 16 < 2 ^ 63 ->
  skipn pos file = track_image es ++ tail ->
  read_track file pos (N.of_nat (length (track_image es))) =
    if sortedb es then Ok es else Err E_TI_UNSORTED.
Proof.
  intros Hwf Hn Hsk. unfold read_track. rewrite Hsk.
  pose proof (track_image_length es) as HL.
  rewrite app_length, HL.
  replace (Nat.ltb (12 + 16 * length es + length tail) 4) with false by lia.
  replace (Nat.ltb (12 + 16 * length es + length tail) 12) with false by lia.
  unfold track_image. rewrite <- !app_assoc.
  change (firstn 4 (TIME_INDEX_MAGIC ++ ?x)) with TIME_INDEX_MAGIC.
  rewrite bytes_eqb_refl. cbn [negb].
  pose proof (slice_app_exact TIME_INDEX_MAGIC (le_encode 8 (N.of_nat (length es))) (flat_map entry_bytes es ++ tail)) as HS.
  rewrite le_encode_length in HS. change (length TIME_INDEX_MAGIC) with 4%nat in HS. rewrite HS.
  assert (H64 : N.of_nat (length es) < 2 ^ 64).
  { change (2 ^ 63) with 9223372036854775808 in Hn. change (2 ^ 64) with 18446744073709551616. lia. }
  rewrite le_decode_encode by (change (256 ^ N.of_nat 8) with (2 ^ 64); exact H64).
  unfold TI_HEADER_LEN, TI_ENTRY_LEN.
  change (2 ^ 63) with 9223372036854775808 in *. change (2 ^ 64) with 18446744073709551616 in *.
  replace (N.of_nat (12 + 16 * length es) <? 12) with false by lia.
  replace (18446744073709551616 <=? N.of_nat (length es) * 16) with false by lia.
  replace (N.of_nat (12 + 16 * length es) - 12 =? N.of_nat (length es) * 16) with true by lia.
  replace (9223372036854775808 <=? N.of_nat (length es) * 16) with false by lia.
  cbn [negb].
  change (TIME_INDEX_MAGIC ++ ?x) with (77 :: 86 :: 84 :: 73 :: x).
  replace (skipn 12 (77 :: 86 :: 84 :: 73 :: le_encode 8 (N.of_nat (length es)) ++ flat_map entry_bytes es ++ tail))
    with (flat_map entry_bytes es ++ tail).
  2:{ change (skipn 12 (77 :: 86 :: 84 :: 73 :: ?x)) with (skipn 8 x). symmetry. apply skipn_app_exact. apply le_encode_length. }
  rewrite read_entries_encoded by (first [exact Hwf | lia]).
  rewrite chain_sortedb_none. reflexivity.
Qed.

(* ---------- inversion: what an Ok answer implies about the bytes ---------- *)
Lemma le_encode_decode_n bs n : length bs = n -> bytes_ok bs = true -> le_encode n (le_decode bs) = bs.
Proof. intros <- Hok. apply le_encode_decode; exact Hok. Qed.

Lemma read_entries_S fuel bs count prev :
  read_entries (S fuel) bs count prev =
  if count =? 0 then Ok []
  else if negb (Nat.eqb (length (firstn 16 bs)) 16) then Err E_TI_IO
  else
    let e : entry := (u64_to_i64 (le_decode (firstn 8 (firstn 16 bs))), le_decode (skipn 8 (firstn 16 bs))) in
    if match prev with
       | Some p => (fst e <? fst p)%Z || ((fst e =? fst p)%Z && (snd e <? snd p))
       | None => false
       end
    then Err E_TI_UNSORTED
    else match read_entries fuel (skipn 16 bs) (count - 1) (Some e) with
         | Ok l => Ok (e :: l)
         | Err k => Err k
         | Panic s => Panic s
         end.
Proof. reflexivity. Qed.

Lemma read_entries_ok fuel : forall bs count prev es,
  read_entries fuel bs count prev = Ok es ->
  N.of_nat (length es) = count /\ chain_sortedb prev es = true /\
  (bytes_ok bs = true ->
   forallb entry_wf es = true /\ firstn (16 * length es) bs = flat_map entry_bytes es).
Proof.
  induction fuel as [|fuel IH]; intros bs count prev es.
  - cbn [read_entries]. destruct (count =? 0) eqn:E0; [|discriminate]. intros E; injection E as <-.
    split; [cbn; lia|]. split; [reflexivity|]. intros _. split; reflexivity.
  - rewrite read_entries_S. cbv zeta. destruct (count =? 0) eqn:E0.
    { intros E; inversion E; try subst es. split; [cbn; lia|]. split; [reflexivity|]. intros _. split; reflexivity. }
    destruct (Nat.eqb (length (firstn 16 bs)) 16) eqn:EL; cbn [negb]; [|discriminate].
    apply Nat.eqb_eq in EL.
    set (e := (u64_to_i64 (le_decode (firstn 8 (firstn 16 bs))), le_decode (skipn 8 (firstn 16 bs)))).
    match goal with |- context[if ?c then Err E_TI_UNSORTED else _] => destruct c eqn:EB end; [discriminate|].
    match goal with |- context[read_entries fuel ?a ?b ?c] => destruct (read_entries fuel a b c) as [l| |] eqn:ER end; try discriminate.
    intros E; inversion E; try subst es.
    apply IH in ER as (Hlen & Hch & Hby).
    split; [cbn [length]; lia|]. split.
    + cbn [chain_sortedb]. rewrite Hch, andb_true_r.
      destruct prev as [p|]; [|reflexivity].
      rewrite (entry_leb_ltb p e). unfold entry_ltb. rewrite EB. reflexivity.
    + intros Hok.
      assert (Hok16 : bytes_ok (firstn 16 bs) = true).
      { unfold bytes_ok in *. rewrite forallb_forall in *. intros x Hx. apply Hok.
        rewrite <- (firstn_skipn 16 bs). apply in_or_app; left; exact Hx. }
      assert (Hokr : bytes_ok (skipn 16 bs) = true).
      { unfold bytes_ok in *. rewrite forallb_forall in *. intros x Hx. apply Hok.
        rewrite <- (firstn_skipn 16 bs). apply in_or_app; right; exact Hx. }
      destruct (Hby Hokr) as [Hwf Hfl].
      assert (H8a : length (firstn 8 (firstn 16 bs)) = 8%nat) by (rewrite firstn_length; lia).
      assert (H8b : length (skipn 8 (firstn 16 bs)) = 8%nat) by (rewrite skipn_length; lia).
      assert (Oa : bytes_ok (firstn 8 (firstn 16 bs)) = true).
      { unfold bytes_ok in *. rewrite forallb_forall in *. intros x Hx. apply Hok16.
        rewrite <- (firstn_skipn 8 (firstn 16 bs)). apply in_or_app; left; exact Hx. }
      assert (Ob : bytes_ok (skipn 8 (firstn 16 bs)) = true).
      { unfold bytes_ok in *. rewrite forallb_forall in *. intros x Hx. apply Hok16.
        rewrite <- (firstn_skipn 8 (firstn 16 bs)). apply in_or_app; right; exact Hx. }
      pose proof (le_decode_bound _ Oa) as Ba. pose proof (le_decode_bound _ Ob) as Bb.
      rewrite H8a in Ba. rewrite H8b in Bb. change (256 ^ N.of_nat 8) with (2 ^ 64) in Ba, Bb.
      assert (We : entry_wf e = true).
      { unfold entry_wf, e; cbn [fst snd]. pose proof (u64_to_i64_range _ Ba). lia. }
      split; [cbn [forallb]; rewrite We, Hwf; reflexivity|].
      cbn [length flat_map].
      replace (16 * S (length l))%nat with (16 + 16 * length l)%nat by lia.
      rewrite <- (firstn_skipn 16 bs) at 1.
      rewrite firstn_app, firstn_length.
      replace (Nat.min 16 (length bs)) with 16%nat by (rewrite firstn_length in EL; lia).
      replace (16 + 16 * length l - 16)%nat with (16 * length l)%nat by lia.
      rewrite Hfl. f_equal.
      rewrite firstn_all2 by (rewrite firstn_length; lia).
      unfold entry_bytes, e; cbn [fst snd].
      rewrite u64_i64_roundtrip by exact Ba.
      rewrite (le_encode_decode_n _ 8%nat H8a Oa), (le_encode_decode_n _ 8%nat H8b Ob).
      symmetry. apply firstn_skipn.
Qed.

Lemma read_track_ok_inv file pos len es :
  read_track file pos len = Ok es ->
  firstn 4 (skipn pos file) = TIME_INDEX_MAGIC /\
  le_decode (slice (skipn pos file) 4 8) = N.of_nat (length es) /\
  len = 12 + 16 * N.of_nat (length es) /\
  sortedb es = true /\
  (bytes_ok file = true ->
   forallb entry_wf es = true /\ firstn (N.to_nat len) (skipn pos file) = track_image es).
Proof.
  unfold read_track. set (avail := skipn pos file).
  destruct (Nat.ltb (length avail) 4) eqn:E4; [discriminate|].
  destruct (bytes_eqb (firstn 4 avail) TIME_INDEX_MAGIC) eqn:EM; cbn [negb]; [|discriminate].
  destruct (Nat.ltb (length avail) 12) eqn:E12; [discriminate|].
  unfold TI_HEADER_LEN, TI_ENTRY_LEN.
  destruct (len <? 12) eqn:EL; [discriminate|].
  destruct (2 ^ 64 <=? le_decode (slice avail 4 8) * 16) eqn:EO; [discriminate|].
  destruct (len - 12 =? le_decode (slice avail 4 8) * 16) eqn:EP; cbn [negb]; [|discriminate].
  destruct (2 ^ 63 <=? le_decode (slice avail 4 8) * 16) eqn:EC; [discriminate|].
  intros HR. apply read_entries_ok in HR as (Hlen & Hch & Hby).
  apply bytes_eqb_spec in EM.
  split; [exact EM|]. split; [symmetry; exact Hlen|]. split; [lia|].
  split; [rewrite <- chain_sortedb_none; exact Hch|].
  intros Hok.
  assert (Hoka : bytes_ok avail = true).
  { unfold bytes_ok in *. rewrite forallb_forall in *. intros x Hx. apply Hok.
    rewrite <- (firstn_skipn pos file). apply in_or_app; right; exact Hx. }
  assert (Hok12 : bytes_ok (skipn 12 avail) = true).
  { unfold bytes_ok in *. rewrite forallb_forall in *. intros x Hx. apply Hoka.
    rewrite <- (firstn_skipn 12 avail). apply in_or_app; right; exact Hx. }
  destruct (Hby Hok12) as [Hwf Hfl]. split; [exact Hwf|].
  replace (N.to_nat len) with (12 + 16 * length es)%nat by lia.
  rewrite <- (firstn_skipn 12 avail) at 1.
  rewrite firstn_app, firstn_length.
  replace (Nat.min 12 (length avail)) with 12%nat by lia.
  replace (12 + 16 * length es - 12)%nat with (16 * length es)%nat by lia.
  rewrite Hfl. rewrite firstn_all2 by (rewrite firstn_length; lia).
  unfold track_image. rewrite app_assoc. f_equal.
  rewrite <- (firstn_skipn 4 (firstn 12 avail)). f_equal.
  - rewrite firstn_firstn. cbn [Nat.min]. exact EM.
  - rewrite Hlen.
    assert (HS : skipn 4 (firstn 12 avail) = slice avail 4 8).
    { unfold slice. rewrite skipn_firstn_comm. reflexivity. }
    rewrite HS.
    assert (L8 : length (slice avail 4 8) = 8%nat) by (apply slice_length; lia).
    symmetry. apply le_encode_decode_n; [exact L8|].
    unfold bytes_ok in *. rewrite forallb_forall in *. intros x Hx. apply Hoka.
    unfold slice in Hx.
    rewrite <- (firstn_skipn 4 avail). apply in_or_app; right.
    rewrite <- (firstn_skipn 8 (skipn 4 avail)). apply in_or_app; left; exact Hx.
Qed.

(* ---------- named rejections ---------- *)
Lemma read_track_rejects_magic file pos len :
  firstn 4 (skipn pos file) <> TIME_INDEX_MAGIC -> exists k, read_track file pos len = Err k.
Proof.
  intros HM. unfold read_track.
  destruct (Nat.ltb _ 4); [eexists; reflexivity|].
  destruct (bytes_eqb _ _) eqn:E; [apply bytes_eqb_spec in E; contradiction|]. eexists; reflexivity.
Qed.

Lemma read_track_rejects_short_length file pos len :
  len < TI_HEADER_LEN -> exists k, read_track file pos len = Err k.
Proof.
  intros HL. unfold read_track.
  destruct (Nat.ltb _ 4); [eexists; reflexivity|].
  destruct (negb _); [eexists; reflexivity|].
  destruct (Nat.ltb _ 12); [eexists; reflexivity|].
  apply N.ltb_lt in HL. rewrite HL. eexists; reflexivity.
Qed.

Lemma read_track_rejects_count_mismatch file pos len :
  len - TI_HEADER_LEN <> le_decode (slice (skipn pos file) 4 8) * TI_ENTRY_LEN ->
  exists k, read_track file pos len = Err k.
Proof.
  intros HL. unfold read_track.
  destruct (Nat.ltb _ 4); [eexists; reflexivity|].
  destruct (negb (bytes_eqb _ _)); [eexists; reflexivity|].
  destruct (Nat.ltb _ 12); [eexists; reflexivity|].
  destruct (len <? TI_HEADER_LEN); [eexists; reflexivity|].
  destruct (2 ^ 64 <=? _); [eexists; reflexivity|].
  apply N.eqb_neq in HL. rewrite HL. eexists; reflexivity.
Qed.

(* ---------- no panic at all; the capacity class is answered "entry count too large" ---------- *)
Lemma read_track_no_panic file pos len s : read_track file pos len <> Panic s.
Proof.
  unfold read_track.
  destruct (Nat.ltb _ 4); [discriminate|].
  destruct (negb (bytes_eqb _ _)); [discriminate|].
  destruct (Nat.ltb _ 12); [discriminate|].
  destruct (len <? TI_HEADER_LEN); [discriminate|].
  destruct (2 ^ 64 <=? _); [discriminate|].
  destruct (negb (_ =? _)); [discriminate|].
  destruct (2 ^ 63 <=? _); [discriminate|].
  apply read_entries_no_panic.
Qed.

Lemma read_entries_not_too_large fuel : forall bs count prev, read_entries fuel bs count prev <> Err E_TI_TOO_LARGE.
Proof.
  induction fuel as [|fuel IH]; intros bs count prev; cbn [read_entries].
  - destruct (count =? 0); discriminate.
  - destruct (count =? 0); [discriminate|].
    destruct (negb _); [discriminate|].
    match goal with |- context[if ?c then Err E_TI_UNSORTED else _] => destruct c end; [discriminate|].
    match goal with |- context[read_entries fuel ?b ?c ?p] => specialize (IH b c p); destruct (read_entries fuel b c p) end;
      [discriminate | intros E; injection E as E; apply IH; rewrite E; reflexivity | discriminate].
Qed.

Lemma read_track_too_large_iff file pos len :
  read_track file pos len = Err E_TI_TOO_LARGE <-> ti_capacity_class file pos len = true.
Proof.
  unfold read_track, ti_capacity_class. set (avail := skipn pos file).
  unfold TI_HEADER_LEN, TI_ENTRY_LEN.
  destruct (Nat.ltb (length avail) 4) eqn:E4.
  { replace (Nat.leb 12 (length avail)) with false by lia. split; discriminate. }
  destruct (bytes_eqb (firstn 4 avail) TIME_INDEX_MAGIC) eqn:EM; cbn [negb].
  2:{ rewrite andb_false_r. split; discriminate. }
  destruct (Nat.ltb (length avail) 12) eqn:E12.
  { replace (Nat.leb 12 (length avail)) with false by lia. split; discriminate. }
  replace (Nat.leb 12 (length avail)) with true by lia. cbn [andb].
  destruct (len <? 12) eqn:EL.
  { replace (12 <=? len) with false by lia. split; discriminate. }
  replace (12 <=? len) with true by lia. cbn [andb].
  destruct (2 ^ 64 <=? le_decode (slice avail 4 8) * 16) eqn:EO.
  { replace (le_decode (slice avail 4 8) * 16 <? 2 ^ 64) with false by lia. split; discriminate. }
  replace (le_decode (slice avail 4 8) * 16 <? 2 ^ 64) with true by lia. cbn [andb].
  destruct (len - 12 =? le_decode (slice avail 4 8) * 16) eqn:EP; cbn [negb andb].
  2:{ split; discriminate. }
  destruct (2 ^ 63 <=? le_decode (slice avail 4 8) * 16) eqn:EC.
  { split; reflexivity. }
  split; [intros Hs; exfalso; eapply read_entries_not_too_large; exact Hs | discriminate].
Qed.

(* kept under its old name (the hypothesis is no longer needed) *)
Lemma read_track_no_panic_outside file pos len :
  ti_capacity_class file pos len = false -> forall s, read_track file pos len <> Panic s.
Proof. intros _ s. apply read_track_no_panic. Qed.

Lemma sort_entries_spec l :
  sortedb (sort_entries l) = true /\ Permutation l (sort_entries l) /\
  forall s, Permutation l s -> sortedb s = true -> s = sort_entries l.
Proof.
  split; [apply sort_entries_sorted|]. split; [apply sort_entries_perm|].
  intros s. apply sort_entries_unique.
Qed.

Lemma append_read_roundtrip (H : bytes -> bytes) file pos es :
  forallb entry_wf es = true -> N.of_nat (length es) * 16 < 2 ^ 63 ->
  let '((off, len, cks), file', sorted) := append_track H file pos es in
  sorted = sort_entries es /\ read_track file' (N.to_nat off) len = Ok (sort_entries es) /\
  cks = calculate_checksum H es.
Proof.
  intros Hwf Hn. unfold append_track.
  split; [reflexivity|]. split; [|reflexivity].
  rewrite Nat2N.id.
  pose proof (read_track_image (write_at file pos (track_image (sort_entries es))) pos (sort_entries es)
                               (skipn (pos + length (track_image (sort_entries es))) file)
                               (sort_entries_wf es Hwf)) as R.
  rewrite sort_entries_length in R. specialize (R Hn (write_at_skipn _ _ _)).
  rewrite sort_entries_sorted in R. exact R.
Qed.

Lemma read_track_rejects_unsorted file pos es tail :
  forallb entry_wf es = true -> N.of_nat (length es) * 16 < 2 ^ 63 -> sortedb es = false ->
  skipn pos file = track_image es ++ tail ->
  read_track file pos (N.of_nat (length (track_image es))) = Err E_TI_UNSORTED.
Proof.
  intros Hwf Hn Hs Hsk. rewrite (read_track_image file pos es tail Hwf Hn Hsk), Hs. reflexivity.
Qed.

Lemma ti_consts_tied :
  TIME_INDEX_MAGIC = MV.Gen.Consts.TIME_INDEX_MAGIC.
Proof. reflexivity. Qed.
