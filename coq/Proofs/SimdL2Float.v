(* IEEE facts about round-to-nearest-even binary floats, proved from Flocq's definitions
   and correctness theorems (any precision/exponent range), then the carrier-generic
   theorems of Proofs/SimdL2Proofs.v instantiated at binary32.
   Everything here inherits the four standard-library axioms of Flocq's reals. *)
From Coq Require Import ZArith Reals Bool Lia List Floats.SpecFloat.
From Flocq Require Import Core.Core IEEE754.BinarySingleNaN.
From MV Require Import Base.Prelude Model.SimdL2 Model.SimdL2F32 Proofs.SimdL2Proofs Corr.C38.

Section FloatFacts.
  Variables prec emax : Z.
  Context (prec_gt_0_ : FLX.Prec_gt_0 prec) (prec_lt_emax_ : Prec_lt_emax prec emax).
  Notation bf := (binary_float prec emax).

  (* ---------- symmetry: fl(x-y) and fl(y-x) differ at most in sign; fl(d*d) ignores it ---------- *)
  Definition SFabs (x : spec_float) : spec_float :=
    match x with
    | S754_zero _ => S754_zero false
    | S754_infinity _ => S754_infinity false
    | S754_nan => S754_nan
    | S754_finite _ m e => S754_finite false m e
    end.

  Lemma B2SF_Babs : forall x : bf, B2SF (Babs x) = SFabs (B2SF x).
  Proof. now intros [s|s| |s m e H]. Qed.

  (* round to nearest even does not look at the sign *)
  Lemma SFabs_round_aux_NE :
    forall s1 s2 mx ex lx,
      SFabs (binary_round_aux prec emax mode_NE s1 mx ex lx) =
      SFabs (binary_round_aux prec emax mode_NE s2 mx ex lx).
  Proof.
    intros s1 s2 mx ex lx. unfold binary_round_aux. cbn [choice_mode].
    destruct (shr_fexp prec emax mx ex lx) as [mrs1 e1].
    destruct (shr_fexp prec emax _ e1 loc_Exact) as [mrs2 e2].
    destruct (shr_m mrs2) as [|p|p]; try reflexivity.
    unfold binary_fit_aux, binary_overflow. cbn [overflow_to_inf].
    destruct (Zle_bool e2 (emax - prec)); reflexivity.
  Qed.

  Lemma Babs_normalize_opp :
    forall z e,
      Babs (binary_normalize prec emax _ _ mode_NE (- z) e false) =
      Babs (binary_normalize prec emax _ _ mode_NE z e false).
  Proof.
    intros z e. destruct z as [|p|p]; cbn [Z.opp binary_normalize]; try reflexivity;
      apply B2SF_inj; rewrite !B2SF_Babs, !B2SF_SF2B; unfold binary_round;
      destruct (shl_align_fexp prec emax p e) as [mz ez]; apply SFabs_round_aux_NE.
  Qed.

  (* |fl(x - y)| = |fl(y - x)| for ALL x y (zeros, infinities, NaN included) *)
  Lemma Babs_minus_sym :
    forall x y : bf, Babs (Bminus mode_NE x y) = Babs (Bminus mode_NE y x).
  Proof.
    intros [sx|sx| |sx mx ex Hx] [sy|sy| |sy my ey Hy]; cbn [Bminus]; try reflexivity;
      try (destruct sx, sy; reflexivity).
    rewrite (Z.min_comm ey ex).
    replace (Fplus_naive sy my ey (negb sx) mx ex (Z.min ex ey))
       with (- Fplus_naive sx mx ex (negb sy) my ey (Z.min ex ey))%Z.
    - symmetry. apply Babs_normalize_opp.
    - unfold Fplus_naive. destruct sx, sy; cbn [cond_Zopp negb]; lia.
  Qed.

  (* fl(x*x) depends only on |x| *)
  Lemma Bmult_self_abs :
    forall m (x y : bf), Babs x = Babs y -> Bmult m x x = Bmult m y y.
  Proof.
    intros m x y H. apply (f_equal (@B2SF prec emax)) in H. rewrite !B2SF_Babs in H.
    destruct x as [sx|sx| |sx mx ex Hx], y as [sy|sy| |sy my ey Hy]; cbn [B2SF SFabs] in H;
      try discriminate H; cbn [Bmult]; try reflexivity; try (destruct sx, sy; reflexivity).
    inversion H; subst my ey. apply B2SF_inj. rewrite !B2SF_SF2B, !xorb_nilpotent. reflexivity.
  Qed.

  Theorem sqdiff_sym_NE :
    forall x y : bf,
      Bmult mode_NE (Bminus mode_NE x y) (Bminus mode_NE x y) =
      Bmult mode_NE (Bminus mode_NE y x) (Bminus mode_NE y x).
  Proof. intros x y. apply Bmult_self_abs, Babs_minus_sym. Qed.

  (* ---------- zero: x - x = +0 for finite x ---------- *)
  Lemma Bminus_self_NE :
    forall x : bf, is_finite x = true -> Bminus mode_NE x x = B754_zero false.
  Proof.
    intros [s|s| |s m e H] Hf; try discriminate Hf; cbn [Bminus].
    - destruct s; reflexivity.
    - replace (Fplus_naive s m e (negb s) m e (Z.min e e)) with 0%Z; [reflexivity|].
      unfold Fplus_naive. destruct s; cbn [cond_Zopp negb]; lia.
  Qed.

  (* ---------- sign: "not NaN and sign bit clear" is closed under the kernel's operations ---------- *)
  Definition nonneg (x : bf) : Prop := is_nan x = false /\ Bsign x = false.

  Lemma finite_not_nan : forall x : bf, is_finite x = true -> is_nan x = false.
  Proof. now intros [s|s| |s m e H]. Qed.

  Lemma of_SF_infinity : forall (z : bf) s, B2SF z = S754_infinity s -> z = B754_infinity s.
  Proof. intros [s'|s'| |s' m e H] s E; cbn [B2SF] in E; try discriminate E. inversion E. reflexivity. Qed.

  Lemma nonneg_B2R : forall x : bf, nonneg x -> (0 <= B2R x)%R.
  Proof.
    intros [s|s| |s m e H] [Hn Hs]; cbn [B2R]; try apply Rle_refl.
    cbn [Bsign] in Hs. subst s. apply F2R_ge_0. cbn. lia.
  Qed.

  Lemma Bminus_finite_not_nan :
    forall x y : bf, is_finite x = true -> is_finite y = true -> is_nan (Bminus mode_NE x y) = false.
  Proof.
    intros x y Hx Hy. pose proof (Bminus_correct prec emax _ _ mode_NE x y Hx Hy) as C.
    destruct (Rlt_bool _ _).
    - destruct C as [_ [Hf _]]. apply finite_not_nan, Hf.
    - destruct C as [E _]. unfold binary_overflow in E. cbn [overflow_to_inf] in E.
      apply of_SF_infinity in E. rewrite E. reflexivity.
  Qed.

  Lemma Bmult_self_nonneg : forall d : bf, is_nan d = false -> nonneg (Bmult mode_NE d d).
  Proof.
    intros d Hd. destruct (is_finite d) eqn:Fd.
    - pose proof (Bmult_correct prec emax _ _ mode_NE d d) as C.
      destruct (Rlt_bool _ _).
      + destruct C as [_ [Hf Hsg]]. rewrite Fd in Hf. cbn [andb] in Hf.
        pose proof (finite_not_nan _ Hf) as Hn. split; [exact Hn|].
        rewrite (Hsg Hn). apply xorb_nilpotent.
      + rewrite xorb_nilpotent in C. unfold binary_overflow in C. cbn [overflow_to_inf] in C.
        apply of_SF_infinity in C. rewrite C. split; reflexivity.
    - destruct d as [s|s| |s m e H]; try discriminate Fd; try discriminate Hd.
      cbn [Bmult]. rewrite xorb_nilpotent. split; reflexivity.
  Qed.

  Lemma sqdiff_nonneg :
    forall x y : bf, is_finite x = true -> is_finite y = true ->
      nonneg (Bmult mode_NE (Bminus mode_NE x y) (Bminus mode_NE x y)).
  Proof. intros x y Hx Hy. apply Bmult_self_nonneg, Bminus_finite_not_nan; assumption. Qed.

  Lemma Bplus_nonneg : forall x y : bf, nonneg x -> nonneg y -> nonneg (Bplus mode_NE x y).
  Proof.
    intros x y Hx Hy.
    destruct (is_finite x) eqn:Fx; [destruct (is_finite y) eqn:Fy|].
    - pose proof (Bplus_correct prec emax _ _ mode_NE x y Fx Fy) as C.
      pose proof (nonneg_B2R x Hx) as Rx. pose proof (nonneg_B2R y Hy) as Ry.
      destruct Hx as [_ Sx], Hy as [_ Sy].
      destruct (Rlt_bool _ _).
      + destruct C as [_ [Hf Hsg]]. split; [apply finite_not_nan, Hf|].
        rewrite Hsg, Sx, Sy. destruct (Rcompare_spec (B2R x + B2R y) 0) as [Hlt| |]; try reflexivity.
        exfalso. apply (Rlt_not_le _ _ Hlt). apply Rplus_le_le_0_compat; assumption.
      + destruct C as [E _]. rewrite Sx in E. unfold binary_overflow in E. cbn [overflow_to_inf] in E.
        apply of_SF_infinity in E. rewrite E. split; reflexivity.
    - (* y = +inf *)
      destruct Hx as [Nx Sx], Hy as [Ny Sy].
      destruct x as [sx|sx| |sx mx ex Hx0], y as [sy|sy| |sy my ey Hy0];
        try discriminate Fx; try discriminate Fy; try discriminate Ny;
        cbn [Bsign] in Sy; subst sy; cbn [Bplus]; split; reflexivity.
    - (* x = +inf *)
      destruct Hx as [Nx Sx], Hy as [Ny Sy].
      destruct x as [sx|sx| |sx mx ex Hx0]; try discriminate Fx; try discriminate Nx.
      cbn [Bsign] in Sx; subst sx.
      destruct y as [sy|sy| |sy my ey Hy0]; try discriminate Ny; cbn [Bsign] in Sy; try subst sy;
        cbn [Bplus Bool.eqb]; split; reflexivity.
  Qed.

  (* the horizontal sum starts from -0.0 *)
  Lemma Bplus_nzero_nonneg : forall x : bf, nonneg x -> nonneg (Bplus mode_NE (B754_zero true) x).
  Proof.
    intros [s|s| |s m e H] [Hn Hs]; try discriminate Hn; cbn [Bsign] in Hs; subst s;
      cbn [Bplus Bool.eqb]; split; reflexivity.
  Qed.

  Lemma Bsqrt_nonneg : forall x : bf, nonneg x -> nonneg (Bsqrt mode_NE x).
  Proof.
    intros x [Hn Hs].
    destruct (Bsqrt_correct prec emax _ _ mode_NE x) as [_ [Hf Hsg]].
    destruct x as [s|s| |s m e H]; try discriminate Hn; cbn [Bsign] in Hs; subst s.
    - split; reflexivity.
    - split; reflexivity.
    - pose proof (finite_not_nan _ Hf) as Hn'. split; [exact Hn'|].
      rewrite (Hsg Hn'). reflexivity.
  Qed.
End FloatFacts.

(* ================= binary32 instances ================= *)
Definition f32_finite (x : f32) : Prop := is_finite x = true.
Definition f32_nonneg (x : f32) : Prop := nonneg 24 128 x.   (* not NaN, sign bit clear: +0, positive finite, or +inf *)

Lemma f32_sqd_sym : forall x y : f32, sqdiff f32 f32_sub f32_mul x y = sqdiff f32 f32_sub f32_mul y x.
Proof. intros x y. unfold sqdiff, f32_sub, f32_mul. cbv zeta. apply sqdiff_sym_NE. Qed.

(* (ii) *)
Theorem f32_simd_sq_sym : forall a b, f32_l2_distance_squared_simd a b = f32_l2_distance_squared_simd b a.
Proof. exact (simd_sq_sym f32 f32_pzero f32_nzero f32_add f32_sub f32_mul f32_sqd_sym). Qed.

Theorem f32_simd_sym : forall a b, f32_l2_distance_simd a b = f32_l2_distance_simd b a.
Proof. exact (simd_sym f32 f32_pzero f32_nzero f32_add f32_sub f32_mul f32_sqrt f32_sqd_sym). Qed.

Theorem f32_scalar_sq_sym : forall a b, f32_l2sq_scalar a b = f32_l2sq_scalar b a.
Proof. exact (scalar_sq_sym f32 f32_nzero f32_add f32_sub f32_mul f32_sqd_sym). Qed.

(* (iii) *)
Theorem f32_simd_sq_self_zero :
  forall a, Forall f32_finite a -> f32_l2_distance_squared_simd a a = Ok f32_pzero.
Proof.
  apply (simd_sq_self_zero f32 f32_pzero f32_nzero f32_add f32_sub f32_mul f32_finite).
  - intros x Hx. apply Bminus_self_NE. exact Hx.
  - reflexivity.
  - reflexivity.
  - reflexivity.
Qed.

Theorem f32_simd_self_zero :
  forall a, Forall f32_finite a -> f32_l2_distance_simd a a = Ok f32_pzero.
Proof.
  intros a Ha. unfold f32_l2_distance_simd, l2_distance_simd.
  fold f32_l2_distance_squared_simd. rewrite (f32_simd_sq_self_zero a Ha). reflexivity.
Qed.

(* (iv) *)
Theorem f32_body_nonneg :
  forall a b, length a = length b -> Forall f32_finite a -> Forall f32_finite b ->
    f32_nonneg (f32_l2sq_body a b).
Proof.
  apply (body_nn f32 f32_pzero f32_nzero f32_add f32_sub f32_mul f32_finite f32_nonneg).
  - intros x y Hx Hy. apply sqdiff_nonneg; assumption.
  - intros x y. apply Bplus_nonneg.
  - split; reflexivity.
  - intros x. apply Bplus_nzero_nonneg.
Qed.

Theorem f32_simd_nonneg :
  forall a b, length a = length b -> Forall f32_finite a -> Forall f32_finite b ->
    exists sq d, f32_l2_distance_squared_simd a b = Ok sq /\ f32_l2_distance_simd a b = Ok d /\
                 f32_nonneg sq /\ f32_nonneg d.
Proof.
  intros a b Hl Ha Hb. exists (f32_l2sq_body a b), (f32_sqrt (f32_l2sq_body a b)).
  pose proof (f32_body_nonneg a b Hl Ha Hb) as Hnn.
  unfold f32_l2_distance_simd, l2_distance_simd, f32_l2_distance_squared_simd, l2_distance_squared_simd.
  rewrite Hl, Nat.eqb_refl. cbn [negb]. repeat split; try apply Hnn.
  - apply Bsqrt_nonneg. exact Hnn.
  - apply Bsqrt_nonneg. exact Hnn.
Qed.

(* ---- closed forms used by Properties/C38.v ---- *)
Theorem f32_symmetric_both :
  forall a b : list f32,
    f32_l2_distance_squared_simd a b = f32_l2_distance_squared_simd b a /\
    f32_l2_distance_simd a b = f32_l2_distance_simd b a.
Proof. intros a b. split; [apply f32_simd_sq_sym | apply f32_simd_sym]. Qed.

Theorem C38_run_sym : forall av bv : list N, C38_run (av, bv) = C38_run (bv, av).
Proof.
  intros av bv. unfold C38_run. cbn [fst snd].
  rewrite (f32_simd_sq_sym (map f32_of_bits av) (map f32_of_bits bv)). reflexivity.
Qed.

Theorem f32_equal_vectors_plus_zero :
  forall a : list f32, Forall f32_finite a ->
    f32_l2_distance_squared_simd a a = Ok f32_pzero /\
    f32_l2_distance_simd a a = Ok f32_pzero /\
    f32_to_bits f32_pzero = 0%N.
Proof.
  intros a Ha. split; [apply f32_simd_sq_self_zero, Ha | split; [apply f32_simd_self_zero, Ha | reflexivity]].
Qed.

(* both results are sums of the same rounded terms fl(fl(a_i - b_i)^2) *)
Theorem f32_same_terms :
  forall a b : list f32, length a = length b ->
    let t := term f32 f32_pzero f32_sub f32_mul a b in
    f32_l2sq_body a b = body_terms f32 f32_pzero f32_nzero f32_add t (length a) /\
    f32_l2sq_scalar a b = fold_left f32_add (map t (seq 0 (length a))) f32_nzero.
Proof.
  intros a b Hl t. split.
  - apply body_eq.
  - unfold f32_l2sq_scalar, l2sq_scalar. rewrite (combine_terms f32 f32_pzero f32_sub f32_mul a b Hl). reflexivity.
Qed.
