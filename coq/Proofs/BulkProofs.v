(* Proofs for C40 (Model/Bulk.v, Model/BulkSpec.v). *)
From MV Require Import Base.Prelude Model.Store Model.StoreSpec Model.VecStore Model.Timeline Model.Bulk Model.BulkSpec Proofs.StoreProofs.
Require Import ZifyBool ZifyNat ZifyN.
Local Open Scope N_scope.

(* ------------------------------------------------------------------ small list facts *)
Lemma new_infos_app recs : forall pi E qi,
  length pi = length recs -> new_infos (recs ++ E) (pi ++ qi) = new_infos recs pi ++ new_infos E qi.
Proof.
  induction recs as [|[sq e] recs IH]; intros pi E qi HL; destruct pi as [|x pi]; cbn [length] in HL; try discriminate; cbn [app new_infos].
  - reflexivity.
  - injection HL as HL. rewrite (IH pi E qi HL). destruct (is_insert e); reflexivity.
Qed.

Lemma new_infos_all_insert E : forall qi,
  forallb (fun se => is_insert (snd se)) E = true -> length qi = length E -> new_infos E qi = qi.
Proof.
  induction E as [|[sq e] E IH]; intros qi HA HL; destruct qi as [|x qi]; cbn [length] in HL; try discriminate; cbn [new_infos]; [reflexivity|].
  cbn [forallb snd] in HA. apply andb_true_iff in HA as [H1 H2]. rewrite H1. f_equal. apply IH; [assumption|lia].
Qed.

Lemma new_infos_no_frame recs : forall pi, delta_nonempty recs = false -> new_infos recs pi = [].
Proof.
  induction recs as [|[sq e] recs IH]; intros pi HD; destruct pi as [|x pi]; cbn [new_infos]; try reflexivity.
  unfold delta_nonempty in HD. cbn [existsb snd] in HD. apply orb_false_iff in HD as [H1 H2].
  destruct e; cbn [is_lex negb] in H1; try discriminate. cbn [is_insert]. apply IH. exact H2.
Qed.

Lemma delta_nonempty_app a b : delta_nonempty (a ++ b) = delta_nonempty a || delta_nonempty b.
Proof. unfold delta_nonempty. apply existsb_app. Qed.

Lemma lex_recs_length n : forall a, length (lex_recs a n) = n.
Proof. induction n as [|n IH]; intros a; cbn [lex_recs length]; [reflexivity|]. rewrite IH. reflexivity. Qed.
Lemma lex_recs_no_frame n : forall a, delta_nonempty (lex_recs a n) = false.
Proof. induction n as [|n IH]; intros a; cbn [lex_recs]; [reflexivity|]. unfold delta_nonempty in *. cbn [existsb snd is_lex negb orb]. apply IH. Qed.
Lemma fold_lex_recs n : forall a st, fold_left apply_entry (lex_recs a n) st = st.
Proof. induction n as [|n IH]; intros a st; cbn [lex_recs fold_left]; [reflexivity|]. destruct st as [[fr sm] ins]. cbn [apply_entry]. apply IH. Qed.

Lemma fold_no_frame recs : forall st, delta_nonempty recs = false -> fold_left apply_entry recs st = st.
Proof.
  induction recs as [|[sq e] recs IH]; intros st HD; cbn [fold_left]; [reflexivity|].
  unfold delta_nonempty in HD. cbn [existsb snd] in HD. apply orb_false_iff in HD as [H1 H2].
  destruct e; cbn [is_lex negb] in H1; try discriminate. destruct st as [[fr sm] ins]. cbn [apply_entry]. apply IH. exact H2.
Qed.

Lemma view_no_frame b : delta_nonempty (pending b) = false -> view b = committed b.
Proof. intros HD. unfold view, apply_records. rewrite (fold_no_frame _ _ HD). reflexivity. Qed.

Lemma chunk_entries_facts n : forall fs ps uk tag i,
  length (chunk_entries fs ps uk tag i n) = n /\ forallb (fun se => is_insert (snd se)) (chunk_entries fs ps uk tag i n) = true.
Proof.
  induction n as [|n IH]; intros fs ps uk tag i; cbn [chunk_entries length forallb]; [split; reflexivity|].
  destruct (IH (fs + 1) ps uk tag (S i)) as [H1 H2]. cbn [snd is_insert andb]. rewrite H1, H2. split; reflexivity.
Qed.

Lemma append_chunks_dirty uk tag n : forall s ps i, dirty s = true -> dirty (append_chunks s ps uk tag i n) = true.
Proof. induction n as [|n IH]; intros s ps i Hd; cbn [append_chunks]; [exact Hd|]. unfold append. apply IH. reflexivity. Qed.

(* the append-only part of a put on the frame-table model *)
Lemma put_base_spec b uk tag nch :
  let b1 := fst (sstep b (OPut uk tag nch 0 None)) in
  exists E, pending b1 = pending b ++ E /\ committed b1 = committed b /\ dirty b1 = true /\
            length E = S (N.to_nat nch) /\ forallb (fun se => is_insert (snd se)) E = true.
Proof.
  intros b1. subst b1. cbn [sstep]. unfold append. cbn [is_insert auto_commit fst].
  match goal with |- context [append_chunks ?s1 ?ps uk tag 0 ?n] =>
    destruct (append_chunks_spec n s1 ps uk tag 0) as (P & C & _ & _);
    pose proof (append_chunks_dirty uk tag n s1 ps 0 eq_refl) as D;
    destruct (chunk_entries_facts n (seqno s1 + 1) ps uk tag 0) as [L F] end.
  cbn [pending committed seqno] in P, C, L, F.
  eexists. rewrite P, C, D. rewrite <- app_assoc. cbn [app].
  split; [reflexivity|]. split; [reflexivity|]. split; [reflexivity|].
  cbn [length forallb snd is_insert andb]. rewrite L, F. split; reflexivity.
Qed.

(* ------------------------------------------------------------------ the reference table *)
Lemma ref_table_snoc ds d : ref_table (ds ++ [d]) = ref_doc (ref_table ds) d.
Proof. unfold ref_table. rewrite fold_left_app. reflexivity. Qed.
Lemma ref_infos_snoc ds d : ref_infos (ds ++ [d]) = ref_infos ds ++ doc_infos d.
Proof. unfold ref_infos. rewrite flat_map_app. cbn [flat_map]. rewrite app_nil_r. reflexivity. Qed.

Lemma doc_infos_length d : length (doc_infos d) = S (N.to_nat (d_nchunks d)).
Proof. unfold doc_infos. cbn [length]. rewrite map_length, seq_length. reflexivity. Qed.

Lemma ref_chunks_length n : forall i fr pid uk tag, length (ref_chunks fr pid uk tag i n) = (length fr + n)%nat.
Proof. induction n as [|n IH]; intros i fr pid uk tag; cbn [ref_chunks]; [lia|]. rewrite IH, app_length. cbn [length]. lia. Qed.
Lemma ref_doc_length R d : length (ref_doc R d) = (length R + S (N.to_nat (d_nchunks d)))%nat.
Proof. unfold ref_doc, ref_put. rewrite ref_chunks_length, app_length. cbn [length]. lia. Qed.

Lemma len_ref ds : length (ref_table ds) = length (ref_infos ds).
Proof.
  induction ds as [|d ds IH] using rev_ind; [reflexivity|].
  rewrite ref_table_snoc, ref_infos_snoc, ref_doc_length, app_length, doc_infos_length, IH. reflexivity.
Qed.

Definition AllActive (fr : list frame) : Prop := Forall (fun f => f_status f = 0) fr.
Lemma ref_chunks_active n : forall i fr pid uk tag, AllActive fr -> AllActive (ref_chunks fr pid uk tag i n).
Proof.
  induction n as [|n IH]; intros i fr pid uk tag HA; cbn [ref_chunks]; [exact HA|].
  apply IH. apply Forall_app. split; [exact HA|]. constructor; [reflexivity|constructor].
Qed.
Lemma ref_table_active ds : AllActive (ref_table ds).
Proof.
  induction ds as [|d ds IH] using rev_ind; [constructor|].
  rewrite ref_table_snoc. unfold ref_doc, ref_put. apply ref_chunks_active.
  apply Forall_app. split; [exact IH|]. constructor; [reflexivity|constructor].
Qed.

(* ------------------------------------------------------------------ invariant A: table and infos *)
Record A (s : bst) (ds : list doc) : Prop := mkA {
  A_J : J (base s) (ref_table ds);
  A_inf : finf s ++ new_infos (pending (base s)) (pinf s) = ref_infos ds;
  A_lp : length (pinf s) = length (pending (base s));
  A_lf : length (finf s) = length (committed (base s)) }.

Lemma A_ext s s' ds : base s' = base s -> finf s' = finf s -> pinf s' = pinf s -> A s ds -> A s' ds.
Proof. intros Hb Hf Hp [H1 H2 H3 H4]. constructor; rewrite ?Hb, ?Hf, ?Hp; assumption. Qed.

Lemma A_bst0 : A bst0 [].
Proof. constructor; try reflexivity. apply J_store0. Qed.

Lemma put_acked b uk tag nch : acked (snd (sstep b (OPut uk tag nch 0 None))) = true.
Proof. cbn [sstep]. unfold append. reflexivity. Qed.

Lemma put_J b R uk tag nch : J b R -> J (fst (sstep b (OPut uk tag nch 0 None))) (ref_put R uk tag nch 0).
Proof.
  intros HJ. pose proof (sstep_refines b R (OPut uk tag nch 0 None) HJ) as HS.
  pose proof (put_acked b uk tag nch) as Hack.
  destruct (sstep b (OPut uk tag nch 0 None)) as [b1 o]. cbn [fst snd] in *.
  specialize (HS eq_refl). cbn [ref_step] in HS. rewrite Hack in HS. exact HS.
Qed.

Lemma A_put_append s ds d : A s ds -> A (fst (put_append s d)) (ds ++ [d]).
Proof.
  intros [HJ HI HP HF]. unfold put_append.
  pose proof (put_J (base s) _ (d_uri d) (d_tag d) (d_nchunks d) HJ) as HJ1.
  destruct (put_base_spec (base s) (d_uri d) (d_tag d) (d_nchunks d)) as (E & P & C & _ & L & F).
  destruct (sstep (base s) (OPut (d_uri d) (d_tag d) (d_nchunks d) 0 None)) as [b1 o]. cbn [fst snd] in *.
  constructor; cbn [base finf pinf].
  - rewrite ref_table_snoc. exact HJ1.
  - rewrite P, ref_infos_snoc, (new_infos_app _ _ _ _ HP), app_assoc, HI. f_equal.
    apply new_infos_all_insert; [exact F|]. rewrite doc_infos_length. symmetry. exact L.
  - rewrite P, !app_length, doc_infos_length, L, HP. reflexivity.
  - rewrite C. exact HF.
Qed.

Lemma A_commit_full s ds e : A s ds -> A (commit_full s e) ds.
Proof.
  intros [HJ HI HP HF]. unfold commit_full. constructor; cbn [base finf pinf].
  - apply J_commit. exact HJ.
  - cbn [do_commit pending new_infos]. rewrite app_nil_r. exact HI.
  - reflexivity.
  - cbn [do_commit committed]. rewrite HI, (J_view _ _ HJ), len_ref. reflexivity.
Qed.

Lemma A_commit_skip s ds : A s ds -> A (commit_skip s) ds.
Proof.
  intros HA. unfold commit_skip.
  assert (HC : A (mkB (do_commit (base s) 0) (finf s ++ new_infos (pending (base s)) (pinf s)) []
                      (mkBat (bopts (bat s)) (wal_size (bat s)) (wal_skip (bat s)) 0)
                      (mkIdx None (lex (ix s)) [] false (venabled (ix s)) (zero_manifest (vtoc (ix s))) (vidx (ix s)))) ds).
  { destruct HA as [HJ HI HP HF]. constructor; cbn [base finf pinf].
    - apply J_commit. exact HJ.
    - cbn [do_commit pending new_infos]. rewrite app_nil_r. exact HI.
    - reflexivity.
    - cbn [do_commit committed]. rewrite HI, (J_view _ _ HJ), len_ref. reflexivity. }
  destruct (pending (base s)) eqn:Ep; [destruct (dirty (base s))|]; try exact HA; exact HC.
Qed.

Lemma A_finalize s ds e : A s ds -> A (finalize s e) ds.
Proof.
  intros [HJ HI HP HF]. unfold finalize. constructor; cbn [base finf pinf committed pending].
  - destruct HJ as [H1 H2]. split; [|exact H2]. unfold frames_after in *. cbn [committed pending].
    rewrite fold_left_app, fold_lex_recs. exact H1.
  - rewrite (new_infos_app _ _ _ _ HP), (new_infos_no_frame _ _ (lex_recs_no_frame _ _)), app_nil_r. exact HI.
  - rewrite !app_length, lex_recs_length, repeat_length, HP. reflexivity.
  - exact HF.
Qed.

Lemma A_grow s ds g : A s ds -> A (grow s g) ds.
Proof. intros HA. destruct g; [|exact HA]. apply (A_ext s); auto. Qed.

Definition docs_of_op (op : bop) : list doc := match op with BPut d _ _ => [d] | _ => [] end.

Lemma A_step s ds op : A s ds -> A (fst (bstep s op)) (ds ++ docs_of_op op).
Proof.
  intros HA. destruct op as [d auto g|o| |e g| |e g|e]; cbn [bstep docs_of_op]; rewrite ?app_nil_r.
  - pose proof (A_put_append (grow s g) ds d (A_grow _ _ g HA)) as H1.
    destruct (put_append (grow s g) d) as [s1 r]. cbn [fst] in *.
    destruct auto as [extra|]; [destruct (suppress s)|]; cbn [fst]; try exact H1. apply A_commit_full. exact H1.
  - apply (A_ext s); auto.
  - apply (A_ext s); auto.
  - cbn [fst]. apply A_grow.
    destruct (pending (base s)) eqn:Ep; [destruct (dirty (base s))|]; try (apply A_commit_full; exact HA).
    destruct (tdirty (ix s)); [apply A_commit_full; exact HA|].
    destruct HA as [HJ HI HP HF]. constructor; cbn [set_base base finf pinf bump pending committed]; rewrite ?Ep; try assumption.
    rewrite Ep in HI. exact HI. rewrite Ep in HP. exact HP.
  - cbn [fst]. apply A_commit_skip. exact HA.
  - cbn [fst]. apply A_grow, A_finalize. exact HA.
  - cbn [fst].
    set (s1 := if dirty (base s) then commit_full s e else set_base s (bump (base s) e)).
    assert (H1 : A s1 ds).
    { subst s1. destruct (dirty (base s)); [apply A_commit_full; exact HA|].
      destruct HA as [HJ HI HP HF]. constructor; cbn [set_base base finf pinf bump pending committed]; assumption. }
    match goal with |- A (match pending (base ?s2) with [] => _ | _ => _ end) _ => assert (H2 : A s2 ds) by (apply (A_ext s1); auto) end.
    match goal with |- A (match ?p with [] => ?s2 | _ => _ end) _ => destruct p; [exact H2|apply A_commit_full; exact H2] end.
Qed.

Lemma brun_app ops1 : forall s ops2, fst (brun s (ops1 ++ ops2)) = fst (brun (fst (brun s ops1)) ops2).
Proof.
  induction ops1 as [|op ops1 IH]; intros s ops2; cbn [app brun fst]; [reflexivity|].
  destruct (bstep s op) as [s1 o]. specialize (IH s1 ops2).
  destruct (brun s1 (ops1 ++ ops2)) as [s2 os]. destruct (brun s1 ops1) as [s3 os3]. cbn [fst] in *. exact IH.
Qed.
Lemma brun_one s op : fst (brun s [op]) = fst (bstep s op).
Proof. cbn [brun]. destruct (bstep s op). reflexivity. Qed.

Lemma docs_of_ops_app a b : docs_of_ops (a ++ b) = docs_of_ops a ++ docs_of_ops b.
Proof. unfold docs_of_ops. apply flat_map_app. Qed.

Lemma A_run ops : forall s ds, A s ds -> A (fst (brun s ops)) (ds ++ docs_of_ops ops).
Proof.
  induction ops as [|op ops IH]; intros s ds HA; cbn [brun]; [cbn; rewrite app_nil_r; exact HA|].
  pose proof (A_step s ds op HA) as H1. destruct (bstep s op) as [s1 o]. cbn [fst] in H1.
  specialize (IH s1 _ H1). destruct (brun s1 ops) as [s2 os]. cbn [fst] in *.
  change (docs_of_ops (op :: ops)) with (docs_of_op op ++ docs_of_ops ops). rewrite app_assoc. exact IH.
Qed.

Lemma A_final ops : A (bfinal ops) (docs_of_ops ops).
Proof. apply (A_run ops bst0 [] A_bst0). Qed.

(* ------------------------------------------------------------------ finalize_indexes: lexical half *)
Lemma rebuild_empty x C F :
  let y := rebuild x C F [] [] in
  tix y = Some (tix_full C F) /\ lex y = lex_full C F /\ lex_disk y = lex_full C F /\ tdirty y = false.
Proof. unfold rebuild. destruct (tdirty x); destruct (build_vec_artifact (venabled x) C (vidx x) []); cbn; auto. Qed.

Lemma A_quiescent s ds : A s ds -> delta_nonempty (pending (base s)) = false ->
  view (base s) = ref_table ds /\ committed (base s) = ref_table ds /\ finf s = ref_infos ds.
Proof.
  intros [HJ HI HP HF] HD. pose proof (J_view _ _ HJ) as HV.
  split; [exact HV|]. split; [rewrite <- (view_no_frame _ HD); exact HV|].
  rewrite (new_infos_no_frame _ _ HD), app_nil_r in HI. exact HI.
Qed.

Lemma grow_ix s g : ix (grow s g) = ix s /\ base (grow s g) = base s /\ finf (grow s g) = finf s /\ pinf (grow s g) = pinf s.
Proof. destruct g; cbn; auto. Qed.

(* settled: nothing but lex records pending, engine flushed *)
Definition Settled (s : bst) : Prop :=
  tdirty (ix s) = false /\ lex_disk (ix s) = lex (ix s) /\ delta_nonempty (pending (base s)) = false.

Lemma commit_full_no_frame s e :
  delta_nonempty (pending (base s)) = false -> tdirty (ix s) = false ->
  ix (commit_full s e) = ix s /\ finf (commit_full s e) = finf s /\ pending (base (commit_full s e)) = [] /\
  committed (base (commit_full s e)) = committed (base s).
Proof.
  intros HD HT. unfold commit_full. cbn [ix finf base]. rewrite (new_infos_no_frame _ _ HD), HD, HT. cbn [length inserted_ids seq map filter orb].
  rewrite !app_nil_r. unfold flush. cbn [tdirty]. cbn [do_commit pending committed]. rewrite (view_no_frame _ HD).
  repeat split. destruct (ix s); cbn in *; subst; reflexivity.
Qed.

(* close + reopen of a settled memory changes nothing a reader of tables / timeline / engine sees *)
Lemma reopen_settled s e : Settled s ->
  let s' := fst (bstep s (BReopen e)) in
  tix (ix s') = tix (ix s) /\ lex (ix s') = lex (ix s) /\ finf s' = finf s /\
  committed (base s') = committed (base s) /\ delta_nonempty (pending (base s')) = false /\
  vtoc (ix s') = vtoc (ix s) /\ vidx (ix s') = index_of (vtoc (ix s)) /\ venabled (ix s') = is_some (vtoc (ix s)).
Proof.
  intros (HT & HL & HD). cbn [bstep fst].
  set (s1 := if dirty (base s) then commit_full s e else set_base s (bump (base s) e)).
  assert (H1 : ix s1 = ix s /\ finf s1 = finf s /\ committed (base s1) = committed (base s) /\ delta_nonempty (pending (base s1)) = false).
  { subst s1. destruct (dirty (base s)).
    - destruct (commit_full_no_frame s e HD HT) as (a & b & c & d). rewrite a, b, c, d. auto.
    - cbn. auto. }
  destruct H1 as (I1 & F1 & C1 & D1).
  match goal with |- context [match pending (base ?t) with [] => _ | _ => _ end] => set (s2 := t) end.
  assert (HD2 : delta_nonempty (pending (base s2)) = false) by exact D1.
  assert (HT2 : tdirty (ix s2) = false) by reflexivity.
  assert (HR : ix (match pending (base s2) with [] => s2 | _ => commit_full s2 0 end) = ix s2 /\
               finf (match pending (base s2) with [] => s2 | _ => commit_full s2 0 end) = finf s2 /\
               committed (base (match pending (base s2) with [] => s2 | _ => commit_full s2 0 end)) = committed (base s2) /\
               delta_nonempty (pending (base (match pending (base s2) with [] => s2 | _ => commit_full s2 0 end))) = false).
  { destruct (pending (base s2)) eqn:Ep; [repeat split; try reflexivity; rewrite Ep; reflexivity|].
    destruct (commit_full_no_frame s2 0) as (a & b & c & d); [rewrite Ep; exact HD2|exact HT2|].
    rewrite a, b, c, d. auto. }
  destruct HR as (R1 & R2 & R3 & R4). rewrite R1, R2, R3, R4.
  subst s2. cbn [ix finf base tix lex vtoc vidx venabled]. rewrite I1, F1, C1, HL. auto 10.
Qed.

Theorem finalize_lexical ops e g :
  let s := bfinal ops in let ds := docs_of_ops ops in
  delta_nonempty (pending (base s)) = false ->
  let s' := fst (bstep s (BFinalize e g)) in
  view (base s') = ref_table ds /\ finf s' = ref_infos ds /\
  timeline_ids s' = map snd (tix_full (ref_table ds) (ref_infos ds)) /\
  lex (ix s') = lex_full (ref_table ds) (ref_infos ds) /\ Settled s'.
Proof.
  intros s ds HD s'. pose proof (A_final ops) as HA. fold s ds in HA.
  pose proof (A_step s ds (BFinalize e g) HA) as HA'. fold s' in HA'. cbn [docs_of_op] in HA'. rewrite app_nil_r in HA'.
  destruct (A_quiescent s ds HA HD) as (HV & HC & HF).
  subst s'. cbn [bstep fst] in *. destruct (grow_ix (finalize s e) g) as (GI & GB & GF & GP).
  destruct (rebuild_empty (ix s) (committed (base s)) (finf s)) as (R1 & R2 & R3 & R4).
  split; [exact (J_view _ _ (A_J _ _ HA'))|].
  split; [rewrite GF; exact HF|].
  unfold timeline_ids, Settled. rewrite GI, GB. cbn [finalize ix base pending]. rewrite R1, R2, R3, R4, HC, HF.
  repeat split. rewrite delta_nonempty_app, HD, lex_recs_no_frame. reflexivity.
Qed.

Theorem finalize_lexical_reopened ops e g e2 :
  let s := bfinal ops in let ds := docs_of_ops ops in
  delta_nonempty (pending (base s)) = false ->
  let s' := fst (bstep (fst (bstep s (BFinalize e g))) (BReopen e2)) in
  view (base s') = ref_table ds /\ finf s' = ref_infos ds /\
  timeline_ids s' = map snd (tix_full (ref_table ds) (ref_infos ds)) /\
  lex (ix s') = lex_full (ref_table ds) (ref_infos ds).
Proof.
  intros s ds HD s'.
  destruct (finalize_lexical ops e g HD) as (V & F & T & L & HS). fold s ds in V, F, T, L, HS.
  set (s1 := fst (bstep s (BFinalize e g))) in *.
  destruct (reopen_settled s1 e2 HS) as (R1 & R2 & R3 & R4 & R5 & _). fold s' in R1, R2, R3, R4, R5.
  pose proof (A_final (ops ++ [BFinalize e g; BReopen e2])) as HA.
  unfold bfinal in HA. rewrite brun_app in HA. fold (bfinal ops) in HA. fold s in HA.
  assert (HE : fst (brun s [BFinalize e g; BReopen e2]) = s').
  { cbn [brun]. subst s' s1. destruct (bstep s (BFinalize e g)) as [a oa]. cbn [fst]. destruct (bstep a (BReopen e2)) as [b ob]. reflexivity. }
  rewrite HE, docs_of_ops_app in HA. cbn [docs_of_ops flat_map app] in HA. rewrite app_nil_r in HA. fold ds in HA.
  destruct (A_quiescent s' ds HA R5) as (HV & HC & HF).
  split; [exact HV|]. split; [exact HF|].
  unfold timeline_ids in *. rewrite R1, R2, R4. split; [exact T|exact L].
Qed.

(* ------------------------------------------------------------------ vector documents *)
Definition noemb (i : info) : bool := negb (is_some (i_emb i)).

Lemma vec_from_app a : forall b c, vec_from b (a ++ c) = vec_from b a ++ vec_from (b + N.of_nat (length a)) c.
Proof.
  induction a as [|x a IH]; intros b c; cbn [app vec_from length].
  - f_equal. lia.
  - rewrite IH, app_assoc. do 2 f_equal. lia.
Qed.
Lemma vec_from_noemb l : forall b, forallb noemb l = true -> vec_from b l = [].
Proof.
  induction l as [|x l IH]; intros b H; cbn [vec_from]; [reflexivity|]. cbn [forallb] in H. apply andb_true_iff in H as [H1 H2].
  rewrite (IH _ H2). unfold noemb in H1. destruct (i_emb x); [discriminate|reflexivity].
Qed.
Lemma new_infos_noemb recs : forall pi, forallb noemb pi = true -> forallb noemb (new_infos recs pi) = true.
Proof.
  induction recs as [|[sq e] recs IH]; intros pi H; destruct pi as [|x pi]; cbn [new_infos]; try reflexivity.
  cbn [forallb] in H. apply andb_true_iff in H as [H1 H2]. destruct (is_insert e); cbn [forallb]; rewrite ?H1; apply IH; exact H2.
Qed.
Lemma vec_from_bound l : forall b x, In x (vec_from b l) -> b <= fst x < b + N.of_nat (length l).
Proof.
  induction l as [|y l IH]; intros b x H; cbn [vec_from length] in *; [contradiction|].
  apply in_app_or in H as [H|H].
  - destruct (i_emb y); cbn in H; [destruct H as [H|[]]; subst x; cbn [fst]; lia|contradiction].
  - specialize (IH _ _ H). lia.
Qed.
Lemma active_in_range R i : AllActive R -> i < N.of_nat (length R) -> frame_is_active R i = true.
Proof.
  intros HA Hi. unfold frame_is_active, get.
  destruct (nth_error R (N.to_nat i)) as [f|] eqn:E.
  - apply nth_error_In in E. unfold AllActive in HA. rewrite Forall_forall in HA. rewrite (HA _ E). reflexivity.
  - apply nth_error_None in E. lia.
Qed.
Lemma filter_true {X} (f : X -> bool) l : (forall x, In x l -> f x = true) -> filter f l = l.
Proof.
  induction l as [|x l IH]; intros H; cbn [filter]; [reflexivity|]. rewrite (H x (or_introl eq_refl)). f_equal. apply IH. intros y Hy. apply H. right. exact Hy.
Qed.
Lemma filter_active_vec R il : AllActive R -> (length il <= length R)%nat ->
  filter (fun x => frame_is_active R (fst x)) (vec_full il) = vec_full il.
Proof.
  intros HA HL. apply filter_true. intros x Hx. apply vec_from_bound in Hx. apply active_in_range; [exact HA|lia].
Qed.

(* ------------------------------------------------------------------ invariant F: histories without commit_skip_indexes *)
Record F (s : bst) : Prop := mkF {
  F_fr : tdirty (ix s) = false ->
         (tix (ix s) = Some (tix_full (committed (base s)) (finf s)) \/ (tix (ix s) = None /\ committed (base s) = [])) /\
         lex (ix s) = lex_full (committed (base s)) (finf s) /\ lex_disk (ix s) = lex (ix s);
  F_td : tdirty (ix s) = true -> delta_nonempty (pending (base s)) = true;
  F_d : delta_nonempty (pending (base s)) = true -> dirty (base s) = true;
  F_v1 : docs_of (vidx (ix s)) = vec_full (finf s);
  F_v2 : index_of (vtoc (ix s)) = vidx (ix s);
  F_v3 : venabled (ix s) = is_some (vtoc (ix s));
  F_v4 : venabled (ix s) = false -> forallb noemb (pinf s) = true;
  F_act : AllActive (committed (base s)) }.

Lemma F_bst0 : F bst0.
Proof. constructor; cbn; try reflexivity; try discriminate; auto. constructor. Qed.

Lemma disabled_empty s : F s -> venabled (ix s) = false -> vidx (ix s) = None /\ vtoc (ix s) = None /\ vec_full (finf s) = [].
Proof.
  intros HF HE. pose proof (F_v3 _ HF) as H3. rewrite HE in H3. destruct (vtoc (ix s)) eqn:Ev; [discriminate|].
  pose proof (F_v2 _ HF) as H2. rewrite Ev in H2. cbn in H2. pose proof (F_v1 _ HF) as H1. rewrite <- H2 in H1. cbn in H1. auto.
Qed.

Lemma F_commit_full s ds e : A s ds -> F s -> F (commit_full s e).
Proof.
  intros HA HF. pose proof (J_view _ _ (A_J _ _ HA)) as HV.
  pose proof (A_inf _ _ HA) as HI. pose proof (A_lf _ _ HA) as HLF.
  assert (HLen : (length (finf s) <= length (ref_table ds))%nat).
  { rewrite len_ref, <- HI, app_length. lia. }
  unfold commit_full. set (recs := pending (base s)) in *. set (ni := new_infos recs (pinf s)) in *.
  destruct (delta_nonempty recs) eqn:HD.
  - (* rebuild *)
    rewrite orb_true_r. unfold rebuild. cbn [tdirty venabled vidx lex].
    assert (HN0 : len (committed (base s)) = 0 + N.of_nat (length (finf s))) by (unfold len; rewrite HLF; lia).
    destruct (venabled (ix s)) eqn:HE; cbn [build_vec_artifact].
    + constructor; cbn [ix base finf pinf tix lex lex_disk tdirty venabled vtoc vidx do_commit committed pending docs_of index_of is_some]; try reflexivity; try discriminate; auto.
      * rewrite (F_v1 _ HF), HV. rewrite (filter_active_vec _ _ (ref_table_active ds) HLen).
        unfold vec_full. rewrite vec_from_app, HN0. reflexivity.
      * rewrite HV. apply ref_table_active.
    + destruct (disabled_empty s HF HE) as (V1 & V2 & V3).
      constructor; cbn [ix base finf pinf tix lex lex_disk tdirty venabled vtoc vidx do_commit committed pending docs_of index_of is_some]; try reflexivity; try discriminate; auto.
      * unfold vec_full in *. rewrite vec_from_app, V3. cbn [app]. symmetry. apply vec_from_noemb. apply new_infos_noemb. exact (F_v4 _ HF HE).
      * rewrite HV. apply ref_table_active.
  - (* nothing but lex records *)
    assert (HT : tdirty (ix s) = false).
    { destruct (tdirty (ix s)) eqn:E; [|reflexivity]. pose proof (F_td _ HF E) as H. fold recs in H. congruence. }
    assert (Hni : ni = []) by (apply new_infos_no_frame; exact HD).
    rewrite HT, Hni. cbn [length inserted_ids seq map filter orb]. rewrite !app_nil_r. unfold flush. cbn [tdirty].
    pose proof (view_no_frame _ HD) as HVC.
    destruct (F_fr _ HF HT) as (T1 & T2 & T3).
    constructor; cbn [ix base finf pinf tix lex lex_disk tdirty venabled vtoc vidx do_commit committed pending]; try reflexivity; try discriminate.
    + intros _. rewrite HVC. auto.
    + exact (F_v1 _ HF).
    + exact (F_v2 _ HF).
    + exact (F_v3 _ HF).
    + rewrite HVC. exact (F_act _ HF).
Qed.

Lemma F_ext s s' : committed (base s') = committed (base s) -> pending (base s') = pending (base s) ->
  dirty (base s') = dirty (base s) -> finf s' = finf s -> pinf s' = pinf s -> ix s' = ix s -> F s -> F s'.
Proof. intros H1 H2 H3 H4 H5 H6 [a b c d e f g h]. constructor; rewrite ?H1, ?H2, ?H3, ?H4, ?H5, ?H6; assumption. Qed.

Lemma doc_infos_noemb d : d_emb d = None -> forallb noemb (doc_infos d) = true.
Proof.
  intros H. unfold doc_infos. cbn [forallb]. unfold noemb at 1. cbn [i_emb]. rewrite H. cbn [is_some negb andb].
  apply forallb_forall. intros x Hx. apply in_map_iff in Hx as (j & Hj & _). subst x. reflexivity.
Qed.

Lemma delta_nonempty_inserts E : forallb (fun se => is_insert (snd se)) E = true -> (0 < length E)%nat -> delta_nonempty E = true.
Proof.
  destruct E as [|[sq e] E]; cbn [length forallb snd]; intros H HL; [lia|]. apply andb_true_iff in H as [H _].
  unfold delta_nonempty. cbn [existsb snd]. destruct e; try discriminate. reflexivity.
Qed.

Lemma F_put_append s ds d : A s ds -> F s -> doc_ok d = true -> F (fst (put_append s d)).
Proof.
  intros HA HF Hok. unfold put_append.
  destruct (put_base_spec (base s) (d_uri d) (d_tag d) (d_nchunks d)) as (E & P & C & D & L & FI).
  destruct (sstep (base s) (OPut (d_uri d) (d_tag d) (d_nchunks d) 0 None)) as [b1 o]. cbn [fst snd] in *.
  assert (HDN : delta_nonempty (pending b1) = true).
  { rewrite P, delta_nonempty_app, (delta_nonempty_inserts E FI), orb_true_r; [reflexivity|lia]. }
  pose proof (F_act _ HF) as HAct. rewrite <- C in HAct.
  destruct (venabled (ix s)) eqn:HE.
  - (* already enabled *)
    rewrite andb_false_r.
    destruct (d_instant d); constructor; cbn [ix base finf pinf tdirty tix lex lex_disk vidx vtoc venabled]; rewrite ?C;
      first [ exact (F_v1 _ HF) | exact (F_v2 _ HF) | exact (F_v3 _ HF) | exact HAct | exact (F_act _ HF)
            | (intros HT; exact (F_fr _ HF HT)) | (intros HT; discriminate HT) | (intros _; exact HDN) | (intros _; exact D)
            | (intros HX; congruence) ].
  - destruct (disabled_empty s HF HE) as (V1 & V2 & V3). rewrite andb_true_r.
    destruct (incoming_dimension (d_emb d) None) eqn:Een.
    + (* enable_vec *)
      rewrite V2.
      destruct (d_instant d); constructor; cbn [ix base finf pinf tdirty tix lex lex_disk vidx vtoc venabled index_of is_some]; rewrite ?C;
        first [ exact (F_v1 _ HF) | (symmetry; exact V1) | reflexivity | exact HAct | exact (F_act _ HF)
              | (intros HT; exact (F_fr _ HF HT)) | (intros HT; discriminate HT) | (intros _; exact HDN) | (intros _; exact D) ].
    + assert (Hemb : d_emb d = None).
      { unfold doc_ok in Hok. destruct (d_emb d) as [v|]; [|reflexivity]. unfold incoming_dimension in Een. rewrite Hok in Een. discriminate Een. }
      assert (HP4 : forallb noemb (pinf s ++ doc_infos d) = true).
      { rewrite forallb_app, (F_v4 _ HF HE), (doc_infos_noemb d Hemb). reflexivity. }
      destruct (d_instant d); constructor; cbn [ix base finf pinf tdirty tix lex lex_disk vidx vtoc venabled]; rewrite ?C;
        first [ exact (F_v1 _ HF) | exact (F_v2 _ HF) | exact (F_v3 _ HF) | exact HAct | exact (F_act _ HF)
              | (intros HT; exact (F_fr _ HF HT)) | (intros HT; discriminate HT) | (intros _; exact HDN) | (intros _; exact D)
              | (intros _; exact HP4) ].
Qed.

Lemma F_grow s g : F s -> F (grow s g).
Proof. intros HF. destruct g; [|exact HF]. apply (F_ext s); auto. Qed.

Lemma F_finalize s ds e : A s ds -> F s -> F (finalize s e).
Proof.
  intros HA HF. unfold finalize. pose proof (A_lf _ _ HA) as HLF.
  destruct (rebuild_empty (ix s) (committed (base s)) (finf s)) as (R1 & R2 & R3 & R4).
  assert (HV : let y := rebuild (ix s) (committed (base s)) (finf s) [] [] in
               docs_of (vidx y) = vec_full (finf s) /\ index_of (vtoc y) = vidx y /\ venabled y = is_some (vtoc y) /\ venabled y = venabled (ix s)).
  { unfold rebuild. destruct (venabled (ix s)) eqn:HE; cbn [build_vec_artifact].
    - destruct (tdirty (ix s)); cbn; rewrite app_nil_r, (F_v1 _ HF), filter_active_vec; auto using F_act; lia.
    - destruct (disabled_empty s HF HE) as (V1 & V2 & V3). destruct (tdirty (ix s)); cbn; rewrite V3; auto. }
  destruct HV as (W1 & W2 & W3 & W4).
  constructor; cbn [ix base finf pinf committed pending dirty].
  - intros _. rewrite R1, R2, R3. auto.
  - rewrite R4. discriminate.
  - rewrite delta_nonempty_app, lex_recs_no_frame, orb_false_r. exact (F_d _ HF).
  - exact W1.
  - exact W2.
  - exact W3.
  - rewrite W4. intros HE. rewrite forallb_app, (F_v4 _ HF HE). apply forallb_forall. intros x Hx. apply repeat_spec in Hx. subst x. reflexivity.
  - exact (F_act _ HF).
Qed.

Lemma F_tdirty_false s : F s -> delta_nonempty (pending (base s)) = false -> tdirty (ix s) = false.
Proof. intros HF HD. destruct (tdirty (ix s)) eqn:E; [|reflexivity]. pose proof (F_td _ HF E). congruence. Qed.

Lemma F_step s ds op : A s ds -> F s -> is_skip op = false -> op_ok op = true -> F (fst (bstep s op)).
Proof.
  intros HA HF Hs Hok. destruct op as [d auto g|o| |e g| |e g|e]; cbn [bstep fst]; try discriminate.
  - pose proof (A_put_append (grow s g) ds d (A_grow _ _ g HA)) as A1.
    pose proof (F_put_append (grow s g) ds d (A_grow _ _ g HA) (F_grow _ g HF) Hok) as F1.
    destruct (put_append (grow s g) d) as [s1 r]. cbn [fst] in *.
    destruct auto as [extra|]; [destruct (suppress s)|]; cbn [fst]; try exact F1. apply (F_commit_full _ _ _ A1 F1).
  - apply (F_ext s); auto.
  - apply (F_ext s); auto.
  - apply F_grow.
    destruct (pending (base s)) eqn:Ep; [destruct (dirty (base s)) eqn:Ed|]; try (apply (F_commit_full _ _ _ HA HF)).
    destruct (tdirty (ix s)); [apply (F_commit_full _ _ _ HA HF)|]. apply (F_ext s); auto.
  - apply F_grow. apply (F_finalize _ _ _ HA HF).
  - set (s1 := if dirty (base s) then commit_full s e else set_base s (bump (base s) e)).
    assert (A1 : A s1 ds).
    { pose proof (A_step s ds (BCommit e None) HA) as H. subst s1. destruct (dirty (base s)); [apply A_commit_full; exact HA|].
      destruct HA as [HJ HI HP HLF]. constructor; cbn [set_base base finf pinf bump pending committed]; assumption. }
    assert (F1 : F s1).
    { subst s1. destruct (dirty (base s)); [apply (F_commit_full _ _ _ HA HF)|apply (F_ext s); auto]. }
    assert (T1 : tdirty (ix s1) = false).
    { subst s1. destruct (dirty (base s)) eqn:Ed.
      - apply (F_tdirty_false _ F1). reflexivity.
      - apply (F_tdirty_false _ F1). cbn [set_base base bump pending].
        destruct (delta_nonempty (pending (base s))) eqn:E; [|reflexivity]. pose proof (F_d _ HF E). congruence. }
    destruct (F_fr _ F1 T1) as (_ & _ & L1).
    match goal with |- F (match pending (base ?t) with [] => _ | _ => _ end) => set (s2 := t) end.
    assert (I2 : ix s2 = ix s1).
    { subst s2. cbn [ix]. pose proof (F_v3 _ F1) as V3. pose proof (F_v2 _ F1) as V2. revert L1 T1 V2 V3.
      destruct (ix s1) as [a b c d0 e0 f g]. cbn. intros. subst. reflexivity. }
    assert (F2 : F s2) by (apply (F_ext s1); auto).
    assert (A2 : A s2 ds) by (apply (A_ext s1); auto).
    destruct (pending (base s2)); [exact F2|apply (F_commit_full _ _ _ A2 F2)].
Qed.

Lemma AF_run ops : forall s ds, A s ds -> F s -> existsb is_skip ops = false -> forallb op_ok ops = true ->
  F (fst (brun s ops)).
Proof.
  induction ops as [|op ops IH]; intros s ds HA HF Hs Hok; cbn [brun]; [exact HF|].
  cbn [existsb forallb] in Hs, Hok. apply orb_false_iff in Hs as [Hs1 Hs2]. apply andb_true_iff in Hok as [Ho1 Ho2].
  pose proof (A_step s ds op HA) as A1. pose proof (F_step s ds op HA HF Hs1 Ho1) as F1.
  destruct (bstep s op) as [s1 o]. cbn [fst] in *. specialize (IH s1 _ A1 F1 Hs2 Ho2).
  destruct (brun s1 ops) as [s2 os]. exact IH.
Qed.

(* every history without commit_skip_indexes, once nothing but lex records is pending, shows
   exactly what plain puts of its documents show *)
Theorem noskip_view ops :
  existsb is_skip ops = false -> forallb op_ok ops = true ->
  delta_nonempty (pending (base (bfinal ops))) = false ->
  bview (bfinal ops) = spec_view (docs_of_ops ops).
Proof.
  intros Hs Hok HD. pose proof (A_final ops) as HA. pose proof (AF_run ops bst0 [] A_bst0 F_bst0 Hs Hok) as HF.
  fold (bfinal ops) in HF. set (s := bfinal ops) in *. set (ds := docs_of_ops ops) in *.
  destruct (A_quiescent s ds HA HD) as (HV & HC & HI).
  pose proof (F_tdirty_false _ HF HD) as HT. destruct (F_fr _ HF HT) as (T1 & T2 & _).
  unfold bview, spec_view. rewrite HV, HI, T2, HC, HI, (F_v1 _ HF), HI.
  assert (HTL : timeline_ids s = map snd (tix_full (ref_table ds) (ref_infos ds))).
  { unfold timeline_ids. destruct T1 as [T1|[T1 T1']].
    - rewrite T1, HC, HI. reflexivity.
    - rewrite T1, T1'. rewrite <- HC, T1'. reflexivity. }
  rewrite HTL. reflexivity.
Qed.

(* ------------------------------------------------------------------ the paths of the property *)
Lemma bfinal_snoc l op : bfinal (l ++ [op]) = fst (bstep (bfinal l) op).
Proof. unfold bfinal. rewrite brun_app, brun_one. reflexivity. Qed.

Lemma commit_pending_nil s e g : pending (base (fst (bstep s (BCommit e g)))) = [].
Proof.
  cbn [bstep fst]. destruct (grow_ix (match pending (base s), dirty (base s) with
                                      | [], false => if tdirty (ix s) then commit_full s e else set_base s (bump (base s) e)
                                      | _, _ => commit_full s e end) g) as (_ & GB & _). rewrite GB.
  destruct (pending (base s)) eqn:Ep; [destruct (dirty (base s)); [reflexivity|destruct (tdirty (ix s)); [reflexivity|cbn; exact Ep]]|reflexivity].
Qed.

Lemma put_ops_facts xs :
  existsb is_skip (put_ops xs) = false /\ forallb op_ok (put_ops xs) = forallb doc_ok (map pd_doc xs) /\
  docs_of_ops (put_ops xs) = map pd_doc xs.
Proof.
  induction xs as [|[[d a] g] xs (I1 & I2 & I3)]; [repeat split|].
  cbn [put_ops map existsb forallb is_skip orb op_ok pd_doc fst snd]. fold (put_ops xs).
  split; [exact I1|]. split; [rewrite I2; reflexivity|]. change (docs_of_ops (BPut d a g :: put_ops xs)) with (d :: docs_of_ops (put_ops xs)). rewrite I3. reflexivity.
Qed.

Lemma plain_path_view xs e g :
  forallb doc_ok (map pd_doc xs) = true -> bview (bfinal (plain_path xs e g)) = spec_view (map pd_doc xs).
Proof.
  intros Hok. destruct (put_ops_facts xs) as (P1 & P2 & P3). unfold plain_path.
  assert (HDo : docs_of_ops (put_ops xs ++ [BCommit e g]) = map pd_doc xs) by (rewrite docs_of_ops_app, P3; cbn; apply app_nil_r).
  rewrite <- HDo. apply noskip_view.
  - rewrite existsb_app, P1. reflexivity.
  - rewrite forallb_app, P2, Hok. reflexivity.
  - rewrite bfinal_snoc, commit_pending_nil. reflexivity.
Qed.

Lemma batch_path_view o xs ef e g :
  forallb doc_ok (map pd_doc xs) = true -> bview (bfinal (batch_path o xs ef e g)) = spec_view (map pd_doc xs).
Proof.
  intros Hok. destruct (put_ops_facts xs) as (P1 & P2 & P3). unfold batch_path.
  set (tail := if ef then [BEnd; BCommit e g] else [BCommit e g; BEnd]).
  assert (HDo : docs_of_ops (BBegin o :: put_ops xs ++ tail) = map pd_doc xs).
  { change (BBegin o :: put_ops xs ++ tail) with ([BBegin o] ++ put_ops xs ++ tail). rewrite !docs_of_ops_app, P3. subst tail. destruct ef; cbn; apply app_nil_r. }
  rewrite <- HDo. apply noskip_view.
  - cbn [existsb is_skip orb]. rewrite existsb_app, P1. subst tail. destruct ef; reflexivity.
  - cbn [forallb op_ok andb]. rewrite forallb_app, P2, Hok. subst tail. destruct ef; reflexivity.
  - subst tail. destruct ef.
    + assert (El : BBegin o :: put_ops xs ++ [BEnd; BCommit e g] = (BBegin o :: put_ops xs ++ [BEnd]) ++ [BCommit e g])
        by (cbn [app]; rewrite <- app_assoc; reflexivity).
      rewrite El, bfinal_snoc, commit_pending_nil. reflexivity.
    + assert (El : BBegin o :: put_ops xs ++ [BCommit e g; BEnd] = ((BBegin o :: put_ops xs) ++ [BCommit e g]) ++ [BEnd])
        by (cbn [app]; rewrite <- app_assoc; reflexivity).
      rewrite El, bfinal_snoc. cbn [bstep fst set_bat base]. rewrite bfinal_snoc, commit_pending_nil. reflexivity.
Qed.

Theorem batch_equals_plain o xs ys ef e1 g1 e2 g2 :
  map pd_doc xs = map pd_doc ys -> forallb doc_ok (map pd_doc xs) = true ->
  bview (bfinal (batch_path o ys ef e2 g2)) = bview (bfinal (plain_path xs e1 g1)).
Proof. intros HE Hok. rewrite plain_path_view by exact Hok. rewrite HE in *. apply batch_path_view. exact Hok. Qed.

(* ------------------------------------------------------------------ vector half outside the known class *)
Definition NV (s : bst) : Prop := venabled (ix s) = false /\ vtoc (ix s) = None /\ vidx (ix s) = None.

Lemma NV_commit_full s e : NV s -> NV (commit_full s e).
Proof.
  intros (H1 & H2 & H3). unfold commit_full, NV. cbn [ix].
  destruct (delta_nonempty (pending (base s))); [unfold rebuild|unfold flush]; cbn [venabled vidx vtoc tdirty]; rewrite ?H1; cbn [build_vec_artifact].
  - cbn. auto.
  - match goal with |- context [if ?c then _ else _] => destruct c end; cbn; auto.
Qed.

Lemma NV_step s op : NV s -> embedded_put op = false -> NV (fst (bstep s op)).
Proof.
  intros HN He. destruct op as [d auto g|o| |e g| |e g|e]; cbn [bstep fst].
  - assert (H1 : NV (fst (put_append (grow s g) d))).
    { destruct HN as (H1 & H2 & H3). destruct (grow_ix s g) as (GI & _). unfold put_append.
      destruct (sstep (base (grow s g)) (OPut (d_uri d) (d_tag d) (d_nchunks d) 0 None)) as [b1 o]. cbn [fst]. unfold NV. cbn [ix].
      cbn [embedded_put] in He. rewrite He, GI. cbn [andb]. destruct (d_instant d); cbn; auto. }
    destruct (put_append (grow s g) d) as [s1 r]. cbn [fst] in *.
    destruct auto; [destruct (suppress s)|]; cbn [fst]; auto using NV_commit_full.
  - exact HN.
  - exact HN.
  - destruct (grow_ix (match pending (base s), dirty (base s) with
                       | [], false => if tdirty (ix s) then commit_full s e else set_base s (bump (base s) e)
                       | _, _ => commit_full s e end) g) as (GI & _). unfold NV. rewrite GI.
    destruct (pending (base s)); [destruct (dirty (base s)); [|destruct (tdirty (ix s))]|]; try apply NV_commit_full; exact HN.
  - unfold commit_skip. destruct HN as (H1 & H2 & H3).
    destruct (pending (base s)); [destruct (dirty (base s))|]; unfold NV; cbn [ix venabled vtoc vidx]; rewrite ?H2; cbn; auto.
  - destruct (grow_ix (finalize s e) g) as (GI & _). unfold NV. rewrite GI. destruct HN as (H1 & H2 & H3).
    unfold finalize. cbn [ix]. unfold rebuild. rewrite H1. cbn [build_vec_artifact]. destruct (tdirty (ix s)); cbn; auto.
  - set (s1 := if dirty (base s) then commit_full s e else set_base s (bump (base s) e)).
    assert (N1 : NV s1) by (subst s1; destruct (dirty (base s)); [apply NV_commit_full|]; exact HN).
    match goal with |- NV (match pending (base ?t) with [] => _ | _ => _ end) => set (s2 := t) end.
    assert (N2 : NV s2) by (destruct N1 as (H1 & H2 & H3); subst s2; unfold NV; cbn [ix venabled vtoc vidx]; rewrite H2; cbn; auto).
    destruct (pending (base s2)); [exact N2|apply NV_commit_full; exact N2].
Qed.

Lemma NV_run ops : forall s, NV s -> existsb embedded_put ops = false -> NV (fst (brun s ops)).
Proof.
  induction ops as [|op ops IH]; intros s HN He; cbn [brun]; [exact HN|].
  cbn [existsb] in He. apply orb_false_iff in He as [He1 He2].
  pose proof (NV_step s op HN He1) as H1. destruct (bstep s op) as [s1 o]. cbn [fst] in H1.
  specialize (IH s1 H1 He2). destruct (brun s1 ops) as [s2 os]. exact IH.
Qed.

Lemma no_embedded_infos ops : existsb embedded_put ops = false -> forallb op_ok ops = true ->
  forallb noemb (ref_infos (docs_of_ops ops)) = true.
Proof.
  induction ops as [|op ops IH]; intros He Hok; [reflexivity|].
  cbn [existsb forallb] in He, Hok. apply orb_false_iff in He as [He1 He2]. apply andb_true_iff in Hok as [Ho1 Ho2].
  change (docs_of_ops (op :: ops)) with (docs_of_op op ++ docs_of_ops ops). unfold ref_infos. rewrite flat_map_app, forallb_app.
  fold (ref_infos (docs_of_ops ops)). rewrite (IH He2 Ho2), andb_true_r.
  destruct op as [d a g| | | | | |]; try reflexivity. cbn [docs_of_op flat_map]. rewrite app_nil_r. apply doc_infos_noemb.
  cbn [embedded_put op_ok] in He1, Ho1. unfold doc_ok in Ho1. destruct (d_emb d); [|reflexivity]. unfold incoming_dimension in He1. rewrite Ho1 in He1. discriminate.
Qed.

Theorem vector_outside_known ops :
  known_class ops = false -> forallb op_ok ops = true ->
  delta_nonempty (pending (base (bfinal ops))) = false ->
  docs_of (vidx (ix (bfinal ops))) = vec_full (ref_infos (docs_of_ops ops)).
Proof.
  intros HK Hok HD. unfold known_class in HK. apply andb_false_iff in HK as [HK|HK].
  - pose proof (noskip_view ops HK Hok HD) as H. unfold bview, spec_view in H. injection H as _ _ _ _ H. exact H.
  - assert (HN : NV (bfinal ops)) by (apply NV_run; [repeat split|exact HK]).
    destruct HN as (_ & _ & H3). rewrite H3. cbn [docs_of]. symmetry. apply vec_from_noemb. apply no_embedded_infos; assumption.
Qed.

(* ------------------------------------------------------------------ ensure_wal_capacity, shift, adjust *)
Lemma ensure_wal_capacity_spec w m :
  let w' := ensure_wal_capacity w m in
  w <= w' /\ m <= w' /\ (w' <> w -> w' = next_pow2 m /\ w < m).
Proof.
  unfold ensure_wal_capacity. destruct (m <=? w) eqn:E1; [repeat split; try lia; intros H; contradiction|].
  assert (Hp : m <= next_pow2 m).
  { unfold next_pow2. destruct (N.eq_dec m 0) as [->|Hm]; [lia|]. destruct (N.eq_dec m 1) as [->|Hm1]; [vm_compute; discriminate|].
    apply N.log2_up_spec. lia. }
  destruct (next_pow2 m - w =? 0) eqn:E2; repeat split; try lia; intros H; try contradiction; try lia.
Qed.

(* every payload extent from data_start on moves by delta, every non-zero offset of the table moves by
   delta: the frame whose payload sat at (off, len) finds the same owner at the adjusted offset *)
Lemma shift_adjust_owner ext ds delta : forall off len,
  0 < off -> Forall (fun x => ds <= fst (fst x)) ext ->
  owner_at (shift_data ds delta ext) (if off =? 0 then 0 else off + delta) len = owner_at ext off len.
Proof.
  intros off len Hoff HF. replace (off =? 0) with false by lia.
  induction ext as [|[[o l] t] ext IH]; cbn [shift_data map owner_at]; [reflexivity|].
  inversion HF as [|? ? H1 H2]; subst. cbn [fst] in H1. replace (ds <=? o) with true by lia.
  fold (shift_data ds delta ext). rewrite (IH H2).
  replace (o + delta =? off + delta) with (o =? off) by lia. reflexivity.
Qed.

Lemma reopen_pending_nil s e : pending (base (fst (bstep s (BReopen e)))) = [].
Proof.
  cbn [bstep fst].
  match goal with |- context [match pending (base ?t) with [] => _ | _ => _ end] => destruct (pending (base t)) eqn:Ep end; [exact Ep|reflexivity].
Qed.

(* ... and the same after close + reopen, whatever was pending at the close *)
Theorem noskip_view_reopened ops e :
  existsb is_skip ops = false -> forallb op_ok ops = true ->
  bview (bfinal (ops ++ [BReopen e])) = spec_view (docs_of_ops ops).
Proof.
  intros Hs Hok.
  assert (HDo : docs_of_ops (ops ++ [BReopen e]) = docs_of_ops ops) by (rewrite docs_of_ops_app; cbn; apply app_nil_r).
  rewrite <- HDo. apply noskip_view.
  - rewrite existsb_app, Hs. reflexivity.
  - rewrite forallb_app, Hok. reflexivity.
  - rewrite bfinal_snoc, reopen_pending_nil. reflexivity.
Qed.
