(* Proofs for C40 (Model/Bulk.v, Model/BulkSpec.v). *)
From MV Require Import Base.Prelude Model.Store Model.StoreSpec Model.VecStore Model.Timeline Model.Bulk Model.BulkSpec Proofs.StoreProofs.
Require Import ZifyBool ZifyNat ZifyN.
Local Open Scope N_scope.

(* ------------------------------------------------------------------ small list facts *)
Lemma new_infos_app recs : forall pi E qi,
  length pi = length recs -> new_infos (recs ++ E) (pi ++ qi) = new_infos recs pi ++ new_infos E qi.
Proof.
  induction recs as [|[sq e] recs IH]; intros pi E qi HL; destruct pi as [|x pi]; cbn [length] in HL; try discriminate; cbn [app new_infos].
  - reflexivity.
  - injection HL as HL. rewrite (IH pi E qi HL). destruct (is_insert e); reflexivity.
Qed.

Lemma new_infos_all_insert E : forall qi,
  forallb (fun se => is_insert (snd se)) E = true -> length qi = length E -> new_infos E qi = qi.
Proof.
  induction E as [|[sq e] E IH]; intros qi HA HL; destruct qi as [|x qi]; cbn [length] in HL; try discriminate; cbn [new_infos]; [reflexivity|].
  cbn [forallb snd] in HA. apply andb_true_iff in HA as [H1 H2]. rewrite H1. f_equal. apply IH; [assumption|lia].
Qed.

Lemma new_infos_no_frame recs : forall pi, delta_nonempty recs = false -> new_infos recs pi = [].
Proof.
  induction recs as [|[sq e] recs IH]; intros pi HD; destruct pi as [|x pi]; cbn [new_infos]; try reflexivity.
  unfold delta_nonempty in HD. cbn [existsb snd] in HD. apply orb_false_iff in HD as [H1 H2].
  destruct e; cbn [is_lex negb] in H1; try discriminate. cbn [is_insert]. apply IH. exact H2.
Qed.

Lemma delta_nonempty_app a b : delta_nonempty (a ++ b) = delta_nonempty a || delta_nonempty b.
Proof. unfold delta_nonempty. apply existsb_app. Qed.

Lemma lex_recs_length n : forall a, length (lex_recs a n) = n.
Proof. induction n as [|n IH]; intros a; cbn [lex_recs length]; [reflexivity|]. rewrite IH. reflexivity. Qed.
Lemma lex_recs_no_frame n : forall a, delta_nonempty (lex_recs a n) = false.
Proof. induction n as [|n IH]; intros a; cbn [lex_recs]; [reflexivity|]. unfold delta_nonempty in *. cbn [existsb snd is_lex negb orb]. apply IH. Qed.
Lemma fold_lex_recs n : forall a st, fold_left apply_entry (lex_recs a n) st = st.
Proof. induction n as [|n IH]; intros a st; cbn [lex_recs fold_left]; [reflexivity|]. destruct st as [[fr sm] ins]. cbn [apply_entry]. apply IH. Qed.

Lemma fold_no_frame recs : forall st, delta_nonempty recs = false -> fold_left apply_entry recs st = st.
Proof.
  induction recs as [|[sq e] recs IH]; intros st HD; cbn [fold_left]; [reflexivity|].
  unfold delta_nonempty in HD. cbn [existsb snd] in HD. apply orb_false_iff in HD as [H1 H2].
  destruct e; cbn [is_lex negb] in H1; try discriminate. destruct st as [[fr sm] ins]. cbn [apply_entry]. apply IH. exact H2.
Qed.

Lemma view_no_frame b : delta_nonempty (pending b) = false -> view b = committed b.
Proof. intros HD. unfold view, apply_records. rewrite (fold_no_frame _ _ HD). reflexivity. Qed.

Lemma chunk_entries_facts n : forall fs ps uk tag i,
  length (chunk_entries fs ps uk tag i n) = n /\ forallb (fun se => is_insert (snd se)) (chunk_entries fs ps uk tag i n) = true.
Proof.
  induction n as [|n IH]; intros fs ps uk tag i; cbn [chunk_entries length forallb]; [split; reflexivity|].
  destruct (IH (fs + 1) ps uk tag (S i)) as [H1 H2]. cbn [snd is_insert andb]. rewrite H1, H2. split; reflexivity.
Qed.

Lemma append_chunks_dirty uk tag n : forall s ps i, dirty s = true -> dirty (append_chunks s ps uk tag i n) = true.
Proof. induction n as [|n IH]; intros s ps i Hd; cbn [append_chunks]; [exact Hd|]. unfold append. apply IH. reflexivity. Qed.

(* the append-only part of a put on the frame-table model *)
Lemma put_base_spec b uk tag nch :
  let b1 := fst (sstep b (OPut uk tag nch 0 None)) in
  exists E, pending b1 = pending b ++ E /\ committed b1 = committed b /\ dirty b1 = true /\
            length E = S (N.to_nat nch) /\ forallb (fun se => is_insert (snd se)) E = true.
Proof.
  intros b1. subst b1. cbn [sstep]. unfold append. cbn [is_insert auto_commit fst].
  match goal with |- context [append_chunks ?s1 ?ps uk tag 0 ?n] =>
    destruct (append_chunks_spec n s1 ps uk tag 0) as (P & C & _ & _);
    pose proof (append_chunks_dirty uk tag n s1 ps 0 eq_refl) as D;
    destruct (chunk_entries_facts n (seqno s1 + 1) ps uk tag 0) as [L F] end.
  cbn [pending committed seqno] in P, C, L, F.
  eexists. rewrite P, C, D. rewrite <- app_assoc. cbn [app].
  split; [reflexivity|]. split; [reflexivity|]. split; [reflexivity|].
  cbn [length forallb snd is_insert andb]. rewrite L, F. split; reflexivity.
Qed.

(* ------------------------------------------------------------------ the reference table *)
Lemma ref_table_snoc ds d : ref_table (ds ++ [d]) = ref_doc (ref_table ds) d.
Proof. unfold ref_table. rewrite fold_left_app. reflexivity. Qed.
Lemma ref_infos_snoc ds d : ref_infos (ds ++ [d]) = ref_infos ds ++ doc_infos d.
Proof. unfold ref_infos. rewrite flat_map_app. cbn [flat_map]. rewrite app_nil_r. reflexivity. Qed.

Lemma doc_infos_length d : length (doc_infos d) = S (N.to_nat (d_nchunks d)).
Proof. unfold doc_infos. cbn [length]. rewrite map_length, seq_length. reflexivity. Qed.

Lemma ref_chunks_length n : forall i fr pid uk tag, length (ref_chunks fr pid uk tag i n) = (length fr + n)%nat.
Proof. induction n as [|n IH]; intros i fr pid uk tag; cbn [ref_chunks]; [lia|]. rewrite IH, app_length. cbn [length]. lia. Qed.
Lemma ref_doc_length R d : length (ref_doc R d) = (length R + S (N.to_nat (d_nchunks d)))%nat.
Proof. unfold ref_doc, ref_put. rewrite ref_chunks_length, app_length. cbn [length]. lia. Qed.

Lemma len_ref ds : length (ref_table ds) = length (ref_infos ds).
Proof.
  induction ds as [|d ds IH] using rev_ind; [reflexivity|].
  rewrite ref_table_snoc, ref_infos_snoc, ref_doc_length, app_length, doc_infos_length, IH. reflexivity.
Qed.

Definition AllActive (fr : list frame) : Prop := Forall (fun f => f_status f = 0) fr.
Lemma ref_chunks_active n : forall i fr pid uk tag, AllActive fr -> AllActive (ref_chunks fr pid uk tag i n).
Proof.
  induction n as [|n IH]; intros i fr pid uk tag HA; cbn [ref_chunks]; [exact HA|].
  apply IH. apply Forall_app. split; [exact HA|]. constructor; [reflexivity|constructor].
Qed.
Lemma ref_table_active ds : AllActive (ref_table ds).
Proof.
  induction ds as [|d ds IH] using rev_ind; [constructor|].
  rewrite ref_table_snoc. unfold ref_doc, ref_put. apply ref_chunks_active.
  apply Forall_app. split; [exact IH|]. constructor; [reflexivity|constructor].
Qed.

(* ------------------------------------------------------------------ invariant A: table and infos *)
Record A (s : bst) (ds : list doc) : Prop := mkA {
  A_J : J (base s) (ref_table ds);
  A_inf : finf s ++ new_infos (pending (base s)) (pinf s) = ref_infos ds;
  A_lp : length (pinf s) = length (pending (base s));
  A_lf : length (finf s) = length (committed (base s)) }.

Lemma A_ext s s' ds : base s' = base s -> finf s' = finf s -> pinf s' = pinf s -> A s ds -> A s' ds.
Proof. intros Hb Hf Hp [H1 H2 H3 H4]. constructor; rewrite ?Hb, ?Hf, ?Hp; assumption. Qed.

Lemma A_bst0 : A bst0 [].
Proof. constructor; try reflexivity. apply J_store0. Qed.

Lemma put_acked b uk tag nch : acked (snd (sstep b (OPut uk tag nch 0 None))) = true.
Proof. cbn [sstep]. unfold append. reflexivity. Qed.

Lemma put_J b R uk tag nch : J b R -> J (fst (sstep b (OPut uk tag nch 0 None))) (ref_put R uk tag nch 0).
Proof.
  intros HJ. pose proof (sstep_refines b R (OPut uk tag nch 0 None) HJ) as HS.
  pose proof (put_acked b uk tag nch) as Hack.
  destruct (sstep b (OPut uk tag nch 0 None)) as [b1 o]. cbn [fst snd] in *.
  specialize (HS eq_refl). cbn [ref_step] in HS. rewrite Hack in HS. exact HS.
Qed.

Lemma A_put_append s ds d : A s ds -> A (fst (put_append s d)) (ds ++ [d]).
Proof.
  intros [HJ HI HP HF]. unfold put_append.
  pose proof (put_J (base s) _ (d_uri d) (d_tag d) (d_nchunks d) HJ) as HJ1.
  destruct (put_base_spec (base s) (d_uri d) (d_tag d) (d_nchunks d)) as (E & P & C & _ & L & F).
  destruct (sstep (base s) (OPut (d_uri d) (d_tag d) (d_nchunks d) 0 None)) as [b1 o]. cbn [fst snd] in *.
  constructor; cbn [base finf pinf].
  - rewrite ref_table_snoc. exact HJ1.
  - rewrite P, ref_infos_snoc, (new_infos_app _ _ _ _ HP), app_assoc, HI. f_equal.
    apply new_infos_all_insert; [exact F|]. rewrite doc_infos_length. symmetry. exact L.
  - rewrite P, !app_length, doc_infos_length, L, HP. reflexivity.
  - rewrite C. exact HF.
Qed.

Lemma A_commit_full s ds e : A s ds -> A (commit_full s e) ds.
Proof.
  intros [HJ HI HP HF]. unfold commit_full. constructor; cbn [base finf pinf].
  - apply J_commit. exact HJ.
  - cbn [do_commit pending new_infos]. rewrite app_nil_r. exact HI.
  - reflexivity.
  - cbn [do_commit committed]. rewrite HI, (J_view _ _ HJ), len_ref. reflexivity.
Qed.

Lemma A_commit_skip s ds : A s ds -> A (commit_skip s) ds.
Proof.
  intros HA. unfold commit_skip.
  assert (HC : forall t x, A (mkB (do_commit (base s) 0) (finf s ++ new_infos (pending (base s)) (pinf s)) [] t x) ds).
  { intros t x. destruct HA as [HJ HI HP HF]. constructor; cbn [base finf pinf].
    - apply J_commit. exact HJ.
    - cbn [do_commit pending new_infos]. rewrite app_nil_r. exact HI.
    - reflexivity.
    - cbn [do_commit committed]. rewrite HI, (J_view _ _ HJ), len_ref. reflexivity. }
  destruct (pending (base s)) eqn:Ep; [destruct (dirty (base s))|]; try exact HA; apply HC.
Qed.

Lemma A_finalize s ds e : A s ds -> A (finalize s e) ds.
Proof.
  intros [HJ HI HP HF]. unfold finalize. constructor; cbn [base finf pinf committed pending].
  - destruct HJ as [H1 H2]. split; [|exact H2]. unfold frames_after in *. cbn [committed pending].
    rewrite fold_left_app, fold_lex_recs. exact H1.
  - rewrite (new_infos_app _ _ _ _ HP), (new_infos_no_frame _ _ (lex_recs_no_frame _ _)), app_nil_r. exact HI.
  - rewrite !app_length, lex_recs_length, repeat_length, HP. reflexivity.
  - exact HF.
Qed.

Lemma A_grow s ds g : A s ds -> A (grow s g) ds.
Proof. intros HA. destruct g; [|exact HA]. apply (A_ext s); auto. Qed.

Definition docs_of_op (op : bop) : list doc := match op with BPut d _ _ => [d] | _ => [] end.

Lemma A_step s ds op : A s ds -> A (fst (bstep s op)) (ds ++ docs_of_op op).
Proof.
  intros HA. destruct op as [d auto g|o| |e g| |e g|e]; cbn [bstep docs_of_op]; rewrite ?app_nil_r.
  - pose proof (A_put_append (grow s g) ds d (A_grow _ _ g HA)) as H1.
    destruct (put_append (grow s g) d) as [s1 r]. cbn [fst] in *.
    destruct auto as [extra|]; [destruct (suppress s)|]; cbn [fst]; try exact H1. apply A_commit_full. exact H1.
  - apply (A_ext s); auto.
  - apply (A_ext s); auto.
  - cbn [fst]. apply A_grow.
    destruct (pending (base s)) eqn:Ep; [destruct (dirty (base s))|]; try (apply A_commit_full; exact HA).
    destruct (tdirty (ix s)); [apply A_commit_full; exact HA|].
    destruct HA as [HJ HI HP HF]. constructor; cbn [set_base base finf pinf bump pending committed]; rewrite ?Ep; try assumption.
    rewrite Ep in HI. exact HI. rewrite Ep in HP. exact HP.
  - cbn [fst]. apply A_commit_skip. exact HA.
  - cbn [fst]. apply A_grow, A_finalize. exact HA.
  - cbn [fst].
    set (s1 := if dirty (base s) then commit_full s e else set_base s (bump (base s) e)).
    assert (H1 : A s1 ds).
    { subst s1. destruct (dirty (base s)); [apply A_commit_full; exact HA|].
      destruct HA as [HJ HI HP HF]. constructor; cbn [set_base base finf pinf bump pending committed]; assumption. }
    match goal with |- A (match pending (base ?s2) with [] => _ | _ => _ end) _ => assert (H2 : A s2 ds) by (apply (A_ext s1); auto) end.
    match goal with |- A (match ?p with [] => ?s2 | _ => _ end) _ => destruct p; [exact H2|apply A_commit_full; exact H2] end.
Qed.

Lemma brun_app ops1 : forall s ops2, fst (brun s (ops1 ++ ops2)) = fst (brun (fst (brun s ops1)) ops2).
Proof.
  induction ops1 as [|op ops1 IH]; intros s ops2; cbn [app brun fst]; [reflexivity|].
  destruct (bstep s op) as [s1 o]. specialize (IH s1 ops2).
  destruct (brun s1 (ops1 ++ ops2)) as [s2 os]. destruct (brun s1 ops1) as [s3 os3]. cbn [fst] in *. exact IH.
Qed.
Lemma brun_one s op : fst (brun s [op]) = fst (bstep s op).
Proof. cbn [brun]. destruct (bstep s op). reflexivity. Qed.

Lemma docs_of_ops_app a b : docs_of_ops (a ++ b) = docs_of_ops a ++ docs_of_ops b.
Proof. unfold docs_of_ops. apply flat_map_app. Qed.

Lemma A_run ops : forall s ds, A s ds -> A (fst (brun s ops)) (ds ++ docs_of_ops ops).
Proof.
  induction ops as [|op ops IH]; intros s ds HA; cbn [brun]; [cbn; rewrite app_nil_r; exact HA|].
  pose proof (A_step s ds op HA) as H1. destruct (bstep s op) as [s1 o]. cbn [fst] in H1.
  specialize (IH s1 _ H1). destruct (brun s1 ops) as [s2 os]. cbn [fst] in *.
  change (docs_of_ops (op :: ops)) with (docs_of_op op ++ docs_of_ops ops). rewrite app_assoc. exact IH.
Qed.

Lemma A_final ops : A (bfinal ops) (docs_of_ops ops).
Proof. apply (A_run ops bst0 [] A_bst0). Qed.

(* ------------------------------------------------------------------ finalize_indexes: lexical half *)
Lemma rebuild_empty x C F :
  let y := rebuild x C F [] [] in
  tix y = Some (tix_full C F) /\ lex y = lex_full C F /\ lex_disk y = lex_full C F /\ tdirty y = false.
Proof. unfold rebuild. destruct (tdirty x); destruct (build_vec_artifact (venabled x) C (vidx x) []); cbn; auto. Qed.

Lemma A_quiescent s ds : A s ds -> delta_nonempty (pending (base s)) = false ->
  view (base s) = ref_table ds /\ committed (base s) = ref_table ds /\ finf s = ref_infos ds.
Proof.
  intros [HJ HI HP HF] HD. pose proof (J_view _ _ HJ) as HV.
  split; [exact HV|]. split; [rewrite <- (view_no_frame _ HD); exact HV|].
  rewrite (new_infos_no_frame _ _ HD), app_nil_r in HI. exact HI.
Qed.

Lemma grow_ix s g : ix (grow s g) = ix s /\ base (grow s g) = base s /\ finf (grow s g) = finf s /\ pinf (grow s g) = pinf s.
Proof. destruct g; cbn; auto. Qed.

(* settled: nothing but lex records pending, engine flushed *)
Definition Settled (s : bst) : Prop :=
  tdirty (ix s) = false /\ lex_disk (ix s) = lex (ix s) /\ delta_nonempty (pending (base s)) = false /\ tix (ix s) <> None.

Lemma commit_full_no_frame s e :
  delta_nonempty (pending (base s)) = false -> tdirty (ix s) = false ->
  ix (commit_full s e) = ix s /\ finf (commit_full s e) = finf s /\ pending (base (commit_full s e)) = [] /\
  committed (base (commit_full s e)) = committed (base s).
Proof.
  intros HD HT. unfold commit_full. cbn [ix finf base]. rewrite (new_infos_no_frame _ _ HD), HD. cbn [vec_from nonempty_docs andb]. rewrite HT. cbn [length inserted_ids seq map filter orb].
  rewrite !app_nil_r. unfold flush. cbn [tdirty]. cbn [do_commit pending committed]. rewrite (view_no_frame _ HD).
  repeat split. destruct (ix s); cbn in *; subst; reflexivity.
Qed.

(* close + reopen of a settled memory changes nothing a reader of tables / timeline / engine sees *)
Lemma reopen_settled s e : Settled s ->
  let s' := fst (bstep s (BReopen e)) in
  tix (ix s') = tix (ix s) /\ lex (ix s') = lex (ix s) /\ finf s' = finf s /\
  committed (base s') = committed (base s) /\ delta_nonempty (pending (base s')) = false /\
  vtoc (ix s') = vtoc (ix s) /\ vidx (ix s') = index_of (vtoc (ix s)) /\ venabled (ix s') = is_some (vtoc (ix s)).
Proof.
  intros (HT & HL & HD & HX). cbn [bstep fst].
  set (s1 := if dirty (base s) then commit_full s e else set_base s (bump (base s) e)).
  assert (H1 : ix s1 = ix s /\ finf s1 = finf s /\ committed (base s1) = committed (base s) /\ delta_nonempty (pending (base s1)) = false).
  { subst s1. destruct (dirty (base s)).
    - destruct (commit_full_no_frame s e HD HT) as (a & b & c & d). rewrite a, b, c, d. auto.
    - cbn. auto. }
  destruct H1 as (I1 & F1 & C1 & D1).
  match goal with |- context [match pending (base ?t) with [] => _ | _ => _ end] => set (s2 := t) end.
  assert (HD2 : delta_nonempty (pending (base s2)) = false) by exact D1.
  assert (HT2 : tdirty (ix s2) = false) by reflexivity.
  assert (HR : ix (match pending (base s2) with [] => s2 | _ => commit_full s2 0 end) = ix s2 /\
               finf (match pending (base s2) with [] => s2 | _ => commit_full s2 0 end) = finf s2 /\
               committed (base (match pending (base s2) with [] => s2 | _ => commit_full s2 0 end)) = committed (base s2) /\
               delta_nonempty (pending (base (match pending (base s2) with [] => s2 | _ => commit_full s2 0 end))) = false).
  { destruct (pending (base s2)) eqn:Ep; [repeat split; try reflexivity; rewrite Ep; reflexivity|].
    destruct (commit_full_no_frame s2 0) as (a & b & c & d); [rewrite Ep; exact HD2|exact HT2|].
    rewrite a, b, c, d. auto. }
  destruct HR as (R1 & R2 & R3 & R4). rewrite R1, R2, R3, R4.
  subst s2. cbn [ix finf base tix lex vtoc vidx venabled]. rewrite I1, F1, C1. destruct (tix (ix s)) eqn:Et; [|contradiction]. rewrite HL. auto 10.
Qed.

Theorem finalize_lexical ops e g :
  let s := bfinal ops in let ds := docs_of_ops ops in
  delta_nonempty (pending (base s)) = false ->
  let s' := fst (bstep s (BFinalize e g)) in
  view (base s') = ref_table ds /\ finf s' = ref_infos ds /\
  timeline_ids s' = map snd (tix_full (ref_table ds) (ref_infos ds)) /\
  lex (ix s') = lex_full (ref_table ds) (ref_infos ds) /\ Settled s'.
Proof.
  intros s ds HD s'. pose proof (A_final ops) as HA. fold s ds in HA.
  pose proof (A_step s ds (BFinalize e g) HA) as HA'. fold s' in HA'. cbn [docs_of_op] in HA'. rewrite app_nil_r in HA'.
  destruct (A_quiescent s ds HA HD) as (HV & HC & HF).
  subst s'. cbn [bstep fst] in *. destruct (grow_ix (finalize s e) g) as (GI & GB & GF & GP).
  destruct (rebuild_empty (ix s) (committed (base s)) (finf s)) as (R1 & R2 & R3 & R4).
  split; [exact (J_view _ _ (A_J _ _ HA'))|].
  split; [rewrite GF; exact HF|].
  unfold timeline_ids, Settled. rewrite GI, GB. cbn [finalize ix base pending]. rewrite R1, R2, R3, R4, HC, HF.
  repeat split; try discriminate. rewrite delta_nonempty_app, HD, lex_recs_no_frame. reflexivity.
Qed.

Theorem finalize_lexical_reopened ops e g e2 :
  let s := bfinal ops in let ds := docs_of_ops ops in
  delta_nonempty (pending (base s)) = false ->
  let s' := fst (bstep (fst (bstep s (BFinalize e g))) (BReopen e2)) in
  view (base s') = ref_table ds /\ finf s' = ref_infos ds /\
  timeline_ids s' = map snd (tix_full (ref_table ds) (ref_infos ds)) /\
  lex (ix s') = lex_full (ref_table ds) (ref_infos ds).
Proof.
  intros s ds HD s'.
  destruct (finalize_lexical ops e g HD) as (V & F & T & L & HS). fold s ds in V, F, T, L, HS.
  set (s1 := fst (bstep s (BFinalize e g))) in *.
  destruct (reopen_settled s1 e2 HS) as (R1 & R2 & R3 & R4 & R5 & _). fold s' in R1, R2, R3, R4, R5.
  pose proof (A_final (ops ++ [BFinalize e g; BReopen e2])) as HA.
  unfold bfinal in HA. rewrite brun_app in HA. fold (bfinal ops) in HA. fold s in HA.
  assert (HE : fst (brun s [BFinalize e g; BReopen e2]) = s').
  { cbn [brun]. subst s' s1. destruct (bstep s (BFinalize e g)) as [a oa]. cbn [fst]. destruct (bstep a (BReopen e2)) as [b ob]. reflexivity. }
  rewrite HE, docs_of_ops_app in HA. cbn [docs_of_ops flat_map app] in HA. rewrite app_nil_r in HA. fold ds in HA.
  destruct (A_quiescent s' ds HA R5) as (HV & HC & HF).
  split; [exact HV|]. split; [exact HF|].
  unfold timeline_ids in *. rewrite R1, R2, R4. split; [exact T|exact L].
Qed.

(* ------------------------------------------------------------------ vector documents *)
Definition noemb (i : info) : bool := negb (is_some (i_emb i)).

Lemma vec_from_app a : forall b c, vec_from b (a ++ c) = vec_from b a ++ vec_from (b + N.of_nat (length a)) c.
Proof.
  induction a as [|x a IH]; intros b c; cbn [app vec_from length].
  - f_equal. lia.
  - rewrite IH, app_assoc. do 2 f_equal. lia.
Qed.
Lemma vec_from_noemb l : forall b, forallb noemb l = true -> vec_from b l = [].
Proof.
  induction l as [|x l IH]; intros b H; cbn [vec_from]; [reflexivity|]. cbn [forallb] in H. apply andb_true_iff in H as [H1 H2].
  rewrite (IH _ H2). unfold noemb in H1. destruct (i_emb x); [discriminate|reflexivity].
Qed.
Lemma new_infos_noemb recs : forall pi, forallb noemb pi = true -> forallb noemb (new_infos recs pi) = true.
Proof.
  induction recs as [|[sq e] recs IH]; intros pi H; destruct pi as [|x pi]; cbn [new_infos]; try reflexivity.
  cbn [forallb] in H. apply andb_true_iff in H as [H1 H2]. destruct (is_insert e); cbn [forallb]; rewrite ?H1; apply IH; exact H2.
Qed.
Lemma vec_from_bound l : forall b x, In x (vec_from b l) -> b <= fst x < b + N.of_nat (length l).
Proof.
  induction l as [|y l IH]; intros b x H; cbn [vec_from length] in *; [contradiction|].
  apply in_app_or in H as [H|H].
  - destruct (i_emb y); cbn in H; [destruct H as [H|[]]; subst x; cbn [fst]; lia|contradiction].
  - specialize (IH _ _ H). lia.
Qed.
Lemma active_in_range R i : AllActive R -> i < N.of_nat (length R) -> frame_is_active R i = true.
Proof.
  intros HA Hi. unfold frame_is_active, get.
  destruct (nth_error R (N.to_nat i)) as [f|] eqn:E.
  - apply nth_error_In in E. unfold AllActive in HA. rewrite Forall_forall in HA. rewrite (HA _ E). reflexivity.
  - apply nth_error_None in E. lia.
Qed.
Lemma filter_true {X} (f : X -> bool) l : (forall x, In x l -> f x = true) -> filter f l = l.
Proof.
  induction l as [|x l IH]; intros H; cbn [filter]; [reflexivity|]. rewrite (H x (or_introl eq_refl)). f_equal. apply IH. intros y Hy. apply H. right. exact Hy.
Qed.
Lemma filter_active_vec R il : AllActive R -> (length il <= length R)%nat ->
  filter (fun x => frame_is_active R (fst x)) (vec_full il) = vec_full il.
Proof.
  intros HA HL. apply filter_true. intros x Hx. apply vec_from_bound in Hx. apply active_in_range; [exact HA|lia].
Qed.

(* ------------------------------------------------------------------ invariant F *)
(* w = inside the window between commit_skip_indexes and the next finalize_indexes: there the
   persisted indexes (F_fr, F_v2) are stale by design; everything else holds always *)
Record F (w : bool) (s : bst) : Prop := mkF {
  F_fr : w = false -> tdirty (ix s) = false ->
         (tix (ix s) = Some (tix_full (committed (base s)) (finf s)) \/ (tix (ix s) = None /\ committed (base s) = [])) /\
         lex (ix s) = lex_full (committed (base s)) (finf s) /\ lex_disk (ix s) = lex (ix s);
  F_td : tdirty (ix s) = true -> delta_nonempty (pending (base s)) = true;
  F_d : delta_nonempty (pending (base s)) = true -> dirty (base s) = true;
  F_v1 : docs_of (vidx (ix s)) = vec_full (finf s);                       (* the in-memory index is complete *)
  F_v2 : w = false -> index_of (vtoc (ix s)) = vidx (ix s);               (* ... and persisted *)
  F_v3 : venabled (ix s) = is_some (vtoc (ix s));
  F_v4 : venabled (ix s) = false -> forallb noemb (pinf s) = true;
  F_v5 : venabled (ix s) = false -> vidx (ix s) = None /\ vtoc (ix s) = None;
  F_v6 : vidx (ix s) = None -> index_of (vtoc (ix s)) = None;
  F_act : AllActive (committed (base s)) }.

Lemma F_bst0 : F false bst0.
Proof. constructor; cbn; try reflexivity; try discriminate; auto. constructor. Qed.

Lemma F_weaken w s : F w s -> F true s.
Proof. intros [a b c d e f g h i j]. constructor; try assumption; intros Hw; discriminate Hw. Qed.

Lemma disabled_empty w s : F w s -> venabled (ix s) = false -> vidx (ix s) = None /\ vtoc (ix s) = None /\ vec_full (finf s) = [].
Proof.
  intros HF HE. destruct (F_v5 _ _ HF HE) as (H1 & H2). pose proof (F_v1 _ _ HF) as H3. rewrite H1 in H3. cbn in H3. auto.
Qed.

Lemma nonempty_docs_false d : nonempty_docs d = false -> d = [].
Proof. destruct d; [reflexivity|discriminate]. Qed.

(* commit_from_records re-establishes the persisted indexes whenever it applies a frame record,
   whatever the window state; otherwise it leaves the indexes alone *)
Lemma F_commit_full w s ds e : A s ds -> F w s -> F w (commit_full s e).
Proof.
  intros HA HF. pose proof (J_view _ _ (A_J _ _ HA)) as HV.
  pose proof (A_inf _ _ HA) as HI. pose proof (A_lf _ _ HA) as HLF.
  assert (HLen : (length (finf s) <= length (ref_table ds))%nat).
  { rewrite len_ref, <- HI, app_length. lia. }
  unfold commit_full. set (recs := pending (base s)) in *. set (ni := new_infos recs (pinf s)) in *.
  assert (HN0 : len (committed (base s)) = 0 + N.of_nat (length (finf s))) by (unfold len; rewrite HLF; lia).
  (* the replay enabling never fires here: a disabled index has no embedding pending *)
  assert (HX : (if nonempty_docs (vec_from (len (committed (base s))) ni) && negb (venabled (ix s)) then enable (ix s) else ix s) = ix s).
  { destruct (venabled (ix s)) eqn:HE; [rewrite andb_false_r; reflexivity|].
    rewrite (vec_from_noemb ni _ (new_infos_noemb recs _ (F_v4 _ _ HF HE))). reflexivity. }
  rewrite HX.
  destruct (delta_nonempty recs) eqn:HD.
  - (* rebuild *)
    rewrite orb_true_r. unfold rebuild. cbn [tdirty venabled vidx lex].
    destruct (venabled (ix s)) eqn:HE; cbn [build_vec_artifact].
    + constructor; cbn [ix base finf pinf tix lex lex_disk tdirty venabled vtoc vidx do_commit committed pending docs_of index_of is_some]; try reflexivity; try discriminate; auto.
      * rewrite (F_v1 _ _ HF), HV. rewrite (filter_active_vec _ _ (ref_table_active ds) HLen).
        unfold vec_full. rewrite vec_from_app, HN0. reflexivity.
      * rewrite HV. apply ref_table_active.
    + destruct (disabled_empty _ s HF HE) as (V1 & V2 & V3).
      constructor; cbn [ix base finf pinf tix lex lex_disk tdirty venabled vtoc vidx do_commit committed pending docs_of index_of is_some]; try reflexivity; try discriminate; auto.
      * unfold vec_full in *. rewrite vec_from_app, V3. cbn [app]. symmetry. apply vec_from_noemb. apply new_infos_noemb. exact (F_v4 _ _ HF HE).
      * rewrite HV. apply ref_table_active.
  - (* nothing but lex records *)
    assert (HT : tdirty (ix s) = false).
    { destruct (tdirty (ix s)) eqn:E; [|reflexivity]. pose proof (F_td _ _ HF E) as H. fold recs in H. congruence. }
    assert (Hni : ni = []) by (apply new_infos_no_frame; exact HD).
    rewrite HT, Hni. cbn [length inserted_ids seq map filter orb]. rewrite !app_nil_r. unfold flush. cbn [tdirty].
    pose proof (view_no_frame _ HD) as HVC.
    constructor; cbn [ix base finf pinf tix lex lex_disk tdirty venabled vtoc vidx do_commit committed pending]; try reflexivity; try discriminate.
    + intros Hw _. rewrite HVC. exact (F_fr _ _ HF Hw HT).
    + exact (F_v1 _ _ HF).
    + exact (F_v2 _ _ HF).
    + exact (F_v3 _ _ HF).
    + exact (F_v5 _ _ HF).
    + exact (F_v6 _ _ HF).
    + rewrite HVC. exact (F_act _ _ HF).
Qed.

Lemma F_ext w s s' : committed (base s') = committed (base s) -> pending (base s') = pending (base s) ->
  dirty (base s') = dirty (base s) -> finf s' = finf s -> pinf s' = pinf s -> ix s' = ix s -> F w s -> F w s'.
Proof. intros H1 H2 H3 H4 H5 H6 [a b c d e f g h i j]. constructor; rewrite ?H1, ?H2, ?H3, ?H4, ?H5, ?H6; assumption. Qed.

Lemma doc_infos_noemb d : eff_emb (d_emb d) = None -> forallb noemb (doc_infos d) = true.
Proof.
  intros H. unfold doc_infos. cbn [forallb]. unfold noemb at 1. cbn [i_emb]. rewrite H. cbn [is_some negb andb].
  apply forallb_forall. intros x Hx. apply in_map_iff in Hx as (j & Hj & _). subst x. reflexivity.
Qed.

Lemma delta_nonempty_inserts E : forallb (fun se => is_insert (snd se)) E = true -> (0 < length E)%nat -> delta_nonempty E = true.
Proof.
  destruct E as [|[sq e] E]; cbn [length forallb snd]; intros H HL; [lia|]. apply andb_true_iff in H as [H _].
  unfold delta_nonempty. cbn [existsb snd]. destruct e; try discriminate. reflexivity.
Qed.

Lemma F_put_append w s ds d : A s ds -> F w s -> F w (fst (put_append s d)).
Proof.
  intros HA HF. unfold put_append.
  destruct (put_base_spec (base s) (d_uri d) (d_tag d) (d_nchunks d)) as (E & P & C & D & L & FI).
  destruct (sstep (base s) (OPut (d_uri d) (d_tag d) (d_nchunks d) 0 None)) as [b1 o]. cbn [fst snd] in *.
  assert (HDN : delta_nonempty (pending b1) = true).
  { rewrite P, delta_nonempty_app, (delta_nonempty_inserts E FI), orb_true_r; [reflexivity|lia]. }
  pose proof (F_act _ _ HF) as HAct. rewrite <- C in HAct.
  destruct (venabled (ix s)) eqn:HE.
  - (* already enabled *)
    rewrite andb_false_r.
    destruct (d_instant d); constructor; cbn [ix base finf pinf tdirty tix lex lex_disk vidx vtoc venabled]; rewrite ?C;
      first [ exact (F_v1 _ _ HF) | exact (F_v2 _ _ HF) | exact (F_v3 _ _ HF) | exact (F_v6 _ _ HF) | exact HAct | exact (F_act _ _ HF)
            | (intros Hw HT; exact (F_fr _ _ HF Hw HT)) | (intros _ HT; discriminate HT) | (intros _; exact HDN) | (intros _; exact D)
            | (intros HX; congruence) ].
  - destruct (disabled_empty _ s HF HE) as (V1 & V2 & V3). rewrite andb_true_r.
    destruct (incoming_dimension (d_emb d) None) eqn:Een.
    + (* enable_vec *)
      rewrite V2.
      destruct (d_instant d); constructor; cbn [ix base finf pinf tdirty tix lex lex_disk vidx vtoc venabled index_of is_some]; rewrite ?C;
        first [ exact (F_v1 _ _ HF) | (intros _; symmetry; exact V1) | reflexivity | exact HAct | exact (F_act _ _ HF)
              | (intros Hw HT; exact (F_fr _ _ HF Hw HT)) | (intros _ HT; discriminate HT) | (intros HT; discriminate HT)
              | (intros _; exact HDN) | (intros _; exact D) | (intros _; reflexivity) ].
    + assert (Hemb : eff_emb (d_emb d) = None).
      { destruct (d_emb d) as [[|a l]|]; try reflexivity. cbn in Een. discriminate Een. }
      assert (HP4 : forallb noemb (pinf s ++ doc_infos d) = true).
      { rewrite forallb_app, (F_v4 _ _ HF HE), (doc_infos_noemb d Hemb). reflexivity. }
      destruct (d_instant d); constructor; cbn [ix base finf pinf tdirty tix lex lex_disk vidx vtoc venabled]; rewrite ?C;
        first [ exact (F_v1 _ _ HF) | exact (F_v2 _ _ HF) | exact (F_v3 _ _ HF) | exact (F_v5 _ _ HF) | exact (F_v6 _ _ HF) | exact HAct | exact (F_act _ _ HF)
              | (intros Hw HT; exact (F_fr _ _ HF Hw HT)) | (intros _ HT; discriminate HT) | (intros _; exact HDN) | (intros _; exact D)
              | (intros _; exact HP4) ].
Qed.

Lemma F_grow w s g : F w s -> F w (grow s g).
Proof. intros HF. destruct g; [|exact HF]. apply (F_ext w s); auto. Qed.

(* finalize_indexes closes the window: whatever w was, the result satisfies F false *)
Lemma F_finalize w s ds e : A s ds -> F w s -> F false (finalize s e).
Proof.
  intros HA HF. unfold finalize. pose proof (A_lf _ _ HA) as HLF.
  destruct (rebuild_empty (ix s) (committed (base s)) (finf s)) as (R1 & R2 & R3 & R4).
  assert (HV : let y := rebuild (ix s) (committed (base s)) (finf s) [] [] in
               docs_of (vidx y) = vec_full (finf s) /\ index_of (vtoc y) = vidx y /\ venabled y = is_some (vtoc y) /\ venabled y = venabled (ix s) /\
               (venabled y = false -> vidx y = None /\ vtoc y = None) /\ (vidx y = None -> index_of (vtoc y) = None)).
  { unfold rebuild. destruct (venabled (ix s)) eqn:HE; cbn [build_vec_artifact].
    - pose proof (F_act _ _ HF) as HAc.
      destruct (tdirty (ix s)); cbn; rewrite app_nil_r, (F_v1 _ _ HF), filter_active_vec; auto; try lia;
        repeat split; auto; discriminate.
    - destruct (disabled_empty _ s HF HE) as (V1 & V2 & V3). destruct (tdirty (ix s)); cbn; rewrite V3; auto 10. }
  destruct HV as (W1 & W2 & W3 & W4 & W5 & W6).
  constructor; cbn [ix base finf pinf committed pending dirty].
  - intros _ _. rewrite R1, R2, R3. auto.
  - rewrite R4. discriminate.
  - rewrite delta_nonempty_app, lex_recs_no_frame, orb_false_r. exact (F_d _ _ HF).
  - exact W1.
  - intros _. exact W2.
  - exact W3.
  - rewrite W4. intros HE. rewrite forallb_app, (F_v4 _ _ HF HE). apply forallb_forall. intros x Hx. apply repeat_spec in Hx. subst x. reflexivity.
  - exact W5.
  - exact W6.
  - exact (F_act _ _ HF).
Qed.

(* commit_skip_indexes opens the window; the in-memory vector index stays complete (fix ed861c9) *)
Lemma F_commit_skip w s ds : A s ds -> F w s -> F true (commit_skip s).
Proof.
  intros HA HF. unfold commit_skip.
  pose proof (J_view _ _ (A_J _ _ HA)) as HV.
  pose proof (A_inf _ _ HA) as HI. pose proof (A_lf _ _ HA) as HLF.
  assert (HLen : (length (finf s) <= length (ref_table ds))%nat).
  { rewrite len_ref, <- HI, app_length. lia. }
  assert (HN0 : len (committed (base s)) = 0 + N.of_nat (length (finf s))) by (unfold len; rewrite HLF; lia).
  set (ni := new_infos (pending (base s)) (pinf s)) in *.
  set (newd := vec_from (len (committed (base s))) ni).
  assert (HC : F true (mkB (do_commit (base s) 0) (finf s ++ ni) [] (mkBat (bopts (bat s)) (wal_size (bat s)) (wal_skip (bat s)) 0)
                 (mkIdx None (lex (ix s)) [] false (venabled (ix s)) (zero_manifest (vtoc (ix s)))
                    (if nonempty_docs newd && venabled (ix s)
                     then match build_vec_artifact (venabled (ix s)) (view (base s))
                                  (match vidx (ix s) with Some d => Some d | None => index_of (vtoc (ix s)) end) newd with
                          | Some d => Some d
                          | None => match vidx (ix s) with Some d => Some d | None => index_of (vtoc (ix s)) end
                          end
                     else vidx (ix s))))).
  { assert (Hcur : docs_of (match vidx (ix s) with Some d => Some d | None => index_of (vtoc (ix s)) end) = vec_full (finf s)).
    { rewrite <- (F_v1 _ _ HF). destruct (vidx (ix s)) eqn:Ev; [reflexivity|]. rewrite (F_v6 _ _ HF Ev). reflexivity. }
    assert (Hfull : vec_full (finf s ++ ni) = vec_full (finf s) ++ newd).
    { unfold vec_full, newd. rewrite vec_from_app, HN0. reflexivity. }
    constructor; cbn [ix base finf pinf tix lex lex_disk tdirty venabled vtoc vidx do_commit committed pending]; try discriminate; try reflexivity.
    - (* F_v1 *)
      rewrite Hfull. destruct (venabled (ix s)) eqn:HE.
      + destruct (nonempty_docs newd) eqn:Hn; cbn [andb build_vec_artifact docs_of].
        * rewrite Hcur, HV, (filter_active_vec _ _ (ref_table_active ds) HLen). reflexivity.
        * rewrite (nonempty_docs_false _ Hn), app_nil_r. exact (F_v1 _ _ HF).
      + rewrite andb_false_r. assert (Hn : newd = []) by (apply vec_from_noemb, new_infos_noemb, (F_v4 _ _ HF HE)).
        rewrite Hn, app_nil_r. exact (F_v1 _ _ HF).
    - (* F_v3 *) rewrite (F_v3 _ _ HF). destruct (vtoc (ix s)); reflexivity.
    - (* F_v5 *) intros HE. rewrite HE, andb_false_r. destruct (F_v5 _ _ HF HE) as (H1 & H2). rewrite H1, H2. auto.
    - (* F_v6 *) intros _. destruct (vtoc (ix s)); reflexivity.
    - (* F_act *) rewrite HV. apply ref_table_active. }
  destruct (pending (base s)) eqn:Ep; [destruct (dirty (base s))|]; try exact (F_weaken _ _ HF); exact HC.
Qed.

Lemma F_tdirty_false w s : F w s -> delta_nonempty (pending (base s)) = false -> tdirty (ix s) = false.
Proof. intros HF HD. destruct (tdirty (ix s)) eqn:E; [|reflexivity]. pose proof (F_td _ _ HF E). congruence. Qed.

(* the window after one op; None = close + reopen inside the window *)
Definition wnext (w : bool) (op : bop) : option bool :=
  match op with
  | BSkip => Some true
  | BFinalize _ _ => Some false
  | BReopen _ => if w then None else Some false
  | _ => Some w
  end.

Lemma scan_cons w op r : scan w (op :: r) = match wnext w op with Some w' => scan w' r | None => None end.
Proof. destruct op; cbn [scan wnext]; try reflexivity. destruct w; reflexivity. Qed.

Lemma F_step w w' s ds op : A s ds -> F w s -> wnext w op = Some w' -> F w' (fst (bstep s op)).
Proof.
  intros HA HF Hw. destruct op as [d auto g|o| |e g| |e g|e]; cbn [bstep fst]; cbn [wnext] in Hw.
  - injection Hw as <-.
    pose proof (A_put_append (grow s g) ds d (A_grow _ _ g HA)) as A1.
    pose proof (F_put_append w (grow s g) ds d (A_grow _ _ g HA) (F_grow _ _ g HF)) as F1.
    destruct (put_append (grow s g) d) as [s1 r]. cbn [fst] in *.
    destruct auto as [extra|]; [destruct (suppress s)|]; cbn [fst]; try exact F1. apply (F_commit_full _ _ _ _ A1 F1).
  - injection Hw as <-. apply (F_ext w s); auto.
  - injection Hw as <-. apply (F_ext w s); auto.
  - injection Hw as <-. apply F_grow.
    destruct (pending (base s)) eqn:Ep; [destruct (dirty (base s)) eqn:Ed|]; try (apply (F_commit_full _ _ _ _ HA HF)).
    destruct (tdirty (ix s)); [apply (F_commit_full _ _ _ _ HA HF)|]. apply (F_ext w s); auto.
  - injection Hw as <-. apply (F_commit_skip _ _ _ HA HF).
  - injection Hw as <-. apply F_grow. apply (F_finalize _ _ _ _ HA HF).
  - destruct w; [discriminate|]. injection Hw as <-.
    set (s1 := if dirty (base s) then commit_full s e else set_base s (bump (base s) e)).
    assert (A1 : A s1 ds).
    { subst s1. destruct (dirty (base s)); [apply A_commit_full; exact HA|].
      destruct HA as [HJ HI HP HLF]. constructor; cbn [set_base base finf pinf bump pending committed]; assumption. }
    assert (F1 : F false s1).
    { subst s1. destruct (dirty (base s)); [apply (F_commit_full _ _ _ _ HA HF)|apply (F_ext false s); auto]. }
    assert (T1 : tdirty (ix s1) = false).
    { subst s1. destruct (dirty (base s)) eqn:Ed.
      - apply (F_tdirty_false _ _ F1). reflexivity.
      - apply (F_tdirty_false _ _ F1). cbn [set_base base bump pending].
        destruct (delta_nonempty (pending (base s))) eqn:E; [|reflexivity]. pose proof (F_d _ _ HF E). congruence. }
    destruct (F_fr _ _ F1 eq_refl T1) as (_ & L0 & L1).
    match goal with |- F false (match pending (base ?t) with [] => _ | _ => _ end) => set (s2 := t) end.
    assert (I2 : ix s2 = ix s1).
    { subst s2. cbn [ix]. pose proof (F_v3 _ _ F1) as V3. pose proof (F_v2 _ _ F1 eq_refl) as V2. revert L0 L1 T1 V2 V3.
      generalize (lex_full (committed (base s1)) (finf s1)). intros lf.
      destruct (ix s1) as [a b c d0 e0 f g]. cbn. intros. subst. destruct a; reflexivity. }
    assert (F2 : F false s2) by (apply (F_ext false s1); auto).
    assert (A2 : A s2 ds) by (apply (A_ext s1); auto).
    destruct (pending (base s2)); [exact F2|apply (F_commit_full _ _ _ _ A2 F2)].
Qed.

Lemma AF_run ops : forall w w' s ds, A s ds -> F w s -> scan w ops = Some w' -> F w' (fst (brun s ops)).
Proof.
  induction ops as [|op ops IH]; intros w w' s ds HA HF Hs; cbn [brun]; [cbn in Hs; injection Hs as <-; exact HF|].
  rewrite scan_cons in Hs. destruct (wnext w op) as [w1|] eqn:Ew; [|discriminate].
  pose proof (A_step s ds op HA) as A1. pose proof (F_step w w1 s ds op HA HF Ew) as F1.
  destruct (bstep s op) as [s1 o]. cbn [fst] in *. specialize (IH w1 w' s1 _ A1 F1 Hs).
  destruct (brun s1 ops) as [s2 os]. exact IH.
Qed.

(* MAIN: every history over the whole alphabet -- puts, begin_batch / end_batch, commit,
   commit_skip_indexes, finalize_indexes, close + reopen -- that does not close the memory between a
   commit_skip_indexes and the following finalize_indexes, once it is outside that window and only lex
   records are pending, shows exactly what plain puts of its documents show: frames, content tags,
   timestamps, timeline, engine documents AND vector documents *)
Theorem bulk_view ops :
  scan false ops = Some false ->
  delta_nonempty (pending (base (bfinal ops))) = false ->
  bview (bfinal ops) = spec_view (docs_of_ops ops).
Proof.
  intros Hs HD. pose proof (A_final ops) as HA. pose proof (AF_run ops false false bst0 [] A_bst0 F_bst0 Hs) as HF.
  fold (bfinal ops) in HF. set (s := bfinal ops) in *. set (ds := docs_of_ops ops) in *.
  destruct (A_quiescent s ds HA HD) as (HV & HC & HI).
  pose proof (F_tdirty_false _ _ HF HD) as HT. destruct (F_fr _ _ HF eq_refl HT) as (T1 & T2 & _).
  unfold bview, spec_view. rewrite HV, HI, T2, HC, HI, (F_v1 _ _ HF), HI.
  assert (HTL : timeline_ids s = map snd (tix_full (ref_table ds) (ref_infos ds))).
  { unfold timeline_ids. destruct T1 as [T1|[T1 T1']].
    - rewrite T1, HC, HI. reflexivity.
    - rewrite T1, T1'. rewrite <- HC, T1'. reflexivity. }
  rewrite HTL. reflexivity.
Qed.

(* inside the window the in-memory vector index is already complete (what live search_vec scans) *)
Theorem vector_live_any_window ops w :
  scan false ops = Some w -> vec_full (finf (bfinal ops)) = docs_of (vidx (ix (bfinal ops))).
Proof. intros Hs. symmetry. exact (F_v1 _ _ (AF_run ops false w bst0 [] A_bst0 F_bst0 Hs)). Qed.

(* ------------------------------------------------------------------ the paths of the property *)
Lemma bfinal_snoc l op : bfinal (l ++ [op]) = fst (bstep (bfinal l) op).
Proof. unfold bfinal. rewrite brun_app, brun_one. reflexivity. Qed.

Lemma commit_pending_nil s e g : pending (base (fst (bstep s (BCommit e g)))) = [].
Proof.
  cbn [bstep fst]. destruct (grow_ix (match pending (base s), dirty (base s) with
                                      | [], false => if tdirty (ix s) then commit_full s e else set_base s (bump (base s) e)
                                      | _, _ => commit_full s e end) g) as (_ & GB & _). rewrite GB.
  destruct (pending (base s)) eqn:Ep; [destruct (dirty (base s)); [reflexivity|destruct (tdirty (ix s)); [reflexivity|cbn; exact Ep]]|reflexivity].
Qed.

Lemma skip_pending_nil s : pending (base (fst (bstep s BSkip))) = [].
Proof.
  cbn [bstep fst]. unfold commit_skip.
  destruct (pending (base s)) eqn:Ep; [destruct (dirty (base s)); [reflexivity|exact Ep]|reflexivity].
Qed.

Lemma reopen_pending_nil s e : pending (base (fst (bstep s (BReopen e)))) = [].
Proof.
  cbn [bstep fst].
  match goal with |- context [match pending (base ?t) with [] => _ | _ => _ end] => destruct (pending (base t)) eqn:Ep end; [exact Ep|reflexivity].
Qed.

Lemma finalize_no_frame s e g : delta_nonempty (pending (base s)) = false ->
  delta_nonempty (pending (base (fst (bstep s (BFinalize e g))))) = false.
Proof.
  intros HD. cbn [bstep fst]. destruct (grow_ix (finalize s e) g) as (_ & GB & _). rewrite GB.
  cbn [finalize base pending]. rewrite delta_nonempty_app, HD, lex_recs_no_frame. reflexivity.
Qed.

(* scan over op lists without skip / finalize / reopen *)
Definition plain_op (op : bop) : bool := match op with BSkip | BFinalize _ _ | BReopen _ => false | _ => true end.
Lemma scan_plain l : forall w r, forallb plain_op l = true -> scan w (l ++ r) = scan w r.
Proof.
  induction l as [|op l IH]; intros w r H; [reflexivity|]. cbn [forallb] in H. apply andb_true_iff in H as [H1 H2].
  cbn [app]. destruct op; try discriminate; cbn [scan]; apply IH; exact H2.
Qed.

Lemma put_ops_facts xs : forallb plain_op (put_ops xs) = true /\ docs_of_ops (put_ops xs) = map pd_doc xs.
Proof.
  induction xs as [|[[d a] g] xs (I1 & I3)]; [split; reflexivity|].
  cbn [put_ops map forallb plain_op andb pd_doc fst snd]. fold (put_ops xs).
  split; [exact I1|]. change (docs_of_ops (BPut d a g :: put_ops xs)) with (d :: docs_of_ops (put_ops xs)). rewrite I3. reflexivity.
Qed.

Lemma plain_path_view xs e g : bview (bfinal (plain_path xs e g)) = spec_view (map pd_doc xs).
Proof.
  destruct (put_ops_facts xs) as (P1 & P3). unfold plain_path.
  assert (HDo : docs_of_ops (put_ops xs ++ [BCommit e g]) = map pd_doc xs) by (rewrite docs_of_ops_app, P3; cbn; apply app_nil_r).
  rewrite <- HDo. apply bulk_view.
  - rewrite (scan_plain _ _ _ P1). reflexivity.
  - rewrite bfinal_snoc, commit_pending_nil. reflexivity.
Qed.

Lemma batch_path_view o xs ef e g : bview (bfinal (batch_path o xs ef e g)) = spec_view (map pd_doc xs).
Proof.
  destruct (put_ops_facts xs) as (P1 & P3). unfold batch_path.
  set (tail := if ef then [BEnd; BCommit e g] else [BCommit e g; BEnd]).
  assert (HDo : docs_of_ops (BBegin o :: put_ops xs ++ tail) = map pd_doc xs).
  { change (BBegin o :: put_ops xs ++ tail) with ([BBegin o] ++ put_ops xs ++ tail). rewrite !docs_of_ops_app, P3. subst tail. destruct ef; cbn; apply app_nil_r. }
  rewrite <- HDo. apply bulk_view.
  - cbn [scan]. rewrite (scan_plain _ _ _ P1). subst tail. destruct ef; reflexivity.
  - subst tail. destruct ef.
    + assert (El : BBegin o :: put_ops xs ++ [BEnd; BCommit e g] = (BBegin o :: put_ops xs ++ [BEnd]) ++ [BCommit e g])
        by (cbn [app]; rewrite <- app_assoc; reflexivity).
      rewrite El, bfinal_snoc, commit_pending_nil. reflexivity.
    + assert (El : BBegin o :: put_ops xs ++ [BCommit e g; BEnd] = ((BBegin o :: put_ops xs) ++ [BCommit e g]) ++ [BEnd])
        by (cbn [app]; rewrite <- app_assoc; reflexivity).
      rewrite El, bfinal_snoc. cbn [bstep fst set_bat base]. rewrite bfinal_snoc, commit_pending_nil. reflexivity.
Qed.

(* segments of puts, each followed by commit_skip_indexes *)
Definition skip_body (segs : list (list pdoc)) : list bop := flat_map (fun xs => put_ops xs ++ [BSkip]) segs.

Lemma skip_body_facts segs :
  docs_of_ops (skip_body segs) = map pd_doc (concat segs) /\
  (forall w r, scan w (skip_body segs ++ r) = scan (match segs with [] => w | _ => true end) r) /\
  pending (base (bfinal (skip_body segs))) = [].
Proof.
  induction segs as [|xs segs IH] using rev_ind.
  - repeat split; reflexivity.
  - destruct IH as (I1 & I2 & I3). destruct (put_ops_facts xs) as (P1 & P3).
    unfold skip_body in *. rewrite flat_map_app. cbn [flat_map]. rewrite app_nil_r.
    split; [|split].
    + rewrite concat_app, map_app, !docs_of_ops_app, I1, P3. cbn. rewrite !app_nil_r. reflexivity.
    + intros w r. rewrite <- app_assoc, I2, <- app_assoc, (scan_plain _ _ _ P1). cbn [app scan].
      destruct segs; cbn [app]; reflexivity.
    + rewrite app_assoc, bfinal_snoc, skip_pending_nil. reflexivity.
Qed.

Lemma skip_path_view segs e g : bview (bfinal (skip_path segs e g)) = spec_view (map pd_doc (concat segs)).
Proof.
  destruct (skip_body_facts segs) as (S1 & S2 & S3). unfold skip_path. fold (skip_body segs).
  assert (HDo : docs_of_ops (skip_body segs ++ [BFinalize e g]) = map pd_doc (concat segs)) by (rewrite docs_of_ops_app, S1; cbn; apply app_nil_r).
  rewrite <- HDo. apply bulk_view.
  - rewrite S2. destruct segs; reflexivity.
  - rewrite bfinal_snoc. apply finalize_no_frame. rewrite S3. reflexivity.
Qed.

(* the same inside begin_batch / end_batch (end before or after finalize_indexes) *)
Lemma skip_in_batch_view o segs ef e g :
  bview (bfinal (BBegin o :: skip_body segs ++ (if ef : bool then [BEnd; BFinalize e g] else [BFinalize e g; BEnd])))
  = spec_view (map pd_doc (concat segs)).
Proof.
  destruct (skip_body_facts segs) as (S1 & S2 & S3).
  set (tail := if ef then [BEnd; BFinalize e g] else [BFinalize e g; BEnd]).
  assert (HDo : docs_of_ops (BBegin o :: skip_body segs ++ tail) = map pd_doc (concat segs)).
  { change (BBegin o :: skip_body segs ++ tail) with ([BBegin o] ++ skip_body segs ++ tail). rewrite !docs_of_ops_app, S1. subst tail. destruct ef; cbn; apply app_nil_r. }
  rewrite <- HDo.
  assert (HB : pending (base (bfinal (BBegin o :: skip_body segs))) = []).
  { destruct segs as [|xs segs] using rev_ind; [reflexivity|].
    unfold skip_body. rewrite flat_map_app. cbn [flat_map]. rewrite app_nil_r.
    assert (El : BBegin o :: flat_map (fun xs0 => put_ops xs0 ++ [BSkip]) segs ++ put_ops xs ++ [BSkip]
                 = (BBegin o :: flat_map (fun xs0 => put_ops xs0 ++ [BSkip]) segs ++ put_ops xs) ++ [BSkip])
      by (cbn [app]; rewrite <- !app_assoc; reflexivity).
    rewrite El, bfinal_snoc, skip_pending_nil. reflexivity. }
  apply bulk_view.
  - cbn [scan]. rewrite S2. subst tail. destruct segs; destruct ef; reflexivity.
  - subst tail. destruct ef.
    + assert (El : BBegin o :: skip_body segs ++ [BEnd; BFinalize e g] = ((BBegin o :: skip_body segs) ++ [BEnd]) ++ [BFinalize e g])
        by (cbn [app]; rewrite <- !app_assoc; reflexivity).
      rewrite El, bfinal_snoc. apply finalize_no_frame. rewrite bfinal_snoc. cbn [bstep fst set_bat base]. rewrite HB. reflexivity.
    + assert (El : BBegin o :: skip_body segs ++ [BFinalize e g; BEnd] = ((BBegin o :: skip_body segs) ++ [BFinalize e g]) ++ [BEnd])
        by (cbn [app]; rewrite <- !app_assoc; reflexivity).
      rewrite El, bfinal_snoc. cbn [bstep fst set_bat base]. rewrite bfinal_snoc. apply finalize_no_frame. rewrite HB. reflexivity.
Qed.

(* ... and after close + reopen, whatever was pending at the close *)
Theorem bulk_view_reopened ops e :
  scan false ops = Some false -> bview (bfinal (ops ++ [BReopen e])) = spec_view (docs_of_ops ops).
Proof.
  intros Hs.
  assert (HDo : docs_of_ops (ops ++ [BReopen e]) = docs_of_ops ops) by (rewrite docs_of_ops_app; cbn; apply app_nil_r).
  rewrite <- HDo. apply bulk_view.
  - clear HDo. revert Hs. generalize false at 1 3. induction ops as [|op ops IH]; intros w Hs.
    + cbn in Hs. injection Hs as ->. reflexivity.
    + cbn [app]. rewrite scan_cons in *. destruct (wnext w op); [apply IH; exact Hs|discriminate].
  - rewrite bfinal_snoc, reopen_pending_nil. reflexivity.
Qed.

Theorem three_paths_equal o xs ys segs ef e1 g1 e2 g2 e3 g3 :
  map pd_doc ys = map pd_doc xs -> map pd_doc (concat segs) = map pd_doc xs ->
  bview (bfinal (batch_path o ys ef e2 g2)) = bview (bfinal (plain_path xs e1 g1)) /\
  bview (bfinal (skip_path segs e3 g3)) = bview (bfinal (plain_path xs e1 g1)).
Proof. intros H1 H2. rewrite plain_path_view, batch_path_view, skip_path_view, H1, H2. split; reflexivity. Qed.

Lemma path_scans o xs segs ef e g :
  scan false (plain_path xs e g) = Some false /\ scan false (batch_path o xs ef e g) = Some false /\ scan false (skip_path segs e g) = Some false.
Proof.
  destruct (put_ops_facts xs) as (P1 & _). destruct (skip_body_facts segs) as (_ & S2 & _).
  unfold plain_path, batch_path, skip_path. fold (skip_body segs). cbn [scan].
  rewrite !(scan_plain _ _ _ P1), S2. repeat split; destruct ef; destruct segs; reflexivity.
Qed.

Theorem three_paths_equal_reopened o xs ys segs ef e1 g1 e2 g2 e3 g3 r1 r2 r3 :
  map pd_doc ys = map pd_doc xs -> map pd_doc (concat segs) = map pd_doc xs ->
  bview (bfinal (batch_path o ys ef e2 g2 ++ [BReopen r2])) = bview (bfinal (plain_path xs e1 g1 ++ [BReopen r1])) /\
  bview (bfinal (skip_path segs e3 g3 ++ [BReopen r3])) = bview (bfinal (plain_path xs e1 g1 ++ [BReopen r1])).
Proof.
  intros H1 H2.
  destruct (path_scans o xs segs ef e1 g1) as (Q1 & _ & _). destruct (path_scans o ys segs ef e2 g2) as (_ & Q2 & _).
  destruct (path_scans o xs segs ef e3 g3) as (_ & _ & Q3).
  rewrite !bulk_view_reopened by assumption.
  destruct (put_ops_facts xs) as (_ & P3). destruct (put_ops_facts ys) as (_ & P3'). destruct (skip_body_facts segs) as (S1 & _ & _).
  unfold plain_path, batch_path, skip_path. fold (skip_body segs).
  change (BBegin o :: put_ops ys ++ (if ef then [BEnd; BCommit e2 g2] else [BCommit e2 g2; BEnd])) with ([BBegin o] ++ put_ops ys ++ (if ef then [BEnd; BCommit e2 g2] else [BCommit e2 g2; BEnd])).
  rewrite !docs_of_ops_app, P3, P3', S1, H1, H2. destruct ef; cbn; rewrite ?app_nil_r; split; reflexivity.
Qed.

(* ------------------------------------------------------------------ ensure_wal_capacity, shift, adjust *)
Lemma ensure_wal_capacity_spec w m :
  let w' := ensure_wal_capacity w m in
  w <= w' /\ m <= w' /\ (w' <> w -> w' = next_pow2 m /\ w < m).
Proof.
  unfold ensure_wal_capacity. destruct (m <=? w) eqn:E1; [repeat split; try lia; intros H; contradiction|].
  assert (Hp : m <= next_pow2 m).
  { unfold next_pow2. destruct (N.eq_dec m 0) as [->|Hm]; [lia|]. destruct (N.eq_dec m 1) as [->|Hm1]; [vm_compute; discriminate|].
    apply N.log2_up_spec. lia. }
  destruct (next_pow2 m - w =? 0) eqn:E2; repeat split; try lia; intros H; try contradiction; try lia.
Qed.

Lemma shift_adjust_owner ext ds delta : forall off len,
  0 < off -> Forall (fun x => ds <= fst (fst x)) ext ->
  owner_at (shift_data ds delta ext) (if off =? 0 then 0 else off + delta) len = owner_at ext off len.
Proof.
  intros off len Hoff HF. replace (off =? 0) with false by lia.
  induction ext as [|[[o l] t] ext IH]; cbn [shift_data map owner_at]; [reflexivity|].
  inversion HF as [|? ? H1 H2]; subst. cbn [fst] in H1. replace (ds <=? o) with true by lia.
  fold (shift_data ds delta ext). rewrite (IH H2).
  replace (o + delta =? off + delta) with (o =? off) by lia. reflexivity.
Qed.
