(* Proofs about M-Doctor (C21), part 2: the phases on an opened handle, and the assembly. *)
From MV Require Import Base.Prelude Model.Doctor Proofs.DoctorProofs.
Require Import ZifyBool ZifyNat ZifyN.
Local Open Scope N_scope.

(* ---------- stage 3: the phases on an opened handle ---------- *)
(* On a handle whose header pointer is right (f_ptr = f_toc) every TOC rewrite lands on the TOC. *)
Lemma rewrite_toc_al : forall toc foot H S C footer tocbytes tocdec older wal seq time lex vec nvec rows b,
  rewrite_toc (mkFile toc toc foot H S C footer tocbytes tocdec older wal seq time lex vec nvec rows) b
  = mkFile toc toc foot (C + 1) (C + 1) (C + 1) true true true older wal seq time lex vec nvec rows.
Proof. intros. unfold rewrite_toc. cbn [f_ptr f_toc]. rewrite N.eqb_refl. reflexivity. Qed.

Lemma vacuum_al : forall toc foot H S C footer tocbytes tocdec older wal seq time lex vec nvec rows b,
  vacuum (mkFile toc toc foot H S C footer tocbytes tocdec older wal seq time lex vec nvec rows) b
  = mkFile toc toc foot (C + 1) (C + 1) (C + 1) true true true None wal seq
           (match time with IxBad => IxBad | _ => IxOk end) lex vec nvec rows.
Proof. intros. unfold vacuum. rewrite rewrite_toc_al. reflexivity. Qed.

Lemma rebuild_al : forall toc foot H S C footer tocbytes tocdec older wal seq time lex vec nvec rows t l v b,
  t || l || v = true ->
  rebuild (mkFile toc toc foot H S C footer tocbytes tocdec older wal seq time lex vec nvec rows) t l v b
  = mkFile toc toc foot (C + 1) (C + 1) (C + 1) true true true None WClean 0 IxOk (lex || l)
           (if v then vec_reencoded vec else vec) (if v && vec_bad vec then 0 else nvec) rows.
Proof.
  intros until b. intros Hany. unfold rebuild. rewrite Hany, rewrite_toc_al. unfold reset_wal, zero_log.
  cbn [f_ptr f_toc f_foot f_H f_S f_C f_footer f_tocbytes f_tocdec f_older f_wal f_seq f_time f_lex f_vec f_nvec f_rows].
  rewrite N.eqb_refl. reflexivity.
Qed.

Lemma rebuild_none : forall m b, rebuild m false false false b = m.
Proof. reflexivity. Qed.

(* a TOC rewrite + log reset on an aligned handle whose indexes are fine gives a healthy file *)
Lemma seal_healthy : forall toc foot H1 S1 C1 fo tb td ol w sq tm lx vc nv rows base,
  (tm = IxOk \/ (tm = IxNone /\ rows = [])) -> vc <> IxBad ->
  let m5 := reset_wal (rewrite_toc (mkFile toc toc foot H1 S1 C1 fo tb td ol w sq tm lx vc nv rows) base) in
  healthy m5 /\ f_rows m5 = rows /\ verify m5 = Ok true /\ f_nvec m5 = nv /\ f_seq m5 = 0.
Proof.
  intros until base. intros Htm Hvc. rewrite rewrite_toc_al. unfold reset_wal, zero_log, healthy, time_fine, verify.
  cbn [f_ptr f_toc f_foot f_H f_S f_C f_footer f_tocbytes f_tocdec f_older f_wal f_seq f_time f_lex f_vec f_nvec f_rows andb].
  rewrite N.eqb_refl. cbn [andb].
  assert (Ev : negb (match vc with IxBad => true | _ => false end) = true) by (destruct vc; [reflexivity|reflexivity|congruence]).
  assert (Et : negb (match tm with IxBad => true | _ => false end) = true) by (destruct Htm as [->|[-> _]]; reflexivity).
  rewrite Et. repeat split; try reflexivity; assumption.
Qed.

(* what the open guarantees (try_open_wf) plus what the plan guarantees (compute_wf) *)
Lemma run_phases_healthy : forall pl base m0,
  f_ptr m0 = f_toc m0 -> f_S m0 = f_C m0 -> f_tocdec m0 = true ->
  (match pl_heal_ptr pl with Some t => t <= f_toc m0 | None => True end) ->
  (pl_finalize pl = false -> f_footer m0 = true /\ f_tocbytes m0 = true /\ pl_heal_ck pl = None /\ f_H m0 = f_S m0 /\
                             pl_vacuum pl = false /\ pl_time pl = false /\ pl_lex pl = false /\ pl_vec pl = false) ->
  (pl_time pl = false -> time_fine m0) ->
  (pl_vec pl = false -> f_vec m0 <> IxBad) ->
  let m5 := run_phases pl base m0 in
  healthy m5 /\ f_rows m5 = f_rows m0 /\ verify m5 = Ok true /\
  f_nvec m5 = (if pl_vec pl && vec_bad (f_vec m0) then 0 else f_nvec m0) /\ f_seq m5 = 0.
Proof.
  intros [hp hc rp vac t l v fin fnd wb] base
         [ptr toc foot H S C footer tocbytes tocdec older wal seq time lex vec nvec rows].
  cbn [f_ptr f_toc f_foot f_H f_S f_C f_footer f_tocbytes f_tocdec f_older f_wal f_seq f_time f_lex f_vec f_nvec f_rows
       pl_heal_ptr pl_heal_ck pl_vacuum pl_time pl_lex pl_vec pl_finalize].
  unfold time_fine at 1.
  cbn [f_time f_rows].
  intros -> -> -> Hhp Hfin Ht Hv.
  unfold run_phases, run_phases_gen.
  cbn [pl_heal_ptr pl_heal_ck pl_vacuum pl_time pl_lex pl_vec pl_finalize].
  assert (E1 : heal_ptr (mkFile toc toc foot H C C footer tocbytes true older wal seq time lex vec nvec rows) hp
               = mkFile toc toc foot H C C footer tocbytes true older wal seq time lex vec nvec rows).
  { destruct hp as [t0|]; [|reflexivity]. unfold heal_ptr. cbn [f_ptr]. destruct (N.ltb_spec toc t0) as [Hlt|_]; [exfalso; apply N.lt_nge in Hlt; exact (Hlt Hhp)|reflexivity]. }
  rewrite E1. clear E1 Hhp.
  assert (E2 : exists H', heal_ck (mkFile toc toc foot H C C footer tocbytes true older wal seq time lex vec nvec rows) hc
               = mkFile toc toc foot H' C C footer tocbytes true older wal seq time lex vec nvec rows /\ (hc = None -> H' = H)).
  { destruct hc as [e|]; unfold heal_ck, with_hdr;
    cbn [f_H f_ptr f_toc f_foot f_S f_C f_footer f_tocbytes f_tocdec f_older f_wal f_seq f_time f_lex f_vec f_nvec f_rows].
    - destruct (H =? e); eexists; (split; [reflexivity|discriminate]).
    - eexists; split; reflexivity. }
  destruct E2 as (H' & -> & HH').
  destruct fin.
  - (* Finalize planned: the last rewrite makes header, TOC and footer agree *)
    clear Hfin HH'.
    destruct vac; [rewrite vacuum_al|];
    (destruct (t || l || v) eqn:Eany;
     [ rewrite rebuild_al by exact Eany
     | apply orb_false_elim in Eany as [Eany ->]; apply orb_false_elim in Eany as [-> ->]; rewrite rebuild_none ]).
    + (* vacuum, rebuild *)
      apply seal_healthy; [left; reflexivity | destruct v; [destruct vec; discriminate | exact (Hv eq_refl)]].
    + (* vacuum only *)
      apply seal_healthy; [|exact (Hv eq_refl)].
      destruct (Ht eq_refl) as [->|[-> _]]; left; reflexivity.
    + (* rebuild only *)
      apply seal_healthy; [left; reflexivity | destruct v; [destruct vec; discriminate | exact (Hv eq_refl)]].
    + (* finalize only *)
      apply seal_healthy; [exact (Ht eq_refl) | exact (Hv eq_refl)].
  - (* nothing planned but Verify *)
    destruct (Hfin eq_refl) as (-> & -> & -> & EH & -> & -> & -> & ->).
    specialize (Ht eq_refl). specialize (Hv eq_refl). rewrite (HH' eq_refl). subst H.
    rewrite rebuild_none. unfold reset_wal, zero_log, healthy, time_fine, verify.
    cbn [f_ptr f_toc f_foot f_H f_S f_C f_footer f_tocbytes f_tocdec f_older f_wal f_seq f_time f_lex f_vec f_nvec f_rows andb].
    rewrite N.eqb_refl. cbn [andb].
    assert (Ev : negb (match vec with IxBad => true | _ => false end) = true) by (destruct vec; [reflexivity|reflexivity|congruence]).
    assert (Et : negb (match time with IxBad => true | _ => false end) = true) by (destruct Ht as [->|[-> _]]; reflexivity).
    rewrite Et. repeat split; try reflexivity; assumption.
Qed.

(* ---------- assembly: one non-dry doctor run on a listed file outside the two known classes ---------- *)
Lemma view_not_replayed : forall f, log_ok f -> replayed f = false -> view f = f_rows f.
Proof.
  intros f Hl Hr. unfold view, replayed, log_ok in *. destruct (f_wal f) as [|[|p ps]|ps]; try reflexivity; [discriminate|destruct Hl].
Qed.

Theorem doctor_heals : forall o f,
  o_dry o = false -> wf f -> known_toc_cksum f = false ->
  healthy (fst (doctor o f)) /\
  f_rows (fst (doctor o f)) = view f /\
  r_status (snd (doctor o f)) = (if is_noop (compute o f) then 0 else 1) /\
  r_verified (snd (doctor o f)) = Some true /\
  verify (fst (doctor o f)) = Ok true /\
  f_nvec (fst (doctor o f)) = (if vec_bad (f_vec f) && negb (replayed f) then 0 else f_nvec f) /\
  f_seq (fst (doctor o f)) = 0.
Proof.
  intros o f Hdry Hwf Hk2.
  destruct (try_open_wf f Hwf Hk2) as (m0 & Hopen & Hal & HSC & Hdec & _ & _ & Hrows & Htoc & Hvec & _ & Hnv & Hrep).
  destruct (compute_wf o f Hwf) as (Php & Phc & Pvac & Ptime & Plex & Pvec & Pwb & Pfin).
  assert (Hnoop := is_noop_wf o f Hwf).
  assert (Hlog : log_ok f) by (destruct Hwf as (_ & _ & ? & _); assumption).
  unfold doctor, doctor_gen. rewrite Hdry. unfold open_for_doctor. rewrite Pwb, Hopen.
  change (run_phases_gen heal_ptr) with run_phases.
  assert (Hrun := run_phases_healthy (compute o f) (length (f_rows f)) m0 Hal HSC Hdec).
  assert (A1 : match pl_heal_ptr (compute o f) with Some t => t <= f_toc m0 | None => True end).
  { rewrite Php. destruct (f_ptr f =? f_toc f); [exact I|].
    rewrite Htoc. destruct (moved f); [apply N.le_add_r|apply N.le_refl]. }
  assert (A2 : pl_finalize (compute o f) = false ->
               f_footer m0 = true /\ f_tocbytes m0 = true /\ pl_heal_ck (compute o f) = None /\ f_H m0 = f_S m0 /\
               pl_vacuum (compute o f) = false /\ pl_time (compute o f) = false /\ pl_lex (compute o f) = false /\ pl_vec (compute o f) = false).
  { intros Hf. assert (Hn : is_noop (compute o f) = true) by (unfold is_noop; rewrite Hf; reflexivity).
    apply Hnoop in Hn. destruct Hn as (Hrt & HHS & Hnr & Hnt & Hnv' & Hfo).
    rewrite Hnr in Hrep. destruct Hrep as (_ & Hfoot & Htb & HS0 & HH0).
    rewrite Hrt in HH0.
    unfold read_toc in Hrt. apply andb_prop in Hrt as [Hrt _]. apply andb_prop in Hrt as [Hrt Htb']. apply andb_prop in Hrt as [_ Hfo'].
    unfold forces in Hfo. apply orb_false_elim in Hfo as [Hfo Hvac]. apply orb_false_elim in Hfo as [Hfo Hov]. apply orb_false_elim in Hfo as [Hot Hol].
    rewrite Phc, Pvac, Ptime, Plex, Pvec, Hnt, Hnv', Hvac, Hot, Hol, Hov, HHS, N.eqb_refl.
    repeat split; try reflexivity; congruence. }
  assert (A3 : pl_time (compute o f) = false -> time_fine m0).
  { rewrite Ptime. intros E. apply orb_false_elim in E as [E _]. unfold time_fine.
    destruct (replayed f) eqn:Er.
    - left. exact (proj1 Hrep).
    - destruct Hrep as (Ht0 & _). rewrite Ht0, Hrows, (view_not_replayed f Hlog Er).
      unfold needs_time_of, needs_time in E. destruct (f_time f); [right; split; [reflexivity|destruct (f_rows f); [reflexivity|discriminate]] | left; reflexivity | discriminate]. }
  assert (A4 : pl_vec (compute o f) = false -> f_vec m0 <> IxBad).
  { rewrite Pvec, Hvec. intros E. apply orb_false_elim in E as [E _]. unfold vec_bad in E. destruct (replayed f), (f_vec f); cbn; congruence. }
  specialize (Hrun A1 A2 A3 A4). cbv zeta in Hrun.
  destruct Hrun as (Hh & Hr & Hv & Hn & Hs).
  rewrite Hv. cbn [fst snd r_status r_verified].
  rewrite Pvec, Hvec, Hnv in Hn.
  assert (Hn' : f_nvec (run_phases (compute o f) (length (f_rows f)) m0) = (if vec_bad (f_vec f) && negb (replayed f) then 0 else f_nvec f))
    by (destruct (replayed f), (f_vec f), (o_vec o); cbn in Hn |- *; exact Hn).
  clear Hn. rename Hn' into Hn. rewrite Hr, Hrows.
  split; [exact Hh|]. repeat split; try reflexivity; assumption.
Qed.

(* a healthy file is in the list and in neither known class *)
Lemma healthy_facts : forall m, healthy m -> f_older m = None ->
  wf m /\ known_toc_cksum m = false /\ view m = f_rows m /\
  read_toc m = true /\ replayed m = false /\ needs_time_of m = false /\ vec_bad (f_vec m) = false.
Proof.
  intros m (Hp & HH & HS & Hf & Htb & Hd & Hw & Ht & Hv) Ho.
  unfold wf, log_ok, known_toc_cksum, view, read_toc, replayed, needs_time_of, needs_time, vec_bad.
  rewrite Hw, Hp, HS, Hf, Htb, Hd, !N.eqb_refl. cbn.
  repeat split; try assumption; try reflexivity; try (left; split; reflexivity).
  - destruct Ht as [->|[-> ->]]; reflexivity.
  - destruct (f_vec m); congruence.
Qed.

(* second run: Clean exactly when the options force nothing; never Failed; rows untouched *)
Theorem doctor_second_run : forall o m,
  o_dry o = false -> healthy m -> f_older m = None ->
  healthy (fst (doctor o m)) /\ f_rows (fst (doctor o m)) = f_rows m /\
  r_status (snd (doctor o m)) = (if forces o then 1 else 0).
Proof.
  intros o m Hdry Hh Ho.
  destruct (healthy_facts m Hh Ho) as (Hwf & Hk2 & Hview & Hrt & Hrep & Hnt & Hvb).
  destruct (doctor_heals o m Hdry Hwf Hk2) as (H1 & H2 & H3 & _).
  split; [exact H1|]. split; [congruence|]. rewrite H3.
  assert (Hn := is_noop_wf o m Hwf).
  destruct (forces o) eqn:Ef.
  - destruct (is_noop (compute o m)) eqn:En; [|reflexivity]. destruct Hn as [Hn _]. destruct (Hn eq_refl) as (_ & _ & _ & _ & _ & E). discriminate E.
  - destruct Hh as (_ & HH & _). destruct Hn as [_ Hn]. rewrite Hn; [reflexivity|]. repeat split; assumption.
Qed.

(* dry run: nothing is written, the status says whether there would be work *)
Theorem doctor_dry_run : forall o f, o_dry o = true ->
  fst (doctor o f) = f /\ r_status (snd (doctor o f)) = (if is_noop (compute o f) then 0 else 4) /\
  r_verified (snd (doctor o f)) = None.
Proof. intros o f Hd. unfold doctor, doctor_gen. rewrite Hd. repeat split. Qed.

(* ---------- boundaries ---------- *)
(* an unreadable log is zeroed: the acknowledged records it held are gone, whatever the report says *)
Theorem doctor_corrupt_log_drops_pending : forall o f ps,
  o_dry o = false -> f_wal f = WCorrupt ps -> healthy (zero_log f) -> f_older f = None ->
  f_rows (fst (doctor o f)) = f_rows f /\ r_status (snd (doctor o f)) <> 3.
Proof.
  intros o [ptr toc foot H S C footer tocbytes tocdec older wal seq time lex vec nvec rows] ps Hdry Hw Hh Ho.
  cbn in Hw, Ho. subst wal older.
  destruct Hh as (Hp & HH & HS & Hf & Htb & Hd & _ & Ht & Hv).
  cbn in Hp, HH, HS, Hf, Htb, Hd, Ht, Hv. subst ptr H S footer tocbytes tocdec.
  unfold doctor, doctor_gen. rewrite Hdry.
  change (run_phases_gen heal_ptr) with run_phases.
  unfold compute, probe, find_toc, read_toc, open_for_doctor, try_open, read_toc, zero_log.
  cbn [f_ptr f_toc f_foot f_H f_S f_C f_footer f_tocbytes f_tocdec f_older f_wal f_seq f_time f_lex f_vec f_nvec f_rows
       wal_bad wal_pending andb].
  rewrite !N.eqb_refl. cbn [andb negb orb p_found p_off p_S p_recovered p_findings p_pending p_walbad p_needs_time p_needs_lex p_needs_vec
       pl_heal_ptr pl_heal_ck pl_vacuum pl_time pl_lex pl_vec pl_walbad pl_finalize f_wal f_S f_C].
  rewrite !N.eqb_refl. cbn [andb negb orb pl_walbad f_wal].
  set (m0 := mkFile toc toc foot C C C true true true None WClean 0 time lex vec nvec rows).
  set (pl := mkPlan _ _ _ _ _ _ _ _ _ _).
  assert (Hrun := run_phases_healthy pl (length rows) m0 eq_refl eq_refl eq_refl).
  assert (A1 : match pl_heal_ptr pl with Some t => t <= f_toc m0 | None => True end) by exact I.
  assert (A2 : pl_finalize pl = false ->
               f_footer m0 = true /\ f_tocbytes m0 = true /\ pl_heal_ck pl = None /\ f_H m0 = f_S m0 /\
               pl_vacuum pl = false /\ pl_time pl = false /\ pl_lex pl = false /\ pl_vec pl = false).
  { unfold pl. cbn [pl_finalize pl_heal_ck pl_vacuum pl_time pl_lex pl_vec orb]. rewrite and_or_absorb.
    intros E. destruct (o_vac o), (needs_time rows time || o_time o) eqn:E1, (o_lex o), (needs_vec o vec || o_vec o) eqn:E2; cbn in E; try discriminate.
    repeat split; reflexivity. }
  assert (A3 : pl_time pl = false -> time_fine m0).
  { unfold pl. cbn [pl_time]. intros E. apply orb_false_elim in E as [E _]. exact Ht. }
  assert (A4 : pl_vec pl = false -> f_vec m0 <> IxBad) by (intros _; exact Hv).
  specialize (Hrun A1 A2 A3 A4). cbv zeta in Hrun. destruct Hrun as (_ & Hr & Hvf & _).
  rewrite Hvf. cbn [fst snd r_status]. split; [exact Hr|]. destruct (is_noop pl); discriminate.
Qed.

(* ---------- every damage of the property's list, applied to a sound file ---------- *)
(* a file as commit leaves it (indexes in any state), closed normally or crash-interrupted with pending records *)
Definition sound (f : afile) : Prop :=
  f_ptr f = f_toc f /\ f_H f = f_S f /\ f_S f = f_C f /\ f_footer f = true /\ f_tocbytes f = true /\
  f_tocdec f = true /\ f_older f = None /\ log_ok f.

Inductive damage :=
| DNone
| DPtr (p : N)        (* header.footer_offset overwritten: +-k, zero, beyond EOF, the footer's position *)
| DHdrCk (h : N)      (* header.toc_checksum flipped *)
| DTocCk (s : N)      (* the checksum stored inside the TOC flipped (the footer hash then no longer matches) *)
| DFooter             (* footer magic / toc_len / toc_hash flipped *)
| DFooterGen          (* footer generation flipped: not covered by any check *)
| DTime | DVec        (* time index / vector index zeroed *)
| DLexSeg.            (* a Tantivy segment zeroed: not looked at by probe, open or verify *)

Definition damage_file (d : damage) (f : afile) : afile :=
  match d with
  | DNone | DFooterGen | DLexSeg => f
  | DPtr p => with_hdr f p (f_H f)
  | DHdrCk h => with_hdr f (f_ptr f) h
  | DTocCk s => mkFile (f_ptr f) (f_toc f) (f_foot f) (f_H f) s (f_C f) (f_footer f) false (f_tocdec f) (f_older f)
                       (f_wal f) (f_seq f) (f_time f) (f_lex f) (f_vec f) (f_nvec f) (f_rows f)
  | DFooter => mkFile (f_ptr f) (f_toc f) (f_foot f) (f_H f) (f_S f) (f_C f) false (f_tocbytes f) (f_tocdec f) (f_older f)
                      (f_wal f) (f_seq f) (f_time f) (f_lex f) (f_vec f) (f_nvec f) (f_rows f)
  | DTime => mkFile (f_ptr f) (f_toc f) (f_foot f) (f_H f) (f_S f) (f_C f) (f_footer f) (f_tocbytes f) (f_tocdec f) (f_older f)
                    (f_wal f) (f_seq f) IxBad (f_lex f) (f_vec f) (f_nvec f) (f_rows f)
  | DVec => mkFile (f_ptr f) (f_toc f) (f_foot f) (f_H f) (f_S f) (f_C f) (f_footer f) (f_tocbytes f) (f_tocdec f) (f_older f)
                   (f_wal f) (f_seq f) (f_time f) (f_lex f) IxBad (f_nvec f) (f_rows f)
  end.

Lemma damage_wf : forall d f, sound f -> wf (damage_file d f) /\ view (damage_file d f) = view f.
Proof.
  intros d [ptr toc foot H S C footer tocbytes tocdec older wal seq time lex vec nvec rows]
         (Hp & HH & HS & Hf & Htb & Hd & Ho & Hl).
  cbn in Hp, HH, HS, Hf, Htb, Hd, Ho, Hl. subst.
  destruct d; unfold wf, damage_file, with_hdr, view, log_ok; cbn;
  (split; [repeat split; try reflexivity; try exact Hl; try (left; split; reflexivity); try (right; reflexivity) | reflexivity]).
Qed.

Lemma older_run_phases : forall pl b m, f_older m = None -> f_older (run_phases pl b m) = None.
Proof.
  intros pl b m H0.
  assert (R : forall x c, f_older x = None -> f_older (rewrite_toc x c) = None).
  { intros x c Hx. unfold rewrite_toc. destruct (f_ptr x =? f_toc x); cbn [f_older]; [exact Hx|reflexivity]. }
  assert (Hp : f_older (heal_ptr m (pl_heal_ptr pl)) = None).
  { unfold heal_ptr. destruct (pl_heal_ptr pl) as [t|]; [|exact H0]. destruct (f_ptr m <? t); [|exact H0]. unfold with_hdr. cbn [f_older]. exact H0. }
  assert (Hc : f_older (heal_ck (heal_ptr m (pl_heal_ptr pl)) (pl_heal_ck pl)) = None).
  { unfold heal_ck. destruct (pl_heal_ck pl) as [e|]; [|exact Hp]. destruct (f_H _ =? e); [exact Hp|]. unfold with_hdr. cbn [f_older]. exact Hp. }
  unfold run_phases, run_phases_gen, reset_wal, zero_log. cbn [f_older].
  set (m1 := heal_ck _ _) in *.
  assert (Hv : f_older (if pl_vacuum pl then vacuum m1 b else m1) = None) by (destruct (pl_vacuum pl); [reflexivity|exact Hc]).
  set (m2 := if pl_vacuum pl then _ else _) in *.
  assert (Hr : f_older (rebuild m2 (pl_time pl) (pl_lex pl) (pl_vec pl) b) = None).
  { unfold rebuild. destruct (pl_time pl || pl_lex pl || pl_vec pl); [reflexivity|exact Hv]. }
  destruct (pl_finalize pl); [apply R; exact Hr | exact Hr].
Qed.

Theorem doctor_heals_every_listed_damage : forall d o f,
  sound f -> o_dry o = false -> known_class o (damage_file d f) = false ->
  let r := doctor o (damage_file d f) in
  healthy (fst r) /\ f_rows (fst r) = view f /\ preserves (view f) (f_rows (fst r)) = true /\
  (r_status (snd r) = 0 \/ r_status (snd r) = 1) /\ r_verified (snd r) = Some true /\
  verify (fst r) = Ok true /\ opens (fst r) = true /\
  r_status (snd (doctor default_opts (fst r))) = 0 /\ f_rows (fst (doctor default_opts (fst r))) = view f.
Proof.
  intros d o f Hs Hdry Hk. cbv zeta.
  destruct (damage_wf d f Hs) as (Hwf & Hview).
  unfold known_class in Hk. rewrite Hdry in Hk. cbn [negb andb] in Hk. rename Hk into Hk2.
  destruct (doctor_heals o (damage_file d f) Hdry Hwf Hk2) as (Hh & Hr & Hst & Hvf & Hv & _ & _).
  rewrite Hview in Hr.
  assert (Hold : f_older (fst (doctor o (damage_file d f))) = None).
  { (* the older-commit field is only ever cleared or kept, and it starts as None *)
    clear - Hs Hdry Hwf Hk2.
    destruct (try_open_wf _ Hwf Hk2) as (m0 & Hopen & _ & _ & _ & Hold0 & _).
    destruct (compute_wf o _ Hwf) as (_ & _ & _ & _ & _ & _ & Pwb & _).
    unfold doctor, doctor_gen. rewrite Hdry. unfold open_for_doctor. rewrite Pwb, Hopen.
    change (run_phases_gen heal_ptr) with run_phases.
    set (pl := compute o (damage_file d f)). set (b := length _).
    assert (E : f_older (run_phases pl b m0) = None) by (apply older_run_phases; exact Hold0).
    destruct (verify (run_phases pl b m0)) as [[|]| |]; cbn [fst]; exact E. }
  destruct (healthy_facts _ Hh Hold) as (Hwf2 & Hk22 & Hview2 & _).
  destruct (doctor_second_run default_opts _ eq_refl Hh Hold) as (_ & Hr2 & Hs2).
  split; [exact Hh|]. split; [exact Hr|].
  split; [rewrite Hr; apply preserves_refl|].
  split; [rewrite Hst; destruct (is_noop _); [left|right]; reflexivity|].
  split; [exact Hvf|]. split; [exact Hv|].
  split; [unfold opens; destruct (try_open_wf _ Hwf2 Hk22) as (m & -> & _); reflexivity|].
  split; [exact Hs2|]. rewrite Hr2. exact Hr.
Qed.

Theorem doctor_heals_outside_known : forall o f,
  wf f -> o_dry o = false -> known_class o f = false ->
  healthy (fst (doctor o f)) /\
  f_rows (fst (doctor o f)) = view f /\
  preserves (view f) (f_rows (fst (doctor o f))) = true /\
  r_status (snd (doctor o f)) = (if is_noop (compute o f) then 0 else 1) /\
  r_verified (snd (doctor o f)) = Some true /\
  verify (fst (doctor o f)) = Ok true /\
  f_nvec (fst (doctor o f)) = (if vec_bad (f_vec f) && negb (replayed f) then 0 else f_nvec f).
Proof.
  intros o f Hwf Hdry Hk. unfold known_class in Hk. rewrite Hdry in Hk. cbn [negb andb] in Hk.
  rename Hk into Hk2.
  destruct (doctor_heals o f Hdry Hwf Hk2) as (H1 & H2 & H3 & H4 & H5 & H6 & _).
  split; [exact H1|]. split; [exact H2|]. split; [rewrite H2; apply preserves_refl|].
  split; [exact H3|]. split; [exact H4|]. split; [exact H5|exact H6].
Qed.

(* ---------- HealHeaderPointer after fix f76b325 ---------- *)
(* On every listed file the planned target is the TOC offset the probe saw; the handle's pointer after the
   open is that offset or one further (when the replay inserted a frame): the target never lies ahead of
   the handle's pointer, so the action's remaining `<` branch does not execute and the header pointer the
   open established is the one that stays. *)
Theorem heal_ptr_target_never_ahead : forall o f m0 extra t,
  wf f -> known_toc_cksum f = false ->
  open_for_doctor (compute o f) f = inl (m0, extra) -> pl_heal_ptr (compute o f) = Some t ->
  t <= f_ptr m0 /\ heal_ptr m0 (Some t) = m0.
Proof.
  intros o f m0 extra t Hwf Hk Hopen Hp.
  destruct (try_open_wf f Hwf Hk) as (m & Hto & Hal & _ & _ & _ & _ & _ & Htoc & _).
  destruct (compute_wf o f Hwf) as (Php & _ & _ & _ & _ & _ & Pwb & _).
  unfold open_for_doctor in Hopen. rewrite Pwb, Hto in Hopen. inversion Hopen; subst m0 extra.
  rewrite Php in Hp. destruct (f_ptr f =? f_toc f); [discriminate|]. inversion Hp; subst t.
  assert (Hle : f_toc f <= f_ptr m) by (rewrite Hal, Htoc; destruct (moved f); [apply N.le_add_r|apply N.le_refl]).
  split; [exact Hle|]. unfold heal_ptr. destruct (N.ltb_spec (f_ptr m) (f_toc f)) as [Hlt|_]; [exfalso; apply N.lt_nge in Hlt; exact (Hlt Hle)|reflexivity].
Qed.
