(* C24: proofs about the capacity state machine of Model/Capacity.v. *)
From MV Require Import Base.Prelude Model.Capacity.
Require MV.Gen.Consts.
From Coq Require Import ZifyBool ZifyNat ZifyN.
Local Open Scope N_scope.

(* ---------------------------------------------------------------- arithmetic of the pieces *)

Lemma sum_cons : forall x l, sum (x :: l) = x + sum l.
Proof. reflexivity. Qed.
Lemma sum_nil : sum [] = 0.
Proof. reflexivity. Qed.

Lemma sum_app : forall a b, sum (a ++ b) = sum a + sum b.
Proof.
  induction a as [|x a IH]; intros b.
  - change ([] ++ b) with b. rewrite sum_nil. lia.
  - change ((x :: a) ++ b) with (x :: (a ++ b)). rewrite !sum_cons, IH. lia.
Qed.

(* apply_records places the records one after the other from the cursor; the cached end is the
   old one or the end of the last record *)
Lemma apply_pend_spec : forall l cur cp,
  apply_pend cur cp l = (cur + sum l, match l with [] => cp | _ => N.max cp (cur + sum l) end).
Proof.
  induction l as [|x r IH]; intros cur cp; cbn [apply_pend].
  - rewrite sum_nil. f_equal. lia.
  - rewrite IH. rewrite sum_cons. destruct r as [|y r'].
    + rewrite sum_nil. f_equal; lia.
    + f_equal; [lia|]. remember (sum (y :: r')) as sr. lia.
Qed.

Lemma commit_cpe : forall s, pend s <> [] ->
  cpe (commit s) = N.max (cpe s) (dend s + sum (pend s)).
Proof.
  intros s Hne. unfold commit. destruct (pend s) as [|x r] eqn:E; [congruence|].
  cbn [cpe]. rewrite apply_pend_spec. reflexivity.
Qed.

Lemma commit_nil : forall s, pend s = [] -> commit s = s.
Proof. intros s E. unfold commit. rewrite E. reflexivity. Qed.

Lemma commit_fields : forall s,
  wal (commit s) = wal s /\ tcap (commit s) = tcap s /\ tseq (commit s) = tseq s /\
  iss (commit s) = iss s /\ vec (commit s) = vec s /\ pend (commit s) = [] /\
  dend (commit s) = (match pend s with [] => dend s | _ => cpe (commit s) end).
Proof.
  intros s. unfold commit. destruct (pend s) as [|x r] eqn:E; cbn; rewrite ?E; repeat split; reflexivity.
Qed.

Lemma tier_cap_mono : forall a b, a <= b -> tier_cap a <= tier_cap b.
Proof.
  intros a b H. unfold tier_cap, WAL_SIZE_LARGE, WAL_SIZE_MEDIUM, TIER_ENTERPRISE_CAP, TIER_DEV_CAP, TIER_FREE_CAP.
  destruct (16777216 <=? a) eqn:A1; destruct (16777216 <=? b) eqn:B1;
  destruct (4194304 <=? a) eqn:A2; destruct (4194304 <=? b) eqn:B2; lia.
Qed.

Lemma limit_eq : forall s, limit s = if tcap s =? 0 then tier_cap (wal s) else tcap s.
Proof. reflexivity. Qed.

(* the limit depends on the log size only through the tier, monotonically *)
Lemma limit_mono : forall s s', tcap s' = tcap s -> wal s <= wal s' -> limit s <= limit s'.
Proof.
  intros s s' Ht Hw. rewrite !limit_eq, Ht. destruct (tcap s =? 0); [apply tier_cap_mono; exact Hw|lia].
Qed.

Lemma pow2_log2_up_ge : forall m, 0 < m -> m <= 2 ^ N.log2_up m.
Proof. intros m Hm. apply N.log2_up_spec in Hm || idtac. destruct (N.eq_dec m 1) as [->|Hn]; [cbn; lia|]. assert (1 < m) by lia. pose proof (N.log2_up_spec m H). lia. Qed.

(* ---------------------------------------------------------------- the invariant *)

(* preserved by every step of either machine, provided tickets fit and (for the machine of the
   check before the fix) the accepted put is not an under-counted one *)
Definition put_counted (fixed : bool) (s : cstate) (o : cop) : Prop :=
  fixed = true \/ undercounted s o = false.

Lemma frames_end_le : forall l cur fe, frames_end cur fe l <= N.max fe (cur + sum l).
Proof.
  induction l as [|x r IH]; intros cur fe; cbn [frames_end].
  - rewrite sum_nil. lia.
  - rewrite sum_cons. specialize (IH (cur + x) (if x =? 0 then fe else N.max fe (cur + x))).
    destruct (x =? 0); lia.
Qed.

Lemma commit_fend : forall s, pend s <> [] -> fend (commit s) <= N.max (fend s) (dend s + sum (pend s)).
Proof.
  intros s Hne. unfold commit. destruct (pend s) as [|x r] eqn:E; [congruence|].
  cbn [fend]. apply frames_end_le.
Qed.

Lemma commit_dend : forall s, pend s <> [] -> dend (commit s) = cpe (commit s).
Proof. intros s Hne. unfold commit. destruct (pend s) as [|x r] eqn:E; [congruence|]. reflexivity. Qed.

Lemma pend_cases : forall s, pend s = [] \/ pend s <> [].
Proof. intros s. destruct (pend s); [left; reflexivity|right; discriminate]. Qed.

Lemma move_le : forall d fe, move d fe <= fe + d.
Proof. intros d fe. unfold move. destruct (fe =? 0); lia. Qed.

Lemma inv_commit : forall s, inv s -> inv (commit s).
Proof.
  intros s [Hw [H3 [H0 [H1 H2]]]].
  destruct (pend_cases s) as [E|Hne].
  - rewrite commit_nil by exact E. split; [exact Hw|split; [exact H3|split; [exact H0|split; [exact H1|exact H2]]]].
  - pose proof (commit_fields s) as (Fw & Ft & _ & _ & _ & Fp & _).
    pose proof (commit_cpe s Hne) as Hc. pose proof (commit_fend s Hne) as Hf. pose proof (commit_dend s Hne) as Hd.
    specialize (H2 Hne).
    assert (Hl : limit (commit s) = limit s) by (rewrite !limit_eq, Fw, Ft; reflexivity).
    assert (Hb : base (commit s) = base s) by (unfold base; rewrite Fw; reflexivity).
    unfold top in *.
    split; [rewrite Fw; exact Hw|]. split; [rewrite Hd, Hc; lia|]. split; [rewrite Hl; exact H0|]. split.
    + unfold top. rewrite Hl, Hb, Hc. lia.
    + rewrite Fp. intros C; congruence.
Qed.

Lemma inv_shift : forall d s, inv s -> inv (shift d s).
Proof.
  intros d s [Hw [H3 [H0 [H1 H2]]]].
  assert (Hl : limit s <= limit (shift d s)) by (apply limit_mono; cbn [tcap wal shift]; lia).
  pose proof (move_le d (fend s)) as Hm.
  unfold top in *.
  split; [cbn [wal shift]; lia|]. split; [cbn [fend dend shift]; lia|]. split; [lia|]. split.
  - unfold top, base in *. cbn [cpe fend wal shift]. lia.
  - cbn [pend shift]. intros Hne. specialize (H2 Hne). unfold top, base in *. cbn [cpe dend fend wal shift pend]. lia.
Qed.

Lemma inv_set_vec : forall s, inv s -> inv (set_vec s).
Proof. intros s H. exact H. Qed.

Lemma inv_presize : forall m s, inv s -> inv (presize s m).
Proof.
  intros m s [Hw [H3 [H0 [H1 H2]]]]. unfold presize.
  destruct (m <=? wal s) eqn:E; [split; [exact Hw|split; [exact H3|split; [exact H0|split; assumption]]]|].
  assert (Hm : wal s < m) by lia.
  assert (Hp : m <= 2 ^ N.log2_up m) by (apply pow2_log2_up_ge; lia).
  set (t := 2 ^ N.log2_up m) in *. clearbody t.
  set (s' := mkC (cpe s + (t - wal s)) (dend s + (t - wal s)) t (tcap s) (tseq s) (iss s) (vec s) (pend s) (stored s) (move (t - wal s) (fend s))).
  assert (Hl : limit s <= limit s') by (apply limit_mono; [reflexivity|unfold s'; cbn [wal]; lia]).
  pose proof (move_le (t - wal s) (fend s)) as Hmv.
  unfold s' in *. clear s'. unfold top in *.
  split; [cbn [wal]; unfold WAL_SIZE_TINY in *; lia|]. split; [cbn [fend dend]; lia|]. split; [lia|]. split.
  - unfold top, base in *. cbn [cpe fend wal]. lia.
  - cbn [pend]. intros Hne. specialize (H2 Hne). unfold top, base in *. cbn [cpe dend fend wal pend]. lia.
Qed.

(* an accepted put whose full projection is within the limit keeps the invariant *)
Lemma inv_add_pend : forall s st, inv s ->
  full_projection s st <= limit s -> inv (add_pend s st).
Proof.
  intros s st [Hw [H3 [H0 [H1 H2]]]] Hf. unfold full_projection in Hf.
  split; [exact Hw|]. split; [exact H3|]. split; [exact H0|]. split; [exact H1|].
  cbn [pend add_pend]. intros _. rewrite sum_app.
  assert (limit (add_pend s st) = limit s) by reflexivity.
  assert (base (add_pend s st) = base s) by reflexivity.
  assert (top (add_pend s st) = top s) by reflexivity.
  assert (dend (add_pend s st) = dend s) by reflexivity.
  unfold top, base, BASE0, WAL_OFFSET in *. unfold WAL_SIZE_TINY in *. lia.
Qed.

Lemma inv_put : forall fixed s emb chk st grow auto,
  inv s -> put_counted fixed s (OPut emb chk st grow auto) ->
  inv (fst (put fixed s emb chk st grow auto)).
Proof.
  intros fixed s emb chk st grow auto Hi Hc. unfold put.
  destruct (mutation_allowed s) eqn:Ha; cbn [negb]; [|exact Hi].
  set (s1 := if emb then set_vec s else s).
  assert (Hi1 : inv s1) by (unfold s1; destruct emb; [apply inv_set_vec|]; exact Hi).
  destruct (limit s <? tail fixed s + chk) eqn:E1; [exact Hi1|].
  destruct (fixed && (limit s <? tail fixed s + sum st)) eqn:E2; [exact Hi1|].
  assert (Hf : full_projection s1 st <= limit s1).
  { assert (full_projection s1 st = full_projection s st) as -> by (unfold s1; destruct emb; reflexivity).
    assert (limit s1 = limit s) as -> by (unfold s1; destruct emb; reflexivity).
    destruct Hc as [->|Hu].
    - cbn [andb] in E2. unfold tail in E2. unfold full_projection. lia.
    - destruct fixed.
      + cbn [andb] in E2. unfold tail in E2. unfold full_projection. lia.
      + cbn [undercounted] in Hu. rewrite Ha in Hu. unfold tail in E1. rewrite E1 in Hu. cbn [negb andb] in Hu. lia. }
  cbn [fst]. destruct auto; [apply inv_commit|]; apply inv_shift, inv_add_pend; assumption.
Qed.

Lemma inv_ticket : forall s sq cap i, inv s -> ticket_ok s (OTicket sq cap i) -> inv (fst (ticket s sq cap i)).
Proof.
  intros s sq cap i [Hw [H3 Hf]] Hok. cbn [ticket_ok] in Hok. unfold ticket in *.
  destruct (sq <=? tseq s) eqn:E; cbn [fst] in *; [split; [exact Hw|split; assumption]|].
  split; [exact Hw|]. split; [exact H3|]. apply Hok. lia.
Qed.

Lemma inv_reopen : forall s d, inv s -> ticket_ok s (OReopen d) -> inv (reopen s d).
Proof.
  intros s d Hi Hok. cbn [ticket_ok] in Hok. unfold reopen.
  pose proof (inv_commit s Hi) as [Hw [H3 [H0 [H1 H2]]]].
  pose proof (commit_fields s) as (_ & _ & _ & _ & _ & Fp & _).
  set (c := commit s) in *. clearbody c.
  set (s' := mkC (N.max (base c) (fend c)) d (wal c) (tcap c) (tseq c) (iss c) (vec c) (pend c) (stored c) (fend c)).
  assert (Hl : limit s' = limit c) by reflexivity.
  assert (Hb : base s' = base c) by reflexivity.
  unfold top in *.
  split; [exact Hw|]. split; [unfold s'; cbn [fend dend]; lia|]. split; [rewrite Hl; exact H0|]. split.
  - rewrite Hl, Hb. unfold top, s'; cbn [cpe fend]. lia.
  - unfold s'; cbn [pend]. rewrite Fp. intros C; congruence.
Qed.

Lemma inv_step : forall fixed s o, inv s -> ticket_ok s o -> put_counted fixed s o -> inv (fst (step fixed s o)).
Proof.
  intros fixed s o Hi Ht Hc. destruct o as [emb chk st grow auto|grow|sq cap i|d|m]; cbn [step fst].
  - apply inv_put; assumption.
  - apply inv_shift, inv_commit; exact Hi.
  - apply inv_ticket; assumption.
  - apply inv_reopen; assumption.
  - apply inv_presize; exact Hi.
Qed.

Lemma inv_init : inv init.
Proof.
  split; [cbv; discriminate|]. split; [cbv; discriminate|]. split; [cbv; discriminate|]. split; [cbv; discriminate|].
  intros C. exfalso. apply C. reflexivity.
Qed.

(* ---- the code as it is (fixed check): every history ---- *)
Lemma inv_run_fixed : forall ops s, inv s -> tickets_ok true s ops -> inv (run true s ops).
Proof.
  induction ops as [|o r IH]; intros s Hi Ht; cbn [run]; [exact Hi|].
  cbn [tickets_ok] in Ht. destruct Ht as [Ht1 Ht2].
  apply IH; [apply inv_step; [exact Hi|exact Ht1|left; reflexivity]|exact Ht2].
Qed.

(* ---- the check before the fix: every history outside the (then) known class ---- *)
Lemma inv_run_old : forall ops s, inv s -> known_class s ops = false -> tickets_ok false s ops -> inv (run false s ops).
Proof.
  induction ops as [|o r IH]; intros s Hi Hk Ht; cbn [run]; [exact Hi|].
  cbn [known_class] in Hk. apply Bool.orb_false_iff in Hk. destruct Hk as [Hk1 Hk2].
  cbn [tickets_ok] in Ht. destruct Ht as [Ht1 Ht2].
  apply IH; [apply inv_step; [exact Hi|exact Ht1|right; exact Hk1]|exact Hk2|exact Ht2].
Qed.

(* what the invariant says about the payload end: the cached one and the real one *)
Lemma inv_region_size : forall s, inv s -> top s + BASE0 <= limit s + base s.
Proof. intros s [_ [_ [_ [H _]]]]. exact H. Qed.

Lemma inv_absolute : forall s, inv s -> wal s = WAL_SIZE_TINY -> top s <= limit s.
Proof. intros s [_ [_ [_ [H _]]]] Hw. unfold base, BASE0 in H. rewrite Hw in H. lia. Qed.

Lemma inv_region_bytes : forall s, inv s -> top s - base s <= limit s.
Proof. intros s [Hw [_ [_ [H _]]]]. unfold base, BASE0, WAL_OFFSET in *. unfold WAL_SIZE_TINY in *. lia. Qed.

(* main statements *)
Theorem fixed_capacity_invariant : forall ops,
  tickets_ok true init ops ->
  let s := run_fixed init ops in
  top s + BASE0 <= limit s + base s /\ (wal s = WAL_SIZE_TINY -> top s <= limit s) /\ top s - base s <= limit s.
Proof.
  intros ops Ht s. assert (Hi : inv s) by (apply inv_run_fixed; [apply inv_init|exact Ht]).
  split; [apply inv_region_size; exact Hi|]. split; [apply inv_absolute; exact Hi|apply inv_region_bytes; exact Hi].
Qed.

Theorem old_capacity_invariant_outside_known : forall ops,
  known_class init ops = false -> tickets_ok false init ops ->
  let s := run_old init ops in
  top s + BASE0 <= limit s + base s /\ (wal s = WAL_SIZE_TINY -> top s <= limit s) /\ top s - base s <= limit s.
Proof.
  intros ops Hk Ht s. assert (Hi : inv s) by (apply inv_run_old; [apply inv_init|exact Hk|exact Ht]).
  split; [apply inv_region_size; exact Hi|]. split; [apply inv_absolute; exact Hi|apply inv_region_bytes; exact Hi].
Qed.

(* the promise part of the invariant, for the repaired machine: what pending puts were promised
   is within the capacity too, so the NEXT commit cannot exceed it either *)
Theorem fixed_pending_fit : forall ops,
  tickets_ok true init ops ->
  let s := run_fixed init ops in
  top (commit s) + BASE0 <= limit s + base s.
Proof.
  intros ops Ht s. assert (Hi : inv s) by (apply inv_run_fixed; [apply inv_init|exact Ht]).
  pose proof (inv_commit s Hi) as [_ [_ [_ [H _]]]].
  pose proof (commit_fields s) as (Fw & Ft & _).
  assert (limit (commit s) = limit s) as <- by (rewrite !limit_eq, Fw, Ft; reflexivity).
  assert (base (commit s) = base s) as <- by (unfold base; rewrite Fw; reflexivity). exact H.
Qed.

(* ---------------------------------------------------------------- the known class is exactly three mechanisms *)
Theorem undercounted_reasons : forall s emb chk st grow auto,
  undercounted s (OPut emb chk st grow auto) = true ->
  by_pending s = true \/ by_stale_end s = true \/ by_chunks chk st = true.
Proof.
  intros s emb chk st grow auto H. cbn [undercounted] in H.
  apply Bool.andb_true_iff in H. destruct H as [H H3]. apply Bool.andb_true_iff in H. destruct H as [_ H2].
  unfold by_pending, by_stale_end, by_chunks, full_projection in *.
  destruct (0 <? sum (pend s)) eqn:A; [left; reflexivity|].
  destruct (cpe s <? dend s) eqn:B; [right; left; reflexivity|].
  right; right. lia.
Qed.

(* ---------------------------------------------------------------- rejected puts *)

(* a rejected put returns the state it got, except that a put carrying an embedding has already
   run enable_vec *)
Theorem put_rejected_state : forall fixed s emb chk st grow auto,
  code (snd (put fixed s emb chk st grow auto)) <> 0 ->
  fst (put fixed s emb chk st grow auto) =
    (if emb && mutation_allowed s then set_vec s else s).
Proof.
  intros fixed s emb chk st grow auto H. unfold put in *.
  destruct (mutation_allowed s) eqn:Ha; cbn [negb] in *; [|rewrite Bool.andb_false_r; reflexivity].
  rewrite Bool.andb_true_r.
  destruct (limit s <? tail fixed s + chk) eqn:E1; [reflexivity|].
  destruct (fixed && (limit s <? tail fixed s + sum st)) eqn:E2; [reflexivity|].
  cbn in H. congruence.
Qed.

Lemma set_vec_id : forall s, vec s = true -> set_vec s = s.
Proof. intros [a b c d e f v p q fe] H. cbn in H. subst v. reflexivity. Qed.

Theorem put_rejected_unchanged : forall fixed s emb chk st grow auto,
  emb = false \/ vec s = true ->
  code (snd (put fixed s emb chk st grow auto)) <> 0 ->
  fst (put fixed s emb chk st grow auto) = s.
Proof.
  intros fixed s emb chk st grow auto Hc H. rewrite put_rejected_state by exact H.
  destruct Hc as [->|Hv]; [reflexivity|]. destruct (emb && mutation_allowed s); [apply set_vec_id; exact Hv|reflexivity].
Qed.

(* the only results of a put, and when each occurs (check before the fix) *)
Theorem put_old_result : forall s emb chk st grow auto,
  snd (put false s emb chk st grow auto) =
    if negb (mutation_allowed s) then r_ticket_required
    else if limit s <? cpe s + chk then r_cap (cpe s) (limit s) chk
    else r_ok.
Proof.
  intros. unfold put, tail. destruct (mutation_allowed s); cbn [negb]; [|reflexivity].
  destruct (limit s <? cpe s + chk); reflexivity.
Qed.

(* the only results of a put, and when each occurs (code as it is) *)
Theorem put_fixed_result : forall s emb chk st grow auto,
  snd (put true s emb chk st grow auto) =
    let t := N.max (cpe s) (dend s) + sum (pend s) in
    if negb (mutation_allowed s) then r_ticket_required
    else if limit s <? t + chk then r_cap t (limit s) chk
    else if limit s <? t + sum st then r_cap t (limit s) (sum st)
    else r_ok.
Proof.
  intros. unfold put, tail. destruct (mutation_allowed s); cbn [negb andb]; [|reflexivity].
  cbv zeta. destruct (limit s <? N.max (cpe s) (dend s) + sum (pend s) + chk); [reflexivity|].
  destruct (limit s <? N.max (cpe s) (dend s) + sum (pend s) + sum st); reflexivity.
Qed.

(* code as it is: a put that would exceed the limit fails with CapacityExceeded *)
Theorem put_fixed_rejects_excess : forall s emb chk st grow auto,
  mutation_allowed s = true ->
  limit s < full_projection s st ->
  code (snd (put true s emb chk st grow auto)) = 1.
Proof.
  intros s emb chk st grow auto Ha Hx. unfold put, tail, full_projection in *. rewrite Ha. cbn [negb andb].
  destruct (limit s <? N.max (cpe s) (dend s) + sum (pend s) + chk) eqn:E1; [reflexivity|].
  destruct (limit s <? N.max (cpe s) (dend s) + sum (pend s) + sum st) eqn:E2; [reflexivity|lia].
Qed.

(* code as it is: an accepted put is within the limit on every count *)
Theorem put_fixed_accepts_only_fitting : forall s emb chk st grow auto,
  code (snd (put true s emb chk st grow auto)) = 0 ->
  full_projection s st <= limit s /\ N.max (cpe s) (dend s) + sum (pend s) + chk <= limit s.
Proof.
  intros s emb chk st grow auto H. unfold put, tail, full_projection in *.
  destruct (mutation_allowed s); cbn [negb andb] in *; [|cbn in H; discriminate].
  destruct (limit s <? N.max (cpe s) (dend s) + sum (pend s) + chk) eqn:E1; [cbn in H; discriminate|].
  destruct (limit s <? N.max (cpe s) (dend s) + sum (pend s) + sum st) eqn:E2; [cbn in H; discriminate|]. lia.
Qed.

(* constants of the model = constants regenerated from the source *)
Theorem capacity_consts_tied :
  WAL_OFFSET = MV.Gen.Consts.WAL_OFFSET /\ WAL_SIZE_TINY = MV.Gen.Consts.WAL_SIZE_TINY /\
  WAL_SIZE_MEDIUM = MV.Gen.Consts.WAL_SIZE_MEDIUM /\ WAL_SIZE_LARGE = MV.Gen.Consts.WAL_SIZE_LARGE.
Proof. repeat split. Qed.

(* boolean checkers are sound *)
Lemma fitsb_sound : forall s, fitsb s = true -> fits s.
Proof.
  intros s H. unfold fitsb in H. apply Bool.andb_true_iff in H. destruct H as [H1 H2].
  apply Bool.andb_true_iff in H1. destruct H1 as [H0 H1].
  split; [lia|]. split; [lia|]. intros Hne. destruct (pend s) as [|x r]; [congruence|]. lia.
Qed.

Lemma tickets_okb_sound : forall fixed ops s, tickets_okb fixed s ops = true -> tickets_ok fixed s ops.
Proof.
  induction ops as [|o r IH]; intros s H; cbn [tickets_ok tickets_okb] in *; [exact I|].
  apply Bool.andb_true_iff in H. destruct H as [H1 H2]. split; [|apply IH; exact H2].
  destruct o as [emb chk st grow auto|grow|sq cap i|d|m]; cbn [ticket_ok ticket_okb] in *; try exact I; [|lia].
  intros Hlt. assert (E : tseq s <? sq = true) by lia. rewrite E in H1. apply fitsb_sound. exact H1.
Qed.
