(* C17 proofs: invariants of the lock-table model over ALL interleaved op lists. *)
From MV Require Import Base.Prelude Model.LockTable.
From Coq Require Import ZifyBool ZifyNat ZifyN.
Local Open Scope N_scope.

(* ---------------------------------------------------------------- maps *)
Lemma upd_same {A} (f : N -> A) k v : upd f k v k = v.
Proof. unfold upd. now rewrite N.eqb_refl. Qed.
Lemma upd_other {A} (f : N -> A) k v x : x <> k -> upd f k v x = f x.
Proof. unfold upd. intros Hn. destruct (N.eqb_spec x k); [contradiction | reflexivity]. Qed.

Lemma upd_cases {A} (f : N -> A) k v x r :
  upd f k v x = r -> (x = k /\ v = r) \/ (x <> k /\ f x = r).
Proof. unfold upd. destruct (N.eqb_spec x k); intros; [left | right]; auto. Qed.

(* ---------------------------------------------------------------- invariant pieces *)
Definition dom_ok (s : st) : Prop := forall w h, s_hs s w = Some h -> In w (s_dom s).

(* the flock table is sound: an exclusive lock of one description excludes every lock of every
   other description on the same inode *)
Definition lock_sound (hs : N -> option handle) : Prop :=
  forall w1 w2 h1 h2, w1 <> w2 -> hs w1 = Some h1 -> hs w2 = Some h2 ->
    h_lock_mode h1 = LEx -> h_lock_ino h1 = h_lock_ino h2 -> h_lock_mode h2 = LNone.

Lemma lmode_free_none m : lmode_free m = true -> m = LNone.
Proof. destruct m; simpl; congruence. Qed.

Lemma others_hold_false s w i :
  dom_ok s -> others_hold s w i = false ->
  forall v hv, v <> w -> s_hs s v = Some hv -> holds_on i hv = false.
Proof.
  intros Hd Ho v hv Hvw Hv.
  destruct (holds_on i hv) eqn:E; [|reflexivity].
  exfalso. unfold others_hold in Ho.
  assert (X : existsb (fun v0 => if v0 =? w then false else
             match s_hs s v0 with Some h => holds_on i h | None => false end) (s_dom s) = true).
  { apply existsb_exists. exists v. split; [eapply Hd; eauto|].
    destruct (N.eqb_spec v w); [contradiction|]. now rewrite Hv. }
  congruence.
Qed.

Lemma sound_remove hs w : lock_sound hs -> lock_sound (upd hs w None).
Proof.
  intros Hs w1 w2 h1 h2 Hne H1 H2 Hex Hino.
  apply upd_cases in H1. apply upd_cases in H2.
  destruct H1 as [[_ X]|[_ H1]]; [discriminate|].
  destruct H2 as [[_ X]|[_ H2]]; [discriminate|].
  exact (Hs w1 w2 h1 h2 Hne H1 H2 Hex Hino).
Qed.

Lemma sound_set_free hs w h' :
  lock_sound hs -> h_lock_mode h' = LNone -> lock_sound (upd hs w (Some h')).
Proof.
  intros Hs Hf w1 w2 h1 h2 Hne H1 H2 Hex Hino.
  apply upd_cases in H1. apply upd_cases in H2.
  destruct H1 as [[_ X]|[N1 H1]]; [inversion X; subst; congruence|].
  destruct H2 as [[_ X]|[N2 H2]]; [inversion X; subst; assumption|].
  exact (Hs w1 w2 h1 h2 Hne H1 H2 Hex Hino).
Qed.

Lemma sound_set_keep hs w h h' :
  lock_sound hs -> hs w = Some h -> h_lock_ino h' = h_lock_ino h ->
  (h_lock_mode h' = h_lock_mode h \/ h_lock_mode h' = LNone) ->
  lock_sound (upd hs w (Some h')).
Proof.
  intros Hs Hw Hi Hm w1 w2 h1 h2 Hne H1 H2 Hex Hino.
  apply upd_cases in H1. apply upd_cases in H2.
  destruct H1 as [[E1 X]|[N1 H1]]; destruct H2 as [[E2 Y]|[N2 H2]].
  - subst. contradiction.
  - inversion X; subst h1. subst w1.
    destruct Hm as [Hm|Hm]; [|congruence].
    eapply (Hs w w2 h h2); eauto; congruence.
  - inversion Y; subst h2. subst w2.
    destruct Hm as [Hm|Hm]; [|assumption].
    rewrite Hm. eapply (Hs w1 w h1 h); eauto; congruence.
  - exact (Hs w1 w2 h1 h2 Hne H1 H2 Hex Hino).
Qed.

Lemma sound_grant s w i h' :
  dom_ok s -> lock_sound (s_hs s) -> others_hold s w i = false -> h_lock_ino h' = i ->
  lock_sound (upd (s_hs s) w (Some h')).
Proof.
  intros Hd Hs Ho Hi w1 w2 h1 h2 Hne H1 H2 Hex Hino.
  apply upd_cases in H1. apply upd_cases in H2.
  destruct H1 as [[E1 X]|[N1 H1]]; destruct H2 as [[E2 Y]|[N2 H2]].
  - subst. contradiction.
  - inversion X; subst h1. subst w1.
    pose proof (others_hold_false s w i Hd Ho w2 h2 N2 H2) as F.
    unfold holds_on in F. rewrite <- Hino, Hi, N.eqb_refl in F. simpl in F.
    apply lmode_free_none. now destruct (lmode_free (h_lock_mode h2)).
  - inversion Y; subst h2. subst w2.
    pose proof (others_hold_false s w i Hd Ho w1 h1 N1 H1) as F.
    unfold holds_on in F. rewrite Hino, Hi, N.eqb_refl, Hex in F. simpl in F. discriminate.
  - exact (Hs w1 w2 h1 h2 Hne H1 H2 Hex Hino).
Qed.

Lemma sound_fresh_ino hs w h' :
  lock_sound hs ->
  (forall v hv, v <> w -> hs v = Some hv -> h_lock_ino hv <> h_lock_ino h') ->
  lock_sound (upd hs w (Some h')).
Proof.
  intros Hs Hf w1 w2 h1 h2 Hne H1 H2 Hex Hino.
  apply upd_cases in H1. apply upd_cases in H2.
  destruct H1 as [[E1 X]|[N1 H1]]; destruct H2 as [[E2 Y]|[N2 H2]].
  - subst. contradiction.
  - inversion X; subst h1. exfalso. eapply Hf; eauto.
  - inversion Y; subst h2. exfalso. eapply Hf; eauto.
  - exact (Hs w1 w2 h1 h2 Hne H1 H2 Hex Hino).
Qed.

(* dom_ok under the state constructors *)
Lemma dom_set_some s w h : In w (s_dom s) -> dom_ok s -> dom_ok (set_h s w (Some h)).
Proof.
  intros Hin Hd v hv Hv. cbn in *. apply upd_cases in Hv.
  destruct Hv as [[-> _]|[_ Hv]]; [assumption | eapply Hd; eauto].
Qed.
Lemma dom_set_none s w : dom_ok s -> dom_ok (set_h s w None).
Proof.
  intros Hd v hv Hv. cbn in *. apply upd_cases in Hv.
  destruct Hv as [[_ X]|[_ Hv]]; [discriminate | eapply Hd; eauto].
Qed.
Lemma dom_set_file s i c : dom_ok s -> dom_ok (set_file s i c).
Proof. intros Hd v hv Hv. cbn in *. eapply Hd; eauto. Qed.
Lemma dom_add s w : dom_ok s -> dom_ok (add_dom s w).
Proof. intros Hd v hv Hv. cbn in *. right. eapply Hd; eauto. Qed.
Lemma dom_alloc s c : dom_ok s -> dom_ok (alloc s c).
Proof. intros Hd v hv Hv. cbn in *. eapply Hd; eauto. Qed.

(* ================================================================ the implementation *)
(* every live handle holds an exclusive flock -- on the inode it opened, whatever the path names
   now; a handle whose self.file shares the lock description has both descriptors open *)
Record inv_impl (s : st) : Prop := {
  ii_dom : dom_ok s;
  ii_sound : lock_sound (s_hs s);
  ii_live : forall w h, s_hs s w = Some h -> h_phase h = PLive -> h_lock_mode h = LEx;
  ii_fds : forall w h, s_hs s w = Some h -> h_file_shared h = true -> h_lock_fds h = 2%nat
}.

Lemma inv_impl_init : inv_impl init.
Proof. split; cbn; intros; try discriminate. Qed.

(* a state that differs from an invariant one only by file contents / dir / next / a larger dom *)
Lemma inv_impl_frame s s' :
  inv_impl s -> s_hs s' = s_hs s -> (forall w, In w (s_dom s) -> In w (s_dom s')) -> inv_impl s'.
Proof.
  intros [Hd Hs Hl Hf] E Hdom. split.
  - intros w h Hw. rewrite E in Hw. eauto.
  - now rewrite E.
  - intros w h Hw. rewrite E in Hw. eauto.
  - intros w h Hw. rewrite E in Hw. eauto.
Qed.

Lemma inv_impl_set_file s i c : inv_impl s -> inv_impl (set_file s i c).
Proof. intros H. eapply inv_impl_frame; eauto. Qed.
Lemma inv_impl_alloc s c : inv_impl s -> inv_impl (alloc s c).
Proof. intros H. eapply inv_impl_frame; eauto. Qed.
Lemma inv_impl_add_dom s w : inv_impl s -> inv_impl (add_dom s w).
Proof. intros H. eapply inv_impl_frame; eauto. cbn. auto. Qed.

Lemma inv_impl_kill s w : inv_impl s -> inv_impl (kill s w).
Proof.
  intros [Hd Hs Hl Hf]. split; cbn.
  - now apply dom_set_none.
  - now apply sound_remove.
  - intros v h Hv. apply upd_cases in Hv. destruct Hv as [[_ X]|[_ Hv]]; [discriminate|eauto].
  - intros v h Hv. apply upd_cases in Hv. destruct Hv as [[_ X]|[_ Hv]]; [discriminate|eauto].
Qed.

(* adding a not-yet-locked handle *)
Lemma inv_impl_add_pending s w h :
  inv_impl s -> In w (s_dom s) -> h_lock_mode h = LNone -> (exists c, h_phase h = PFd c) ->
  (h_file_shared h = true -> h_lock_fds h = 2%nat) ->
  inv_impl (set_h s w (Some h)).
Proof.
  intros [Hd Hs Hl Hf] Hin Hm [c Hp] Hsh. split; cbn.
  - now apply dom_set_some.
  - now apply sound_set_free.
  - intros v hv Hv. apply upd_cases in Hv. destruct Hv as [[_ X]|[_ Hv]]; [inversion X; subst; congruence|eauto].
  - intros v hv Hv. apply upd_cases in Hv. destruct Hv as [[_ X]|[_ Hv]]; [inversion X; subst; auto|eauto].
Qed.

Lemma inv_impl_open_fd t c s w : inv_impl s -> inv_impl (open_fd t c s w).
Proof.
  intros H. unfold open_fd. destruct (s_hs s w) eqn:E; [assumption|].
  apply inv_impl_add_pending; cbn; eauto.
  apply inv_impl_add_dom. destruct t; [apply inv_impl_set_file|]; assumption.
Qed.

(* replacing a handle by one with the same lock description state *)
Lemma inv_impl_same_lock s w h h' :
  inv_impl s -> s_hs s w = Some h ->
  h_lock_ino h' = h_lock_ino h -> h_lock_mode h' = h_lock_mode h ->
  (h_phase h' = PLive -> h_lock_mode h' = LEx) ->
  (h_file_shared h' = true -> h_lock_fds h' = 2%nat) ->
  inv_impl (set_h s w (Some h')).
Proof.
  intros [Hd Hs Hl Hf] Hw Hi Hm Hlive Hsh. split; cbn.
  - apply dom_set_some; eauto.
  - eapply sound_set_keep; eauto.
  - intros v hv Hv. apply upd_cases in Hv. destruct Hv as [[_ X]|[_ Hv]]; [inversion X; subst; auto|eauto].
  - intros v hv Hv. apply upd_cases in Hv. destruct Hv as [[_ X]|[_ Hv]]; [inversion X; subst; auto|eauto].
Qed.

Lemma inv_impl_go_live s w h0 h :
  inv_impl s -> s_hs s w = Some h0 ->
  dom_ok s -> others_hold s w (h_lock_ino h) = false ->
  h_lock_mode h = LEx -> (h_file_shared h = true -> h_lock_fds h = 2%nat) ->
  inv_impl (go_live false s w h).
Proof.
  intros Hinv Hw0 Hd Ho Hm Hsh.
  assert (G : forall s1 h1, s_hs s1 = s_hs s -> (forall v, In v (s_dom s) -> In v (s_dom s1)) ->
            h_lock_ino h1 = h_lock_ino h -> h_lock_mode h1 = LEx ->
            (h_file_shared h1 = true -> h_lock_fds h1 = 2%nat) ->
            inv_impl (set_h s1 w (Some h1))).
  { intros s1 h1 E Hdom Hi1 Hm1 Hsh1.
    assert (I1 : inv_impl s1) by (eapply inv_impl_frame; eauto).
    destruct I1 as [Hd1 Hs1 Hl1 Hf1]. split; cbn.
    - apply dom_set_some; auto. apply Hdom. eapply Hd; eauto.
    - rewrite E. eapply sound_grant; eauto. apply Hinv.
    - intros v hv Hv. apply upd_cases in Hv. destruct Hv as [[_ X]|[_ Hv]]; [inversion X; subst; auto|eauto].
    - intros v hv Hv. apply upd_cases in Hv. destruct Hv as [[_ X]|[_ Hv]]; [inversion X; subst; auto|eauto]. }
  assert (Hclose : h_lock_ino (if h_file_shared h then close_lock_fd h else h) = h_lock_ino h /\
                   h_lock_mode (if h_file_shared h then close_lock_fd h else h) = LEx).
  { destruct (h_file_shared h) eqn:S; [|auto]. cbn. rewrite (Hsh eq_refl). cbn. auto. }
  unfold go_live. destruct (s_files s (h_file_ino h)) as [c l].
  destruct (h_phase h) as [[|]|]; try destruct l; apply G; cbn; auto; try apply Hclose; discriminate.
Qed.

Lemma try_lock_ex_some s w h h' :
  try_lock_ex s w h = Some h' ->
  others_hold s w (h_lock_ino h) = false /\ h_lock_ino h' = h_lock_ino h /\ h_lock_mode h' = LEx /\
  h_phase h' = h_phase h /\ h_lock_fds h' = h_lock_fds h /\ h_file_shared h' = h_file_shared h /\
  h_file_ino h' = h_file_ino h.
Proof.
  unfold try_lock_ex. destruct (others_hold s w (h_lock_ino h)); [discriminate|].
  intros X; inversion X; subst; cbn; repeat split; reflexivity.
Qed.

Lemma inv_impl_open_lock s w : inv_impl s -> inv_impl (open_lock_impl s w).
Proof.
  intros H. unfold open_lock_impl.
  destruct (s_hs s w) as [h|] eqn:E; [|assumption].
  destruct (h_phase h) eqn:P; [|assumption].
  destruct (try_lock_ex s w h) as [h'|] eqn:T; [|assumption].
  apply try_lock_ex_some in T. destruct T as (Ho & Hi & Hm & Hp & Hfd & Hsh & _).
  eapply inv_impl_go_live; eauto; try apply H.
  - now rewrite Hi.
  - rewrite Hfd, Hsh. eapply ii_fds; eauto.
Qed.

Lemma inv_impl_give_up s w : inv_impl s -> inv_impl (give_up s w).
Proof.
  intros H. unfold give_up. destruct (s_hs s w) as [h|]; [|assumption].
  destruct (h_phase h); [apply (inv_impl_kill s w H)|assumption].
Qed.

Lemma inv_impl_put s w t : inv_impl s -> inv_impl (put s w t).
Proof.
  intros H. unfold put. destruct (s_hs s w) as [h|] eqn:E; [|assumption].
  destruct (h_phase h) eqn:P; [assumption|].
  destruct (s_files s (h_file_ino h)) as [c l].
  eapply inv_impl_same_lock with (h := h); cbn; eauto.
  - now apply inv_impl_set_file.
  - intros _. eapply ii_live; eauto.
  - eapply ii_fds; eauto.
Qed.

Lemma inv_impl_commit s w : inv_impl s -> inv_impl (commit_impl s w).
Proof.
  intros H. unfold commit_impl. destruct (s_hs s w) as [h|] eqn:E; [|assumption].
  destruct (h_phase h) eqn:P; [assumption|].
  destruct (s_files s (h_file_ino h)) as [c l].
  assert (Hex : h_lock_mode h = LEx) by (eapply ii_live; eauto).
  assert (G : inv_impl
     (set_h (alloc s (h_toc h ++ frames_of l, [])) w
        (Some (mkH PLive (h_lock_ino (if h_file_shared h then close_lock_fd h else h))
                   (h_lock_mode (if h_file_shared h then close_lock_fd h else h))
                   (h_lock_fds (if h_file_shared h then close_lock_fd h else h)) false
                   (s_next s) (h_toc h ++ frames_of l) 0 false false)))).
  { eapply inv_impl_same_lock with (h := h); cbn; eauto.
    - now apply inv_impl_alloc.
    - destruct (h_file_shared h); reflexivity.
    - destruct (h_file_shared h) eqn:S; [|reflexivity].
      cbn. erewrite (ii_fds s H w h E S). reflexivity.
    - intros _. destruct (h_file_shared h) eqn:S; [|assumption].
      cbn. erewrite (ii_fds s H w h E S). assumption.
    - discriminate. }
  destruct l; [destruct (h_dirty h || h_tpend h)|]; auto.
Qed.

Lemma inv_impl_drop s w : inv_impl s -> inv_impl (drop_with commit_impl s w).
Proof.
  intros H. unfold drop_with. destruct (s_hs s w) as [h|]; [|assumption].
  destruct (h_phase h); [now apply inv_impl_kill|].
  apply inv_impl_kill. destruct (h_dirty h); [now apply inv_impl_commit|assumption].
Qed.

Lemma inv_impl_mark_dirty s w : inv_impl s -> inv_impl (mark_dirty s w).
Proof.
  intros H. unfold mark_dirty. destruct (s_hs s w) as [h|] eqn:E; [|assumption].
  eapply inv_impl_same_lock with (h := h); cbn; eauto.
  - intros P. eapply ii_live; eauto.
  - eapply ii_fds; eauto.
Qed.

Lemma inv_impl_open_all t c s w : inv_impl s -> inv_impl (open_all open_lock_impl t c s w).
Proof.
  intros H. unfold open_all. destruct (s_hs s w); [assumption|].
  apply inv_impl_give_up, inv_impl_open_lock, inv_impl_open_fd, H.
Qed.

Lemma inv_impl_try_open s w : inv_impl s -> inv_impl (try_open_with open_lock_impl s w).
Proof.
  intros H. unfold try_open_with. destruct (s_hs s w); [assumption|].
  apply inv_impl_give_up, inv_impl_open_lock.
  apply inv_impl_add_pending; cbn; eauto; try discriminate.
  now apply inv_impl_add_dom.
Qed.

Lemma inv_impl_step s o : inv_impl s -> inv_impl (step_impl s o).
Proof.
  intros H. destruct o; cbn.
  - now apply inv_impl_open_fd.
  - now apply inv_impl_open_fd.
  - now apply inv_impl_open_lock.
  - now apply inv_impl_give_up.
  - now apply inv_impl_open_all.
  - now apply inv_impl_open_all.
  - now apply inv_impl_try_open.
  - now apply inv_impl_put.
  - now apply inv_impl_commit.
  - unfold vacuum_with. now apply inv_impl_commit.
  - now apply inv_impl_drop.
  - now apply inv_impl_kill.
  - destruct (s_hs s w); [assumption|].
    apply inv_impl_drop, inv_impl_mark_dirty, inv_impl_try_open, H.
  - exact H.
  - unfold set_dirty_live. destruct (is_live s w); [now apply inv_impl_mark_dirty|assumption].
Qed.

Lemma fold_inv {I : st -> Prop} (step : st -> op -> st) :
  (forall s o, I s -> I (step s o)) -> forall ops s, I s -> I (fold_left step ops s).
Proof. intros Hs ops. induction ops as [|o r IH]; intros s H; cbn; auto. Qed.

Lemma inv_impl_run ops : inv_impl (run_impl ops).
Proof. apply (fold_inv step_impl inv_impl_step). apply inv_impl_init. Qed.

(* between the grant and the close of a writer its lock description is never unlocked: in every
   reachable state every live handle holds its exclusive flock (no LOCK_UN on that description,
   through whichever descriptor, inside the writer's critical section) *)
Theorem impl_writer_lock_never_released ops w h :
  s_hs (run_impl ops) w = Some h -> h_phase h = PLive -> h_lock_mode h = LEx.
Proof. intros Hw P. exact (ii_live _ (inv_impl_run ops) w h Hw P). Qed.

(* a temporary FileLock on a clone of self.file inside a writer's operation breaks exactly that,
   before the handle's first commit: the second open is granted on the SAME inode (not the known class) *)
Definition before_guard : list op := [Create 0; Touch 0; Put 0 1].
Theorem guard_on_clone_admits_second_writer :
  let s := touch_with_temporary_guard (run_impl before_guard) 0 in
  forallb (fun o => match o with Commit _ | Vacuum _ | Drop _ | Doctor _ => false | _ => true end) before_guard = true /\
  is_live (step_impl (run_impl before_guard) (Open 1)) 1 = false /\      (* unchanged code: refused *)
  (exists h, s_hs s 0 = Some h /\ h_phase h = PLive /\ h_lock_mode h = LNone) /\
  stale s = false /\
  is_live (step_impl s (Open 1)) 0 = true /\ is_live (step_impl s (Open 1)) 1 = true.
Proof. vm_compute. repeat split. eexists. repeat split. Qed.

(* per inode the lock works: two live handles whose flocks sit on the same inode are one *)
Lemma impl_one_writer_per_inode ops w1 w2 h1 h2 :
  s_hs (run_impl ops) w1 = Some h1 -> s_hs (run_impl ops) w2 = Some h2 ->
  h_phase h1 = PLive -> h_phase h2 = PLive -> h_lock_ino h1 = h_lock_ino h2 -> w1 = w2.
Proof.
  intros H1 H2 P1 P2 Hi. pose proof (inv_impl_run ops) as I.
  destruct (N.eq_dec w1 w2) as [|Hne]; [assumption|exfalso].
  pose proof (ii_live _ I w1 h1 H1 P1) as E1. pose proof (ii_live _ I w2 h2 H2 P2) as E2.
  pose proof (ii_sound _ I w1 w2 h1 h2 Hne H1 H2 E1 Hi). congruence.
Qed.

Lemma stale_false s : dom_ok s -> stale s = false ->
  forall w h, s_hs s w = Some h -> h_phase h = PLive -> h_lock_ino h = s_dir s.
Proof.
  intros Hd Hst w h Hw P. unfold stale in Hst.
  destruct (N.eqb_spec (h_lock_ino h) (s_dir s)) as [|Hne]; [assumption|exfalso].
  assert (X : existsb (fun w0 => match s_hs s w0 with Some h0 => stale_handle s h0 | None => false end) (s_dom s) = true).
  { apply existsb_exists. exists w. split; [eapply Hd; eauto|]. rewrite Hw. unfold stale_handle. rewrite P.
    destruct (N.eqb_spec (h_lock_ino h) (s_dir s)); [contradiction|reflexivity]. }
  congruence.
Qed.

(* outside the known class -- no live handle's flock on a replaced inode -- at most one writer *)
Theorem impl_one_writer_outside_known ops :
  stale (run_impl ops) = false -> one_writer (run_impl ops).
Proof.
  intros Hst w1 w2 [h1 [H1 P1]] [h2 [H2 P2]].
  pose proof (inv_impl_run ops) as I.
  eapply impl_one_writer_per_inode; eauto.
  rewrite (stale_false _ (ii_dom _ I) Hst w1 h1 H1 P1), (stale_false _ (ii_dom _ I) Hst w2 h2 H2 P2). reflexivity.
Qed.

(* histories with no inode-replacing step: the path keeps naming inode 0, its log stays empty
   (so no open replays anything) and every lock is on it *)
Definition all_on_dir (s : st) : Prop :=
  s_dir s = 0 /\ snd (s_files s 0) = [] /\ forall w h, s_hs s w = Some h -> h_lock_ino h = 0 /\ h_file_ino h = 0.

Lemma all_on_dir_set s w h : all_on_dir s -> h_lock_ino h = 0 -> h_file_ino h = 0 -> all_on_dir (set_h s w (Some h)).
Proof.
  intros (Hd & Hl & Ha) Hi Hf. split; [|split]; cbn; auto. intros v hv Hv. apply upd_cases in Hv.
  destruct Hv as [[_ X]|[_ Hv]]; [inversion X; subst; auto|eauto].
Qed.
Lemma all_on_dir_kill s w : all_on_dir s -> all_on_dir (kill s w).
Proof.
  intros (Hd & Hl & Ha). split; [|split]; cbn; auto. intros v hv Hv. apply upd_cases in Hv.
  destruct Hv as [[_ X]|[_ Hv]]; [discriminate|eauto].
Qed.
Lemma all_on_dir_setfile s c : all_on_dir s -> all_on_dir (set_file s 0 (c, [])).
Proof. intros (Hd & Hl & Ha). split; [|split]; cbn; auto. Qed.
Lemma all_on_dir_adddom s w : all_on_dir s -> all_on_dir (add_dom s w).
Proof. intros (Hd & Hl & Ha). split; [|split]; cbn; auto. Qed.

Lemma all_on_dir_open_fd t c s w : all_on_dir s -> all_on_dir (open_fd t c s w).
Proof.
  intros H. unfold open_fd. destruct (s_hs s w); [assumption|].
  assert (E : s_dir s = 0) by apply H.
  destruct t; apply all_on_dir_set; cbn; auto; apply all_on_dir_adddom; try assumption.
  rewrite E. now apply all_on_dir_setfile.
Qed.
Lemma all_on_dir_go_live s w h : all_on_dir s -> h_lock_ino h = 0 -> h_file_ino h = 0 -> all_on_dir (go_live false s w h).
Proof.
  intros H Hi Hf. unfold go_live. rewrite Hf. destruct (s_files s 0) as [c l] eqn:EF.
  assert (L : l = []) by (destruct H as (_ & Hl & _); rewrite EF in Hl; exact Hl). subst l.
  destruct (h_phase h) as [[|]|]; apply all_on_dir_set; cbn; auto; now apply all_on_dir_setfile.
Qed.
Lemma all_on_dir_open_lock s w : all_on_dir s -> all_on_dir (open_lock_impl s w).
Proof.
  intros H. unfold open_lock_impl. destruct (s_hs s w) as [h|] eqn:E; [|assumption].
  destruct (h_phase h); [|assumption].
  destruct (try_lock_ex s w h) as [h'|] eqn:T; [|assumption].
  apply try_lock_ex_some in T. destruct T as (_ & Hi & _ & _ & _ & _ & Hfi).
  destruct H as (Hd & Hl & Ha). destruct (Ha w h E) as [A1 A2].
  apply all_on_dir_go_live; [split; auto| congruence | congruence].
Qed.
Lemma all_on_dir_give_up s w : all_on_dir s -> all_on_dir (give_up s w).
Proof.
  intros H. unfold give_up. destruct (s_hs s w) as [h|]; [|assumption].
  destruct (h_phase h); [apply (all_on_dir_kill s w H)|assumption].
Qed.

Lemma all_on_dir_step s o : quiet_op o = true -> all_on_dir s -> all_on_dir (step_impl s o).
Proof.
  intros Hq H. destruct o; cbn in *; try discriminate.
  - now apply all_on_dir_open_fd.
  - now apply all_on_dir_open_fd.
  - now apply all_on_dir_open_lock.
  - now apply all_on_dir_give_up.
  - unfold open_all. destruct (s_hs s w); [assumption|].
    apply all_on_dir_give_up, all_on_dir_open_lock, all_on_dir_open_fd, H.
  - unfold open_all. destruct (s_hs s w); [assumption|].
    apply all_on_dir_give_up, all_on_dir_open_lock, all_on_dir_open_fd, H.
  - unfold try_open_with. destruct (s_hs s w); [assumption|].
    apply all_on_dir_give_up, all_on_dir_open_lock, all_on_dir_set; cbn; try apply H;
      try (now apply all_on_dir_adddom).
  - now apply all_on_dir_kill.
  - exact H.
  - unfold set_dirty_live. destruct (is_live s w); [|assumption].
    unfold mark_dirty. destruct (s_hs s w) as [h|] eqn:E; [|assumption].
    destruct H as (Hd & Hl & Ha). destruct (Ha w h E) as [A1 A2].
    apply all_on_dir_set; cbn; auto. split; auto.
Qed.

Lemma all_on_dir_run ops : forallb quiet_op ops = true -> all_on_dir (run_impl ops).
Proof.
  unfold run_impl. assert (G : forall ops s, forallb quiet_op ops = true -> all_on_dir s -> all_on_dir (fold_left step_impl ops s)).
  { induction ops0 as [|o r IH]; intros s Hq H; cbn in *; [assumption|].
    apply andb_true_iff in Hq. destruct Hq. apply IH; [assumption|]. now apply all_on_dir_step. }
  intros Hq. apply G; [assumption|]. split; [|split]; cbn; [reflexivity|reflexivity|discriminate].
Qed.

Theorem impl_one_writer_quiet ops :
  forallb quiet_op ops = true -> one_writer (run_impl ops).
Proof.
  intros Hq w1 w2 [h1 [H1 P1]] [h2 [H2 P2]].
  destruct (all_on_dir_run ops Hq) as (_ & _ & Ha).
  eapply impl_one_writer_per_inode; eauto.
  destruct (Ha w1 h1 H1) as [E1 _]. destruct (Ha w2 h2 H2) as [E2 _]. congruence.
Qed.

(* the same without the "no put" restriction is false: replaying a log on open renames *)
Definition witness_replay_on_open : list op := [Create 0; Put 0 1; Kill 0; Open 1; Open 2].
Theorem impl_replay_on_open_two_writers :
  is_live (run_impl witness_replay_on_open) 1 = true /\ is_live (run_impl witness_replay_on_open) 2 = true /\
  stale (run_impl witness_replay_on_open) = true.
Proof. vm_compute. repeat split. Qed.

(* ---- refutations: witnesses by computation ---- *)
Definition live_b (s : st) (w : N) : bool := is_live s w.
Lemma is_live_writable s w : is_live s w = true -> live_writable s w.
Proof.
  unfold is_live, live_writable. destruct (s_hs s w) as [h|]; [|discriminate].
  destruct (h_phase h) eqn:P; [discriminate|]. intros _. exists h. auto.
Qed.
Lemma live_writable_is_live s w : live_writable s w -> is_live s w = true.
Proof. intros [h [H P]]. unfold is_live. now rewrite H, P. Qed.

Definition witness_two_writers : list op := [Create 0; Commit 0; Open 1].

Theorem impl_one_writer_refuted : ~ one_writer (run_impl witness_two_writers).
Proof.
  intros H.
  assert (A : live_writable (run_impl witness_two_writers) 0) by (apply is_live_writable; vm_compute; reflexivity).
  assert (B : live_writable (run_impl witness_two_writers) 1) by (apply is_live_writable; vm_compute; reflexivity).
  pose proof (H 0 1 A B). discriminate.
Qed.

(* the witness is in the known class, and the same history without the commit is not *)
Lemma witness_is_stale : stale (run_impl witness_two_writers) = true.
Proof. vm_compute. reflexivity. Qed.

(* ================================================================ the correct protocol *)
Record inv_fixed (s : st) : Prop := {
  if_dom : dom_ok s;
  if_sound : lock_sound (s_hs s);
  if_fresh : s_dir s < s_next s /\ forall w h, s_hs s w = Some h -> h_lock_ino h < s_next s;
  (* a live handle holds an exclusive flock on the inode the path names, its descriptor is on that
     inode, and its in-memory table / log position are those of that inode *)
  if_live : forall w h, s_hs s w = Some h -> h_phase h = PLive ->
      h_lock_mode h = LEx /\ h_lock_ino h = s_dir s /\ h_file_ino h = s_dir s /\
      h_toc h = fst (s_files s (s_dir s)) /\ h_wpos h = length (snd (s_files s (s_dir s)));
  (* a waiting handle's descriptor and lock description are on the same inode *)
  if_pend : forall w h c, s_hs s w = Some h -> h_phase h = PFd c -> h_file_ino h = h_lock_ino h
}.

Lemma inv_fixed_init : inv_fixed init.
Proof. split; cbn; intros; try discriminate. split; [lia|intros; discriminate]. Qed.

(* whoever is granted the exclusive flock on the path's inode is alone among live handles *)
Lemma fixed_no_other_live s w i :
  inv_fixed s -> others_hold s w i = false -> i = s_dir s ->
  forall v hv, v <> w -> s_hs s v = Some hv -> h_phase hv = PLive -> False.
Proof.
  intros I Ho Hi v hv Hvw Hv P.
  pose proof (others_hold_false s w i (if_dom _ I) Ho v hv Hvw Hv) as F.
  destruct (if_live _ I v hv Hv P) as (Hm & Hino & _).
  unfold holds_on in F. rewrite Hino, Hi, N.eqb_refl, Hm in F. discriminate.
Qed.

Lemma fixed_live_alone s w h :
  inv_fixed s -> s_hs s w = Some h -> h_phase h = PLive ->
  forall v hv, v <> w -> s_hs s v = Some hv -> h_phase hv = PLive -> False.
Proof.
  intros I Hw P v hv Hvw Hv Pv.
  destruct (if_live _ I w h Hw P) as (Hm & Hino & _).
  destruct (if_live _ I v hv Hv Pv) as (Hmv & Hinov & _).
  assert (Hne : w <> v) by congruence.
  assert (X : h_lock_mode hv = LNone) by (apply (if_sound _ I w v h hv Hne Hw Hv Hm); congruence).
  congruence.
Qed.

Lemma inv_fixed_kill s w : inv_fixed s -> inv_fixed (kill s w).
Proof.
  intros [Hd Hs [Hf1 Hf2] Hl Hp]. split; cbn.
  - now apply dom_set_none.
  - now apply sound_remove.
  - split; [assumption|]. intros v h Hv. apply upd_cases in Hv. destruct Hv as [[_ X]|[_ Hv]]; [discriminate|eauto].
  - intros v h Hv. apply upd_cases in Hv. destruct Hv as [[_ X]|[_ Hv]]; [discriminate|eauto].
  - intros v h c Hv. apply upd_cases in Hv. destruct Hv as [[_ X]|[_ Hv]]; [discriminate|eauto].
Qed.

Lemma inv_fixed_add_dom s w : inv_fixed s -> inv_fixed (add_dom s w).
Proof. intros [Hd Hs Hf Hl Hp]. split; cbn; auto. now apply dom_add. Qed.

Lemma inv_fixed_add_pending s w h c :
  inv_fixed s -> In w (s_dom s) -> h_lock_mode h = LNone -> h_phase h = PFd c ->
  h_lock_ino h < s_next s -> h_file_ino h = h_lock_ino h ->
  inv_fixed (set_h s w (Some h)).
Proof.
  intros [Hd Hs [Hf1 Hf2] Hl Hp] Hin Hm Hph Hlt Hfi. split; cbn.
  - now apply dom_set_some.
  - now apply sound_set_free.
  - split; [assumption|]. intros v hv Hv. apply upd_cases in Hv.
    destruct Hv as [[_ X]|[_ Hv]]; [inversion X; subst; assumption|eauto].
  - intros v hv Hv. apply upd_cases in Hv.
    destruct Hv as [[_ X]|[_ Hv]]; [inversion X; subst; congruence|eauto].
  - intros v hv c' Hv. apply upd_cases in Hv.
    destruct Hv as [[_ X]|[_ Hv]]; [inversion X; subst; auto|eauto].
Qed.

Lemma inv_fixed_open_fd c s w : inv_fixed s -> inv_fixed (open_fd false c s w).
Proof.
  intros H. unfold open_fd. destruct (s_hs s w) eqn:E; [assumption|].
  eapply inv_fixed_add_pending; cbn; eauto.
  - now apply inv_fixed_add_dom.
  - apply H.
Qed.

(* a live handle (alone) rewrites the path's inode and itself consistently *)
Lemma inv_fixed_update_live s w h0 lm fds sh cont toc wp d d2 :
  inv_fixed s -> s_hs s w = Some h0 ->
  (forall v hv, v <> w -> s_hs s v = Some hv -> h_phase hv = PLive -> False) ->
  lock_sound (upd (s_hs s) w (Some (mkH PLive (s_dir s) LEx fds sh (s_dir s) toc wp d d2))) ->
  lm = LEx -> toc = fst cont -> wp = length (snd cont) ->
  inv_fixed (set_h (set_file s (s_dir s) cont) w (Some (mkH PLive (s_dir s) lm fds sh (s_dir s) toc wp d d2))).
Proof.
  intros [Hd Hs [Hf1 Hf2] Hl Hp] Hw0 Alone Hsound -> Ht Hwp. split; cbn.
  - apply dom_set_some; cbn; [eapply Hd; eauto|]. now apply dom_set_file.
  - assumption.
  - split; [assumption|]. intros v hv Hv. apply upd_cases in Hv.
    destruct Hv as [[_ X]|[_ Hv]]; [inversion X; subst; cbn; assumption|eauto].
  - intros v hv Hv P. apply upd_cases in Hv.
    destruct Hv as [[_ X]|[Hne Hv]].
    + inversion X; subst hv; cbn. rewrite upd_same. repeat split; auto.
    + exfalso. eapply Alone; eauto.
  - intros v hv c' Hv P. apply upd_cases in Hv.
    destruct Hv as [[_ X]|[Hne Hv]]; [inversion X; subst hv; discriminate|eauto].
Qed.

(* the (alone) live handle moves path, file and lock to a fresh inode *)
Lemma inv_fixed_move_to_fresh s w h0 toc' :
  inv_fixed s -> s_hs s w = Some h0 ->
  (forall v hv, v <> w -> s_hs s v = Some hv -> h_phase hv = PLive -> False) ->
  inv_fixed (set_h (alloc s (toc', [])) w (Some (mkH PLive (s_next s) LEx 2 true (s_next s) toc' 0 false false))).
Proof.
  intros I E Alone. destruct I as [Hd Hs [Hf1 Hf2] Hl Hp]. split; cbn.
  - apply dom_set_some; cbn; [eapply Hd; eauto|]. now apply dom_alloc.
  - apply sound_fresh_ino; [assumption|]. cbn. intros v hv Hvw Hv. pose proof (Hf2 v hv Hv). lia.
  - split; [lia|]. intros v hv Hv. apply upd_cases in Hv.
    destruct Hv as [[_ X]|[_ Hv]]; [inversion X; subst; cbn; lia|]. pose proof (Hf2 v hv Hv). lia.
  - intros v hv Hv Pv. apply upd_cases in Hv.
    destruct Hv as [[_ X]|[Hne Hv]].
    + inversion X; subst hv; cbn. rewrite upd_same. repeat split; auto.
    + exfalso. eapply Alone; eauto.
  - intros v hv c' Hv Pv. apply upd_cases in Hv.
    destruct Hv as [[_ X]|[Hne Hv]]; [inversion X; subst hv; discriminate|eauto].
Qed.

Lemma inv_fixed_go_live s w h0 h c :
  inv_fixed s -> s_hs s w = Some h0 -> others_hold s w (h_lock_ino h) = false ->
  h_lock_ino h = s_dir s -> h_file_ino h = s_dir s -> h_lock_mode h = LEx -> h_phase h = PFd c ->
  inv_fixed (go_live true s w h).
Proof.
  intros I Hw0 Ho Hi Hfi Hm Hph.
  pose proof (fixed_no_other_live s w _ I Ho Hi) as Alone.
  assert (Snd : forall fds sh toc wp d d2, lock_sound (upd (s_hs s) w (Some (mkH PLive (s_dir s) LEx fds sh (s_dir s) toc wp d d2)))).
  { intros. apply (sound_grant s w (s_dir s)); [apply I | apply I | rewrite <- Hi; exact Ho | reflexivity]. }
  unfold go_live. rewrite Hfi, Hi, Hph. destruct (s_files s (s_dir s)) as [cc l] eqn:EF.
  destruct c; [eapply inv_fixed_update_live; eauto|].
  destruct l; [eapply inv_fixed_update_live; eauto|].
  eapply inv_fixed_move_to_fresh; eauto.
Qed.

Lemma inv_fixed_open_lock s w : inv_fixed s -> inv_fixed (open_lock_fixed s w).
Proof.
  intros I. unfold open_lock_fixed.
  destruct (s_hs s w) as [h|] eqn:E; [|assumption].
  destruct (h_phase h) as [c|] eqn:P; [|assumption].
  destruct (try_lock_ex s w h) as [h'|] eqn:T; [|assumption].
  apply try_lock_ex_some in T. destruct T as (Ho & Hi & Hm & Hp & Hfd & Hsh & Hfi).
  destruct (N.eqb_spec (h_lock_ino h') (s_dir s)) as [Hd|Hd].
  - eapply inv_fixed_go_live; eauto.
    + now rewrite Hi.
    + rewrite Hfi, (if_pend _ I w h c E P). congruence.
    + rewrite Hp. exact P.
  - eapply inv_fixed_add_pending; cbn; eauto.
    + eapply (if_dom _ I); eauto.
    + apply I.
Qed.

Lemma inv_fixed_give_up s w : inv_fixed s -> inv_fixed (give_up s w).
Proof.
  intros H. unfold give_up. destruct (s_hs s w) as [h|]; [|assumption].
  destruct (h_phase h); [apply (inv_fixed_kill s w H)|assumption].
Qed.

Lemma inv_fixed_put s w t : inv_fixed s -> inv_fixed (put s w t).
Proof.
  intros I. unfold put. destruct (s_hs s w) as [h|] eqn:E; [|assumption].
  destruct (h_phase h) eqn:P; [assumption|].
  destruct (if_live _ I w h E P) as (Hm & Hino & Hfi & Htoc & Hwp).
  rewrite Hfi, Hino. destruct (s_files s (s_dir s)) as [c l] eqn:EF. cbn in Htoc, Hwp.
  eapply inv_fixed_update_live; eauto.
  - eapply fixed_live_alone; eauto.
  - eapply sound_set_keep with (h := h); cbn; eauto; try apply I; try (left; congruence).
  - cbn. rewrite Hwp, firstn_all, app_length. cbn. lia.
Qed.

Lemma inv_fixed_commit s w : inv_fixed s -> inv_fixed (commit_fixed s w).
Proof.
  intros I. unfold commit_fixed. destruct (s_hs s w) as [h|] eqn:E; [|assumption].
  destruct (h_phase h) eqn:P; [assumption|].
  destruct (s_files s (h_file_ino h)) as [c l].
  assert (G : inv_fixed (set_h (alloc s (h_toc h ++ frames_of l, [])) w
                 (Some (mkH PLive (s_next s) LEx 2 true (s_next s) (h_toc h ++ frames_of l) 0 false false)))).
  { eapply inv_fixed_move_to_fresh; eauto. eapply fixed_live_alone; eauto. }
  destruct l; [destruct (h_dirty h || h_tpend h)|]; auto.
Qed.

Lemma inv_fixed_drop s w : inv_fixed s -> inv_fixed (drop_with commit_fixed s w).
Proof.
  intros H. unfold drop_with. destruct (s_hs s w) as [h|]; [|assumption].
  destruct (h_phase h); [now apply inv_fixed_kill|].
  apply inv_fixed_kill. destruct (h_dirty h); [now apply inv_fixed_commit|assumption].
Qed.

Lemma inv_fixed_mark_dirty s w : inv_fixed s -> inv_fixed (mark_dirty s w).
Proof.
  intros I. unfold mark_dirty. destruct (s_hs s w) as [h|] eqn:E; [|assumption].
  destruct I as [Hd Hs [Hf1 Hf2] Hl Hp]. split; cbn.
  - apply dom_set_some; [eapply Hd; eauto|assumption].
  - eapply sound_set_keep with (h := h); cbn; eauto.
  - split; [assumption|]. intros v hv Hv. apply upd_cases in Hv.
    destruct Hv as [[_ X]|[_ Hv]]; [inversion X; subst; cbn; eauto|eauto].
  - intros v hv Hv Pv. apply upd_cases in Hv.
    destruct Hv as [[_ X]|[_ Hv]]; [inversion X; subst hv; cbn in *; eauto|eauto].
  - intros v hv c Hv Pv. apply upd_cases in Hv.
    destruct Hv as [[_ X]|[_ Hv]]; [inversion X; subst hv; cbn in *; eauto|eauto].
Qed.

Lemma inv_fixed_open_all c s w : inv_fixed s -> inv_fixed (open_all open_lock_fixed false c s w).
Proof.
  intros H. unfold open_all. destruct (s_hs s w); [assumption|].
  apply inv_fixed_give_up, inv_fixed_open_lock, inv_fixed_open_fd, H.
Qed.

Lemma inv_fixed_try_open s w : inv_fixed s -> inv_fixed (try_open_with open_lock_fixed s w).
Proof.
  intros H. unfold try_open_with. destruct (s_hs s w); [assumption|].
  apply inv_fixed_give_up, inv_fixed_open_lock.
  eapply inv_fixed_add_pending; cbn; eauto.
  - now apply inv_fixed_add_dom.
  - apply H.
Qed.

Lemma inv_fixed_step s o : inv_fixed s -> inv_fixed (step_fixed s o).
Proof.
  intros H. destruct o; cbn.
  - now apply inv_fixed_open_fd.
  - now apply inv_fixed_open_fd.
  - now apply inv_fixed_open_lock.
  - now apply inv_fixed_give_up.
  - now apply inv_fixed_open_all.
  - now apply inv_fixed_open_all.
  - now apply inv_fixed_try_open.
  - now apply inv_fixed_put.
  - now apply inv_fixed_commit.
  - unfold vacuum_with. now apply inv_fixed_commit.
  - now apply inv_fixed_drop.
  - now apply inv_fixed_kill.
  - destruct (s_hs s w); [assumption|].
    apply inv_fixed_drop, inv_fixed_mark_dirty, inv_fixed_try_open, H.
  - exact H.
  - unfold set_dirty_live. destruct (is_live s w); [now apply inv_fixed_mark_dirty|assumption].
Qed.

Lemma inv_fixed_run ops : inv_fixed (run_fixed ops).
Proof. apply (fold_inv step_fixed inv_fixed_step). apply inv_fixed_init. Qed.

(* THE invariant: at most one live writable handle, over all interleavings *)
Theorem fixed_one_writer ops : one_writer (run_fixed ops).
Proof.
  intros w1 w2 [h1 [H1 P1]] [h2 [H2 P2]].
  destruct (N.eq_dec w1 w2) as [|Hne]; [assumption|exfalso].
  eapply (fixed_live_alone _ w1 h1 (inv_fixed_run ops) H1 P1 w2 h2); eauto.
Qed.

(* the live writer's lock is on the inode the path names and its view is that file's content *)
Theorem fixed_writer_coherent ops w h :
  s_hs (run_fixed ops) w = Some h -> h_phase h = PLive ->
  let s := run_fixed ops in
  h_lock_mode h = LEx /\ h_lock_ino h = s_dir s /\ h_file_ino h = s_dir s /\
  h_toc h = fst (s_files s (s_dir s)) /\ h_wpos h = length (snd (s_files s (s_dir s))).
Proof. intros Hw P. exact (if_live _ (inv_fixed_run ops) w h Hw P). Qed.

Theorem fixed_never_stale ops : stale (run_fixed ops) = false.
Proof.
  unfold stale. destruct (existsb _ _) eqn:E; [|reflexivity]. exfalso.
  apply existsb_exists in E. destruct E as [w [_ Hw]].
  destruct (s_hs (run_fixed ops) w) as [h|] eqn:Eh; [|discriminate].
  unfold stale_handle in Hw. destruct (h_phase h) eqn:P; [discriminate|].
  destruct (if_live _ (inv_fixed_run ops) w h Eh P) as (_ & Hino & _).
  rewrite Hino, N.eqb_refl in Hw. discriminate.
Qed.

(* in the correct protocol a commit (and hence vacuum / drop) keeps every frame the path's file
   held -- committed or logged, by whichever earlier handle -- and a put appends exactly one *)
Theorem fixed_commit_keeps_frames ops w :
  path_frames (commit_fixed (run_fixed ops) w) = path_frames (run_fixed ops).
Proof.
  pose proof (inv_fixed_run ops) as I. set (s := run_fixed ops) in *.
  unfold commit_fixed. destruct (s_hs s w) as [h|] eqn:E; [|reflexivity].
  destruct (h_phase h) eqn:P; [reflexivity|].
  destruct (if_live _ I w h E P) as (Hm & Hino & Hfi & Htoc & Hwp).
  rewrite Hfi. unfold path_frames at 2. destruct (s_files s (s_dir s)) as [c l] eqn:EF. cbn in Htoc.
  assert (G : path_frames (set_h (alloc s (h_toc h ++ frames_of l, [])) w
                 (Some (mkH PLive (s_next s) LEx 2 true (s_next s) (h_toc h ++ frames_of l) 0 false false))) = c ++ frames_of l).
  { unfold path_frames. cbn. rewrite upd_same. cbn. rewrite app_nil_r. now rewrite Htoc. }
  destruct l; [destruct (h_dirty h || h_tpend h)|]; auto.
  unfold path_frames. now rewrite EF.
Qed.

Theorem fixed_put_appends ops w t :
  is_live (run_fixed ops) w = true ->
  path_frames (put (run_fixed ops) w t) = path_frames (run_fixed ops) ++ frames_of [t].
Proof.
  pose proof (inv_fixed_run ops) as I. set (s := run_fixed ops) in *.
  intros L. apply is_live_writable in L. destruct L as [h [E P]].
  unfold put. rewrite E, P.
  destruct (if_live _ I w h E P) as (Hm & Hino & Hfi & Htoc & Hwp).
  rewrite Hfi. unfold path_frames at 2. destruct (s_files s (s_dir s)) as [c l] eqn:EF. cbn in Hwp.
  unfold path_frames. cbn. rewrite upd_same, Hwp, firstn_all.
  unfold frames_of. rewrite filter_app. now rewrite app_assoc.
Qed.

(* ---- the "silently lost commit" consequence, on the implementation model ---- *)
(* A opens, commits; B opens successfully; A puts 2, commits; B puts 3, commits *)
Definition witness_lost_commit : list op :=
  [Open 0; Put 0 1; Commit 0; Open 1; Put 0 2; Commit 0; Put 1 3; Commit 1].

Theorem impl_commit_lost :
  is_live (run_impl (firstn 4 witness_lost_commit)) 1 = true /\        (* B's open succeeded while A lives *)
  path_frames (run_impl (firstn 6 witness_lost_commit)) = [1; 2] /\    (* A's commit of frame 2 acknowledged and on file *)
  path_frames (run_impl witness_lost_commit) = [1; 3] /\               (* gone after B's commit *)
  path_frames (run_impl (witness_lost_commit ++ [Drop 0; Drop 1; Open 2])) = [1; 3] /\
  path_frames (run_fixed witness_lost_commit) = [1; 2].                (* correct protocol: B never got in *)
Proof. vm_compute. repeat split. Qed.

(* one writer at a time is not enough either: an opener that WAITS in the retry loop holds a
   description of the inode the path named when it started; A commits twice and closes; the waiter
   is granted the lock on the replaced inode and its commit discards A's second commit *)
Definition witness_waiter : list op :=
  [Open 0; OpenFd 1; OpenLock 1; Put 0 1; Commit 0; Put 0 2; Commit 0; Drop 0; OpenLock 1; Put 1 3; Commit 1].

Theorem impl_waiter_loses_commit :
  path_frames (run_impl (firstn 8 witness_waiter)) = [1; 2] /\
  is_live (run_impl (firstn 9 witness_waiter)) 1 = true /\
  path_frames (run_impl witness_waiter) = [1; 3] /\
  path_frames (run_fixed (witness_waiter ++ [OpenLock 1; Put 1 3; Commit 1])) = [1; 2; 3].
Proof. vm_compute. repeat split. Qed.

(* ---- Memvid::create truncates before it asks for the lock ---- *)
Definition witness_failed_create : list op := [Open 0; Put 0 7; Put 0 8; Create 1].

Theorem impl_failed_create_destroys :
  is_live (run_impl witness_failed_create) 1 = false /\                 (* the create FAILED (lock held by 0) *)
  path_frames (run_impl (firstn 3 witness_failed_create)) = [7; 8] /\
  path_frames (run_impl witness_failed_create) = [].                    (* and emptied the file *)
Proof. vm_compute. repeat split. Qed.

(* the correct protocol: an open / create that does not go live changes no file and not the path *)
Lemma go_live_is_live fixed s w h : is_live (go_live fixed s w h) w = true.
Proof.
  unfold go_live. destruct (s_files s (h_file_ino h)) as [c l].
  destruct (h_phase h) as [[|]|]; try destruct l; try destruct fixed;
    unfold is_live; cbn; rewrite upd_same; reflexivity.
Qed.
Lemma give_up_live s w : is_live s w = true -> give_up s w = s.
Proof.
  unfold is_live, give_up. destruct (s_hs s w) as [h|]; [|discriminate].
  destruct (h_phase h); [discriminate|reflexivity].
Qed.

Theorem fixed_failed_open_changes_nothing s w (creating : bool) :
  let s' := open_all open_lock_fixed false creating s w in
  s_hs s w = None -> is_live s' w = false ->
  s_dir s' = s_dir s /\ forall i, s_files s' i = s_files s i.
Proof.
  intros s' Hn L. subst s'. unfold open_all in *. rewrite Hn in *.
  unfold open_fd in *. rewrite Hn in *.
  set (s1 := set_h (add_dom s w) w (Some (fresh_handle s creating))) in *.
  assert (E1 : s_hs s1 w = Some (fresh_handle s creating)) by (cbn; apply upd_same).
  unfold open_lock_fixed in *. rewrite E1 in *. cbn [fresh_handle h_phase] in *.
  destruct (try_lock_ex s1 w (fresh_handle s creating)) as [h'|] eqn:T.
  - apply try_lock_ex_some in T. destruct T as (_ & Hi & Hm & Hp & _ & _ & Hfi). cbn in Hi.
    replace (s_dir s1) with (s_dir s) in * by reflexivity.
    rewrite Hi, N.eqb_refl in *.
    (* it went live: contradiction with L *)
    exfalso. rewrite give_up_live in L by apply go_live_is_live.
    rewrite go_live_is_live in L. discriminate.
  - unfold give_up. rewrite E1. cbn. split; reflexivity.
Qed.
