(* Proofs about Model/Acl.v.  Everything holds for every pair of JSON parsers
   (json_str, json_arr), every frame table, every hit payload type. *)
From MV Require Import Base.Prelude Base.Facts Model.Acl.
Require Import ZifyBool ZifyNat ZifyN.
Local Open Scope N_scope.
Set Warnings "-unused-intro-pattern".

(* ------------------------------------------------------------------ strings *)
Lemma str_eqb_spec a b : str_eqb a b = true <-> a = b.
Proof. apply list_eqb_spec. intros; apply N.eqb_eq. Qed.

Lemma str_eqb_refl a : str_eqb a a = true.
Proof. apply str_eqb_spec; reflexivity. Qed.

Lemma str_eqb_false a b : str_eqb a b = false <-> a <> b.
Proof.
  split.
  - intros H E. apply str_eqb_spec in E. congruence.
  - intros H. destruct (str_eqb a b) eqn:E; [apply str_eqb_spec in E; contradiction | reflexivity].
Qed.

Lemma str_mem_spec x l : str_mem x l = true <-> In x l.
Proof.
  unfold str_mem. rewrite existsb_exists. split.
  - intros [y [Hy E]]. apply str_eqb_spec in E. subst; exact Hy.
  - intros H. exists x. split; [exact H | apply str_eqb_refl].
Qed.

Lemma is_nil_true {A} (l : list A) : is_nil l = true <-> l = [].
Proof. destruct l; cbn; split; congruence. Qed.
Lemma is_nil_false {A} (l : list A) : is_nil l = false <-> l <> [].
Proof. destruct l; cbn; split; congruence. Qed.

(* trim_start removes exactly the longest whitespace prefix *)
Lemma trim_start_spec s :
  exists a, s = a ++ trim_start s /\ forallb is_ws a = true /\
            match trim_start s with [] => True | c :: _ => is_ws c = false end.
Proof.
  induction s as [|c r IH]; cbn [trim_start].
  - exists []. repeat split.
  - destruct (is_ws c) eqn:E.
    + destruct IH as [a [H1 [H2 H3]]]. exists (c :: a). cbn [app forallb]. rewrite E, H2.
      repeat split; [f_equal; exact H1 | exact H3].
    + exists []. cbn. repeat split. exact E.
Qed.

Lemma trim_start_fix s :
  match s with [] => True | c :: _ => is_ws c = false end -> trim_start s = s.
Proof. destruct s as [|c r]; cbn; [reflexivity|]. intros ->. reflexivity. Qed.

Lemma trim_start_all_ws s : forallb is_ws s = true -> trim_start s = [].
Proof.
  induction s as [|c r IH]; cbn [forallb trim_start]; [reflexivity|].
  intros H. apply andb_true_iff in H as [-> H]. auto.
Qed.

Lemma trim_start_app_nonws a c r : is_ws c = false -> forallb is_ws a = true -> trim_start (a ++ c :: r) = c :: r.
Proof.
  intros Hc. induction a as [|x a IH]; cbn [app forallb trim_start].
  - intros _. rewrite Hc. reflexivity.
  - intros H. apply andb_true_iff in H as [-> H]. auto.
Qed.

Lemma forallb_rev {A} (f : A -> bool) l : forallb f (rev l) = forallb f l.
Proof.
  induction l as [|x l IH]; cbn [rev forallb]; [reflexivity|].
  rewrite forallb_app, IH. cbn. rewrite andb_true_r. apply andb_comm.
Qed.

(* trim s is the part of s between its longest whitespace prefix and suffix *)
Lemma trim_spec s :
  exists a b, s = a ++ trim s ++ b /\ forallb is_ws a = true /\ forallb is_ws b = true /\
              match trim s with [] => True | c :: _ => is_ws c = false end /\
              match rev (trim s) with [] => True | c :: _ => is_ws c = false end.
Proof.
  unfold trim, trim_end.
  destruct (trim_start_spec s) as [a [Ha [Hwa Hh]]].
  set (t := trim_start s) in *.
  destruct (trim_start_spec (rev t)) as [b [Hb [Hwb Hl]]].
  set (u := trim_start (rev t)) in *.
  exists a, (rev b). rewrite rev_involutive.
  assert (Ht : t = rev u ++ rev b).
  { rewrite <- rev_app_distr, <- Hb, rev_involutive. reflexivity. }
  split; [rewrite Ha at 1; rewrite Ht; reflexivity|].
  split; [exact Hwa|]. split; [rewrite forallb_rev; exact Hwb|].
  split; [|exact Hl].
  (* the first character of rev u is the first of t, unless u is empty *)
  destruct (rev u) as [|c r] eqn:Eru; [exact I|].
  rewrite Ht in Hh. cbn in Hh. exact Hh.
Qed.

Lemma trim_nil_iff s : trim s = [] <-> forallb is_ws s = true.
Proof.
  split.
  - intros H. destruct (trim_spec s) as [a [b [Hs [Ha [Hb _]]]]]. rewrite H in Hs. cbn in Hs.
    rewrite Hs, forallb_app, Ha, Hb. reflexivity.
  - intros H. unfold trim, trim_end. rewrite (trim_start_all_ws s H). reflexivity.
Qed.

Lemma trim_idem s : trim (trim s) = trim s.
Proof.
  destruct (trim_spec s) as [a [b [_ [_ [_ [Hh Hl]]]]]].
  set (t := trim s) in *.
  unfold trim at 1, trim_end. rewrite (trim_start_fix t Hh).
  rewrite (trim_start_fix (rev t) Hl). apply rev_involutive.
Qed.

Lemma lower_c_idem c : lower_c (lower_c c) = lower_c c.
Proof. unfold lower_c. destruct ((65 <=? c) && (c <=? 90)) eqn:E; [|rewrite E; reflexivity].
  destruct ((65 <=? c + 32) && (c + 32 <=? 90)) eqn:E2; [lia | reflexivity]. Qed.
Lemma lower_idem s : lower (lower s) = lower s.
Proof. unfold lower. rewrite map_map. apply map_ext. apply lower_c_idem. Qed.
Lemma lower_length s : length (lower s) = length s.
Proof. apply map_length. Qed.
Lemma lower_no_upper s : forallb (fun c => negb ((65 <=? c) && (c <=? 90))) (lower s) = true.
Proof.
  induction s as [|c r IH]; cbn [lower map forallb]; [reflexivity|].
  fold (lower r). rewrite IH, andb_true_r. unfold lower_c.
  destruct ((65 <=? c) && (c <=? 90)) eqn:E; [|rewrite E; reflexivity].
  destruct ((65 <=? c + 32) && (c + 32 <=? 90)) eqn:E2; [lia | reflexivity].
Qed.

Lemma filter_partition_length {A} (f : A -> bool) l :
  (length (filter f l) + length (filter (fun x => negb (f x)) l) = length l)%nat.
Proof. induction l as [|x l IH]; cbn [filter length]; [reflexivity|]. destruct (f x); cbn [negb length]; lia. Qed.

(* ------------------------------------------------------------------ the decision *)
Section Decide.
  Variable json_str : str -> option str.
  Variable json_arr : str -> option (list str).

  Notation norm := (normalize_scalar json_str).
  Notation reads := (reads_as json_str).

  Lemma normalize_scalar_spec v out : norm v = Some out <-> reads v out.
  Proof.
    unfold normalize_scalar, reads_as. destruct v as [raw|].
    - destruct (is_nil (trim raw)) eqn:En.
      + apply is_nil_true in En. split; [discriminate|].
        intros [raw' [E [Hne _]]]. inversion E; subst. contradiction.
      + apply is_nil_false in En.
        set (u := match json_str (trim raw) with Some p => trim p | None => trim raw end).
        destruct (is_nil u) eqn:Eu.
        * apply is_nil_true in Eu. split; [discriminate|].
          intros [raw' [E [_ [u' [Hu [Hne _]]]]]]. inversion E; subst raw'.
          assert (u' = u) by (unfold u; destruct (json_str (trim raw)); exact Hu). congruence.
        * apply is_nil_false in Eu. split.
          -- intros E. inversion E; subst out. exists raw. repeat split; [exact En|].
             exists u. repeat split; [unfold u; destruct (json_str (trim raw)); reflexivity | exact Eu].
          -- intros [raw' [E [_ [u' [Hu [_ Ho]]]]]]. inversion E; subst raw'.
             assert (u' = u) by (unfold u; destruct (json_str (trim raw)); exact Hu). congruence.
    - split; [discriminate|]. intros [raw [E _]]. discriminate.
  Qed.

  Lemma reads_functional v a b : reads v a -> reads v b -> a = b.
  Proof. intros Ha Hb. apply normalize_scalar_spec in Ha, Hb. congruence. Qed.

  Lemma reads_not_blank v out : reads v out -> out <> [].
  Proof.
    intros [raw [_ [_ [u [_ [Hu ->]]]]]]. destruct u; [contradiction|]. cbn. discriminate.
  Qed.

  Lemma normalize_all_spec vs l :
    normalize_all json_str vs = Some l <-> Forall2 (fun v o => reads (Some v) o) vs l.
  Proof.
    revert l; induction vs as [|v r IH]; intros l; cbn [normalize_all].
    - split; [intros E; inversion E; constructor | intros H; inversion H; reflexivity].
    - destruct (norm (Some v)) as [n|] eqn:En.
      + destruct (normalize_all json_str r) as [ns|] eqn:Er.
        * split.
          -- intros E; inversion E; subst. constructor; [apply normalize_scalar_spec; exact En | apply IH; reflexivity].
          -- intros H; inversion H as [|? o ? l' Hv Hr]; subst.
             apply normalize_scalar_spec in Hv. apply IH in Hr. congruence.
        * split; [discriminate|]. intros H; inversion H as [|? o ? l' Hv Hr]; subst.
          apply IH in Hr. discriminate.
      + split; [discriminate|]. intros H; inversion H as [|? o ? l' Hv Hr]; subst.
        apply normalize_scalar_spec in Hv. congruence.
  Qed.

  Lemma parse_acl_list_spec m key l :
    parse_acl_list json_str json_arr m key = Some l <-> allow_list json_str json_arr m key l.
  Proof.
    unfold parse_acl_list, allow_list. destruct (mget m key) as [raw|].
    - destruct (json_arr raw) as [vs|] eqn:Ea.
      + rewrite normalize_all_spec. split.
        * intros H. right. exists raw, vs. auto.
        * intros [[E _] | [raw' [vs' [E [Ea' H]]]]]; [discriminate|]. inversion E; subst. congruence.
      + split; [discriminate|]. intros [[E _] | [raw' [vs' [E [Ea' H]]]]]; [discriminate|].
        inversion E; subst. congruence.
    - split.
      + intros E; inversion E. left; auto.
      + intros [[_ ->] | [raw' [vs' [E _]]]]; [reflexivity | discriminate].
  Qed.

  Lemma parse_acl_metadata_spec m p :
    parse_acl_metadata json_str json_arr m = Some p <->
    well_formed json_str json_arr m (p_tenant p) (p_public p) (p_roles p) (p_groups p) (p_principals p).
  Proof.
    unfold parse_acl_metadata, well_formed.
    destruct (norm (mget m K_TENANT)) as [t|] eqn:Et.
    2:{ split; [discriminate|]. intros [H _]. apply normalize_scalar_spec in H. congruence. }
    destruct (norm (mget m K_VISIBILITY)) as [v|] eqn:Ev.
    2:{ split; [discriminate|]. intros [_ [[v [H _]] _]]. apply normalize_scalar_spec in H. congruence. }
    assert (Hvis : forall pub, (if str_eqb v S_PUBLIC then Some true else if str_eqb v S_RESTRICTED then Some false else None) = Some pub
                   <-> ((v = S_PUBLIC /\ pub = true) \/ (v = S_RESTRICTED /\ pub = false))).
    { intros pub. destruct (str_eqb v S_PUBLIC) eqn:E1.
      - apply str_eqb_spec in E1. subst v. split.
        + intros E; inversion E. left; auto.
        + intros [[_ ->] | [E _]]; [reflexivity | discriminate].
      - apply str_eqb_false in E1. destruct (str_eqb v S_RESTRICTED) eqn:E2.
        + apply str_eqb_spec in E2. subst v. split.
          * intros E; inversion E. right; auto.
          * intros [[E _] | [_ ->]]; [discriminate | reflexivity].
        + apply str_eqb_false in E2. split; [discriminate|]. intros [[E _] | [E _]]; contradiction. }
    destruct (if str_eqb v S_PUBLIC then Some true else if str_eqb v S_RESTRICTED then Some false else None) as [pub|] eqn:Evis.
    2:{ split; [discriminate|]. intros [_ [[v' [Hv Hc]] _]]. apply normalize_scalar_spec in Hv.
        assert (v' = v) by congruence. subst v'. apply Hvis in Hc. discriminate. }
    destruct (parse_acl_list json_str json_arr m K_ROLES) as [ro|] eqn:Ero.
    2:{ split; [discriminate|]. intros [_ [_ [H _]]]. apply parse_acl_list_spec in H. congruence. }
    destruct (parse_acl_list json_str json_arr m K_GROUPS) as [gr|] eqn:Egr.
    2:{ split; [discriminate|]. intros [_ [_ [_ [H _]]]]. apply parse_acl_list_spec in H. congruence. }
    destruct (parse_acl_list json_str json_arr m K_PRINCIPALS) as [pr|] eqn:Epr.
    2:{ split; [discriminate|]. intros [_ [_ [_ [_ H]]]]. apply parse_acl_list_spec in H. congruence. }
    split.
    - intros E; inversion E; subst p; cbn.
      split; [apply normalize_scalar_spec; exact Et|].
      split; [exists v; split; [apply normalize_scalar_spec; exact Ev | apply Hvis; reflexivity]|].
      repeat split; apply parse_acl_list_spec; assumption.
    - intros [Ht [[v' [Hv Hc]] [Hro [Hgr Hpr]]]].
      apply normalize_scalar_spec in Ht, Hv. apply parse_acl_list_spec in Hro, Hgr, Hpr.
      assert (v' = v) by congruence. subst v'. apply Hvis in Hc.
      destruct p as [pt pp pro pgr ppr]; cbn in *. congruence.
  Qed.

  Lemma well_formed_functional m t pub ro gr pr t' pub' ro' gr' pr' :
    well_formed json_str json_arr m t pub ro gr pr -> well_formed json_str json_arr m t' pub' ro' gr' pr' ->
    t = t' /\ pub = pub' /\ ro = ro' /\ gr = gr' /\ pr = pr'.
  Proof.
    intros H1 H2.
    apply (parse_acl_metadata_spec m (mkParsed t pub ro gr pr)) in H1.
    apply (parse_acl_metadata_spec m (mkParsed t' pub' ro' gr' pr')) in H2.
    rewrite H1 in H2. inversion H2. auto.
  Qed.

  Lemma parse_none_bad m : parse_acl_metadata json_str json_arr m = None <-> bad_metadata json_str json_arr m.
  Proof.
    unfold bad_metadata. split.
    - intros E t pub ro gr pr H. apply (parse_acl_metadata_spec m (mkParsed t pub ro gr pr)) in H. congruence.
    - intros H. destruct (parse_acl_metadata json_str json_arr m) as [p|] eqn:E; [|reflexivity].
      apply parse_acl_metadata_spec in E. exfalso. eapply H. exact E.
  Qed.

  (* normalize_some keeps exactly the readings of the readable entries *)
  Lemma normalize_some_In l r :
    In r (normalize_some json_str l) <-> exists x, In x l /\ reads (Some x) r.
  Proof.
    induction l as [|y l IH]; cbn [normalize_some].
    - split; [contradiction | intros [x [[] _]]].
    - destruct (norm (Some y)) as [n|] eqn:En.
      + cbn [In]. rewrite IH. split.
        * intros [<- | [x [Hx Hr]]]; [exists y; split; [left; reflexivity | apply normalize_scalar_spec; exact En] | exists x; split; [right; exact Hx | exact Hr]].
        * intros [x [[<- | Hx] Hr]]; [left; apply normalize_scalar_spec in Hr; congruence | right; exists x; auto].
      + rewrite IH. split.
        * intros [x [Hx Hr]]. exists x; split; [right; exact Hx | exact Hr].
        * intros [x [[<- | Hx] Hr]]; [apply normalize_scalar_spec in Hr; congruence | exists x; auto].
  Qed.

  Lemma normalize_context_spec c n :
    normalize_acl_context json_str (Some c) = Some n <->
    reads (c_tenant c) (n_tenant n) /\
    n_subject n = (match c_subject c with None => None | Some v => norm (Some v) end) /\
    n_roles n = normalize_some json_str (c_roles c) /\
    n_groups n = normalize_some json_str (c_groups c).
  Proof.
    unfold normalize_acl_context. destruct (norm (c_tenant c)) as [t|] eqn:Et.
    - split.
      + intros E; inversion E; subst n; cbn. repeat split. apply normalize_scalar_spec; exact Et.
      + intros [Ht [Hs [Hr Hg]]]. apply normalize_scalar_spec in Ht.
        destruct n as [nt ns nr ng]; cbn in *. congruence.
    - split; [discriminate|]. intros [Ht _]. apply normalize_scalar_spec in Ht. congruence.
  Qed.

  Lemma normalize_context_none c :
    normalize_acl_context json_str (Some c) = None <-> ~ has_tenant json_str c.
  Proof.
    unfold normalize_acl_context, has_tenant. destruct (norm (c_tenant c)) as [t|] eqn:Et.
    - split; [discriminate|]. intros H. exfalso. apply H. exists t. apply normalize_scalar_spec; exact Et.
    - split; [|reflexivity]. intros _ [t Ht]. apply normalize_scalar_spec in Ht. congruence.
  Qed.

  (* the three boolean tests of evaluate_acl_metadata = credential_match *)
  Lemma credential_tests_spec c n p :
    normalize_acl_context json_str (Some c) = Some n ->
    ((match n_subject n with Some s => str_mem s (p_principals p) | None => false end)
     || existsb (fun role => str_mem role (p_roles p)) (n_roles n)
     || existsb (fun g => str_mem g (p_groups p)) (n_groups n)) = true
    <-> credential_match json_str c (p_roles p) (p_groups p) (p_principals p).
  Proof.
    intros Hn. apply normalize_context_spec in Hn as [_ [Hs [Hr Hg]]].
    unfold credential_match. rewrite !orb_true_iff, !existsb_exists. split.
    - intros [[H | [r [Hin Hm]]] | [g [Hin Hm]]].
      + left. rewrite Hs in H. destruct (c_subject c) as [x|]; [|discriminate].
        destruct (norm (Some x)) as [s|] eqn:Ex; [|discriminate].
        exists x, s. repeat split; [apply normalize_scalar_spec; exact Ex | apply str_mem_spec; exact H].
      + right; left. rewrite Hr in Hin. apply normalize_some_In in Hin as [x [Hx Hrd]].
        exists x, r. repeat split; auto. apply str_mem_spec; exact Hm.
      + right; right. rewrite Hg in Hin. apply normalize_some_In in Hin as [x [Hx Hrd]].
        exists x, g. repeat split; auto. apply str_mem_spec; exact Hm.
    - intros [[x [s [Hx [Hrd Hin]]]] | [[x [r [Hx [Hrd Hin]]]] | [x [g [Hx [Hrd Hin]]]]]].
      + left; left. rewrite Hs, Hx. apply normalize_scalar_spec in Hrd. rewrite Hrd. apply str_mem_spec; exact Hin.
      + left; right. exists r. split; [rewrite Hr; apply normalize_some_In; exists x; auto | apply str_mem_spec; exact Hin].
      + right. exists g. split; [rewrite Hg; apply normalize_some_In; exists x; auto | apply str_mem_spec; exact Hin].
  Qed.

  (* ---- the decision, case by case ---- *)
  Inductive decision_case (m : meta) (c : acl_context) : decision -> Prop :=
  | DC_allow : grants json_str json_arr m c -> decision_case m c dec_allow
  | DC_cross : other_tenant json_str json_arr m c -> decision_case m c dec_cross
  | DC_restricted : restricted_no_match json_str json_arr m c -> decision_case m c dec_restricted
  | DC_missing : bad_metadata json_str json_arr m -> decision_case m c dec_missing.

  Lemma evaluate_cases m c n :
    normalize_acl_context json_str (Some c) = Some n ->
    decision_case m c (evaluate_acl_metadata json_str json_arr m (Some n)).
  Proof.
    intros Hn. pose proof Hn as Hn'. apply normalize_context_spec in Hn' as [Ht _].
    unfold evaluate_acl_metadata.
    destruct (parse_acl_metadata json_str json_arr m) as [p|] eqn:Ep.
    2:{ apply DC_missing. apply parse_none_bad; exact Ep. }
    apply parse_acl_metadata_spec in Ep.
    destruct (str_eqb (p_tenant p) (n_tenant n)) eqn:Eten; cbn [negb].
    2:{ apply DC_cross. apply str_eqb_false in Eten.
        exists (p_tenant p), (n_tenant n), (p_public p), (p_roles p), (p_groups p), (p_principals p). auto. }
    apply str_eqb_spec in Eten.
    destruct (p_public p) eqn:Epub.
    { apply DC_allow. exists (p_tenant p), true, (p_roles p), (p_groups p), (p_principals p).
      split; [exact Ep|]. split; [rewrite Eten; exact Ht | left; reflexivity]. }
    pose proof (credential_tests_spec c n p Hn) as Hcred.
    match goal with |- decision_case _ _ (if ?b then _ else _) => destruct b eqn:Eb end.
    - apply DC_allow. exists (p_tenant p), false, (p_roles p), (p_groups p), (p_principals p).
      split; [exact Ep|]. split; [rewrite Eten; exact Ht | right; apply Hcred; reflexivity].
    - apply DC_restricted. exists (p_tenant p), (p_roles p), (p_groups p), (p_principals p).
      split; [exact Ep|]. split; [rewrite Eten; exact Ht|].
      intros Hc. apply Hcred in Hc. congruence.
  Qed.

  (* the four classes are mutually exclusive *)
  Lemma grants_not_other m c : grants json_str json_arr m c -> ~ other_tenant json_str json_arr m c.
  Proof.
    intros [t [pub [ro [gr [pr [Hw [Ht _]]]]]]] [t1 [t2 [pub' [ro' [gr' [pr' [Hw' [Ht' Hne]]]]]]]].
    destruct (well_formed_functional _ _ _ _ _ _ _ _ _ _ _ Hw Hw') as [-> _].
    apply Hne. eapply reads_functional; eassumption.
  Qed.
  Lemma grants_not_restricted m c : grants json_str json_arr m c -> ~ restricted_no_match json_str json_arr m c.
  Proof.
    intros [t [pub [ro [gr [pr [Hw [Ht Hor]]]]]]] [t' [ro' [gr' [pr' [Hw' [Ht' Hno]]]]]].
    destruct (well_formed_functional _ _ _ _ _ _ _ _ _ _ _ Hw Hw') as [-> [-> [-> [-> ->]]]].
    destruct Hor as [E | Hc]; [discriminate | contradiction].
  Qed.
  Lemma grants_not_bad m c : grants json_str json_arr m c -> ~ bad_metadata json_str json_arr m.
  Proof. intros [t [pub [ro [gr [pr [Hw _]]]]]] Hb. eapply Hb; exact Hw. Qed.
  Lemma other_not_restricted m c : other_tenant json_str json_arr m c -> ~ restricted_no_match json_str json_arr m c.
  Proof.
    intros [t1 [t2 [pub' [ro' [gr' [pr' [Hw' [Ht' Hne]]]]]]]] [t [ro [gr [pr [Hw [Ht _]]]]]].
    destruct (well_formed_functional _ _ _ _ _ _ _ _ _ _ _ Hw Hw') as [-> _].
    apply Hne. eapply reads_functional; eassumption.
  Qed.
  Lemma other_not_bad m c : other_tenant json_str json_arr m c -> ~ bad_metadata json_str json_arr m.
  Proof. intros [t1 [t2 [pub' [ro' [gr' [pr' [Hw' _]]]]]]] Hb. eapply Hb; exact Hw'. Qed.
  Lemma restricted_not_bad m c : restricted_no_match json_str json_arr m c -> ~ bad_metadata json_str json_arr m.
  Proof. intros [t [ro [gr [pr [Hw _]]]]] Hb. eapply Hb; exact Hw. Qed.

  Ltac solve_dec :=
    repeat match goal with |- _ /\ _ => split end;
    (let Hx := fresh "Hx" in
     split; intro Hx;
     try discriminate;
     try (destruct Hx as [? [? ?]]; discriminate);
     try reflexivity;
     try (repeat split; reflexivity);
     try tauto;
     try (exfalso; tauto)).

  (* THE DECISION THEOREM: through the hook, for every metadata map and context *)
  Theorem acl_decide_spec m c :
    (acl_decide json_str json_arr m c = None <-> ~ has_tenant json_str c) /\
    (forall a x y, acl_decide json_str json_arr m c = Some (a, x, y) ->
       (a = true <-> grants json_str json_arr m c) /\
       (x = true <-> other_tenant json_str json_arr m c) /\
       (y = true <-> bad_metadata json_str json_arr m) /\
       (a = false /\ x = false /\ y = false <-> restricted_no_match json_str json_arr m c) /\
       (a = false <-> other_tenant json_str json_arr m c \/ restricted_no_match json_str json_arr m c
                      \/ bad_metadata json_str json_arr m)).
  Proof.
    unfold acl_decide. destruct (normalize_acl_context json_str (Some c)) as [n|] eqn:En.
    - split.
      + split; [discriminate|]. intros H. exfalso. apply normalize_context_none in H. congruence.
      + intros a x y E.
        pose proof (evaluate_cases m c n En) as Hc.
        remember (evaluate_acl_metadata json_str json_arr m (Some n)) as d eqn:Ed. clear Ed.
        inversion E; subst a x y; clear E.
        destruct Hc as [Hg | Ho | Hr | Hb]; cbn.
        * pose proof (grants_not_other _ _ Hg). pose proof (grants_not_restricted _ _ Hg). pose proof (grants_not_bad _ _ Hg).
          solve_dec.
        * pose proof (grants_not_other m c). pose proof (other_not_restricted _ _ Ho). pose proof (other_not_bad _ _ Ho).
          solve_dec.
        * pose proof (grants_not_restricted m c). pose proof (other_not_restricted m c). pose proof (restricted_not_bad _ _ Hr).
          solve_dec.
        * pose proof (grants_not_bad m c). pose proof (other_not_bad m c). pose proof (restricted_not_bad m c).
          solve_dec.
    - split.
      + split; [intros _; apply normalize_context_none; exact En | reflexivity].
      + intros a x y E; discriminate.
  Qed.

  Corollary decide_allow_iff m c n :
    normalize_acl_context json_str (Some c) = Some n ->
    (d_allowed (evaluate_acl_metadata json_str json_arr m (Some n)) = true <-> grants json_str json_arr m c).
  Proof.
    intros Hn. pose proof (acl_decide_spec m c) as [_ H].
    unfold acl_decide in H. rewrite Hn in H. specialize (H _ _ _ eq_refl). tauto.
  Qed.

  (* ------------------------------------------------------------------ apply_acl *)
  Section Hits.
    Variable P : Type.
    Variable frame_meta : N -> option meta.
    Notation hit := (hit P).

    Notation readable := (readable json_str json_arr frame_meta).

    Definition hit_allowed (n : norm_context) (h : hit) : bool :=
      d_allowed (decide_hit json_str json_arr P frame_meta (Some n) h).

    Lemma hit_allowed_spec c n h :
      normalize_acl_context json_str (Some c) = Some n ->
      (hit_allowed n h = true <-> readable c (h_frame h)).
    Proof.
      intros Hn. unfold hit_allowed, decide_hit, Acl.readable.
      destruct (frame_meta (h_frame h)) as [m|].
      - rewrite (decide_allow_iff m c n Hn). split.
        + intros H. exists m. auto.
        + intros [m' [E H]]. inversion E; subst; exact H.
      - cbn. split; [discriminate | intros [m' [E _]]; discriminate].
    Qed.

    Lemma filter_loop_enforce n hits st :
      fst (filter_loop json_str json_arr P frame_meta (Some n) Enforce hits st) = filter (hit_allowed n) hits.
    Proof.
      revert st; induction hits as [|h r IH]; intros st; cbn [filter_loop filter]; [reflexivity|].
      specialize (IH (record_stat st (decide_hit json_str json_arr P frame_meta (Some n) h))).
      destruct (filter_loop json_str json_arr P frame_meta (Some n) Enforce r _) as [fr stf] eqn:E.
      cbn [fst] in IH. fold (hit_allowed n h). rewrite orb_false_r.
      destruct (hit_allowed n h); cbn [fst]; rewrite IH; reflexivity.
    Qed.

    Lemma filter_loop_audit n hits st :
      fst (filter_loop json_str json_arr P frame_meta n Audit hits st) = hits.
    Proof.
      revert st; induction hits as [|h r IH]; intros st; cbn [filter_loop]; [reflexivity|].
      specialize (IH (record_stat st (decide_hit json_str json_arr P frame_meta n h))).
      destruct (filter_loop json_str json_arr P frame_meta n Audit r _) as [fr stf] eqn:E.
      cbn [fst] in IH. rewrite orb_true_r. cbn [fst]. rewrite IH. reflexivity.
    Qed.

    (* the statistics count every hit once: allowed + denied = number of hits *)
    Lemma filter_loop_stats n mode hits st :
      let st' := snd (filter_loop json_str json_arr P frame_meta (Some n) mode hits st) in
      st_allowed st' = st_allowed st + N.of_nat (length (filter (hit_allowed n) hits)) /\
      st_denied st' = st_denied st + N.of_nat (length (filter (fun h => negb (hit_allowed n h)) hits)).
    Proof.
      revert st; induction hits as [|h r IH]; intros st; cbn [filter_loop filter length snd].
      - cbn. lia.
      - specialize (IH (record_stat st (decide_hit json_str json_arr P frame_meta (Some n) h))).
        destruct (filter_loop json_str json_arr P frame_meta (Some n) mode r _) as [fr stf] eqn:E.
        cbn [snd] in IH. destruct IH as [IH1 IH2].
        fold (hit_allowed n h). unfold record_stat in IH1, IH2. fold (hit_allowed n h) in IH1, IH2.
        destruct (hit_allowed n h) eqn:Ea; cbn [negb];
          destruct (_ || _); cbn [snd length st_allowed st_denied] in *; lia.
    Qed.

    Lemma rerank_from_frames i (l : list hit) :
      map (fun h => (h_frame h, h_body h)) (rerank_from P i l) = map (fun h => (h_frame h, h_body h)) l.
    Proof. revert i; induction l as [|h r IH]; intros i; cbn [rerank_from map]; [reflexivity|]. rewrite IH; reflexivity. Qed.

    Lemma rerank_from_length i (l : list hit) : length (rerank_from P i l) = length l.
    Proof. revert i; induction l as [|h r IH]; intros i; cbn [rerank_from length]; [reflexivity|]. rewrite IH; reflexivity. Qed.

    Lemma rerank_from_rank i (l : list hit) k h :
      nth_error (rerank_from P i l) k = Some h -> h_rank h = i + N.of_nat k + 1.
    Proof.
      revert i k; induction l as [|x r IH]; intros i k; cbn [rerank_from].
      - destruct k; discriminate.
      - destruct k as [|k]; cbn [nth_error].
        + intros E; inversion E; cbn. lia.
        + intros E. apply IH in E. lia.
    Qed.

    Lemma rerank_from_frame_ids i (l : list hit) : map (@h_frame P) (rerank_from P i l) = map (@h_frame P) l.
    Proof. revert i; induction l as [|h r IH]; intros i; cbn [rerank_from map]; [reflexivity|]. rewrite IH; reflexivity. Qed.

    Notation apply := (apply_acl json_str json_arr P frame_meta).

    (* Enforce: the error cases, exactly *)
    Lemma apply_enforce_none hits : apply hits None Enforce = Err E_CTX_REQUIRED.
    Proof. reflexivity. Qed.

    Lemma apply_enforce_no_tenant hits c :
      ~ has_tenant json_str c -> apply hits (Some c) Enforce = Err E_TENANT_REQUIRED.
    Proof.
      intros H. apply normalize_context_none in H. unfold apply_acl, validate_enforce_acl_context.
      rewrite H. reflexivity.
    Qed.

    Lemma apply_enforce_ok hits c n :
      normalize_acl_context json_str (Some c) = Some n ->
      exists st, apply hits (Some c) Enforce = Ok (rerank P (filter (hit_allowed n) hits), st) /\
                 st_allowed st = N.of_nat (length (filter (hit_allowed n) hits)) /\
                 st_allowed st + st_denied st = N.of_nat (length hits).
    Proof.
      intros Hn. unfold apply_acl, validate_enforce_acl_context. rewrite Hn.
      pose proof (filter_loop_enforce n hits stats0) as Hf.
      pose proof (filter_loop_stats n Enforce hits stats0) as Hs.
      destruct (filter_loop json_str json_arr P frame_meta (Some n) Enforce hits stats0) as [fl st] eqn:E.
      cbn [fst snd] in *. subst fl. exists st. split; [reflexivity|].
      destruct Hs as [H1 H2]. cbn in H1, H2. split; [lia|].
      pose proof (filter_partition_length (hit_allowed n) hits). lia.
    Qed.

    (* Enforce is an error exactly without a usable tenant, and never panics *)
    Theorem apply_enforce_err_iff hits c :
      (forall r, apply hits c Enforce <> Ok r) <-> no_tenant json_str c.
    Proof.
      destruct c as [c|]; cbn [no_tenant].
      - destruct (normalize_acl_context json_str (Some c)) as [n|] eqn:En.
        + destruct (apply_enforce_ok hits c n En) as [st [E _]]. split.
          * intros H. exfalso. eapply H. exact E.
          * intros H. exfalso. apply H. apply normalize_context_spec in En as [Ht _]. exists (n_tenant n). exact Ht.
        + apply normalize_context_none in En. split; [intros _; exact En|].
          intros _ r. rewrite (apply_enforce_no_tenant hits c En). discriminate.
      - split; [auto|]. intros _ r. rewrite apply_enforce_none. discriminate.
    Qed.

    Theorem apply_never_panics hits c mode s : apply hits c mode <> Panic s.
    Proof.
      unfold apply_acl. destruct mode.
      - destruct (normalize_acl_context json_str c) as [n|]; [|discriminate].
        destruct (filter_loop _ _ _ _ _ _ _ _); discriminate.
      - unfold validate_enforce_acl_context. destruct c as [c|]; [|discriminate].
        destruct (normalize_acl_context json_str (Some c)) as [n|]; [|discriminate].
        destruct (filter_loop _ _ _ _ _ _ _ _); discriminate.
    Qed.

    (* Enforce returns exactly the readable hits, in order, ranked 1..n *)
    Theorem apply_enforce_exact hits c out st :
      apply hits (Some c) Enforce = Ok (out, st) ->
      exists keep : hit -> bool,
        (forall h, keep h = true <-> readable c (h_frame h)) /\
        map (fun h => (h_frame h, h_body h)) out = map (fun h => (h_frame h, h_body h)) (filter keep hits) /\
        (forall k h, nth_error out k = Some h -> h_rank h = N.of_nat k + 1) /\
        Forall (fun h => readable c (h_frame h)) out /\
        st_allowed st = N.of_nat (length out) /\ st_allowed st + st_denied st = N.of_nat (length hits).
    Proof.
      intros E. destruct (normalize_acl_context json_str (Some c)) as [n|] eqn:En.
      2:{ apply normalize_context_none in En. rewrite (apply_enforce_no_tenant hits c En) in E. discriminate. }
      destruct (apply_enforce_ok hits c n En) as [st' [E' [Hs1 Hs2]]]. rewrite E' in E. inversion E; subst out st'; clear E.
      exists (hit_allowed n). split; [intros h; apply hit_allowed_spec; exact En|].
      split; [apply rerank_from_frames|].
      split; [intros k h Hk; apply rerank_from_rank in Hk; lia|].
      split.
      - apply Forall_forall. intros h Hin.
        assert (Hf : In (h_frame h) (map (@h_frame P) (filter (hit_allowed n) hits))).
        { unfold rerank in Hin. rewrite <- (rerank_from_frame_ids 0). apply in_map. exact Hin. }
        apply in_map_iff in Hf as [h0 [Ef Hin0]]. apply filter_In in Hin0 as [_ Ha].
        rewrite <- Ef. apply (hit_allowed_spec c n h0 En). exact Ha.
      - unfold rerank. rewrite rerank_from_length. split; [exact Hs1 | exact Hs2].
    Qed.

    (* Audit never changes the hits, whatever the context *)
    Theorem apply_audit_unchanged hits c : exists st, apply hits c Audit = Ok (hits, st).
    Proof.
      unfold apply_acl. destruct (normalize_acl_context json_str c) as [n|].
      - destruct (filter_loop json_str json_arr P frame_meta (Some n) Audit hits stats0) as [fl st]. eexists; reflexivity.
      - eexists; reflexivity.
    Qed.

    (* the decision on a hit depends on its frame only *)
    Lemma hit_allowed_frame n (h h' : hit) : h_frame h = h_frame h' -> hit_allowed n h = hit_allowed n h'.
    Proof. intros E. unfold hit_allowed, decide_hit. rewrite E. reflexivity. Qed.

    Lemma filter_all {A} (f : A -> bool) l : Forall (fun x => f x = true) l -> filter f l = l.
    Proof. induction 1 as [|x l Hx Hl IH]; cbn [filter]; [reflexivity|]. rewrite Hx, IH. reflexivity. Qed.

    Lemma rerank_from_idem i (l : list hit) : rerank_from P i (rerank_from P i l) = rerank_from P i l.
    Proof. revert i; induction l as [|h r IH]; intros i; cbn [rerank_from]; [reflexivity|]. cbn. rewrite IH. reflexivity. Qed.

    Lemma rerank_from_allowed n i (l : list hit) :
      Forall (fun h => hit_allowed n h = true) l -> Forall (fun h => hit_allowed n h = true) (rerank_from P i l).
    Proof.
      intros H. revert i. induction H as [|h r Hh Hr IH]; intros i; cbn [rerank_from]; constructor; [|apply IH].
      rewrite <- Hh. apply hit_allowed_frame. reflexivity.
    Qed.

    (* the ACL stage is idempotent: its Enforce output is a fixed point of itself *)
    Theorem apply_enforce_fixed_point hits c out st :
      apply hits (Some c) Enforce = Ok (out, st) -> exists st', apply out (Some c) Enforce = Ok (out, st').
    Proof.
      intros E. destruct (normalize_acl_context json_str (Some c)) as [n|] eqn:En.
      2:{ apply normalize_context_none in En. rewrite (apply_enforce_no_tenant hits c En) in E. discriminate. }
      destruct (apply_enforce_ok hits c n En) as [st0 [E0 _]]. rewrite E0 in E. injection E as <- <-.
      destruct (apply_enforce_ok (rerank P (filter (hit_allowed n) hits)) c n En) as [st' [E' _]].
      exists st'. rewrite E'. f_equal. f_equal.
      rewrite filter_all.
      - apply rerank_from_idem.
      - apply rerank_from_allowed. apply Forall_forall. intros h Hin. apply filter_In in Hin. tauto.
    Qed.

    (* ------------------------------------------------------------------ call sites *)
    Variable C : Type.
    Variable build_context : list hit -> C.
    Variable conv : N -> option P.
    Variable cutoff : list hit -> nat.
    Variable has_scores : list hit -> bool.

    Notation search := (search_acl json_str json_arr P frame_meta C build_context).
    Notation vsearch := (vec_search_acl json_str json_arr P frame_meta C build_context conv).
    Notation asearch := (search_adaptive_acl json_str json_arr P frame_meta C build_context conv cutoff has_scores).
    Notation ask := (ask_acl json_str json_arr P frame_meta C build_context).

    Definition all_readable (c : acl_context) (hits : list hit) : Prop :=
      Forall (fun h => readable c (h_frame h)) hits.

    Lemma apply_enforce_readable hits c out st :
      apply hits (Some c) Enforce = Ok (out, st) -> all_readable c out.
    Proof. intros E. destruct (apply_enforce_exact hits c out st E) as [_ [_ [_ [_ [H _]]]]]. exact H. Qed.

    (* --- no leak --- *)
    Theorem search_no_leak pre c r :
      search pre (Some c) Enforce = Ok r ->
      all_readable c (r_hits r) /\ r_context r = build_context (r_hits r) /\ r_total r = N.of_nat (length (r_hits r)).
    Proof.
      unfold search_acl. destruct pre as [k| |r0].
      - discriminate.
      - intros E; inversion E; cbn. repeat split. constructor.
      - destruct (apply (r_hits r0) (Some c) Enforce) as [[out st]|k|s] eqn:Ea; try discriminate.
        intros E; inversion E; cbn. repeat split. eapply apply_enforce_readable; exact Ea.
    Qed.

    Theorem vec_search_no_leak pre top_k c r :
      vsearch pre top_k (Some c) Enforce = Ok r ->
      all_readable c (r_hits r) /\ r_context r = build_context (r_hits r) /\ r_total r = N.of_nat (length (r_hits r)).
    Proof.
      unfold vec_search_acl. destruct pre as [ids|k|s]; try discriminate.
      destruct ids as [|id ids].
      - intros E; inversion E; cbn. repeat split. constructor.
      - destruct (apply _ (Some c) Enforce) as [[out st]|k|s] eqn:Ea; try discriminate.
        intros E; inversion E; cbn. repeat split. eapply apply_enforce_readable; exact Ea.
    Qed.

    Lemma all_readable_firstn c k (l : list hit) : all_readable c l -> all_readable c (firstn k l).
    Proof.
      unfold all_readable. rewrite !Forall_forall. intros H h Hin. apply H.
      rewrite <- (firstn_skipn k l). apply in_or_app. left; exact Hin.
    Qed.

    Lemma all_readable_rerank c i (l : list hit) : all_readable c l -> all_readable c (rerank_from P i l).
    Proof.
      unfold all_readable. revert i; induction l as [|h r IH]; intros i H; cbn [rerank_from]; [constructor|].
      inversion H; subst. constructor; [cbn; assumption | apply IH; assumption].
    Qed.

    Theorem adaptive_no_leak enabled pre max_results c out :
      asearch enabled pre max_results (Some c) Enforce = Ok out -> all_readable c out.
    Proof.
      unfold search_adaptive_acl.
      destruct (vsearch pre max_results (Some c) Enforce) as [r|k|s] eqn:Ev; try discriminate.
      apply vec_search_no_leak in Ev as [Hr _].
      destruct (negb enabled); [intros E; inversion E; subst; exact Hr|].
      destruct (is_nil (r_hits r)); [intros E; inversion E; constructor|].
      destruct (negb (has_scores (r_hits r))); [intros E; inversion E; subst; exact Hr|].
      intros E; inversion E. apply all_readable_rerank. apply all_readable_firstn. exact Hr.
    Qed.

    Lemma citations_from_ids i (l : list hit) : map snd (citations_from P i l) = map (@h_frame P) l.
    Proof. revert i; induction l as [|h r IH]; intros i; cbn [citations_from map]; [reflexivity|]. rewrite IH; reflexivity. Qed.

    Theorem ask_no_leak pre context_only c a :
      ask pre context_only (Some c) Enforce = Ok a ->
      all_readable c (a_hits a) /\ a_context a = build_context (a_hits a) /\
      a_total a = N.of_nat (length (a_hits a)) /\
      Forall (fun ci => readable c (snd ci)) (a_citations a) /\
      Forall (fun fr => readable c (snd fr)) (a_fragments a).
    Proof.
      unfold ask_acl. destruct pre as [[hits total]|k|s]; try discriminate.
      destruct (apply hits (Some c) Enforce) as [[out st]|k|s] eqn:Ea; try discriminate.
      apply apply_enforce_readable in Ea.
      intros E; inversion E; cbn. split; [exact Ea|]. split; [reflexivity|]. split; [reflexivity|].
      assert (Hids : forall l : list (N * N), map snd l = map (@h_frame P) out -> Forall (fun x => readable c (snd x)) l).
      { intros l Hl. apply Forall_forall. intros x Hx.
        assert (Hin : In (snd x) (map (@h_frame P) out)) by (rewrite <- Hl; apply in_map; exact Hx).
        apply in_map_iff in Hin as [h [Eh Hh]]. rewrite <- Eh.
        unfold all_readable in Ea. rewrite Forall_forall in Ea. apply Ea; exact Hh. }
      split.
      - destruct context_only; [constructor|]. apply Hids. apply citations_from_ids.
      - apply Hids. rewrite map_map. reflexivity.
    Qed.

    (* --- Audit returns what no ACL context returns --- *)
    Lemma apply_audit_fst hits c : exists st, apply hits c Audit = Ok (hits, st).
    Proof. apply apply_audit_unchanged. Qed.

    Theorem search_audit_same pre c :
      search pre c Audit = search pre None Audit /\
      (forall r, pre = PreResp P C r -> search pre c Audit = Ok r).
    Proof.
      assert (H : forall r c', search (PreResp P C r) c' Audit = Ok r).
      { intros r c'. unfold search_acl. destruct (apply_audit_fst (r_hits r) c') as [st ->]. destruct r; reflexivity. }
      split.
      - destruct pre as [k| |r]; try reflexivity. rewrite !H. reflexivity.
      - intros r ->. apply H.
    Qed.

    Theorem vec_search_audit_same pre top_k c : vsearch pre top_k c Audit = vsearch pre top_k None Audit.
    Proof.
      unfold vec_search_acl. destruct pre as [ids|k|s]; try reflexivity. destruct ids as [|id ids]; [reflexivity|].
      destruct (apply_audit_fst (vec_collect P conv top_k (id :: ids) []) c) as [st ->].
      destruct (apply_audit_fst (vec_collect P conv top_k (id :: ids) []) None) as [st' ->]. reflexivity.
    Qed.

    Theorem adaptive_audit_same enabled pre max_results c :
      asearch enabled pre max_results c Audit = asearch enabled pre max_results None Audit.
    Proof. unfold search_adaptive_acl. rewrite (vec_search_audit_same pre max_results c). reflexivity. Qed.

    Theorem ask_audit_same pre context_only c : ask pre context_only c Audit = ask pre context_only None Audit.
    Proof.
      unfold ask_acl. destruct pre as [[hits total]|k|s]; try reflexivity.
      destruct (apply_audit_fst hits c) as [st ->]. destruct (apply_audit_fst hits None) as [st' ->]. reflexivity.
    Qed.

    (* --- Enforce without a tenant --- *)
    Lemma apply_no_tenant hits c : no_tenant json_str c -> forall r, apply hits c Enforce <> Ok r.
    Proof. intros H. apply apply_enforce_err_iff. exact H. Qed.

    Theorem ask_enforce_no_tenant pre context_only c :
      no_tenant json_str c -> forall a, ask pre context_only c Enforce <> Ok a.
    Proof.
      intros Hn a. unfold ask_acl. destruct pre as [[hits total]|k|s]; try discriminate.
      destruct (apply hits c Enforce) as [[out st]|k|s] eqn:Ea; try discriminate.
      exfalso. eapply apply_no_tenant; eauto.
    Qed.

    Theorem search_enforce_no_tenant_outside_known pre c :
      early_exit_search pre = false -> no_tenant json_str c -> forall r, search pre c Enforce <> Ok r.
    Proof.
      intros Hk Hn r. unfold search_acl. destruct pre as [k| |r0]; try discriminate.
      destruct (apply (r_hits r0) c Enforce) as [[out st]|k|s] eqn:Ea; try discriminate.
      exfalso. eapply apply_no_tenant; eauto.
    Qed.

    Theorem vec_search_enforce_no_tenant_outside_known pre top_k c :
      early_exit_vec pre = false -> no_tenant json_str c -> forall r, vsearch pre top_k c Enforce <> Ok r.
    Proof.
      intros Hk Hn r. unfold vec_search_acl. destruct pre as [ids|k|s]; try discriminate.
      destruct ids as [|id ids]; [discriminate|].
      destruct (apply _ c Enforce) as [[out st]|k|s] eqn:Ea; try discriminate.
      exfalso. eapply apply_no_tenant; eauto.
    Qed.

    Theorem adaptive_enforce_no_tenant_outside_known enabled pre max_results c :
      early_exit_vec pre = false -> no_tenant json_str c -> forall r, asearch enabled pre max_results c Enforce <> Ok r.
    Proof.
      intros Hk Hn r. unfold search_adaptive_acl.
      destruct (vsearch pre max_results c Enforce) as [resp|k|s] eqn:Ev; try discriminate.
      exfalso. eapply vec_search_enforce_no_tenant_outside_known; eauto.
    Qed.

    Theorem search_enforce_no_tenant_refuted_ex :
      exists pre c r, no_tenant json_str c /\ search pre c Enforce = Ok r.
    Proof. exists (PreEmpty P C), None, (empty_response P C build_context). split; [exact I | reflexivity]. Qed.
    Theorem vec_search_enforce_no_tenant_refuted_ex :
      exists pre top_k c r, no_tenant json_str c /\ vsearch pre top_k c Enforce = Ok r.
    Proof. exists (Ok []), 0%nat, None, (empty_response P C build_context). split; [exact I | reflexivity]. Qed.


    (* ------------------------------------------------------------------ composition *)
    (* a stage that only draws from readable lists returns a readable list *)
    Theorem draws_from_readable c (post : list (list hit) -> list hit) ls :
      draws_from post -> Forall (all_readable c) ls -> all_readable c (post ls).
    Proof.
      intros Hd Hl. unfold all_readable. apply Forall_forall. intros h Hin.
      destruct (Hd ls h Hin) as [l [h' [Hl' [Hh' Ef]]]].
      rewrite Forall_forall in Hl. specialize (Hl l Hl'). unfold all_readable in Hl.
      rewrite Forall_forall in Hl. rewrite <- Ef. apply Hl; exact Hh'.
    Qed.

    (* ... and so is every response of ask: hits a fixed point of the last step, citations and
       fragments derived from exactly those hits (the relation the `final` stream checks) *)
    Theorem ask_response_fixed_point pre context_only c a :
      ask pre context_only (Some c) Enforce = Ok a ->
      (exists st, apply (a_hits a) (Some c) Enforce = Ok (a_hits a, st)) /\
      a_citations a = (if context_only then [] else citations_from P 0 (a_hits a)) /\
      a_fragments a = map (fun h => (h_rank h, h_frame h)) (a_hits a).
    Proof.
      unfold ask_acl. destruct pre as [[hits total]|k|s]; try discriminate.
      destruct (apply hits (Some c) Enforce) as [[out st]|k|s] eqn:Ea; try discriminate.
      intros E. injection E as <-. cbn. split; [|split; reflexivity].
      eapply apply_enforce_fixed_point; exact Ea.
    Qed.

    (* ask with its candidate lists spelled out: whatever the fusion stage does and whatever the
       unfiltered (timeline) lists hold, the final pass makes the response readable *)
    Theorem ask_pipeline_no_leak fuse filtered unfiltered total context_only c a :
      ask_pipeline json_str json_arr P frame_meta C build_context fuse filtered unfiltered total context_only (Some c) Enforce = Ok a ->
      all_readable c (a_hits a) /\
      Forall (fun ci => readable c (snd ci)) (a_citations a) /\
      Forall (fun fr => readable c (snd fr)) (a_fragments a).
    Proof.
      unfold ask_pipeline. intros E. apply ask_no_leak in E as [H1 [_ [_ [H2 H3]]]]. auto.
    Qed.

    (* without the final pass the response is readable only if nothing unfiltered went in:
       filtered lists + a fusion stage that only draws from them *)
    Theorem ask_no_final_pass_readable_if_all_filtered fuse filtered total context_only c a :
      draws_from fuse -> Forall (all_readable c) filtered ->
      ask_pipeline_no_final_pass P C build_context fuse filtered [] total context_only = Ok a ->
      all_readable c (a_hits a).
    Proof.
      intros Hd Hf E. unfold ask_pipeline_no_final_pass in E. injection E as <-. cbn.
      rewrite app_nil_r. apply draws_from_readable; assumption.
    Qed.

    (* the refutation: on the early exits Enforce without a tenant is Ok *)
    Theorem search_enforce_no_tenant_refuted :
      search (PreEmpty P C) None Enforce = Ok (empty_response P C build_context).
    Proof. reflexivity. Qed.
    Theorem vec_search_enforce_no_tenant_refuted top_k :
      vsearch (Ok []) top_k None Enforce = Ok (empty_response P C build_context).
    Proof. reflexivity. Qed.
  End Hits.
End Decide.
