(* Proofs about the time-travel candidate-filter composition (Model/AsOf.v). *)
From MV Require Import Base.Prelude Model.AsOf.
Require Import ZifyBool ZifyNat ZifyN.

(* ---------------------------------------------------------------- basics *)
Lemma is_nil_true {A} (l : list A) : is_nil l = true <-> l = [].
Proof. destruct l; cbn; split; congruence. Qed.

Lemma is_nil_false {A} (l : list A) : is_nil l = false <-> l <> [].
Proof. destruct l; cbn; split; congruence. Qed.

Lemma mem_id_In x l : mem_id x l = true <-> In x l.
Proof.
  unfold mem_id. rewrite existsb_exists. split.
  - intros [y [Hy E]]. apply N.eqb_eq in E. subst; assumption.
  - intros H. exists x. split; [assumption | apply N.eqb_refl].
Qed.

Lemma keep_in_In s e x : In x (keep_in s e) <-> In x e /\ In x s.
Proof. unfold keep_in. rewrite filter_In, mem_id_In. reflexivity. Qed.

Lemma keep_in_incl_l s e : incl (keep_in s e) e.
Proof. intros x H. apply keep_in_In in H. tauto. Qed.

Lemma keep_in_incl_r s e : incl (keep_in s e) s.
Proof. intros x H. apply keep_in_In in H. tauto. Qed.

Lemma incl_nil_eq {A} (l : list A) : incl l [] -> l = [].
Proof. destruct l as [|a l]; [reflexivity|]. intros H. destruct (H a (or_introl eq_refl)). Qed.

(* ---------------------------------------------------------------- get_replay_frame_ids *)
Lemma replay_keep_spec aof aot f :
  replay_keep aof aot f = true <->
  f_active f = true /\
  (forall c, aof = Some c -> (f_id f <= c)%N) /\
  (forall c, aot = Some c -> (f_ts f <= c)%Z).
Proof.
  unfold replay_keep. destruct (f_active f); cbn [negb].
  2:{ split; [discriminate | intros [H _]; discriminate]. }
  destruct aof as [n|]; destruct aot as [t|].
  - destruct (N.ltb_spec n (f_id f)); destruct (Z.ltb_spec t (f_ts f)); split;
      try discriminate; try (intros [_ [Hn Ht]]; specialize (Hn _ eq_refl); specialize (Ht _ eq_refl); lia).
    intros _. repeat split; intros c E; inversion E; subst; lia.
  - destruct (N.ltb_spec n (f_id f)); split;
      try discriminate; try (intros [_ [Hn _]]; specialize (Hn _ eq_refl); lia).
    intros _. repeat split; intros c E; inversion E; subst; lia.
  - destruct (Z.ltb_spec t (f_ts f)); split;
      try discriminate; try (intros [_ [_ Ht]]; specialize (Ht _ eq_refl); lia).
    intros _. repeat split; intros c E; inversion E; subst; lia.
  - split; [|reflexivity]. intros _. repeat split; intros c E; inversion E.
Qed.

(* exactly the active frames with id <= n (if given) and timestamp <= t (if given) *)
Lemma replay_ids_spec frames aof aot x :
  In x (replay_ids frames aof aot) <->
  exists f, In f frames /\ f_id f = x /\ f_active f = true /\
            (forall c, aof = Some c -> (f_id f <= c)%N) /\
            (forall c, aot = Some c -> (f_ts f <= c)%Z).
Proof.
  unfold replay_ids. rewrite in_map_iff. split.
  - intros [f [E H]]. apply filter_In in H as [Hin Hk]. apply replay_keep_spec in Hk.
    exists f. tauto.
  - intros [f [Hin [E Hk]]]. exists f. split; [assumption|].
    apply filter_In. split; [assumption|]. apply replay_keep_spec. assumption.
Qed.

(* no cut-off: every active frame *)
Lemma replay_ids_none frames x :
  In x (replay_ids frames None None) <-> exists f, In f frames /\ f_id f = x /\ f_active f = true.
Proof.
  rewrite replay_ids_spec. split.
  - intros [f H]. exists f. tauto.
  - intros [f H]. exists f. repeat split; try tauto; intros c E; discriminate.
Qed.

(* a tighter cut-off gives a smaller set *)
Lemma replay_ids_antitone frames n n' t t' :
  (n <= n')%N -> (t <= t')%Z ->
  incl (replay_ids frames (Some n) (Some t)) (replay_ids frames (Some n') (Some t')).
Proof.
  intros Hn Ht x H. apply replay_ids_spec in H as [f [Hin [E [Ha [Hf Hts]]]]].
  apply replay_ids_spec. exists f. repeat split; try assumption.
  - intros c Ec. inversion Ec; subst. specialize (Hf _ eq_refl). lia.
  - intros c Ec. inversion Ec; subst. specialize (Hts _ eq_refl). lia.
Qed.

(* ---------------------------------------------------------------- date range *)
Lemma range_contains_spec r ts :
  range_contains r ts = true <->
  (forall s, fst r = Some s -> (s <= ts)%Z) /\ (forall e, snd r = Some e -> (ts <= e)%Z).
Proof.
  unfold range_contains. destruct r as [[s|] [e|]]; cbn [fst snd].
  - destruct (Z.ltb_spec ts s); destruct (Z.ltb_spec e ts); split; try discriminate;
      try (intros [Hs He]; specialize (Hs _ eq_refl); specialize (He _ eq_refl); lia).
    intros _. split; intros c E; inversion E; subst; lia.
  - destruct (Z.ltb_spec ts s); split; try discriminate;
      try (intros [Hs _]; specialize (Hs _ eq_refl); lia).
    intros _. split; intros c E; inversion E; subst; lia.
  - destruct (Z.ltb_spec e ts); split; try discriminate;
      try (intros [_ He]; specialize (He _ eq_refl); lia).
    intros _. split; intros c E; inversion E; subst; lia.
  - split; [|reflexivity]. intros _. split; intros c E; inversion E.
Qed.

Lemma frame_ids_in_date_range_spec ti r ids x :
  frame_ids_in_date_range ti r = Some ids -> In x ids ->
  exists entries ts, ti = Some entries /\ In (ts, x) entries /\ range_contains r ts = true.
Proof.
  unfold frame_ids_in_date_range. destruct (range_is_empty r).
  - intros E; inversion E; subst. intros [].
  - destruct ti as [entries|]; [|discriminate]. intros E; inversion E; subst; clear E.
    intros H. apply in_map_iff in H as [[ts y] [Ey H]]. cbn in Ey; subst y.
    apply filter_In in H as [Hin Hc]. exists entries, ts. auto.
Qed.

(* ---------------------------------------------------------------- the stages *)
(* "the filter is Some l and every member satisfies P" *)
Definition cf_sub (P : N -> Prop) (cf : option (list N)) : Prop :=
  exists l, cf = Some l /\ forall x, In x l -> P x.

(* "the filter, if any, is contained in the earlier filter, if any" *)
Definition cf_le (cf cf0 : option (list N)) : Prop :=
  match cf0 with
  | None => True
  | Some l0 => exists l, cf = Some l /\ incl l l0
  end.

Lemma cf_le_refl cf : cf_le cf cf.
Proof. destruct cf as [l|]; cbn; [|exact I]. exists l. split; [reflexivity | apply incl_refl]. Qed.

(* the non-emptiness part needs the caller's is_nil test: stated per stage below *)
Lemma inter_stage_cont site cf s cf' :
  inter_stage site cf s = Cont cf' ->
  cf_sub (fun x => In x s) cf' /\ cf_le cf' cf.
Proof.
  unfold inter_stage. destruct cf as [existing|].
  - destruct (is_nil (keep_in s existing)) eqn:En; [discriminate|].
    intros E; inversion E; subst; clear E. split.
    + exists (keep_in s existing). split; [reflexivity|]. intros x H. apply keep_in_In in H. tauto.
    + cbn. exists (keep_in s existing). split; [reflexivity | apply keep_in_incl_l].
  - intros E; inversion E; subst; clear E. split.
    + exists s. split; [reflexivity | auto].
    + exact I.
Qed.

Lemma inter_stage_nonempty site cf s l :
  s <> [] -> inter_stage site cf s = Cont (Some l) -> l <> [].
Proof.
  unfold inter_stage. intros Hs. destruct cf as [existing|].
  - destruct (is_nil (keep_in s existing)) eqn:En; [discriminate|].
    intros E; inversion E; subst. apply is_nil_false in En. assumption.
  - intros E; inversion E; subst. assumption.
Qed.

Lemma replay_stage_asof st rq cf cf' :
  asof_given rq = true -> replay_stage st rq cf = Cont cf' ->
  cf_sub (fun x => In x (replay_ids (st_frames st) (rq_as_of_frame rq) (rq_as_of_ts rq))) cf' /\
  cf_le cf' cf.
Proof.
  unfold replay_stage. intros ->.
  destruct (is_nil (replay_ids _ _ _)); [discriminate|]. apply inter_stage_cont.
Qed.

Lemma replay_stage_cont_le st rq cf cf' : replay_stage st rq cf = Cont cf' -> cf_le cf' cf.
Proof.
  unfold replay_stage. destruct (asof_given rq).
  - destruct (is_nil (replay_ids _ _ _)); [discriminate|]. intros H. apply inter_stage_cont in H. tauto.
  - intros E; inversion E; subst. apply cf_le_refl.
Qed.

Lemma replay_stage_drop st rq cf : replay_stage st (drop_as_of rq) cf = Cont cf.
Proof. reflexivity. Qed.

Lemma date_stage_drop st rq : date_stage st (drop_as_of rq) = date_stage st rq.
Proof. reflexivity. Qed.

Lemma temporal_stage_drop rq cf : temporal_stage (drop_as_of rq) cf = temporal_stage rq cf.
Proof. reflexivity. Qed.

Lemma sketch_on_drop st rq : sketch_on st (drop_as_of rq) = sketch_on st rq.
Proof. reflexivity. Qed.

(* the filter handed to the sketch stage is never the empty set *)
Lemma date_stage_nonempty st rq l : date_stage st rq = Cont (Some l) -> l <> [].
Proof.
  unfold date_stage. destruct (rq_date rq) as [range|]; [|discriminate].
  destruct (range_is_empty range); [discriminate|].
  destruct (frame_ids_in_date_range _ _) as [ids|]; [|discriminate].
  destruct (is_nil ids) eqn:En; [discriminate|]. intros E; inversion E; subst.
  apply is_nil_false in En. assumption.
Qed.

Lemma temporal_stage_nonempty rq cf l :
  (forall l0, cf = Some l0 -> l0 <> []) -> temporal_stage rq cf = Cont (Some l) -> l <> [].
Proof.
  unfold temporal_stage. intros Hcf. destruct (rq_temporal rq) as [[ids|]|].
  - destruct (is_nil ids) eqn:En; [discriminate|]. apply is_nil_false in En.
    apply inter_stage_nonempty. assumption.
  - intros E; inversion E; subst. apply Hcf. reflexivity.
  - intros E; inversion E; subst. apply Hcf. reflexivity.
Qed.

Lemma replay_stage_nonempty st rq cf l :
  (forall l0, cf = Some l0 -> l0 <> []) -> replay_stage st rq cf = Cont (Some l) -> l <> [].
Proof.
  unfold replay_stage. intros Hcf. destruct (asof_given rq).
  - destruct (is_nil (replay_ids _ _ _)) eqn:En; [discriminate|]. apply is_nil_false in En.
    apply inter_stage_nonempty. assumption.
  - intros E; inversion E; subst. apply Hcf. reflexivity.
Qed.

Lemma pre_sketch_nonempty st rq l : pre_sketch st rq = Cont (Some l) -> l <> [].
Proof.
  unfold pre_sketch, bind.
  destruct (date_stage st rq) as [s|cf0] eqn:Ed; [discriminate|].
  destruct (temporal_stage rq cf0) as [s|cf1] eqn:Et; [discriminate|].
  intros Hr. eapply replay_stage_nonempty; [|exact Hr].
  intros l0 E; subst. eapply temporal_stage_nonempty; [|exact Et].
  intros l1 E; subst. eapply date_stage_nonempty. exact Ed.
Qed.

(* before the sketch stage the filter is inside the replay set whenever as_of_* is given *)
Lemma pre_sketch_asof st rq cf :
  asof_given rq = true -> pre_sketch st rq = Cont cf ->
  cf_sub (fun x => In x (replay_ids (st_frames st) (rq_as_of_frame rq) (rq_as_of_ts rq))) cf.
Proof.
  unfold pre_sketch, bind. intros Ha.
  destruct (date_stage st rq) as [s|cf0]; [discriminate|].
  destruct (temporal_stage rq cf0) as [s|cf1]; [discriminate|].
  intros Hr. apply (replay_stage_asof _ _ _ _ Ha) in Hr. tauto.
Qed.

(* the request without as_of_* reaches the sketch stage whenever the request with
   them does, with a filter that contains the other one *)
Lemma pre_sketch_drop st rq cf :
  pre_sketch st rq = Cont cf ->
  exists cf0, pre_sketch st (drop_as_of rq) = Cont cf0 /\ cf_le cf cf0.
Proof.
  unfold pre_sketch, bind. rewrite date_stage_drop.
  destruct (date_stage st rq) as [s|cf0]; [discriminate|].
  rewrite temporal_stage_drop.
  destruct (temporal_stage rq cf0) as [s|cf1]; [discriminate|].
  rewrite replay_stage_drop. intros Hr. exists cf1. split; [reflexivity|].
  eapply replay_stage_cont_le. exact Hr.
Qed.

Lemma pre_sketch_drop_exit st rq site :
  pre_sketch st (drop_as_of rq) = Exit site -> exists site', pre_sketch st rq = Exit site'.
Proof.
  unfold pre_sketch, bind. rewrite date_stage_drop.
  destruct (date_stage st rq) as [s|cf0]; [intros _; eexists; reflexivity|].
  rewrite temporal_stage_drop.
  destruct (temporal_stage rq cf0) as [s|cf1]; [intros _; eexists; reflexivity|].
  rewrite replay_stage_drop. discriminate.
Qed.

(* ---- weaker cut-offs: a larger replay set, a larger filter before the sketch stage *)
Lemma replay_ids_weaker frames aof aot aof' aot' :
  cut_le_N aof aof' = true -> cut_le_Z aot aot' = true ->
  incl (replay_ids frames aof aot) (replay_ids frames aof' aot').
Proof.
  intros Hn Ht x H. apply replay_ids_spec in H as [f [Hin [E [Ha [Hf Hts]]]]].
  apply replay_ids_spec. exists f. repeat split; try assumption.
  - intros c Ec. subst aof'. unfold cut_le_N in Hn. destruct aof as [n|]; [|discriminate].
    specialize (Hf _ eq_refl). apply N.leb_le in Hn. lia.
  - intros c Ec. subst aot'. unfold cut_le_Z in Ht. destruct aot as [t|]; [|discriminate].
    specialize (Hts _ eq_refl). apply Z.leb_le in Ht. lia.
Qed.

Lemma cut_le_given rq aof' aot' :
  cut_le_N (rq_as_of_frame rq) aof' = true -> cut_le_Z (rq_as_of_ts rq) aot' = true ->
  asof_given (with_as_of rq aof' aot') = true -> asof_given rq = true.
Proof.
  unfold asof_given, with_as_of, cut_le_N, cut_le_Z. cbn.
  destruct aof' as [n'|]; destruct aot' as [t'|]; cbn;
    destruct (rq_as_of_frame rq); destruct (rq_as_of_ts rq); cbn; intros; congruence.
Qed.

Lemma keep_in_mono s s' e : incl s s' -> incl (keep_in s e) (keep_in s' e).
Proof. intros Hi x H. apply keep_in_In in H as [H1 H2]. apply keep_in_In. auto. Qed.

Lemma replay_stage_weaker st rq aof' aot' cf cf1 :
  cut_le_N (rq_as_of_frame rq) aof' = true -> cut_le_Z (rq_as_of_ts rq) aot' = true ->
  replay_stage st rq cf = Cont cf1 ->
  exists cf1', replay_stage st (with_as_of rq aof' aot') cf = Cont cf1' /\ cf_le cf1 cf1'.
Proof.
  intros Hn Ht Hr.
  destruct (asof_given (with_as_of rq aof' aot')) eqn:Ha'.
  2:{ exists cf. unfold replay_stage at 1. rewrite Ha'. split; [reflexivity|].
      eapply replay_stage_cont_le. exact Hr. }
  pose proof (cut_le_given _ _ _ Hn Ht Ha') as Ha.
  pose proof (replay_ids_weaker (st_frames st) _ _ _ _ Hn Ht) as Hi.
  revert Hr. unfold replay_stage. rewrite Ha, Ha'. cbn [with_as_of rq_as_of_frame rq_as_of_ts].
  set (r := replay_ids (st_frames st) (rq_as_of_frame rq) (rq_as_of_ts rq)) in *.
  set (r' := replay_ids (st_frames st) aof' aot') in *.
  destruct (is_nil r) eqn:En; [discriminate|]. apply is_nil_false in En.
  assert (En' : is_nil r' = false).
  { apply is_nil_false. intros E. rewrite E in Hi. apply incl_nil_eq in Hi. contradiction. }
  rewrite En'. unfold inter_stage. destruct cf as [e|].
  - destruct (is_nil (keep_in r e)) eqn:Ek; [discriminate|]. apply is_nil_false in Ek.
    intros E; inversion E; subst cf1; clear E.
    pose proof (keep_in_mono r r' e Hi) as Hk.
    destruct (is_nil (keep_in r' e)) eqn:Ek'.
    { apply is_nil_true in Ek'. rewrite Ek' in Hk. apply incl_nil_eq in Hk. contradiction. }
    eexists. split; [reflexivity|]. cbn. eexists. split; [reflexivity | exact Hk].
  - intros E; inversion E; subst cf1; clear E.
    eexists. split; [reflexivity|]. cbn. eexists. split; [reflexivity | exact Hi].
Qed.

Lemma pre_sketch_weaker st rq aof' aot' cf :
  cut_le_N (rq_as_of_frame rq) aof' = true -> cut_le_Z (rq_as_of_ts rq) aot' = true ->
  pre_sketch st rq = Cont cf ->
  exists cf0, pre_sketch st (with_as_of rq aof' aot') = Cont cf0 /\ cf_le cf cf0.
Proof.
  intros Hn Ht. unfold pre_sketch, bind.
  change (date_stage st (with_as_of rq aof' aot')) with (date_stage st rq).
  destruct (date_stage st rq) as [s|cf0]; [discriminate|].
  change (temporal_stage (with_as_of rq aof' aot') cf0) with (temporal_stage rq cf0).
  destruct (temporal_stage rq cf0) as [s|cf1]; [discriminate|].
  apply replay_stage_weaker; assumption.
Qed.

(* the sketch stage keeps the filter inside P; the code before d76304f (fx = false) only
   outside its empty-intersection branch *)
Lemma sketch_stage_keeps fx st rq cands P cf cf' :
  cf_sub P cf ->
  sketch_stage_gen fx st rq cands cf = Cont cf' ->
  fx = true \/
  (sketch_on st rq && negb (is_nil cands) &&
   match cf with Some e => is_nil (keep_in cands e) | None => false end) = false ->
  cf_sub P cf'.
Proof.
  intros [l [-> Hl]]. unfold sketch_stage_gen.
  destruct (sketch_on st rq); cbn [andb].
  2:{ intros E _; inversion E; subst. exists l; auto. }
  destruct (is_nil cands); cbn [negb andb].
  1:{ intros E _; inversion E; subst. exists l; auto. }
  destruct (is_nil (keep_in cands l)) eqn:En.
  - destruct fx.
    + intros E _; inversion E; subst. exists l; auto.
    + intros _ [H|H]; discriminate.
  - intros E _; inversion E; subst. exists (keep_in cands l). split; [reflexivity|].
    intros x H. apply keep_in_In in H. apply Hl. tauto.
Qed.

(* ---------------------------------------------------------------- main results *)

(* (A) final candidate filter inside the replay id set *)
Theorem filter_subset_replay_gen fx st rq cands cf :
  asof_given rq = true ->
  fx = true \/ sketch_disjoint st rq cands = false ->
  candidate_filter_gen fx st rq cands = Cont cf ->
  cf_sub (fun x => In x (replay_ids (st_frames st) (rq_as_of_frame rq) (rq_as_of_ts rq))) cf.
Proof.
  intros Ha Hk. unfold candidate_filter_gen, bind, sketch_disjoint in *.
  destruct (pre_sketch st rq) as [s|cf0] eqn:Ep; [discriminate|].
  pose proof (pre_sketch_asof _ _ _ Ha Ep) as Hsub.
  intros Hs. eapply sketch_stage_keeps; [exact Hsub | exact Hs |].
  destruct Hk as [Hk|Hk]; [left; assumption | right].
  destruct Hsub as [l [-> _]]. exact Hk.
Qed.

Section Engine.
  Variable engine : option (list N) -> list N.
  (* the engine returns only members of the candidate filter when one is given *)
  Hypothesis engine_sound : forall l x, In x (engine (Some l)) -> In x l.

  (* (B) every hit is in the replay set *)
  Theorem hits_in_replay_gen fx st rq cands x :
    asof_given rq = true ->
    fx = true \/ sketch_disjoint st rq cands = false ->
    In x (search_ids_gen fx engine st rq cands) ->
    In x (replay_ids (st_frames st) (rq_as_of_frame rq) (rq_as_of_ts rq)).
  Proof.
    intros Ha Hk. unfold search_ids_gen.
    destruct (candidate_filter_gen fx st rq cands) as [s|cf] eqn:Ec; [intros []|].
    destruct (filter_subset_replay_gen _ _ _ _ _ Ha Hk Ec) as [l [-> Hl]].
    intros H. apply Hl. eapply engine_sound. exact H.
  Qed.

  (* (C) ... hence is an active frame of the table with id <= n and timestamp <= t *)
  Theorem hits_not_future_gen fx st rq cands x :
    asof_given rq = true ->
    fx = true \/ sketch_disjoint st rq cands = false ->
    In x (search_ids_gen fx engine st rq cands) ->
    exists f, In f (st_frames st) /\ f_id f = x /\ f_active f = true /\
              (forall n, rq_as_of_frame rq = Some n -> (x <= n)%N) /\
              (forall t, rq_as_of_ts rq = Some t -> (f_ts f <= t)%Z).
  Proof.
    intros Ha Hk H. apply (hits_in_replay_gen _ _ _ _ _ Ha Hk) in H.
    apply replay_ids_spec in H as [f [Hin [E [Hact [Hn Ht]]]]].
    exists f. subst x. auto.
  Qed.

  (* (C') with unique frame ids (frame.id is the table index): THE frame with the hit's id *)
  Theorem hits_not_future_unique_gen fx st rq cands x f :
    NoDup (map f_id (st_frames st)) ->
    asof_given rq = true ->
    fx = true \/ sketch_disjoint st rq cands = false ->
    In x (search_ids_gen fx engine st rq cands) ->
    In f (st_frames st) -> f_id f = x ->
    f_active f = true /\
    (forall n, rq_as_of_frame rq = Some n -> (f_id f <= n)%N) /\
    (forall t, rq_as_of_ts rq = Some t -> (f_ts f <= t)%Z).
  Proof.
    intros Hnd Ha Hk H Hf Ef.
    destruct (hits_not_future_gen _ _ _ _ _ Ha Hk H) as [g [Hg [Eg [Hact [Hn Ht]]]]].
    assert (g = f) as ->.
    { clear - Hnd Hg Hf Eg Ef. revert Hnd Hg Hf. generalize (st_frames st) as fs.
      induction fs as [|a fs IH]; intros Hnd Hg Hf; [destruct Hg|].
      cbn [map] in Hnd. inversion Hnd as [|? ? Hnotin Hnd']; subst.
      destruct Hg as [->|Hg]; destruct Hf as [->|Hf]; auto.
      - exfalso. apply Hnotin. apply in_map_iff. exists f. split; [congruence | assumption].
      - exfalso. apply Hnotin. apply in_map_iff. exists g. split; [congruence | assumption]. }
    subst x. auto.
  Qed.

  (* ---- monotonicity: non-truncating regime = the engine returns every match the
     filter admits, i.e. it is monotone in the filter and never returns with a filter
     what it does not return without one *)
  Hypothesis engine_mono : forall l1 l2, incl l1 l2 -> incl (engine (Some l1)) (engine (Some l2)).
  Hypothesis engine_none : forall l, incl (engine (Some l)) (engine None).

  Lemma engine_le cf cf0 l :
    cf = Some l -> cf_le cf cf0 -> incl (engine cf) (engine cf0).
  Proof.
    intros -> Hle. destruct cf0 as [l0|]; cbn in Hle.
    - destruct Hle as [l' [E Hi]]. inversion E; subst. apply engine_mono. assumption.
    - apply engine_none.
  Qed.

  (* "the sketch has no false negative for this query": whatever the engine returns
     unfiltered is among the sketch candidates *)
  Definition sketch_complete (cands : list N) : Prop := forall x, In x (engine None) -> In x cands.

  (* (D) core: a request rq' that reaches the sketch stage with a larger filter whenever rq
     reaches it, and runs the same sketch stage, returns every hit of rq -- outside the
     empty-intersection branch, or (current code) when the sketch has no false negative *)
  Lemma monotone_core fx st rq rq' cands :
    sketch_on st rq' = sketch_on st rq ->
    (forall cf, pre_sketch st rq = Cont cf ->
                exists cf0, pre_sketch st rq' = Cont cf0 /\ cf_le cf cf0) ->
    sketch_disjoint st rq cands = false \/ (fx = true /\ sketch_complete cands) ->
    incl (search_ids_gen fx engine st rq cands) (search_ids_gen fx engine st rq' cands).
  Proof.
    intros Hso Hpre Hk. unfold search_ids_gen, candidate_filter_gen, bind, sketch_disjoint in *.
    destruct (pre_sketch st rq) as [s|cf] eqn:Ep; [intros x []|].
    destruct (Hpre _ eq_refl) as [cf0 [Ep0 Hle]]. rewrite Ep0.
    unfold sketch_stage_gen. rewrite Hso.
    destruct (sketch_on st rq); cbn [andb] in *.
    2:{ (* no sketch stage *)
        destruct cf as [l|].
        - eapply engine_le; [reflexivity | exact Hle].
        - destruct cf0 as [l0|]; cbn in Hle; [destruct Hle as [l [E _]]; discriminate | apply incl_refl]. }
    destruct (is_nil cands) eqn:Ecn; cbn [negb andb] in *.
    1:{ destruct cf as [l|].
        - eapply engine_le; [reflexivity | exact Hle].
        - destruct cf0 as [l0|]; cbn in Hle; [destruct Hle as [l [E _]]; discriminate | apply incl_refl]. }
    destruct cf as [l|].
    - (* filtered request: l ∩ cands *)
      destruct (is_nil (keep_in cands l)) eqn:En.
      + (* empty intersection *)
        destruct Hk as [Hk|[-> Hc]]; [discriminate|].
        (* current code: filter l; every hit is in l, and (sketch complete) in cands *)
        intros x Hx. exfalso.
        assert (Hin : In x (keep_in cands l)).
        { apply keep_in_In. split; [eapply engine_sound; exact Hx|].
          apply Hc. eapply engine_none. exact Hx. }
        apply is_nil_true in En. rewrite En in Hin. destruct Hin.
      + apply is_nil_false in En.
        destruct cf0 as [l0|]; cbn in Hle.
        * destruct Hle as [l' [E Hi]]. inversion E; subst l'.
          assert (Hsub : incl (keep_in cands l) (keep_in cands l0)).
          { intros x H. apply keep_in_In in H as [H1 H2]. apply keep_in_In. split; [apply Hi|]; assumption. }
          destruct (is_nil (keep_in cands l0)) eqn:En0.
          { apply is_nil_true in En0. rewrite En0 in Hsub. apply incl_nil_eq in Hsub. contradiction. }
          apply engine_mono. assumption.
        * apply engine_mono. apply keep_in_incl_r.
    - destruct cf0 as [l0|]; cbn in Hle; [destruct Hle as [l [E _]]; discriminate|]. apply incl_refl.
  Qed.

  (* adding as_of_* never adds a hit *)
  Theorem monotone_gen fx st rq cands :
    sketch_disjoint st rq cands = false \/ (fx = true /\ sketch_complete cands) ->
    incl (search_ids_gen fx engine st rq cands)
         (search_ids_gen fx engine st (drop_as_of rq) cands).
  Proof.
    apply monotone_core; [apply sketch_on_drop | apply pre_sketch_drop].
  Qed.

  (* tightening either cut-off (or adding one next to the other) never adds a hit *)
  Theorem monotone_weaker_gen fx st rq aof' aot' cands :
    cut_le_N (rq_as_of_frame rq) aof' = true -> cut_le_Z (rq_as_of_ts rq) aot' = true ->
    sketch_disjoint st rq cands = false \/ (fx = true /\ sketch_complete cands) ->
    incl (search_ids_gen fx engine st rq cands)
         (search_ids_gen fx engine st (with_as_of rq aof' aot') cands).
  Proof.
    intros Hn Ht. apply monotone_core; [reflexivity|].
    intros cf. apply pre_sketch_weaker; assumption.
  Qed.

  (* requests that switch the sketch off: monotone with no further condition *)
  Theorem monotone_no_sketch_gen fx st rq aof' aot' cands :
    sketch_on st rq = false ->
    cut_le_N (rq_as_of_frame rq) aof' = true -> cut_le_Z (rq_as_of_ts rq) aot' = true ->
    incl (search_ids_gen fx engine st rq cands)
         (search_ids_gen fx engine st (with_as_of rq aof' aot') cands).
  Proof.
    intros Hoff Hn Ht. apply monotone_weaker_gen; try assumption. left.
    unfold sketch_disjoint. destruct (pre_sketch st rq) as [s|[l|]]; try reflexivity.
    rewrite Hoff. reflexivity.
  Qed.

  (* historical (code before d76304f): in its empty-intersection branch with no date /
     temporal filter, the two requests ran with the SAME filter (the sketch set): the
     as_of_* parameters were ignored altogether *)
  Theorem old_fallback_ignores_asof st rq cands :
    rq_date rq = None -> rq_temporal rq = None ->
    sketch_disjoint st rq cands = true ->
    candidate_filter_old st rq cands = Cont (Some cands) /\
    candidate_filter_old st (drop_as_of rq) cands = Cont (Some cands).
  Proof.
    intros Hd Ht. unfold sketch_disjoint, candidate_filter_old, candidate_filter_gen, bind.
    assert (Ep0 : pre_sketch st (drop_as_of rq) = Cont None).
    { unfold pre_sketch, bind, date_stage, temporal_stage, drop_as_of. cbn. rewrite Hd, Ht. reflexivity. }
    rewrite Ep0.
    destruct (pre_sketch st rq) as [s|[l|]] eqn:Ep; try discriminate.
    intros H. apply andb_true_iff in H as [H H3]. apply andb_true_iff in H as [H1 H2].
    unfold sketch_stage_gen. rewrite sketch_on_drop, H1, H3.
    destruct (is_nil cands); [discriminate|]. split; reflexivity.
  Qed.
End Engine.

(* in the empty-intersection branch the current code hands the engine exactly the filter
   built so far (the sketch pre-filter is dropped, the hard filters are kept) *)
Theorem disjoint_keeps_hard_filter st rq cands :
  sketch_disjoint st rq cands = true ->
  exists existing, pre_sketch st rq = Cont (Some existing) /\ existing <> [] /\ cands <> [] /\
    candidate_filter st rq cands = Cont (Some existing) /\
    forall x, In x cands -> ~ In x existing.
Proof.
  unfold sketch_disjoint, candidate_filter, candidate_filter_gen, bind.
  destruct (pre_sketch st rq) as [s|[l|]] eqn:Ep; try discriminate.
  intros H. apply andb_true_iff in H as [H H3]. apply andb_true_iff in H as [H1 H2].
  exists l. split; [reflexivity|]. split; [eapply pre_sketch_nonempty; exact Ep|].
  apply negb_true_iff in H2. split; [apply is_nil_false; assumption|].
  unfold sketch_stage_gen. rewrite H1, H2, H3. split; [reflexivity|].
  intros x Hx Hl. apply is_nil_true in H3.
  assert (Hin : In x (keep_in cands l)) by (apply keep_in_In; auto).
  rewrite H3 in Hin. destruct Hin.
Qed.

(* historical: the code before d76304f handed the engine the sketch set there, none of
   whose members is in the filter built so far *)
Theorem old_fallback_escapes st rq cands :
  sketch_disjoint st rq cands = true ->
  exists existing, pre_sketch st rq = Cont (Some existing) /\ existing <> [] /\ cands <> [] /\
    candidate_filter_old st rq cands = Cont (Some cands) /\
    forall x, In x cands -> ~ In x existing.
Proof.
  unfold sketch_disjoint, candidate_filter_old, candidate_filter_gen, bind.
  destruct (pre_sketch st rq) as [s|[l|]] eqn:Ep; try discriminate.
  intros H. apply andb_true_iff in H as [H H3]. apply andb_true_iff in H as [H1 H2].
  exists l. split; [reflexivity|]. split; [eapply pre_sketch_nonempty; exact Ep|].
  apply negb_true_iff in H2. split; [apply is_nil_false; assumption|].
  unfold sketch_stage_gen. rewrite H1, H2, H3. split; [reflexivity|].
  intros x Hx Hl. apply is_nil_true in H3.
  assert (Hin : In x (keep_in cands l)) by (apply keep_in_In; auto).
  rewrite H3 in Hin. destruct Hin.
Qed.

(* historical: with only as_of_* (no date / temporal filter) the filter built so far IS the
   replay set: the old code handed the engine only ids outside the replay set *)
Theorem old_fallback_all_future st rq cands x :
  rq_date rq = None -> rq_temporal rq = None -> asof_given rq = true ->
  sketch_disjoint st rq cands = true ->
  candidate_filter_old st rq cands = Cont (Some cands) /\
  (In x cands -> ~ In x (replay_ids (st_frames st) (rq_as_of_frame rq) (rq_as_of_ts rq))).
Proof.
  intros Hd Ht Ha Hk. destruct (old_fallback_escapes _ _ _ Hk) as [l [Ep [_ [_ [Hc Hout]]]]].
  split; [assumption|]. intros Hx.
  assert (l = replay_ids (st_frames st) (rq_as_of_frame rq) (rq_as_of_ts rq)) as <-; [|auto].
  revert Ep. unfold pre_sketch, bind, date_stage, temporal_stage, replay_stage, inter_stage.
  rewrite Hd, Ht, Ha. destruct (is_nil (replay_ids _ _ _)); [discriminate|].
  intros E; inversion E; reflexivity.
Qed.

(* the current composition differs from the one before d76304f only in that branch *)
Lemma agrees_with_old_outside_disjoint st rq cands :
  sketch_disjoint st rq cands = false ->
  candidate_filter st rq cands = candidate_filter_old st rq cands.
Proof.
  unfold sketch_disjoint, candidate_filter_old, candidate_filter, candidate_filter_gen, bind.
  destruct (pre_sketch st rq) as [s|[l|]]; try reflexivity.
  unfold sketch_stage_gen. destruct (sketch_on st rq); cbn [andb]; [|reflexivity].
  destruct (is_nil cands); cbn [negb andb]; [reflexivity|].
  destruct (is_nil (keep_in cands l)); [discriminate | reflexivity].
Qed.

(* ---------------------------------------------------------------- the table engine *)
Lemma table_engine_sound U l x : In x (table_engine U (Some l)) -> In x l.
Proof. cbn. intros H. apply filter_In in H as [_ H]. apply mem_id_In. assumption. Qed.

Lemma table_engine_mono U l1 l2 :
  incl l1 l2 -> incl (table_engine U (Some l1)) (table_engine U (Some l2)).
Proof.
  intros Hi x H. cbn in *. apply filter_In in H as [HU H]. apply filter_In. split; [assumption|].
  apply mem_id_In. apply Hi. apply mem_id_In. assumption.
Qed.

Lemma table_engine_none U l : incl (table_engine U (Some l)) (table_engine U None).
Proof. intros x H. cbn in *. apply filter_In in H. tauto. Qed.
