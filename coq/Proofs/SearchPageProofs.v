(* Proofs for C16 (search pagination).

   Layer: the nested page loop equals a single pass (`flat`) over the flattened slice
   stream (`items`); from an offset it skips `offset` items and then takes items until the
   page holds k hits (`takep`); following next_cursor therefore cuts the stream into
   consecutive non-empty intervals (`partition`), whatever the evaluated list, the page
   size, the emit function (tantivy or fallback) and with or without the early break.

   End to end: while the candidate list fits into the first page's doc_limit and the
   per-document snippet cap does not bind, every request of the walk -- and the one-shot
   request -- evaluates the same list, so the layer theorem transfers. *)
From MV Require Import Base.Prelude Base.Facts Base.SortFacts Model.SearchPage.
Require Import ZifyBool ZifyNat ZifyN.

(* ------------------------------------------------------------------ list facts *)
Fixpoint somes {A} (l : list (option A)) : list A :=
  match l with
  | [] => []
  | None :: r => somes r
  | Some x :: r => x :: somes r
  end.

Lemma somes_app {A} (a b : list (option A)) : somes (a ++ b) = somes a ++ somes b.
Proof. induction a as [|[x|] a IH]; cbn [somes app]; [reflexivity| rewrite IH; reflexivity | exact IH]. Qed.

Lemma somes_firstn_skipn {A} (l : list (option A)) n : somes (firstn n l) ++ somes (skipn n l) = somes l.
Proof. rewrite <- somes_app, firstn_skipn. reflexivity. Qed.

Lemma skipn_skipn_add {A} (l : list A) : forall a b, skipn a (skipn b l) = skipn (b + a) l.
Proof.
  induction l as [|x r IH]; intros a b.
  - rewrite !skipn_nil. reflexivity.
  - destruct b as [|b]; cbn [skipn Nat.add]; [reflexivity | apply IH].
Qed.

Lemma len_app {A} (a b : list A) : len (a ++ b) = (len a + len b)%N.
Proof. unfold len. rewrite app_length. lia. Qed.

Lemma len_nil {A} : len (@nil A) = 0%N.
Proof. reflexivity. Qed.

(* ------------------------------------------------------------------ the loop, flattened *)
Section Layer.
  Variable emit : edoc -> N * N -> option hit.

  Definition items (ev : list edoc) : list (option hit) :=
    flat_map (fun d => map (emit d) (e_slices d)) ev.

  (* all hits of the evaluated list, in order: the "result stream" *)
  Definition stream (ev : list edoc) : list hit := somes (items ev).

  Section Loop.
    Variables k offset : N.

    Fixpoint flat (its : list (option hit)) (st : pstate) : pstate :=
      match its with
      | [] => st
      | it :: r =>
          let '(hits, produced) := st in
          if (produced <? offset)%N then flat r (hits, (produced + 1)%N)
          else if (len hits =? k)%N then st
          else match it with
               | None => flat r (hits, (produced + 1)%N)
               | Some h => flat r (hits ++ [h], (produced + 1)%N)
               end
      end.

    Lemma flat_stuck its hits produced :
      len hits = k -> (offset <= produced)%N -> flat its (hits, produced) = (hits, produced).
    Proof.
      intros Hk Ho. destruct its as [|it r]; cbn [flat]; [reflexivity|].
      replace (produced <? offset)%N with false by lia.
      replace (len hits =? k)%N with true by lia. reflexivity.
    Qed.

    Lemma inner_flat d sls st : inner_loop emit k offset d sls st = flat (map (emit d) sls) st.
    Proof.
      revert st. induction sls as [|sl r IH]; intros [hits produced]; cbn [inner_loop flat map]; [reflexivity|].
      destruct (produced <? offset)%N; [apply IH|].
      destruct (len hits =? k)%N; [reflexivity|].
      destruct (emit d sl); apply IH.
    Qed.

    Lemma flat_app a b st : flat (a ++ b) st = flat b (flat a st).
    Proof.
      revert st. induction a as [|it r IH]; intros [hits produced]; cbn [flat app]; [reflexivity|].
      destruct (produced <? offset)%N eqn:E1; [apply IH|].
      destruct (len hits =? k)%N eqn:E2.
      - symmetry. apply flat_stuck; lia.
      - destruct it; apply IH.
    Qed.

    Lemma outer_flat early docs st : outer_loop emit k offset early docs st = flat (items docs) st.
    Proof.
      revert st. induction docs as [|d r IH]; intros [hits produced]; cbn [outer_loop items flat_map]; [reflexivity|].
      fold (items r).
      destruct (early && (len hits =? k)%N && (offset <=? produced)%N) eqn:E.
      - symmetry. apply flat_stuck; lia.
      - rewrite IH, inner_flat, flat_app. reflexivity.
    Qed.

    (* skip phase *)
    Lemma flat_skip its : forall hits produced,
      (produced <= offset)%N -> (offset - produced <= len its)%N ->
      flat its (hits, produced) = flat (skipn (N.to_nat (offset - produced)) its) (hits, offset).
    Proof.
      induction its as [|it r IH]; intros hits produced Hle Hlen.
      - rewrite skipn_nil. cbn [flat]. unfold len in Hlen; cbn [length] in Hlen. f_equal. lia.
      - cbn [flat]. destruct (produced <? offset)%N eqn:E.
        + rewrite IH by (unfold len in *; cbn [length] in Hlen; lia).
          replace (N.to_nat (offset - produced)) with (S (N.to_nat (offset - (produced + 1)))) by lia.
          reflexivity.
        + assert (produced = offset) by lia. subst produced.
          replace (N.to_nat (offset - offset)) with 0 by lia. cbn [skipn flat]. rewrite E. reflexivity.
    Qed.

    (* take phase: specification by a structural function over nat room *)
    Fixpoint takep (its : list (option hit)) (room : nat) : list hit * nat :=
      match its with
      | [] => ([], 0)
      | it :: r =>
          match room with
          | O => ([], 0)
          | S room' =>
              match it with
              | None => (fst (takep r (S room')), S (snd (takep r (S room'))))
              | Some x => (x :: fst (takep r room'), S (snd (takep r room')))
              end
          end
      end.

    Lemma flat_take its : forall room hits produced,
      (offset <= produced)%N -> (len hits + N.of_nat room = k)%N ->
      flat its (hits, produced) =
      (hits ++ fst (takep its room), (produced + N.of_nat (snd (takep its room)))%N).
    Proof.
      induction its as [|it r IH]; intros room hits produced Ho Hk.
      - cbn [flat takep fst snd]. rewrite app_nil_r. f_equal. lia.
      - cbn [flat]. replace (produced <? offset)%N with false by lia.
        destruct room as [|room'].
        + replace (len hits =? k)%N with true by lia. cbn [takep fst snd]. rewrite app_nil_r. f_equal. lia.
        + replace (len hits =? k)%N with false by lia.
          destruct it as [x|].
          * rewrite (IH room') by (rewrite ?len_app; unfold len in *; cbn [length] in *; lia).
            cbn [takep fst snd]. rewrite <- app_assoc. cbn [app]. f_equal. lia.
          * rewrite (IH (S room')) by lia. cbn [takep fst snd]. f_equal. lia.
    Qed.
  End Loop.

  Lemma takep_le its : forall room, snd (takep its room) <= length its.
  Proof.
    induction its as [|it r IH]; intros room; cbn [takep snd length]; [lia|].
    destruct room as [|room']; cbn [snd]; [lia|].
    destruct it; cbn [snd]; [specialize (IH room') | specialize (IH (S room'))]; lia.
  Qed.

  Lemma takep_hits its : forall room, fst (takep its room) = somes (firstn (snd (takep its room)) its).
  Proof.
    induction its as [|it r IH]; intros room; cbn [takep]; [reflexivity|].
    destruct room as [|room']; [reflexivity|].
    destruct it; cbn [fst snd firstn somes]; [rewrite <- IH; reflexivity | apply IH].
  Qed.

  Lemma takep_room its : forall room, length (fst (takep its room)) <= room.
  Proof.
    induction its as [|it r IH]; intros room; cbn [takep fst length]; [lia|].
    destruct room as [|room']; cbn [fst length]; [lia|].
    destruct it; cbn [fst length]; [specialize (IH room') | specialize (IH (S room'))]; lia.
  Qed.

  Lemma takep_progress its room : its <> [] -> room <> 0 -> 1 <= snd (takep its room).
  Proof.
    destruct its as [|it r]; [congruence|]. destruct room as [|room']; [congruence|].
    intros _ _. cbn [takep]. destruct it; cbn [snd]; lia.
  Qed.

  (* a page that stops before the end of the stream is full *)
  Lemma takep_full its : forall room,
    snd (takep its room) < length its -> length (fst (takep its room)) = room.
  Proof.
    induction its as [|it r IH]; intros room; cbn [takep snd fst length]; [lia|].
    destruct room as [|room']; [reflexivity|].
    destruct it; cbn [fst snd length]; intros H; [rewrite IH by lia; reflexivity | apply IH; lia].
  Qed.

  (* room for every hit: all of them are taken *)
  Lemma takep_all its : forall room, length (somes its) <= room -> fst (takep its room) = somes its.
  Proof.
    induction its as [|it r IH]; intros room H; cbn [takep]; [reflexivity|].
    destruct it as [x|]; cbn [somes length] in H |- *.
    - destruct room as [|room']; [lia|]. cbn [fst]. rewrite IH by lia. reflexivity.
    - destruct room as [|room']; [cbn [fst]; destruct (somes r); [reflexivity | cbn [length] in H; lia]|].
      cbn [fst]. apply IH, H.
  Qed.

  Lemma total_slices_items ev : total_slices ev = len (items ev).
  Proof.
    induction ev as [|d r IH]; cbn [total_slices fold_right items flat_map]; [reflexivity|].
    fold (total_slices r). fold (items r). rewrite len_app, IH. unfold len. rewrite map_length. reflexivity.
  Qed.

  (* ---------------------------------------------------------------- one page *)
  Definition page_spec (ev : list edoc) (top_k : N) (start : nat) : page :=
    let its := items ev in
    let t := takep (skipn start its) (N.to_nat (N.max top_k 1)) in
    mkPage (fst t) (len its)
           (if (N.of_nat (start + snd t) <? len its)%N then Some (N.of_nat (start + snd t)) else None).

  Lemma page_of_spec early ev top_k c start :
    parse_cursor c (total_slices ev) = Ok (N.of_nat start) ->
    start <= length (items ev) ->
    page_of early emit ev top_k c = Ok (page_spec ev top_k start).
  Proof.
    intros Hc Hs. unfold page_of. rewrite Hc, outer_flat.
    rewrite flat_skip by (rewrite ?total_slices_items; unfold len; lia).
    rewrite (flat_take _ _ _ (N.to_nat (N.max top_k 1))) by (unfold len; cbn [length]; lia).
    cbn [app]. unfold page_spec. rewrite <- total_slices_items.
    replace (N.to_nat (N.of_nat start - 0)) with start by lia.
    replace (N.of_nat start + N.of_nat (snd (takep (skipn start (items ev)) (N.to_nat (N.max top_k 1)))))%N
      with (N.of_nat (start + snd (takep (skipn start (items ev)) (N.to_nat (N.max top_k 1))))) by lia.
    reflexivity.
  Qed.

  (* ---------------------------------------------------------------- the walk *)
  (* `partition its total start pages`: the pages cut its[start..] into consecutive
     intervals [start, n1) [n1, n2) ... [nj, end), each page holding exactly the hits of
     its interval, announcing the next interval's start, and reporting `total`. *)
  Inductive partition (its : list (option hit)) (total : N) : nat -> list page -> Prop :=
  | part_last start p :
      p_next p = None -> p_total p = total ->
      p_hits p = somes (skipn start its) ->
      partition its total start [p]
  | part_cons start n p ps :
      p_next p = Some (N.of_nat n) -> start < n -> n < length its -> p_total p = total ->
      p_hits p = somes (firstn (n - start) (skipn start its)) ->
      partition its total n ps ->
      partition its total start (p :: ps).

  Lemma partition_concat its total start pages :
    partition its total start pages -> concat (map p_hits pages) = somes (skipn start its).
  Proof.
    induction 1 as [start p _ _ Hh | start n p ps _ Hlt _ _ Hh _ IH]; cbn [map concat].
    - rewrite app_nil_r. exact Hh.
    - rewrite IH, Hh. rewrite <- (somes_firstn_skipn (skipn start its) (n - start)).
      rewrite skipn_skipn_add. replace (start + (n - start)) with n by lia. reflexivity.
  Qed.

  Lemma partition_totals its total start pages :
    partition its total start pages -> Forall (fun p => p_total p = total) pages.
  Proof. induction 1; constructor; auto. Qed.

  Lemma partition_nonempty its total start pages : partition its total start pages -> pages <> [].
  Proof. destruct 1; congruence. Qed.

  Lemma follow_partition early ev top_k : forall fuel start c,
    parse_cursor c (total_slices ev) = Ok (N.of_nat start) ->
    start <= length (items ev) ->
    length (items ev) - start < fuel ->
    exists pages,
      follow fuel (page_of early emit ev top_k) c = (pages, Done) /\
      partition (items ev) (total_slices ev) start pages /\
      length pages <= Nat.max 1 (length (items ev) - start) /\
      Forall (fun p => len (p_hits p) <= N.max top_k 1)%N pages.
  Proof.
    induction fuel as [|f IH]; intros start c Hc Hs Hf; [lia|].
    cbn [follow]. rewrite (page_of_spec _ _ _ _ start Hc Hs).
    set (its := items ev) in *.
    set (t := takep (skipn start its) (N.to_nat (N.max top_k 1))).
    assert (Hle : snd t <= length (skipn start its)) by apply takep_le.
    rewrite skipn_length in Hle.
    assert (Hroom : (len (fst t) <= N.max top_k 1)%N).
    { pose proof (takep_room (skipn start its) (N.to_nat (N.max top_k 1))) as H. fold t in H. unfold len. lia. }
    unfold page_spec. fold its. fold t. cbn [p_next].
    destruct (N.of_nat (start + snd t) <? len its)%N eqn:E.
    - assert (Hlt : start + snd t < length its) by (unfold len in E; lia).
      assert (Hprog : 1 <= snd t).
      { apply takep_progress; [|lia]. intros Hnil. apply (f_equal (@length _)) in Hnil.
        rewrite skipn_length in Hnil. cbn [length] in Hnil. lia. }
      destruct (IH (start + snd t) (cursor_of (N.of_nat (start + snd t)))) as (ps & Hfo & Hpart & Hlen & Hall).
      + unfold cursor_of, parse_cursor. rewrite total_slices_items. fold its.
        replace (len its <? N.of_nat (start + snd t))%N with false by lia. reflexivity.
      + fold its. lia.
      + fold its. lia.
      + rewrite Hfo. eexists; split; [reflexivity|]. split; [|split].
        * eapply part_cons with (n := start + snd t); cbn [p_next p_total p_hits]; try reflexivity; try lia.
          -- rewrite total_slices_items. reflexivity.
          -- replace (start + snd t - start) with (snd t) by lia. apply takep_hits.
          -- exact Hpart.
        * cbn [length]. lia.
        * constructor; [exact Hroom | exact Hall].
    - eexists; split; [reflexivity|]. split; [|split].
      + apply part_last; cbn [p_next p_total p_hits]; [reflexivity | rewrite total_slices_items; reflexivity |].
        unfold t at 1. rewrite takep_hits. fold t.
        rewrite firstn_all2; [reflexivity|]. rewrite skipn_length. unfold len in E. lia.
      + cbn [length]. lia.
      + constructor; [exact Hroom | constructor].
  Qed.

  (* one request whose top_k holds every hit returns the whole stream *)
  Lemma oneshot_spec early ev K :
    (len (stream ev) <= N.max K 1)%N ->
    exists one, page_of early emit ev K None = Ok one /\
                p_hits one = stream ev /\ p_total one = total_slices ev.
  Proof.
    intros HK. eexists. split; [apply (page_of_spec early ev K None 0); [reflexivity | lia]|].
    unfold page_spec. cbn [p_hits p_total skipn]. split; [|symmetry; apply total_slices_items].
    apply takep_all. unfold stream, len in HK. lia.
  Qed.

  Theorem layer_pagination early ev k K :
    (len (stream ev) <= N.max K 1)%N ->
    exists pages one,
      follow (S (N.to_nat (total_slices ev))) (page_of early emit ev k) None = (pages, Done) /\
      page_of early emit ev K None = Ok one /\
      concat (map p_hits pages) = p_hits one /\
      Forall (fun p => p_total p = p_total one) pages /\
      partition (items ev) (total_slices ev) 0 pages /\
      (len pages <= N.max 1 (total_slices ev))%N /\
      Forall (fun p => len (p_hits p) <= N.max k 1)%N pages.
  Proof.
    intros HK.
    destruct (oneshot_spec early ev K HK) as (one & Hone & Hh & Ht).
    destruct (follow_partition early ev k (S (N.to_nat (total_slices ev))) 0 None) as (pages & Hf & Hp & Hl & Ha);
      [reflexivity | lia | rewrite total_slices_items; unfold len; lia |].
    exists pages, one. split; [exact Hf|]. split; [exact Hone|]. split; [|split; [|split; [|split]]].
    - rewrite (partition_concat _ _ _ _ Hp), Hh. reflexivity.
    - rewrite Ht. apply (partition_totals _ _ _ _ Hp).
    - exact Hp.
    - rewrite total_slices_items in *. unfold len in *. lia.
    - exact Ha.
  Qed.
End Layer.

(* ------------------------------------------------------------------ small facts about one page *)
Lemma page_of_next_lt early emit ev k c p n :
  page_of early emit ev k c = Ok p -> p_next p = Some n -> (n < total_slices ev)%N.
Proof.
  unfold page_of. destruct (parse_cursor c (total_slices ev)) as [o| |]; try discriminate.
  destruct (outer_loop emit (N.max k 1) o early ev ([], 0%N)) as [hits produced].
  intros H; inversion H; subst p; clear H. cbn [p_next].
  destruct (produced <? total_slices ev)%N eqn:E; [|discriminate].
  intros H; inversion H; subst. lia.
Qed.

Lemma page_of_total early emit ev k c p :
  page_of early emit ev k c = Ok p -> p_total p = total_slices ev.
Proof.
  unfold page_of. destruct (parse_cursor c (total_slices ev)) as [o| |]; try discriminate.
  destruct (outer_loop emit (N.max k 1) o early ev ([], 0%N)) as [hits produced].
  intros H; inversion H; reflexivity.
Qed.

(* a cursor beyond total_hits is rejected; a cursor equal to total_hits gives an empty last page *)
Lemma cursor_beyond_rejected early emit ev k n padded :
  (total_slices ev < n)%N -> page_of early emit ev k (Some (TInt n padded)) = Err E_CURSOR_BEYOND.
Proof. intros H. unfold page_of, parse_cursor. replace (total_slices ev <? n)%N with true by lia. reflexivity. Qed.

Lemma follow_ext (P : cursor -> Prop) s1 s2 :
  (forall c, P c -> s1 c = s2 c) ->
  (forall c p n, P c -> s2 c = Ok p -> p_next p = Some n -> P (cursor_of n)) ->
  forall fuel c, P c -> follow fuel s1 c = follow fuel s2 c.
Proof.
  intros Heq Hnext. induction fuel as [|f IH]; intros c Hc; cbn [follow]; [reflexivity|].
  rewrite (Heq c Hc). destruct (s2 c) as [p| |] eqn:E; try reflexivity.
  destruct (p_next p) as [n|] eqn:En; [|reflexivity].
  rewrite (IH _ (Hnext c p n Hc E En)). reflexivity.
Qed.

(* ------------------------------------------------------------------ end to end *)
Lemma USIZE_MAX_val : USIZE_MAX = 18446744073709551615%N.
Proof. reflexivity. Qed.

Definition flt_ok (flt : option N) (n : N) : Prop :=
  match flt with
  | None => True
  | Some f => (n <= N.max f 1)%N
  end.

(* since /repo 9b4da04 the sizing arithmetic saturates: doc_limit never panics *)
Lemma doc_limit_total k hint flt : exists L, doc_limit k hint flt = Ok L.
Proof. unfold doc_limit. eexists; reflexivity. Qed.

(* doc_limit is monotone in the cursor: what fits the first page's limit fits every later one *)
Lemma doc_limit_covers n k hint flt L0 :
  doc_limit k 0 None = Ok L0 -> (n <= L0)%N -> flt_ok flt n ->
  exists L, doc_limit k hint flt = Ok L /\ (n <= N.max L 1)%N.
Proof.
  unfold doc_limit, DOC_LIMIT_FACTOR, DOC_LIMIT_FLOOR. rewrite USIZE_MAX_val.
  intros H0 Hn Hf. inversion H0; subst L0; clear H0.
  eexists; split; [reflexivity|].
  destruct flt as [f|]; cbn [flt_ok] in Hf; lia.
Qed.

Lemma slices_eqb_spec a b : slices_eqb a b = true <-> a = b.
Proof.
  apply list_eqb_spec. intros [x1 x2] [y1 y2]; cbn [fst snd].
  rewrite andb_true_iff, !N.eqb_eq. split; [intros [-> ->]; reflexivity | intros H; inversion H; auto].
Qed.

Lemma cap_binds_false cands k K :
  cap_binds cands k K = false ->
  forall c, In c cands -> c_keep c = true -> slices_at c (N.max k 1) = slices_at c (N.max K 1).
Proof.
  intros H c Hin Hk. apply slices_eqb_spec.
  destruct (slices_eqb (slices_at c (N.max k 1)) (slices_at c (N.max K 1))) eqn:E; [reflexivity|].
  exfalso. assert (Ht : cap_binds cands k K = true); [|congruence].
  apply existsb_exists. exists c. split; [exact Hin|]. rewrite Hk, E. reflexivity.
Qed.

Lemma evaluate_cap_eq cands a b :
  (forall c, In c cands -> c_keep c = true -> slices_at c a = slices_at c b) ->
  evaluate a cands = evaluate b cands.
Proof.
  induction cands as [|c r IH]; intros H; [reflexivity|].
  unfold evaluate in *. cbn [flat_map]. rewrite IH by (intros; apply H; [right|]; assumption).
  destruct (c_keep c) eqn:Ek; [|reflexivity]. rewrite (H c (or_introl eq_refl) Ek). reflexivity.
Qed.

Section EndToEndProofs.
  Variable combined : N -> Z -> N.

  Lemma after_engine_page has_lex cands k c :
    (0 < total_slices (resort combined (evaluate (N.max k 1) cands)))%N ->
    after_engine combined has_lex cands k c =
    match page_of true emit_tantivy (resort combined (evaluate (N.max k 1) cands)) k c with
    | Ok p => Ok (Some p)
    | Err e => Err e
    | Panic s => Panic s
    end.
  Proof.
    intros Ht. unfold after_engine.
    destruct cands as [|c0 r]; [cbv in Ht; discriminate|].
    remember (resort combined (evaluate (N.max k 1) (c0 :: r))) as EV eqn:HEV.
    destruct EV as [|d EV']; [cbv in Ht; discriminate|].
    replace (total_slices (d :: EV') =? 0)%N with false by lia. reflexivity.
  Qed.

  (* every request that can occur in the walk evaluates the same list *)
  Lemma e2e_page_fixed has_lex flt cands k c :
    limit_binds cands k = false -> flt_ok flt (len cands) ->
    (0 < total_slices (resort combined (evaluate (N.max k 1) cands)))%N ->
    e2e_page combined has_lex flt cands k c =
    page_of true emit_tantivy (resort combined (evaluate (N.max k 1) cands)) k c.
  Proof.
    intros Hlim Hflt Ht. unfold limit_binds in Hlim.
    destruct (doc_limit k 0 None) as [L0| |] eqn:E0; try discriminate.
    destruct (doc_limit_covers (len cands) k (offset_hint c) flt L0 E0) as (L & HL & Hn); [lia | exact Hflt |].
    unfold e2e_page, e2e_search. rewrite HL.
    rewrite firstn_all2 by (unfold len in *; lia).
    rewrite after_engine_page by exact Ht.
    destruct (page_of true emit_tantivy _ k c); reflexivity.
  Qed.

  Theorem e2e_pagination has_lex flt cands k K :
    limit_binds cands k = false -> limit_binds cands K = false -> cap_binds cands k K = false ->
    flt_ok flt (len cands) ->
    let EV := resort combined (evaluate (N.max k 1) cands) in
    (0 < total_slices EV)%N ->
    (len (stream emit_tantivy EV) <= N.max K 1)%N ->
    exists pages one,
      follow (S (N.to_nat (total_slices EV))) (e2e_page combined has_lex flt cands k) None = (pages, Done) /\
      e2e_page combined has_lex flt cands K None = Ok one /\
      concat (map p_hits pages) = p_hits one /\
      Forall (fun p => p_total p = p_total one) pages /\
      partition (items emit_tantivy EV) (total_slices EV) 0 pages /\
      (len pages <= N.max 1 (total_slices EV))%N /\
      Forall (fun p => len (p_hits p) <= N.max k 1)%N pages.
  Proof.
    intros Hk HK Hcap Hflt EV Ht Hroom.
    destruct (layer_pagination emit_tantivy true EV k K Hroom) as (pages & one & Hf & Hone & Hc & Htot & Hp & Hl & Ha).
    exists pages, one. split; [|split; [|repeat split; assumption]].
    - rewrite <- Hf.
      apply (follow_ext (fun _ => True)); [| trivial | trivial].
      intros c _. apply e2e_page_fixed; assumption.
    - assert (HEV : resort combined (evaluate (N.max K 1) cands) = EV).
      { unfold EV. f_equal. symmetry. apply evaluate_cap_eq. apply cap_binds_false, Hcap. }
      rewrite <- Hone, <- HEV. apply e2e_page_fixed; try assumption.
      rewrite HEV. exact Ht.
  Qed.
End EndToEndProofs.

(* ------------------------------------------------------------------ counting hits (for the witnesses) *)
Definition hit_eqb (a b : hit) : bool :=
  (fst a =? fst b)%N && (fst (snd a) =? fst (snd b))%N && (snd (snd a) =? snd (snd b))%N.
Definition count_hit (h : hit) (l : list hit) : nat := length (filter (hit_eqb h) l).
