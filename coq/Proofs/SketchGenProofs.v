(* What generate_sketch produces, seen from the on-disk format: every Small entry and
   every Large entry it makes is altered by write + read. *)
From MV Require Import Base.Prelude Base.Facts Model.Sketch Proofs.SketchFilterProofs Proofs.SketchTrackProofs.
Require Import ZifyBool ZifyNat ZifyN.
Local Open Scope N_scope.

Lemma sum_ge (l : list (N * Z)) acc : acc <= fold_left (fun a t => a + Z.to_N (snd t)) l acc.
Proof.
  revert acc; induction l as [|p r IH]; intros acc; cbn [fold_left]; [lia|].
  etransitivity; [|apply IH]. lia.
Qed.

Lemma Ok_inj {A} (a b : A) : Ok a = Ok b -> a = b.
Proof. intros E. injection E as E. exact E. Qed.

Section GenKnown.
  Variable token : Type.
  Variable token_eqb : token -> token -> bool.
  Variable hash_token : token -> N.
  Variable raw_weight : token -> N -> Z.
  Hypothesis raw_weight_bound : forall t c, (raw_weight t c <= 715827882)%Z.

  Lemma weights_nonempty t0 r :
    exists p w, compute_token_weights token token_eqb hash_token raw_weight (t0 :: r) = p :: w.
  Proof.
    destruct (compute_token_weights token token_eqb hash_token raw_weight (t0 :: r)) as [|p w] eqn:E.
    - apply (f_equal (@length _)) in E. unfold compute_token_weights in E.
      rewrite wsort_length, map_length in E. cbn [dedup length] in E. discriminate.
    - eauto.
  Qed.

  Lemma generate_small_not_stored fid tokens e :
    generate_sketch token token_eqb hash_token raw_weight fid tokens Small = Ok e ->
    small_fields_ok Small e = false.
  Proof.
    unfold generate_sketch. destruct tokens as [|t0 r].
    - intros E. apply Ok_inj in E. subst e. reflexivity.
    - set (tokens := t0 :: r).
      destruct (build_term_filter _ _) as [flt| |]; try discriminate.
      destruct (weights_nonempty t0 r) as (p & w & Ew). fold tokens in Ew.
      assert (Hp : (1 <= snd p)%Z).
      { eapply (weights_bounded token token_eqb hash_token raw_weight raw_weight_bound tokens).
        rewrite Ew. left. reflexivity. }
      rewrite Ew. cbn [top_terms_count TOP_TERMS_COUNT_SMALL].
      change (firstn TOP_TERMS_COUNT_SMALL (p :: w)) with (p :: firstn 1 w). cbn [fold_left].
      pose proof (sum_ge (firstn 1 w) (0 + Z.to_N (snd p))) as Hge.
      destruct (2 ^ 32 <=? _); [discriminate|].
      intros E. apply Ok_inj in E. subst e. unfold small_fields_ok. cbn [e_wsum e_flags e_len].
      apply andb_false_iff. left. apply andb_false_iff. left. apply N.eqb_neq. lia.
  Qed.

  Lemma generate_large_not_stored fid tokens e :
    generate_sketch token token_eqb hash_token raw_weight fid tokens Large = Ok e ->
    shape_ok Large e = false.
  Proof.
    intros E.
    destruct (generate_sketch_ok token token_eqb hash_token raw_weight raw_weight_bound fid tokens Large)
      as (e' & E' & _ & Hl & _).
    rewrite E in E'. apply Ok_inj in E'. subst e'.
    unfold shape_ok. rewrite Hl. reflexivity.
  Qed.
End GenKnown.

(* one entry outside the on-disk shape / Small fields puts the whole track in the class *)
Lemma forallb_false_of_In {A} (f : A -> bool) x l : In x l -> f x = false -> forallb f l = false.
Proof.
  intros Hin Hf. destruct (forallb f l) eqn:E; [|reflexivity].
  rewrite forallb_forall in E. rewrite (E x Hin) in Hf. discriminate.
Qed.

Section GenTracks.
  Variable token : Type.
  Variable token_eqb : token -> token -> bool.
  Variable hash_token : token -> N.
  Variable raw_weight : token -> N -> Z.
  Hypothesis raw_weight_bound : forall t c, (raw_weight t c <= 715827882)%Z.

  Theorem generated_small_in_known_class fid tokens e t :
    generate_sketch token token_eqb hash_token raw_weight fid tokens Small = Ok e ->
    t_variant t = Small -> In e (t_entries t) -> known_class t = true.
  Proof.
    intros Hg Hv Hin. unfold known_class, known_small_fields. rewrite Hv.
    rewrite (forallb_false_of_In _ e _ Hin (generate_small_not_stored _ _ _ _ raw_weight_bound _ _ _ Hg)).
    cbn [negb]. apply orb_true_r.
  Qed.

  Theorem generated_large_in_known_class fid tokens e t :
    generate_sketch token token_eqb hash_token raw_weight fid tokens Large = Ok e ->
    t_variant t = Large -> In e (t_entries t) -> known_class t = true.
  Proof.
    intros Hg Hv Hin. unfold known_class, known_shape. rewrite Hv.
    rewrite (forallb_false_of_In _ e _ Hin (generate_large_not_stored _ _ _ _ raw_weight_bound _ _ _ Hg)).
    cbn [negb]. rewrite orb_true_r. reflexivity.
  Qed.
End GenTracks.

(* ---------------------------------------------------------------- witnesses *)
(* the recorded finding: one Small entry for frame 3, as generate_sketch makes it
   (flags = ALL | SHORT_TEXT = 23, weight sum 200) *)
Definition witness_entry : entry :=
  mkEntry 3 81985529216486895 (repeat 1 16) [7; 9] 200 23 0.
Definition witness_track : track := mkTrack Small [witness_entry].

Lemma witness_readback :
  read_sketch_track (write_sketch_track witness_track) 0 (N.of_nat (length (write_sketch_track witness_track)))
  = Ok (mkTrack Small [mkEntry 0 81985529216486895 (repeat 1 16) [7; 9] 0 7 0]).
Proof. vm_compute. reflexivity. Qed.

Theorem roundtrip_refuted :
  exists t, track_wf t = true /\
            read_sketch_track (write_sketch_track t) 0 (N.of_nat (length (write_sketch_track t))) <> Ok t.
Proof.
  exists witness_track. split; [vm_compute; reflexivity|].
  rewrite witness_readback. intros E. apply Ok_inj in E. discriminate E.
Qed.

(* a consequence: a Large track made by generate_sketch, written and read back, reports a
   token of its own text as absent (512-bit filter cut to its first 256 bits and then
   probed modulo 256).  Tokens are numbers hashed by the identity here. *)
Definition idtok_sketch (tokens : list N) : outcome entry :=
  generate_sketch N N.eqb (fun x => x) raw_weight_no_idf 0 tokens Large.

Theorem large_readback_false_negative :
  exists tokens e t' e' tok,
    idtok_sketch tokens = Ok e /\ In tok tokens /\
    term_filter_maybe_contains (e_filter e) tok = Ok true /\
    read_sketch_track (write_sketch_track (mkTrack Large [e])) 0
                      (N.of_nat (length (write_sketch_track (mkTrack Large [e])))) = Ok t' /\
    t_entries t' = [e'] /\
    term_filter_maybe_contains (e_filter e') tok = Ok false.
Proof.
  exists [300; 77].
  eexists. eexists. eexists. exists 300.
  split; [vm_compute; reflexivity|].
  split; [left; reflexivity|].
  split; [vm_compute; reflexivity|].
  split; [vm_compute; reflexivity|].
  split; [vm_compute; reflexivity|].
  vm_compute. reflexivity.
Qed.
