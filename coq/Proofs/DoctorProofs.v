(* Proofs about M-Doctor (C21). *)
From MV Require Import Base.Prelude Model.Doctor.
Require Import ZifyBool ZifyNat ZifyN.
Local Open Scope N_scope.

(* ---------- small facts ---------- *)
Lemma succ_neq (n : N) : (n + 1 =? n) = false.
Proof. apply N.eqb_neq. lia. Qed.
Lemma succ_neq' (n : N) : (n =? n + 1) = false.
Proof. apply N.eqb_neq. lia. Qed.
Lemma and_or_absorb (a b : bool) : a && b || b = b.
Proof. destruct a, b; reflexivity. Qed.

Lemma preserves_refl : forall t, preserves t t = true.
Proof.
  induction t as [|[st tg] t IH]; [reflexivity|].
  cbn [preserves fst snd]. unfold active. cbn [fst]. rewrite IH, N.eqb_refl.
  destruct (st =? 0); reflexivity.
Qed.

(* ---------- the files the property is about ---------- *)
Definition log_ok (f : afile) : Prop := match f_wal f with WCorrupt _ => False | _ => True end.

(* in-list: the TOC body decodes, no stale older commit is mistaken for the current one, the log is
   readable, and pointer and footer are not BOTH lost (one of them still locates the TOC) *)
Definition wf (f : afile) : Prop :=
  f_tocdec f = true /\ f_older f = None /\ log_ok f /\
  ((f_footer f = true /\ f_tocbytes f = true) \/ f_ptr f = f_toc f).

Definition replayed (f : afile) : bool := wal_pending (f_wal f).
Definition moved (f : afile) : bool := match f_wal f with WPending ps => existsb is_insert ps | _ => false end.

Definition time_fine (m : afile) : Prop := f_time m = IxOk \/ (f_time m = IxNone /\ f_rows m = []).

(* a file nothing is wrong with: a second doctor run has nothing to do *)
Definition healthy (m : afile) : Prop :=
  f_ptr m = f_toc m /\ f_H m = f_S m /\ f_S m = f_C m /\ f_footer m = true /\ f_tocbytes m = true /\
  f_tocdec m = true /\ f_wal m = WClean /\ time_fine m /\ f_vec m <> IxBad.

(* ---------- stage 1: the open ---------- *)
Lemma existsb_insert_nil_false : forall ps, existsb is_insert ps = true -> nonempty ps = true.
Proof. destruct ps; cbn; congruence. Qed.

Lemma try_open_wf : forall f, wf f -> known_toc_cksum f = false ->
  exists m0, try_open f = (m0, 0) /\
    f_ptr m0 = f_toc m0 /\ f_S m0 = f_C m0 /\ f_tocdec m0 = true /\ f_older m0 = None /\ replayed m0 = false /\
    f_rows m0 = view f /\ f_toc m0 = (if moved f then f_toc f + 1 else f_toc f) /\
    f_vec m0 = (if replayed f then vec_after_replay (f_vec f) else f_vec f) /\
    f_lex m0 = f_lex f /\ f_nvec m0 = f_nvec f /\
    (if replayed f then f_time m0 = IxOk /\ f_footer m0 = true /\ f_tocbytes m0 = true /\ f_H m0 = f_S m0
     else f_time m0 = f_time f /\ f_footer m0 = f_footer f /\ f_tocbytes m0 = f_tocbytes f /\ f_S m0 = f_S f /\
          f_H m0 = (if read_toc f then f_H f else f_S f)).
Proof.
  intros [ptr toc foot H S C footer tocbytes tocdec older wal seq time lex vec nvec rows]
         (Hdec & Hold & Hlog & Hrec) Hk.
  cbn in Hdec, Hold, Hlog, Hrec. subst tocdec older.
  unfold known_toc_cksum in Hk. cbn [f_S f_C f_wal] in Hk.
  unfold try_open, read_toc, recover_toc, view, moved, replayed, with_hdr.
  cbn [f_ptr f_toc f_foot f_H f_S f_C f_footer f_tocbytes f_tocdec f_older f_wal f_seq f_time f_lex f_vec f_nvec f_rows].
  destruct (N.eqb_spec ptr toc) as [->|Hne];
  destruct footer, tocbytes; cbn [andb];
  try (destruct Hrec as [[? ?]|?]; congruence);
  rewrite ?N.eqb_refl; cbn [andb];
  destruct (N.eqb_spec S C) as [->|HSC]; cbn [negb andb] in Hk;
  (destruct wal as [|[|p ps]|ps]; [ | | |destruct Hlog]);
  cbn [nonempty negb] in Hk; try discriminate Hk;
  cbn [f_wal f_ptr f_toc f_foot f_H f_S f_C f_footer f_tocbytes f_tocdec f_older f_seq f_time f_lex f_vec f_nvec f_rows
       nonempty commit_replay existsb];
  rewrite ?N.eqb_refl;
  eexists; (split; [reflexivity|]);
  cbn [f_wal f_ptr f_toc f_foot f_H f_S f_C f_footer f_tocbytes f_tocdec f_older f_seq f_time f_lex f_vec f_nvec f_rows replay fold_left];
  repeat split; try reflexivity;
  try (destruct (is_insert p || existsb is_insert ps); reflexivity).
Qed.

(* ---------- stage 2: the plan ---------- *)
Definition needs_time_of (f : afile) : bool := needs_time (f_rows f) (f_time f).

Lemma needs_vec_or (o : opts) (v : ixst) : needs_vec o v || o_vec o = vec_bad v || o_vec o.
Proof. destruct v; cbn; destruct (o_vec o); reflexivity. Qed.

Lemma compute_wf : forall o f, wf f ->
  pl_heal_ptr (compute o f) = (if f_ptr f =? f_toc f then None else Some (f_toc f)) /\
  pl_heal_ck (compute o f) = (if f_H f =? f_S f then None else Some (f_S f)) /\
  pl_vacuum (compute o f) = o_vac o /\
  pl_time (compute o f) = needs_time_of f || o_time o /\
  pl_lex (compute o f) = o_lex o /\
  pl_vec (compute o f) = vec_bad (f_vec f) || o_vec o /\
  pl_walbad (compute o f) = false /\
  pl_finalize (compute o f) =
    negb (read_toc f) ||
    (negb (f_ptr f =? f_toc f) || negb (f_H f =? f_S f) || replayed f || o_vac o
     || (needs_time_of f || o_time o) || o_lex o || (vec_bad (f_vec f) || o_vec o)).
Proof.
  intros o [ptr toc foot H S C footer tocbytes tocdec older wal seq time lex vec nvec rows]
         (Hdec & Hold & Hlog & Hrec).
  cbn in Hdec, Hold, Hlog, Hrec. subst tocdec older.
  assert (Hwb : wal_bad wal = false) by (destruct wal; [reflexivity|reflexivity|destruct Hlog]).
  unfold compute, probe, find_toc, read_toc, recover_toc, needs_time_of, replayed.
  cbn [f_ptr f_toc f_foot f_H f_S f_C f_footer f_tocbytes f_tocdec f_older f_wal f_seq f_time f_lex f_vec f_nvec f_rows].
  destruct (N.eqb_spec ptr toc) as [->|Hne];
  destruct footer, tocbytes; cbn [andb];
  try (destruct Hrec as [[? ?]|?]; congruence);
  rewrite ?N.eqb_refl; cbn [andb negb];
  cbn [p_found p_off p_S p_recovered p_findings p_pending p_walbad p_needs_time p_needs_lex p_needs_vec
       pl_heal_ptr pl_heal_ck pl_vacuum pl_time pl_lex pl_vec pl_walbad pl_finalize andb negb orb];
  rewrite ?N.eqb_refl, ?and_or_absorb, ?needs_vec_or, ?Hwb;
  try (apply N.eqb_neq in Hne; rewrite Hne); cbn [negb andb orb];
  destruct (H =? S); cbn [negb andb orb];
  repeat split; try reflexivity.
Qed.

Lemma is_noop_wf : forall o f, wf f ->
  is_noop (compute o f) = true <->
  (read_toc f = true /\ f_H f = f_S f /\ replayed f = false /\ needs_time_of f = false /\ vec_bad (f_vec f) = false /\ forces o = false).
Proof.
  intros o f Hwf. destruct (compute_wf o f Hwf) as (_ & _ & _ & _ & _ & _ & _ & Hfin).
  unfold is_noop. rewrite Hfin. unfold forces.
  assert (Hp : read_toc f = true -> (f_ptr f =? f_toc f) = true).
  { unfold read_toc. intros E. apply andb_prop in E as [E _]. apply andb_prop in E as [E _]. apply andb_prop in E as [E _]. exact E. }
  destruct (read_toc f) eqn:Er; [rewrite (Hp eq_refl)|cbn; split; [discriminate|intros (E & _); discriminate E]].
  destruct (N.eqb_spec (f_H f) (f_S f)) as [EH|EH]; cbn [negb orb];
  [|split; [discriminate|intros (_ & E & _); congruence]].
  destruct (replayed f), (needs_time_of f), (vec_bad (f_vec f)), (o_vac o), (o_time o), (o_lex o), (o_vec o);
  cbn; split; try discriminate; try (intros (_ & _ & ? & ? & ? & ?); discriminate); intros _; repeat split; assumption.
Qed.

