(* One replace_all pass on marked text: a window (code point before, some code points,
   code point after) of the result that holds no code point inserted by this pass is a
   window of the input, and the pattern has no match starting at its position there. *)
From MV Require Import Base.Prelude Model.Regex Proofs.RegexProofs.
Require Import ZifyBool ZifyNat.

Lemma lasto_default_irrel {A} (d : option A) a b : lasto None a = lasto None b -> lasto d a = lasto d b.
Proof.
  intros H. destruct a as [|x a].
  - symmetry in H. apply lasto_none_inv in H. subst b. reflexivity.
  - destruct b as [|z b].
    + apply lasto_none_inv in H. discriminate.
    + exact H.
Qed.

Lemma lasto_in {A} (l : list A) y : lasto None l = Some y -> In y l.
Proof. intros H. apply lasto_some_snoc in H. destruct H as (l0 & ->). apply in_or_app. right. left. reflexivity. Qed.

Section Pass.
  Variables is_digit is_space is_word : N -> bool.
  Notation match_at := (match_at is_digit is_space is_word).
  Notation ra_m := (ra_m is_digit is_space is_word).
  Variable n : nat.
  Variable r : regex.
  Variable tokj : mtext.
  Variable j : nat.
  Hypothesis tok_ne : tokj <> [].
  Hypothesis tok_mark : forall y, In y tokj -> snd y = j.

  Lemma tok_head_contra X c v :
    tokj ++ X = c ++ v -> (forall y, In y c -> snd y <> j) -> (forall y, hd_error v = Some y -> snd y <> j) -> False.
  Proof.
    intros E Hc Hv. destruct tokj as [|t tk] eqn:Et; [congruence|].
    assert (Ht : snd t = j) by (apply tok_mark; left; reflexivity).
    destruct c as [|y c]; cbn in E.
    - apply (Hv t); [rewrite <- E; reflexivity|exact Ht].
    - injection E as <- _. apply (Hc t); [left; reflexivity|exact Ht].
  Qed.

  Lemma tok_prefix (T : mtext) : (forall y, In y T -> snd y = j) ->
    forall X u W y, T ++ X = u ++ W -> lasto None u = Some y -> snd y <> j ->
                    exists u1, u = T ++ u1 /\ X = u1 ++ W /\ lasto None u1 = Some y.
  Proof.
    induction T as [|t T IH]; intros HT X u W y E Hl Hy.
    - exists u. repeat split; assumption.
    - destruct u as [|a u2]; [discriminate|]. cbn in E. injection E as <- E.
      destruct u2 as [|b u3].
      + cbn in Hl. injection Hl as <-. exfalso. apply Hy. apply HT. left. reflexivity.
      + destruct (IH (fun z Hz => HT z (or_intror Hz)) X (b :: u3) W y E Hl Hy) as (u1 & E1 & E2 & E3).
        exists u1. rewrite E1. repeat split; assumption.
  Qed.

  Lemma ra_m_nil p s skip after :
    (ra_m n r tokj p s [] skip after = [] /\ (skip <> 0 \/ after = true \/ match_at n r p [] = None))
    \/ ra_m n r tokj p s [] skip after = tokj.
  Proof.
    cbn. destruct skip; [|left; split; [reflexivity|left; discriminate]].
    destruct after; [left; split; [reflexivity|right; left; reflexivity]|].
    destruct (match_at n r p []); [right; reflexivity|left; split; [reflexivity|right; right; reflexivity]].
  Qed.

  Lemma ra_m_cons p s xm ms after :
    (ra_m n r tokj p s (xm :: ms) 0 after = xm :: ra_m n r tokj (Some (fst xm)) (tl s) ms 0 false
     /\ (after = true \/ match_at n r p s = None))
    \/ (exists X, ra_m n r tokj p s (xm :: ms) 0 after = tokj ++ X
                  /\ (X = xm :: ra_m n r tokj (Some (fst xm)) (tl s) ms 0 false
                      \/ exists l, X = ra_m n r tokj (Some (fst xm)) (tl s) ms l true)).
  Proof.
    cbn. destruct (match_at n r p s) as [rest|]; [|left; split; [reflexivity|right; reflexivity]].
    destruct (length s - length rest) as [|l].
    - destruct after; [left; split; [reflexivity|left; reflexivity]|].
      right. eexists. split; [reflexivity|left; reflexivity].
    - right. eexists. split; [reflexivity|right; exists l; reflexivity].
  Qed.

  (* a run of kept code points at the start of the result is a run at the start of the input *)
  Lemma kept_prefix : forall c ms p s after v,
    ra_m n r tokj p s ms 0 after = c ++ v ->
    (forall y, In y c -> snd y <> j) -> (forall y, hd_error v = Some y -> snd y <> j) ->
    exists v', ms = c ++ v' /\ hd_error v' = hd_error v.
  Proof.
    induction c as [|y c IH]; intros ms p s after v E Hc Hv.
    - destruct ms as [|xm ms].
      + exists []. split; [reflexivity|].
        destruct (ra_m_nil p s 0 after) as [[E0 _]|E0]; rewrite E0 in E.
        * cbn in E. subst v. reflexivity.
        * exfalso. apply (tok_head_contra [] [] v); [rewrite app_nil_r; exact E|exact Hc|exact Hv].
      + exists (xm :: ms). split; [reflexivity|].
        destruct (ra_m_cons p s xm ms after) as [[E0 _]|(X & E0 & _)]; rewrite E0 in E.
        * cbn in E. subst v. reflexivity.
        * exfalso. apply (tok_head_contra X [] v); assumption.
    - destruct ms as [|xm ms].
      + exfalso. destruct (ra_m_nil p s 0 after) as [[E0 _]|E0]; rewrite E0 in E.
        * discriminate.
        * apply (tok_head_contra [] (y :: c) v); [rewrite app_nil_r; exact E|exact Hc|exact Hv].
      + destruct (ra_m_cons p s xm ms after) as [[E0 _]|(X & E0 & _)]; rewrite E0 in E.
        * cbn in E. injection E as -> E.
          destruct (IH ms _ _ _ v E (fun z Hz => Hc z (or_intror Hz)) Hv) as (v' & -> & Hh).
          exists v'. split; [reflexivity|exact Hh].
        * exfalso. apply (tok_head_contra X (y :: c) v); assumption.
  Qed.

  Theorem pass_pullback : forall ms p s skip after u c v,
    s = map fst ms ->
    ra_m n r tokj p s ms skip after = u ++ c ++ v ->
    ((u = [] /\ skip = 0 /\ after = false) \/ (exists y, lasto None u = Some y /\ snd y <> j)) ->
    (forall y, In y c -> snd y <> j) -> (forall y, hd_error v = Some y -> snd y <> j) ->
    exists u' v', ms = u' ++ c ++ v' /\ lasto None u' = lasto None u /\ hd_error v' = hd_error v /\
                  match_at n r (lasto p (map fst u')) (map fst (c ++ v')) = None.
  Proof.
    induction ms as [|xm ms IH]; intros p s skip after u c v Es E Pre Hc Hv.
    - destruct Pre as [(-> & -> & ->)|(y & Hy & Hyj)].
      + cbn [app] in E. destruct (ra_m_nil p s 0 false) as [[E0 Hn]|E0]; rewrite E0 in E.
        * symmetry in E. apply app_eq_nil in E. destruct E as [-> ->].
          exists [], []. repeat split. cbn.
          destruct Hn as [Hn|[Hn|Hn]]; [congruence|discriminate|exact Hn].
        * exfalso. apply (tok_head_contra [] c v); [rewrite app_nil_r; exact E|exact Hc|exact Hv].
      + exfalso. pose proof (lasto_in _ _ Hy) as Hin.
        destruct (ra_m_nil p s skip after) as [[E0 _]|E0]; rewrite E0 in E.
        * destruct u; [exact Hin|discriminate].
        * apply Hyj. apply tok_mark. rewrite E. apply in_or_app. left. exact Hin.
    - cbn [map] in Es. assert (Etl : tl s = map fst ms) by (rewrite Es; reflexivity).
      (* continuing below the head, the prefix u1 ending in the kept code point y *)
      assert (Below : forall k aft u1 y,
                 ra_m n r tokj (Some (fst xm)) (tl s) ms k aft = u1 ++ c ++ v ->
                 lasto None u1 = Some y -> snd y <> j ->
                 exists u' v', xm :: ms = u' ++ c ++ v' /\ lasto None u' = Some y /\ hd_error v' = hd_error v /\
                               match_at n r (lasto p (map fst u')) (map fst (c ++ v')) = None).
      { intros k aft u1 y E1 Hy Hyj.
        destruct (IH (Some (fst xm)) (tl s) k aft u1 c v Etl E1 (or_intror (ex_intro _ y (conj Hy Hyj))) Hc Hv)
          as (u' & v' & Em & Hl & Hh & Hm).
        exists (xm :: u'), v'. split; [rewrite Em; reflexivity|]. split; [|split; [exact Hh|exact Hm]].
        rewrite lasto_cons. rewrite (lasto_nonempty _ None); [congruence|].
        apply (lasto_some_nonempty _ y). congruence. }
      (* the head is kept and the prefix u1 = xm :: ... ends in the kept code point y *)
      assert (Kept : forall u1 y,
                 xm :: ra_m n r tokj (Some (fst xm)) (tl s) ms 0 false = u1 ++ c ++ v ->
                 lasto None u1 = Some y -> snd y <> j ->
                 exists u' v', xm :: ms = u' ++ c ++ v' /\ lasto None u' = Some y /\ hd_error v' = hd_error v /\
                               match_at n r (lasto p (map fst u')) (map fst (c ++ v')) = None).
      { intros u1 y E1 Hy Hyj. destruct u1 as [|a u2]; [discriminate|]. cbn in E1. injection E1 as <- E1.
        destruct u2 as [|b u3].
        - cbn in Hy. injection Hy as <-.
          destruct (IH (Some (fst xm)) (tl s) 0 false [] c v Etl E1 (or_introl (conj eq_refl (conj eq_refl eq_refl))) Hc Hv)
            as (u' & v' & Em & Hl & Hh & Hm).
          apply lasto_none_inv in Hl. subst u'.
          exists [xm], v'. split; [rewrite Em; reflexivity|]. split; [reflexivity|]. split; [exact Hh|exact Hm].
        - rewrite lasto_cons in Hy. rewrite (lasto_nonempty _ None) in Hy by discriminate.
          apply (Below 0 false (b :: u3) y E1 Hy Hyj). }
      destruct Pre as [(-> & -> & ->)|(y & Hy & Hyj)].
      + cbn [app] in E. destruct (ra_m_cons p s xm ms false) as [[E0 Hn]|(X & E0 & _)]; rewrite E0 in E.
        * rewrite <- E0 in E. destruct (kept_prefix _ _ _ _ _ _ E Hc Hv) as (v' & Em & Hh).
          exists [], v'. split; [exact Em|]. split; [reflexivity|]. split; [exact Hh|].
          cbn [map lasto fold_left app]. rewrite <- Em. cbn [map]. rewrite <- Es.
          destruct Hn as [Hn|Hn]; [discriminate|exact Hn].
        * exfalso. apply (tok_head_contra X c v); assumption.
      + rewrite Hy. destruct skip as [|k].
        * destruct (ra_m_cons p s xm ms after) as [[E0 _]|(X & E0 & HX)]; rewrite E0 in E.
          -- apply (Kept u y E Hy Hyj).
          -- destruct (tok_prefix tokj tok_mark X u (c ++ v) y E Hy Hyj) as (u1 & Eu & EX & Hy1).
             destruct HX as [HX|(l & HX)]; rewrite HX in EX.
             ++ apply (Kept u1 y EX Hy1 Hyj).
             ++ apply (Below l true u1 y EX Hy1 Hyj).
        * cbn [Regex.ra_m] in E. apply (Below k true u y E Hy Hyj).
  Qed.

  (* marks of the result: copied from the input or the mark of the token *)
  Lemma ra_m_marks : forall ms p s skip after y,
    In y (ra_m n r tokj p s ms skip after) -> In y ms \/ In y tokj.
  Proof.
    induction ms as [|xm ms IH]; intros p s skip after y H.
    - destruct (ra_m_nil p s skip after) as [[E0 _]|E0]; rewrite E0 in H; [destruct H|right; exact H].
    - destruct skip as [|k].
      + destruct (ra_m_cons p s xm ms after) as [[E0 _]|(X & E0 & HX)]; rewrite E0 in H.
        * destruct H as [<-|H]; [left; left; reflexivity|].
          destruct (IH _ _ _ _ _ H) as [H1|H1]; [left; right; exact H1|right; exact H1].
        * apply in_app_or in H. destruct H as [H|H]; [right; exact H|].
          destruct HX as [HX|(l & HX)]; rewrite HX in H.
          -- destruct H as [<-|H]; [left; left; reflexivity|].
             destruct (IH _ _ _ _ _ H) as [H1|H1]; [left; right; exact H1|right; exact H1].
          -- destruct (IH _ _ _ _ _ H) as [H1|H1]; [left; right; exact H1|right; exact H1].
      + cbn [Regex.ra_m] in H.
        destruct (IH _ _ _ _ _ H) as [H1|H1]; [left; right; exact H1|right; exact H1].
  Qed.
End Pass.
