(* write_sketch_track / read_sketch_track: what exactly comes back, and for which
   tracks that is the track that was written. *)
From MV Require Import Base.Prelude Base.Facts Model.Sketch.
Require Import ZifyBool ZifyNat ZifyN.
Local Open Scope N_scope.

(* ---------------------------------------------------------------- slices of concatenations *)
Lemma slice_take {A} (a b : list A) n : length a = n -> slice (a ++ b) 0 n = a.
Proof.
  intros <-. unfold slice. cbn [skipn]. rewrite firstn_app, Nat.sub_diag, firstn_all.
  cbn [firstn]. apply app_nil_r.
Qed.

Lemma slice_skip {A} (a b : list A) off n k :
  length a = k -> (k <= off)%nat -> slice (a ++ b) off n = slice b (off - k) n.
Proof.
  intros <- H. unfold slice. rewrite skipn_app. rewrite (skipn_all2 a) by lia. reflexivity.
Qed.

Lemma firstn_exact {A} (a b : list A) n : length a = n -> firstn n (a ++ b) = a.
Proof. intros <-. rewrite firstn_app, Nat.sub_diag, firstn_all. cbn [firstn]. apply app_nil_r. Qed.

Lemma skipn_exact {A} (a b : list A) n : length a = n -> skipn n (a ++ b) = b.
Proof. intros <-. rewrite skipn_app, skipn_all, Nat.sub_diag. reflexivity. Qed.

(* ---------------------------------------------------------------- lengths *)
Lemma pad_length {A} (d : A) n l : length (pad d n l) = n.
Proof. unfold pad. rewrite firstn_length, app_length, repeat_length. lia. Qed.

Lemma pad_fix {A} (d : A) n l : pad d n l = l <-> length l = n.
Proof.
  split.
  - intros E. rewrite <- E. apply pad_length.
  - intros <-. unfold pad. apply firstn_exact. reflexivity.
Qed.

Lemma enc_u32s_length l : length (enc_u32s l) = (4 * length l)%nat.
Proof.
  induction l as [|x r IH]; [reflexivity|].
  unfold enc_u32s in *. cbn [flat_map]. rewrite app_length, le_encode_length, IH. cbn [length]. lia.
Qed.

Lemma small_filter_length f : length (small_filter f) = 16%nat.
Proof.
  unfold small_filter, TERM_FILTER_SIZE_SMALL. destruct (Nat.leb_spec 16 (length f)).
  - rewrite firstn_length. lia.
  - apply repeat_length.
Qed.

Lemma small_filter_fix f : small_filter f = f <-> length f = 16%nat.
Proof.
  split.
  - intros E. rewrite <- E. apply small_filter_length.
  - intros E. unfold small_filter, TERM_FILTER_SIZE_SMALL. rewrite E. cbn [Nat.leb].
    rewrite <- E. apply firstn_all.
Qed.

Lemma medium_filter_length f : length (medium_filter f) = 32%nat.
Proof.
  unfold medium_filter, TERM_FILTER_SIZE_MEDIUM. destruct (Nat.leb_spec 32 (length f)).
  - rewrite firstn_length. lia.
  - rewrite app_length, repeat_length. lia.
Qed.

Lemma medium_filter_fix f : medium_filter f = f <-> length f = 32%nat.
Proof.
  split.
  - intros E. rewrite <- E. apply medium_filter_length.
  - intros E. unfold medium_filter, TERM_FILTER_SIZE_MEDIUM. rewrite E. cbn [Nat.leb].
    rewrite <- E. apply firstn_all.
Qed.

Lemma to_small_bytes_length e : length (to_small_bytes e) = 32%nat.
Proof.
  unfold to_small_bytes. rewrite !app_length, le_encode_length, small_filter_length, enc_u32s_length, pad_length.
  reflexivity.
Qed.

Lemma to_medium_bytes_length e : length (to_medium_bytes e) = 64%nat.
Proof.
  unfold to_medium_bytes.
  rewrite !app_length, !le_encode_length, medium_filter_length, enc_u32s_length, pad_length. reflexivity.
Qed.

Lemma entry_bytes_length v e : length (entry_bytes v e) = entry_size v.
Proof.
  destruct v; cbn [entry_bytes entry_size].
  - apply to_small_bytes_length.
  - apply to_medium_bytes_length.
  - rewrite app_length, to_medium_bytes_length, repeat_length. reflexivity.
Qed.

Lemma header_bytes_length v n : length (header_bytes v n) = 24%nat.
Proof. unfold header_bytes. rewrite !app_length, !le_encode_length. reflexivity. Qed.

Lemma flat_entry_bytes_length v l :
  length (flat_map (entry_bytes v) l) = (length l * entry_size v)%nat.
Proof.
  induction l as [|e r IH]; [reflexivity|].
  cbn [flat_map length]. rewrite app_length, entry_bytes_length, IH. lia.
Qed.

(* ---------------------------------------------------------------- padded vectors *)
Lemma pad_forallb {A} (P : A -> bool) d n l :
  P d = true -> forallb P l = true -> forallb P (pad d n l) = true.
Proof.
  intros Hd Hl. apply forallb_forall. intros x Hx. unfold pad in Hx.
  assert (Hin : In x (l ++ repeat d n)).
  { revert Hx. generalize (l ++ repeat d n). induction n as [|n IH]; intros [|y r]; cbn [firstn In]; try tauto.
    intros [->|H]; [left; reflexivity | right; apply IH; exact H]. }
  apply in_app_or in Hin as [Hin|Hin].
  - eapply forallb_forall in Hl; eauto.
  - apply repeat_spec in Hin. subst x. exact Hd.
Qed.

Lemma list2 {A} (l : list A) : length l = 2%nat -> exists a b, l = [a; b].
Proof. destruct l as [|a [|b [|c r]]]; try discriminate. eauto. Qed.
Lemma list4 {A} (l : list A) : length l = 4%nat -> exists a b c d, l = [a; b; c; d].
Proof. destruct l as [|a [|b [|c [|d [|x r]]]]]; try discriminate. intros _. exists a, b, c, d. reflexivity. Qed.

(* ---------------------------------------------------------------- entry codecs *)
Ltac sk k := rewrite (slice_skip _ _ _ _ k)
  by first [ apply le_encode_length | apply small_filter_length | apply medium_filter_length | reflexivity | lia ];
  cbn [Nat.sub].
Ltac tk := rewrite slice_take
  by first [ apply le_encode_length | apply small_filter_length | apply medium_filter_length | reflexivity ].

Lemma u32_dec x : x < 2 ^ 32 -> le_decode (le_encode 4 x) = x.
Proof. intros H. apply le_decode_encode. exact H. Qed.
Lemma u16_dec x : x < 2 ^ 16 -> le_decode (le_encode 2 x) = x.
Proof. intros H. apply le_decode_encode. exact H. Qed.
Lemma u64_dec x : x < 2 ^ 64 -> le_decode (le_encode 8 x) = x.
Proof. intros H. apply le_decode_encode. exact H. Qed.

Lemma entry_wf_inv e :
  entry_wf e = true ->
  e_frame_id e < 2 ^ 64 /\ e_simhash e < 2 ^ 64 /\ bytes_ok (e_filter e) = true /\
  forallb (fun x => x <? 2 ^ 32) (e_top e) = true /\
  e_wsum e < 2 ^ 16 /\ e_flags e < 2 ^ 16 /\ e_len e < 2 ^ 16.
Proof.
  unfold entry_wf. rewrite !andb_true_iff, !N.ltb_lt. tauto.
Qed.

Lemma from_small_to_small i e :
  entry_wf e = true -> from_small_bytes i (to_small_bytes e) = norm_entry Small i e.
Proof.
  intros Hwf. apply entry_wf_inv in Hwf as (_ & Hs & _ & Ht & _).
  assert (Hp : forallb (fun x => x <? 2 ^ 32) (pad 0 TOP_TERMS_COUNT_SMALL (e_top e)) = true)
    by (apply pad_forallb; [reflexivity | exact Ht]).
  unfold from_small_bytes, to_small_bytes, norm_entry, u64_at, u32_at.
  destruct (list2 (pad 0 TOP_TERMS_COUNT_SMALL (e_top e)) (pad_length _ _ _)) as (a & b & Ep).
  rewrite Ep in *. cbn [forallb] in Hp. rewrite !andb_true_iff, !N.ltb_lt in Hp. destruct Hp as (Ha & Hb & _).
  unfold enc_u32s. cbn [flat_map].
  f_equal.
  - tk. apply u64_dec. exact Hs.
  - sk 8%nat. tk. reflexivity.
  - f_equal; [|f_equal].
    + sk 8%nat. sk 16%nat. tk. apply u32_dec. exact Ha.
    + sk 8%nat. sk 16%nat. sk 4%nat. tk. apply u32_dec. exact Hb.
Qed.

Lemma from_medium_to_medium i e :
  entry_wf e = true -> from_medium_bytes i (to_medium_bytes e) = norm_entry Medium i e.
Proof.
  intros Hwf. apply entry_wf_inv in Hwf as (_ & Hs & _ & Ht & Hw & Hf & Hl).
  assert (Hp : forallb (fun x => x <? 2 ^ 32) (pad 0 TOP_TERMS_COUNT_MEDIUM (e_top e)) = true)
    by (apply pad_forallb; [reflexivity | exact Ht]).
  unfold from_medium_bytes, to_medium_bytes, norm_entry, u64_at, u32_at, u16_at.
  destruct (list4 (pad 0 TOP_TERMS_COUNT_MEDIUM (e_top e)) (pad_length _ _ _)) as (a & b & c & d & Ep).
  rewrite Ep in *. cbn [forallb] in Hp. rewrite !andb_true_iff, !N.ltb_lt in Hp.
  destruct Hp as (Ha & Hb & Hc & Hd & _).
  unfold enc_u32s. cbn [flat_map]. rewrite <- !app_assoc. cbn [app].
  f_equal.
  - tk. apply u64_dec. exact Hs.
  - sk 8%nat. tk. reflexivity.
  - f_equal; [|f_equal; [|f_equal; [|f_equal]]].
    + sk 8%nat. sk 32%nat. tk. apply u32_dec. exact Ha.
    + sk 8%nat. sk 32%nat. sk 4%nat. tk. apply u32_dec. exact Hb.
    + sk 8%nat. sk 32%nat. sk 4%nat. sk 4%nat. tk. apply u32_dec. exact Hc.
    + sk 8%nat. sk 32%nat. sk 4%nat. sk 4%nat. sk 4%nat. tk. apply u32_dec. exact Hd.
  - sk 8%nat. sk 32%nat. sk 4%nat. sk 4%nat. sk 4%nat. sk 4%nat. tk. apply u16_dec. exact Hw.
  - sk 8%nat. sk 32%nat. sk 4%nat. sk 4%nat. sk 4%nat. sk 4%nat. sk 2%nat. tk. apply u16_dec. exact Hf.
  - sk 8%nat. sk 32%nat. sk 4%nat. sk 4%nat. sk 4%nat. sk 4%nat. sk 2%nat. sk 2%nat. tk. apply u16_dec. exact Hl.
Qed.

Lemma parse_entry_bytes v i e :
  entry_wf e = true -> parse_entry v i (entry_bytes v e) = norm_entry v i e.
Proof.
  intros Hwf. destruct v; cbn [parse_entry entry_bytes].
  - apply from_small_to_small. exact Hwf.
  - rewrite firstn_all2 by (rewrite to_medium_bytes_length; unfold ENTRY_SIZE_MEDIUM; lia).
    apply from_medium_to_medium. exact Hwf.
  - rewrite firstn_exact by apply to_medium_bytes_length.
    apply from_medium_to_medium. exact Hwf.
Qed.

(* ---------------------------------------------------------------- insert *)
Lemma insert_fresh l e :
  (forall x, In x l -> e_frame_id x <> e_frame_id e) -> insert_entry l e = l ++ [e].
Proof.
  induction l as [|x r IH]; intros H; cbn [insert_entry app]; [reflexivity|].
  destruct (N.eqb_spec (e_frame_id x) (e_frame_id e)) as [E|_].
  - exfalso. apply (H x); [left; reflexivity | exact E].
  - rewrite IH; [reflexivity|]. intros y Hy. apply H. right. exact Hy.
Qed.

Lemma norm_entry_id v i e : e_frame_id (norm_entry v i e) = i.
Proof. destruct v; reflexivity. Qed.

(* ---------------------------------------------------------------- the read loop *)
Lemma read_entries_flat v l : forall i acc suf,
  forallb entry_wf l = true ->
  (forall x, In x acc -> e_frame_id x < i) ->
  read_entries v (length l) i (flat_map (entry_bytes v) l ++ suf) acc = Ok (acc ++ norm_from v i l).
Proof.
  induction l as [|e r IH]; intros i acc suf Hwf Hacc.
  - cbn [length read_entries norm_from]. rewrite app_nil_r. reflexivity.
  - cbn [forallb] in Hwf. apply andb_true_iff in Hwf as [He Hr].
    cbn [length read_entries norm_from flat_map]. rewrite <- app_assoc.
    assert (Hlt : Nat.ltb (length (entry_bytes v e ++ flat_map (entry_bytes v) r ++ suf)) (entry_size v) = false).
    { apply Nat.ltb_ge. rewrite app_length, entry_bytes_length. lia. }
    rewrite Hlt.
    rewrite firstn_exact by apply entry_bytes_length.
    rewrite skipn_exact by apply entry_bytes_length.
    rewrite parse_entry_bytes by exact He.
    rewrite insert_fresh.
    + rewrite IH; [rewrite <- app_assoc; reflexivity | exact Hr |].
      intros x Hx. apply in_app_or in Hx as [Hx|[<-|[]]].
      * specialize (Hacc x Hx). lia.
      * rewrite norm_entry_id. lia.
    + intros x Hx. rewrite norm_entry_id. specialize (Hacc x Hx). lia.
Qed.

(* ---------------------------------------------------------------- header *)
Lemma entry_size_N v : N.of_nat (entry_size v) = match v with Small => 32 | Medium => 64 | Large => 96 end.
Proof. destruct v; reflexivity. Qed.

Lemma variant_of_entry_size v : variant_of_size (N.of_nat (entry_size v)) = Some v.
Proof. destruct v; reflexivity. Qed.

Lemma header_fields v n :
  n < 2 ^ 64 ->
  slice (header_bytes v n) 0 4 = SKETCH_TRACK_MAGIC /\
  u16_at (header_bytes v n) 6 = N.of_nat (entry_size v) /\
  u64_at (header_bytes v n) 8 = n.
Proof.
  intros Hn. unfold header_bytes, u16_at, u64_at. split; [|split].
  - tk. reflexivity.
  - sk 4%nat. sk 2%nat. tk. apply u16_dec. rewrite entry_size_N. destruct v; reflexivity.
  - sk 4%nat. sk 2%nat. sk 2%nat. tk. apply u64_dec. exact Hn.
Qed.

(* ---------------------------------------------------------------- read after write *)
Theorem read_write_readback pre suf t :
  track_wf t = true ->
  read_sketch_track (pre ++ write_sketch_track t ++ suf)
                    (N.of_nat (length pre)) (N.of_nat (length (write_sketch_track t)))
  = Ok (readback t).
Proof.
  destruct t as [v l]. unfold track_wf, write_sketch_track, readback. cbn [t_variant t_entries].
  intros Hwf. apply andb_true_iff in Hwf as [Hwf Hfit]. apply N.ltb_lt in Hfit.
  set (n := N.of_nat (length l)) in *.
  set (H := header_bytes v n). set (B := flat_map (entry_bytes v) l).
  assert (HlenH : length H = 24%nat) by apply header_bytes_length.
  assert (HlenB : length B = (length l * entry_size v)%nat) by apply flat_entry_bytes_length.
  assert (Hn : n < 2 ^ 64) by lia.
  destruct (header_fields v n Hn) as (Hmagic & Hesz & Hcount). fold H in Hmagic, Hesz, Hcount.
  assert (Hes : 32 <= N.of_nat (entry_size v) <= 96) by (rewrite entry_size_N; destruct v; lia).
  unfold read_sketch_track.
  (* seek *)
  assert (E1 : (N.of_nat (length (pre ++ (H ++ B) ++ suf)) <? N.of_nat (length pre)) = false).
  { apply N.ltb_ge. rewrite app_length. lia. }
  rewrite E1. rewrite Nat2N.id. rewrite skipn_exact by reflexivity. rewrite <- app_assoc.
  (* header *)
  assert (E2 : Nat.ltb (length (H ++ B ++ suf)) SKETCH_HEADER_SIZE = false).
  { apply Nat.ltb_ge. rewrite app_length, HlenH. unfold SKETCH_HEADER_SIZE. lia. }
  rewrite E2. cbv zeta.
  unfold SKETCH_HEADER_SIZE. rewrite (firstn_exact H) by exact HlenH.
  rewrite Hmagic, bytes_eqb_refl. cbn [negb]. rewrite Hesz, Hcount, variant_of_entry_size.
  (* length checks *)
  assert (E3 : (2 ^ 64 <=? n * N.of_nat (entry_size v)) = false) by (apply N.leb_gt; nia).
  assert (E4 : (2 ^ 64 <=? N.of_nat 24 + n * N.of_nat (entry_size v)) = false) by (apply N.leb_gt; nia).
  assert (E5 : (N.of_nat (length (H ++ B)) <? N.of_nat 24 + n * N.of_nat (entry_size v)) = false).
  { apply N.ltb_ge. rewrite app_length, HlenH, HlenB. unfold n. lia. }
  rewrite E3, E4, E5.
  rewrite (skipn_exact H) by exact HlenH.
  assert (E6 : (N.of_nat (length (B ++ suf)) / N.of_nat (entry_size v) <? n) = false).
  { apply N.ltb_ge. apply N.div_le_lower_bound; [lia|]. rewrite app_length, HlenB. unfold n. lia. }
  rewrite E6. unfold n. rewrite Nat2N.id. unfold B.
  rewrite read_entries_flat; [reflexivity | exact Hwf | intros x []].
Qed.

(* ---------------------------------------------------------------- which tracks are unchanged *)
Lemma norm_entry_fix v i e :
  norm_entry v i e = e <-> (e_frame_id e = i /\ shape_ok v e = true /\ small_fields_ok v e = true).
Proof.
  destruct e as [fid sh flt top ws fl ln].
  unfold shape_ok, small_fields_ok. cbn [e_frame_id e_filter e_top e_wsum e_flags e_len].
  rewrite andb_true_iff, !Nat.eqb_eq.
  destruct v; cbn [norm_entry disk_filter_size disk_top_count e_simhash e_filter e_top e_wsum e_flags e_len].
  - rewrite !andb_true_iff, !N.eqb_eq. split.
    + intros E. injection E as E1 E2 E3 E4 E5 E6.
      apply small_filter_fix in E2. apply pad_fix in E3. unfold TOP_TERMS_COUNT_SMALL in E3. auto 10.
    + intros (-> & (Hf & Ht) & (-> & ->) & ->).
      apply small_filter_fix in Hf. apply (pad_fix 0) in Ht. unfold TOP_TERMS_COUNT_SMALL.
      rewrite Hf, Ht. reflexivity.
  - split.
    + intros E. injection E as E1 E2 E3.
      apply medium_filter_fix in E2. apply pad_fix in E3. unfold TOP_TERMS_COUNT_MEDIUM in E3. auto.
    + intros (-> & (Hf & Ht) & _).
      apply medium_filter_fix in Hf. apply (pad_fix 0) in Ht. unfold TOP_TERMS_COUNT_MEDIUM.
      rewrite Hf, Ht. reflexivity.
  - split.
    + intros E. injection E as E1 E2 E3.
      apply medium_filter_fix in E2. apply pad_fix in E3. unfold TOP_TERMS_COUNT_MEDIUM in E3. auto.
    + intros (-> & (Hf & Ht) & _).
      apply medium_filter_fix in Hf. apply (pad_fix 0) in Ht. unfold TOP_TERMS_COUNT_MEDIUM.
      rewrite Hf, Ht. reflexivity.
Qed.

Lemma norm_from_fix v l : forall i,
  norm_from v i l = l <->
  (map e_frame_id l = nseq i (length l) /\ forallb (shape_ok v) l = true /\ forallb (small_fields_ok v) l = true).
Proof.
  induction l as [|e r IH]; intros i; cbn [norm_from map length nseq forallb].
  - tauto.
  - rewrite !andb_true_iff. split.
    + intros E. injection E as E1 E2. apply norm_entry_fix in E1 as (Hi & Hs & Hf).
      apply IH in E2 as (Hm & Hs' & Hf'). rewrite Hi, Hm. auto.
    + intros (Hm & (Hs & Hs') & (Hf & Hf')). injection Hm as Hi Hm.
      f_equal; [apply norm_entry_fix; auto | apply IH; auto].
Qed.

Theorem readback_fix t : readback t = t <-> known_class t = false.
Proof.
  destruct t as [v l]. unfold readback, known_class, known_ids, known_shape, known_small_fields.
  cbn [t_variant t_entries]. rewrite !orb_false_iff, !negb_false_iff.
  rewrite (list_eqb_spec N.eqb N.eqb_eq).
  pose proof (norm_from_fix v l 0) as F. split.
  - intros E. injection E as E. apply F in E. tauto.
  - intros Hk. f_equal. apply F. tauto.
Qed.

(* ---------------------------------------------------------------- the round-trip statements *)
Theorem roundtrip_iff pre suf t :
  track_wf t = true ->
  (read_sketch_track (pre ++ write_sketch_track t ++ suf)
                     (N.of_nat (length pre)) (N.of_nat (length (write_sketch_track t))) = Ok t
   <-> known_class t = false).
Proof.
  intros Hwf. rewrite read_write_readback by exact Hwf. rewrite <- readback_fix. split.
  - intros E. injection E as E. exact E.
  - intros ->. reflexivity.
Qed.

Theorem roundtrip_outside_known pre suf t :
  track_wf t = true -> known_class t = false ->
  read_sketch_track (pre ++ write_sketch_track t ++ suf)
                    (N.of_nat (length pre)) (N.of_nat (length (write_sketch_track t))) = Ok t.
Proof. intros Hwf Hk. apply roundtrip_iff; assumption. Qed.

(* building a track by inserts, as the API does *)
Definition track_of (v : variant) (ops : list entry) : track := fold_left track_insert ops (track_new v).

Lemma fold_insert_variant ops : forall t, t_variant (fold_left track_insert ops t) = t_variant t.
Proof.
  induction ops as [|e r IH]; intros t; cbn [fold_left]; [reflexivity|].
  rewrite IH. reflexivity.
Qed.

Lemma track_of_variant v ops : t_variant (track_of v ops) = v.
Proof. unfold track_of. rewrite fold_insert_variant. reflexivity. Qed.

Lemma insert_entry_wf l e :
  forallb entry_wf l = true -> entry_wf e = true -> forallb entry_wf (insert_entry l e) = true.
Proof.
  intros Hl He. induction l as [|x r IH]; cbn [insert_entry forallb]; [rewrite He; reflexivity|].
  cbn [forallb] in Hl. apply andb_true_iff in Hl as [Hx Hr].
  destruct (e_frame_id x =? e_frame_id e); cbn [forallb]; rewrite ?He, ?Hx, ?Hr, ?IH; auto.
Qed.

Lemma insert_entry_length_le l e : (length (insert_entry l e) <= S (length l))%nat.
Proof. induction l as [|x r IH]; cbn [insert_entry length]; [lia|]. destruct (_ =? _); cbn [length]; lia. Qed.

Lemma track_of_wf_entries v ops :
  forallb entry_wf ops = true ->
  forallb entry_wf (t_entries (track_of v ops)) = true /\ (length (t_entries (track_of v ops)) <= length ops)%nat.
Proof.
  unfold track_of.
  assert (G : forall t, forallb entry_wf (t_entries t) = true -> forallb entry_wf ops = true ->
              forallb entry_wf (t_entries (fold_left track_insert ops t)) = true /\
              (length (t_entries (fold_left track_insert ops t)) <= length (t_entries t) + length ops)%nat).
  { induction ops as [|e r IH]; intros t Ht Hops; cbn [fold_left length]; [split; [exact Ht | lia]|].
    cbn [forallb] in Hops. apply andb_true_iff in Hops as [He Hr].
    destruct (IH (track_insert t e)) as [A B].
    - cbn [track_insert t_entries]. apply insert_entry_wf; assumption.
    - exact Hr.
    - split; [exact A|]. cbn [track_insert t_entries] in B. pose proof (insert_entry_length_le (t_entries t) e). lia. }
  intros Hops. destruct (G (track_new v) eq_refl Hops) as [A B]. split; [exact A | exact B].
Qed.
