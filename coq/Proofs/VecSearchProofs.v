(* Proofs about Model/VecSearch.v.  Everything is generic in the embedding type, the
   distance type, the distance function and the comparison; order facts are assumed only
   on the distance values satisfying the guard okD ("not NaN").  No axioms. *)
From MV Require Import Base.Prelude Model.StableSort Model.VecSearch Proofs.StableSortProofs.
From Coq Require Import Sorting.Permutation Sorting.Sorted.
Require Import ZifyBool ZifyNat ZifyN.
Local Open Scope N_scope.

Lemma truncate_firstn {A} (l : list A) (limit : N) :
  truncate l limit = firstn (N.to_nat (N.min limit (N.of_nat (length l)))) l.
Proof.
  unfold truncate. destruct (N.leb_spec (N.of_nat (length l)) limit) as [H|H].
  - rewrite N.min_r by exact H. rewrite Nat2N.id, firstn_all. reflexivity.
  - rewrite N.min_l by lia. reflexivity.
Qed.

Lemma truncate_length {A} (l : list A) (limit : N) :
  N.of_nat (length (truncate l limit)) = N.min limit (N.of_nat (length l)).
Proof. rewrite truncate_firstn, firstn_length. lia. Qed.

Section IndexLevel.
  Variables E D : Type.
  Variable dim : E -> N.
  Variable dist : E -> E -> D.
  Variable dle : D -> D -> bool.

  Notation doc := (doc E).
  Notation hit := (hit D).
  Notation hle := (hit_le D dle).
  Notation isearch := (index_search E D dim dist dle).
  Notation allh := (all_hits E D dist).
  Notation nn := (exact_nn E D dist dle).

  Definition dims_ok (q : E) (docs : list doc) : Prop :=
    forall d, In d docs -> dim (doc_emb d) = dim q.

  Lemma all_hits_length q docs : length (allh q docs) = length docs.
  Proof. unfold all_hits. apply map_length. Qed.

  Lemma collect_hits_ok q docs :
    dims_ok q docs -> collect_hits E D dim dist q docs = Ok (allh q docs).
  Proof.
    induction docs as [|d r IH]; intros H; [reflexivity|].
    cbn [collect_hits]. unfold l2_distance.
    rewrite (H d) by (left; reflexivity). rewrite N.eqb_refl.
    rewrite IH by (intros x Hx; apply H; right; exact Hx). reflexivity.
  Qed.

  (* a document of another dimension: the length assertion of the kernel fires *)
  Lemma collect_hits_panic q docs :
    (exists d, In d docs /\ dim (doc_emb d) <> dim q) ->
    collect_hits E D dim dist q docs = Panic P_DIST_LEN.
  Proof.
    induction docs as [|d r IH]; intros [x [Hx Hd]]; [destruct Hx|].
    cbn [collect_hits]. unfold l2_distance.
    destruct (N.eqb_spec (dim q) (dim (doc_emb d))) as [Heq|Hne]; [|reflexivity].
    destruct Hx as [->|Hx]; [congruence|].
    rewrite IH by (exists x; split; assumption). reflexivity.
  Qed.

  Lemma isearch_empty_query docs q limit : dim q = 0 -> isearch docs q limit = Ok [].
  Proof. intros H. unfold index_search. rewrite H. reflexivity. Qed.

  Lemma isearch_ok q docs limit :
    dim q <> 0 -> dims_ok q docs ->
    isearch docs q limit = Ok (truncate (isort hle (allh q docs)) limit).
  Proof.
    intros Hq Hd. unfold index_search.
    destruct (N.eqb_spec (dim q) 0) as [H0|_]; [congruence|].
    rewrite collect_hits_ok by exact Hd. reflexivity.
  Qed.

  Lemma isearch_panic q docs limit :
    dim q <> 0 -> (exists d, In d docs /\ dim (doc_emb d) <> dim q) ->
    isearch docs q limit = Panic P_DIST_LEN.
  Proof.
    intros Hq Hd. unfold index_search.
    destruct (N.eqb_spec (dim q) 0) as [H0|_]; [congruence|].
    rewrite collect_hits_panic by exact Hd. reflexivity.
  Qed.

  (* without any assumption on the comparison (NaN included): the right number of hits,
     all of them documents of the index, none twice *)
  Theorem isearch_count_perm q docs limit :
    dim q <> 0 -> dims_ok q docs ->
    exists hits rest,
      isearch docs q limit = Ok hits /\
      N.of_nat (length hits) = N.min limit (N.of_nat (length docs)) /\
      Permutation (hits ++ rest) (allh q docs).
  Proof.
    intros Hq Hd. rewrite (isearch_ok q docs limit Hq Hd).
    set (s := isort hle (allh q docs)).
    set (n := N.to_nat (N.min limit (N.of_nat (length s)))).
    exists (truncate s limit), (skipn n s). split; [reflexivity|]. split.
    - rewrite truncate_length. unfold s. rewrite isort_length, all_hits_length. reflexivity.
    - rewrite truncate_firstn. fold n. rewrite firstn_skipn. apply isort_perm.
  Qed.

  Section Ordered.
    Variable okD : D -> Prop.
    Hypothesis dle_total : forall a b, okD a -> okD b -> dle a b = true \/ dle b a = true.
    Hypothesis dle_trans :
      forall a b c, okD a -> okD b -> okD c -> dle a b = true -> dle b c = true -> dle a c = true.

    Let okH (h : hit) : Prop := okD (snd h).

    Lemma hle_total : forall a b, okH a -> okH b -> hle a b = true \/ hle b a = true.
    Proof. intros a b Ha Hb. apply dle_total; assumption. Qed.
    Lemma hle_trans :
      forall a b c, okH a -> okH b -> okH c -> hle a b = true -> hle b c = true -> hle a c = true.
    Proof. intros a b c Ha Hb Hc. apply dle_trans; assumption. Qed.

    (* no_nan_distance: every distance from the query to a document satisfies the guard *)
    Definition no_nan_distance (q : E) (docs : list doc) : Prop :=
      forall d, In d docs -> okD (dist q (doc_emb d)).

    Lemma all_hits_ok q docs : no_nan_distance q docs -> Forall okH (allh q docs).
    Proof.
      intros H. unfold all_hits. apply Forall_forall. intros h Hh.
      apply in_map_iff in Hh. destruct Hh as [d [<- Hd]]. unfold okH. cbn [snd]. apply H; exact Hd.
    Qed.

    (* the main theorem at index level *)
    Theorem isearch_exact q docs limit :
      dim q <> 0 -> dims_ok q docs -> no_nan_distance q docs ->
      exists hits,
        isearch docs q limit = Ok hits /\
        hits = truncate (isort hle (allh q docs)) limit /\
        nn okD docs q limit hits.
    Proof.
      intros Hq Hd Hn. rewrite (isearch_ok q docs limit Hq Hd).
      set (s := isort hle (allh q docs)).
      set (n := N.to_nat (N.min limit (N.of_nat (length s)))).
      exists (truncate s limit). split; [reflexivity|]. split; [reflexivity|].
      pose proof (all_hits_ok q docs Hn) as Hok.
      assert (Hcat : truncate s limit ++ skipn n s = s)
        by (rewrite truncate_firstn; fold n; apply firstn_skipn).
      assert (Hsorted : StronglySorted (leP hle) s)
        by (apply (isort_sorted hle okH hle_total hle_trans); exact Hok).
      exists (skipn n s). split; [|split; [|split; [|split]]].
      - rewrite truncate_length. unfold s. rewrite isort_length, all_hits_length. reflexivity.
      - rewrite Hcat. apply isort_perm.
      - rewrite Hcat. exact Hsorted.
      - intros h o Hh Ho. apply (sorted_app_le hle (truncate s limit) (skipn n s)); [|exact Hh|exact Ho].
        rewrite Hcat. exact Hsorted.
      - intros z Hz. rewrite Hcat.
        apply (isort_stable hle okH hle_total hle_trans); [exact Hz|exact Hok].
    Qed.

    (* the property determines the answer: whatever produces a list meeting it (any stable
       sort, any way of cutting) returns exactly the model's hits *)
    Theorem exact_nn_unique q docs limit hits' :
      no_nan_distance q docs ->
      nn okD docs q limit hits' ->
      hits' = truncate (isort hle (allh q docs)) limit.
    Proof.
      intros Hn [rest [Hlen [Hperm [Hsorted [_ Hstable]]]]].
      pose proof (all_hits_ok q docs Hn) as Hok.
      assert (Hok' : Forall okH (hits' ++ rest))
        by (apply (perm_Forall okH (allh q docs)); [symmetry; exact Hperm | exact Hok]).
      assert (Heq : hits' ++ rest = isort hle (allh q docs)).
      { apply (stable_sort_unique hle okH hle_total hle_trans); assumption. }
      rewrite truncate_firstn, <- Heq.
      rewrite (Permutation_length Hperm), all_hits_length, <- Hlen, Nat2N.id.
      rewrite firstn_app, Nat.sub_diag, firstn_all. cbn [firstn]. rewrite app_nil_r. reflexivity.
    Qed.

    (* Rust's sort_by may be any stable merge strategy: same answer *)
    Theorem isearch_any_stable_sort q docs limit fuel :
      no_nan_distance q docs ->
      truncate (msort hle fuel (allh q docs)) limit = truncate (isort hle (allh q docs)) limit.
    Proof.
      intros Hn. rewrite (msort_eq_isort hle okH hle_total hle_trans); [reflexivity|].
      apply all_hits_ok; exact Hn.
    Qed.
  End Ordered.
End IndexLevel.

(* ====================================================================== memory level *)
Lemma Forall_filter {A} (Q : A -> Prop) (f : A -> bool) l : Forall Q l -> Forall Q (filter f l).
Proof.
  intros H. apply Forall_forall. intros x Hx. apply filter_In in Hx.
  rewrite Forall_forall in H. apply H. apply Hx.
Qed.

Section MemLevel.
  Variables E D : Type.
  Variable dim : E -> N.
  Variable dist : E -> E -> D.
  Variable dle : D -> D -> bool.

  Notation doc := (doc E).
  Notation vstate := (vstate E).
  Notation vop := (vop E).
  Notation isearch := (index_search E D dim dist dle).
  Notation svec := (search_vec E D dim dist dle).
  Notation vmem_of := (vmem_of E).
  Notation index_docs := (index_docs E).

  (* the dimension recorded in the manifest, 0 when there is none *)
  Definition mdim (s : vstate) : N :=
    match vs_manifest E s with Some mf => mf_dim mf | None => 0 end.

  (* invariant 1 (every history): the flag follows the manifest, the loaded index is what the
     manifest bytes decode to *)
  Record wf0 (s : vstate) : Prop := {
    wf_enabled : vs_enabled E s = match vs_manifest E s with Some _ => true | None => false end;
    wf_synced : vs_index E s = match vs_manifest E s with Some mf => mf_docs mf | None => None end
  }.

  (* invariant 2: every stored or pending embedding has the manifest dimension, which is
     positive and fits u32 (empty vectors never get this far: put drops them) *)
  Definition emb_ok (Dm : N) (e : E) : Prop := dim e = Dm /\ 0 < Dm < U32_MOD.
  Definition pend_ok (Dm : N) (p : pend E) : Prop :=
    match p with PPut _ (Some e) => emb_ok Dm e | _ => True end.
  Record wfd (s : vstate) : Prop := {
    wf_docs : Forall (fun d => emb_ok (mdim s) (doc_emb d)) (index_docs s);
    wf_pend : Forall (pend_ok (mdim s)) (vs_pending E s)
  }.

  (* the only restriction on histories: no embedding of 2^32 components or more *)
  Definition op_ok (o : vop) : Prop :=
    match o with VPut _ (Some e) => dim e < U32_MOD | _ => True end.

  Lemma emb_ok_0 e : emb_ok 0 e -> False.
  Proof. intros [_ H]. lia. Qed.

  Lemma docs_ok_0 (Dm : N) (l : list doc) :
    Forall (fun d => emb_ok 0 (doc_emb d)) l -> Forall (fun d => emb_ok Dm (doc_emb d)) l.
  Proof.
    intros H. apply Forall_forall. intros d Hd. rewrite Forall_forall in H.
    destruct (emb_ok_0 _ (H d Hd)).
  Qed.

  Lemma pend_ok_0 (Dm : N) (l : list (pend E)) : Forall (pend_ok 0) l -> Forall (pend_ok Dm) l.
  Proof.
    intros H. apply Forall_forall. intros p Hp. rewrite Forall_forall in H.
    specialize (H p Hp). destruct p as [fid [e|]|fid]; cbn [pend_ok] in *; auto.
    destruct (emb_ok_0 _ H).
  Qed.

  Definition docs_of (ix : option (list doc)) : list doc := match ix with Some d => d | None => [] end.
  Definition mfdim (mf : option (manifest E)) : N := match mf with Some m => mf_dim m | None => 0 end.

  Lemma wfd_intro en mf ix pd dl :
    Forall (fun d => emb_ok (mfdim mf) (doc_emb d)) (docs_of ix) ->
    Forall (pend_ok (mfdim mf)) pd ->
    wfd (mkVstate en mf ix pd dl).
  Proof. intros H1 H2. split; [exact H1|exact H2]. Qed.

  Lemma wfd_elim en mf ix pd dl :
    wfd (mkVstate en mf ix pd dl) ->
    Forall (fun d => emb_ok (mfdim mf) (doc_emb d)) (docs_of ix) /\
    Forall (pend_ok (mfdim mf)) pd.
  Proof. intros [H1 H2]. split; [exact H1|exact H2]. Qed.

  Lemma mdim_mk en mf ix pd dl : mdim (mkVstate en mf ix pd dl) = mfdim mf.
  Proof. reflexivity. Qed.

  Lemma effective_dim_of s :
    effective_dim E (vmem_of s) = Ok (if N.ltb 0 (mdim s) then Some (mdim s) else None).
  Proof.
    unfold effective_dim, VecSearch.vmem_of, mdim.
    cbn [vm_manifest vm_segment_dims segment_dim].
    destruct (vs_manifest E s) as [mf|]; [|reflexivity].
    destruct (N.ltb 0 (mf_dim mf)); reflexivity.
  Qed.

  Lemma ensure_index_of s : wf0 s -> ensure_index E (vmem_of s) = vs_index E s.
  Proof.
    intros [_ Hs]. unfold ensure_index, VecSearch.vmem_of. cbn [vm_index vm_manifest].
    destruct (vs_index E s) as [ix|]; [reflexivity|]. symmetry; exact Hs.
  Qed.

  (* ---- initial state ---- *)
  Lemma vinit_wf0 : wf0 vinit.
  Proof. split; reflexivity. Qed.
  Lemma vinit_wfd : wfd vinit.
  Proof. split; constructor. Qed.

  (* ---- enable_vec ---- *)
  Lemma venable_wf0 s : wf0 s -> wf0 (venable E s).
  Proof.
    intros [He Hs]. destruct s as [en mf ix pd dl].
    cbn [vs_enabled vs_manifest vs_index] in He, Hs.
    unfold venable. cbn [vs_enabled vs_manifest vs_index vs_pending vs_deleted].
    destruct mf as [m|]; split; cbn [vs_enabled vs_manifest vs_index mf_docs]; auto.
  Qed.

  Lemma venable_mdim s : mdim (venable E s) = mdim s.
  Proof. destruct s as [en [m|] ix pd dl]; reflexivity. Qed.

  Lemma venable_wfd s : wfd s -> wfd (venable E s).
  Proof.
    intros [Hd Hp]. split; rewrite venable_mdim.
    - destruct s as [en mf ix pd dl]; exact Hd.
    - destruct s as [en mf ix pd dl]; exact Hp.
  Qed.

  Lemma venable_enabled s : vs_enabled E (venable E s) = true.
  Proof. reflexivity. Qed.

  (* ---- put ---- *)
  Lemma vput_wf0 s fid emb : wf0 s -> wf0 (fst (vput E dim s fid emb)).
  Proof.
    intros W. unfold vput, vput_gen.
    destruct (match emb with
              | Some e => if N.eqb (dim e) 0 then None else Some (dim e mod U32_MOD)
              | None => None end) as [d|].
    - set (s1 := if vs_enabled E s then s else venable E s).
      assert (W1 : wf0 s1) by (unfold s1; destruct (vs_enabled E s); [exact W | apply venable_wf0; exact W]).
      rewrite effective_dim_of.
      destruct (match (if N.ltb 0 (mdim s1) then Some (mdim s1) else None) with
                | Some x => negb (N.eqb x d) | None => false end); [exact W1|].
      cbn [fst]. destruct W1 as [He Hs]. destruct s1 as [en mf ix pd dl].
      cbn [vs_enabled vs_manifest vs_index vs_pending vs_deleted] in *.
      destruct mf as [m|]; split; cbn [vs_enabled vs_manifest vs_index]; auto.
      destruct (N.eqb (mf_dim m) 0); cbn [mf_docs]; exact Hs.
    - cbn [fst]. destruct W as [He Hs]. destruct s as [en mf ix pd dl].
      split; cbn [vs_enabled vs_manifest vs_index] in *; assumption.
  Qed.

  Lemma vput_wfd s fid emb :
    wf0 s -> wfd s -> op_ok (VPut fid emb) -> wfd (fst (vput E dim s fid emb)).
  Proof.
    intros W Wd Hop. unfold vput, vput_gen. cbn [negb andb].
    assert (Hnone : forall x, match x with Some e0 => pend_ok (mdim s) (PPut fid (Some e0)) | None => True end ->
              wfd (mkVstate (vs_enabled E s) (vs_manifest E s) (vs_index E s)
                            (vs_pending E s ++ [PPut fid x]) (vs_deleted E s))).
    { intros x Hx. destruct s as [en mf ix pd dl]. apply wfd_elim in Wd. destruct Wd as [Hd Hp].
      cbn [vs_enabled vs_manifest vs_index vs_pending vs_deleted] in *.
      apply wfd_intro; [exact Hd|].
      apply Forall_app; split; [exact Hp|]. constructor; [|constructor].
      destruct x as [e0|]; [exact Hx|exact I]. }
    destruct emb as [e|]; [|cbn [fst]; apply Hnone; exact I].
    cbn [op_ok] in Hop.
    destruct (N.eqb_spec (dim e) 0) as [H0|Hn0]; [cbn [fst]; apply Hnone; exact I|].
    rewrite (N.mod_small (dim e) U32_MOD) by lia.
    set (s1 := if vs_enabled E s then s else venable E s).
    assert (W1 : wf0 s1) by (unfold s1; destruct (vs_enabled E s); [exact W | apply venable_wf0; exact W]).
    assert (Wd1 : wfd s1) by (unfold s1; destruct (vs_enabled E s); [exact Wd | apply venable_wfd; exact Wd]).
    assert (En1 : vs_enabled E s1 = true)
      by (unfold s1; destruct (vs_enabled E s) eqn:Een; [exact Een | reflexivity]).
    rewrite effective_dim_of. clearbody s1. clear Hnone.
    destruct W1 as [He Hs]. destruct s1 as [en mf ix pd dl].
    apply wfd_elim in Wd1. destruct Wd1 as [Hd Hp]. rewrite mdim_mk.
    cbn [vs_enabled vs_manifest vs_index vs_pending vs_deleted] in *.
    destruct mf as [m|]; [|subst en; discriminate]. cbn [mfdim] in *.
    destruct (N.ltb_spec 0 (mf_dim m)) as [Hpos|Hzero].
    + (* a dimension is recorded: the embedding must have it *)
      destruct (N.eqb_spec (mf_dim m) (dim e)) as [Heq|Hne]; cbn [negb fst].
      * destruct (N.eqb_spec (mf_dim m) 0) as [Hm0|_]; [lia|].
        apply wfd_intro; cbn [mfdim]; [exact Hd|].
        apply Forall_app; split; [exact Hp|]. constructor; [|constructor].
        cbn [pend_ok]. unfold emb_ok. lia.
      * apply wfd_intro; cbn [mfdim]; assumption.
    + (* no dimension yet: this embedding fixes it *)
      assert (Hm : mf_dim m = 0) by lia. cbn [fst]. rewrite Hm in *. rewrite N.eqb_refl.
      apply wfd_intro; cbn [mfdim mf_dim].
      * apply docs_ok_0. exact Hd.
      * apply Forall_app; split; [apply pend_ok_0; exact Hp|]. constructor; [|constructor].
        cbn [pend_ok]. unfold emb_ok. lia.
  Qed.

  (* ---- delete ---- *)
  Lemma vdelete_wf0 s fid : wf0 s -> wf0 (vdelete E s fid).
  Proof. intros [He Hs]. destruct s as [en mf ix pd dl]. split; assumption. Qed.
  Lemma vdelete_wfd s fid : wfd s -> wfd (vdelete E s fid).
  Proof.
    intros Wd. destruct s as [en mf ix pd dl]. apply wfd_elim in Wd. destruct Wd as [Hd Hp].
    unfold vdelete. cbn [vs_enabled vs_manifest vs_index vs_pending vs_deleted].
    apply wfd_intro; [exact Hd|].
    apply Forall_app; split; [exact Hp|]. constructor; [exact I|constructor].
  Qed.

  (* ---- commit ---- *)
  Lemma apply_pending_inv (Q : doc -> Prop) ps : forall ix del newd ix' del' newd',
    apply_pending E ps ix del newd = (ix', del', newd') ->
    Forall Q (docs_of ix) -> Forall Q newd ->
    Forall (fun p => match p with PPut fid (Some e) => Q (mkDoc fid e) | _ => True end) ps ->
    Forall Q (docs_of ix') /\ Forall Q newd'.
  Proof.
    induction ps as [|p ps IH]; intros ix del newd ix' del' newd' Hap Hix Hnew Hps.
    - cbn [apply_pending] in Hap. inversion Hap; subst. split; assumption.
    - inversion Hps as [|? ? Hp Hps']; subst.
      destruct p as [fid [e|]|fid]; cbn [apply_pending] in Hap.
      + eapply IH; [exact Hap|exact Hix| |exact Hps'].
        apply Forall_app; split; [exact Hnew|]. constructor; [exact Hp|constructor].
      + eapply IH; [exact Hap|exact Hix|exact Hnew|exact Hps'].
      + eapply IH; [exact Hap| |exact Hnew|exact Hps'].
        destruct ix as [d|]; cbn [docs_of] in *; [|constructor].
        unfold index_remove. apply Forall_filter. exact Hix.
  Qed.

  Lemma vcommit_pending s : vs_pending E (vcommit E dim s) = [].
  Proof.
    unfold vcommit. destruct (vs_pending E s) as [|p ps] eqn:Ep; [exact Ep|].
    destruct (apply_pending E (p :: ps) (vs_index E s) (vs_deleted E s) []) as [[ix del] newd].
    destruct (vs_enabled E s); reflexivity.
  Qed.

  Lemma vcommit_wf0 s : wf0 s -> wf0 (vcommit E dim s).
  Proof.
    intros W. unfold vcommit. destruct (vs_pending E s) as [|p ps]; [exact W|].
    destruct (apply_pending E (p :: ps) (vs_index E s) (vs_deleted E s) []) as [[ix del] newd].
    destruct (vs_enabled E s); split; reflexivity.
  Qed.

  Lemma vcommit_wfd s : wfd s -> wfd (vcommit E dim s).
  Proof.
    intros Wd. unfold vcommit. destruct (vs_pending E s) as [|p ps] eqn:Ep; [exact Wd|].
    destruct (apply_pending E (p :: ps) (vs_index E s) (vs_deleted E s) []) as [[ix del] newd] eqn:Hap.
    destruct s as [en mf ix0 pd dl]. apply wfd_elim in Wd. destruct Wd as [Hd Hp].
    cbn [vs_enabled vs_manifest vs_index vs_pending vs_deleted] in *. subst pd.
    destruct (apply_pending_inv (fun d => emb_ok (mfdim mf) (doc_emb d)) _ _ _ _ _ _ _ Hap) as [Hix Hnew].
    { exact Hd. }
    { constructor. }
    { apply Forall_forall. intros q Hq. rewrite Forall_forall in Hp. specialize (Hp q Hq).
      destruct q as [fid [e|]|fid]; cbn [pend_ok doc_emb] in *; auto. }
    destruct en.
    - set (docs := filter (fun d => frame_is_active del (doc_id d)) (match ix with Some d => d | None => [] end) ++ newd).
      assert (Hdocs : Forall (fun d => emb_ok (mfdim mf) (doc_emb d)) docs).
      { unfold docs. apply Forall_app; split; [apply Forall_filter; exact Hix | exact Hnew]. }
      clearbody docs.
      apply wfd_intro; cbn [mfdim mf_dim docs_of]; [|constructor].
      destruct docs as [|d0 r]; [constructor|].
      cbn [finish_dimension].
      inversion Hdocs as [|? ? H0 Hr]; subst.
      assert (Hdim : u32_try_or0 (dim (doc_emb d0)) = mfdim mf).
      { destruct H0 as [H1 H2]. unfold u32_try_or0. rewrite H1.
        destruct (N.ltb_spec (mfdim mf) U32_MOD); [reflexivity|lia]. }
      rewrite Hdim. exact Hdocs.
    - apply wfd_intro; cbn [docs_of]; constructor.
  Qed.

  (* ---- close + open ---- *)
  Theorem vreopen_eq_vcommit s : wf0 s -> vreopen E dim s = vcommit E dim s.
  Proof.
    intros W. unfold vreopen.
    pose proof (vcommit_wf0 s W) as [He Hs]. pose proof (vcommit_pending s) as Hp.
    destruct (vcommit E dim s) as [en mf ix pd dl].
    cbn [vs_enabled vs_manifest vs_index vs_pending vs_deleted] in *.
    subst pd. rewrite <- He, <- Hs. reflexivity.
  Qed.

  Lemma vreopen_wf0 s : wf0 s -> wf0 (vreopen E dim s).
  Proof. intros W. rewrite vreopen_eq_vcommit by exact W. apply vcommit_wf0; exact W. Qed.
  Lemma vreopen_wfd s : wf0 s -> wfd s -> wfd (vreopen E dim s).
  Proof. intros W Wd. rewrite vreopen_eq_vcommit by exact W. apply vcommit_wfd; exact Wd. Qed.

  (* ---- steps and runs ---- *)
  Notation vstep := (vstep E D dim dist dle).
  Notation vrun := (vrun E D dim dist dle).

  Lemma vstep_wf0 s o : wf0 s -> wf0 (fst (vstep s o)).
  Proof.
    intros W. destruct o as [|fid emb|fid| | |q limit]; cbn [VecSearch.vstep fst].
    - apply venable_wf0; exact W.
    - pose proof (vput_wf0 s fid emb W) as H.
      destruct (vput E dim s fid emb) as [s' [k|]]; exact H.
    - apply vdelete_wf0; exact W.
    - apply vcommit_wf0; exact W.
    - apply vreopen_wf0; exact W.
    - exact W.
  Qed.

  Lemma vstep_wfd s o : wf0 s -> wfd s -> op_ok o -> wfd (fst (vstep s o)).
  Proof.
    intros W Wd Ho. destruct o as [|fid emb|fid| | |q limit]; cbn [VecSearch.vstep fst].
    - apply venable_wfd; exact Wd.
    - pose proof (vput_wfd s fid emb W Wd Ho) as H.
      destruct (vput E dim s fid emb) as [s' [k|]]; exact H.
    - apply vdelete_wfd; exact Wd.
    - apply vcommit_wfd; exact Wd.
    - apply vreopen_wfd; assumption.
    - exact Wd.
  Qed.

  Lemma vrun_cons s o r :
    vrun s (o :: r) = (fst (vrun (fst (vstep s o)) r), snd (vstep s o) :: snd (vrun (fst (vstep s o)) r)).
  Proof.
    cbn [VecSearch.vrun]. destruct (vstep s o) as [s1 out].
    cbn [fst snd]. destruct (vrun s1 r) as [s2 outs]. reflexivity.
  Qed.

  Theorem vrun_wf0 ops : forall s, wf0 s -> wf0 (fst (vrun s ops)).
  Proof.
    induction ops as [|o r IH]; intros s W; [exact W|].
    rewrite vrun_cons. cbn [fst]. apply IH. apply vstep_wf0; exact W.
  Qed.

  Theorem vrun_wfd ops : forall s, wf0 s -> wfd s -> Forall op_ok ops -> wfd (fst (vrun s ops)).
  Proof.
    induction ops as [|o r IH]; intros s W Wd Hops; [exact Wd|].
    inversion Hops as [|? ? Ho Hr]; subst.
    rewrite vrun_cons. cbn [fst]. apply IH; [apply vstep_wf0; exact W | apply vstep_wfd; assumption | exact Hr].
  Qed.

  (* ---- search_vec on a well-formed state ---- *)
  Lemma search_vec_wf s q limit :
    wf0 s -> wfd s ->
    svec (vmem_of s) q limit =
      if negb (vs_enabled E s) then Err E_VEC_NOT_ENABLED
      else if N.ltb 0 (mdim s) && negb (N.eqb (dim q mod U32_MOD) (mdim s)) then Err E_DIM_MISMATCH
      else match vs_index E s with
           | None => Err E_VEC_NOT_ENABLED
           | Some docs => isearch docs q limit
           end.
  Proof.
    intros W Wd. unfold search_vec.
    change (vm_enabled E (vmem_of s)) with (vs_enabled E s).
    destruct (vs_enabled E s); [|reflexivity]. cbn [negb].
    rewrite effective_dim_of, (ensure_index_of s W).
    destruct (N.ltb_spec 0 (mdim s)) as [Hpos|Hzero].
    - destruct (N.ltb_spec 0 (mdim s)); [reflexivity|lia].
    - assert (Hm : mdim s = 0) by lia.
      destruct Wd as [Hd _]. unfold VecSearch.index_docs in Hd. rewrite Hm in Hd.
      destruct (vs_index E s) as [[|d0 r]|]; cbn [andb]; try reflexivity.
      inversion Hd as [|? ? H0 _]; subst. destruct (emb_ok_0 _ H0).
  Qed.

  Lemma index_nonempty_enabled s d0 : wf0 s -> In d0 (index_docs s) -> vs_enabled E s = true.
  Proof.
    intros [He Hs] Hin. unfold VecSearch.index_docs in Hin.
    destruct (vs_index E s) as [ix|] eqn:Ei; [|destruct Hin].
    rewrite He. destruct (vs_manifest E s); [reflexivity|discriminate].
  Qed.

  (* a query of another dimension is rejected, whatever the distances are *)
  Theorem search_vec_wrong_dim s q limit d0 :
    wf0 s -> wfd s -> In d0 (index_docs s) ->
    dim q < U32_MOD -> dim q <> dim (doc_emb d0) ->
    svec (vmem_of s) q limit = Err E_DIM_MISMATCH.
  Proof.
    intros W Wd Hin Hsmall Hne. rewrite (search_vec_wf s q limit W Wd).
    rewrite (index_nonempty_enabled s d0 W Hin). cbn [negb].
    destruct Wd as [Hd _]. rewrite Forall_forall in Hd. destruct (Hd d0 Hin) as [H1 H2].
    rewrite (N.mod_small (dim q) U32_MOD) by exact Hsmall.
    destruct (N.ltb_spec 0 (mdim s)); [|lia].
    destruct (N.eqb_spec (dim q) (mdim s)); [congruence|reflexivity].
  Qed.

  (* a query of the index dimension is answered by the index search over the committed
     embeddings, all of which have that dimension *)
  Lemma search_vec_right_dim s q limit d0 :
    wf0 s -> wfd s -> In d0 (index_docs s) -> dim q = dim (doc_emb d0) ->
    svec (vmem_of s) q limit = isearch (index_docs s) q limit /\
    dim q <> 0 /\ dims_ok E dim q (index_docs s).
  Proof.
    intros W Wd Hin Heq. rewrite (search_vec_wf s q limit W Wd).
    rewrite (index_nonempty_enabled s d0 W Hin). cbn [negb].
    destruct Wd as [Hd _]. rewrite Forall_forall in Hd. destruct (Hd d0 Hin) as [H1 H2].
    assert (Hq : dim q = mdim s) by congruence.
    rewrite (N.mod_small (dim q) U32_MOD) by lia.
    rewrite Hq, N.eqb_refl, andb_false_r.
    unfold VecSearch.index_docs in *. destruct (vs_index E s) as [ix|]; [|destruct Hin].
    split; [reflexivity|]. split; [lia|].
    intros d Hdin. destruct (Hd d Hdin) as [H3 _]. congruence.
  Qed.

  Theorem search_vec_exact (okD : D -> Prop)
    (dle_total : forall a b, okD a -> okD b -> dle a b = true \/ dle b a = true)
    (dle_trans : forall a b c, okD a -> okD b -> okD c -> dle a b = true -> dle b c = true -> dle a c = true)
    s q limit d0 :
    wf0 s -> wfd s -> In d0 (index_docs s) -> dim q = dim (doc_emb d0) ->
    no_nan_distance E D dist okD q (index_docs s) ->
    exists hits,
      svec (vmem_of s) q limit = Ok hits /\
      exact_nn E D dist dle okD (index_docs s) q limit hits.
  Proof.
    intros W Wd Hin Heq Hn.
    destruct (search_vec_right_dim s q limit d0 W Wd Hin Heq) as [Hs [Hq Hdims]].
    destruct (isearch_exact E D dim dist dle okD dle_total dle_trans q (index_docs s) limit Hq Hdims Hn)
      as [hits [H1 [_ H3]]].
    exists hits. split; [rewrite Hs; exact H1 | exact H3].
  Qed.

  (* search_vec never panics *)
  Theorem search_vec_no_panic s q limit :
    wf0 s -> wfd s -> dim q < U32_MOD -> forall site, svec (vmem_of s) q limit <> Panic site.
  Proof.
    intros W Wd Hsmall site. rewrite (search_vec_wf s q limit W Wd).
    destruct (vs_enabled E s); cbn [negb]; [|discriminate].
    rewrite (N.mod_small (dim q) U32_MOD) by exact Hsmall.
    destruct (N.ltb_spec 0 (mdim s)) as [Hpos|Hzero]; cbn [andb].
    - destruct (N.eqb_spec (dim q) (mdim s)) as [Heq|Hne]; cbn [negb]; [|discriminate].
      destruct (vs_index E s) as [ix|] eqn:Ei; [|discriminate].
      rewrite isearch_ok; [discriminate|lia|].
      intros d Hd. destruct Wd as [Hdocs _]. unfold VecSearch.index_docs in Hdocs. rewrite Ei in Hdocs.
      rewrite Forall_forall in Hdocs. destruct (Hdocs d Hd) as [H1 _]. congruence.
    - destruct (vs_index E s) as [ix|] eqn:Ei; [|discriminate].
      destruct Wd as [Hdocs _]. unfold VecSearch.index_docs in Hdocs. rewrite Ei in Hdocs.
      assert (Hm : mdim s = 0) by lia. rewrite Hm in Hdocs.
      destruct ix as [|d0 r]; [|inversion Hdocs as [|? ? H0 _]; subst; destruct (emb_ok_0 _ H0)].
      unfold index_search. destruct (N.eqb (dim q) 0); cbn [collect_hits]; discriminate.
  Qed.

  (* ---- histories from the empty memory ---- *)
  Definition reached (ops : list vop) : vstate := fst (vrun vinit ops).

  Lemma reached_wf0 ops : wf0 (reached ops).
  Proof. apply vrun_wf0. apply vinit_wf0. Qed.

  Lemma reached_wfd ops : Forall op_ok ops -> wfd (reached ops).
  Proof. intros H. apply vrun_wfd; [apply vinit_wf0 | apply vinit_wfd | exact H]. Qed.

  Lemma op_ok_of_bools ops :
    forallb (op_dim_fits_u32 E dim) ops = true -> Forall op_ok ops.
  Proof.
    induction ops as [|o r IH]; intros H2; [constructor|].
    cbn [forallb] in H2. apply andb_true_iff in H2. destruct H2 as [H2 H2'].
    constructor; [|apply IH; assumption].
    destruct o as [|fid [e|]|fid| | |q limit]; cbn [op_ok op_dim_fits_u32] in *; auto.
    apply N.ltb_lt in H2. exact H2.
  Qed.

  Theorem reached_search_exact (okD : D -> Prop)
    (dle_total : forall a b, okD a -> okD b -> dle a b = true \/ dle b a = true)
    (dle_trans : forall a b c, okD a -> okD b -> okD c -> dle a b = true -> dle b c = true -> dle a c = true)
    ops q limit d0 :
    Forall op_ok ops ->
    In d0 (index_docs (reached ops)) -> dim q = dim (doc_emb d0) ->
    no_nan_distance E D dist okD q (index_docs (reached ops)) ->
    exists hits,
      svec (vmem_of (reached ops)) q limit = Ok hits /\
      exact_nn E D dist dle okD (index_docs (reached ops)) q limit hits.
  Proof.
    intros Hops. apply search_vec_exact; try assumption; [apply reached_wf0 | apply reached_wfd; exact Hops].
  Qed.

  Theorem reached_wrong_dim ops q limit d0 :
    Forall op_ok ops ->
    In d0 (index_docs (reached ops)) -> dim q < U32_MOD -> dim q <> dim (doc_emb d0) ->
    svec (vmem_of (reached ops)) q limit = Err E_DIM_MISMATCH.
  Proof.
    intros Hops. apply search_vec_wrong_dim; [apply reached_wf0 | apply reached_wfd; exact Hops].
  Qed.

  Theorem reached_no_panic ops q limit :
    Forall op_ok ops -> dim q < U32_MOD -> forall site, svec (vmem_of (reached ops)) q limit <> Panic site.
  Proof.
    intros Hops. apply search_vec_no_panic; [apply reached_wf0 | apply reached_wfd; exact Hops].
  Qed.

  (* close and reopen: the reopened memory is the committed memory; with nothing pending it
     is the same state, so every later call answers the same *)
  Theorem reached_reopen ops : vreopen E dim (reached ops) = vcommit E dim (reached ops).
  Proof. apply vreopen_eq_vcommit. apply reached_wf0. Qed.

  Lemma vcommit_clean s : vs_pending E s = [] -> vcommit E dim s = s.
  Proof. intros H. unfold vcommit. rewrite H. reflexivity. Qed.

  Theorem reached_reopen_clean ops q limit :
    vs_pending E (reached ops) = [] ->
    vreopen E dim (reached ops) = reached ops /\
    svec (vmem_of (vreopen E dim (reached ops))) q limit = svec (vmem_of (reached ops)) q limit.
  Proof.
    intros H. assert (Heq : vreopen E dim (reached ops) = reached ops)
      by (rewrite reached_reopen; apply vcommit_clean; exact H).
    split; [exact Heq | rewrite Heq; reflexivity].
  Qed.

  (* ---- codec: what reopen reads is what commit wrote (C30 supplies the hypothesis) ---- *)
  Section Codec.
    Variable enc : list doc -> bytes.
    Variable dec : bytes -> option (list doc * nat).
    Hypothesis dec_enc : forall docs, dec (enc docs) = Some (docs, length (enc docs)).

    Theorem index_decode_encode docs : index_decode E dec (enc docs) = Ok docs.
    Proof. unfold index_decode. rewrite dec_enc, Nat.eqb_refl. reflexivity. Qed.
  End Codec.
End MemLevel.

(* ---- the f32 instance of the comparison: (is_nan, total_cmp) on bit patterns ---- *)
Lemma f32_nan_last_le_total a b : f32_nan_last_le a b = true \/ f32_nan_last_le b a = true.
Proof.
  unfold f32_nan_last_le. destruct (f32_is_nan a), (f32_is_nan b); auto.
  - destruct (Z.leb_spec (total_key a) (total_key b)); [left; reflexivity|]. right. apply Z.leb_le. lia.
  - destruct (Z.leb_spec (total_key a) (total_key b)); [left; reflexivity|]. right. apply Z.leb_le. lia.
Qed.

Lemma f32_nan_last_le_trans a b c :
  f32_nan_last_le a b = true -> f32_nan_last_le b c = true -> f32_nan_last_le a c = true.
Proof.
  unfold f32_nan_last_le.
  destruct (f32_is_nan a), (f32_is_nan b), (f32_is_nan c); intros H1 H2; try discriminate; try reflexivity;
    apply Z.leb_le in H1; apply Z.leb_le in H2; apply Z.leb_le; lia.
Qed.

Lemma total_key_inj a b : a < U32_MOD -> b < U32_MOD -> total_key a = total_key b -> a = b.
Proof.
  unfold total_key, F32_SIGN, U32_MOD. intros Ha Hb H.
  destruct (N.ltb_spec a 2147483648); destruct (N.ltb_spec b 2147483648); lia.
Qed.

(* a total ORDER on 32-bit patterns: a tie is bit equality *)
Lemma f32_nan_last_le_antisym a b :
  a < U32_MOD -> b < U32_MOD -> f32_nan_last_le a b = true -> f32_nan_last_le b a = true -> a = b.
Proof.
  unfold f32_nan_last_le. intros Ha Hb.
  destruct (f32_is_nan a), (f32_is_nan b); intros H1 H2; try discriminate;
    apply Z.leb_le in H1; apply Z.leb_le in H2; apply total_key_inj; try assumption; lia.
Qed.

(* NaN of either sign is above every non-NaN pattern *)
Lemma f32_nan_last_le_nan_last a b :
  f32_is_nan a = false -> f32_is_nan b = true ->
  f32_nan_last_le a b = true /\ f32_nan_last_le b a = false.
Proof. unfold f32_nan_last_le. intros -> ->. split; reflexivity. Qed.

(* two non-NaN patterns with the sign bit clear (non-negative numbers, +inf): bit order *)
Lemma f32_nan_last_le_nonneg a b :
  a < F32_SIGN -> b < F32_SIGN -> f32_is_nan a = false -> f32_is_nan b = false ->
  f32_nan_last_le a b = N.leb a b.
Proof.
  unfold f32_nan_last_le, total_key. intros Ha Hb -> ->.
  destruct (N.ltb_spec a F32_SIGN); [|lia]. destruct (N.ltb_spec b F32_SIGN); [|lia].
  destruct (N.leb_spec a b); [apply Z.leb_le; lia | apply Z.leb_gt; lia].
Qed.

(* numeric reading: for two values that are not negative numbers, "not Greater" means
   "the second is not strictly closer", NaN of either sign being farthest *)
Lemma f32_nan_last_le_not_closer a b :
  f32_not_negative a = true -> f32_not_negative b = true ->
  f32_nan_last_le a b = true -> f32_closer b a = false.
Proof.
  unfold f32_not_negative, f32_sign, f32_closer. intros Ha Hb H.
  destruct (f32_is_nan b) eqn:Nb; cbn [negb andb]; [reflexivity|].
  destruct (f32_is_nan a) eqn:Na; cbn [orb].
  - unfold f32_nan_last_le in H. rewrite Na, Nb in H. discriminate.
  - rewrite orb_false_r in Ha, Hb. apply negb_true_iff in Ha. apply negb_true_iff in Hb.
    apply N.leb_gt in Ha. apply N.leb_gt in Hb.
    rewrite f32_nan_last_le_nonneg in H by assumption. apply N.leb_le in H.
    apply N.ltb_ge. exact H.
Qed.

(* ---- plain total_cmp (9a670c1 .. 1932440, historical): a sign-set pattern -- the only
   reachable one is a NaN -- sorts before every sign-clear one ---- *)
Lemma f32_total_le_unfixed_sign_first a b :
  F32_SIGN <= a -> b < F32_SIGN ->
  f32_total_le_unfixed a b = true /\ f32_total_le_unfixed b a = false.
Proof.
  unfold f32_total_le_unfixed, total_key. intros Ha Hb.
  destruct (N.ltb_spec a F32_SIGN); [lia|]. destruct (N.ltb_spec b F32_SIGN); [|lia].
  split; [apply Z.leb_le; lia | apply Z.leb_gt; lia].
Qed.

(* ---- the comparison before 9a670c1 (historical) ---- *)
Lemma f32_le_unfixed_not_transitive :
  f32_le_unfixed (Some 5) None = true /\ f32_le_unfixed None (Some 3) = true /\
  f32_le_unfixed (Some 5) (Some 3) = false.
Proof. vm_compute. repeat split. Qed.

(* ---- the numeric reading of an answer under the total order ---- *)
Lemma StronglySorted_impl_in {A} (R R' : A -> A -> Prop) (l : list A) :
  (forall a b, In a l -> In b l -> R a b -> R' a b) ->
  StronglySorted R l -> StronglySorted R' l.
Proof.
  induction l as [|x l IH]; intros Himp Hs; [constructor|].
  inversion Hs as [|? ? Hs' Hx]; subst. constructor.
  - apply IH; [|exact Hs']. intros a b Ha Hb. apply Himp; right; assumption.
  - apply Forall_forall. intros y Hy. rewrite Forall_forall in Hx.
    apply Himp; [left; reflexivity | right; exact Hy | apply Hx; exact Hy].
Qed.

Section F32Reading.
  Variable E : Type.
  Variable dist : E -> E -> N.

  (* the hypothesis on the kernel's outputs: no distance from the query to an indexed
     embedding is a negative number (a square root of a sum of squares is non-negative,
     +inf or NaN; the real kernel never returns -0 either) *)
  Definition no_negative_distance (q : E) (docs : list (doc E)) : Prop :=
    forall d, In d docs -> f32_not_negative (dist q (doc_emb d)) = true.

  (* hits in non-decreasing numeric order with NaN (either sign) last, and no omitted document
     strictly closer (NaN = farthest) than a returned one *)
  Definition numeric_nn (docs : list (doc E)) (q : E) (hits : list (hit N)) : Prop :=
    StronglySorted (fun a b => f32_closer (snd b) (snd a) = false) hits /\
    exists rest,
      Permutation (hits ++ rest) (all_hits E N dist q docs) /\
      forall h o, In h hits -> In o rest -> f32_closer (snd o) (snd h) = false.

  Theorem exact_nn_numeric q docs limit hits :
    no_negative_distance q docs ->
    exact_nn E N dist f32_nan_last_le (fun _ => True) docs q limit hits ->
    numeric_nn docs q hits.
  Proof.
    intros Hsc [rest [_ [Hperm [Hsorted [Hcross _]]]]].
    assert (Hall : forall h, In h (hits ++ rest) -> f32_not_negative (snd h) = true).
    { intros h Hh. apply (Permutation_in _ Hperm) in Hh. unfold all_hits in Hh.
      apply in_map_iff in Hh. destruct Hh as [d [<- Hd]]. cbn [snd]. apply Hsc; exact Hd. }
    split.
    - apply (StronglySorted_impl_in (fun a b : hit N => f32_nan_last_le (snd a) (snd b) = true)).
      + intros a b Ha Hb Hab. apply f32_nan_last_le_not_closer; try exact Hab;
          apply Hall; apply in_or_app; left; assumption.
      + exact (sorted_app_l (hit_le N f32_nan_last_le) hits rest Hsorted).
    - exists rest. split; [exact Hperm|]. intros h o Hh Ho.
      apply f32_nan_last_le_not_closer; [apply Hall, in_or_app; left; exact Hh
                                        |apply Hall, in_or_app; right; exact Ho
                                        |apply Hcross; assumption].
  Qed.
End F32Reading.
