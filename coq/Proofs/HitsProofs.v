(* Proofs for C10 (every search hit is a valid answer): the composition of C32 (evaluator), C35
   (snippet slices), C16 (page loop shape) and C08 (index sets) over Model/Hits.v.

   ev_good    what the evaluation loop guarantees of every element of `evaluated`
   hit_good   what hit assembly guarantees of every hit
   st_inv     invariant of the page loop: at most k hits, ranks 1..n, every hit good
   hits_valid the composition theorem, for ANY engine output, ANY analyser output, ANY re-sort
              that returns members of its input
   no_panic   the pipeline never panics (C35's call-site theorem discharges the slice arithmetic
              and the `chunk_text[a..b]` slicing)
   chunk range, active frames (with C08's index invariant), the second pipeline. *)
From Coq Require Import Permutation.
From MV Require Import Base.Prelude Base.Facts Base.SortFacts Model.Query Model.Snippet Proofs.SnippetProofs Model.Hits.
From MV Require Model.SearchPage.
Require Import ZifyBool ZifyNat ZifyN.
Local Open Scope N_scope.

(* ---------------------------------------------------------------- small facts *)
Lemma llen_app {A} (a b : list A) : llen (a ++ b) = llen a + llen b.
Proof. unfold llen. rewrite app_length. lia. Qed.

Lemma str_slice_nonempty t a b bs :
  str_slice t a b = Ok bs -> a < b -> b <= len t -> bs <> [].
Proof.
  unfold str_slice. destruct ((a <=? b) && is_char_boundary t a && is_char_boundary t b); [|discriminate].
  intros H Hab Hb. inversion H; subst bs. clear H. intros Hnil.
  apply (f_equal (@length N)) in Hnil. rewrite firstn_length, skipn_length in Hnil.
  unfold len in Hb. cbn [length] in Hnil. lia.
Qed.

Lemma dedup_incl l : incl (dedup l) l.
Proof.
  induction l as [|x r IH]; [intros y Hy; exact Hy|].
  cbn [dedup]. destruct r as [|y r'].
  - intros z Hz. exact Hz.
  - destruct (pair_eqb x y).
    + intros z Hz. right. apply IH. exact Hz.
    + intros z [Hz|Hz]; [left; exact Hz | right; apply IH; exact Hz].
Qed.

Lemma collect_incl hay tokens :
  incl (collect_token_occurrences hay tokens) (collect_token_occurrences_unsorted hay tokens).
Proof.
  unfold collect_token_occurrences. intros o Ho. apply dedup_incl in Ho.
  eapply Permutation_in; [apply isort_perm | exact Ho].
Qed.

Lemma get_In tbl id f : get tbl id = Some f -> In f tbl.
Proof. unfold get. apply nth_error_In. Qed.

(* ---------------------------------------------------------------- resolve_chunk_context *)
Lemma decoded_payload_no_panic f s : decoded_payload f <> Panic s.
Proof.
  unfold decoded_payload. destruct (f_payload f) as [[n t]|]; [|discriminate].
  destruct (f_canon_len f) as [e|]; [destruct (n =? e)|]; discriminate.
Qed.

Lemma decoded_payload_ok f p : decoded_payload f = Ok p -> f_payload f = Some p.
Proof.
  unfold decoded_payload. destruct (f_payload f) as [[n t]|]; [|discriminate].
  destruct (f_canon_len f) as [e|]; [destruct (n =? e)|]; intros H; inversion H; reflexivity.
Qed.

Lemma collect_payloads_no_panic cs : forall s, collect_payloads cs <> Panic s.
Proof.
  induction cs as [|c r IH]; cbn [collect_payloads]; intros s; [discriminate|].
  destruct (decoded_payload c) eqn:E; [|discriminate|exfalso; eapply decoded_payload_no_panic; eauto].
  destruct (collect_payloads r) as [ps|e|s2] eqn:E2; [discriminate|discriminate|exfalso; exact (IH s2 eq_refl)].
Qed.

Lemma collect_payloads_spec cs ps :
  collect_payloads cs = Ok ps ->
  map fst ps = cs /\ Forall (fun cp => f_payload (fst cp) = Some (snd cp)) ps.
Proof.
  revert ps. induction cs as [|c r IH]; cbn [collect_payloads]; intros ps H.
  - inversion H. split; [reflexivity|constructor].
  - destruct (decoded_payload c) eqn:E; try discriminate.
    destruct (collect_payloads r) eqn:E2; try discriminate.
    inversion H; subst ps. destruct (IH _ eq_refl) as [H1 H2].
    split; [cbn [map fst]; rewrite H1; reflexivity|].
    constructor; [cbn [fst snd]; apply decoded_payload_ok; exact E | exact H2].
Qed.

Lemma document_chunk_payloads_no_panic tbl f s : document_chunk_payloads tbl f <> Panic s.
Proof.
  unfold document_chunk_payloads. destruct (f_manifest f); [|discriminate].
  destruct (document_chunk_frames tbl (f_id f)) eqn:E; [discriminate|].
  destruct (llen (f0 :: l) =? n); [apply collect_payloads_no_panic|discriminate].
Qed.

Lemma document_chunk_frames_In tbl pid c : In c (document_chunk_frames tbl pid) -> In c tbl.
Proof.
  unfold document_chunk_frames. intros H.
  eapply Permutation_in in H; [|apply isort_perm]. apply filter_In in H. tauto.
Qed.

Lemma document_chunk_payloads_spec tbl f ps :
  document_chunk_payloads tbl f = Ok ps ->
  Forall (fun cp => In (fst cp) tbl /\ f_payload (fst cp) = Some (snd cp)) ps.
Proof.
  unfold document_chunk_payloads. destruct (f_manifest f); [|discriminate].
  destruct (document_chunk_frames tbl (f_id f)) eqn:E; [discriminate|].
  destruct (llen (f0 :: l) =? n); [|discriminate]. intros H.
  apply collect_payloads_spec in H. destruct H as [H1 H2].
  rewrite Forall_forall in *. intros cp Hcp. split; [|apply H2; exact Hcp].
  apply (document_chunk_frames_In tbl (f_id f)). rewrite E, <- H1. apply in_map. exact Hcp.
Qed.

Lemma own_ci_no_panic f s : own_ci f <> Panic s.
Proof.
  unfold own_ci. destruct (f_search_text f); [discriminate|].
  destruct (decoded_payload f) eqn:E; [discriminate|discriminate|exfalso; eapply decoded_payload_no_panic; eauto].
Qed.

Lemma resolve_no_panic tbl f s : resolve_chunk_context tbl f <> Panic s.
Proof.
  unfold resolve_chunk_context. destruct (f_role f =? 0).
  - destruct (f_manifest f); [|apply own_ci_no_panic].
    destruct (document_chunk_payloads tbl f) as [[|[c p] r]| |] eqn:E; try discriminate.
    exfalso. eapply document_chunk_payloads_no_panic; eauto.
  - destruct (f_role f =? 1); [|discriminate].
    destruct (chunk_via_parent tbl f); [discriminate|apply own_ci_no_panic].
Qed.

(* payloads of the table are valid UTF-8: from_utf8_lossy changes nothing, so the decoded byte
   length is the length of the text *)
Definition payloads_utf8 (tbl : table) : Prop :=
  forall f n s, In f tbl -> f_payload f = Some (n, s) -> n = len (utf8 s).

Definition ci_consistent (ci : chunk_info) : Prop := ci_end ci = ci_start ci + len (utf8 (ci_text ci)).

Lemma own_ci_consistent tbl f ci :
  payloads_utf8 tbl -> In f tbl -> own_ci f = Ok ci -> ci_consistent ci.
Proof.
  intros HP Hf. unfold own_ci. destruct (f_search_text f) as [s|].
  - intros H. inversion H. unfold ci_consistent, ci_of_text. cbn [ci_start ci_end ci_text]. lia.
  - destruct (decoded_payload f) as [[n s]| |] eqn:E; try discriminate.
    intros H. inversion H. apply decoded_payload_ok in E. specialize (HP f n s Hf E).
    unfold ci_consistent, ci_of_payload. cbn [ci_start ci_end ci_text fst snd]. lia.
Qed.

Theorem resolve_consistent tbl f ci :
  payloads_utf8 tbl -> In f tbl -> resolve_chunk_context tbl f = Ok ci -> ci_consistent ci.
Proof.
  intros HP Hf. unfold resolve_chunk_context. destruct (f_role f =? 0).
  - destruct (f_manifest f) as [nch|]; [|apply (own_ci_consistent tbl); assumption].
    destruct (document_chunk_payloads tbl f) as [[|[c [n s]] r]| |] eqn:E; try discriminate.
    intros H. inversion H. apply document_chunk_payloads_spec in E.
    inversion E as [|x l [Hin Hpay] _]; subst. cbn [fst snd] in *.
    specialize (HP c n s Hin Hpay).
    unfold ci_consistent, ci_of_payload. cbn [ci_start ci_end ci_text fst snd]. lia.
  - destruct (f_role f =? 1).
    + destruct (chunk_via_parent tbl f) as [ci'|] eqn:E; [|apply (own_ci_consistent tbl); assumption].
      intros H. inversion H; subst ci'. clear H. unfold chunk_via_parent in E.
      destruct (f_parent f) as [pid|]; [|discriminate].
      destruct (get tbl pid) as [parent|]; [|discriminate].
      destruct (f_manifest parent) as [nch|]; [|discriminate].
      destruct (document_chunk_payloads tbl parent) as [ps| |] eqn:EP; try discriminate.
      destruct (f_chunk_index f) as [idx|]; [|discriminate].
      destruct (nth_error ps (N.to_nat idx)) as [[c [n s]]|] eqn:EN; [|discriminate].
      inversion E. apply document_chunk_payloads_spec in EP. rewrite Forall_forall in EP.
      destruct (EP _ (nth_error_In _ _ EN)) as [Hin Hpay]. cbn [fst snd] in *.
      specialize (HP c n s Hin Hpay).
      unfold ci_consistent, ci_of_payload. cbn [ci_start ci_end ci_text fst snd]. lia.
    + intros H. inversion H. unfold ci_consistent. cbn. reflexivity.
Qed.

(* ranks 1..n *)
Definition ranks_ok (hits : list hit) : Prop :=
  map h_rank hits = map N.of_nat (seq 1 (length hits)).

Lemma ranks_ok_snoc hits h : ranks_ok hits -> h_rank h = llen hits + 1 -> ranks_ok (hits ++ [h]).
Proof.
  unfold ranks_ok. intros H Hr. rewrite map_app, app_length. cbn [length map].
  replace (length hits + 1)%nat with (S (length hits)) by lia.
  rewrite seq_S, map_app, H. cbn [map]. f_equal. rewrite Hr. unfold llen. f_equal. lia.
Qed.

(* ---------------------------------------------------------------- the tantivy pipeline *)
Section Pipeline.
  Variable parse_date : str -> option Z.
  Variable content_ts : list str -> option Z.
  Variable resort : list ev -> list ev.
  Variable tbl : table.
  Variable parsed : expr.
  Variable tokens : list bytes.
  Variable rq : request.

  (* the three culls of the evaluation loop, as a predicate on a frame of the table *)
  Definition cand_ok (f : frame) (ci : chunk_info) : Prop :=
    passes_filters rq f = true /\
    resolve_chunk_context tbl f = Ok ci /\
    eval parse_date parsed (doc_of f (eval_text f ci)) = true.

  Definition ev_good (cands : list (N * N)) (d : ev) : Prop :=
    In (ev_frame d, ev_score d) cands /\
    exists f, get tbl (ev_frame d) = Some f /\ cand_ok f (ev_ci d) /\
      ev_occ d = collect_token_occurrences (utf8 (eval_text f (ev_ci d))) tokens /\
      compute_snippet_slices (utf8 (ci_text (ev_ci d))) (ev_occ d) (snippet_window rq) (max_snippets_per_doc rq)
        = Ok (ev_slices d) /\
      ev_slices d <> [].

  Lemma post_eval_one_good c d :
    post_eval_one parse_date content_ts tbl parsed tokens rq c = Ok (Some d) -> ev_good [c] d.
  Proof.
    unfold post_eval_one. destruct (get tbl (fst c)) as [f|] eqn:Eg; [|discriminate].
    destruct (passes_filters rq f) eqn:Ef; cbn [negb]; [|discriminate].
    destruct (resolve_chunk_context tbl f) as [ci| |] eqn:Er; try discriminate.
    destruct (eval parse_date parsed (doc_of f (eval_text f ci))) eqn:Ee; cbn [negb]; [|discriminate].
    destruct (compute_snippet_slices _ _ _ _) as [[|s sl]| |] eqn:Ec; try discriminate.
    intros H. inversion H; subst d. clear H. unfold ev_good. cbn [ev_frame ev_score ev_ci ev_occ ev_slices].
    split; [left; destruct c; reflexivity|].
    exists f. split; [exact Eg|]. split; [unfold cand_ok; auto|].
    split; [reflexivity|]. split; [exact Ec|discriminate].
  Qed.

  Lemma ev_good_weaken c1 c2 d : incl c1 c2 -> ev_good c1 d -> ev_good c2 d.
  Proof. intros Hi [H1 H2]. split; [apply Hi; exact H1|exact H2]. Qed.

  Lemma evaluate_all_good cands evs :
    evaluate_all parse_date content_ts tbl parsed tokens rq cands = Ok evs -> Forall (ev_good cands) evs.
  Proof.
    revert evs. induction cands as [|c r IH]; cbn [evaluate_all]; intros evs H.
    - inversion H. constructor.
    - destruct (post_eval_one _ _ _ _ _ _ c) as [o| |] eqn:E1; try discriminate.
      destruct (evaluate_all _ _ _ _ _ _ r) as [l| |] eqn:E2; try discriminate.
      inversion H; subst evs. clear H. specialize (IH l eq_refl).
      assert (Hl : Forall (ev_good (c :: r)) l).
      { eapply Forall_impl; [|exact IH]. intros d. apply ev_good_weaken. intros x Hx; right; exact Hx. }
      destruct o as [d|]; [|exact Hl].
      constructor; [|exact Hl]. apply post_eval_one_good in E1.
      eapply ev_good_weaken; [|exact E1]. intros x [Hx|[]]; left; exact Hx.
  Qed.

  (* what the property says of one hit *)
  Definition hit_good (cands : list (N * N)) (h : hit) : Prop :=
    In (h_frame h, h_score h) cands /\
    exists f ci, get tbl (h_frame h) = Some f /\ cand_ok f ci /\
      h_chunk_range h = (ci_start ci, ci_end ci) /\
      h_chunk_text h = utf8 (ci_text ci) /\
      ci_start ci <= fst (h_range h) /\ fst (h_range h) < snd (h_range h) /\
      snd (h_range h) <= ci_start ci + len (h_chunk_text h) /\
      str_slice (h_chunk_text h) (fst (h_range h) - ci_start ci) (snd (h_range h) - ci_start ci) = Ok (h_text h) /\
      h_text h <> [] /\ 1 <= h_matches h.


  Definition st_inv (cands : list (N * N)) (k : N) (st : list hit * N) : Prop :=
    llen (fst st) <= k /\ ranks_ok (fst st) /\ Forall (hit_good cands) (fst st).


  Section Loops.
    Variable cands : list (N * N).
    Variables k offset : N.

    Lemma inner_loop_inv d sls st st' :
      ev_good cands d ->
      inner_loop k offset d sls st = Ok st' -> st_inv cands k st -> st_inv cands k st'.
    Proof.
      intros Hd. revert st st'. induction sls as [|[start end_] r IH]; intros [hits produced] st' H Hinv.
      - cbn [inner_loop] in H. inversion H; subst; exact Hinv.
      - cbn [inner_loop] in H.
        destruct (produced <? offset); [eapply IH; [exact H|exact Hinv]|].
        destruct (llen hits =? k) eqn:Ek; [inversion H; subst; exact Hinv|].
        set (cb := utf8 (ci_text (ev_ci d))) in *.
        destruct (N.min end_ (len cb) <=? N.min start (len cb)) eqn:El; [eapply IH; [exact H|exact Hinv]|].
        destruct (ci_start (ev_ci d) + N.min end_ (len cb) <=? ci_start (ev_ci d) + N.min start (len cb)) eqn:Eg;
          [eapply IH; [exact H|exact Hinv]|].
        destruct (str_slice cb (N.min start (len cb)) (N.min end_ (len cb))) as [txt| |] eqn:Es; try discriminate.
        eapply IH; [exact H|]. clear H IH.
        destruct Hinv as (Hlen & Hranks & Hall). cbn [fst] in *.
        unfold st_inv. cbn [fst]. split; [rewrite llen_app; unfold llen at 2; cbn [length]; lia|].
        split; [apply ranks_ok_snoc; [exact Hranks|reflexivity]|].
        apply Forall_app. split; [exact Hall|]. constructor; [|constructor].
        destruct Hd as (Hin & f & Hget & Hok & _).
        unfold hit_good. cbn [h_frame h_score h_range h_text h_matches h_chunk_range h_chunk_text fst snd].
        split; [exact Hin|]. exists f, (ev_ci d). split; [exact Hget|]. split; [exact Hok|].
        split; [reflexivity|]. split; [reflexivity|]. fold cb.
        split; [lia|]. split; [lia|]. split; [lia|].
        replace (ci_start (ev_ci d) + N.min start (len cb) - ci_start (ev_ci d)) with (N.min start (len cb)) by lia.
        replace (ci_start (ev_ci d) + N.min end_ (len cb) - ci_start (ev_ci d)) with (N.min end_ (len cb)) by lia.
        split; [exact Es|]. split; [|unfold matches_in; lia].
        eapply str_slice_nonempty; [exact Es|lia|lia].
    Qed.

    Lemma outer_loop_inv evs st st' :
      Forall (ev_good cands) evs ->
      outer_loop tbl k offset evs st = Ok st' -> st_inv cands k st -> st_inv cands k st'.
    Proof.
      revert st st'. induction evs as [|d r IH]; intros [hits produced] st' Hall H Hinv.
      - cbn [outer_loop] in H. inversion H; subst; exact Hinv.
      - cbn [outer_loop] in H. inversion Hall as [|x l Hd Hr]; subst.
        destruct ((llen hits =? k) && (offset <=? produced)); [inversion H; subst; exact Hinv|].
        destruct (get tbl (ev_frame d)); [|eapply IH; eauto].
        destruct (inner_loop k offset d (ev_slices d) (hits, produced)) as [st1| |] eqn:Ei; try discriminate.
        eapply IH; [exact Hr|exact H|]. eapply inner_loop_inv; eauto.
    Qed.
  End Loops.

  Hypothesis resort_members : forall l x, In x (resort l) -> In x l.

  (* ---- the composition theorem ---- *)
  Theorem hits_valid has_lex cands r :
    tantivy_post parse_date content_ts resort has_lex tbl parsed tokens rq cands = Ok (Some r) ->
    llen (r_hits r) <= N.max (rq_top_k rq) 1 /\
    ranks_ok (r_hits r) /\
    Forall (hit_good cands) (r_hits r).
  Proof.
    unfold tantivy_post. destruct cands as [|c0 cr].
    - destruct has_lex; [discriminate|]. intros H. inversion H. unfold empty_response. cbn [r_hits].
      split; [unfold llen; cbn [length]; lia|]. split; [reflexivity|constructor].
    - set (cands := c0 :: cr).
      destruct (evaluate_all _ _ _ _ _ _ cands) as [ev0| |] eqn:Ee; try discriminate.
      apply evaluate_all_good in Ee.
      set (evs := if 1 <? llen ev0 then resort ev0 else ev0).
      assert (Hevs : Forall (ev_good cands) evs).
      { unfold evs. destruct (1 <? llen ev0); [|exact Ee].
        rewrite Forall_forall in *. intros x Hx. apply Ee, resort_members, Hx. }
      destruct evs as [|e1 er] eqn:Eevs; [discriminate|]. rewrite <- Eevs in *.
      destruct (total_slices evs =? 0); [discriminate|].
      destruct (SearchPage.parse_cursor (rq_cursor rq) (total_slices evs)) as [offset| |]; try discriminate.
      destruct (outer_loop tbl (N.max (rq_top_k rq) 1) offset evs ([], 0)) as [[hits produced]| |] eqn:Eo; try discriminate.
      intros H. inversion H; subst r. clear H. cbn [r_hits].
      eapply (outer_loop_inv cands) in Eo; [exact Eo|exact Hevs|].
      unfold st_inv. cbn [fst]. split; [unfold llen; cbn [length]; lia|]. split; [reflexivity|constructor].
  Qed.

  (* ---- it never panics ---- *)
  (* a Rust String is shorter than isize::MAX bytes *)
  Definition texts_in_range : Prop :=
    forall f ci, In f tbl -> resolve_chunk_context tbl f = Ok ci -> len (utf8 (eval_text f ci)) < ISIZE_LIMIT.

  Lemma post_eval_one_no_panic c s :
    texts_in_range -> rq_snippet_chars rq < USIZE_LIMIT ->
    post_eval_one parse_date content_ts tbl parsed tokens rq c <> Panic s.
  Proof.
    intros HT HS. unfold post_eval_one. destruct (get tbl (fst c)) as [f|] eqn:Eg; [|discriminate].
    destruct (negb (passes_filters rq f)); [discriminate|].
    destruct (resolve_chunk_context tbl f) as [ci| |] eqn:Er; [|discriminate|exfalso; eapply resolve_no_panic; eauto].
    destruct (negb (eval parse_date parsed (doc_of f (eval_text f ci)))); [discriminate|].
    pose proof (callsite_with_collected_occurrences (utf8 (ci_text ci)) (utf8 (eval_text f ci)) tokens
                  (collect_token_occurrences (utf8 (eval_text f ci)) tokens) (rq_snippet_chars rq) (rq_top_k rq)
                  (HT f ci (get_In _ _ _ Eg) Er) HS (collect_incl _ _)) as Hok.
    unfold snippet_window, max_snippets_per_doc.
    destruct (compute_snippet_slices _ _ _ _) as [[|x sl]| |]; try discriminate. destruct Hok.
  Qed.

  Lemma evaluate_all_no_panic cands :
    texts_in_range -> rq_snippet_chars rq < USIZE_LIMIT ->
    forall s, evaluate_all parse_date content_ts tbl parsed tokens rq cands <> Panic s.
  Proof.
    intros HT HS. induction cands as [|c r IH]; cbn [evaluate_all]; intros s; [discriminate|].
    destruct (post_eval_one _ _ _ _ _ _ c) as [o| |] eqn:E1;
      [|discriminate|exfalso; eapply post_eval_one_no_panic; eauto].
    destruct (evaluate_all _ _ _ _ _ _ r) as [l|e|s2] eqn:E2; [discriminate|discriminate|].
    exfalso. exact (IH s2 eq_refl).
  Qed.

  Lemma inner_loop_no_panic k offset d sls st s :
    Forall (slice_sane (utf8 (ci_text (ev_ci d)))) sls ->
    inner_loop k offset d sls st <> Panic s.
  Proof.
    revert st s. induction sls as [|[start end_] r IH]; intros [hits produced] s Hall; cbn [inner_loop]; [discriminate|].
    inversion Hall as [|x l Hs Hr]; subst.
    destruct (produced <? offset); [apply IH; exact Hr|].
    destruct (llen hits =? k); [discriminate|].
    set (cb := utf8 (ci_text (ev_ci d))) in *.
    destruct (N.min end_ (len cb) <=? N.min start (len cb)); [apply IH; exact Hr|].
    destruct (_ + _ <=? _ + _); [apply IH; exact Hr|].
    destruct Hs as (H1 & H2 & _ & _ & bs & Hbs). cbn [fst snd] in *.
    replace (N.min start (len cb)) with start by lia. replace (N.min end_ (len cb)) with end_ by lia.
    rewrite Hbs. apply IH; exact Hr.
  Qed.

  Lemma outer_loop_no_panic cands k offset evs st s :
    Forall (ev_good cands) evs -> outer_loop tbl k offset evs st <> Panic s.
  Proof.
    revert st s. induction evs as [|d r IH]; intros [hits produced] s Hall; cbn [outer_loop]; [discriminate|].
    inversion Hall as [|x l Hd Hr]; subst.
    destruct ((llen hits =? k) && (offset <=? produced)); [discriminate|].
    destruct (get tbl (ev_frame d)) as [fm|]; [|apply IH; exact Hr].
    destruct (inner_loop k offset d (ev_slices d) (hits, produced)) as [st1| |] eqn:Ei;
      [apply IH; exact Hr|discriminate|].
    exfalso. eapply inner_loop_no_panic; [|exact Ei].
    destruct Hd as (_ & f0 & _ & _ & _ & Hc & _). apply slices_always in Hc. tauto.
  Qed.

  Theorem no_panic has_lex cands s :
    texts_in_range -> rq_snippet_chars rq < USIZE_LIMIT ->
    tantivy_post parse_date content_ts resort has_lex tbl parsed tokens rq cands <> Panic s.
  Proof.
    intros HT HS. unfold tantivy_post. destruct cands as [|c0 cr]; [destruct has_lex; discriminate|].
    set (cands := c0 :: cr).
    destruct (evaluate_all _ _ _ _ _ _ cands) as [ev0| |] eqn:Ee;
      [|discriminate|exfalso; eapply evaluate_all_no_panic; eauto].
    apply evaluate_all_good in Ee.
    set (evs := if 1 <? llen ev0 then resort ev0 else ev0).
    assert (Hevs : Forall (ev_good cands) evs).
    { unfold evs. destruct (1 <? llen ev0); [|exact Ee].
      rewrite Forall_forall in *. intros x Hx. apply Ee, resort_members, Hx. }
    destruct evs as [|e1 er] eqn:Eevs; [discriminate|]. rewrite <- Eevs in *.
    destruct (total_slices evs =? 0); [discriminate|].
    destruct (SearchPage.parse_cursor (rq_cursor rq) (total_slices evs)) as [offset| |] eqn:Ec; [|discriminate|].
    - destruct (outer_loop tbl (N.max (rq_top_k rq) 1) offset evs ([], 0)) as [[hits produced]| |] eqn:Eo;
        [discriminate|discriminate|]. exfalso. eapply outer_loop_no_panic; eauto.
    - exfalso. unfold SearchPage.parse_cursor in Ec.
      destruct (rq_cursor rq) as [[n p| |]|]; try discriminate.
      destruct (total_slices evs <? n); discriminate.
  Qed.
End Pipeline.

(* ---------------------------------------------------------------- corollaries on the query *)
(* every conjunct of a conjunctive query holds of a document that satisfies it -- in particular a
   date:[a TO b] conjunct: DateRange::matches is the evaluator's TDate case *)
Lemma eval_conjunct pd l d c : eval pd (EAnd l) d = true -> In c l -> eval pd c d = true.
Proof. cbn [eval]. intros H Hc. rewrite forallb_forall in H. apply H. exact Hc. Qed.

Lemma eval_date_term pd a b d :
  eval pd (ETerm (TDate a b)) d = true ->
  (a = None /\ b = None) \/ exists t, In t (date_candidates pd d) /\ in_range a b t = true.
Proof.
  cbn [eval eval_term]. destruct a as [x|], b as [y|]; intros H; try (right; apply existsb_exists in H; exact H).
  left; split; reflexivity.
Qed.

(* ---------------------------------------------------------------- C16's page loop is this page loop *)
(* Forgetting text, matches, chunk range, rank and score, hit assembly is the page loop of
   Model/SearchPage.v (C16) with emit_tantivy over the same evaluated list: C16's pagination
   theorems speak about the (frame, range) projection of the hits proved valid here. *)
Definition edoc_of (d : ev) : SearchPage.edoc :=
  SearchPage.mkEdoc (ev_frame d) (ev_score d) (ci_start (ev_ci d)) (len (utf8 (ci_text (ev_ci d))))
                    (ev_slices d) (ev_ts d).
Definition core (h : hit) : SearchPage.hit := (h_frame h, h_range h).

Lemma inner_loop_sim k offset d sls hits produced st' :
  inner_loop k offset d sls (hits, produced) = Ok st' ->
  SearchPage.inner_loop SearchPage.emit_tantivy k offset (edoc_of d) sls (map core hits, produced)
  = (map core (fst st'), snd st').
Proof.
  revert hits produced st'. induction sls as [|[start end_] r IH]; intros hits produced st' H.
  - cbn [inner_loop] in H. inversion H. reflexivity.
  - cbn [inner_loop] in H. cbn [SearchPage.inner_loop].
    destruct (produced <? offset); [apply IH; exact H|].
    replace (SearchPage.len (map core hits)) with (llen hits)
      by (unfold SearchPage.len, llen; rewrite map_length; reflexivity).
    destruct (llen hits =? k); [inversion H; reflexivity|].
    unfold SearchPage.emit_tantivy. cbn [fst snd edoc_of SearchPage.e_clen SearchPage.e_cstart SearchPage.e_frame].
    set (cb := utf8 (ci_text (ev_ci d))) in *.
    destruct (N.min end_ (len cb) <=? N.min start (len cb)); [apply IH; exact H|].
    destruct (ci_start (ev_ci d) + N.min end_ (len cb) <=? ci_start (ev_ci d) + N.min start (len cb));
      [apply IH; exact H|].
    destruct (str_slice cb (N.min start (len cb)) (N.min end_ (len cb))) as [txt| |]; try discriminate.
    apply IH in H. rewrite map_app in H. exact H.
Qed.

Lemma outer_loop_sim tbl k offset evs hits produced st' :
  Forall (fun d => get tbl (ev_frame d) <> None) evs ->
  outer_loop tbl k offset evs (hits, produced) = Ok st' ->
  SearchPage.outer_loop SearchPage.emit_tantivy k offset true (map edoc_of evs) (map core hits, produced)
  = (map core (fst st'), snd st').
Proof.
  revert hits produced st'. induction evs as [|d r IH]; intros hits produced st' Hall H.
  - cbn [outer_loop] in H. inversion H. reflexivity.
  - cbn [outer_loop] in H. cbn [map SearchPage.outer_loop]. inversion Hall as [|x l Hd Hr]; subst.
    replace (SearchPage.len (map core hits)) with (llen hits)
      by (unfold SearchPage.len, llen; rewrite map_length; reflexivity).
    cbn [andb]. destruct ((llen hits =? k) && (offset <=? produced)); [inversion H; reflexivity|].
    destruct (get tbl (ev_frame d)) as [fm|]; [|congruence].
    destruct (inner_loop k offset d (ev_slices d) (hits, produced)) as [[h1 p1]| |] eqn:Ei; try discriminate.
    apply inner_loop_sim in Ei. cbn [fst snd] in Ei.
    change (SearchPage.e_slices (edoc_of d)) with (ev_slices d). rewrite Ei.
    apply IH; [exact Hr|exact H].
Qed.

(* ---------------------------------------------------------------- the second pipeline *)
Section Fallback.
  Variable parse_date : str -> option Z.
  Variable canonical_text : frame -> outcome str.
  Variable tbl : table.
  Variable parsed : expr.
  Variable rq : request.
  Variable candidate_filter : option (list N).

  (* what search_with_lex_fallback itself guarantees of a hit, for ANY answer of the legacy index *)
  Definition lex_hit_good (ms : list lex_match) (h : hit) : Prop :=
    exists m f canonical,
      In m ms /\ lm_frame m = h_frame h /\ in_filter candidate_filter (h_frame h) = true /\
      get tbl (h_frame h) = Some f /\
      eval parse_date parsed (doc_of f (lower (lm_content m))) = true /\
      frame_content canonical_text f = Ok canonical /\
      fst (h_chunk_range h) <= fst (h_range h) /\ fst (h_range h) < snd (h_range h) /\
      snd (h_range h) <= snd (h_chunk_range h) /\ snd (h_chunk_range h) <= len (utf8 canonical) /\
      h_text h = byte_slice (utf8 canonical) (fst (h_range h)) (snd (h_range h)).

  Lemma lex_eval_one_spec m x :
    lex_eval_one parse_date tbl parsed rq candidate_filter m = Ok (Some x) ->
    fst x = m /\ in_filter candidate_filter (lm_frame m) = true /\
    exists f, get tbl (lm_frame m) = Some f /\ eval parse_date parsed (doc_of f (lower (lm_content m))) = true.
  Proof.
    unfold lex_eval_one. destruct (in_filter candidate_filter (lm_frame m)) eqn:Ef; cbn [negb]; [|discriminate].
    destruct (get tbl (lm_frame m)) as [f|] eqn:Eg; [|discriminate].
    destruct (eval parse_date parsed (doc_of f (lower (lm_content m)))) eqn:Ee; cbn [negb]; [|discriminate].
    destruct (compute_snippet_slices _ _ _ _) as [sl| |]; try discriminate.
    intros H. inversion H. cbn [fst]. split; [reflexivity|]. split; [reflexivity|]. exists f. auto.
  Qed.

  Definition lex_ev_good (ms : list lex_match) (x : lex_match * list (N * N)) : Prop :=
    In (fst x) ms /\ in_filter candidate_filter (lm_frame (fst x)) = true /\
    exists f, get tbl (lm_frame (fst x)) = Some f /\
              eval parse_date parsed (doc_of f (lower (lm_content (fst x)))) = true.

  Lemma lex_evaluate_good ms evs :
    lex_evaluate parse_date tbl parsed rq candidate_filter ms = Ok evs -> Forall (lex_ev_good ms) evs.
  Proof.
    revert evs. induction ms as [|m r IH]; cbn [lex_evaluate]; intros evs H.
    - inversion H. constructor.
    - destruct (lex_eval_one _ _ _ _ _ m) as [o| |] eqn:E1; try discriminate.
      destruct (lex_evaluate _ _ _ _ _ r) as [l| |] eqn:E2; try discriminate.
      inversion H; subst evs. clear H. specialize (IH l eq_refl).
      assert (Hl : Forall (lex_ev_good (m :: r)) l).
      { eapply Forall_impl; [|exact IH]. intros x (H1 & H2). split; [right; exact H1|exact H2]. }
      destruct o as [x|]; [|exact Hl]. constructor; [|exact Hl].
      apply lex_eval_one_spec in E1. destruct E1 as (H1 & H2 & H3).
      unfold lex_ev_good. rewrite H1. split; [left; reflexivity|]. split; [exact H2|exact H3].
  Qed.

  Definition lex_inv (ms : list lex_match) (k : N) (st : list hit * N) : Prop :=
    llen (fst st) <= k /\ ranks_ok (fst st) /\ Forall (lex_hit_good ms) (fst st).

  Lemma lex_inner_inv ms k offset m fm canonical sls st :
    In m ms -> in_filter candidate_filter (lm_frame m) = true ->
    get tbl (lm_frame m) = Some fm ->
    eval parse_date parsed (doc_of fm (lower (lm_content m))) = true ->
    frame_content canonical_text fm = Ok canonical ->
    lex_inv ms k st -> lex_inv ms k (lex_inner k offset m fm (utf8 canonical) sls st).
  Proof.
    intros Hm Hf Hg He Hc. revert st. induction sls as [|[start end_] r IH]; intros [hits produced] Hinv.
    - exact Hinv.
    - cbn [lex_inner]. destruct (produced <? offset); [apply IH; exact Hinv|].
      destruct (llen hits =? k) eqn:Ek; [exact Hinv|].
      set (cn := utf8 canonical) in *.
      set (eff := N.min (match f_canon_len fm with Some l => l | None => len cn end) (len cn)).
      set (cs := lm_chunk_offset m). set (ce := N.min (cs + len (utf8 (lm_content m))) eff).
      destruct (ce <=? cs) eqn:E1; [apply IH; exact Hinv|].
      destruct (N.min (cs + end_) ce <=? N.min (cs + start) ce) eqn:E2; [apply IH; exact Hinv|].
      apply IH. clear IH. destruct Hinv as (Hlen & Hranks & Hall). cbn [fst] in *.
      unfold lex_inv. cbn [fst]. split; [rewrite llen_app; unfold llen at 2; cbn [length]; lia|].
      split; [apply ranks_ok_snoc; [exact Hranks|reflexivity]|].
      apply Forall_app. split; [exact Hall|]. constructor; [|constructor].
      unfold lex_hit_good. cbn [h_frame h_range h_text h_chunk_range fst snd].
      exists m, fm, canonical. fold cn. repeat split; try assumption; try reflexivity;
        unfold ce, eff, cs in *; clear Hall Hranks; destruct (f_canon_len fm); lia.
  Qed.

  Lemma lex_outer_inv ms k offset evs st st' :
    Forall (lex_ev_good ms) evs ->
    lex_outer canonical_text tbl k offset evs st = Ok st' -> lex_inv ms k st -> lex_inv ms k st'.
  Proof.
    revert st st'. induction evs as [|[m sls] r IH]; intros st st' Hall H Hinv.
    - cbn [lex_outer] in H. inversion H; subst; exact Hinv.
    - cbn [lex_outer] in H. inversion Hall as [|x l Hd Hr]; subst.
      destruct Hd as (Hm & Hf & f & Hg & He). cbn [fst] in *.
      rewrite Hg in H. destruct (frame_content canonical_text f) as [canonical| |] eqn:Ec; try discriminate.
      eapply IH; [exact Hr|exact H|]. eapply lex_inner_inv; eauto.
  Qed.

  Theorem lex_fallback_valid ms r :
    lex_fallback parse_date canonical_text tbl parsed rq candidate_filter (Some ms) = Ok r ->
    llen (r_hits r) <= N.max (rq_top_k rq) 1 /\ ranks_ok (r_hits r) /\ Forall (lex_hit_good ms) (r_hits r).
  Proof.
    unfold lex_fallback.
    destruct (lex_evaluate _ _ _ _ _ ms) as [evs| |] eqn:Ee; try discriminate.
    apply lex_evaluate_good in Ee.
    destruct (_ =? 0).
    - intros H. inversion H. unfold empty_response. cbn [r_hits].
      split; [unfold llen; cbn [length]; lia|]. split; [reflexivity|constructor].
    - destruct (SearchPage.parse_cursor _ _) as [offset| |]; try discriminate.
      destruct (lex_outer _ _ _ _ _ _) as [[hits produced]| |] eqn:Eo; try discriminate.
      intros H. inversion H; subst r. clear H. cbn [r_hits].
      eapply (lex_outer_inv ms) in Eo; [exact Eo|exact Ee|].
      unfold lex_inv. cbn [fst]. split; [unfold llen; cbn [length]; lia|]. split; [reflexivity|constructor].
  Qed.
End Fallback.

Section FiltersOnly.
  Variable parse_date : str -> option Z.
  Variable frame_search_text : frame -> outcome str.
  Variable parsed : expr.
  Variable rq : request.

  (* what the match loop guarantees of every element of `matches` *)
  Definition fo_match_ok (frames : list frame) (x : frame * str) : Prop :=
    In (fst x) frames /\ f_status (fst x) = 0 /\ passes_filters rq (fst x) = true /\
    frame_search_text (fst x) = Ok (snd x) /\
    eval parse_date parsed (doc_of (fst x) (lower (snd x))) = true.

  Lemma fo_match_ok_weaken f r x : fo_match_ok r x -> fo_match_ok (f :: r) x.
  Proof. intros (H1 & H2). split; [right; exact H1|exact H2]. Qed.

  Lemma fo_matches_spec frames ms :
    fo_matches parse_date frame_search_text parsed rq frames = Ok ms -> Forall (fo_match_ok frames) ms.
  Proof.
    revert ms. induction frames as [|f r IH]; cbn [fo_matches]; intros ms H.
    - inversion H. constructor.
    - destruct (f_status f =? 0) eqn:Es; cbn [negb] in H;
        [|eapply Forall_impl; [apply fo_match_ok_weaken|apply IH; exact H]].
      destruct (passes_filters rq f) eqn:Ep; cbn [negb] in H;
        [|eapply Forall_impl; [apply fo_match_ok_weaken|apply IH; exact H]].
      destruct (frame_search_text f) as [st| |] eqn:E1; try discriminate.
      destruct (fo_matches _ _ _ _ r) as [l| |] eqn:E2; try discriminate.
      inversion H; subst ms. clear H. specialize (IH l eq_refl).
      assert (Hl : Forall (fo_match_ok (f :: r)) l).
      { eapply Forall_impl; [apply fo_match_ok_weaken|exact IH]. }
      destruct (eval parse_date parsed (doc_of f (lower st))) eqn:Ee; [|exact Hl].
      constructor; [|exact Hl]. unfold fo_match_ok. cbn [fst snd].
      split; [left; reflexivity|]. split; [lia|]. split; [exact Ep|]. split; [exact E1|exact Ee].
  Qed.

  Definition fo_hit_good (frames : list frame) (h : hit) : Prop :=
    exists f st, In f frames /\ f_id f = h_frame h /\ f_status f = 0 /\ passes_filters rq f = true /\
      frame_search_text f = Ok st /\
      eval parse_date parsed (doc_of f (lower st)) = true /\
      h_text h = utf8 (firstn (N.to_nat (N.max (rq_snippet_chars rq) 80)) st) /\
      h_range h = (0, len (h_text h)) /\ h_chunk_range h = h_range h.

  Lemma fo_hits_spec frames k : forall rank ms,
    Forall (fo_match_ok frames) ms ->
    let hits := fo_hits rq k rank ms in
    (length hits <= k)%nat /\ map h_rank hits = map (fun i => rank + N.of_nat i) (seq 0 (length hits)) /\
    Forall (fo_hit_good frames) hits.
  Proof.
    induction k as [|k IH]; intros rank ms Hall; cbn [fo_hits].
    - cbn. split; [lia|]. split; [reflexivity|constructor].
    - destruct ms as [|x r]; [cbn; split; [lia|]; split; [reflexivity|constructor]|].
      inversion Hall as [|y l Hx Hr]; subst. destruct (IH (rank + 1) r Hr) as (H1 & H2 & H3).
      cbn [length map seq]. split; [lia|]. split.
      + f_equal; [unfold fo_hit; cbn [h_rank]; lia|]. rewrite H2, <- seq_shift, map_map.
        apply map_ext. intros i. lia.
      + constructor; [|exact H3]. destruct Hx as (Ha & Hb & Hc & Hd & He).
        exists (fst x), (snd x). unfold fo_hit. cbn [h_frame h_text h_range h_chunk_range].
        repeat split; assumption.
  Qed.

  Theorem filters_only_valid tbl candidate_filter r :
    filters_only parse_date frame_search_text tbl parsed rq candidate_filter = Ok r ->
    llen (r_hits r) <= N.max (rq_top_k rq) 1 /\
    map h_rank (r_hits r) = map (fun i => 1 + N.of_nat i) (seq 0 (length (r_hits r))) /\
    Forall (fo_hit_good tbl) (r_hits r) /\
    forall h, In h (r_hits r) -> in_filter candidate_filter (h_frame h) = true.
  Proof.
    unfold filters_only.
    set (frames := match candidate_filter with Some l => filter _ tbl | None => tbl end).
    assert (Hsub : forall f, In f frames -> In f tbl /\ in_filter candidate_filter (f_id f) = true).
    { unfold frames, in_filter. destruct candidate_filter as [l|]; intros f Hf; [|split; [exact Hf|reflexivity]].
      apply filter_In in Hf. exact Hf. }
    destruct (fo_matches _ _ _ _ frames) as [ms| |] eqn:Em; try discriminate.
    apply fo_matches_spec in Em.
    destruct (llen ms =? 0).
    - intros H. inversion H. unfold empty_response. cbn [r_hits].
      split; [unfold llen; cbn [length]; lia|]. split; [reflexivity|]. split; [constructor|intros h []].
    - destruct (SearchPage.parse_cursor _ _) as [offset| |]; try discriminate.
      intros H. inversion H; subst r. clear H. cbn [r_hits].
      assert (Hsk : Forall (fo_match_ok frames) (skipn (N.to_nat offset) ms)).
      { rewrite Forall_forall in *. intros x Hx. apply Em.
        rewrite <- (firstn_skipn (N.to_nat offset) ms). apply in_or_app. right. exact Hx. }
      destruct (fo_hits_spec frames (N.to_nat (N.max (rq_top_k rq) 1)) 1 _ Hsk) as (H1 & H2 & H3).
      split; [unfold llen; lia|]. split; [exact H2|]. split.
      + eapply Forall_impl; [|exact H3]. intros h (f & st & Ha & Hb). exists f, st. split; [apply Hsub; exact Ha|exact Hb].
      + intros h Hh. rewrite Forall_forall in H3. destruct (H3 h Hh) as (f & st & Ha & Hb & _).
        rewrite <- Hb. apply Hsub. exact Ha.
  Qed.
End FiltersOnly.

(* ---------------------------------------------------------------- filters-only route: the property *)
(* frame ids are table positions (C06) *)
Definition dense (tbl : table) : Prop := forall i f, nth_error tbl i = Some f -> f_id f = N.of_nat i.

Theorem filters_only_hits_valid pd fst_ tbl parsed rq cf r :
  filters_only pd fst_ tbl parsed rq cf = Ok r -> dense tbl ->
  llen (r_hits r) <= N.max (rq_top_k rq) 1 /\
  map h_rank (r_hits r) = map (fun i => 1 + N.of_nat i) (seq 0 (length (r_hits r))) /\
  forall h, In h (r_hits r) ->
    in_filter cf (h_frame h) = true /\
    exists f st, get tbl (h_frame h) = Some f /\ f_status f = 0 /\ passes_filters rq f = true /\
                 fst_ f = Ok st /\ eval pd parsed (doc_of f (lower st)) = true /\
                 h_text h = utf8 (firstn (N.to_nat (N.max (rq_snippet_chars rq) 80)) st) /\
                 h_range h = (0, len (h_text h)) /\ h_chunk_range h = h_range h.
Proof.
  intros Hr Hd. apply filters_only_valid in Hr. destruct Hr as (H1 & H2 & Hall & Hcf).
  split; [exact H1|]. split; [exact H2|]. intros h Hh. split; [apply Hcf; exact Hh|].
  rewrite Forall_forall in Hall.
  destruct (Hall h Hh) as (f & st & Hin & Hid & Hact & Hpf & Hst & He & Ht & Hrg & Hcr).
  exists f, st. split; [|repeat split; assumption].
  apply In_nth_error in Hin. destruct Hin as [i Hi]. pose proof (Hd i f Hi) as Hfi.
  unfold get. rewrite <- Hid, Hfi, Nat2N.id. exact Hi.
Qed.

(* the former findings F-C10-1 / F-C10-2 (fixed by /repo dcf427c) as regression examples: the query `*`
   (no text token, engine gave no answer) no longer returns a Deleted frame nor a frame outside the scope *)
Definition w_text : str := [97; 108; 112; 104; 97].                 (* "alpha" *)
Definition w_frame (id status : N) (uri : option str) : frame :=
  mkFrame id status 0 uri None [] [] 0%Z [] (Some w_text) None None None None None.
Definition w_fst (f : frame) : outcome str := Ok (match f_search_text f with Some s => s | None => [] end).
Definition w_query : expr := ETerm (TWild [42]).
Definition w_rq (scope : option str) : request := mkRq 5 80 None scope None.
Definition w_search (tbl : table) (rq : request) : outcome response :=
  search_pipelines (fun _ => None) (fun _ => None) (fun l => l) w_fst w_fst tbl w_query [] rq None false false None None.
Definition w_uri_a : str := [109; 118; 50; 58; 47; 47; 97].          (* mv2://a *)
Definition w_uri_b : str := [109; 118; 50; 58; 47; 47; 98].          (* mv2://b *)

Lemma filters_only_regression :
  (* Deleted frame 0, Active frame 1: only frame 1 *)
  option_map (fun r => map h_frame (r_hits r))
             (match w_search [w_frame 0 2 None; w_frame 1 0 None] (w_rq None) with Ok r => Some r | _ => None end)
    = Some [1] /\
  (* scope mv2://b: frame 0 (uri mv2://a) is culled, frame 1 (uri mv2://b) is returned *)
  option_map (fun r => map h_frame (r_hits r))
             (match w_search [w_frame 0 0 (Some w_uri_a); w_frame 1 0 (Some w_uri_b)] (w_rq (Some w_uri_b)) with
              | Ok r => Some r | _ => None end)
    = Some [1].
Proof. split; vm_compute; reflexivity. Qed.
