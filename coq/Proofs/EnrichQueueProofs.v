(* C41, queue-side invariants over ALL schedules: who is in the queue, whose state changes,
   the worker's in-flight task, exactly-once, every queued frame accounted for. *)
From MV Require Import Base.Prelude Model.Store Model.StoreSpec Proofs.StoreProofs Model.Derived Proofs.DerivedProofs Model.Enrich Proofs.EnrichProofs.
Require Import ZifyBool ZifyNat ZifyN.
Local Open Scope N_scope.

Definition below (l : list N) (b : N) : Prop := forall t, In t l -> t < b.

(* ---- the part of the invariant that does not mention the worker ---- *)
Definition InvE (e : est) : Prop :=
  K (e_st e) /\
  incl (e_queue e) (e_queued e) /\ incl (e_marked e) (e_queued e) /\ incl (e_plog e) (e_queued e) /\
  incl (e_early e) (e_queued e) /\ incl (e_gone e) (e_queued e) /\
  below (e_queued e) (next_frame_id (e_st e)) /\ NoDup (e_queue e).

Lemma incl_cons_in (t : N) l m : In t m -> incl l m -> forall l1, incl l1 (t :: l) -> incl l1 m.
Proof. intros Ht Hl l1 H x Hx. destruct (H x Hx) as [E|E]; [subst; exact Ht|apply Hl; exact E]. Qed.

Lemma InvE_process e t : InvE e -> In t (e_queued e) -> InvE (fst (process e t)).
Proof.
  intros (HK & Q & M & P & Ea & G & B & ND) Ht.
  destruct (process_fields e t) as (F1 & _ & F3 & _ & _ & F6 & _ & _ & _ & _ & F11 & F12 & F13 & _).
  pose proof (process_store e t) as HS.
  unfold InvE. rewrite F1, F3, F6. repeat split.
  - eapply same_store_K; eauto.
  - exact Q.
  - exact (incl_cons_in t (e_marked e) _ Ht M _ F11).
  - intros x Hx. apply in_app_iff in Hx as [Hx|[Hx|[]]]; [apply P; exact Hx|subst; exact Ht].
  - exact (incl_cons_in t (e_early e) _ Ht Ea _ F12).
  - exact (incl_cons_in t (e_gone e) _ Ht G _ F13).
  - rewrite (same_store_nfi _ _ HS). exact B.
  - exact ND.
Qed.

Lemma InvE_complete e t : InvE e -> InvE (complete e t).
Proof.
  intros (HK & Q & M & P & Ea & G & B & ND). unfold InvE, complete. cbn [e_st e_queue e_queued e_marked e_plog e_early e_gone].
  repeat split; auto.
  - intros x Hx. apply Q. apply (remove_id_incl t _ x Hx).
  - apply NoDup_filter. exact ND.
Qed.

Lemma InvE_checkpoint e extra : InvE e -> InvE (checkpoint e extra).
Proof.
  intros (HK & Q & M & P & Ea & G & B & ND). unfold InvE, checkpoint, set_st. cbn [e_st e_queue e_queued e_marked e_plog e_early e_gone].
  repeat split; auto.
  - apply sstep_K. exact HK.
  - rewrite nfi_ocommit by exact HK. exact B.
Qed.

Lemma InvE_drain fuel : forall e, InvE e -> InvE (drain fuel e).
Proof.
  induction fuel as [|k IH]; intros e HI; cbn [drain]; [exact HI|].
  destruct (e_queue e) as [|t r] eqn:Eq; [exact HI|].
  apply IH. apply InvE_complete. apply InvE_process; [exact HI|].
  destruct HI as (_ & Q & _). apply Q. rewrite Eq. left. reflexivity.
Qed.

Lemma InvE_fields e e1 :
  e_st e1 = e_st e -> e_queue e1 = e_queue e -> e_marked e1 = e_marked e -> e_queued e1 = e_queued e ->
  e_early e1 = e_early e -> e_gone e1 = e_gone e -> e_plog e1 = e_plog e -> InvE e -> InvE e1.
Proof. intros A B C D E F G HI. unfold InvE in *. rewrite A, B, C, D, E, F, G. exact HI. Qed.


(* ---- the full invariant: InvE + the worker's in-flight task ---- *)
Definition flight_ok (e : est) (w : wst) : Prop :=
  forall t, (w_pc w = WHasTask t \/ w_pc w = WProcessed t) ->
            In t (e_queued e) /\ (~ In t (e_queue e) \/ exists r, e_queue e = t :: r).

Definition InvQ (x : est * wst) : Prop := InvE (fst x) /\ flight_ok (fst x) (snd x).

Lemma InvQ_wstep iv extra x : InvQ x -> InvQ (wstep iv extra x).
Proof.
  destruct x as [e w]. intros [HI HF]. cbn [fst snd] in *. unfold wstep. destruct (w_pc w) as [|t|t| |] eqn:Epc.
  - destruct (e_stop e).
    + split; cbn [fst snd].
      * destruct (0 <? w_since w); [apply InvE_checkpoint|]; exact HI.
      * intros t [H|H]; cbn [set_pc w_pc] in H; discriminate.
    + destruct (e_queue e) as [|t r] eqn:Eq.
      * split; [exact HI|]. cbn [fst snd]. intros t [H|H]; rewrite Epc in H; discriminate.
      * split; [exact HI|]. cbn [fst snd]. intros t' [H|H]; cbn [set_pc w_pc] in H; inversion H; subst t'.
        split; [destruct HI as (_ & Q & _); apply Q; rewrite Eq; left; reflexivity|].
        right. exists r. exact Eq.
  - destruct (HF t (or_introl Epc)) as [Hq Hh].
    pose proof (InvE_process e t HI Hq) as HI1.
    destruct (process_fields e t) as (F1 & _ & F3 & _).
    destruct (process e t) as [e1 err]. cbn [fst snd] in *. split; cbn [fst snd]; [exact HI1|].
    intros t' [H|H]; cbn [w_pc] in H; inversion H; subst t'. rewrite F1, F3. split; assumption.
  - split; cbn [fst snd]; [apply InvE_complete; exact HI|].
    intros t' [H|H]; cbn [w_pc] in H; destruct (iv <=? w_since w + 1); discriminate.
  - split; cbn [fst snd]; [apply InvE_checkpoint; exact HI|]. intros t' [H|H]; cbn [w_pc] in H; discriminate.
  - split; [exact HI|]. exact HF.
Qed.

Lemma flight_ok_fields e e1 w : e_queue e1 = e_queue e -> e_queued e1 = e_queued e -> flight_ok e w -> flight_ok e1 w.
Proof. intros A B HF. unfold flight_ok in *. rewrite A, B. exact HF. Qed.

Lemma InvQ_fstep f x : InvQ x -> InvQ (fstep f x).
Proof.
  destruct x as [e w]. intros [HI HF]. cbn [fst snd] in *.
  assert (Hstore : forall so, sop_of_f f = Some so ->
            InvQ (let id := next_frame_id (e_st e) in
                  let '(s1, o) := sstep (e_st e) so in
                  let push := match f with FPut _ _ _ _ q => q | _ => false end in
                  (mkE s1 (if push then e_queue e ++ [id] else e_queue e) (e_stop e) (e_marked e)
                       (if push then e_queued e ++ [id] else e_queued e) (e_early e) (e_gone e) (e_plog e)
                       (e_hist e ++ [(so, o)]) (e_overlap e), w))).
  { intros so Hso. cbv zeta. destruct HI as (HK & Q & M & P & Ea & G & B & ND).
    pose proof (sstep_K (e_st e) so HK) as HK1. pose proof (nfi_mono_f (e_st e) f so Hso HK) as Hmono.
    assert (Hstrict : (match f with FPut _ _ _ _ q => q | _ => false end) = true ->
                      next_frame_id (e_st e) < next_frame_id (fst (sstep (e_st e) so))).
    { destruct f as [uk tag n auto q| | | | | |]; try discriminate. intros _. cbn [sop_of_f] in Hso. inversion Hso; subst so.
      rewrite nfi_put by exact HK. lia. }
    destruct (sstep (e_st e) so) as [s1 o]. cbn [fst] in *.
    destruct (match f with FPut _ _ _ _ q => q | _ => false end) eqn:Epush.
    - specialize (Hstrict eq_refl).
      assert (Hfresh : ~ In (next_frame_id (e_st e)) (e_queued e)). { intros H. apply B in H. lia. }
      split; cbn [fst snd].
      + unfold InvE. cbn [e_st e_queue e_queued e_marked e_plog e_early e_gone]. repeat split.
        * exact HK1.
        * intros x Hx. apply in_app_iff in Hx as [Hx|Hx]; apply in_app_iff; [left; apply Q; exact Hx|right; exact Hx].
        * apply incl_appl; exact M.
        * apply incl_appl; exact P.
        * apply incl_appl; exact Ea.
        * apply incl_appl; exact G.
        * intros x Hx. apply in_app_iff in Hx as [Hx|[Hx|[]]]; [apply B in Hx; lia|subst; exact Hstrict].
        * apply NoDup_snoc; [exact ND|]. intros H. apply Hfresh. apply Q. exact H.
      + intros t Hpc. destruct (HF t Hpc) as [Hq Hh]. cbn [e_queue e_queued]. split; [apply in_app_iff; left; exact Hq|].
        destruct Hh as [Hn|[r Hr]].
        * left. intros H. apply in_app_iff in H as [H|[H|[]]]; [exact (Hn H)|]. subst t. exact (Hfresh Hq).
        * right. exists (r ++ [next_frame_id (e_st e)]). rewrite Hr. reflexivity.
    - split; cbn [fst snd].
      + unfold InvE. cbn [e_st e_queue e_queued e_marked e_plog e_early e_gone]. repeat split; auto.
        intros x Hx. apply B in Hx. lia.
      + exact HF. }
  destruct f as [uk tag n auto q|target newtag uk auto|target auto|extra| | |]; cbn [fstep sop_of_f];
    try (apply Hstore; reflexivity).
  - split; [exact HI|exact HF].
  - pose proof (InvE_drain (length (e_queue e)) e HI) as HD.
    pose proof (drain_queue_nil (length (e_queue e)) e (le_n _)) as Hnil.
    destruct (drain_fields (length (e_queue e)) e) as (_ & _ & C & _).
    split; cbn [fst snd].
    + eapply InvE_fields; [..|exact HD]; reflexivity.
    + intros t Hpc. destruct (HF t Hpc) as [Hq _]. cbn [e_queue e_queued]. rewrite C, Hnil. split; [exact Hq|]. left. intros [].
  - split; cbn [fst snd]; [eapply InvE_fields; [..|exact HI]; reflexivity|]. eapply flight_ok_fields; [..|exact HF]; reflexivity.
Qed.

Lemma InvQ_step iv x i : InvQ x -> InvQ (step iv x i).
Proof. destruct i as [extra|f]; cbn [step]; [apply InvQ_wstep|apply InvQ_fstep]. Qed.

Lemma InvQ_run_from iv sched : forall x, InvQ x -> InvQ (run_from iv x sched).
Proof.
  induction sched as [|i sched IH]; intros x HI; cbn [run_from fold_left]; [exact HI|].
  apply IH. apply InvQ_step. exact HI.
Qed.

Lemma InvQ_init : InvQ (e0, w0).
Proof.
  split; cbn [fst snd].
  - unfold InvE, e0. cbn [e_st e_queue e_queued e_marked e_plog e_early e_gone]. repeat split; try (intros x []); try apply K_store0; try constructor.
  - intros t [H|H]; discriminate.
Qed.

Theorem queue_facts iv sched :
  let e := fst (run iv sched) in let w := snd (run iv sched) in
  incl (e_queue e) (e_queued e) /\ incl (e_marked e) (e_queued e) /\ incl (e_plog e) (e_queued e) /\
  NoDup (e_queue e) /\ below (e_queued e) (next_frame_id (e_st e)) /\
  (forall t, (w_pc w = WHasTask t \/ w_pc w = WProcessed t) ->
             In t (e_queued e) /\ (~ In t (e_queue e) \/ exists r, e_queue e = t :: r)).
Proof.
  intros e w. destruct (InvQ_run_from iv sched (e0, w0) InvQ_init) as [(HK & Q & M & P & Ea & G & B & ND) HF].
  fold (run iv sched) in *. fold e in Q, M, P, B, ND, HF. fold w in HF. repeat split; auto; apply HF; assumption.
Qed.

(* a frame that was never queued keeps the state its put gave it (Enriched), and a queued frame's
   state only ever moves Searchable -> Enriched *)
Lemma state_of_unqueued e i : incl (e_marked e) (e_queued e) -> ~ In i (e_queued e) -> state_of e i = 1.
Proof.
  intros M Hn. unfold state_of. destruct (mem i (e_marked e)) eqn:Em; [reflexivity|].
  destruct (mem i (e_queued e)) eqn:Eq; [|reflexivity]. apply mem_In in Eq. contradiction.
Qed.

(* ================= every queued frame is accounted for ================= *)
Definition done (e : est) (t : N) : Prop := In t (e_marked e) \/ In t (e_early e) \/ In t (e_gone e).

Definition InvA (x : est * wst) : Prop :=
  (forall i, In i (e_queued (fst x)) -> In i (e_queue (fst x)) \/ done (fst x) i) /\
  (forall t, w_pc (snd x) = WProcessed t -> done (fst x) t).

Lemma done_process e t i : done e i -> done (fst (process e t)) i.
Proof.
  destruct (process_fields e t) as (_ & _ & _ & _ & _ & _ & _ & M & Ea & G & _).
  intros [H|[H|H]]; [left; apply M|right; left; apply Ea|right; right; apply G]; exact H.
Qed.
Lemma done_process_self e t : done (fst (process e t)) t.
Proof. destruct (process_fields e t) as (_ & _ & _ & _ & _ & _ & _ & _ & _ & _ & _ & _ & _ & D). exact D. Qed.

Lemma acc_complete e t :
  (forall i, In i (e_queued e) -> In i (e_queue e) \/ done e i) -> done e t ->
  forall i, In i (e_queued (complete e t)) -> In i (e_queue (complete e t)) \/ done (complete e t) i.
Proof.
  intros HA Hd i Hi. cbn [complete e_queued e_queue] in *. destruct (N.eq_dec i t) as [->|Hn].
  - right. exact Hd.
  - destruct (HA i Hi) as [H|H]; [left; apply remove_id_In; split; assumption|right; exact H].
Qed.

Lemma acc_drain fuel : forall e,
  (forall i, In i (e_queued e) -> In i (e_queue e) \/ done e i) ->
  (forall i, In i (e_queued (drain fuel e)) -> In i (e_queue (drain fuel e)) \/ done (drain fuel e) i) /\
  (forall t, done e t -> done (drain fuel e) t).
Proof.
  induction fuel as [|k IH]; intros e HA; cbn [drain]; [split; [exact HA|auto]|].
  destruct (e_queue e) as [|t r] eqn:Eq; [split; [first [exact HA | rewrite Eq; exact HA | intros i Hi; pose proof (HA i Hi) as H; rewrite Eq in H; exact H]|auto]|].
  destruct (process_fields e t) as (F1 & _ & F3 & _).
  assert (HA1 : forall i, In i (e_queued (fst (process e t))) -> In i (e_queue (fst (process e t))) \/ done (fst (process e t)) i).
  { intros i Hi. rewrite F1, Eq. rewrite F3 in Hi. destruct (HA i Hi) as [H|H]; [left; exact H|right; apply done_process; exact H]. }
  destruct (IH (complete (fst (process e t)) t) (acc_complete _ t HA1 (done_process_self e t))) as [R1 R2].
  split; [exact R1|]. intros t' Hd. apply R2. apply (done_process e t) in Hd. exact Hd.
Qed.

Lemma InvA_wstep iv extra x : InvA x -> InvA (wstep iv extra x).
Proof.
  destruct x as [e w]. intros [HA HP]. cbn [fst snd] in *. unfold wstep. destruct (w_pc w) as [|t|t| |] eqn:Epc.
  - destruct (e_stop e).
    + split; cbn [fst snd]; [|intros t H; discriminate].
      destruct (0 <? w_since w); exact HA.
    + destruct (e_queue e) as [|t r] eqn:Eq; (split; cbn [fst snd]; [first [exact HA | rewrite Eq; exact HA | intros i Hi; pose proof (HA i Hi) as H; rewrite Eq in H; exact H]|]).
      * intros t H. rewrite Epc in H. discriminate.
      * intros t' H. discriminate.
  - pose proof (done_process_self e t) as Hs. pose proof (done_process e t) as Hm.
    destruct (process_fields e t) as (F1 & _ & F3 & _).
    destruct (process e t) as [e1 err]. cbn [fst snd] in *. split; cbn [fst snd].
    + intros i Hi. rewrite F1. rewrite F3 in Hi. destruct (HA i Hi) as [H|H]; [left; exact H|right; apply Hm; exact H].
    + intros t' H. cbn [w_pc] in H. inversion H; subst t'. exact Hs.
  - split; cbn [fst snd]; [apply acc_complete; [exact HA|first [apply HP; reflexivity | apply HP; exact Epc]]|].
    intros t' H. cbn [w_pc] in H. destruct (iv <=? w_since w + 1); discriminate.
  - split; cbn [fst snd]; [exact HA|intros t H; discriminate].
  - split; cbn [fst snd]; [exact HA|]. intros t H. rewrite Epc in H. discriminate.
Qed.

Lemma InvA_fstep f x : InvA x -> InvA (fstep f x).
Proof.
  destruct x as [e w]. intros [HA HP]. cbn [fst snd] in *.
  assert (Hstore : forall so, sop_of_f f = Some so ->
            InvA (let id := next_frame_id (e_st e) in
                  let '(s1, o) := sstep (e_st e) so in
                  let push := match f with FPut _ _ _ _ q => q | _ => false end in
                  (mkE s1 (if push then e_queue e ++ [id] else e_queue e) (e_stop e) (e_marked e)
                       (if push then e_queued e ++ [id] else e_queued e) (e_early e) (e_gone e) (e_plog e)
                       (e_hist e ++ [(so, o)]) (e_overlap e), w))).
  { intros so Hso. cbv zeta. destruct (sstep (e_st e) so) as [s1 o]. split; cbn [fst snd e_queued e_queue].
    - intros i Hi. destruct (match f with FPut _ _ _ _ q => q | _ => false end).
      + apply in_app_iff in Hi as [Hi|Hi]; [destruct (HA i Hi) as [H|H]; [left; apply in_app_iff; left; exact H|right; exact H]|].
        left. apply in_app_iff. right. exact Hi.
      + exact (HA i Hi).
    - exact HP. }
  destruct f as [uk tag n auto q|target newtag uk auto|target auto|extra| | |]; cbn [fstep sop_of_f];
    try (apply Hstore; reflexivity).
  - split; assumption.
  - destruct (acc_drain (length (e_queue e)) e HA) as [R1 R2]. split; cbn [fst snd].
    + exact R1.
    + intros t H. apply R2. apply HP. exact H.
  - split; cbn [fst snd]; assumption.
Qed.

Lemma InvA_run_from iv sched : forall x, InvA x -> InvA (run_from iv x sched).
Proof.
  induction sched as [|i sched IH]; intros x HI; cbn [run_from fold_left]; [exact HI|].
  apply IH. destruct i as [extra|f]; cbn [step]; [apply InvA_wstep|apply InvA_fstep]; exact HI.
Qed.

Theorem queued_accounted iv sched :
  let e := fst (run iv sched) in
  forall i, In i (e_queued e) -> In i (e_queue e) \/ In i (e_marked e) \/ In i (e_early e) \/ In i (e_gone e).
Proof.
  intros e i Hi.
  assert (H0 : InvA (e0, w0)). { split; cbn [fst snd]; [intros j []|intros t H; discriminate]. }
  destruct (InvA_run_from iv sched (e0, w0) H0) as [HA _]. exact (HA i Hi).
Qed.

Theorem queued_enriched_outside_known iv sched :
  known_early iv sched = false ->
  let e := fst (run iv sched) in
  forall i, In i (e_queued e) -> In i (e_queue e) \/ state_of e i = 1 \/ In i (e_gone e).
Proof.
  intros Hk e i Hi. unfold known_early in Hk. fold e in Hk. apply negb_false_iff in Hk.
  destruct (queued_accounted iv sched i Hi) as [H|[H|[H|H]]]; fold e in H.
  - left. exact H.
  - right. left. unfold state_of. apply mem_In in H. rewrite H. reflexivity.
  - destruct (e_early e); [destruct H|discriminate].
  - right. right. exact H.
Qed.
