(* Proofs for C41 (Model/Enrich.v): every statement is about ALL schedules (merges of worker
   steps and foreground calls), proved by invariants over `fold_left step`. *)
From MV Require Import Base.Prelude Model.Store Model.StoreSpec Proofs.StoreProofs Model.Derived Proofs.DerivedProofs Model.Enrich.
Require Import ZifyBool ZifyNat ZifyN.
Local Open Scope N_scope.

(* ================= small list facts ================= *)
Lemma mem_In x l : mem x l = true <-> In x l.
Proof.
  unfold mem. rewrite existsb_exists. split.
  - intros (y & Hy & E). apply N.eqb_eq in E. subst. exact Hy.
  - intros H. exists x. split; [exact H|apply N.eqb_refl].
Qed.

Lemma remove_id_In t q x : In x (remove_id t q) <-> In x q /\ x <> t.
Proof.
  unfold remove_id. rewrite filter_In. rewrite negb_true_iff, N.eqb_neq. tauto.
Qed.

Lemma remove_id_incl t q : incl (remove_id t q) q.
Proof. intros x H. apply remove_id_In in H. tauto. Qed.

Lemma remove_id_head t r : remove_id t (t :: r) = remove_id t r.
Proof. unfold remove_id. cbn [filter]. rewrite N.eqb_refl. reflexivity. Qed.

Lemma remove_id_length t q : (length (remove_id t q) <= length q)%nat.
Proof. unfold remove_id. induction q as [|x q IH]; cbn [filter length]; [lia|]. destruct (negb (x =? t)); cbn [length]; lia. Qed.

Lemma remove_id_other t h r : h <> t -> remove_id t (h :: r) = h :: remove_id t r.
Proof. intros Hn. unfold remove_id. cbn [filter]. apply N.eqb_neq in Hn. rewrite Hn. reflexivity. Qed.

Lemma NoDup_snoc (l : list N) x : NoDup l -> ~ In x l -> NoDup (l ++ [x]).
Proof.
  induction l as [|y l IH]; intros Hnd Hni; cbn [app].
  - constructor; [intros []|constructor].
  - inversion Hnd as [|y' l' Hy Hl]; subst. constructor.
    + rewrite in_app_iff. intros [H|[H|[]]]; [exact (Hy H)|]. subst. apply Hni. left. reflexivity.
    + apply IH; [exact Hl|]. intros H. apply Hni. right. exact H.
Qed.

(* ================= store facts ================= *)
Lemma nfi_touch s : next_frame_id (touch s) = next_frame_id s.
Proof. reflexivity. Qed.

Lemma nfi_commit s extra : K s -> next_frame_id (do_commit s extra) = next_frame_id s.
Proof.
  intros HK. unfold next_frame_id, do_commit. cbn [committed pending_inserts]. rewrite len_view. unfold K in HK. lia.
Qed.

Lemma nfi_auto s auto : K s -> next_frame_id (auto_commit s auto) = next_frame_id s.
Proof. intros HK. destruct auto; cbn [auto_commit]; [apply nfi_commit; exact HK|reflexivity]. Qed.

Lemma nfi_append s e : next_frame_id (fst (append s e)) = next_frame_id s + (if is_insert e then 1 else 0).
Proof. unfold append, next_frame_id. cbn [fst committed pending_inserts]. destruct (is_insert e); lia. Qed.

Lemma nfi_ocommit s extra : K s -> next_frame_id (fst (sstep s (OCommit extra))) = next_frame_id s.
Proof.
  intros HK. cbn [sstep fst]. destruct (pending s); [destruct (dirty s)|]; first [apply nfi_commit; exact HK | reflexivity].
Qed.

Lemma J_ocommit s R extra : J s R -> J (fst (sstep s (OCommit extra))) R.
Proof.
  intros HJ. cbn [sstep fst]. destruct (pending s); [destruct (dirty s)|]; first [apply J_commit; exact HJ | apply J_bump; exact HJ].
Qed.

(* a put moves next_frame_id by 1 + number of chunks; the other foreground calls never move it back *)
Lemma nfi_put s uk tag n auto : K s ->
  next_frame_id (fst (sstep s (OPut uk tag n 0 auto))) = next_frame_id s + 1 + n.
Proof.
  intros HK.
  pose proof (sstep_K s (OPut uk tag n 0 None) HK) as HK2.
  cbn [sstep] in *. destruct (append s _) as [s1 sq] eqn:Ea. cbn [fst auto_commit] in *.
  rewrite nfi_auto by exact HK2.
  destruct (append_chunks_spec (N.to_nat n) s1 sq uk tag 0) as (_ & C & _ & I).
  match type of Ea with append s ?e = _ => pose proof (nfi_append s e) as HA end. rewrite Ea in HA. cbn [fst is_insert] in HA.
  unfold next_frame_id in *. rewrite C, I. lia.
Qed.

Lemma nfi_mono_f s f so : sop_of_f f = Some so -> K s -> next_frame_id s <= next_frame_id (fst (sstep s so)).
Proof.
  intros Hso HK. destruct f as [uk tag n auto q|target newtag uk auto|target auto|extra| | |]; cbn [sop_of_f] in Hso; inversion Hso; subst so; clear Hso.
  - rewrite nfi_put by exact HK. lia.
  - cbn [sstep]. destruct (get (committed s) target); [|cbn [fst]; lia]. destruct (negb _); [cbn [fst]; lia|].
    destruct (append s _) as [s1 sq] eqn:Ea. cbn [fst].
    match type of Ea with append s ?e = _ => pose proof (nfi_append s e) as HA; pose proof (K_append s e HK) as HK1 end.
    rewrite Ea in HA, HK1. cbn [fst] in HA, HK1. rewrite nfi_auto by exact HK1. rewrite HA. lia.
  - cbn [sstep]. destruct (get (committed s) target); [|cbn [fst]; lia]. destruct (negb _); [cbn [fst]; lia|].
    destruct (append s _) as [s1 sq] eqn:Ea. cbn [fst].
    match type of Ea with append s ?e = _ => pose proof (nfi_append s e) as HA; pose proof (K_append s e HK) as HK1 end.
    rewrite Ea in HA, HK1. cbn [fst] in HA, HK1. rewrite nfi_auto by exact HK1. rewrite HA. lia.
  - rewrite nfi_ocommit by exact HK. lia.
Qed.

(* ================= what the elementary actions touch ================= *)
Lemma process_fields e t :
  let e1 := fst (process e t) in
  e_queue e1 = e_queue e /\ e_stop e1 = e_stop e /\ e_queued e1 = e_queued e /\ e_hist e1 = e_hist e /\
  e_overlap e1 = e_overlap e /\ e_plog e1 = e_plog e ++ [t] /\
  (e_st e1 = e_st e \/ e_st e1 = touch (e_st e)) /\
  incl (e_marked e) (e_marked e1) /\ incl (e_early e) (e_early e1) /\ incl (e_gone e) (e_gone e1) /\
  incl (e_marked e1) (t :: e_marked e) /\ incl (e_early e1) (t :: e_early e) /\ incl (e_gone e1) (t :: e_gone e) /\
  (In t (e_marked e1) \/ In t (e_early e1) \/ In t (e_gone e1)).
Proof.
  unfold process. destruct (frame_found (e_st e) t); [|destruct (get (committed (e_st e)) t)]; cbn [fst e_queue e_stop e_queued e_hist e_overlap e_plog e_st e_marked e_early e_gone];
    repeat split; auto using incl_refl, incl_tl; try (left; reflexivity); try (right; reflexivity); cbn [In]; auto.
Qed.

(* the store after any action that is not a foreground store call: same tables, same counters *)
Definition same_store (s s1 : store) : Prop :=
  committed s1 = committed s /\ pending s1 = pending s /\ pending_inserts s1 = pending_inserts s.

Lemma same_store_refl s : same_store s s.
Proof. repeat split. Qed.
Lemma same_store_touch s : same_store s (touch s).
Proof. repeat split. Qed.
Lemma same_store_trans a b c : same_store a b -> same_store b c -> same_store a c.
Proof. intros (A1 & A2 & A3) (B1 & B2 & B3). repeat split; congruence. Qed.

Lemma same_store_J s s1 R : same_store s s1 -> J s R -> J s1 R.
Proof. intros (C & P & _) [HF HC]. split; [|exact HC]. rewrite C, P. exact HF. Qed.
Lemma same_store_K s s1 : same_store s s1 -> K s -> K s1.
Proof. intros (_ & P & I) HK. unfold K in *. rewrite P, I. exact HK. Qed.
Lemma same_store_nfi s s1 : same_store s s1 -> next_frame_id s1 = next_frame_id s.
Proof. intros (C & _ & I). unfold next_frame_id. rewrite C, I. reflexivity. Qed.
Lemma same_store_found s s1 t : same_store s s1 -> frame_found s1 t = frame_found s t.
Proof. intros (C & _ & _). unfold frame_found. rewrite C. reflexivity. Qed.

Lemma process_store e t : same_store (e_st e) (e_st (fst (process e t))).
Proof.
  destruct (process_fields e t) as (_ & _ & _ & _ & _ & _ & [H|H] & _); rewrite H; [apply same_store_refl|apply same_store_touch].
Qed.

Lemma complete_store e t : same_store (e_st e) (e_st (complete e t)).
Proof. apply same_store_touch. Qed.

Lemma drain_fields fuel : forall e,
  let e1 := drain fuel e in
  same_store (e_st e) (e_st e1) /\ e_stop e1 = e_stop e /\ e_queued e1 = e_queued e /\ e_hist e1 = e_hist e /\ e_overlap e1 = e_overlap e.
Proof.
  induction fuel as [|k IH]; intros e; cbn [drain]; [repeat split|].
  destruct (e_queue e) as [|t r]; [repeat split|].
  destruct (process_fields e t) as (_ & S & Q & H & O & _).
  destruct (IH (complete (fst (process e t)) t)) as (A & B & C & D & E).
  cbn [complete e_stop e_queued e_hist e_overlap] in B, C, D, E.
  split; [|split; [|split; [|split]]].
  - eapply same_store_trans; [apply process_store|]. eapply same_store_trans; [apply complete_store|]. apply A.
  - rewrite B. exact S.
  - rewrite C. exact Q.
  - rewrite D. exact H.
  - rewrite E. exact O.
Qed.

Lemma drain_queue_nil fuel : forall e, (length (e_queue e) <= fuel)%nat -> e_queue (drain fuel e) = [].
Proof.
  induction fuel as [|k IH]; intros e Hl; cbn [drain].
  - destruct (e_queue e); [reflexivity|cbn [length] in Hl; lia].
  - destruct (e_queue e) as [|t r] eqn:Eq; [exact Eq|].
    apply IH. cbn [complete e_queue]. destruct (process_fields e t) as (Q & _). rewrite Q, Eq, remove_id_head.
    pose proof (remove_id_length t r). cbn [length] in Hl. lia.
Qed.

(* ================= T1: the frame table is the foreground's reference table ================= *)
Lemma run_ok_app xs : forall R ys, run_ok R (xs ++ ys) = run_ok R xs && run_ok (ref_run R xs) ys.
Proof.
  induction xs as [|x xs IH]; intros R ys; cbn [app run_ok ref_run fold_left]; [reflexivity|].
  rewrite IH. unfold ref_run. rewrite andb_assoc. reflexivity.
Qed.

Definition InvS (e : est) : Prop :=
  K (e_st e) /\ (run_ok [] (e_hist e) = true -> J (e_st e) (ref_run [] (e_hist e))).

Lemma InvS_same e e1 : same_store (e_st e) (e_st e1) -> e_hist e1 = e_hist e -> InvS e -> InvS e1.
Proof.
  intros HS HH [HK HJ]. split; [eapply same_store_K; eauto|]. rewrite HH. intros Hok. eapply same_store_J; eauto.
Qed.

Lemma InvS_checkpoint e extra : InvS e -> InvS (checkpoint e extra).
Proof.
  intros [HK HJ]. unfold checkpoint, set_st. split; cbn [e_st e_hist].
  - apply sstep_K. exact HK.
  - intros Hok. apply J_ocommit. apply HJ. exact Hok.
Qed.

Lemma InvS_wstep iv extra e w : InvS e -> InvS (fst (wstep iv extra (e, w))).
Proof.
  intros HI. unfold wstep. destruct (w_pc w) as [|t|t| |].
  - destruct (e_stop e).
    + destruct (0 <? w_since w); cbn [fst]; [apply InvS_checkpoint|]; exact HI.
    + destruct (e_queue e); exact HI.
  - destruct (process e t) as [e1 err] eqn:Ep. cbn [fst].
    pose proof (process_store e t) as HS. destruct (process_fields e t) as (_ & _ & _ & HH & _). rewrite Ep in HS, HH. cbn [fst] in HS, HH.
    eapply InvS_same; eauto.
  - cbn [fst]. eapply InvS_same; [apply complete_store|reflexivity|exact HI].
  - cbn [fst]. apply InvS_checkpoint. exact HI.
  - exact HI.
Qed.

Lemma InvS_fstep f e w : InvS e -> InvS (fst (fstep f (e, w))).
Proof.
  intros HI.
  assert (Hstore : forall so, sop_of_f f = Some so ->
            InvS (fst (let id := next_frame_id (e_st e) in
                       let '(s1, o) := sstep (e_st e) so in
                       let push := match f with FPut _ _ _ _ q => q | _ => false end in
                       (mkE s1 (if push then e_queue e ++ [id] else e_queue e) (e_stop e) (e_marked e)
                            (if push then e_queued e ++ [id] else e_queued e) (e_early e) (e_gone e) (e_plog e)
                            (e_hist e ++ [(so, o)]) (e_overlap e), w)))).
  { intros so Hso. destruct HI as [HK HJ]. cbv zeta.
    pose proof (sstep_K (e_st e) so HK) as HK1.
    destruct (sstep (e_st e) so) as [s1 o] eqn:Es. cbn [fst] in HK1. cbn [fst]. split; cbn [e_st e_hist]; [exact HK1|].
    rewrite run_ok_app. intros Hok. apply andb_true_iff in Hok as [H1 H2]. cbn [run_ok] in H2. rewrite andb_true_r in H2.
    rewrite ref_run_app. cbn [ref_run fold_left].
    pose proof (sstep_refines (e_st e) _ so (HJ H1)) as HS. rewrite Es in HS. apply HS. exact H2. }
  destruct f as [uk tag n auto q|target newtag uk auto|target auto|extra| | |]; cbn [fstep sop_of_f];
    try (apply Hstore; reflexivity).
  - exact HI.
  - cbn [fst]. destruct (drain_fields (length (e_queue e)) e) as (A & _ & _ & D & _).
    eapply InvS_same; [| |exact HI]; cbn [e_st e_hist]; [exact A|exact D].
  - cbn [fst]. eapply InvS_same; [| |exact HI]; cbn [e_st e_hist]; [apply same_store_refl|reflexivity].
Qed.

Lemma InvS_step iv x i : InvS (fst x) -> InvS (fst (step iv x i)).
Proof. destruct x as [e w]. destruct i as [extra|f]; cbn [step fst]; [apply InvS_wstep|apply InvS_fstep]. Qed.

Lemma InvS_run_from iv sched : forall x, InvS (fst x) -> InvS (fst (run_from iv x sched)).
Proof.
  induction sched as [|i sched IH]; intros x HI; cbn [run_from fold_left]; [exact HI|].
  apply IH. apply InvS_step. exact HI.
Qed.

Lemma InvS_e0 : InvS e0.
Proof. split; [apply K_store0|]. intros _. apply J_store0. Qed.

Theorem frame_table_is_foreground_reference iv sched :
  let e := fst (run iv sched) in
  run_ok [] (e_hist e) = true ->
  view (e_st e) = ref_run [] (e_hist e) /\ (pending (e_st e) = [] -> committed (e_st e) = ref_run [] (e_hist e)).
Proof.
  intros e Hok. destruct (InvS_run_from iv sched (e0, w0) InvS_e0) as [HK HJ]. fold (run iv sched) in HJ. fold e in HJ.
  pose proof (J_view _ _ (HJ Hok)) as HV. split; [exact HV|].
  intros Hp. rewrite <- (quiescent_committed _ Hp). exact HV.
Qed.

(* e_hist is exactly the list of the foreground's store calls, in order, with the results they returned *)
Fixpoint fore_calls (sched : list sitem) : list sop :=
  match sched with
  | [] => []
  | SF f :: r => match sop_of_f f with Some so => so :: fore_calls r | None => fore_calls r end
  | SW _ :: r => fore_calls r
  end.

Lemma wstep_hist iv extra e w : e_hist (fst (wstep iv extra (e, w))) = e_hist e.
Proof.
  unfold wstep. destruct (w_pc w) as [|t|t| |].
  - destruct (e_stop e); [destruct (0 <? w_since w)|destruct (e_queue e)]; reflexivity.
  - destruct (process e t) as [e1 err] eqn:Ep. destruct (process_fields e t) as (_ & _ & _ & HH & _). rewrite Ep in HH. exact HH.
  - reflexivity.
  - reflexivity.
  - reflexivity.
Qed.

Lemma fstep_hist f e w :
  map fst (e_hist (fst (fstep f (e, w)))) = map fst (e_hist e) ++ match sop_of_f f with Some so => [so] | None => [] end.
Proof.
  destruct f as [uk tag n auto q|target newtag uk auto|target auto|extra| | |]; cbn [fstep sop_of_f];
    try (destruct (sstep (e_st e) _) as [s1 o]; cbn [fst e_hist]; rewrite map_app; reflexivity).
  - cbn [fst]. rewrite app_nil_r. reflexivity.
  - cbn [fst e_hist]. destruct (drain_fields (length (e_queue e)) e) as (_ & _ & _ & D & _). rewrite D, app_nil_r. reflexivity.
  - cbn [fst e_hist]. rewrite app_nil_r. reflexivity.
Qed.

Lemma hist_calls iv sched : forall x,
  map fst (e_hist (fst (run_from iv x sched))) = map fst (e_hist (fst x)) ++ fore_calls sched.
Proof.
  induction sched as [|i sched IH]; intros [e w]; cbn [run_from fold_left fore_calls]; [rewrite app_nil_r; reflexivity|].
  fold (run_from iv (step iv (e, w) i) sched). rewrite IH.
  destruct i as [extra|f]; cbn [step].
  - destruct (wstep iv extra (e, w)) as [e1 w1] eqn:Ew. pose proof (wstep_hist iv extra e w) as H. rewrite Ew in H. cbn [fst] in *. rewrite H. reflexivity.
  - destruct (fstep f (e, w)) as [e1 w1] eqn:Ef. pose proof (fstep_hist f e w) as H. rewrite Ef in H. cbn [fst] in *. rewrite H.
    destruct (sop_of_f f); [rewrite <- app_assoc; reflexivity|rewrite app_nil_r; reflexivity].
Qed.
