(* Proofs about Model/Memories.v (C27). *)
From MV Require Import Base.Prelude Base.SortFacts Model.Memories.
From Coq Require Import String Ascii Permutation.
Require Import ZifyBool ZifyNat ZifyN.
Local Open Scope Z_scope.

(* ------------------------------------------------------------------ *)
(* the comparison used by get_current / get_at_time is a total preorder *)
Lemma desc_leb_total : forall a b, desc_leb a b = true \/ desc_leb b a = true.
Proof. intros a b. unfold desc_leb. lia. Qed.
Lemma desc_leb_trans : forall a b c, desc_leb a b = true -> desc_leb b c = true -> desc_leb a c = true.
Proof. intros a b c. unfold desc_leb. lia. Qed.

Definition at_filter (t : Z) (c : card) : bool := Z.leb (eff c) t.

Lemma get_current_best : forall tr e s,
    get_current tr e s = best desc_leb not_retracted (get_cards tr e s).
Proof. intros. unfold get_current. apply find_isort; [apply desc_leb_total|apply desc_leb_trans]. Qed.

Lemma get_at_time_best : forall tr e s t,
    get_at_time tr e s t = best desc_leb not_retracted (filter (at_filter t) (get_cards tr e s)).
Proof. intros. unfold get_at_time. apply find_isort; [apply desc_leb_total|apply desc_leb_trans]. Qed.

Lemma filter_map_in : forall {A B} (f : A -> option B) l y,
    In y (filter_map f l) -> exists x, In x l /\ f x = Some y.
Proof.
  intros A B f l y; induction l as [|x r IH]; simpl; [intros []|].
  destruct (f x) as [z|] eqn:E.
  - intros [H|H]; [subst; exists x; split; [left; reflexivity|exact E]|].
    destruct (IH H) as (x' & Hin & Hf). exists x'; split; [right; exact Hin|exact Hf].
  - intro H. destruct (IH H) as (x' & Hin & Hf). exists x'; split; [right; exact Hin|exact Hf].
Qed.

Lemma get_cards_in : forall tr e s c, In c (get_cards tr e s) -> In c (t_cards tr).
Proof.
  intros tr e s c. unfold get_cards. destruct (index_get (t_index tr) e s) as [ids|]; [|intros []].
  intro H. apply filter_map_in in H. destruct H as (id & _ & Hf).
  unfold find_card in Hf. apply find_some in Hf. apply Hf.
Qed.

(* (1) soundness: never a card after t, never a retraction -- for EVERY track state
   (also unreachable ones: dangling or duplicate ids, legacy mixed-case index keys) *)
Theorem get_at_time_sound : forall tr e s t c,
    get_at_time tr e s t = Some c ->
    eff c <= t /\ is_retracted c = false /\ In c (get_cards tr e s) /\ In c (t_cards tr).
Proof.
  intros tr e s t c H. rewrite get_at_time_best in H. apply best_in in H.
  destruct H as [Hin Hp]. apply filter_In in Hin. destruct Hin as [Hin Ht].
  unfold at_filter in Ht. unfold not_retracted in Hp.
  split; [lia|]. split; [destruct (is_retracted c); [discriminate|reflexivity]|].
  split; [exact Hin|eapply get_cards_in; exact Hin].
Qed.

Lemma filter_all : forall {A} (f : A -> bool) l, (forall x, In x l -> f x = true) -> filter f l = l.
Proof.
  intros A f l; induction l as [|x r IH]; intro H; simpl; [reflexivity|].
  rewrite (H x (or_introl eq_refl)). f_equal. apply IH. intros y Hy. apply H. right; exact Hy.
Qed.

(* (2) at or beyond the latest card of the slot, get_at_time is get_current *)
Theorem get_at_time_late : forall tr e s t,
    (forall c, In c (get_cards tr e s) -> eff c <= t) ->
    get_at_time tr e s t = get_current tr e s.
Proof.
  intros tr e s t H. unfold get_at_time, get_current.
  rewrite filter_all; [reflexivity|]. intros c Hc. specialize (H c Hc). lia.
Qed.

Corollary get_at_time_late_all : forall tr e s t,
    (forall c, In c (t_cards tr) -> eff c <= t) ->
    get_at_time tr e s t = get_current tr e s.
Proof. intros tr e s t H. apply get_at_time_late. intros c Hc. apply H. eapply get_cards_in; exact Hc. Qed.

(* (3) exactly which card: the first, in get_cards order, among the non-retracted cards
   with eff <= t of greatest effective time *)
Theorem get_at_time_char : forall tr e s t c,
    get_at_time tr e s t = Some c <->
    exists l1 l2, filter (at_filter t) (get_cards tr e s) = l1 ++ c :: l2 /\
                  is_retracted c = false /\
                  (forall d, In d l1 -> is_retracted d = false -> eff d < eff c) /\
                  (forall d, In d l2 -> is_retracted d = false -> eff d <= eff c).
Proof.
  intros tr e s t c. rewrite get_at_time_best.
  rewrite (best_some_iff _ desc_leb desc_leb_total desc_leb_trans).
  unfold not_retracted, desc_leb.
  split; intros (l1 & l2 & Hl & Hc & Hb & Ha); exists l1, l2; (split; [exact Hl|]).
  - split; [destruct (is_retracted c); [discriminate|reflexivity]|]. split.
    + intros d Hd Hr. specialize (Hb d Hd). rewrite Hr in Hb. specialize (Hb eq_refl). lia.
    + intros d Hd Hr. specialize (Ha d Hd). rewrite Hr in Ha. specialize (Ha eq_refl). lia.
  - split; [rewrite Hc; reflexivity|]. split.
    + intros d Hd Hr. assert (is_retracted d = false) as Hr' by (destruct (is_retracted d); [discriminate|reflexivity]).
      specialize (Hb d Hd Hr'). lia.
    + intros d Hd Hr. assert (is_retracted d = false) as Hr' by (destruct (is_retracted d); [discriminate|reflexivity]).
      specialize (Ha d Hd Hr'). lia.
Qed.

Theorem get_at_time_none : forall tr e s t,
    get_at_time tr e s t = None <->
    forall d, In d (get_cards tr e s) -> eff d <= t -> is_retracted d = true.
Proof.
  intros tr e s t. rewrite get_at_time_best, best_none_iff. unfold not_retracted. split.
  - intros H d Hd Ht. assert (In d (filter (at_filter t) (get_cards tr e s))) as Hin.
    { apply filter_In. split; [exact Hd|unfold at_filter; lia]. }
    specialize (H d Hin). destruct (is_retracted d); [reflexivity|discriminate].
  - intros H d Hd. apply filter_In in Hd. destruct Hd as [Hd Ht]. unfold at_filter in Ht.
    rewrite (H d Hd); [reflexivity|lia].
Qed.

(* ------------------------------------------------------------------ *)
(* tracks built through add_card: what get_cards is *)
Local Open Scope string_scope.

Lemma lower_ascii_idem : forall a, lower_ascii (lower_ascii a) = lower_ascii a.
Proof. intros [[] [] [] [] [] [] [] []]; vm_compute; reflexivity. Qed.

Lemma lower_idem : forall s, lower (lower s) = lower s.
Proof. induction s as [|a r IH]; simpl; [reflexivity|]. rewrite lower_ascii_idem, IH. reflexivity. Qed.

Lemma lower_app : forall a b, lower (a ++ b) = lower a ++ lower b.
Proof. induction a as [|x r IH]; intro b; simpl; [reflexivity|]. rewrite IH. reflexivity. Qed.

Lemma slot_key_lower : forall e s, lower (slot_key e s) = slot_key e s.
Proof. intros e s. unfold slot_key. rewrite !lower_app, !lower_idem. reflexivity. Qed.

Definition key_is (k : string) (c : card) : bool := String.eqb (card_key c) k.

Fixpoint asc (l : list card) : Prop :=
  match l with
  | [] => True
  | x :: r => (forall y, In y r -> (c_id x < c_id y)%N) /\ asc r
  end.
Fixpoint desc (l : list card) : Prop :=
  match l with
  | [] => True
  | x :: r => (forall y, In y r -> (c_id y < c_id x)%N) /\ desc r
  end.

Lemma asc_app_single : forall l x, asc l -> (forall y, In y l -> (c_id y < c_id x)%N) -> asc (l ++ [x]).
Proof.
  induction l as [|a r IH]; intros x Ha Hx; simpl.
  - split; [intros y []|exact I].
  - destruct Ha as [Ha Hr]. split.
    + intros y Hy. apply in_app_or in Hy. destruct Hy as [Hy|[Hy|[]]]; [apply Ha, Hy|subst; apply Hx; left; reflexivity].
    + apply IH; [exact Hr|]. intros y Hy. apply Hx. right; exact Hy.
Qed.

Lemma desc_app_single : forall l x, desc l -> (forall y, In y l -> (c_id x < c_id y)%N) -> desc (l ++ [x]).
Proof.
  induction l as [|a r IH]; intros x Ha Hx; simpl.
  - split; [intros y []|exact I].
  - destruct Ha as [Ha Hr]. split.
    + intros y Hy. apply in_app_or in Hy. destruct Hy as [Hy|[Hy|[]]]; [apply Ha, Hy|subst; apply Hx; left; reflexivity].
    + apply IH; [exact Hr|]. intros y Hy. apply Hx. right; exact Hy.
Qed.

Lemma asc_rev_desc : forall l, asc l -> desc (rev l).
Proof.
  induction l as [|a r IH]; intro H; simpl; [exact I|].
  destruct H as [Ha Hr]. apply desc_app_single; [apply IH, Hr|].
  intros y Hy. apply Ha. apply in_rev. exact Hy.
Qed.

Lemma asc_filter : forall f l, asc l -> asc (filter f l).
Proof.
  intros f l; induction l as [|a r IH]; intro H; simpl; [exact I|].
  destruct H as [Ha Hr]. destruct (f a); [|apply IH, Hr].
  split; [|apply IH, Hr]. intros y Hy. apply filter_In in Hy. apply Ha, Hy.
Qed.

Lemma desc_filter : forall f l, desc l -> desc (filter f l).
Proof.
  intros f l; induction l as [|a r IH]; intro H; simpl; [exact I|].
  destruct H as [Ha Hr]. destruct (f a); [|apply IH, Hr].
  split; [|apply IH, Hr]. intros y Hy. apply filter_In in Hy. apply Ha, Hy.
Qed.

Lemma desc_split : forall l1 c l2, desc (l1 ++ c :: l2) ->
    (forall d, In d l1 -> (c_id c < c_id d)%N) /\ (forall d, In d l2 -> (c_id d < c_id c)%N).
Proof.
  induction l1 as [|a r IH]; intros c l2 H; simpl in H.
  - destruct H as [H _]. split; [intros d []|exact H].
  - destruct H as [Ha Hr]. destruct (IH c l2 Hr) as [H1 H2]. split; [|exact H2].
    intros d [Hd|Hd]; [subst; apply Ha; apply in_or_app; right; left; reflexivity|apply H1, Hd].
Qed.

Lemma asc_find_card : forall l c, asc l -> In c l -> find_card l (c_id c) = Some c.
Proof.
  induction l as [|a r IH]; intros c Ha Hc; [destruct Hc|].
  destruct Ha as [Ha Hr]. unfold find_card. cbn [find].
  destruct Hc as [Hc|Hc].
  - subst. rewrite N.eqb_refl. reflexivity.
  - specialize (Ha c Hc). destruct (N.eqb_spec (c_id a) (c_id c)) as [E|E]; [lia|].
    apply IH; assumption.
Qed.

Lemma filter_map_map_id : forall (f : N -> option card) l,
    (forall c, In c l -> f (c_id c) = Some c) -> filter_map f (map c_id l) = l.
Proof.
  intros f l; induction l as [|a r IH]; intro H; simpl; [reflexivity|].
  rewrite (H a (or_introl eq_refl)). f_equal. apply IH. intros c Hc. apply H. right; exact Hc.
Qed.

Definition ids_of (k : string) (cards : list card) : list N := rev (map c_id (filter (key_is k) cards)).
Definition opt_ids (l : list N) : option (list N) := match l with [] => None | _ => Some l end.

Record Inv (tr : track) : Prop := {
  inv_lookup : forall k, index_lookup (t_index tr) k = opt_ids (ids_of k (t_cards tr));
  inv_lower : forall kv, In kv (t_index tr) -> lower (fst kv) = fst kv;
  inv_asc : asc (t_cards tr);
  inv_next : forall c, In c (t_cards tr) -> (c_id c < t_next tr)%N
}.

Lemma Inv_empty : Inv empty_track.
Proof. split; simpl; [reflexivity|intros kv []|exact I|intros c []]. Qed.

Lemma lookup_insert : forall idx k0 id k,
    index_lookup (index_insert idx k0 id) k =
    if String.eqb k0 k then Some (id :: match index_lookup idx k0 with Some l => l | None => [] end)
    else index_lookup idx k.
Proof.
  induction idx as [|[k' ids] r IH]; intros k0 id k; cbn [index_insert index_lookup].
  - destruct (String.eqb k0 k); reflexivity.
  - destruct (String.eqb_spec k' k0) as [E|E]; cbn [index_lookup].
    + subst k'. destruct (String.eqb k0 k); reflexivity.
    + rewrite IH. destruct (String.eqb_spec k0 k) as [E2|E2].
      * subst k. destruct (String.eqb_spec k' k0); [contradiction|]. reflexivity.
      * reflexivity.
Qed.

Lemma insert_keys : forall idx k0 id kv, In kv (index_insert idx k0 id) ->
    fst kv = k0 \/ exists kv', In kv' idx /\ fst kv' = fst kv.
Proof.
  induction idx as [|[k' ids] r IH]; intros k0 id kv H; cbn [index_insert] in H.
  - destruct H as [H|[]]. subst. left; reflexivity.
  - destruct (String.eqb_spec k' k0) as [E|E].
    + destruct H as [H|H].
      * subst kv. left; exact E.
      * right. exists kv. split; [right; exact H|reflexivity].
    + destruct H as [H|H].
      * subst kv. right. exists (k', ids). split; [left; reflexivity|reflexivity].
      * destruct (IH k0 id kv H) as [H'|(kv' & Hin & Hk)]; [left; exact H'|].
        right. exists kv'. split; [right; exact Hin|exact Hk].
Qed.

Lemma card_key_set : forall c id, card_key (set_id_vkey c id) = card_key c.
Proof. reflexivity. Qed.

Lemma opt_ids_some : forall l, match opt_ids l with Some x => x | None => [] end = l.
Proof. destruct l; reflexivity. Qed.

Lemma Inv_add : forall tr c, Inv tr -> Inv (add_card tr c).
Proof.
  intros tr c [Hl Hw Ha Hn]. unfold add_card. split; cbn [t_cards t_index t_next].
  - intro k. rewrite lookup_insert, card_key_set, Hl, opt_ids_some.
    unfold ids_of. rewrite filter_app, map_app, rev_app_distr. cbn [filter].
    unfold key_is at 2. rewrite card_key_set.
    destruct (String.eqb_spec (card_key c) k) as [E|E].
    + subst k. cbn [map rev app]. reflexivity.
    + cbn [map rev app]. rewrite Hl. reflexivity.
  - intros kv H. apply insert_keys in H. destruct H as [H|(kv' & Hin & Hk)].
    + rewrite H, card_key_set. apply slot_key_lower.
    + rewrite <- Hk. apply Hw, Hin.
  - apply asc_app_single; [exact Ha|]. intros y Hy. apply Hn, Hy.
  - intros d Hd. apply in_app_or in Hd. destruct Hd as [Hd|[Hd|[]]].
    + specialize (Hn d Hd). lia.
    + subst d. cbn [set_id_vkey c_id]. lia.
Qed.

Lemma Inv_fold : forall cs tr, Inv tr -> Inv (fold_left add_card cs tr).
Proof. induction cs as [|c r IH]; intros tr H; simpl; [exact H|apply IH, Inv_add, H]. Qed.

Lemma Inv_build : forall cs, Inv (build cs).
Proof. intro cs. apply Inv_fold, Inv_empty. Qed.

Lemma lookup_none_keys : forall idx k, index_lookup idx k = None -> forall kv, In kv idx -> fst kv <> k.
Proof.
  induction idx as [|[k' ids] r IH]; intros k H kv Hin; [destruct Hin|].
  cbn [index_lookup] in H. destruct (String.eqb_spec k' k) as [E|E]; [discriminate|].
  destruct Hin as [Hin|Hin]; [subst kv; exact E|apply IH; assumption].
Qed.

(* get_cards of a track satisfying the invariant: the cards of that (lower-cased) key,
   newest (largest id) first *)
Lemma Inv_get_cards : forall tr e s, Inv tr ->
    get_cards tr e s = rev (filter (key_is (slot_key e s)) (t_cards tr)).
Proof.
  intros tr e s [Hl Hw Ha Hn]. unfold get_cards, index_get. rewrite Hl. unfold ids_of.
  set (F := filter (key_is (slot_key e s)) (t_cards tr)).
  destruct (rev (map c_id F)) as [|i0 ir] eqn:E; cbn [opt_ids].
  - assert (F = []) as HF.
    { destruct F as [|a r]; [reflexivity|]. simpl in E. destruct (rev (map c_id r)); discriminate. }
    rewrite HF. cbn [rev].
    destruct (find _ (t_index tr)) as [kv|] eqn:Ef; [|reflexivity].
    exfalso. apply find_some in Ef. destruct Ef as [Hin Hk]. apply String.eqb_eq in Hk.
    rewrite (Hw kv Hin) in Hk.
    assert (index_lookup (t_index tr) (slot_key e s) = None) as Hnone.
    { rewrite Hl. unfold ids_of. fold F. rewrite HF. reflexivity. }
    exact (lookup_none_keys _ _ Hnone kv Hin Hk).
  - rewrite <- E, <- map_rev. apply filter_map_map_id.
    intros c Hc. apply asc_find_card; [exact Ha|].
    apply in_rev in Hc. unfold F in Hc. apply filter_In in Hc. apply Hc.
Qed.

Definition eligible (tr : track) (e s : string) (t : Z) (x : card) : Prop :=
  In x (t_cards tr) /\ card_key x = slot_key e s /\ (eff x <= t)%Z /\ is_retracted x = false.

(* d is not later than c: earlier effective time, or the same and not added after c *)
Definition not_later (d c : card) : Prop :=
  (eff d < eff c)%Z \/ (eff d = eff c /\ (c_id d <= c_id c)%N).

Lemma eligible_in_list : forall tr e s t x, Inv tr ->
    (In x (filter (at_filter t) (get_cards tr e s)) /\ is_retracted x = false) <-> eligible tr e s t x.
Proof.
  intros tr e s t x HI. rewrite (Inv_get_cards tr e s HI). unfold eligible.
  rewrite filter_In, <- in_rev, filter_In. unfold at_filter, key_is.
  rewrite String.eqb_eq, Z.leb_le. tauto.
Qed.

(* (4) tracks built by add_card: get_at_time returns exactly the latest eligible card, where
   "latest" = greatest effective time, ties won by the card added last (largest id) *)
Theorem at_time_latest : forall tr e s t c, Inv tr ->
    (get_at_time tr e s t = Some c <->
     eligible tr e s t c /\ forall d, eligible tr e s t d -> not_later d c).
Proof.
  intros tr e s t c HI. rewrite get_at_time_char. split.
  - intros (l1 & l2 & Hl & Hc & Hb & Ha).
    assert (desc (l1 ++ c :: l2)) as Hd.
    { rewrite <- Hl, (Inv_get_cards tr e s HI). apply desc_filter, asc_rev_desc, asc_filter, (inv_asc tr HI). }
    apply desc_split in Hd. destruct Hd as [Hd1 Hd2].
    split.
    + apply (eligible_in_list tr e s t c HI). split; [|exact Hc].
      rewrite Hl. apply in_or_app. right; left; reflexivity.
    + intros d Hel. apply (eligible_in_list tr e s t d HI) in Hel. destruct Hel as [Hin Hr].
      rewrite Hl in Hin. apply in_app_or in Hin. unfold not_later.
      destruct Hin as [Hin|[Hin|Hin]].
      * left. apply Hb; assumption.
      * subst d. right. split; [reflexivity|lia].
      * specialize (Ha d Hin Hr). specialize (Hd2 d Hin). lia.
  - intros [Hel Hmax].
    pose proof (proj2 (eligible_in_list tr e s t c HI) Hel) as [Hin Hc].
    apply in_split in Hin. destruct Hin as (l1 & l2 & Hl).
    exists l1, l2. split; [exact Hl|]. split; [exact Hc|].
    assert (desc (l1 ++ c :: l2)) as Hd.
    { rewrite <- Hl, (Inv_get_cards tr e s HI). apply desc_filter, asc_rev_desc, asc_filter, (inv_asc tr HI). }
    apply desc_split in Hd. destruct Hd as [Hd1 Hd2].
    split.
    + intros d Hd Hr. assert (eligible tr e s t d) as Hed.
      { apply (eligible_in_list tr e s t d HI). split; [|exact Hr]. rewrite Hl. apply in_or_app. left; exact Hd. }
      specialize (Hmax d Hed). specialize (Hd1 d Hd). unfold not_later in Hmax. lia.
    + intros d Hd Hr. assert (eligible tr e s t d) as Hed.
      { apply (eligible_in_list tr e s t d HI). split; [|exact Hr]. rewrite Hl. apply in_or_app. right; right; exact Hd. }
      specialize (Hmax d Hed). unfold not_later in Hmax. lia.
Qed.

Theorem at_time_none_iff : forall tr e s t, Inv tr ->
    (get_at_time tr e s t = None <-> forall d, ~ eligible tr e s t d).
Proof.
  intros tr e s t HI. rewrite get_at_time_none. split.
  - intros H d Hel. apply (eligible_in_list tr e s t d HI) in Hel. destruct Hel as [Hin Hr].
    apply filter_In in Hin. destruct Hin as [Hin Ht]. unfold at_filter in Ht.
    rewrite (H d Hin) in Hr; [discriminate|lia].
  - intros H d Hin Ht. destruct (is_retracted d) eqn:Hr; [reflexivity|].
    exfalso. apply (H d). apply (eligible_in_list tr e s t d HI). split; [|exact Hr].
    apply filter_In. split; [exact Hin|unfold at_filter; lia].
Qed.

(* get_current is get_at_time without the time bound *)
Theorem current_latest : forall tr e s c, Inv tr ->
    (get_current tr e s = Some c <->
     (In c (t_cards tr) /\ card_key c = slot_key e s /\ is_retracted c = false) /\
     forall d, In d (t_cards tr) -> card_key d = slot_key e s -> is_retracted d = false -> not_later d c).
Proof.
  intros tr e s c HI.
  (* pick a time beyond every card *)
  assert (forall l, (eff c <= fold_right (fun x acc => Z.max (eff x) acc) (eff c) l)%Z /\
                    forall x, In x l -> (eff x <= fold_right (fun x acc => Z.max (eff x) acc) (eff c) l)%Z) as Hfold.
  { induction l as [|a r [IH1 IH2]]; cbn [fold_right].
    - split; [lia|intros x []].
    - split; [lia|]. intros x [Hx|Hx]; [subst; lia|specialize (IH2 x Hx); lia]. }
  set (tmax := fold_right (fun x acc => Z.max (eff x) acc) (eff c) (t_cards tr)).
  assert (forall x, In x (t_cards tr) -> (eff x <= tmax)%Z) as Hmax by (exact (proj2 (Hfold (t_cards tr)))).
  assert ((eff c <= tmax)%Z) as Hc by (exact (proj1 (Hfold (t_cards tr)))).
  rewrite <- (get_at_time_late_all tr e s tmax Hmax).
  rewrite (at_time_latest tr e s tmax c HI). unfold eligible. split.
  - intros [(H1 & H2 & H3 & H4) H]. split; [tauto|].
    intros d Hd Hk Hr. apply H. repeat split; try assumption. apply Hmax, Hd.
  - intros [(H1 & H2 & H3) H]. split; [repeat split; assumption|].
    intros d (Hd & Hk & _ & Hr). apply H; assumption.
Qed.

(* ------------------------------------------------------------------ *)
(* the mesh: persisting reorders, never adds, drops or alters a node or edge *)
Theorem persist_mesh_perm : forall m,
    Permutation (m_nodes (persist_mesh m)) (m_nodes m) /\
    Permutation (m_edges (persist_mesh m)) (m_edges m).
Proof. intro m. split; apply isort_perm. Qed.

Lemma node_leb_total : forall a b, node_leb a b = true \/ node_leb b a = true.
Proof. intros a b. unfold node_leb. lia. Qed.
Lemma node_leb_trans : forall a b c, node_leb a b = true -> node_leb b c = true -> node_leb a c = true.
Proof. intros a b c. unfold node_leb. lia. Qed.

Lemma str_leb_total : forall a b, str_leb a b = true \/ str_leb b a = true.
Proof.
  induction a as [|x a IH]; intro b; [left; reflexivity|].
  destruct b as [|y b]; [right; reflexivity|]. cbn [str_leb].
  destruct (N.ltb_spec (N_of_ascii x) (N_of_ascii y)); [left; reflexivity|].
  destruct (N.ltb_spec (N_of_ascii y) (N_of_ascii x)); [right; reflexivity|].
  assert (N_of_ascii x = N_of_ascii y) as E by lia. rewrite E, N.eqb_refl. apply IH.
Qed.
Lemma str_leb_trans : forall a b c, str_leb a b = true -> str_leb b c = true -> str_leb a c = true.
Proof.
  induction a as [|x a IH]; intros b c Hab Hbc; [reflexivity|].
  destruct b as [|y b]; [discriminate|]. destruct c as [|z c]; [discriminate|].
  cbn [str_leb] in *.
  destruct (N.ltb_spec (N_of_ascii x) (N_of_ascii y)) as [L1|L1];
    destruct (N.ltb_spec (N_of_ascii y) (N_of_ascii z)) as [L2|L2];
    destruct (N.ltb_spec (N_of_ascii x) (N_of_ascii z)) as [L3|L3]; try reflexivity; try lia.
  - destruct (N.eqb_spec (N_of_ascii y) (N_of_ascii z)); [lia|discriminate].
  - destruct (N.eqb_spec (N_of_ascii x) (N_of_ascii y)); [lia|discriminate].
  - destruct (N.eqb_spec (N_of_ascii x) (N_of_ascii y)) as [E1|]; [|discriminate].
    destruct (N.eqb_spec (N_of_ascii y) (N_of_ascii z)) as [E2|]; [|discriminate].
    destruct (N.eqb_spec (N_of_ascii x) (N_of_ascii z)); [|lia]. eapply IH; eassumption.
Qed.

Lemma edge_leb_total : forall a b, edge_leb a b = true \/ edge_leb b a = true.
Proof.
  intros a b. unfold edge_leb.
  destruct (N.ltb_spec (e_from a) (e_from b)); [left; reflexivity|].
  destruct (N.ltb_spec (e_from b) (e_from a)); [right; reflexivity|].
  assert (e_from a = e_from b) as E by lia. rewrite E, N.eqb_refl.
  destruct (N.ltb_spec (e_to a) (e_to b)); [left; reflexivity|].
  destruct (N.ltb_spec (e_to b) (e_to a)); [right; reflexivity|].
  assert (e_to a = e_to b) as E2 by lia. rewrite E2, N.eqb_refl. apply str_leb_total.
Qed.
Lemma edge_leb_trans : forall a b c, edge_leb a b = true -> edge_leb b c = true -> edge_leb a c = true.
Proof.
  intros a b c. unfold edge_leb.
  destruct (N.ltb_spec (e_from a) (e_from b)); destruct (N.ltb_spec (e_from b) (e_from c));
    destruct (N.ltb_spec (e_from a) (e_from c)); try reflexivity; try lia;
    destruct (N.eqb_spec (e_from a) (e_from b)); destruct (N.eqb_spec (e_from b) (e_from c));
    destruct (N.eqb_spec (e_from a) (e_from c)); try discriminate; try lia.
  destruct (N.ltb_spec (e_to a) (e_to b)); destruct (N.ltb_spec (e_to b) (e_to c));
    destruct (N.ltb_spec (e_to a) (e_to c)); try reflexivity; try lia;
    destruct (N.eqb_spec (e_to a) (e_to b)); destruct (N.eqb_spec (e_to b) (e_to c));
    destruct (N.eqb_spec (e_to a) (e_to c)); try discriminate; try lia.
  apply str_leb_trans.
Qed.

(* the persisted order is the unique stable sort, and persisting twice changes nothing more *)
Theorem persist_mesh_idem : forall m, persist_mesh (persist_mesh m) = persist_mesh m.
Proof.
  intro m. unfold persist_mesh. cbn [m_nodes m_edges]. f_equal.
  - apply isort_idem; [apply node_leb_total|apply node_leb_trans].
  - apply isort_idem; [apply edge_leb_total|apply edge_leb_trans].
Qed.

Theorem persist_mesh_stable_sort : forall m,
    is_stable_sort node_leb (m_nodes m) (m_nodes (persist_mesh m)) /\
    is_stable_sort edge_leb (m_edges m) (m_edges (persist_mesh m)).
Proof.
  intro m. split; apply isort_is_stable_sort;
    [apply node_leb_total|apply node_leb_trans|apply edge_leb_total|apply edge_leb_trans].
Qed.

Lemma disk_mesh_idem : forall m, disk_mesh (disk_mesh m) = disk_mesh m.
Proof.
  intro m. unfold disk_mesh. destruct (mesh_is_empty m) eqn:E; [reflexivity|].
  destruct (mesh_is_empty (persist_mesh m)) eqn:E2.
  - (* impossible: sorting keeps the length *)
    exfalso. unfold mesh_is_empty in *. unfold persist_mesh in E2. cbn [m_nodes m_edges] in E2.
    pose proof (isort_length _ node_leb (m_nodes m)) as L1.
    pose proof (isort_length _ edge_leb (m_edges m)) as L2.
    destruct (isort node_leb (m_nodes m)); [|discriminate].
    destruct (isort edge_leb (m_edges m)); [|discriminate].
    destruct (m_nodes m); [|discriminate]. destruct (m_edges m); discriminate.
  - apply persist_mesh_idem.
Qed.

Lemma disk_mesh_perm : forall m,
    Permutation (m_nodes (disk_mesh m)) (m_nodes m) /\ Permutation (m_edges (disk_mesh m)) (m_edges m).
Proof.
  intro m. unfold disk_mesh. destruct (mesh_is_empty m) eqn:E; [|apply persist_mesh_perm].
  unfold mesh_is_empty in E. destruct (m_nodes m); [|discriminate]. destruct (m_edges m); [|discriminate].
  split; apply Permutation_refl.
Qed.

(* ------------------------------------------------------------------ *)
(* cards across commit / drop / open *)
Definition track_ok (tr : track) : Prop :=
  forallb conf_finite (t_cards tr) = true /\ (t_cards tr = [] -> tr = empty_track).

Lemma persist_card_id : forall c, conf_finite c = true -> persist_card c = c.
Proof. intros c H. unfold persist_card, conf_finite in *. destruct (c_conf c) as [[|]|]; [reflexivity|discriminate|reflexivity]. Qed.

Lemma disk_track_ok : forall tr, track_ok tr -> disk_track tr = tr.
Proof.
  intros tr [Hf He]. unfold disk_track. destruct (t_cards tr) as [|a r] eqn:E.
  - symmetry. apply He. reflexivity.
  - unfold persist_track. rewrite E. destruct tr as [cs nx ix]. cbn [t_cards t_next t_index] in *. subst cs.
    f_equal. rewrite forallb_forall in Hf.
    assert (forall l, (forall x, In x l -> conf_finite x = true) -> map persist_card l = l) as Hm.
    { induction l as [|x l IH]; intro H; simpl; [reflexivity|].
      rewrite persist_card_id by (apply H; left; reflexivity). f_equal. apply IH. intros y Hy. apply H. right; exact Hy. }
    apply Hm, Hf.
Qed.

Lemma track_ok_empty : track_ok empty_track.
Proof. split; reflexivity. Qed.

Lemma track_ok_add : forall tr c, track_ok tr -> conf_finite c = true -> track_ok (add_card tr c).
Proof.
  intros tr c [Hf He] Hc. unfold add_card. split; cbn [t_cards].
  - rewrite forallb_app, Hf. cbn [forallb]. unfold conf_finite in *. cbn [set_id_vkey c_conf]. rewrite Hc. reflexivity.
  - intro H. destruct (t_cards tr); discriminate.
Qed.

Lemma track_ok_fold : forall cs tr, track_ok tr -> forallb conf_finite cs = true ->
    track_ok (fold_left add_card cs tr).
Proof.
  induction cs as [|c r IH]; intros tr H Hc; simpl; [exact H|].
  cbn [forallb] in Hc. apply andb_true_iff in Hc. destruct Hc as [Hc Hr].
  apply IH; [apply track_ok_add; assumption|exact Hr].
Qed.

(* the input classes on which the implementation is known to lose cards *)
Definition op_nonfinite (o : mop) : bool :=
  match o with
  | PutCard c => negb (conf_finite c)
  | PutCards cs => negb (forallb conf_finite cs)
  | _ => false
  end.
(* known_class ops: some card with a non-finite confidence is put *)
Definition known_class (ops : list mop) : bool := existsb op_nonfinite ops.

Record Good (s : mstate) : Prop := {
  g_pending : s_pending s <> O -> s_dirty s = true;
  g_sync : s_dirty s = false -> d_track s = s_track s /\ d_mesh s = disk_mesh (s_mesh s);
  g_mem : track_ok (s_track s);
  g_disk : track_ok (d_track s);
  g_dmesh : disk_mesh (d_mesh s) = d_mesh s
}.

Lemma Good_init : Good init_state.
Proof.
  split; cbn; try reflexivity; try apply track_ok_empty.
  - intro H; contradiction.
  - intros _. split; reflexivity.
Qed.

Lemma Good_commit : forall s, Good s -> Good (do_commit s).
Proof.
  intros s G. unfold do_commit.
  destruct (s_pending s) eqn:P; destruct (s_dirty s) eqn:D; try exact G.
  all: split; cbn [s_pending s_dirty d_track d_mesh s_track s_mesh];
    try (intro; contradiction); try (intros _; split; [apply disk_track_ok, (g_mem s G)|reflexivity]);
    try apply (g_mem s G); try apply disk_mesh_idem.
  all: rewrite (disk_track_ok _ (g_mem s G)); apply (g_mem s G).
Qed.

Lemma Good_open : forall s, Good s -> Good (do_open s).
Proof.
  intros s G. unfold do_open.
  split; cbn [s_pending s_dirty d_track d_mesh s_track s_mesh];
    try (intro; contradiction); try apply (g_disk s G); try apply (g_dmesh s G).
  intros _. split; [reflexivity|symmetry; apply (g_dmesh s G)].
Qed.

Lemma commit_pending : forall s, Good s -> s_dirty s = true \/ s_pending s = O -> s_pending (do_commit s) = O.
Proof.
  intros s G H. unfold do_commit. destruct (s_pending s) eqn:P; destruct (s_dirty s) eqn:D; cbn; try reflexivity; try assumption.
Qed.

Lemma Good_step : forall s o, Good s -> op_nonfinite o = false -> Good (mstep s o).
Proof.
  intros s o G Hn. destruct o; cbn [mstep].
  - split; cbn [s_pending s_dirty d_track d_mesh s_track s_mesh];
      try reflexivity; try discriminate; try apply (g_disk s G); try apply (g_dmesh s G).
    apply track_ok_add; [apply (g_mem s G)|]. cbn in Hn. destruct (conf_finite c); [reflexivity|discriminate].
  - split; cbn [s_pending s_dirty d_track d_mesh s_track s_mesh];
      try reflexivity; try discriminate; try apply (g_disk s G); try apply (g_dmesh s G).
    apply track_ok_fold; [apply (g_mem s G)|]. cbn in Hn. destruct (forallb conf_finite cs); [reflexivity|discriminate].
  - split; cbn [s_pending s_dirty d_track d_mesh s_track s_mesh];
      try reflexivity; try discriminate; try apply (g_mem s G); try apply (g_disk s G); try apply (g_dmesh s G).
  - split; cbn [s_pending s_dirty d_track d_mesh s_track s_mesh];
      try reflexivity; try discriminate; try apply (g_mem s G); try apply (g_disk s G); try apply (g_dmesh s G).
  - split; cbn [s_pending s_dirty d_track d_mesh s_track s_mesh];
      try reflexivity; try discriminate; try apply (g_mem s G); try apply (g_disk s G); try apply (g_dmesh s G).
  - apply Good_commit, G.
  - apply Good_open, Good_commit, G.
  - apply Good_open, G.
Qed.

Lemma Good_run_from : forall ops s, Good s -> existsb op_nonfinite ops = false -> Good (fold_left mstep ops s).
Proof.
  induction ops as [|o r IH]; intros s G H; cbn [fold_left]; [exact G|].
  cbn [existsb] in H. apply orb_false_iff in H. destruct H as [Ho Hr].
  apply IH; [apply Good_step; assumption|exact Hr].
Qed.

(* outside the known classes: after any history, closing and reopening (with or without an
   explicit commit first) gives back the same track -- all cards, ids, index -- and a mesh with
   the same nodes and edges (in serialisation order) *)
Theorem reopen_preserves : forall ops, known_class ops = false ->
    let s := mrun ops in
    s_track (mstep s Reopen) = s_track s /\
    s_track (mstep (mstep s Commit) Reopen) = s_track s /\
    s_track (mstep s Commit) = s_track s /\
    s_mesh (mstep s Reopen) = disk_mesh (s_mesh s) /\
    Permutation (m_nodes (s_mesh (mstep s Reopen))) (m_nodes (s_mesh s)) /\
    Permutation (m_edges (s_mesh (mstep s Reopen))) (m_edges (s_mesh s)).
Proof.
  intros ops H s. assert (Good s) as G by (apply Good_run_from; [apply Good_init|exact H]).
  unfold known_class in H.
  assert (s_track (do_open (do_commit s)) = s_track s /\ s_mesh (do_open (do_commit s)) = disk_mesh (s_mesh s)) as [Ht Hm].
  { assert (s_pending (do_commit s) = O) as P.
    { apply commit_pending; [exact G|]. destruct (s_pending s) eqn:P; [right; reflexivity|left; apply (g_pending s G); rewrite P; discriminate]. }
    unfold do_open. cbn [s_track s_mesh].
    unfold do_commit. destruct (s_pending s) eqn:P0; destruct (s_dirty s) eqn:D; cbn [d_track d_mesh];
      try (split; [apply disk_track_ok, (g_mem s G)|reflexivity]).
    destruct (g_sync s G D) as [E1 E2]. split; assumption. }
  assert (s_track (do_commit s) = s_track s /\ s_mesh (do_commit s) = s_mesh s) as [Hct Hcm].
  { unfold do_commit. destruct (s_pending s); destruct (s_dirty s); split; reflexivity. }
  cbn [mstep]. split; [exact Ht|]. split.
  - (* commit; then drop + open *)
    assert (Good (do_commit s)) as G' by (apply Good_commit, G).
    assert (s_pending (do_commit (do_commit s)) = O) as P.
    { apply commit_pending; [exact G'|]. right.
      apply commit_pending; [exact G|]. destruct (s_pending s) eqn:P; [right; reflexivity|left; apply (g_pending s G); rewrite P; discriminate]. }
    unfold do_open. cbn [s_track].
    unfold do_commit at 1. destruct (s_pending (do_commit s)) eqn:P1; destruct (s_dirty (do_commit s)) eqn:D1; cbn [d_track].
    + rewrite (disk_track_ok _ (g_mem _ G')). exact Hct.
    + destruct (g_sync _ G' D1) as [E1 _]. rewrite E1. exact Hct.
    + rewrite (disk_track_ok _ (g_mem _ G')). exact Hct.
    + rewrite (disk_track_ok _ (g_mem _ G')). exact Hct.
  - split; [exact Hct|]. split; [exact Hm|]. rewrite Hm. apply disk_mesh_perm.
Qed.

(* the two known classes are real: the model loses the cards *)
Definition sample_card (conf : option (option N)) : card :=
  mkCard 0 "user" "city" "Paris" (Some 10%Z) None None Sets conf 5%Z.

Theorem persist_refuted_nonfinite :
  exists ops, t_cards (s_track (mstep (mrun ops) Reopen)) <> t_cards (s_track (mrun ops)).
Proof. exists [PutCard (sample_card (Some None))]. vm_compute. discriminate. Qed.

(* a committed card set also survives the death of the process with uncommitted frame
   records in the WAL (open replays them after loading the tracks) *)
Theorem crash_keeps_committed : forall ops frames, known_class ops = false ->
    let s := mrun ops in
    s_track (fold_left mstep (Commit :: repeat PutFrame frames ++ [CrashReopen]) s) = s_track s /\
    s_mesh (fold_left mstep (Commit :: repeat PutFrame frames ++ [CrashReopen]) s) = disk_mesh (s_mesh s).
Proof.
  intros ops frames H s. assert (Good s) as G by (apply Good_run_from; [apply Good_init|exact H]).
  cbn [fold_left]. rewrite fold_left_app. cbn [fold_left mstep].
  assert (forall n st, d_track (fold_left mstep (repeat PutFrame n) st) = d_track st /\
                       d_mesh (fold_left mstep (repeat PutFrame n) st) = d_mesh st) as Hrep.
  { induction n as [|n IH]; intro st; cbn [repeat fold_left]; [split; reflexivity|].
    destruct (IH (mstep st PutFrame)) as [E1 E2]. rewrite E1, E2. split; reflexivity. }
  destruct (Hrep frames (do_commit s)) as [E1 E2].
  unfold do_open. cbn [s_track s_mesh]. rewrite E1, E2.
  unfold do_commit. destruct (s_pending s) eqn:P0; destruct (s_dirty s) eqn:D; cbn [d_track d_mesh];
    try (split; [apply disk_track_ok, (g_mem s G)|reflexivity]).
  destruct (g_sync s G D) as [F1 F2]. split; assumption.
Qed.
