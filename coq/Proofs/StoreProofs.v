From MV Require Import Base.Prelude Base.Facts Model.Store Model.StoreSpec.
Require Import ZifyBool ZifyNat ZifyN.
Local Open Scope N_scope.

(* ---------- update_nth / get / len ---------- *)
Lemma update_nth_length {A} n (g : A -> A) l : length (update_nth n g l) = length l.
Proof. revert n; induction l as [|x l IH]; intros [|n]; cbn [update_nth length]; auto. Qed.

Lemma nth_error_update_nth {A} n (g : A -> A) l i :
  nth_error (update_nth n g l) i = if Nat.eqb i n then option_map g (nth_error l i) else nth_error l i.
Proof.
  revert n i; induction l as [|x l IH]; intros n i.
  - destruct n, i; cbn [update_nth nth_error option_map Nat.eqb]; try reflexivity. destruct (Nat.eqb i n); reflexivity.
  - destruct n as [|n], i as [|i]; cbn [update_nth nth_error Nat.eqb option_map]; try reflexivity. apply IH.
Qed.

Lemma update_nth_app_l {A} n (g : A -> A) a b : (n < length a)%nat -> update_nth n g (a ++ b) = update_nth n g a ++ b.
Proof.
  revert n; induction a as [|x a IH]; intros [|n] Hn; cbn [length] in Hn; try lia; cbn [app update_nth]; [reflexivity|].
  rewrite IH by lia. reflexivity.
Qed.

Lemma update_nth_out {A} n (g : A -> A) l : (length l <= n)%nat -> update_nth n g l = l.
Proof.
  revert n; induction l as [|x l IH]; intros [|n] Hn; cbn [length] in Hn; cbn [update_nth]; try reflexivity; try lia.
  rewrite IH by lia. reflexivity.
Qed.

Lemma len_app a b : len (a ++ b) = len a + len b.
Proof. unfold len. rewrite app_length. lia. Qed.
Lemma len_update n g l : len (update_nth n g l) = len l.
Proof. unfold len. rewrite update_nth_length. reflexivity. Qed.
Lemma len_one (f : frame) : len [f] = 1.
Proof. reflexivity. Qed.

(* ---------- what status updates preserve ---------- *)
Lemma set_status_identity f st by_ : same_identity f (set_status f st by_).
Proof. destruct f; repeat split. Qed.
Lemma set_status_role f st by_ : f_role (set_status f st by_) = f_role f.
Proof. destruct f; reflexivity. Qed.
Lemma set_status_parent f st by_ : f_parent (set_status f st by_) = f_parent f.
Proof. destruct f; reflexivity. Qed.
Lemma set_status_tag f st by_ : f_tag (set_status f st by_) = f_tag f.
Proof. destruct f; reflexivity. Qed.
Lemma set_status_uri f st by_ : f_uri (set_status f st by_) = f_uri f.
Proof. destruct f; reflexivity. Qed.

(* "every chunk frame has a parent": makes the second pass of apply_records the identity *)
Definition ChunksParented (frames : list frame) : Prop :=
  forall i f, nth_error frames i = Some f -> f_role f = 1 -> f_parent f <> None.

Lemma ChunksParented_update n st by_ frames :
  ChunksParented frames -> ChunksParented (update_nth n (fun g => set_status g st by_) frames).
Proof.
  intros HC i f Hi Hr. rewrite nth_error_update_nth in Hi.
  destruct (Nat.eqb i n).
  - destruct (nth_error frames i) as [g|] eqn:Eg; [|discriminate]. cbn in Hi. inversion Hi; subst.
    rewrite set_status_role in Hr. rewrite set_status_parent. eapply HC; eauto.
  - eapply HC; eauto.
Qed.

Lemma ChunksParented_snoc frames f :
  ChunksParented frames -> (f_role f = 1 -> f_parent f <> None) -> ChunksParented (frames ++ [f]).
Proof.
  intros HC Hf i g Hi Hr.
  destruct (Nat.lt_ge_cases i (length frames)) as [Hl|Hg].
  - rewrite nth_error_app1 in Hi by assumption. eapply HC; eauto.
  - rewrite nth_error_app2 in Hi by assumption.
    destruct (i - length frames)%nat as [|k]; cbn in Hi; [inversion Hi; subst; auto|]. destruct k; discriminate.
Qed.

(* resolve_orphans is the identity when every chunk already has a parent *)
Lemma resolve_orphans_id frames ins : ChunksParented frames -> resolve_orphans frames ins = frames.
Proof.
  intros HC. unfold resolve_orphans.
  assert (Hgen : forall fr, fold_left
    (fun fr id => match get frames id with
                  | Some f => if (f_role f =? 1) && (match f_parent f with None => true | Some _ => false end)
                              then match orphan_parent frames (N.to_nat id) id with
                                   | Some p => update_nth (N.to_nat id) (fun g => set_parent g (Some p)) fr
                                   | None => fr end
                              else fr
                  | None => fr end) ins fr = fr).
  { induction ins as [|id ins IH]; intros fr; cbn [fold_left]; [reflexivity|].
    destruct (get frames id) as [f|] eqn:Eg; [|apply IH].
    destruct (f_role f =? 1) eqn:Er; cbn [andb]; [|apply IH].
    unfold get in Eg. specialize (HC _ _ Eg ltac:(lia)).
    destruct (f_parent f); [apply IH | congruence]. }
  apply Hgen.
Qed.

(* ---------- folding apply_entry ---------- *)
Definition frames_after (c : list frame) (p : list (N * entry)) : list frame :=
  fst (fst (fold_left apply_entry p (c, [], []))).

Definition st_frames (st : astate) : list frame := fst (fst st).

Fixpoint chunk_entries (first_seq parent_seq : N) (uk : option N) (tag0 : N) (i n : nat) : list (N * entry) :=
  match n with
  | O => []
  | S k => (first_seq, EInsert (chunk_uri uk i) (tag0 + N.of_nat i + 1) 1 false None None (Some parent_seq))
             :: chunk_entries (first_seq + 1) parent_seq uk tag0 (S i) k
  end.

Lemma fold_chunks n : forall i fr smap ins first_seq ps pid uk tag0,
  assoc smap ps = Some pid -> ps < first_seq ->
  st_frames (fold_left apply_entry (chunk_entries first_seq ps uk tag0 i n) (fr, smap, ins))
  = ref_chunks fr pid uk tag0 i n.
Proof.
  induction n as [|n IH]; intros i fr smap ins first_seq ps pid uk tag0 Ha Hlt; cbn [chunk_entries fold_left ref_chunks]; [reflexivity|].
  cbn [apply_entry]. rewrite Ha.
  apply IH; [|lia].
  cbn [assoc]. replace (first_seq =? ps) with false by lia. exact Ha.
Qed.

Definition put_entries (sq : N) (uk : option N) (tag nchunks role : N) : list (N * entry) :=
  (sq, EInsert (match uk with Some k => Some (UExp k) | None => None end) tag role (0 <? nchunks) None None None)
    :: chunk_entries (sq + 1) sq uk tag 0 (N.to_nat nchunks).

Lemma fold_put st sq uk tag nchunks role :
  st_frames (fold_left apply_entry (put_entries sq uk tag nchunks role) st)
  = ref_put (st_frames st) uk tag nchunks role.
Proof.
  destruct st as [[fr smap] ins]. unfold put_entries, ref_put, st_frames at 2. cbn [fst fold_left apply_entry].
  apply fold_chunks; [|lia]. cbn [assoc]. rewrite N.eqb_refl. reflexivity.
Qed.

Lemma fold_left_frames_app p q st :
  fold_left apply_entry (p ++ q) st = fold_left apply_entry q (fold_left apply_entry p st).
Proof. apply fold_left_app. Qed.

(* ---------- ChunksParented is preserved by the reference steps ---------- *)
Lemma ref_chunks_parented n : forall i fr pid uk tag0,
  ChunksParented fr -> ChunksParented (ref_chunks fr pid uk tag0 i n).
Proof.
  induction n as [|n IH]; intros i fr pid uk tag0 HC; cbn [ref_chunks]; [assumption|].
  apply IH. apply ChunksParented_snoc; [assumption|]. cbn. discriminate.
Qed.

Lemma ref_put_parented fr uk tag nchunks role :
  ChunksParented fr -> (role =? 1) = false -> ChunksParented (ref_put fr uk tag nchunks role).
Proof.
  intros HC Hr. unfold ref_put. apply ref_chunks_parented. apply ChunksParented_snoc; [assumption|].
  cbn. intros E. lia.
Qed.

(* ---------- existing frames keep their identity ---------- *)
Definition Extends (a b : list frame) : Prop :=
  (length a <= length b)%nat /\
  forall i f, nth_error a i = Some f -> exists f', nth_error b i = Some f' /\ same_identity f f'.

Lemma same_identity_refl f : same_identity f f.
Proof. repeat split. Qed.
Lemma same_identity_trans a b c : same_identity a b -> same_identity b c -> same_identity a c.
Proof. unfold same_identity. intuition congruence. Qed.

Lemma Extends_refl a : Extends a a.
Proof. split; [lia|]. intros i f Hi. exists f. split; [assumption|apply same_identity_refl]. Qed.
Lemma Extends_trans a b c : Extends a b -> Extends b c -> Extends a c.
Proof.
  intros [L1 H1] [L2 H2]. split; [lia|]. intros i f Hi.
  destruct (H1 _ _ Hi) as (f' & Hi' & S1). destruct (H2 _ _ Hi') as (f'' & Hi'' & S2).
  exists f''. split; [assumption|eapply same_identity_trans; eauto].
Qed.
Lemma Extends_snoc a f : Extends a (a ++ [f]).
Proof.
  split; [rewrite app_length; lia|]. intros i g Hi. exists g. split; [|apply same_identity_refl].
  rewrite nth_error_app1; [assumption|]. apply nth_error_Some. congruence.
Qed.
Lemma Extends_update a n st by_ : Extends a (update_nth n (fun g => set_status g st by_) a).
Proof.
  split; [rewrite update_nth_length; lia|]. intros i f Hi. rewrite nth_error_update_nth, Hi.
  destruct (Nat.eqb i n); cbn [option_map]; eexists; split; try reflexivity; [apply set_status_identity|apply same_identity_refl].
Qed.

Lemma apply_entry_extends st se : Extends (st_frames st) (st_frames (apply_entry st se)).
Proof.
  destruct st as [[fr smap] ins], se as [seq e]. unfold st_frames. destruct e as [u tag role m sup reuse ps|t|]; cbn [apply_entry fst].
  - destruct sup as [p|].
    + eapply Extends_trans; [apply Extends_update|apply Extends_snoc].
    + apply Extends_snoc.
  - apply Extends_update.
  - apply Extends_refl.
Qed.

Lemma fold_extends p : forall st, Extends (st_frames st) (st_frames (fold_left apply_entry p st)).
Proof.
  induction p as [|se p IH]; intros st; cbn [fold_left]; [apply Extends_refl|].
  eapply Extends_trans; [apply apply_entry_extends|apply IH].
Qed.

Lemma ref_chunks_extends n : forall i fr pid uk tag0, Extends fr (ref_chunks fr pid uk tag0 i n).
Proof.
  induction n as [|n IH]; intros; cbn [ref_chunks]; [apply Extends_refl|].
  eapply Extends_trans; [apply Extends_snoc|apply IH].
Qed.

(* ---------- the model's log appends ---------- *)
Lemma append_chunks_spec n : forall s ps uk tag i,
  pending (append_chunks s ps uk tag i n) = pending s ++ chunk_entries (seqno s + 1) ps uk tag i n /\
  committed (append_chunks s ps uk tag i n) = committed s /\
  seqno (append_chunks s ps uk tag i n) = seqno s + N.of_nat n /\
  pending_inserts (append_chunks s ps uk tag i n) = pending_inserts s + N.of_nat n.
Proof.
  induction n as [|n IH]; intros s ps uk tag i; cbn [append_chunks chunk_entries].
  - rewrite app_nil_r. repeat split; lia.
  - unfold append. cbn [is_insert].
    match goal with |- context [append_chunks ?s1 ps uk tag (S i) n] => destruct (IH s1 ps uk tag (S i)) as (P & C & S & I) end.
    cbn [pending committed seqno pending_inserts] in P, C, S, I. rewrite P, C, S, I.
    unfold chunk_uri. rewrite <- app_assoc. cbn [app]. repeat split; try lia.
Qed.

(* ---------- the invariant and the step lemma ---------- *)
Definition J (s : store) (R : list frame) : Prop :=
  frames_after (committed s) (pending s) = R /\ ChunksParented R.

Lemma J_view s R : J s R -> view s = R.
Proof.
  intros [HF HC]. unfold view, apply_records. unfold frames_after in HF.
  destruct (fold_left apply_entry (pending s) (committed s, [], [])) as [[fr smap] ins]. cbn [fst] in HF. subst fr.
  apply resolve_orphans_id. exact HC.
Qed.

Lemma J_commit s R extra : J s R -> J (do_commit s extra) R.
Proof.
  intros HJ. pose proof (J_view s R HJ) as HV. destruct HJ as [HF HC].
  unfold do_commit, J, frames_after. cbn [committed pending fold_left fst]. rewrite HV. split; [reflexivity|assumption].
Qed.

Lemma J_bump s R extra : J s R -> J (bump s extra) R.
Proof. intros HJ. exact HJ. Qed.

Lemma J_auto s R auto : J s R -> J (auto_commit s auto) R.
Proof. intros HJ. destruct auto; cbn [auto_commit]; [apply J_commit|]; assumption. Qed.

Lemma J_committed_extends s R : J s R -> Extends (committed s) R.
Proof. intros [HF _]. rewrite <- HF. apply (fold_extends (pending s) (committed s, [], [])). Qed.

Lemma observe_acked s r : acked (observe s r) = match r with Ok _ => true | _ => false end.
Proof. reflexivity. Qed.

(* side condition of the theorem: an update never targets a DocumentChunk frame *)
Definition ref_ok (frames : list frame) (x : sop * sout) : bool :=
  let '(op, o) := x in
  op_ok op &&
  match op with
  | OUpdate target _ _ _ => if acked o then match get frames target with Some old => negb (f_role old =? 1) | None => true end else true
  | _ => true
  end.

Lemma J_append_entry s R e sq s1 :
  J s R -> append s e = (s1, sq) ->
  frames_after (committed s1) (pending s1) = st_frames (apply_entry (fold_left apply_entry (pending s) (committed s, [], [])) (sq, e))
  /\ sq = seqno s + 1 /\ committed s1 = committed s.
Proof.
  intros HJ Ha. unfold append in Ha. inversion Ha; subst. cbn [committed pending].
  unfold frames_after. rewrite fold_left_app. cbn [fold_left]. auto.
Qed.

Lemma sstep_refines s R op :
  J s R ->
  let '(s1, o) := sstep s op in
  ref_ok R (op, o) = true -> J s1 (ref_step R (op, o)).
Proof.
  intros HJ. pose proof HJ as [HF HC].
  destruct op as [uk tag nchunks role auto|target newtag uk auto|target auto|extra|extra|extra|newseq]; cbn [sstep].
  - (* put *)
    destruct (append s _) as [s1 sq] eqn:Ea.
    cbn [ref_ok ref_step op_ok]. rewrite observe_acked. cbn [negb].
    intros Hok. rewrite andb_true_r in Hok. apply negb_true_iff in Hok.
    apply J_auto.
    destruct (append_chunks_spec (N.to_nat nchunks) s1 sq uk tag 0) as (P & C & _ & _).
    unfold append in Ea. inversion Ea; subst s1 sq. cbn [pending committed seqno] in P, C.
    split.
    + unfold frames_after. rewrite P, C. rewrite <- app_assoc. cbn [app].
      rewrite fold_left_app.
      change ((seqno s + 1, EInsert (match uk with Some k => Some (UExp k) | None => None end) tag role (0 <? nchunks) None None None)
                :: chunk_entries (seqno s + 1 + 1) (seqno s + 1) uk tag 0 (N.to_nat nchunks))
        with (put_entries (seqno s + 1) uk tag nchunks role).
      pose proof (fold_put (fold_left apply_entry (pending s) (committed s, [], [])) (seqno s + 1) uk tag nchunks role) as HP.
      unfold frames_after, st_frames in HF, HP |- *. rewrite HP, HF. reflexivity.
    + apply ref_put_parented; assumption.
  - (* update *)
    destruct (get (committed s) target) as [old|] eqn:Eg.
    2:{ cbn [ref_ok ref_step]. rewrite observe_acked. cbn [negb]. intros _. exact HJ. }
    destruct (f_status old =? 0) eqn:Est; cbn [negb].
    2:{ cbn [ref_ok ref_step]. rewrite observe_acked. cbn [negb]. intros _. exact HJ. }
    destruct (append s _) as [s1 sq] eqn:Ea.
    cbn [ref_ok ref_step op_ok]. rewrite observe_acked. cbn [negb andb].
    destruct (J_committed_extends s R HJ) as [HL HE].
    unfold get in Eg. destruct (HE _ _ Eg) as (old' & Eg' & Hid).
    unfold get at 1. rewrite Eg'. intros Hrole. apply negb_true_iff in Hrole.
    apply J_auto.
    destruct Hid as (I1 & I2 & I3 & I4 & I5 & I6).
    destruct (J_append_entry s R _ sq s1 HJ Ea) as (HFA & Hsq & Hc).
    split.
    + rewrite HFA. unfold frames_after in HF.
      destruct (fold_left apply_entry (pending s) (committed s, [], [])) as [[fr smap] ins]. cbn [fst] in HF. subst fr.
      unfold ref_update, get. rewrite Eg'.
      destruct newtag as [t|]; unfold st_frames; cbn [apply_entry fst].
      * rewrite I2, I4. reflexivity.
      * unfold get. rewrite Eg'. rewrite I2, I4. reflexivity.
    + unfold ref_update, get. rewrite Eg'. apply ChunksParented_snoc; [apply ChunksParented_update; assumption|].
      cbn [f_role]. intros E. rewrite <- I4 in E. lia.
  - (* delete *)
    destruct (get (committed s) target) as [old|] eqn:Eg.
    2:{ cbn [ref_ok ref_step]. rewrite observe_acked. cbn [negb]. intros _. exact HJ. }
    destruct (f_status old =? 0) eqn:Est; cbn [negb].
    2:{ cbn [ref_ok ref_step]. rewrite observe_acked. cbn [negb]. intros _. exact HJ. }
    destruct (append s _) as [s1 sq] eqn:Ea.
    cbn [ref_ok ref_step op_ok]. rewrite observe_acked. cbn [negb andb]. intros _.
    apply J_auto.
    destruct (J_append_entry s R _ sq s1 HJ Ea) as (HFA & Hsq & Hc).
    split.
    + rewrite HFA. unfold frames_after in HF.
      destruct (fold_left apply_entry (pending s) (committed s, [], [])) as [[fr smap] ins]. cbn [fst] in HF. subst fr.
      reflexivity.
    + apply ChunksParented_update. assumption.
  - (* commit *)
    cbn [ref_ok ref_step]. rewrite observe_acked. cbn [negb]. intros _.
    destruct (pending s); [destruct (dirty s)|]; first [apply J_commit | apply J_bump]; assumption.
  - (* reopen *)
    cbn [ref_ok ref_step]. rewrite observe_acked. cbn [negb]. intros _.
    assert (H1 : J (if dirty s then do_commit s extra else bump s extra) R).
    { destruct (dirty s); [apply J_commit|apply J_bump]; assumption. }
    destruct (pending (if dirty s then do_commit s extra else bump s extra)); [assumption|apply J_commit; assumption].
  - (* crash + replay *)
    cbn [ref_ok ref_step]. rewrite observe_acked. cbn [negb]. intros _.
    destruct (pending s) eqn:Ep; [|apply J_commit; assumption].
    unfold J, frames_after in *. cbn [committed pending fold_left fst]. cbn [fold_left fst] in HF. auto.
  - (* doctor *)
    cbn [ref_ok ref_step]. rewrite observe_acked. cbn [negb]. intros _.
    assert (H1 : J (if dirty s then do_commit s 0 else s) R).
    { destruct (dirty s); [apply J_commit|]; assumption. }
    assert (H2 : J (match pending (if dirty s then do_commit s 0 else s) with [] => (if dirty s then do_commit s 0 else s) | _ => do_commit (if dirty s then do_commit s 0 else s) 0 end) R).
    { destruct (pending (if dirty s then do_commit s 0 else s)); [assumption|apply J_commit; assumption]. }
    exact H2.
Qed.

(* ---------- whole histories ---------- *)
Fixpoint run_ok (R : list frame) (xs : list (sop * sout)) : bool :=
  match xs with
  | [] => true
  | x :: r => ref_ok R x && run_ok (ref_step R x) r
  end.

Theorem srun_refines : forall ops s R,
  J s R ->
  run_ok R (combine ops (snd (srun s ops))) = true ->
  J (fst (srun s ops)) (ref_run R (combine ops (snd (srun s ops)))).
Proof.
  induction ops as [|op ops IH]; intros s R HJ Hok; cbn [srun]; [exact HJ|].
  pose proof (sstep_refines s R op HJ) as HS.
  cbn [srun] in Hok.
  destruct (sstep s op) as [s1 o]. destruct (srun s1 ops) as [s2 os] eqn:Er.
  cbn [fst snd combine run_ok ref_run fold_left] in *.
  apply andb_true_iff in Hok as [H1 H2].
  specialize (HS H1). specialize (IH s1 _ HS). rewrite Er in IH. cbn [fst snd] in IH. apply IH. exact H2.
Qed.

Lemma J_store0 : J store0 [].
Proof. split; [reflexivity|]. intros i f Hi. destruct i; discriminate. Qed.

Theorem store_view_is_reference ops :
  run_ok [] (combine ops (snd (srun store0 ops))) = true ->
  view (fst (srun store0 ops)) = ref_run [] (combine ops (snd (srun store0 ops))).
Proof. intros Hok. apply J_view. apply srun_refines; [apply J_store0|assumption]. Qed.

(* after a commit / reopen / crash+replay nothing is pending: the committed table IS the view *)
Lemma quiescent_committed s : pending s = [] -> view s = committed s.
Proof.
  intros Hp. unfold view, apply_records. rewrite Hp. cbn [fold_left rev]. reflexivity.
Qed.

(* ---------- C06: dense ids, prediction, stability ---------- *)
Lemma Dense_snoc fr f : Dense fr -> f_id f = len fr -> Dense (fr ++ [f]).
Proof.
  intros HD Hf i g Hi. destruct (Nat.lt_ge_cases i (length fr)) as [Hl|Hg].
  - rewrite nth_error_app1 in Hi by assumption. apply HD; assumption.
  - rewrite nth_error_app2 in Hi by assumption.
    destruct (i - length fr)%nat as [|k] eqn:Ek; cbn in Hi; [|destruct k; discriminate].
    inversion Hi; subst. rewrite Hf. unfold len. lia.
Qed.
Lemma Dense_update fr n st by_ : Dense fr -> Dense (update_nth n (fun g => set_status g st by_) fr).
Proof.
  intros HD i f Hi. rewrite nth_error_update_nth in Hi. destruct (Nat.eqb i n).
  - destruct (nth_error fr i) as [g|] eqn:Eg; [|discriminate]. cbn in Hi. inversion Hi; subst.
    destruct g; cbn. apply (HD _ _ Eg).
  - apply HD; assumption.
Qed.
Lemma Dense_ref_chunks n : forall i fr pid uk tag0, Dense fr -> Dense (ref_chunks fr pid uk tag0 i n).
Proof.
  induction n as [|n IH]; intros; cbn [ref_chunks]; [assumption|]. apply IH. apply Dense_snoc; [assumption|reflexivity].
Qed.
Lemma Dense_ref_step fr x : Dense fr -> Dense (ref_step fr x).
Proof.
  intros HD. destruct x as [op o]. unfold ref_step. destruct (negb (acked o)); [assumption|].
  destruct op; try assumption.
  - unfold ref_put. apply Dense_ref_chunks. apply Dense_snoc; [assumption|reflexivity].
  - unfold ref_update. destruct (get fr target); [|assumption].
    apply Dense_snoc; [apply Dense_update; assumption|]. cbn [f_id]. rewrite len_update. reflexivity.
  - apply Dense_update. assumption.
Qed.
Lemma Dense_ref_run xs : forall fr, Dense fr -> Dense (ref_run fr xs).
Proof. induction xs as [|x xs IH]; intros fr HD; cbn [ref_run fold_left]; [assumption|]. apply IH. apply Dense_ref_step. assumption. Qed.
Lemma Dense_nil : Dense [].
Proof. intros i f Hi. destruct i; discriminate. Qed.

Lemma Extends_ref_step fr x : Extends fr (ref_step fr x).
Proof.
  destruct x as [op o]. unfold ref_step. destruct (negb (acked o)); [apply Extends_refl|].
  destruct op; try apply Extends_refl.
  - unfold ref_put. eapply Extends_trans; [apply Extends_snoc|apply ref_chunks_extends].
  - unfold ref_update. destruct (get fr target); [|apply Extends_refl].
    eapply Extends_trans; [apply Extends_update|apply Extends_snoc].
  - apply Extends_update.
Qed.
Lemma Extends_ref_run xs : forall fr, Extends fr (ref_run fr xs).
Proof.
  induction xs as [|x xs IH]; intros fr; cbn [ref_run fold_left]; [apply Extends_refl|].
  eapply Extends_trans; [apply Extends_ref_step|apply IH].
Qed.

(* next_frame_id = number of frames in the view *)
Definition count_ins (p : list (N * entry)) : N :=
  fold_right (fun se a => if is_insert (snd se) then 1 + a else a) 0 p.

Lemma count_ins_cons x p : count_ins (x :: p) = (if is_insert (snd x) then 1 else 0) + count_ins p.
Proof. unfold count_ins. cbn [fold_right]. destruct (is_insert (snd x)); lia. Qed.
Lemma count_ins_nil : count_ins [] = 0.
Proof. reflexivity. Qed.

Lemma count_ins_app p q : count_ins (p ++ q) = count_ins p + count_ins q.
Proof. induction p as [|x p IH]; [rewrite count_ins_nil; cbn [app]; lia|]. rewrite <- app_comm_cons, !count_ins_cons, IH. lia. Qed.

Lemma apply_entry_len st se :
  len (st_frames (apply_entry st se)) = len (st_frames st) + (if is_insert (snd se) then 1 else 0).
Proof.
  destruct st as [[fr smap] ins], se as [seq e]. unfold st_frames. destruct e as [u tag role m sup reuse ps|t|]; cbn [apply_entry fst snd is_insert].
  - destruct sup; rewrite len_app, ?len_update, len_one; lia.
  - rewrite len_update. lia.
  - lia.
Qed.
Lemma fold_len p : forall st, len (st_frames (fold_left apply_entry p st)) = len (st_frames st) + count_ins p.
Proof.
  induction p as [|se p IH]; intros st; cbn [fold_left]; [rewrite count_ins_nil; lia|].
  rewrite IH, apply_entry_len, count_ins_cons. lia.
Qed.

Definition K (s : store) : Prop := pending_inserts s = count_ins (pending s).

Lemma count_ins_chunks n : forall fs ps uk tag i, count_ins (chunk_entries fs ps uk tag i n) = N.of_nat n.
Proof. induction n as [|n IH]; intros; cbn [chunk_entries]; [reflexivity|]. rewrite count_ins_cons, IH. cbn [snd is_insert]. lia. Qed.

Lemma K_auto s auto : K s -> K (auto_commit s auto).
Proof. intros HK. destruct auto; [reflexivity|assumption]. Qed.

Lemma K_append s e : K s -> K (fst (append s e)).
Proof.
  intros HK. unfold K, append in *. cbn [fst pending pending_inserts]. rewrite count_ins_app, HK.
  rewrite count_ins_cons, count_ins_nil. cbn [snd]. destruct (is_insert e); lia.
Qed.

Lemma sstep_K s op : K s -> K (fst (sstep s op)).
Proof.
  intros HK. destruct op as [uk tag nchunks role auto|target newtag uk auto|target auto|extra|extra|extra|newseq]; cbn [sstep].
  - destruct (append s _) as [s1 sq] eqn:Ea. cbn [fst]. apply K_auto.
    destruct (append_chunks_spec (N.to_nat nchunks) s1 sq uk tag 0) as (P & C & S & I).
    unfold K. rewrite P, I, count_ins_app, count_ins_chunks.
    match type of Ea with append s ?e = _ => pose proof (K_append s e HK) as HK1 end. rewrite Ea in HK1. cbn [fst] in HK1. unfold K in HK1. rewrite HK1. reflexivity.
  - destruct (get (committed s) target); [|assumption]. destruct (negb _); [assumption|].
    destruct (append s _) as [s1 sq] eqn:Ea. cbn [fst]. apply K_auto.
    match type of Ea with append s ?e = _ => pose proof (K_append s e HK) as HK1 end. rewrite Ea in HK1. exact HK1.
  - destruct (get (committed s) target); [|assumption]. destruct (negb _); [assumption|].
    destruct (append s _) as [s1 sq] eqn:Ea. cbn [fst]. apply K_auto.
    match type of Ea with append s ?e = _ => pose proof (K_append s e HK) as HK1 end. rewrite Ea in HK1. exact HK1.
  - cbn [fst]. destruct (pending s); [destruct (dirty s)|]; try reflexivity. exact HK.
  - cbn [fst]. destruct (dirty s); cbn [do_commit bump pending]; [reflexivity|].
    fold (bump s extra). destruct (pending s) eqn:Ep; [|reflexivity]. unfold K, bump in *. cbn [pending pending_inserts]. rewrite Ep in *. exact HK.
  - cbn [fst]. destruct (pending s); reflexivity.
  - cbn [fst]. unfold K. cbn [pending pending_inserts].
    destruct (dirty s); cbn [do_commit pending pending_inserts]; [reflexivity|].
    destruct (pending s) eqn:Ep; [|reflexivity]. unfold K in HK. cbn [pending pending_inserts]. rewrite Ep in *. exact HK.
Qed.

Lemma next_frame_id_is_view_length s R : J s R -> K s -> next_frame_id s = len R.
Proof.
  intros [HF _] HK. unfold next_frame_id. rewrite HK, <- HF. unfold frames_after.
  pose proof (fold_len (pending s) (committed s, [], [])) as HL. unfold st_frames in HL. cbn [fst] in HL. rewrite HL. reflexivity.
Qed.

(* the document frame created by an acknowledged put sits at index len R (= next_frame_id before the call) *)
Lemma ref_put_doc_frame R uk tag nchunks role :
  exists f, nth_error (ref_put R uk tag nchunks role) (length R) = Some f /\ f_id f = len R /\ f_tag f = tag /\ f_role f = role.
Proof.
  unfold ref_put.
  set (doc := new_frame R _ tag role (0 <? nchunks) None None).
  destruct (ref_chunks_extends (N.to_nat nchunks) 0 (R ++ [doc]) (len R) uk tag) as [_ HE].
  destruct (HE (length R) doc) as (f' & Hn & Hid).
  { rewrite nth_error_app2 by lia. rewrite Nat.sub_diag. reflexivity. }
  exists f'. split; [assumption|]. destruct Hid as (I1 & I2 & I3 & I4 & _). rewrite <- I1, <- I3, <- I4. repeat split.
Qed.

Lemma srun_K : forall ops s, K s -> K (fst (srun s ops)).
Proof.
  induction ops as [|op ops IH]; intros s HK; cbn [srun]; [exact HK|].
  pose proof (sstep_K s op HK) as H1. destruct (sstep s op) as [s1 o]. cbn [fst] in H1.
  specialize (IH s1 H1). destruct (srun s1 ops) as [s2 os]. exact IH.
Qed.
Lemma K_store0 : K store0.
Proof. reflexivity. Qed.

Theorem reachable_facts ops :
  let s := fst (srun store0 ops) in
  let xs := combine ops (snd (srun store0 ops)) in
  run_ok [] xs = true ->
  view s = ref_run [] xs /\ Dense (view s) /\ next_frame_id s = len (view s) /\
  (pending s = [] -> committed s = ref_run [] xs).
Proof.
  intros s xs Hok.
  pose proof (srun_refines ops store0 [] J_store0 Hok) as HJ. fold s xs in HJ.
  pose proof (srun_K ops store0 K_store0) as HK. fold s in HK.
  pose proof (J_view _ _ HJ) as HV.
  split; [exact HV|]. split; [rewrite HV; apply Dense_ref_run, Dense_nil|].
  split; [rewrite HV; apply next_frame_id_is_view_length; assumption|].
  intros Hp. rewrite <- (quiescent_committed s Hp). exact HV.
Qed.

Lemma ref_run_app fr xs ys : ref_run fr (xs ++ ys) = ref_run (ref_run fr xs) ys.
Proof. apply fold_left_app. Qed.

Theorem ids_stable fr xs ys : Extends (ref_run fr xs) (ref_run fr (xs ++ ys)).
Proof. rewrite ref_run_app. apply Extends_ref_run. Qed.
