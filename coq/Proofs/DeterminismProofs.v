(* Proofs for C23: noninterference of the oracle streams with the logical state, soundness of the
   byte-class tagging, the segment files hold the engine's documents as a set, witnesses of the flows. *)
From MV Require Import Base.Prelude Model.Store Model.StoreSpec Model.Reads Model.Determinism.
From Coq Require Import Permutation.
Local Open Scope N_scope.

(* ---------- the logical machine sees an oracle only through implicit timestamps ---------- *)
Lemma core_explicit : forall o1 o2 c d, explicit_op d = true -> core o1 c d = core o2 c d.
Proof.
  intros o1 o2 c d E. destruct d as [op ts text emb inst | k cr | op ts nc]; simpl in *.
  - destruct op; simpl in *; try reflexivity. destruct ts; [reflexivity | discriminate].
  - destruct cr; [reflexivity | discriminate].
  - destruct ts; [reflexivity | discriminate].
Qed.

Section TwoRuns.
  Variables o1 o2 : oracle.

  Definition As : Prop := agree SegId o1 o2 /\ agree Sched o1 o2.
  Definition An : Prop := agree Now o1 o2.

  (* what two executions of the same explicit history share in their physical state *)
  Definition prel (p1 p2 : pstate) : Prop :=
    p_nowc p1 = p_nowc p2 /\ p_fl p1 = p_fl p2 /\
    (As -> p_lex p1 = p_lex p2 /\ p_stale p1 = p_stale p2) /\
    (An -> p_scre p1 = p_scre p2 /\ p_pscre p1 = p_pscre p2) /\
    (As -> An -> p_log p1 = p_log p2) /\
    frame_recs_masked (p_log p1) = frame_recs_masked (p_log p2).

  Lemma prel_refl : forall p, prel p p.
  Proof. intro p. unfold prel. repeat split; reflexivity. Qed.

  Lemma lex_image_agree : As -> forall i docs, lex_image o1 i docs = lex_image o2 i docs.
  Proof.
    intros [Hs Hc] i docs. unfold lex_image. unfold agree in Hs, Hc. simpl in Hs, Hc.
    rewrite (Hc i), (Hs (2 * i)%nat), (Hs (2 * i + 1)%nat). reflexivity.
  Qed.

  Lemma op_imgs_agree : As -> forall p1 p2 c l', p_fl p1 = p_fl p2 -> op_imgs o1 p1 c l' = op_imgs o2 p2 c l'.
  Proof.
    intros HA p1 p2 c l' E. unfold op_imgs. rewrite E. apply map_ext. intro j. apply lex_image_agree. exact HA.
  Qed.

  Lemma op_recs_agree : An -> forall p1 p2 d c out, p_nowc p1 = p_nowc p2 -> op_recs o1 p1 d c out = op_recs o2 p2 d c out.
  Proof.
    intros HN p1 p2 d c out E. unfold op_recs, op_cursor. rewrite E. unfold An, agree in HN. simpl in HN.
    rewrite (HN (p_nowc p2 + ts_draws d)%nat). reflexivity.
  Qed.

  Lemma op_newcre_agree : An -> forall p1 p2 d out, p_nowc p1 = p_nowc p2 -> op_newcre o1 p1 d out = op_newcre o2 p2 d out.
  Proof.
    intros HN p1 p2 d out E. unfold op_newcre, op_cursor. rewrite E. destruct d; try reflexivity.
    destruct (acked out && (0 <? ncards)); [| reflexivity]. apply map_ext. intro k. apply HN.
  Qed.

  Lemma frame_recs_masked_app : forall a b, frame_recs_masked (a ++ b) = frame_recs_masked a ++ frame_recs_masked b.
  Proof. intros a b. unfold frame_recs_masked. rewrite filter_app, map_app. reflexivity. Qed.

  Lemma frame_recs_masked_lex : forall (imgs : list limage), frame_recs_masked (map (fun img => 3 :: flat_img img) imgs) = [].
  Proof. induction imgs as [| x r IH]; [reflexivity | exact IH]. Qed.

  (* the records of one call, masked, do not depend on the oracle *)
  Lemma op_recs_masked : forall p1 p2 d c out, p_nowc p1 = p_nowc p2 ->
      frame_recs_masked (op_recs o1 p1 d c out) = frame_recs_masked (op_recs o2 p2 d c out).
  Proof.
    intros p1 p2 d c out E. unfold op_recs, op_cursor. rewrite E.
    destruct (rop_of_cop c) as [r |]; [| reflexivity]. destruct (acked out); [| reflexivity].
    destruct r; reflexivity.
  Qed.

  Lemma pstep_rel : forall p1 p2 d c l l' out, prel p1 p2 ->
      prel (pstep o1 p1 d c l l' out) (pstep o2 p2 d c l l' out).
  Proof.
    intros p1 p2 d c l l' out (Hn & Hf & Hlex & Hcre & Hlog & Hfr). unfold prel, pstep. cbn [p_nowc p_fl p_log p_lex p_stale p_scre p_pscre].
    split; [unfold op_cursor; rewrite Hn; reflexivity |].
    split; [rewrite Hf; reflexivity |].
    split.
    { intro HA. destruct (Hlex HA) as [E1 E2]. rewrite (op_imgs_agree HA p1 p2 c l' Hf), E1, E2. split; reflexivity. }
    split.
    { intro HN. destruct (Hcre HN) as [E1 E2]. rewrite E1, E2, (op_newcre_agree HN p1 p2 d out Hn). split; reflexivity. }
    split.
    { intros HA HN. rewrite (Hlog HA HN), (op_imgs_agree HA p1 p2 c l' Hf), (op_recs_agree HN p1 p2 d c out Hn). reflexivity. }
    rewrite !frame_recs_masked_app, !frame_recs_masked_lex, !app_nil_r, Hfr, (op_recs_masked p1 p2 d c out Hn). reflexivity.
  Qed.

  Lemma dstep_rel : forall d l p1 p2, explicit_op d = true -> prel p1 p2 ->
      fst (fst (dstep o1 (l, p1) d)) = fst (fst (dstep o2 (l, p2) d)) /\
      snd (dstep o1 (l, p1) d) = snd (dstep o2 (l, p2) d) /\
      prel (snd (fst (dstep o1 (l, p1) d))) (snd (fst (dstep o2 (l, p2) d))).
  Proof.
    intros d l p1 p2 E R. unfold dstep.
    assert (Hn : p_nowc p1 = p_nowc p2) by (destruct R as [Hn _]; exact Hn).
    rewrite Hn, (core_explicit o1 o2 (p_nowc p2) d E).
    destruct (lstep l (core o2 (p_nowc p2) d)) as [l' out]. cbn [fst snd].
    split; [reflexivity |]. split; [reflexivity |]. apply pstep_rel. exact R.
  Qed.

  Lemma drun_rel : forall h l p1 p2, explicit h = true -> prel p1 p2 ->
      fst (fst (drun o1 (l, p1) h)) = fst (fst (drun o2 (l, p2) h)) /\
      snd (drun o1 (l, p1) h) = snd (drun o2 (l, p2) h) /\
      prel (snd (fst (drun o1 (l, p1) h))) (snd (fst (drun o2 (l, p2) h))).
  Proof.
    induction h as [| d h IH]; intros l p1 p2 E R.
    - cbn. split; [reflexivity |]. split; [reflexivity | exact R].
    - unfold explicit in E. cbn [forallb] in E. apply andb_true_iff in E. destruct E as [Ed Eh].
      destruct (dstep_rel d l p1 p2 Ed R) as (HL & HO & HP).
      cbn [drun].
      destruct (dstep o1 (l, p1) d) as [[l1 q1] out1]. destruct (dstep o2 (l, p2) d) as [[l2 q2] out2].
      cbn [fst snd] in HL, HO, HP. subst l2 out2.
      specialize (IH l1 q1 q2 Eh HP). destruct IH as (IL & IO & IP).
      destruct (drun o1 (l1, q1) h) as [st1 outs1]. destruct (drun o2 (l1, q2) h) as [st2 outs2].
      cbn [fst snd] in *. split; [exact IL |]. split; [rewrite IO; reflexivity | exact IP].
  Qed.

  (* noninterference: no oracle stream reaches the logical state or the results of the calls *)
  Theorem logical_noninterference : forall h, explicit h = true ->
      logical (fst (drun o1 dstate0 h)) = logical (fst (drun o2 dstate0 h)) /\
      snd (drun o1 dstate0 h) = snd (drun o2 dstate0 h).
  Proof.
    intros h E. destruct (drun_rel h lstate0 pstate0 pstate0 E (prel_refl _)) as (HL & HO & _).
    split; [exact HL | exact HO].
  Qed.

  (* soundness of the byte-class tagging *)
  Theorem region_tag_sound : forall H c h, explicit h = true -> agree_on (deps c) o1 o2 ->
      region H c (fst (drun o1 dstate0 h)) = region H c (fst (drun o2 dstate0 h)).
  Proof.
    intros H c h E AG.
    destruct (drun_rel h lstate0 pstate0 pstate0 E (prel_refl _)) as (HL & _ & HP).
    unfold dstate0 in *.
    destruct (fst (drun o1 (lstate0, pstate0) h)) as [l1 q1]. destruct (fst (drun o2 (lstate0, pstate0) h)) as [l2 q2].
    cbn [fst snd] in HL, HP. subst l2. destruct HP as (Hn & Hf & Hlex & Hcre & Hlog & Hfr).
    assert (SEG : In SegId (deps c) -> In Sched (deps c) -> p_lex q1 = p_lex q2 /\ p_stale q1 = p_stale q2).
    { intros I1 I2. apply Hlex. split; apply AG; assumption. }
    assert (NOW : In Now (deps c) -> p_scre q1 = p_scre q2 /\ p_pscre q1 = p_pscre q2).
    { intro I1. apply Hcre. apply AG; assumption. }
    assert (LOG : In SegId (deps c) -> In Sched (deps c) -> In Now (deps c) -> p_log q1 = p_log q2).
    { intros I1 I2 I3. apply Hlog; [split |]; apply AG; assumption. }
    destruct c; cbn [deps] in SEG, NOW, LOG; cbn [region];
      unfold r_toc, r_payloads, r_stale, r_tix, r_lex, r_vec, r_mem, mem_len, r_sketch, r_log, frames_of, attrs_of; cbn [fst snd];
      try reflexivity.
    - (* HdrFooterOffset *) destruct SEG as [E1 E2]; [left; reflexivity | right; left; reflexivity |]. rewrite E1, E2. reflexivity.
    - (* HdrLogPos *) rewrite LOG; [reflexivity | left; reflexivity | right; left; reflexivity | right; right; left; reflexivity].
    - (* HdrTocSum *) destruct SEG as [E1 E2]; [left; reflexivity | right; left; reflexivity |]. rewrite E1, E2. reflexivity.
    - (* LogRegion *) rewrite LOG; [reflexivity | left; reflexivity | right; left; reflexivity | right; right; left; reflexivity].
    - (* LexSegments *) destruct SEG as [E1 E2]; [left; reflexivity | right; left; reflexivity |]. rewrite E1. reflexivity.
    - (* MemoriesTrack *) destruct NOW as [E1 E2]; [left; reflexivity |]. rewrite E1. reflexivity.
    - (* Unreferenced *) destruct SEG as [E1 E2]; [left; reflexivity | right; left; reflexivity |]. rewrite E2. reflexivity.
    - (* TocRegion *) destruct SEG as [E1 E2]; [left; reflexivity | right; left; reflexivity |]. rewrite E1, E2. reflexivity.
    - (* FooterLenHash *) destruct SEG as [E1 E2]; [left; reflexivity | right; left; reflexivity |]. rewrite E1, E2. reflexivity.
    - (* FooterMagicGen *) rewrite Hf. reflexivity.
    - (* LogFrameRecords *) rewrite Hfr. reflexivity.
  Qed.
End TwoRuns.

(* region classes outside the known class are byte-identical for ALL pairs of oracle streams *)
Theorem bytes_outside_known : forall H c h o1 o2, explicit h = true -> known_class c = false ->
    region H c (fst (drun o1 dstate0 h)) = region H c (fst (drun o2 dstate0 h)).
Proof.
  intros H c h o1 o2 E K. apply region_tag_sound; [exact E |].
  unfold known_class in K. destruct (deps c) eqn:D; [| discriminate]. intros s [].
Qed.

(* temp names and hash-set order flow into no region: the whole image is a function of SegId, Sched, Now *)
Theorem tmp_and_hash_order_flow_nowhere : forall H h o1 o2, explicit h = true ->
    agree SegId o1 o2 -> agree Sched o1 o2 -> agree Now o1 o2 ->
    forall c, region H c (fst (drun o1 dstate0 h)) = region H c (fst (drun o2 dstate0 h)).
Proof.
  intros H h o1 o2 E A1 A2 A3 c. apply region_tag_sound; [exact E |].
  intros s I. destruct c; cbn [deps] in I;
    repeat (destruct I as [I | I]; [subst s; assumption |]); destruct I.
Qed.

(* ---------- the embedded segment files hold the engine's documents, as a set ---------- *)
Lemma concat_groups : forall (a b : N) (g1 g2 : list N),
    concat (map snd ((match g1 with [] => [] | _ => [(a, g1)] end) ++ (match g2 with [] => [] | _ => [(b, g2)] end))) = g1 ++ g2.
Proof. intros a b g1 g2. destruct g1, g2; cbn; rewrite ?app_nil_r; reflexivity. Qed.

Lemma seg_docs_lex_image : forall o i docs, Permutation (seg_docs (lex_image o i docs)) docs.
Proof.
  intros o i docs. unfold seg_docs, lex_image. cbn [tl]. rewrite concat_groups.
  set (cut := N.to_nat (o_sched o i mod (N.of_nat (length docs) + 1))).
  rewrite <- (firstn_skipn cut docs) at 3. apply Permutation_app_comm.
Qed.

Lemma last_map_seq : forall {A} (f : nat -> A) n a d, last (map f (seq a (S n))) d = f (a + n)%nat.
Proof.
  intros A f n. induction n as [| n IH]; intros a d.
  - cbn. rewrite Nat.add_0_r. reflexivity.
  - change (seq a (S (S n))) with (a :: seq (S a) (S n)). cbn [map].
    change (last (f a :: map f (seq (S a) (S n))) d) with (last (map f (seq (S a) (S n))) d).
    rewrite IH. f_equal. lia.
Qed.

(* after every call that flushed the engine, the files the lex manifest points to hold exactly the
   engine's documents (Model/Reads.v lex), in an order and a grouping chosen by the oracle *)
Theorem flush_holds_lex_docs : forall o l p d,
    let c := core o (p_nowc p) d in
    (0 < op_flushes c)%nat ->
    Permutation (seg_docs (p_lex (pstep o p d c l (fst (lstep l c)) (snd (lstep l c)))))
                (lex (l_rs (fst (lstep l c)))).
Proof.
  intros o l p d c F. unfold pstep. cbn [p_lex]. unfold cur_img, op_imgs.
  destruct (op_flushes c) as [| n]; [lia |].
  rewrite last_map_seq. apply seg_docs_lex_image.
Qed.

(* ---------- the read side: the frame filter's hash-set order ---------- *)
Lemma rotate_perm : forall {A} k (l : list A), Permutation (rotate k l) l.
Proof.
  intros A k l. unfold rotate. eapply Permutation_trans; [apply Permutation_app_comm |]. rewrite firstn_skipn. reflexivity.
Qed.

Section Engine.
  Variable query : Type.
  (* Tantivy: segment layout, optional frame filter, query -> ranked document ids *)
  Variable engine : list (list N) -> option (list N) -> query -> list N.
  (* assumed of the engine: the ranking depends on the documents and on the filter as SETS, not on
     how the documents are spread over segment files nor on the order of the filter's ids *)
  Hypothesis engine_set_semantics : forall s1 s2 f1 f2 q,
      Permutation (concat s1) (concat s2) -> Permutation f1 f2 ->
      engine s1 (Some f1) q = engine s2 (Some f2) q.

  Theorem filtered_search_noninterference : forall o1 o2 i1 i2 k1 k2 docs filter q,
      engine (map snd (tl (lex_image o1 i1 docs))) (Some (hashed_filter o1 k1 filter)) q =
      engine (map snd (tl (lex_image o2 i2 docs))) (Some (hashed_filter o2 k2 filter)) q.
  Proof.
    intros. apply engine_set_semantics.
    - change (Permutation (seg_docs (lex_image o1 i1 docs)) (seg_docs (lex_image o2 i2 docs))).
      rewrite !seg_docs_lex_image. reflexivity.
    - unfold hashed_filter. rewrite !rotate_perm. reflexivity.
  Qed.
End Engine.

(* ---------- find_sketch_candidates is an observation of the logical state ---------- *)
Theorem sketch_candidates_noninterference :
  forall (query : Type) (score : N -> query -> N -> option N) (o1 o2 : oracle) (h : list dop), explicit h = true ->
    forall q thr max,
      sketch_candidates query score (fst (drun o1 dstate0 h)) q thr max =
      sketch_candidates query score (fst (drun o2 dstate0 h)) q thr max.
Proof.
  intros query score o1 o2 h E q thr max.
  destruct (logical_noninterference o1 o2 h E) as [HL _]. unfold logical in HL.
  destruct (fst (drun o1 dstate0 h)) as [l1 p1]. destruct (fst (drun o2 dstate0 h)) as [l2 p2].
  cbn [fst] in HL. subst l2.
  unfold sketch_candidates, sketch_entries, tag_of, r_sketch, frames_of, attrs_of. cbn [fst]. reflexivity.
Qed.

(* ---------- witnesses ---------- *)
Definition put1 : dop := DStore (OPut None 1000 0 0 None) (Some 1700000000) true None false.
Definition put2 : dop := DStore (OPut (Some 1) 2000 0 0 None) (Some 1700000100) true (Some 5) false.
Definition commit1 : dop := DStore (OCommit 1) None false None false.
Definition delete0 : dop := DStore (ODelete 0 None) None false None false.

Definition h_bytes : list dop := [put1; put2; commit1].
Definition h_tomb : list dop := [put1; put2; commit1; delete0; commit1].
Definition h_implicit : list dop := [DStore (OPut None 1000 0 0 None) None true None false; commit1].
Definition h_cards : list dop :=
  [DCard 1 (Some 1700000005); DSentence (OPut None 500001 0 0 None) (Some 1700000200) 2; commit1].

Definition oA : oracle := mkO (fun k => 100 + N.of_nat k) (fun _ => 0) (fun k => 1800000000 + N.of_nat k) (fun _ => 0) (fun _ => 0).
Definition oB : oracle := mkO (fun k => 200 + N.of_nat k) (fun _ => 1) (fun k => 1800000000 + N.of_nat k) (fun k => N.of_nat k) (fun k => 7 + N.of_nat k).
(* as oA but a later clock *)
Definition oC : oracle := mkO (fun k => 100 + N.of_nat k) (fun _ => 0) (fun k => 1900000000 + N.of_nat k) (fun _ => 0) (fun _ => 0).

Definition differing (H : list N -> N) (h : list dop) (o1 o2 : oracle) : list N :=
  map rclass_code (filter (fun c => negb (list_eqb N.eqb (region H c (fst (drun o1 dstate0 h))) (region H c (fst (drun o2 dstate0 h))))) all_classes).

(* three frames with the same index text (same content tag), committed: every score ties *)
Definition tied_put (ts : N) : dop := DStore (OPut None 600000 0 0 None) (Some ts) true None false.
Definition h_tied : list dop := [tied_put 1700000000; tied_put 1700000100; tied_put 1700000200; commit1].
Definition all_tie (tag : N) (q : unit) (thr : N) : option N := Some 5.
Definition oH (k : N) : oracle := mkO (fun _ => 1) (fun _ => 0) (fun _ => 5) (fun _ => k) (fun _ => 0).

(* the code's scan (frame order) gives one answer whatever the oracle; a scan in hash-map order would let
   HashOrd flow into the answer: its order, and once max_candidates cuts through the tie, its set *)
Lemma hashed_scan_would_flow :
  sketch_candidates unit all_tie (fst (drun (oH 0) dstate0 h_tied)) tt 10 2 = [(0, 5); (1, 5)] /\
  sketch_candidates unit all_tie (fst (drun (oH 1) dstate0 h_tied)) tt 10 2 = [(0, 5); (1, 5)] /\
  sketch_candidates_hashed unit all_tie (oH 0) 0 (fst (drun (oH 0) dstate0 h_tied)) tt 10 2 = [(0, 5); (1, 5)] /\
  sketch_candidates_hashed unit all_tie (oH 1) 0 (fst (drun (oH 1) dstate0 h_tied)) tt 10 2 = [(1, 5); (2, 5)].
Proof. vm_compute. repeat split. Qed.

(* byte identity fails: two oracle streams give different TOC images (for every hash function) *)
Lemma bytes_refuted : exists h o1 o2, explicit h = true /\
    forall H, region H TocRegion (fst (drun o1 dstate0 h)) <> region H TocRegion (fst (drun o2 dstate0 h)).
Proof. exists h_bytes, oA, oB. split; [reflexivity |]. intro H. vm_compute. discriminate. Qed.

(* exactly which classes differ on that witness: header checksum, log (lex batch), segment files, TOC, footer hash
   (positions too, because oB also cuts the documents into two files) *)
Lemma bytes_refuted_classes : differing toyH h_bytes oA oB = [1; 2; 3; 5; 8; 14; 15].
Proof. vm_compute. reflexivity. Qed.

(* a tombstone's timestamp carries `now`: same segment ids and scheduling, a later clock: only the log differs *)
Lemma tombstone_carries_now : explicit h_tomb = true /\ differing toyH h_tomb oA oC = [5].
Proof. split; vm_compute; reflexivity. Qed.

(* extracted cards carry `now` into the memories track (and the explicit card does not) *)
Lemma extracted_cards_carry_now : explicit h_cards = true /\ differing toyH h_cards oA oC = [10].
Proof. split; vm_compute; reflexivity. Qed.

(* the hypothesis `explicit` is needed: an implicit timestamp flows into the time index (logical state) *)
Lemma implicit_timestamp_flows : explicit h_implicit = false /\
    region toyH TimeIndex (fst (drun oA dstate0 h_implicit)) <> region toyH TimeIndex (fst (drun oC dstate0 h_implicit)).
Proof. split; [reflexivity |]. vm_compute. discriminate. Qed.
