(* Proofs about Model/Detect.v (C20). *)
From MV Require Import Base.Prelude Base.Facts Model.Footer Model.TimeIndex Model.Wal Model.Bincode Model.Toc Model.Detect.
From MV Require Import Proofs.FooterProofs Proofs.TocProofs.
Require Import ZifyBool ZifyNat ZifyN.
Local Open Scope N_scope.

(* ------------------------------------------------------------------ arithmetic / list facts *)
  Lemma validate_ok_range ctx file_len fr :
    validate_frame_bounds ctx file_len fr = Ok tt ->
    f_len fr = 0 \/ f_off fr + f_len fr <= file_len.
  Proof.
    unfold validate_frame_bounds. destruct ctx as [[wo ws] de].
    destruct (f_len fr =? 0) eqn:E0; [left; apply N.eqb_eq; exact E0|].
    destruct (MAX_FRAME_BYTES <? f_len fr); [discriminate|].
    destruct (2 ^ 64 <=? wo + ws); [discriminate|].
    destruct (f_off fr <? wo + ws); [discriminate|].
    destruct (2 ^ 64 <=? f_off fr + f_len fr); [discriminate|].
    destruct (de <? f_off fr + f_len fr); [discriminate|].
    destruct (file_len <? f_off fr + f_len fr) eqn:E; [discriminate|].
    intros _. right. apply N.ltb_ge in E. exact E.
  Qed.

  Lemma raw_slice_length (file : bytes) fr :
    f_len fr = 0 \/ f_off fr + f_len fr <= N.of_nat (length file) ->
    N.of_nat (length (slice file (N.to_nat (f_off fr)) (N.to_nat (f_len fr)))) = f_len fr.
  Proof.
    intros [E | E].
    - rewrite E. unfold slice. cbn [N.to_nat firstn length]. reflexivity.
    - rewrite slice_length by lia. lia.
  Qed.

  Lemma slice_before {A} (pre x : list A) off len :
    (off + len <= length pre)%nat -> slice (pre ++ x) off len = slice pre off len.
  Proof.
    intros Hle. unfold slice. rewrite skipn_app.
    replace (off - length pre)%nat with 0%nat by lia. cbn [skipn].
    rewrite firstn_app. rewrite skipn_length.
    replace (len - (length pre - off))%nat with 0%nat by lia. cbn [firstn]. apply app_nil_r.
  Qed.

  Lemma skipn_after {A} (pre mid post : list A) off :
    (length pre + length mid <= off)%nat ->
    skipn off (pre ++ mid ++ post) = skipn (off - length pre - length mid) post.
  Proof.
    intros Hle. rewrite skipn_app. rewrite (skipn_all2 pre) by lia. cbn [app].
    rewrite skipn_app. rewrite (skipn_all2 mid) by lia. reflexivity.
  Qed.

  Lemma slice_outside (pre mid mid' post : bytes) (r : N * N) :
    length mid' = length mid ->
    range_outside (N.of_nat (length pre)) (N.of_nat (length pre + length mid)) r = true ->
    slice (pre ++ mid' ++ post) (N.to_nat (fst r)) (N.to_nat (snd r)) =
    slice (pre ++ mid ++ post) (N.to_nat (fst r)) (N.to_nat (snd r)).
  Proof.
    intros Hl Ho. unfold range_outside in Ho. apply orb_true_iff in Ho. destruct Ho as [Ho | Ho].
    - apply N.leb_le in Ho. rewrite !slice_before by lia. reflexivity.
    - apply N.leb_le in Ho. unfold slice. rewrite !skipn_after by lia. rewrite Hl. reflexivity.
  Qed.

(* ------------------------------------------------------------------ hash guards *)
Section GuardProofs.
  Variable H : bytes -> bytes.

  Lemma guard_check_true c d : guard_check H c d = true <-> H c = d.
  Proof. unfold guard_check. apply bytes_eqb_spec. Qed.

  (* a fault that touches the content or the stored digest but not both (every single-byte
     flip; every zeroing or truncation that stays inside one of the two fields) *)
  Lemma hash_guard_single_field c d c' d' :
    guard_check H c d = true -> guard_check H c' d' = true ->
    (c' = c \/ d' = d) -> (H c' = H c -> c' = c) ->
    c' = c /\ d' = d.
  Proof.
    intros Hc Hc' Hone Hcf. apply guard_check_true in Hc, Hc'.
    destruct Hone as [-> | ->].
    - split; [reflexivity | congruence].
    - split; [apply Hcf; congruence | reflexivity].
  Qed.

  (* any fault, provided the new digest field is not, by accident, the digest of the new content *)
  Lemma hash_guard_general c d c' d' :
    guard_check H c d = true -> guard_check H c' d' = true ->
    (H c' = H c -> c' = c) -> (d' <> d -> H c' <> d') ->
    c' = c /\ d' = d.
  Proof.
    intros Hc Hc' Hcf Hnf. apply guard_check_true in Hc, Hc'.
    destruct (list_eq_dec N.eq_dec d' d) as [-> | Hne].
    - split; [apply Hcf; congruence | reflexivity].
    - exfalso. exact (Hnf Hne Hc').
  Qed.

  (* ---- read_toc *)
  Lemma read_toc_layout pre toc foot off t :
    N.of_nat (length pre) = off -> length foot = FOOTER_SIZE ->
    read_toc H (pre ++ toc ++ foot) off = Ok t ->
    t = toc /\ exists f, footer_decode foot = Some f /\ H toc = toc_hash f /\ N.of_nat (length toc) = toc_len f.
  Proof.
    intros Hoff Hfoot. unfold read_toc.
    destruct (N.of_nat (length (pre ++ toc ++ foot)) <? off); [discriminate|].
    destruct (MAX_INDEX_BYTES <? _); [discriminate|].
    destruct (_ <? N.of_nat FOOTER_SIZE); [discriminate|].
    assert (Hskip : skipn (N.to_nat off) (pre ++ toc ++ foot) = toc ++ foot).
    { rewrite <- Hoff, Nat2N.id. rewrite skipn_app, skipn_all, Nat.sub_diag. reflexivity. }
    rewrite Hskip.
    assert (Hfs : (length (toc ++ foot) - FOOTER_SIZE)%nat = length toc) by (rewrite app_length; lia).
    rewrite Hfs.
    rewrite skipn_app, skipn_all, Nat.sub_diag. cbn [skipn app].
    rewrite firstn_app, firstn_all, Nat.sub_diag. cbn [firstn]. rewrite app_nil_r.
    destruct (footer_decode foot) as [f|] eqn:Hdec; [|discriminate].
    destruct (negb (N.of_nat (length toc) =? toc_len f)) eqn:Hlen; [discriminate|].
    destruct (negb (hash_matches H f toc)) eqn:Hh; [discriminate|].
    intros E; inversion E; subst t. split; [reflexivity|].
    exists f. repeat split.
    - apply negb_false_iff in Hh. unfold hash_matches in Hh. apply bytes_eqb_spec in Hh. exact Hh.
    - apply negb_false_iff in Hlen. apply N.eqb_eq in Hlen. exact Hlen.
  Qed.

  (* the clean file: pre ++ toc ++ footer(f) with f describing toc.  A faulted file of the same
     layout in which the TOC bytes or the footer, but not both, were changed: read_toc answers
     Ok only with the original TOC bytes. *)
  Theorem read_toc_detects pre' toc toc' f foot' off t :
    (toc_len f < 2 ^ 64) -> (generation f < 2 ^ 64) -> length (toc_hash f) = 32%nat ->
    toc_hash f = H toc ->
    N.of_nat (length pre') = off -> length foot' = FOOTER_SIZE ->
    (toc' = toc \/ foot' = footer_encode f) ->
    (H toc' = H toc -> toc' = toc) ->
    read_toc H (pre' ++ toc' ++ foot') off = Ok t ->
    t = toc /\ toc' = toc.
  Proof.
    intros Hl Hg Hh Hsum Hoff Hfoot Hone Hcf Hr.
    destruct (read_toc_layout _ _ _ _ _ Hoff Hfoot Hr) as [-> [f' [Hdec [Hhash _]]]].
    destruct Hone as [-> | ->]; [split; reflexivity|].
    rewrite (footer_decode_encode f Hl Hg Hh) in Hdec. inversion Hdec; subst f'.
    assert (toc' = toc) by (apply Hcf; congruence). subst. split; reflexivity.
  Qed.

  (* any fault on TOC bytes + footer that keeps the layout, under the no-forgery hypothesis *)
  Theorem read_toc_detects_general pre' toc toc' f foot' off t :
    toc_hash f = H toc ->
    N.of_nat (length pre') = off -> length foot' = FOOTER_SIZE ->
    (H toc' = H toc -> toc' = toc) ->
    (forall f', footer_decode foot' = Some f' -> toc_hash f' <> toc_hash f -> H toc' <> toc_hash f') ->
    read_toc H (pre' ++ toc' ++ foot') off = Ok t ->
    t = toc.
  Proof.
    intros Hsum Hoff Hfoot Hcf Hnf Hr.
    destruct (read_toc_layout _ _ _ _ _ Hoff Hfoot Hr) as [-> [f' [Hdec [Hhash _]]]].
    destruct (list_eq_dec N.eq_dec (toc_hash f') (toc_hash f)) as [E | Hne].
    - apply Hcf. congruence.
    - exfalso. exact (Hnf f' Hdec Hne Hhash).
  Qed.

  (* ---- memories / mesh track *)
  Lemma load_track_ok_inv file off len sum b :
    load_track H file off len sum = Ok b -> b = slice file (N.to_nat off) (N.to_nat len) /\ H b = sum.
  Proof.
    unfold load_track. destruct (MAX_INDEX_BYTES <? len); [discriminate|].
    destruct (negb (Nat.eqb _ _)); [discriminate|].
    destruct (negb (guard_check H _ sum)) eqn:Hg; [discriminate|].
    intros E; inversion E; subst b. split; [reflexivity|].
    apply negb_false_iff in Hg. apply guard_check_true in Hg. exact Hg.
  Qed.

  Theorem load_track_detects file file' off len sum b b' :
    load_track H file off len sum = Ok b -> load_track H file' off len sum = Ok b' ->
    (H b' = H b -> b' = b) -> b' = b.
  Proof.
    intros H1 H2 Hcf. apply load_track_ok_inv in H1, H2. destruct H1 as [_ H1], H2 as [_ H2].
    apply Hcf. congruence.
  Qed.

  (* ---- frames *)
  Variable unzstd : bytes -> option bytes.



  (* a plain frame: whatever bytes lie in its range are served (no comparison with anything) *)
  Theorem plain_payload_served ctx (file file' : bytes) fr :
    length file' = length file ->
    validate_frame_bounds ctx (N.of_nat (length file)) fr = Ok tt ->
    f_zstd fr = false -> (f_canon_len fr = Some (f_len fr) \/ f_canon_len fr = None) ->
    frame_canonical_bytes unzstd ctx file' fr = Ok (slice file' (N.to_nat (f_off fr)) (N.to_nat (f_len fr))).
  Proof using Type.
    intros Hlen Hv Hz Hc. unfold frame_canonical_bytes. rewrite Hlen, Hv.
    unfold decode_canonical. rewrite Hz. unfold check_canon_len.
    destruct Hc as [-> | ->]; [|reflexivity].
    rewrite raw_slice_length; [rewrite N.eqb_refl; reflexivity|].
    rewrite Hlen. apply (validate_ok_range _ _ _ Hv).
  Qed.

  (* a zstd frame: whatever the decoder makes of the bytes is served, if it has the recorded length *)
  Theorem zstd_payload_served ctx (file' : bytes) fr d :
    validate_frame_bounds ctx (N.of_nat (length file')) fr = Ok tt ->
    f_zstd fr = true ->
    unzstd (slice file' (N.to_nat (f_off fr)) (N.to_nat (f_len fr))) = Some d ->
    (f_canon_len fr = Some (N.of_nat (length d)) \/ f_canon_len fr = None) ->
    frame_canonical_bytes unzstd ctx file' fr = Ok d.
  Proof.
    intros Hv Hz Hd Hc. unfold frame_canonical_bytes. rewrite Hv.
    unfold decode_canonical. rewrite Hz, Hd. unfold check_canon_len.
    destruct Hc as [-> | ->]; [rewrite N.eqb_refl|]; reflexivity.
  Qed.

  Lemma fixed_ok_inv ctx file fr d :
    frame_canonical_bytes_fixed H unzstd ctx file fr = Ok d ->
    H (slice file (N.to_nat (f_off fr)) (N.to_nat (f_len fr))) = f_checksum fr /\
    match decode_canonical unzstd fr (slice file (N.to_nat (f_off fr)) (N.to_nat (f_len fr))) with
    | Ok decoded => check_canon_len fr decoded
    | e => e
    end = Ok d.
  Proof.
    unfold frame_canonical_bytes_fixed.
    destruct (validate_frame_bounds ctx _ fr); [|discriminate|discriminate].
    destruct (negb (guard_check H _ (f_checksum fr))) eqn:Hg; [discriminate|].
    intros E. split; [|exact E].
    apply negb_false_iff in Hg. apply guard_check_true in Hg. exact Hg.
  Qed.

  (* the repaired read: two files on which the same frame reads without error give the same data *)
  Theorem fixed_payload_detects ctx file file' fr d d' :
    frame_canonical_bytes_fixed H unzstd ctx file fr = Ok d ->
    frame_canonical_bytes_fixed H unzstd ctx file' fr = Ok d' ->
    (forall x y, H x = H y -> x = y) ->
    d' = d.
  Proof.
    intros H1 H2 Hcf. apply fixed_ok_inv in H1, H2. destruct H1 as [S1 D1], H2 as [S2 D2].
    assert (E : slice file' (N.to_nat (f_off fr)) (N.to_nat (f_len fr)) = slice file (N.to_nat (f_off fr)) (N.to_nat (f_len fr)))
      by (apply Hcf; congruence).
    rewrite E in D2. congruence.
  Qed.

  (* the repaired read never serves what the unrepaired one would not *)
  Theorem fixed_refines ctx file fr d :
    frame_canonical_bytes_fixed H unzstd ctx file fr = Ok d -> frame_canonical_bytes unzstd ctx file fr = Ok d.
  Proof.
    unfold frame_canonical_bytes_fixed, frame_canonical_bytes.
    destruct (validate_frame_bounds ctx _ fr); [|discriminate|discriminate].
    destruct (negb (guard_check H _ (f_checksum fr))); [discriminate|]. auto.
  Qed.

  (* ---- verify *)
  Lemma verify_passed_iff deep s :
    verify_overall deep s = Passed <-> forall c, In c (verify_checks deep s) -> c <> Failed.
  Proof.
    unfold verify_overall. destruct (existsb is_failed (verify_checks deep s)) eqn:E.
    - split; [discriminate|]. intros Hall. apply existsb_exists in E. destruct E as [c [Hin Hf]].
      destruct c; try discriminate. exfalso. exact (Hall Failed Hin eq_refl).
    - split; [|reflexivity]. intros _ c Hin ->.
      assert (existsb is_failed (verify_checks deep s) = true) by (apply existsb_exists; exists Failed; split; [exact Hin | reflexivity]).
      congruence.
  Qed.

  Lemma verify_fixed_passed ctx file frames s :
    verify_overall_fixed H unzstd ctx file frames s = Passed ->
    verify_overall true s = Passed /\
    forall fr, In fr frames -> exists d, frame_canonical_bytes_fixed H unzstd ctx file fr = Ok d.
  Proof.
    unfold verify_overall_fixed, verify_overall. rewrite existsb_app. cbn [existsb].
    destruct (existsb is_failed (verify_checks true s)); [discriminate|]. cbn [orb].
    unfold frames_check.
    destruct (forallb _ frames) eqn:E; [|discriminate]. intros _. split; [reflexivity|].
    intros fr Hin. rewrite forallb_forall in E. specialize (E fr Hin).
    destruct (frame_canonical_bytes_fixed H unzstd ctx file fr) as [d| |]; [exists d; reflexivity|discriminate|discriminate].
  Qed.

  Corollary fixed_verify_detects ctx file file' frames s fr d :
    (forall x y, H x = H y -> x = y) ->
    verify_overall_fixed H unzstd ctx file' frames s = Passed -> In fr frames ->
    frame_canonical_bytes_fixed H unzstd ctx file fr = Ok d ->
    frame_canonical_bytes_fixed H unzstd ctx file' fr = Ok d.
  Proof.
    intros Hcf Hv Hin Hd. destruct (verify_fixed_passed _ _ _ _ Hv) as [_ Hall].
    destruct (Hall fr Hin) as [d' Hd']. rewrite Hd'. f_equal.
    exact (fixed_payload_detects _ _ _ _ _ _ Hd Hd' Hcf).
  Qed.

  (* slices away from a patched range *)



  Variable lex_ok vec_ok : bytes -> bool.

  (* verify's whole input is the same on two files that differ only inside a byte range that
     lies outside the log region and before / outside every index the layout refers to *)
  Theorem vstate_blind (pre mid mid' post : bytes) l :
    length mid' = length mid ->
    layout_outside l (N.of_nat (length pre)) (N.of_nat (length pre + length mid)) = true ->
    vstate_of H lex_ok vec_ok (pre ++ mid' ++ post) l = vstate_of H lex_ok vec_ok (pre ++ mid ++ post) l.
  Proof using Type.
    clear unzstd.
    intros Hl Ho. unfold layout_outside in Ho.
    apply andb_true_iff in Ho. destruct Ho as [Ho Hvec].
    apply andb_true_iff in Ho. destruct Ho as [Ho Hlex].
    apply andb_true_iff in Ho. destruct Ho as [Hwal Htime].
    unfold vstate_of. f_equal.
    - destruct (l_time l) as [[[off len] count]|]; [|reflexivity].
      apply N.leb_le in Htime. unfold read_track. rewrite !skipn_after by lia. rewrite Hl. reflexivity.
    - destruct (l_lex l) as [[off len]|]; [|reflexivity].
      pose proof (slice_outside pre mid mid' post (off, len) Hl Hlex) as E. cbn [fst snd] in E. rewrite E. reflexivity.
    - destruct (l_vec l) as [[off len]|]; [|reflexivity].
      pose proof (slice_outside pre mid mid' post (off, len) Hl Hvec) as E. cbn [fst snd] in E. rewrite E. reflexivity.
    - pose proof (slice_outside pre mid mid' post (l_wal_off l, l_wal_size l) Hl Hwal) as E. cbn [fst snd] in E. rewrite E. reflexivity.
  Qed.

  Corollary verify_blind (pre mid mid' post : bytes) l deep :
    length mid' = length mid ->
    layout_outside l (N.of_nat (length pre)) (N.of_nat (length pre + length mid)) = true ->
    verify_overall deep (vstate_of H lex_ok vec_ok (pre ++ mid' ++ post) l) =
    verify_overall deep (vstate_of H lex_ok vec_ok (pre ++ mid ++ post) l).
  Proof using Type. intros Hl Ho. rewrite (vstate_blind _ _ _ _ _ Hl Ho). reflexivity. Qed.

  (* ---- the end of open_locked *)
  Theorem final_check_no_restamp t : open_final_check H t None = verify_checksum H t.
  Proof. unfold open_final_check. destruct (verify_checksum H t); reflexivity. Qed.

  Theorem final_check_defeated t l2 : length l2 = 16%nat -> open_final_check H t (Some (VList l2)) = true.
  Proof.
    intros Hl. unfold open_final_check. destruct (verify_checksum H t); [reflexivity|].
    apply verify_checksum_stamp. exact Hl.
  Qed.
End GuardProofs.

(* ------------------------------------------------------------------ the table *)
Lemma table_outside_known c k o : known_class c = false -> In o (table c k) -> silent o = false.
Proof.
  destruct c; cbn [known_class]; try discriminate; intros _; destruct k; cbn [table In];
    intros Hin; repeat (destruct Hin as [<- | Hin]; [reflexivity|]); destruct Hin.
Qed.

Lemma table_known_silent c : known_class c = true -> exists o, In o (table c Flip) /\ silent o = true.
Proof.
  destruct c; cbn [known_class]; try discriminate; intros _;
    first [ exists (VDiff, VDiff, 0); split; [cbn; tauto | reflexivity]
          | exists (VDiff, VSame, 1); split; [cbn; tauto | reflexivity]
          | exists (VDiff, VError, 2); split; [cbn; tauto | reflexivity] ].
Qed.

(* classes nothing reads: the table predicts "all reads equal, verify Passed" and nothing else *)
Lemma table_not_read c : guard_of c = GNotRead -> table c Flip = [S3] /\ table c Zero = [S3].
Proof. destruct c; cbn [guard_of]; try discriminate; intros _; split; reflexivity. Qed.

(* truncation anywhere before the end of the footer: no observation with a successful read-only open *)
Lemma table_trunc_ro_error c o : c <> PastFooter -> In o (table c Trunc) -> snd (fst o) = VError.
Proof.
  intros Hc. destruct c; try congruence; cbn [table In]; intros Hin;
    repeat (destruct Hin as [<- | Hin]; [reflexivity|]); destruct Hin.
Qed.
